"""C06 — quad syntaxes round-trip a Dataset: each triple returns to the graph it was in; an RDF
Patch diff applied to the first dataset yields the second.  DESIGN §6 C06, design.d/C06.md.

Case = {"kind": "ds"|"dsu"|"cg",           Dataset() | Dataset(default_union=True) | ConjunctiveGraph()
        "reg":  [name…],                     graphs registered explicitly (may stay empty)
        "quads": [[s,p,o,g]…],               g = "D" (default graph) | "i<n>" | "b<n>"
        "api": int,                          which public calls build the dataset / bytes vs str input
        "enc": [format, encoding] | None,    serialize(format, encoding=…) for that ONE format (utf-8 | latin-1 | ascii | utf-16)
        "src": {flag: True},                 how the source object is made: store_inst, dflt_base, graph_base, anon_graph
                                             (Dataset.graph() without identifier), history (emptied / removed graphs), cg_id
        "io": [format, {…}] | None,          how serialize()/parse() are called for ONE format: dest path|purepath|bytesio,
                                             twice, direct (serializer instance used twice), alias (MIME name), noformat,
                                             inp bytesio|stringio|path|purepath|location|file|inputsource, guess, pkw (parser keywords)
        "pmode": None|"headers"|"remove"|"both",   RDF Patch call: target (default), target+headers, operation="remove",
                                             operation+target; d2.kind / d2.copy_kind: default_union of target / patched copy
        "binds": [[prefix, namespace]…],     namespace bindings of the source dataset (prefixes spelling syntax keywords)
        "opt": [format, {keyword: value}] | None,   further serializer keywords for ONE format: json-ld context (prefix terms,
                                             @vocab, plain terms equal to graph / predicate IRIs, @base), auto_compact,
                                             use_native_types, use_rdf_type, base, sort_keys, indent, ensure_ascii; trig base,
                                             spacious; nquads / trix / hext base; patch header_id, header_prev
        "d2": {"reg": […], "quads": […]} | None,      second dataset for the patch clause (ds/dsu only)
        "ptext": {"mode", "hid", "hprev", "clean", "doc"} | None}   round g, text level of RDF Patch (ds/dsu with d2):
                                             mode = target | default | add | remove | add+target | remove+target (keywords of
                                             serialize), hid / hprev = None | "" | n (header_id / header_prev = urn:h:n);
                                             doc = a hand-made patch document, lines in the driver's token form; clean = it is
                                             the diff d1 → d2 respelled (rows shuffled / repeated, `<_:b>` labels, comments, blank
                                             lines, H / TX / TC / TA / PA / PD rows in between): applied to d1 it must give d2
        "htext": [{"row": [6 JSON values], "ascii": bool, "sep": str, "pad": [str, str]}…] | absent   round h: hand-made hextuples
                                             rows (one document line each), parsed one by one by the real parser
Terms are tokens into the vocabulary below (i = IRI, l = literal, b = blank node); a graph name
shares its token with the same term used inside triples.

Observations (all canonical up to ONE renaming of blank nodes, graph names included):
  per format F:  emit  = {(graph the label routes to (no label = default graph), s, p, o)} read from the serializer's output by a
                         small independent reader (N-Quads 4th column, TriG block headers, TriX <graph>
                         children, hext 6th element, JSON-LD top-level @graph/@id, patch rows)
                 route = quads of Dataset().parse(data=output, format=F)
  patch pair:    rows of d1.serialize(format="patch", target=d2) and the quads after applying them to a copy of d1
  hext text:     every line of the hextuples document, character for character (compared with hexLine of the model, as a
                 multiset), and for each hand-made row outcome + the quad the real parser makes of it (compared with parseHexLine)
  patch text:    the whole document written under the case's keywords, line by line (header rows, TX, A rows, D rows, TC;
                 rows sorted inside a run of the same operation) and outcome + quads of parsing the hand-made document into a
                 copy of d1 — compared with serializeDoc / parseDoc of the model
Oracle (independent of Lean): isoutil.iso(expected quads, parsed quads) with the default graph a constant.
"""
import hashlib
import io
import itertools
import os
import pathlib
import tempfile
import json
import math
import re
import warnings
import xml.etree.ElementTree as ET
from urllib.parse import urljoin

import core  # noqa: F401
import isoutil
from rdflib import BNode, ConjunctiveGraph, Dataset, Graph, Literal, URIRef
from rdflib.namespace import RDF, XSD

warnings.filterwarnings("ignore")

ID = "C06"
LEAN_TARGETS = ["RV.C06.Props", "RV.C06.Audit"]
AUDIT = "RV/C06/Audit.lean"
DRIVER = "drv_c06"
CASES = {"quick": 1600, "thorough": 40000, "search": 20000}
RULE = ("random datasets: 0-4 named graphs (IRI and blank-node names, registered-but-empty graphs, empty or "
        "non-empty default graph), triples shared by several graphs, blank nodes shared across graphs and with "
        "graph names, graph names occurring as subject/object, awkward and non-ASCII literals/IRIs, well-formed RDF "
        "collections inside default / named / two graphs; optional serialize(encoding=) on one format and optional "
        "serializer keywords (json-ld context / auto_compact / base / …, trig base, …) on one format; optional namespace "
        "bindings whose prefixes spell syntax keywords (graph, prefix, base, a, true, …); built through Dataset(), "
        "Dataset(default_union=True) or ConjunctiveGraph() with varying public calls; each serialised in "
        "nquads/trig/trix/hext/json-ld/patch and parsed into an empty Dataset; plus a random edit d2 of the dataset for "
        "the patch clause.  non-trivial = at least two destination graphs carry triples or a blank node is a graph "
        "name; distinct = distinct (kind, reg, quads, d2)")
ASSUMPTIONS = ["serialize(encoding=e): the caller either decodes the bytes with e or hands the bytes to the parser "
               "(formats that are UTF-8 by definition ignore e); either way must round-trip; UnicodeEncodeError is an "
               "acceptable refusal (the case is then judged with the default encoding); silent replacement is a violation",
               "store.contexts() lists every graph that holds a triple (C02)",
               "triple-level text (term spelling, literal quoting, prefixes) round-trips (C03/C05); literals typed "
               "xsd:string are identified with plain literals (RDF 1.1) when comparing",
               "blank nodes linked only through blank-node cycles inside one graph are not generated (JSON-LD node "
               "selection is C03's subject); RDF collections are generated well-formed (lengths 0-3, literal / IRI / blank "
               "members, nested once, in the default graph, in named graphs, distinct lists in two graphs) with cells that "
               "are never shared; a cell shared with another graph is known finding C06-K1 (JSON-LD @list cuts it), "
               "outside the block-level model (blocks are assumed to carry their triples up to a renaming of unshared cells)",
               "fresh BNode() identifiers are distinct from each other and from every label in the document"]
TRUSTED = ["harness/c06.py generators, the per-format block readers and the canonicaliser (brute-force minimal "
           "relabelling of blank nodes)", "harness/isoutil.py (exact iso decision, cross-validated by C14)",
           "lean/RV/C06/Drive.lean line protocol"]

E = "http://e/"
IRIS = {"i1": URIRef(E + "a"), "i2": URIRef(E + "b"), "i3": URIRef(E + "c/d#e"), "i4": URIRef(E + "g1"),
        "i5": URIRef(E + "g2"), "i6": URIRef("urn:g:3"), "i7": URIRef(E + "p"), "i8": URIRef(E + "q"),
        "i9": RDF.type,
        # RDF collections (well-formed, cells never shared; K1's witness shares one by hand)
        "i10": RDF.first, "i11": RDF.rest, "i12": RDF.nil,
        # non-ASCII: two look-alike graph names (Greek alpha / Cyrillic a: both become `?` under a lossy codec),
        # one name / node that Latin-1 can represent
        "i16": URIRef(E + "dflt"),        # identifier given to a ConjunctiveGraph (its default context is then IRI-named)
        "i17": URIRef(E + "anon"),        # placeholder: the graph made by Dataset.graph() without identifier (random skolem IRI)
        "i13": URIRef(E + "gr\u03b1ph"), "i14": URIRef(E + "gr\u0430ph"), "i15": URIRef(E + "s\u00e9")}
LITS = {"l1": Literal(""), "l2": Literal("x"), "l3": Literal('a"b\\c\'d'), "l4": Literal("line1\nline2\ttab"),
        "l5": Literal("é☃\U0001F600"), "l6": Literal("<&> {} # _:z . ; }"), "l7": Literal("x", lang="en"),
        "l8": Literal(0), "l9": Literal(False), "l10": Literal("x", datatype=URIRef(E + "dt")), "l11": Literal("caf\u00e9", lang="fr")}
BNODES = {"b1": BNode("b1"), "b2": BNode("b2"), "b3": BNode("b3"), "b4": BNode("b4")}
CELLS = {"b%d" % k: BNode("c%d" % k) for k in range(10, 22)}      # cells of generated RDF collections (never shared)
TERM = {**IRIS, **LITS, **BNODES, **CELLS}
GNAMES = ["i4", "i5", "i6", "b1", "b2", "i1"]     # i1 = a name that is mostly used as an ordinary subject
SUBJ = ["i1", "i2", "i3", "i4", "i5", "b1", "b2", "b3", "b4"]
OBJ_I = ["i1", "i2", "i3", "i4", "i6"]
CG_DEFAULT = "b99"     # token of a ConjunctiveGraph's default context (a BNode identifier)
DEFAULT_ID = URIRef("urn:x-rdflib:default")
NONASCII_NAMES = ["i13", "i14", "i15"]
NONASCII = {"i13", "i14", "i15", "l5", "l11"}
ENCODINGS = ["utf-8", "latin-1", "ascii", "utf-16"]      # None = the default (str result) is the no-axis case
FORMATS = ["nquads", "trig", "trix", "hext", "jsonld", "patch"]
ALIASES = {"nquads": "application/n-quads", "trig": "application/trig", "trix": "application/trix",
           "jsonld": "application/ld+json"}
SUFFIX = {"nquads": ".nq", "trig": ".trig", "trix": ".trix", "jsonld": ".jsonld"}      # rdflib.util.SUFFIX_FORMAT_MAP
ANON_QUAD = ["i1", "i7", "l2", "i17"]
# serializer keywords (one format per case); the JSON-LD contexts cover the namespaces the graph names live in
CTX_PREFIXES = [("e", E), ("cd", E + "c/d#"), ("u", "urn:g:"), ("rdf", str(RDF)), ("xsd", str(XSD))]
CTX_TERMS = [("g1", E + "g1"), ("g2", E + "g2"), ("a", E + "a"), ("p", E + "p"), ("q", E + "q"), ("three", "urn:g:3"),
             ("b", E + "b")]
CTX_VOCABS = [E, E, E + "c/d#", "urn:g:"]
BASES = [E, E + "x/y", E + "c/", E + "g1", E + "a"]        # the last two are IRIs of graphs / nodes of the vocabulary
# namespace bindings of the SOURCE dataset: prefixes that spell keywords of the quad syntaxes (any case), bound to the
# namespaces of graph names, subjects, predicates and objects; sometimes with the empty prefix bound elsewhere
KEYWORD_PREFIXES = ["graph", "GRAPH", "Graph", "prefix", "PREFIX", "base", "BASE", "a", "A", "true", "false", "TRUE",
                    "default", "DEFAULT", "union", "named", "NAMED", "_", "id", "uri", "triple", "TriX", "xml", "xmlns",
                    "list", "set", "type", "value", "nil", "rdf", "e"]
BIND_NS = [E, E, E, E + "c/d#", E + "c/", "urn:g:", str(RDF), "http://other.example/"]
RDFLIB_FMT = {"jsonld": "json-ld"}


# ------------------------------------------------------------------ term keys (independent of rdflib parsers)

def _lkey(lex, dt, lang):
    if dt == str(XSD.string):
        dt = None
    return ("l", lex, dt, (lang or None) and lang.lower())


def term_key(t):
    if isinstance(t, BNode):
        return ("b", str(t))
    if isinstance(t, Literal):
        return _lkey(str(t), str(t.datatype) if t.datatype is not None else None, t.language)
    return ("i", str(t))


KEY2TOK = {term_key(v): k for k, v in TERM.items()}


def tok_of_key(k, bmap=None):
    if k[0] == "b":
        lab = k[1]
        if bmap and lab in bmap:
            return bmap[lab]
        return KEY2TOK.get(k) or "b~" + lab
    if k[0] == "i" and bmap and k[1] in bmap:
        return bmap[k[1]]
    return KEY2TOK.get(k) or ("D" if k == ("i", str(DEFAULT_ID)) else "?" + repr(k))


def norm(t):
    if isinstance(t, Literal) and t.datatype == XSD.string:
        return Literal(str(t))
    return t


# ------------------------------------------------------------------ canonical form up to blank-node renaming

def canon(rows):
    """minimal relabelling of blank nodes: colour refinement splits them into classes, the remaining ties are
    broken by brute force (exact as long as the product of the class factorials stays small)"""
    rows = {tuple(r) for r in rows}
    bs = sorted({x for r in rows for x in r if x[:1] == "b"})
    if not bs:
        return sorted(rows)
    col = {b: "" for b in bs}
    for _ in range(4):
        new = {}
        for b in bs:
            sig = sorted(tuple("*" if y == b else ("b:" + col[y] if y[:1] == "b" else y) for y in r)
                         for r in rows if b in r)
            new[b] = hashlib.sha1(repr((col[b], sig)).encode()).hexdigest()[:10]
        col = new
    groups = {}
    for b in bs:
        groups.setdefault(col[b], []).append(b)
    keys = sorted(groups)
    n_perm = 1
    for k in keys:
        n_perm *= math.factorial(len(groups[k]))
    if n_perm > 5040:      # never produced by the generator; lossy but deterministic (the oracle does not depend on it)
        return sorted({tuple("b?" if x[:1] == "b" else x for x in r) for r in rows}) + [("bnodes", str(len(bs)))]
    best = None
    for perms in itertools.product(*[itertools.permutations(groups[k]) for k in keys]):
        order = [b for p in perms for b in p]
        m = {b: "b%d" % i for i, b in enumerate(order)}
        cand = sorted(tuple(m.get(x, x) for x in r) for r in rows)
        if best is None or cand < best:
            best = cand
    return best


def line(rows, exact=False):
    rs = sorted({tuple(r) for r in rows}) if exact else canon(rows)
    return " ".join(",".join(r) for r in rs)


# ------------------------------------------------------------------ generator

def _triple(rng, prefer_b):
    s = rng.choice(prefer_b) if prefer_b and rng.random() < 0.35 else rng.choice(SUBJ)
    r = rng.random()
    if r < 0.12:
        return [s, "i9", rng.choice(OBJ_I)]
    p = rng.choice(["i7", "i8"])
    if r < 0.45:
        o = rng.choice(list(LITS))
    elif r < 0.7:
        o = rng.choice(OBJ_I)
    else:
        o = rng.choice(prefer_b) if prefer_b and rng.random() < 0.5 else rng.choice(list(BNODES))
        if s[0] == "b" and not int(s[1:]) < int(o[1:]):      # blank → blank only upwards (no cycles inside a graph)
            o = rng.choice(list(LITS))
    return [s, p, o]


def _gen_ds(rng, nonascii=False):
    n_named = rng.choice([0, 1, 1, 2, 2, 3, 4])
    names = rng.sample(GNAMES + (NONASCII_NAMES * 2 if nonascii else []), n_named)
    names = list(dict.fromkeys(names))
    reg = [g for g in names if rng.random() < 0.6]
    if rng.random() < 0.25:
        reg.append(rng.choice(GNAMES))          # a registered graph that probably stays empty
    reg = list(dict.fromkeys(reg))
    dests = list(names)
    if rng.random() < 0.75 or not dests:
        dests.append("D")
    bnames = [g for g in names if g[0] == "b"] + [g for g in names if g in SUBJ]
    quads = []
    for _ in range(rng.randint(0, 9)):
        t = _triple(rng, bnames)
        if nonascii and rng.random() < 0.4:
            if rng.random() < 0.5:
                t[0] = rng.choice(NONASCII_NAMES)
            if t[1] != "i9":
                t[2] = rng.choice(["l5", "l11", "i13", "i14", "i15"])
        g = rng.choice(dests)
        if rng.random() < 0.3 and quads:
            t = list(rng.choice(quads)[:3])       # a triple present in several graphs
        q = t + [g]
        if q not in quads:
            quads.append(q)
    if rng.random() < 0.4:
        _add_lists(rng, quads, dests)
    return reg, quads


def _gen_list(rng, cells, depth=0):
    """a well-formed collection: returns (head token, triples); `cells` = unused cell labels"""
    n = rng.choice([0, 1, 1, 2, 2, 3])
    if n == 0 or len(cells) < n:
        return "i12", []
    mine = [cells.pop() for _ in range(n)]
    triples = []
    for k, c in enumerate(mine):
        r = rng.random()
        if depth == 0 and r < 0.2 and len(cells) >= 1:
            m, inner = _gen_list(rng, cells, 1)           # nested once
            triples += inner
        elif r < 0.6:
            m = rng.choice(list(LITS))
        elif r < 0.85:
            m = rng.choice(OBJ_I)
        else:
            m = rng.choice(list(BNODES))
        triples.append([c, "i10", m])
        triples.append([c, "i11", mine[k + 1] if k + 1 < n else "i12"])
    return mine[0], triples


def _add_lists(rng, quads, dests):
    """0-2 collections; a second one goes to ANOTHER graph when there is one (distinct lists, distinct cells)"""
    cells = list(CELLS)
    rng.shuffle(cells)
    cells = cells[:9]
    used = []
    for _ in range(rng.choice([0, 0, 1, 1, 2])):
        pool = [g for g in dests if g not in used] or dests
        g = rng.choice(pool)
        used.append(g)
        head, triples = _gen_list(rng, cells)
        anchor = [rng.choice(["i1", "i2", "i4", "b1", "b3"]), rng.choice(["i7", "i8"]), head]
        for t in [anchor] + triples:
            if t + [g] not in quads:
                quads.append(t + [g])


def _edit(rng, reg, quads):
    quads2 = [list(q) for q in quads]
    dests = sorted({q[3] for q in quads} | set(reg) | {"D", rng.choice(GNAMES)})
    for _ in range(rng.randint(0, 5)):
        r = rng.random()
        if r < 0.3 and quads2:
            quads2.pop(rng.randrange(len(quads2)))
        elif r < 0.55 and quads2:                 # move a triple to another graph
            q = quads2[rng.randrange(len(quads2))]
            q[3] = rng.choice(dests)
        elif r < 0.65 and quads2:                 # empty a whole graph
            g = rng.choice(quads2)[3]
            quads2 = [q for q in quads2 if q[3] != g]
        else:
            quads2.append(_triple(rng, [g for g in dests if g[0] == "b"]) + [rng.choice(dests)])
    out = []
    for q in quads2:
        if q not in out:
            out.append(q)
    reg2 = [g for g in reg if rng.random() < 0.8]
    return reg2, out


def _gen_opts(rng, F):
    o = {}
    if F == "jsonld":
        r = rng.random()
        if r < 0.2:
            o["auto_compact"] = True
        elif r < 0.85:
            ctx = {}
            for pfx, ns in rng.sample(CTX_PREFIXES, rng.randint(0, 2)):
                ctx[pfx] = ns
            if rng.random() < 0.5:
                ctx["@vocab"] = rng.choice(CTX_VOCABS)
            for t, iri in rng.sample(CTX_TERMS, rng.choice([0, 0, 1, 2, 3])):
                ctx[t] = iri
            if rng.random() < 0.2:
                ctx["@base"] = rng.choice(BASES)
            if not ctx:
                ctx["@vocab"] = E
            o["context"] = ctx
        if rng.random() < 0.25:
            o["use_native_types"] = rng.choice([True, False])
        if rng.random() < 0.25:
            o["use_rdf_type"] = True
        if rng.random() < 0.2:
            o["base"] = rng.choice(BASES)
        if rng.random() < 0.1:
            o["sort_keys"] = False
        if rng.random() < 0.1:
            o["indent"] = None
        if rng.random() < 0.1:
            o["ensure_ascii"] = True
    elif F == "trig":
        if rng.random() < 0.7:
            o["base"] = rng.choice(BASES)
        if rng.random() < 0.4 or not o:
            o["spacious"] = True
    elif F == "patch":
        if rng.random() < 0.7:
            o["header_id"] = "urn:h:1"
        if rng.random() < 0.5 or not o:
            o["header_prev"] = "urn:h:0"
    else:
        o["base"] = rng.choice(BASES)
    return o



def _gen_htext(rng):
    """hand-made hextuples rows: the six columns in the spellings the row reader distinguishes"""
    rows = []
    iri = lambda: str(TERM[rng.choice(["i1", "i2", "i3", "i4", "i6", "i13", "i15"])])       # noqa: E731
    lex = lambda: str(TERM[rng.choice(list(LITS))])                                          # noqa: E731
    for _ in range(rng.choice([1, 2, 3])):
        s_ = rng.choice([iri(), iri(), "_:b1", "_:c10", "_b2", "_", "", None] if rng.random() < 0.3 else [iri(), "_:b1", "_:b2"])
        p_ = rng.choice([iri(), iri(), iri(), "", None]) if rng.random() < 0.2 else iri()
        k = rng.randrange(9)
        if k == 0:
            v, dt, lg = iri(), "globalId", rng.choice(["", None, "en"])
        elif k == 1:
            v, dt, lg = rng.choice(["_:b2", "b2", "_b3", "_:c11"]), "localId", ""
        elif k == 2:
            v, dt, lg = lex(), str(XSD.string), rng.choice(["", None])
        elif k == 3:
            v, dt, lg = lex(), str(RDF) + "langString", rng.choice(["en", "fr", "de-at"])
        elif k == 4:
            v, dt, lg = lex(), rng.choice([E + "dt", str(XSD.string), "urn:x:dt"]), rng.choice(["", "en"])
        elif k == 5:
            v, dt, lg = "", rng.choice([str(XSD.string), E + "dt", "globalId"]), ""
        elif k == 6:
            v, dt, lg = rng.choice([lex(), None]), rng.choice(["", None, E + "dt"]), ""
        elif k == 7:
            v, dt, lg = "x\u00e9\u2603\U0001F600/\"\\\n\t\x01", E + "dt", ""
        else:
            v, dt, lg = lex(), E + "dt", ""
        g_ = rng.choice(["", "", None, iri(), iri(), "_:b1", "_:b2", "_b1", "_"])      # no empty label: BNode("") is a fresh node
        row = [s_, p_, v, dt, lg, g_]
        r = rng.random()
        if r < 0.08:
            row = row[:5]
        elif r < 0.16:
            row = row + [rng.choice(["extra", "", None])]
        rows.append({"row": row, "ascii": rng.random() < 0.6, "sep": rng.choice([", ", ", ", ",", " , ", ",\t"]),
                     "pad": [rng.choice(["", "", " "]), rng.choice(["\n", "\n", "", " \n", "\r\n"])]})
    return rows


def hext_row_text(h):
    body = json.dumps(h["row"], ensure_ascii=h["ascii"], separators=(h["sep"], ": "))
    return h["pad"][0] + body + h["pad"][1]


def _cps(x):
    return "-" if x == "" else ".".join(str(ord(c)) for c in x)


WEIRD_HEADS = ["AA", "AD", "DA", "DD", "ADA", "X", "a", "d", "PAD", "PDA", "PAP", "PX", "TAX", "TCP", "TXT", "Hello", "HA", "T", "P"]


def _gen_ptext(rng, quads, quads2):
    """keywords for the patch serializer + a hand-made patch document (token lines of the driver protocol)"""
    hdr = lambda: rng.choice([None, None, "", 1, 2, 3])      # noqa: E731
    mode = rng.choice(["target"] * 4 + ["default", "add", "remove", "add+target", "remove+target"])
    adds = [q for q in quads2 if q not in quads]
    dels = [q for q in quads if q not in quads2]
    clean = rng.random() < 0.55
    rows = [("A", q) for q in adds] + [("D", q) for q in dels]
    if clean:
        rng.shuffle(rows)
        if rows:
            rows += [rng.choice(rows) for _ in range(rng.choice([0, 0, 1, 2]))]     # a repeated row changes nothing
    else:
        pool = [list(q) for q in quads + quads2] or [["i1", "i7", "l2", "D"]]
        rows = []
        for _ in range(rng.randint(1, 7)):
            q = list(rng.choice(pool))
            if rng.random() < 0.3:
                q[3] = rng.choice(GNAMES + ["D"])
            rows.append((rng.choice("AD"), q))
            if rng.random() < 0.3:                     # the same quad again with the other (or the same) operation
                rows.append((rng.choice("AD"), q))

    def angle(t):
        return "w" + t[1:] if t[0] == "b" and rng.random() < 0.3 else t

    def qline(head, q):
        s_, p_, o_, g_ = q
        g_ = "U" if g_ == "D" and rng.random() < 0.85 else g_        # sometimes <urn:x-rdflib:default> spelled out
        return [head, "Q", angle(s_), p_, angle(o_), angle(g_) if g_ != "U" else g_]

    lines = []
    for op, q in rows:
        head = op
        if not clean and rng.random() < 0.12:
            head = rng.choice(WEIRD_HEADS)
        lines.append(qline(head, q))
    some_q = (rows[0][1] if rows else ["i1", "i7", "l2", "D"])
    neutral = [["B"], ["C"], ["TX", "."], ["TC", "."], ["TA", "."], ["TA", "N"], ["H", "H", "id", "3"], ["H", "H", "prev", "2"],
               ["PA", "P"], ["PD", "P"], ["A", "N"], ["D", "N"], ["A", "K"], ["D", "K"], ["TC", "K"], qline("H", some_q), qline("TX", some_q), ["Hello", "N"],
               ["PA", "H", "id", "1"]]
    noisy = [[rng.choice(WEIRD_HEADS), rng.choice(["N", ".", "P", "K"])], ["PA", "K"], ["PAD", "K"], ["PDA", "K"], ["A", "."], ["D", "P"], ["PA", "N"], ["PD", "."],
             qline("PA", some_q), ["A", "H", "id", "1"], ["AD", "N"], ["PAD", "P"]]
    for _ in range(rng.choice([0, 1, 2, 3, 4])):
        lines.insert(rng.randrange(len(lines) + 1), list(rng.choice(neutral)))
    if not clean:
        for _ in range(rng.choice([0, 0, 1, 1, 2])):
            lines.insert(rng.randrange(len(lines) + 1), list(rng.choice(noisy)))
    return {"mode": mode, "hid": hdr(), "hprev": hdr(), "clean": clean, "doc": lines, "ws": rng.randrange(1 << 16)}


def gen_case(rng, tier, i):
    kind = rng.choice(["ds", "ds", "ds", "dsu", "dsu", "cg"])
    enc = None
    if rng.random() < 0.45:       # the `encoding=` option of serialize(), on ONE format per case
        enc = [rng.choice(FORMATS if kind != "cg" else FORMATS[:-1]), rng.choice(ENCODINGS)]
    reg, quads = _gen_ds(rng, nonascii=enc is not None or rng.random() < 0.15)
    d2 = None
    if kind != "cg" and rng.random() < 0.6:
        reg2, quads2 = _edit(rng, reg, quads)
        d2 = {"reg": reg2, "quads": quads2}
    binds = []
    if rng.random() < 0.4:
        for _ in range(rng.choice([1, 1, 2, 3])):
            binds.append([rng.choice(KEYWORD_PREFIXES), rng.choice(BIND_NS)])
        if rng.random() < 0.35:
            binds.insert(rng.randrange(len(binds) + 1), ["", rng.choice(BIND_NS[3:] + [E])])
    opt = None
    if rng.random() < 0.45:       # serializer keywords, on ONE format per case (json-ld has by far the most)
        F = rng.choice(["jsonld"] * 5 + (FORMATS if kind != "cg" else FORMATS[:-1]))
        opt = [F, _gen_opts(rng, F)]
    big = tier == "thorough"
    src = {}
    if rng.random() < (0.3 if big else 0.15):        # how the source object came to be
        for flag, ok in (("cg_id", kind == "cg"), ("anon_graph", kind != "cg"), ("graph_base", kind != "cg"),
                         ("dflt_base", True), ("history", True), ("store_inst", True)):
            if ok and rng.random() < 0.3:
                src[flag] = True
    iox = None
    if rng.random() < (0.5 if big else 0.25):        # how serialize() / parse() are called, on ONE format per case
        F = rng.choice(FORMATS if kind != "cg" else FORMATS[:-1])
        o = {}
        r = rng.random()
        if r < 0.45:
            o["dest"] = rng.choice(["path", "purepath", "bytesio"])
        elif r < 0.6:
            o["twice"] = True
        elif r < 0.75:
            o["direct"] = True
        if F in ALIASES and rng.random() < 0.25:
            o["alias"] = True
        if F == "trig" and kind != "cg" and not o.get("direct") and rng.random() < 0.3:   # Dataset.serialize() defaults to trig
            o["noformat"] = True
        if rng.random() < 0.6:
            o["inp"] = rng.choice(["bytesio", "stringio", "path", "purepath", "location", "file", "inputsource"])
            if o["inp"] in ("path", "purepath", "location") and F in SUFFIX and rng.random() < 0.5:
                o["guess"] = True
        if rng.random() < 0.4:
            o["pkw"] = rng.choice({
                "nquads": [{"bnode_context": {}}],
                "patch": [{"bnode_context": {}}],
                "trix": [{"preserve_bnode_ids": True}, {"preserve_bnode_ids": False}],
                "jsonld": [{"version": 1.0}, {"version": 1.1}, {"generalized_rdf": True}, {"encoding": "utf-8"},
                           {"base_kw": True}],
                "trig": [{"encoding": "utf-8"}],
                "hext": [{"encoding": "utf-8"}]}[F])
        if o:
            iox = [F, o]
    pmode = None
    if d2 is not None:
        r = rng.random()
        if r < (0.45 if big else 0.3):
            pmode = rng.choice(["headers", "remove", "both", "remove"])
        if rng.random() < (0.4 if big else 0.25):
            d2["kind"] = rng.choice(["ds", "dsu"])           # default_union of the target independent of the source's
        if rng.random() < 0.2:
            d2["copy_kind"] = rng.choice(["ds", "dsu"])      # … and of the dataset the patch is applied to
    api = rng.randrange(6)
    ptext = None
    if d2 is not None and not src.get("anon_graph"):
        ptext = _gen_ptext(rng, quads, d2["quads"])
    return {"kind": kind, "reg": reg, "quads": quads, "api": api, "d2": d2, "enc": enc, "opt": opt,
            "binds": binds, "src": src, "io": iox, "pmode": pmode, "ptext": ptext,
            "htext": _gen_htext(rng) if rng.random() < 0.5 else None}


# ------------------------------------------------------------------ building the datasets through the public API

def build(kind, reg, quads, api=0, binds=(), src=None):
    src = src or {}
    kw = {}
    if src.get("store_inst"):
        from rdflib.plugins.stores.memory import Memory
        kw["store"] = Memory()
    if src.get("dflt_base"):
        kw["default_graph_base"] = E + "db/"
    if kind == "cg":
        ds = ConjunctiveGraph(identifier=TERM["i16"] if src.get("cg_id") else None, **kw)
    else:
        ds = Dataset(default_union=(kind == "dsu"), **kw)
    for pfx, ns in binds:
        ds.bind(pfx, ns)
    if src.get("graph_base") and kind != "cg":
        for g in list(reg) + [q[3] for q in quads if q[3] != "D"]:
            ds.graph(TERM[g], base=E + "gb/")
            break
    if src.get("history"):           # graphs that held something once: emptied by remove(), dropped by remove_graph/_context
        t = (TERM["i2"], TERM["i8"], TERM["l2"])
        a, b = URIRef(E + "emptied"), URIRef(E + "removed")
        ga = ds.get_context(a)
        ga.add(t)
        ga.remove(t)
        ds.get_context(b).add(t)
        if kind == "cg":
            ds.remove_context(ds.get_context(b))
        else:
            ds.remove_graph(b)
    for g in reg:
        if kind == "cg":
            ds.store.add_graph(ds.get_context(TERM[g]))
        else:
            ds.graph(TERM[g])
    for k, (s, p, o, g) in enumerate(quads):
        t = (TERM[s], TERM[p], TERM[o])
        if g == "D":
            if (k + api) % 2 == 0:
                ds.add(t)
            else:
                ds.default_context.add(t)
            continue
        how = (k + api) % 3
        if how == 0:
            ds.add(t + (ds.get_context(TERM[g]),))
        elif how == 1:
            (ds.get_context(TERM[g]) if kind == "cg" else ds.graph(TERM[g])).add(t)
        else:
            ds.addN([t + (ds.get_context(TERM[g]),)])
    return ds


def expected_quads(quads, default, term=None):
    term = term or TERM
    return {(term[s], term[p], term[o], default if g == "D" else term[g]) for s, p, o, g in quads}


def got_quads(ds):
    out = set()
    for s, p, o, c in ds.quads((None, None, None, None)):
        cid = c.identifier if isinstance(c, Graph) else c
        if cid is None:
            cid = DEFAULT_ID
        out.add((norm(s), norm(p), norm(o), cid))
    return out


def quad_rows(qs, bmap=None):
    rows = []
    for s, p, o, c in qs:
        g = "D" if c == DEFAULT_ID else tok_of_key(term_key(c), bmap)
        rows.append((tok_of_key(term_key(s), bmap), tok_of_key(term_key(p), bmap), tok_of_key(term_key(o), bmap), g))
    return rows


# ------------------------------------------------------------------ independent block readers

_UNESC = re.compile(r'\\(u[0-9A-Fa-f]{4}|U[0-9A-Fa-f]{8}|.)', re.S)
_ESC = {"t": "\t", "b": "\b", "n": "\n", "r": "\r", "f": "\f", '"': '"', "'": "'", "\\": "\\"}


def _unesc(s):
    def f(m):
        x = m.group(1)
        if x[0] in "uU" and len(x) > 1:
            return chr(int(x[1:], 16))
        return _ESC.get(x, x)
    return _UNESC.sub(f, s)


_NQ_TERM = re.compile(r'\s*(?:<([^>]*)>|_:([A-Za-z0-9_]+)|"((?:[^"\\]|\\.)*)"(?:@([A-Za-z0-9\-]+)|\^\^<([^>]*)>)?)')


def _nq_terms(s):
    """N-Quads / patch row body → list of term keys (up to the final '.')"""
    out, pos = [], 0
    while True:
        rest = s[pos:].strip()
        if rest == "." or rest == "":
            return out
        m = _NQ_TERM.match(s, pos)
        if not m:
            raise ValueError("unreadable row: %r" % s)
        if m.group(1) is not None:
            out.append(("i", _unesc(m.group(1))))
        elif m.group(2) is not None:
            out.append(("b", m.group(2)))
        else:
            out.append(_lkey(_unesc(m.group(3)), m.group(5), m.group(4)))
        pos = m.end()


def read_nquads(text):
    st = []
    for ln in text.split("\n"):
        if not ln.strip():
            continue
        ts = _nq_terms(ln)
        if len(ts) not in (3, 4):
            raise ValueError("row with %d terms" % len(ts))
        st.append((ts[3] if len(ts) == 4 else None, ts[0], ts[1], ts[2]))
    return st


def read_patch(text):
    rows = []
    for ln in text.split("\n"):
        ln = ln.strip()
        if not ln or ln in ("TX .", "TC .") or ln.startswith("H "):
            continue
        op, body = ln[0], ln[1:]
        if op not in "AD" or not body.startswith(" "):
            raise ValueError("unexpected patch row %r" % ln)
        ts = _nq_terms(body)
        if len(ts) not in (3, 4):
            raise ValueError("row with %d terms" % len(ts))
        rows.append((op, ts[3] if len(ts) == 4 else None, ts[0], ts[1], ts[2]))
    return rows



def read_patch_doc(text):
    """every line of a patch document as a token string of the driver protocol (independent of rdflib's parser)"""
    out = []
    for ln in text.split("\n"):
        ln = ln.strip()
        if not ln:
            continue
        m = re.fullmatch(r"H (id|prev) <urn:h:(\d+)> \.", ln)
        if m:
            out.append("H,%s,%s" % (m.group(1), m.group(2)))
        elif ln in ("TX .", "TC ."):
            out.append(ln[:2])
        elif ln[:2] in ("A ", "D "):
            ts = _nq_terms(ln[2:])
            if len(ts) not in (3, 4):
                raise ValueError("row with %d terms" % len(ts))
            g = "U" if len(ts) == 3 else ("D" if ts[3] == ("i", str(DEFAULT_ID)) else tok_of_key(ts[3]))
            out.append(",".join([ln[0]] + [tok_of_key(t) for t in ts[:3]] + [g]))
        else:
            raise ValueError("unexpected patch line %r" % ln)
    return out


def _doc_line(tokens):
    """rows of the same operation that follow each other are sorted (their order follows hash order in the code)"""
    out, run = [], []
    for t in tokens + [None]:
        if t is not None and t[:2] in ("A,", "D,") and (not run or run[0][0] == t[0]):
            run.append(t)
            continue
        out += sorted(run)
        run = [t] if t is not None and t[:2] in ("A,", "D,") else []
        if t is not None and not run:
            out.append(t)
    return " ; ".join(out)


def _spell(tok):
    if tok[0] == "w":
        return "<_:%s>" % TERM["b" + tok[1:]]
    if tok == "D":
        return "<%s>" % DEFAULT_ID
    t = TERM[tok]
    if isinstance(t, Literal):          # N-Triples spelling written here (Literal.n3() uses Turtle long strings)
        lex = str(t).replace("\\", "\\\\").replace('"', '\\"').replace("\n", "\\n").replace("\r", "\\r").replace("\t", "\\t")
        return '"%s"' % lex + ("@" + t.language if t.language else "^^<%s>" % t.datatype if t.datatype is not None else "")
    return "_:%s" % t if isinstance(t, BNode) else "<%s>" % t


def patch_text_of(doc, ws):
    """the hand-made document as text (white space variants chosen by `ws`)"""
    import random
    r = random.Random(ws)
    out = []
    for ln in doc:
        if ln == ["B"]:
            out.append(r.choice(["", "   ", "\t"]))
            continue
        if ln == ["C"]:
            out.append(r.choice(["# A <http://e/a> <http://e/p> <http://e/b> .", "#", "  # TX ."]))
            continue
        head, kind = ln[0], ln[1]
        lead = r.choice(["", "", "", " ", "\t "])
        tail = r.choice([" .", " .", " .", ".", " . # c", " .  "])
        if kind == "N":
            body = r.choice(["", "", "   "])
        elif kind == "K":
            body = " # c"
        elif kind == ".":
            body = " ."
        elif kind == "P":
            body = " ex: <http://e/ns#> ."
        elif kind == "H":
            body = " %s <urn:h:%s> ." % (ln[2], ln[3])
        else:
            terms = [_spell(x) for x in ln[2:5]] + ([] if ln[5] == "U" else [_spell(ln[5])])
            if head.startswith("P"):      # PA / PD rows are split at blanks by the code: keep the canonical ` .` there
                tail = " ."
            body = " " + " ".join(terms) + tail
        out.append(lead + head + body)
    return "\n".join(out) + "\n"


def read_hext(text):
    st = []
    for ln in text.split("\n"):
        if not ln.strip():
            continue
        s, p, v, dt, lang, g = json.loads(ln)
        node = lambda x: ("b", x[2:]) if x.startswith("_:") else ("i", x)   # noqa: E731
        if dt == "globalId":
            o = ("i", v)
        elif dt == "localId":
            o = node(v if v.startswith("_:") else "_:" + v)
        else:
            o = _lkey(v, None if lang else dt, lang or None)
        st.append((None if g == "" else node(g), node(s), ("i", p), o))
    return st


_TX = "{http://www.w3.org/2004/03/trix/trix-1/}"
_XMLLANG = "{http://www.w3.org/XML/1998/namespace}lang"


def _trix_term(e):
    tag, txt = e.tag.replace(_TX, ""), e.text or ""
    if tag == "uri":
        return ("i", txt.strip())
    if tag == "id":
        return ("b", txt.strip())
    if tag == "plainLiteral":
        return _lkey(txt, None, e.get(_XMLLANG))
    if tag == "typedLiteral":
        return _lkey(txt, e.get("datatype"), None)
    raise ValueError("unexpected element " + tag)


def read_trix(text):
    root = ET.fromstring(text)     # str: the declared encoding is ignored; bytes: it is honoured
    st, anon = [], 0
    for g in root:
        if g.tag != _TX + "graph":
            raise ValueError("unexpected element " + g.tag)
        name, seen_name = None, False
        for ch in g:
            if ch.tag == _TX + "triple":
                ts = [_trix_term(x) for x in ch]
                if len(ts) != 3:
                    raise ValueError("triple with %d terms" % len(ts))
                if not seen_name:
                    seen_name, anon = True, anon + 1
                    name = ("anon", anon)
                st.append((name, ts[0], ts[1], ts[2]))
            else:
                name, seen_name = _trix_term(ch), True
    return st


class _JlCtx:
    """IRI expansion of JSON-LD 1.1 (§5.2) for the contexts the harness generates: string-valued term
    definitions (terms and prefixes), @vocab, @base; written from the specification, not from rdflib."""

    def __init__(self, ctx, base):
        self.terms, self.vocab, self.base = {}, None, base
        for c in (ctx if isinstance(ctx, list) else [ctx]):
            for k, v in (c or {}).items():
                if k == "@vocab":
                    self.vocab = v
                elif k == "@base":
                    self.base = urljoin(self.base, v) if self.base else v
                elif k.startswith("@"):
                    raise ValueError("context keyword %s is not generated by the harness" % k)
                elif isinstance(v, str):
                    self.terms[k] = v
                else:
                    raise ValueError("expanded term definitions are not generated by the harness")

    def expand(self, x, vocab):
        if x.startswith("_:"):
            return ("b", x[2:])
        if x.startswith("@"):
            raise ValueError("keyword as IRI: " + x)
        if vocab and x in self.terms:
            return ("i", self.terms[x])
        if ":" in x:
            pfx, sfx = x.split(":", 1)
            if not sfx.startswith("//") and pfx in self.terms and self.terms[pfx][-1:] in ":/?#[]@":
                return ("i", self.terms[pfx] + sfx)
            return ("i", x)
        if vocab:
            if self.vocab is None:
                raise ValueError("vocabulary-relative name %r without @vocab" % x)
            return ("i", self.vocab + x)
        if self.base is None:
            return ("i", x)            # stays relative: not an IRI of the vocabulary, shows up as unknown term
        return ("i", urljoin(self.base, x))


_LISTN = [0]


def _jl_value(v, cx):
    if isinstance(v, bool):                  # native JSON values
        return _lkey("true" if v else "false", str(XSD.boolean), None)
    if isinstance(v, int):
        return _lkey(str(v), str(XSD.integer), None)
    if isinstance(v, str):
        return _lkey(v, None, None)
    if isinstance(v, dict) and "@id" in v:
        return cx.expand(v["@id"], False)
    if isinstance(v, dict) and "@value" in v:
        val, dt = v["@value"], v.get("@type")
        if isinstance(val, bool):
            val, dt = ("true" if val else "false"), dt or str(XSD.boolean)
        elif isinstance(val, int):
            val, dt = str(val), dt or str(XSD.integer)
        elif not isinstance(val, str):
            raise ValueError("native JSON value")
        if dt is not None:
            dt = cx.expand(dt, True)[1]
        return _lkey(val, dt, v.get("@language"))
    raise ValueError("unexpected JSON-LD value %r" % (v,))


def _jl_list(items, spell, st, cx):
    """@list → rdf:first/rest cells with labels of their own (a member may itself be a @list)"""
    head = ("i", str(RDF.nil))
    if not isinstance(items, list):
        items = [items]
    for v in reversed(items):
        _LISTN[0] += 1
        cell = ("b", "jl%d" % _LISTN[0])
        member = _jl_list(v["@list"], spell, st, cx) if isinstance(v, dict) and "@list" in v else _jl_value(v, cx)
        st.append((spell, cell, ("i", str(RDF.first)), member))
        st.append((spell, cell, ("i", str(RDF.rest)), head))
        head = cell
    return head


def _jl_node(node, spell, st, cx):
    s = cx.expand(node["@id"], False)
    for k, vals in node.items():
        if k in ("@id", "@graph", "@context"):
            continue
        if not isinstance(vals, list):
            vals = [vals]
        for v in vals:
            if k == "@type":
                o = cx.expand(v, True) if isinstance(v, str) else cx.expand(v["@id"], False)
                st.append((spell, s, ("i", str(RDF.type)), o))
                continue
            p = cx.expand(k, True)
            if isinstance(v, dict) and "@list" in v:
                st.append((spell, s, p, _jl_list(v["@list"], spell, st, cx)))
            else:
                st.append((spell, s, p, _jl_value(v, cx)))


def _jl_item(item, spell, st, cx, top):
    if "@graph" in item:
        inner = spell
        if "@id" in item:
            if spell is not None:
                raise ValueError("graph object inside a named graph")
            inner = cx.expand(item["@id"], False)
        content = item["@graph"]
        for n in (content if isinstance(content, list) else [content]):
            _jl_item(n, inner, st, cx, False)
        if "@id" in item and any(k not in ("@id", "@graph", "@context") for k in item):
            _jl_node(item, spell, st, cx)     # the same object is also a node of the enclosing (default) graph
    elif "@id" in item:
        _jl_node(item, spell, st, cx)
    elif top and set(item) <= {"@context"}:
        pass
    else:
        raise ValueError("node object without @id")


def read_jsonld(text, base=None):
    doc = json.loads(text)
    cx = _JlCtx(doc.get("@context") if isinstance(doc, dict) else None, base)
    st = []
    for item in (doc if isinstance(doc, list) else [doc]):
        _jl_item(item, None, st, cx, True)
    return st


def _trig_scan(text):
    """TriG text → (directives, [(header, body)]) with blank-node labels rewritten to <urn:bn:label>
    outside strings and IRIs, so that the Turtle reader keeps them apart from `[]` nodes."""
    i, n = 0, len(text)
    directives, pending, body, blocks, inside = [], [], [], [], False
    lab = re.compile(r"_:([A-Za-z0-9_]+)")
    while i < n:
        c = text[i]
        out = body if inside else pending
        if c in "\"'":
            q = text[i:i + 3] if text[i:i + 3] in ('"""', "'''") else c
            j = i + len(q)
            while True:
                if text[j] == "\\":
                    j += 2
                    continue
                if text.startswith(q, j):
                    j += len(q)
                    break
                j += 1
            out.append(text[i:j])
            i = j
        elif c == "<":
            j = text.index(">", i) + 1
            out.append(text[i:j])
            i = j
        elif c == "#":
            j = text.find("\n", i)
            i = n if j < 0 else j
        elif c == "_" and lab.match(text, i) and not (out and re.match(r"[\w.\-]", out[-1][-1:])):
            m = lab.match(text, i)
            out.append("<urn:bn:%s>" % m.group(1))
            i = m.end()
        elif c == "{":
            if inside:
                raise ValueError("nested block")
            inside, body = True, []
            blocks.append(["".join(pending).strip(), body])
            pending = []
            i += 1
        elif c == "}":
            if not inside:
                raise ValueError("unbalanced }")
            inside = False
            i += 1
        elif c == "." and not inside:
            directives.append("".join(pending) + ".\n")
            pending = []
            i += 1
        else:
            out.append(c)
            i += 1
    if inside or "".join(pending).strip():
        raise ValueError("trailing text outside blocks")
    return "".join(directives), [(h, "".join(b)) for h, b in blocks]


def _ttl_key(t):
    if isinstance(t, URIRef) and str(t).startswith("urn:bn:"):
        return ("b", str(t)[7:])
    if isinstance(t, BNode):
        return ("b", "sq" + str(t))
    return term_key(t)


def read_trig(text):
    directives, blocks = _trig_scan(text)
    st = []
    for header, body in blocks:
        spell = None
        if header:
            # the optional GRAPH keyword is a token of its own (`graph:g1` is a prefixed name, not keyword + `:g1`)
            h = header[5:].strip() if re.match(r"GRAPH(?=[\s<\[_])", header, re.I) else header
            g = Graph().parse(data=directives + "\n<urn:x:s> <urn:x:p> %s ." % h, format="turtle")
            spell = _ttl_key(next(iter(g))[2])
        g = Graph().parse(data=directives + "\n" + body, format="turtle")
        for s, p, o in g:
            st.append((spell, _ttl_key(s), _ttl_key(p), _ttl_key(o)))
    return st


READERS = {"nquads": read_nquads, "trig": read_trig, "trix": read_trix, "hext": read_hext, "jsonld": read_jsonld}


def stmt_rows(st, bmap):
    rows = []
    for sp, s, p, o in st:
        if sp is None:
            g = "D"       # compared by destination: "no label" and "<urn:x-rdflib:default>" both mean the default graph
        elif sp[0] == "anon":
            g = "b~anon%d" % sp[1]
        else:
            g = tok_of_key(sp, bmap)
        rows.append((g, tok_of_key(s, bmap), tok_of_key(p, bmap), tok_of_key(o, bmap)))
    return rows


# ------------------------------------------------------------------ the implementation run

def _exc(e):
    n = type(e).__name__
    return n if n in ("IndexError", "KeyError", "ValueError", "ParserError", "AssertionError", "TypeError") else "Other"


def run_impl(case):
    kind, reg, quads, api = case["kind"], case["reg"], case["quads"], case.get("api", 0)
    obs, viol, stats = [], [], {"kind_" + kind: 1, "quads": len(quads), "reg_graphs": len(reg)}
    src = case.get("src") or {}
    for k in src:
        stats["ax_src_" + k] = 1
    ds = build(kind, reg, quads, api, case.get("binds") or (), src)
    default_id = ds.default_context.identifier
    bmap = {str(default_id): _cg_default(case)} if kind == "cg" else {}
    term = dict(TERM)
    quads = _eff_quads(case)
    if src.get("anon_graph") and kind != "cg":
        g = ds.graph()                       # Dataset.graph() without identifier: a skolem IRI of its own
        g.add(tuple(TERM[x] for x in ANON_QUAD[:3]))
        term["i17"] = g.identifier
        bmap[str(g.identifier)] = "i17"
    exp_default = expected_quads(quads, DEFAULT_ID, term)
    exp_literal = expected_quads(quads, default_id, term)
    before = got_quads(ds)
    enc_axis = case.get("enc")
    io_axis = case.get("io")
    opt_axis = case.get("opt")
    tmpfiles = []
    hext_text = [None]

    def tmp(suffix):
        fd, path = tempfile.mkstemp(prefix="c06-", suffix=suffix)
        os.close(fd)
        tmpfiles.append(path)
        return path

    def do_serialize(F, fmt, kw, enc, iox):
        """serialize() in the way the case asks for; returns str (no destination, no encoding) or bytes"""
        if iox.get("alias"):
            fmt = ALIASES[F]
        fkw = {} if iox.get("noformat") else {"format": fmt}
        ekw = {"encoding": enc} if enc is not None else {}
        if iox.get("direct"):           # the serializer class itself, one instance used twice
            from rdflib import plugin
            from rdflib.serializer import Serializer
            ser = plugin.get(fmt, Serializer)(ds)
            for _ in range(2):
                buf = io.BytesIO()
                ser.serialize(buf, **{"base": None, "encoding": enc, **kw})
            return buf.getvalue()
        dest = iox.get("dest")
        if dest is None:
            out = ds.serialize(**fkw, **ekw, **kw)
            if iox.get("twice"):
                out = ds.serialize(**fkw, **ekw, **kw)
            return out
        if dest == "bytesio":
            buf = io.BytesIO()
            ds.serialize(destination=buf, **fkw, **ekw, **kw)
            return buf.getvalue()
        path = tmp(SUFFIX.get(F, ".dat"))
        ds.serialize(destination=path if dest == "path" else pathlib.Path(path), **fkw, **ekw, **kw)
        with open(path, "rb") as f:
            return f.read()

    def parse_back(F, fmt, doc, base, iox):
        """parse() in the way the case asks for, into an empty Dataset"""
        pkw = dict(iox.get("pkw") or {})
        kw2 = {}
        if base:                       # the caller who serialised relative to a base parses with it
            if pkw.pop("base_kw", None):
                kw2["base"] = base
            else:
                kw2["publicID"] = base
        pkw.pop("base_kw", None)
        if iox.get("alias"):
            fmt = ALIASES[F]
        if iox.get("guess"):
            fmt = None
        back = Dataset(default_union=(api % 3 == 0))
        inp = iox.get("inp")
        raw = doc if isinstance(doc, bytes) else doc.encode("utf-8")
        if inp is None or (inp == "stringio" and isinstance(doc, bytes)):
            back.parse(data=doc, format=fmt, **kw2, **pkw)
        elif inp == "stringio":
            back.parse(source=io.StringIO(doc), format=fmt, **kw2, **pkw)
        elif inp == "bytesio":
            back.parse(source=io.BytesIO(raw), format=fmt, **kw2, **pkw)
        elif inp == "inputsource":
            from rdflib.parser import create_input_source
            back.parse(source=create_input_source(data=raw), format=fmt, **kw2, **pkw)
        else:
            path = tmp(SUFFIX.get(F, ".dat"))
            with open(path, "wb") as f:
                f.write(raw)
            if inp == "path":
                back.parse(source=path, format=fmt, **kw2, **pkw)
            elif inp == "purepath":
                back.parse(source=pathlib.Path(path), format=fmt, **kw2, **pkw)
            elif inp == "location":
                back.parse(location=path, format=fmt, **kw2, **pkw)
            else:
                with open(path, "rb") as f:
                    back.parse(file=f, format=fmt, **kw2, **pkw)
        return got_quads(back)

    def is_ok(got):
        # a ConjunctiveGraph's default context is also a blank-node-named graph of the store: both readings
        # are accepted by the oracle; which one a format takes is pinned by the model
        return isoutil.iso(exp_default, got) or (kind == "cg" and isoutil.iso(exp_literal, got))

    for F in FORMATS:
        if F == "patch" and kind == "cg":
            continue
        fmt = RDFLIB_FMT.get(F, F)
        kw = {"operation": "add"} if F == "patch" else {}
        opts = dict(opt_axis[1]) if opt_axis and opt_axis[0] == F else {}
        if opts:
            kw.update(opts)
            for k in opts:
                stats["opt_%s_%s" % (F, k)] = 1
            for k in (opts.get("context") or {}):
                stats["ctx_" + ("term" if k[0] != "@" and opts["context"][k][-1:] not in "/#:" else
                                "prefix" if k[0] != "@" else k[1:])] = 1
            if opts.get("auto_compact"):
                ds.bind("e", E)
        base = opts.get("base")
        enc = enc_axis[1] if enc_axis and enc_axis[0] == F else None
        iox = dict(io_axis[1]) if io_axis and io_axis[0] == F else {}
        for k, v in iox.items():
            stats["ax_io_%s_%s" % (k, v if isinstance(v, str) else
                                   ",".join(sorted(v)) if isinstance(v, dict) else "on")] = 1
        if iox and enc is None and (iox.get("dest") or iox.get("direct")):
            pass                          # bytes in the serializer's own default encoding (UTF-8)
        # candidates = [(document text for the independent reader, document as handed to the parser)]
        try:
            if enc is not None:
                stats["enc_" + enc] = 1
                try:
                    data = do_serialize(F, fmt, kw, enc, iox)
                except UnicodeEncodeError:
                    # acceptable refusal: the codec cannot represent the data and the serializer says so
                    stats["enc_refused"] = 1
                    enc = None
            if enc is not None:
                cands = []
                try:            # the caller decodes with the encoding that was asked for
                    t = data.decode(enc)
                    cands.append((t, t))
                except UnicodeError:
                    pass
                try:            # or hands the bytes to the parser (formats that are UTF-8 by definition / XML declaration)
                    cands.append((data if F == "trix" else data.decode("utf-8"), data))
                except UnicodeError:
                    cands.append((None, data))
            elif iox:
                data = do_serialize(F, fmt, kw, None, iox)
                cands = [(data.decode("utf-8"), data)] if isinstance(data, bytes) else [(data, data)]
            elif api % 2:
                data = ds.serialize(format=fmt, encoding="utf-8", **kw)
                cands = [(data.decode("utf-8"), data)]
            else:
                data = ds.serialize(format=fmt, **kw)
                cands = [(data, data)]
        except Exception as e:  # noqa: BLE001
            obs += ["ERR-serialize:" + _exc(e), "ERR-serialize:" + _exc(e)]
            viol.append(f"error-{F}: serialize raised {e!r}"[:300])
            continue
        # (b) where does each triple land after parsing into an empty Dataset (first candidate that round-trips)
        results = []
        for text, doc in cands:
            try:
                got = parse_back(F, fmt, doc, base, iox)
                results.append((is_ok(got), text, got, None))
            except Exception as e:  # noqa: BLE001
                results.append((False, text, None, e))
        results.sort(key=lambda r: (not r[0], r[2] is None))
        ok, text, got, err = results[0]
        # (a) which graph label was each statement written under
        try:
            if text is None:
                raise ValueError("document cannot be decoded")
            if F == "patch":
                st = [(r[1],) + r[2:] for r in read_patch(text) if r[0] == "A"]
                if any(r[0] != "A" for r in read_patch(text)):
                    viol.append("patch-rows: an add patch contains a non-A row")
            else:
                st = read_jsonld(text, base) if F == "jsonld" else READERS[F](text)
            obs.append(line(stmt_rows(st, bmap)))
        except Exception as e:  # noqa: BLE001
            obs.append("ERR-read:" + _exc(e))
            viol.append(f"unreadable-{F}: output not readable by the independent reader: {e!r}"[:300])
        if got is None:
            obs.append("ERR-parse:" + _exc(err))
            viol.append(f"error-{F}: parse of own output raised {err!r}"[:300])
            continue
        obs.append(line(quad_rows(got, bmap)))
        if F == "hext":
            hext_text[0] = text
        if not ok:
            viol.append(f"roundtrip-{F}: quads after {F} round trip"
                        + (f" with encoding={enc!r}" if enc else "") + " differ from the dataset: expected "
                        f"{line(quad_rows(exp_default, bmap))} got {line(quad_rows(got, bmap))}"[:600])
    if got_quads(ds) != before:
        stats["source_mutated"] = 1     # C13's subject; recorded, not judged here
    d2 = case.get("d2")
    if d2 is not None and kind != "cg":
        pmode = case.get("pmode")
        k2, k3 = d2.get("kind", kind), d2.get("copy_kind", kind)
        stats["patch_pairs"] = 1
        stats["ax_patch_mode_" + (pmode or "target")] = 1
        stats["ax_patch_union_src_%s_target_%s_copy_%s" % (kind, k2, k3)] = 1
        target = build(k2, d2["reg"], d2["quads"], api + 1)
        exp1 = expected_quads(quads, DEFAULT_ID, term)
        try:
            if pmode == "remove":        # operation="remove": the patch that empties d1 (= diff(d1, empty))
                patch, start, want = ds.serialize(format="patch", operation="remove"), quads, set()
            elif pmode == "both":        # operation AND target (documented: only one should be given; operation wins)
                patch, start, want = ds.serialize(format="patch", operation="add", target=target), [], None
            elif pmode == "headers":
                patch = ds.serialize(format="patch", target=target, header_id="urn:h:2", header_prev="urn:h:1")
                start, want = quads, expected_quads(d2["quads"], DEFAULT_ID, term)
            else:
                patch = ds.serialize(format="patch", target=target)
                start, want = quads, expected_quads(d2["quads"], DEFAULT_ID, term)
            rows = read_patch(patch)
            obs.append(line([(op, "D" if g is None else tok_of_key(g, bmap), tok_of_key(s, bmap), tok_of_key(p, bmap),
                              tok_of_key(o, bmap)) for op, g, s, p, o in rows], exact=True))
            adds = {(r[2], r[3], r[4], r[1]) for r in rows if r[0] == "A"}
            dels = {(r[2], r[3], r[4], r[1]) for r in rows if r[0] == "D"}
            if adds & dels:
                viol.append("patch-disjoint: a quad is both added and deleted")
            copy = build(k3, reg if start else [], [q for q in start if q != ANON_QUAD], api + 2)
            if start and term.get("i17") is not TERM["i17"]:
                copy.graph(term["i17"]).add(tuple(TERM[x] for x in ANON_QUAD[:3]))
            copy.parse(data=patch, format="patch")
            got = got_quads(copy)
            obs.append(line(quad_rows(got, bmap), exact=True))
            if want is not None and got != want:
                viol.append(f"patch-apply: the {pmode or 'diff(d1,d2)'} patch applied to d1 gives "
                            f"{line(quad_rows(got, bmap), True)} but expected {line(quad_rows(want, bmap), True)} "
                            f"(patch rows: {obs[-2]})"[:700])
            if got_quads(ds) != exp1 and not stats.get("source_mutated"):
                stats["source_mutated"] = 1
        except Exception as e:  # noqa: BLE001
            obs += ["ERR-patch:" + _exc(e)] * (2 - (len(obs) % 2 == 1))
            viol.append(f"error-patchdiff: {e!r}"[:300])
    pt = _ptext_of(case)
    if pt is not None:
        stats["ptext"] = 1
        stats["ptext_mode_" + pt["mode"]] = 1
        stats["ptext_hdr_" + "".join("n" if h is None else "e" if h == "" else "v" for h in (pt["hid"], pt["hprev"]))] = 1
        stats["ptext_doc_" + ("clean" if pt["clean"] else "noisy")] = 1
        d2q = case["d2"]
        try:
            kw = {}
            if "target" in pt["mode"]:
                kw["target"] = build(d2q.get("kind", kind), d2q["reg"], d2q["quads"], api + 1)
            if pt["mode"].split("+")[0] in ("add", "remove"):
                kw["operation"] = pt["mode"].split("+")[0]
            for k, h in (("header_id", pt["hid"]), ("header_prev", pt["hprev"])):
                if h is not None:
                    kw[k] = "urn:h:%s" % h if h != "" else ""
            text = ds.serialize(format="patch", **kw)
            try:
                obs.append(_doc_line(read_patch_doc(text)))
            except ValueError as e:
                obs.append("ERR-read:" + _exc(e))
                viol.append(f"unreadable-patchtext: a line of the patch document is not a header, TX, TC, A or D row: {e!r}"[:300])
        except Exception as e:  # noqa: BLE001
            obs.append("ERR-pdoc:" + _exc(e))
            viol.append(f"error-patchtext: serialize raised {e!r}"[:300])
        try:
            copy = build(kind, reg, case["quads"], api + 2)
            doc_text = patch_text_of(pt["doc"], pt.get("ws", 0))
            try:
                copy.parse(data=doc_text, format="patch")
                outcome = "ok"
            except Exception as e:  # noqa: BLE001
                outcome = _exc(e)
            got = got_quads(copy)
            stats["ptext_outcome_" + outcome] = 1
            obs.append(outcome + " | " + line(quad_rows(got, bmap), exact=True))
            if pt["clean"]:
                want = expected_quads(d2q["quads"], DEFAULT_ID, term)
                if outcome != "ok" or got != want:
                    viol.append(f"patch-respelled: the diff d1->d2 written by hand ({outcome}) gives "
                                f"{line(quad_rows(got, bmap), True)} but expected {line(quad_rows(want, bmap), True)}; "
                                f"document: {doc_text!r}"[:900])
        except Exception as e:  # noqa: BLE001
            obs.append("ERR-pparse:" + _exc(e))
            viol.append(f"error-patchtext: {e!r}"[:300])
    if _hext_rows_ok(case):
        stats["hext_text"] = 1
        if hext_text[0] is None:
            obs.append("ERR-hextdoc")
        else:
            # each line in the spelling CPython's json.dumps gives its six columns: a JSON-equivalent respelling by
            # rdflib (ensure_ascii=False, the orjson branch) is not a difference; how many lines are already spelled
            # exactly so is counted (all of them, with the code as it is)
            raw = [ln + "\n" for ln in hext_text[0].split("\n") if ln]
            try:
                rows = [json.dumps(json.loads(ln)) + "\n" for ln in raw]
            except ValueError:
                rows = raw
            stats["hext_text_rows"] = len(rows)
            stats["hext_text_rows_spelled_as_json_dumps"] = sum(1 for a, b in zip(raw, rows) if a == b)
            obs.append(" ".join(sorted(_cps(r) for r in rows)))
    for h in case.get("htext") or []:
        stats["hext_hand_rows"] = stats.get("hext_hand_rows", 0) + 1
        obs.append(_hext_parse_one(hext_row_text(h), stats))
    for path in tmpfiles:
        try:
            os.unlink(path)
        except OSError:
            pass
    dests = {q[3] for q in quads}
    bn_names = {g for g in dests | set(reg) if g[0] == "b"}
    shared_b = [b for b in BNODES if len({q[3] for q in quads if b in q[:3]}) > 1]
    multi = len({tuple(q[:3]) for q in quads}) < len(quads)
    if case.get("binds"):
        stats["binds"] = len(case["binds"])
        stats["bind_empty_prefix"] = int(any(b[0] == "" for b in case["binds"]))
        stats["bind_graph_keyword"] = int(any(b[0].lower() == "graph" for b in case["binds"]))
    stats.update({"named_graphs": len(dests - {"D"}), "default_nonempty": int("D" in dests),
                  "bnode_named": len(bn_names), "bnode_shared_across_graphs": int(bool(shared_b)),
                  "triple_in_several_graphs": int(multi),
                  "name_used_in_triples": int(any(g in q[:3] for q in quads for g in dests if g != "D")),
                  "empty_registered": int(any(g not in dests for g in reg)),
                  "list_cells": sum(1 for q in quads if q[1] == "i10"),
                  "lists_in_named_graph": int(any(q[1] == "i10" and q[3] != "D" for q in quads)),
                  "lists_in_two_graphs": int(len({q[3] for q in quads if q[1] == "i10"}) > 1),
                  "nested_list": int(any(q[1] == "i10" and q[2] in CELLS for q in quads)),
                  "empty_list": int(any(q[2] == "i12" and q[1] != "i11" for q in quads))})
    return {"obs": obs, "viol": viol, "nontrivial": len(dests) >= 2 or bool(bn_names),
            "key": json.dumps([kind, sorted(reg), sorted(quads), case.get("d2"), case.get("enc"), case.get("opt"), case.get("binds")],
                              sort_keys=True),
            "stats": stats}


# ------------------------------------------------------------------ the model side

def _cg_default(case):
    return "i16" if (case.get("src") or {}).get("cg_id") else CG_DEFAULT


def _eff_quads(case):
    """the quads of the source dataset, with the one put into the Dataset.graph() graph when the case asks for it"""
    if (case.get("src") or {}).get("anon_graph") and case["kind"] != "cg":
        return case["quads"] + [ANON_QUAD]
    return case["quads"]



def _hext_rows_ok(case):
    """the hextuples document is compared line by line unless a term has a spelling of its own per run"""
    return not (case.get("src") or {}).get("anon_graph")


def _hnode(t):
    return ("B:" if isinstance(t, BNode) else "I:") + _cps(str(t))


def _hext_parse_one(text, stats):
    """one hand-made row through the real parser: outcome + the quad, in the driver's notation"""
    d = Dataset()
    try:
        d.parse(data=text, format="hext")
    except ValueError:                 # json.JSONDecodeError is a ValueError
        stats["hext_hand_ValueError"] = stats.get("hext_hand_ValueError", 0) + 1
        return "ValueError"
    except IndexError:
        stats["hext_hand_IndexError"] = stats.get("hext_hand_IndexError", 0) + 1
        return "IndexError"
    except Exception as e:  # noqa: BLE001
        return "Other:" + type(e).__name__
    qs = list(d.quads((None, None, None, None)))
    if len(qs) != 1:
        return "quads:%d" % len(qs)
    s_, p_, o_, c = qs[0]
    cid = c.identifier if isinstance(c, Graph) else c
    if isinstance(o_, Literal):
        if o_.language:
            o = "G:%s:%s" % (_cps(str(o_)), _cps(o_.language))
        elif o_.datatype is not None:
            o = "T:%s:%s" % (_cps(str(o_)), _cps(str(o_.datatype)))
        else:
            o = "P:" + _cps(str(o_))
    else:
        o = "N:" + _hnode(o_)
    stats["hext_hand_ok"] = stats.get("hext_hand_ok", 0) + 1
    return "ok %s ; %s ; %s ; %s" % (_hnode(s_), _cps(str(p_)), o, "U" if cid is None or cid == DEFAULT_ID else _hnode(cid))


def _vocab_line(case):
    toks = sorted({t for q in _eff_quads(case) for t in q if t != "D"} | {g for g in case["reg"] if g != "D"})
    ents = []
    for t in toks:
        v = TERM.get(t)
        if v is None:
            continue
        if isinstance(v, BNode):
            ents.append("%s B %s" % (t, _cps(str(v))))
        elif isinstance(v, Literal):
            if v.language:
                ents.append("%s G %s %s" % (t, _cps(str(v)), _cps(v.language)))
            elif v.datatype is not None:
                ents.append("%s T %s %s" % (t, _cps(str(v)), _cps(str(v.datatype))))
            else:
                ents.append("%s P %s" % (t, _cps(str(v))))
        else:
            ents.append("%s I %s" % (t, _cps(str(v))))
    return "loadvocab " + " ; ".join(ents)


def _ptext_of(case):
    pt = case.get("ptext")
    if pt is None or case["kind"] == "cg" or case.get("d2") is None or (case.get("src") or {}).get("anon_graph"):
        return None
    return pt


def _src_line(word, kind, reg, quads, cg_default=CG_DEFAULT):
    d = cg_default if kind == "cg" else "D"
    sub = (lambda g: d if g == "D" else g)
    return (f"{word} {1 if kind == 'cg' else 0} {d} | " + " ".join(reg) + " | "
            + " ".join(" ".join([s, p, o, sub(g)]) for s, p, o, g in quads))


def model_lines(case):
    kind = case["kind"]
    quads = _eff_quads(case)
    lines = [_src_line("load", kind, case["reg"], quads, _cg_default(case))]
    for F in FORMATS:
        if F == "patch" and kind == "cg":
            continue
        lines += ["emit " + F, "route " + F]
    d2 = case.get("d2")
    if d2 is not None and kind != "cg":
        pmode = case.get("pmode")
        if pmode == "remove":
            lines += [_src_line("load2", kind, [], []), "diff", "apply"]
        elif pmode == "both":      # an add patch of d1: the difference between the empty dataset and d1
            lines += [_src_line("load", kind, [], []), _src_line("load2", kind, case["reg"], quads), "diff", "apply"]
        else:
            lines += [_src_line("load2", kind, d2["reg"], d2["quads"]), "diff", "apply"]
    pt = _ptext_of(case)
    if pt is not None:
        h = lambda x: "*" if x in (None, "") else str(x)      # noqa: E731   (`if header_id:` — "" is falsy)
        op = pt["mode"].split("+")[0]
        lines += [_src_line("load", kind, case["reg"], case["quads"]), _src_line("load2", kind, d2["reg"], d2["quads"]),
                  "pdoc %s %d %s %s" % (op if op in ("add", "remove") else "-", int("target" in pt["mode"]),
                                        h(pt["hid"]), h(pt["hprev"])),
                  "pparse " + " ; ".join(" ".join(ln) for ln in pt["doc"])]
    if _hext_rows_ok(case):
        lines += [_vocab_line(case), _src_line("load", kind, case["reg"], quads, _cg_default(case)), "hextdoc"]
    for h in case.get("htext") or []:
        lines.append("hparse " + _cps(hext_row_text(h)))
    return lines


def select_model_obs(case, out):
    lines = model_lines(case)
    res = []
    for cmd, o in zip(lines, out):
        if cmd.startswith("load"):
            continue
        if cmd == "hextdoc":
            res.append(" ".join(sorted(o.split(" "))) if o else "")
            continue
        if cmd.startswith("hparse"):
            res.append(o)
            continue
        if cmd.startswith("pdoc"):
            res.append(_doc_line([x for x in o.split(" ; ") if x]))
            continue
        if cmd.startswith("pparse"):
            outcome, _, qs = o.partition(" | ")
            res.append(outcome.strip() + " | " + line([tuple(x.split(",")) for x in qs.split(" ") if x], exact=True))
            continue
        rows = [tuple("D" if y == "U" else y for y in x.split(",")) for x in o.split(" ") if x]
        if cmd == "diff":
            rows = [(r[0], r[4], r[1], r[2], r[3]) for r in rows]
        res.append(line(rows, exact=cmd in ("diff", "apply")))
    return res


# ------------------------------------------------------------------ shrinking, matchers

def shrink(case):
    quads, reg, d2 = case["quads"], case["reg"], case.get("d2")
    if case.get("enc"):
        yield {**case, "enc": None}
    bd = case.get("binds") or []
    for i in range(len(bd)):
        yield {**case, "binds": bd[:i] + bd[i + 1:]}
    if case.get("opt"):
        yield {**case, "opt": None}
        F, o = case["opt"]
        for k in o:
            yield {**case, "opt": [F, {k2: v for k2, v in o.items() if k2 != k}]}
        ctx = o.get("context")
        if ctx and len(ctx) > 1:
            for k in ctx:
                yield {**case, "opt": [F, {**o, "context": {k2: v for k2, v in ctx.items() if k2 != k}}]}
    pt = case.get("ptext")
    # a clean hand-made document IS the diff of the two quad lists: it does not survive a change of either
    keep = {"ptext": None} if pt and pt["clean"] else {}
    if pt:
        yield {**case, "ptext": None}
        if not pt["clean"]:
            for i in range(len(pt["doc"])):
                yield {**case, "ptext": {**pt, "doc": pt["doc"][:i] + pt["doc"][i + 1:]}}
        else:           # a clean document stays the diff d1 -> d2: only lines that are not A / D rows may go
            for i, ln in enumerate(pt["doc"]):
                if not (ln[0] in ("A", "D") and len(ln) > 1 and ln[1] == "Q"):
                    yield {**case, "ptext": {**pt, "doc": pt["doc"][:i] + pt["doc"][i + 1:]}}
        if pt["mode"] != "target":
            yield {**case, "ptext": {**pt, "mode": "target"}}
        if pt["hid"] is not None or pt["hprev"] is not None:
            yield {**case, "ptext": {**pt, "hid": None, "hprev": None}}
    ht = case.get("htext")
    if ht:
        yield {**case, "htext": None}
        for i in range(len(ht)):
            yield {**case, "htext": ht[:i] + ht[i + 1:]}
    if d2 is not None:
        yield {**case, "d2": None}
        for i in range(len(d2["quads"])):
            yield {**case, **keep, "d2": {**d2, "quads": d2["quads"][:i] + d2["quads"][i + 1:]}}
        for i in range(len(d2["reg"])):
            yield {**case, "d2": {**d2, "reg": d2["reg"][:i] + d2["reg"][i + 1:]}}
    for i in range(len(quads)):
        yield {**case, **keep, "quads": quads[:i] + quads[i + 1:]}
    for i in range(len(reg)):
        yield {**case, "reg": reg[:i] + reg[i + 1:]}
    if case.get("api"):
        yield {**case, "api": 0}
    if case["kind"] == "dsu":
        yield {**case, "kind": "ds"}
    for i, q in enumerate(quads):        # simplify terms
        for j, simple in ((0, "i1"), (1, "i7"), (2, "l2")):
            if q[j] != simple and not (j == 0 and q[j][0] == "b") and not (j == 2 and q[j][0] == "b"):
                yield {**case, **keep, "quads": quads[:i] + [q[:j] + [simple] + q[j + 1:]] + quads[i + 1:]}


def _only(result, tag):
    return bool(result["viol"]) and all(v.split(":")[0] == tag for v in result["viol"])


def _m_jsonld_bnode_graph(case, result):
    """pre-fix JSON-LD: the only failing format is json-ld and the dataset has a blank-node-named graph with a triple"""
    return _only(result, "roundtrip-jsonld") and any(q[3][0] == "b" for q in case["quads"])


def _m_trix_bnode_graph(case, result):
    """pre-fix TriX: only TriX fails, and some blank-node graph name that carries triples is also used in a triple"""
    names = {q[3] for q in case["quads"] if q[3][0] == "b"}
    return _only(result, "roundtrip-trix") and any(g in q[:3] for q in case["quads"] for g in names)


def _m_patch_union(case, result):
    """pre-fix patch diff on Dataset(default_union=True): membership of a default-graph quad is decided on the union"""
    return _only(result, "patch-apply") and case["kind"] == "dsu"


def _m_patch_empty_target(case, result):
    """pre-fix patch: the target dataset is empty (falsy) and the patch was written as an add-patch of d1"""
    d2 = case.get("d2")
    return _only(result, "patch-apply") and d2 is not None and not d2["quads"] and bool(case["quads"])


def _m_trig_squared(case, result):
    """pre-fix TriG: only TriG fails; a blank-node graph name with triples occurs exactly once as an object and never as a subject"""
    names = {q[3] for q in case["quads"] if q[3][0] == "b"}
    return _only(result, "roundtrip-trig") and any(
        sum(1 for q in case["quads"] if q[2] == g) == 1 and not any(q[0] == g for q in case["quads"]) for g in names)


def _m_jsonld_list_cell(case, result):
    """JSON-LD @list inlining: only json-ld fails and a blank node that has rdf:first in one graph occurs in another graph"""
    cells = {(q[0], q[3]) for q in case["quads"] if q[1] == "i10" and q[0][0] == "b"}
    return _only(result, "roundtrip-jsonld") and any(
        c in q[:3] and q[3] != g for c, g in cells for q in case["quads"])


def _only_fmt(result, F):
    return bool(result["viol"]) and all(v.split(":")[0].endswith("-" + F) for v in result["viol"])


def _unencodable(case, enc):
    for q in case["quads"]:
        for t in q:
            if t in TERM:
                try:
                    str(TERM[t]).encode(enc)
                except UnicodeEncodeError:
                    return True
    return False


def _m_jsonld_lossy_encoding(case, result):
    """JSON-LD with encoding='latin-1'/'ascii' and a character that codec cannot represent: written as '?'"""
    e = case.get("enc")
    return bool(e) and e[0] == "jsonld" and e[1] in ("latin-1", "ascii") and _only_fmt(result, "jsonld") \
        and _unencodable(case, e[1])


def _m_trix_utf16(case, result):
    """TriX with encoding='utf-16': the final newline is written as ONE latin-1 byte after the UTF-16 document"""
    e = case.get("enc")
    return bool(e) and e == ["trix", "utf-16"] and _only_fmt(result, "trix")


def _m_trix_xmlns_prefix(case, result):
    """a prefix named `xmlns` is bound: TriX declares it (xmlns:xmlns=…), which XML forbids"""
    return any(b[0] == "xmlns" for b in case.get("binds") or []) and _only_fmt(result, "trix")


def _m_trig_default_prefix_clobbered(case, result):
    """pre-fix: a user prefix for one of the default-bound namespaces + TriG"""
    return bool(case.get("binds")) and _only_fmt(result, "trig")


def _m_jsonld_base_is_graph(case, result):
    """pre-fix: json-ld base= equal to the IRI of a named graph"""
    o = case.get("opt")
    return bool(o) and o[0] == "jsonld" and TERM_IRI.get((o[1].get("base") or "")) in {q[3] for q in case["quads"]} \
        and _only_fmt(result, "jsonld")


def _m_jsonld_underscore_prefix(case, result):
    """pre-fix: a prefix named `_` is bound and json-ld is written with auto_compact"""
    o = case.get("opt")
    return bool(o) and o[0] == "jsonld" and bool(o[1].get("auto_compact")) and _only_fmt(result, "jsonld") \
        and any(b[0] == "_" for b in case.get("binds") or [])


TERM_IRI = {str(v): k for k, v in IRIS.items()}

MATCHERS = {"jsonld_list_cell_shared_across_graphs": _m_jsonld_list_cell,
            "jsonld_underscore_prefix": _m_jsonld_underscore_prefix,
            "trix_xmlns_prefix_declared": _m_trix_xmlns_prefix,
            "trig_default_prefix_clobbered": _m_trig_default_prefix_clobbered,
            "jsonld_base_equals_graph_name": _m_jsonld_base_is_graph,
            "jsonld_lossy_encoding_replaces": _m_jsonld_lossy_encoding, "trix_utf16_trailing_byte": _m_trix_utf16,
            "jsonld_bnode_named_graph": _m_jsonld_bnode_graph, "trix_bnode_graph_name": _m_trix_bnode_graph,
            "patch_default_union_diff": _m_patch_union, "patch_empty_target": _m_patch_empty_target,
            "trig_bnode_label_squared": _m_trig_squared}
