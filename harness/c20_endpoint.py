"""Loop-back SPARQL 1.1 protocol endpoint for C20 (DESIGN §6 C20).

One `ThreadingHTTPServer` on 127.0.0.1:<ephemeral> per process (started lazily, after the
worker fork), answering

  /query   GET ?query=…            | POST application/x-www-form-urlencoded (query=…)
           | POST application/sparql-query (body = query text, parameters in the URL)
           parameters default-graph-uri*, named-graph-uri*
  /update  POST application/sparql-update (body) | POST form (update=…)
           parameters using-graph-uri*, using-named-graph-uri*

from a backing `rdflib.Dataset(default_union=False)` over a Memory store, evaluated by rdflib's
own SPARQL engine.  The endpoint's dataset is therefore well defined: one unnamed default graph
plus named graphs (IRIs), disjoint; empty named graphs are recorded.  Graph names are opaque to
the endpoint: `default-graph-uri=U` builds the query dataset from the *named* graph U (empty when
there is none) — the backing Dataset's private name for its default graph
(`urn:x-rdflib:default`) is NOT a graph name of the endpoint.

`CREATE [SILENT] GRAPH <g>` is executed here (rdflib's evaluator has no implementation); creating
an existing graph succeeds (the endpoint is lenient, as stores that do not record empty graphs are).
Everything else in an update request is executed, operation by operation in lexical order, by
rdflib's evaluator functions.  A failing request answers 400 and changes nothing that the
failing operation had not yet changed (rdflib's evaluator is not atomic; the harness never relies on it).

The request log (`Endpoint.log`) records for every request: path, HTTP method, content type,
whether the body decoded as UTF-8, and the protocol parameters — used by the harness to check the
transport configuration (GET / POST / POST_FORM, Accept → result format).
"""
from __future__ import annotations

import json
import os
import threading
from http.server import BaseHTTPRequestHandler, ThreadingHTTPServer
from urllib.parse import parse_qs, urlsplit

import core  # noqa: F401  (repository under test first on sys.path)
from rdflib import BNode, Dataset, Graph, Literal, URIRef
from rdflib.graph import DATASET_DEFAULT_GRAPH_ID
from rdflib.plugins.sparql import update as _upd
from rdflib.plugins.sparql.algebra import translateUpdate
from rdflib.plugins.sparql.parser import parseUpdate
from rdflib.plugins.sparql.sparql import QueryContext

import rdflib.plugins.sparql as _sparql_pkg

# The endpoint's default graph is its own graph, not the union of the named graphs (documented
# rdflib switch; with the union setting rdflib's evaluator cannot even run INSERT DATA on a Dataset).
_sparql_pkg.SPARQL_DEFAULT_GRAPH_UNION = False

# Graph names are opaque to an endpoint.  rdflib's Dataset (the backing store) privately names its
# default graph <urn:x-rdflib:default>; a request that mentions that IRI means an ordinary NAMED graph
# of the endpoint.  It is kept under an alias in the backing store and mapped back on the way out.
RDFLIB_DEFAULT = str(DATASET_DEFAULT_GRAPH_ID)
ALIAS = "urn:x-c20-endpoint:named-graph-called-like-rdflibs-default"


def _alias_in(text: str) -> str:
    return text.replace("<" + RDFLIB_DEFAULT + ">", "<" + ALIAS + ">")


def _alias_out(t):
    return URIRef(RDFLIB_DEFAULT) if isinstance(t, URIRef) and str(t) == ALIAS else t


XML_MT = "application/sparql-results+xml"
JSON_MT = "application/sparql-results+json"


# The endpoint writes its results itself (W3C SPARQL Query Results XML / JSON formats), so that a
# defect of rdflib's own result *serialisers* cannot be mistaken for one of the store under test,
# which only uses the result *parsers*.


def _xt(s: str) -> str:
    return (s.replace("&", "&amp;").replace("<", "&lt;").replace(">", "&gt;").replace("\r", "&#13;"))


def _xa(s: str) -> str:
    return (_xt(s).replace('"', "&quot;").replace("\n", "&#10;").replace("\t", "&#9;"))


def _term_xml(t) -> str:
    t = _alias_out(t)
    if isinstance(t, URIRef):
        return f"<uri>{_xt(str(t))}</uri>"
    if isinstance(t, BNode):
        return f"<bnode>{_xt(str(t))}</bnode>"
    if isinstance(t, Literal):
        if t.language is not None:
            return f'<literal xml:lang="{_xa(t.language)}">{_xt(str(t))}</literal>'
        if t.datatype is not None:
            return f'<literal datatype="{_xa(str(t.datatype))}">{_xt(str(t))}</literal>'
        return f"<literal>{_xt(str(t))}</literal>"
    raise TypeError(f"cannot serialise {t!r}")


def results_xml(res) -> bytes:
    out = ['<?xml version="1.0" encoding="utf-8"?>\n<sparql xmlns="http://www.w3.org/2005/sparql-results#">']
    if res.type == "ASK":
        out.append(f"<head/><boolean>{'true' if res.askAnswer else 'false'}</boolean>")
    else:
        out.append("<head>" + "".join(f'<variable name="{_xa(str(v))}"/>' for v in res.vars) + "</head><results>")
        for b in res.bindings:
            out.append("<result>" + "".join(
                f'<binding name="{_xa(str(v))}">{_term_xml(b[v])}</binding>' for v in res.vars
                if b.get(v) is not None) + "</result>")
        out.append("</results>")
    out.append("</sparql>")
    return "".join(out).encode("utf-8")


def _term_json(t) -> dict:
    t = _alias_out(t)
    if isinstance(t, URIRef):
        return {"type": "uri", "value": str(t)}
    if isinstance(t, BNode):
        return {"type": "bnode", "value": str(t)}
    if isinstance(t, Literal):
        d = {"type": "literal", "value": str(t)}
        if t.language is not None:
            d["xml:lang"] = t.language
        elif t.datatype is not None:
            d["datatype"] = str(t.datatype)
        return d
    raise TypeError(f"cannot serialise {t!r}")


def results_json(res) -> bytes:
    if res.type == "ASK":
        doc = {"head": {}, "boolean": bool(res.askAnswer)}
    else:
        doc = {"head": {"vars": [str(v) for v in res.vars]},
               "results": {"bindings": [{str(v): _term_json(b[v]) for v in res.vars if b.get(v) is not None}
                                        for b in res.bindings]}}
    return json.dumps(doc, ensure_ascii=False).encode("utf-8")


class Endpoint:
    def __init__(self):
        self.lock = threading.Lock()
        self.reset()
        self.server = None
        self.port = None

    # ------------------------------------------------------------ dataset
    def reset(self):
        self.ds = Dataset(default_union=False)
        self.log = []

    def quads(self):
        """What the endpoint really contains: set of (s, p, o, graph-name | None)."""
        out = set()
        for c in self.ds.store.contexts():
            name = None if c.identifier == DATASET_DEFAULT_GRAPH_ID else _alias_out(c.identifier)
            for (s, p, o), _cs in self.ds.store.triples((None, None, None), c):
                out.add((s, p, o, name))
        return out

    def graph_names(self):
        return {_alias_out(c.identifier) for c in self.ds.store.contexts()
                if c.identifier != DATASET_DEFAULT_GRAPH_ID}

    def load(self, quads, graphs=()):
        """put content into the endpoint directly (initial content of a case)"""
        for s, p, o, g in quads:
            (self.ds.default_graph if g is None else self._named(str(g))).add((s, p, o))
        for g in graphs:
            self.ds.graph(self._named(str(g)).identifier)

    def _named(self, iri: str) -> Graph:
        """the endpoint's NAMED graph <iri> (the default graph has no name here)"""
        if iri == RDFLIB_DEFAULT:
            iri = ALIAS
        return Graph(store=self.ds.store, identifier=URIRef(iri))

    # ------------------------------------------------------------ protocol operations
    def do_query(self, text, default_graphs, named_graphs):
        text = _alias_in(text)
        if default_graphs or named_graphs:
            tmp = Dataset(default_union=False)
            for u in default_graphs:
                for t in self._named(u):
                    tmp.default_graph.add(t)
            for u in named_graphs:
                g = tmp.graph(self._named(u).identifier)
                for t in self._named(u):
                    g.add(t)
            return tmp.query(text)
        return self.ds.query(text)

    def do_update(self, text, using, using_named):
        if using or using_named:
            raise ValueError("using-graph-uri is not supported by this endpoint")
        text = _alias_in(text)
        try:
            upd = translateUpdate(parseUpdate(text))
        except RecursionError:
            # rdflib's update grammar recurses once per `;`-separated operation: a request of a few hundred operations
            # exhausts Python's stack in the PARSER (C04's domain, not the store's).  Such a request is executed
            # piecewise at the store's own `\n;\n` separators — only when every piece is a well-formed request by itself
            # (parsed before anything is executed), so nothing that a whole-text parse would reject is accepted.
            pieces = text.split("\n;\n")
            parsed = [translateUpdate(parseUpdate(x)) for x in pieces]
            for one in parsed:
                self._run_update(one)
            return
        self._run_update(upd)

    def _run_update(self, upd):
        for u in upd.algebra:
            ctx = QueryContext(self.ds, initBindings={})
            ctx.prologue = u.prologue
            try:
                if u.name == "Create":
                    self.ds.graph(u.graphiri)
                elif u.name == "Clear":
                    _upd.evalClear(ctx, u)
                elif u.name == "Drop":
                    _upd.evalDrop(ctx, u)
                elif u.name == "InsertData":
                    _upd.evalInsertData(ctx, u)
                elif u.name == "DeleteData":
                    _upd.evalDeleteData(ctx, u)
                elif u.name == "DeleteWhere":
                    _upd.evalDeleteWhere(ctx, u)
                elif u.name == "Modify":
                    _upd.evalModify(ctx, u)
                elif u.name in ("Add", "Move", "Copy"):
                    getattr(_upd, "eval" + u.name)(ctx, u)
                else:
                    raise ValueError("unsupported update operation " + u.name)
            except Exception:
                if not u.silent:
                    raise

    # ------------------------------------------------------------ server
    def start(self):
        ep = self

        class H(BaseHTTPRequestHandler):
            protocol_version = "HTTP/1.0"

            def log_message(self, *a):  # silence
                pass

            def _params(self):
                url = urlsplit(self.path)
                q = parse_qs(url.query, keep_blank_values=True, encoding="utf-8", errors="strict")
                return url.path, q

            def _body(self):
                n = int(self.headers.get("Content-Length") or 0)
                return self.rfile.read(n) if n else b""

            def _reply(self, code, ctype, body: bytes):
                self.send_response(code)
                self.send_header("Content-Type", ctype)
                self.send_header("Content-Length", str(len(body)))
                self.end_headers()
                self.wfile.write(body)

            def _serve(self, method):
                path, q = self._params()
                ctype = (self.headers.get("Content-Type") or "").split(";")[0].strip().lower()
                raw = self._body() if method == "POST" else b""
                entry = {"path": path, "method": method, "ctype": ctype, "utf8": True,
                         "accept": self.headers.get("Accept") or "",
                         # the request as it arrived (transport tie with lean/RV/C20/Conn.lean): URL, body bytes,
                         # the path before any /sparql routing
                         "raw_path": self.path, "raw_body": raw if method == "POST" else None, "url_path": path}
                text = None
                try:
                    if method == "POST" and ctype == "application/x-www-form-urlencoded":
                        form = parse_qs(raw.decode("ascii"), keep_blank_values=True, encoding="utf-8",
                                        errors="strict")
                        for k, v in form.items():
                            q.setdefault(k, []).extend(v)
                        entry["via"] = "form"
                    elif method == "POST" and ctype in ("application/sparql-query", "application/sparql-update"):
                        text = raw.decode("utf-8", errors="strict")
                        entry["via"] = "direct"
                    elif method == "GET":
                        entry["via"] = "get"
                    else:
                        entry["via"] = "unknown"
                        with ep.lock:
                            ep.log.append(entry)
                        return self._reply(415, "text/plain", b"unsupported media type")
                except UnicodeError:
                    entry["utf8"] = False
                    with ep.lock:
                        ep.log.append(entry)
                    return self._reply(400, "text/plain", b"request is not UTF-8")
                # parameters / headers this endpoint does not know are ignored, but logged
                # every protocol / extra parameter except the request text itself, decoded (URL first, then form)
                entry["params"] = [(k, v) for k, vs in q.items() for v in vs]
                entry["text_key"] = None      # the parameter the text was taken from (None: the body itself)
                entry["x_param"] = q.get("x-extra", [])
                entry["x_header"] = self.headers.get("X-Extra")
                entry["auth"] = self.headers.get("Authorization")
                if path == "/sparql":
                    # one endpoint for both protocols (SPARQLUpdateStore.open("url")): an update is a POST that
                    # carries application/sparql-update or an `update` form field, everything else is a query
                    path = "/update" if (ctype == "application/sparql-update" or "update" in q) else "/query"
                    entry["single_endpoint"] = True
                    entry["path"] = path
                with ep.lock:
                    ep.log.append(entry)
                    try:
                        if path == "/query":
                            if text is None:
                                text = (q.get("query") or [None])[0]
                                entry["text_key"] = "query"
                            if text is None:
                                return self._reply(400, "text/plain", b"no query")
                            entry["text"] = text
                            entry["default-graph-uri"] = q.get("default-graph-uri", [])
                            res = ep.do_query(text, q.get("default-graph-uri", []), q.get("named-graph-uri", []))
                            acc = entry["accept"]
                            if res.type in ("CONSTRUCT", "DESCRIBE"):
                                return self._reply(200, "application/rdf+xml", res.graph.serialize(format="xml", encoding="utf-8"))
                            if JSON_MT in acc and XML_MT not in acc:
                                entry["format"] = "json"
                                entry["res_body"] = results_json(res)      # the document sent (result-layer tie)
                                return self._reply(200, JSON_MT, entry["res_body"])
                            if XML_MT in acc or "*/*" in acc or not acc:
                                entry["format"] = "xml"
                                entry["res_body"] = results_xml(res)
                                return self._reply(200, XML_MT + "; charset=utf-8", entry["res_body"])
                            return self._reply(406, "text/plain", b"not acceptable")
                        elif path == "/update":
                            if method != "POST":
                                return self._reply(405, "text/plain", b"update needs POST")
                            if text is None:
                                text = (q.get("update") or [None])[0]
                                entry["text_key"] = "update"
                            if text is None:
                                return self._reply(400, "text/plain", b"no update")
                            entry["text"] = text
                            ep.do_update(text, q.get("using-graph-uri", []), q.get("using-named-graph-uri", []))
                            return self._reply(200, "text/plain", b"ok")
                        return self._reply(404, "text/plain", b"not found")
                    except Exception as e:  # malformed request text and evaluation errors
                        entry["error"] = f"{type(e).__name__}: {e}"[:300]
                        return self._reply(400, "text/plain", entry["error"].encode("utf-8", "replace"))

            def do_GET(self):  # noqa: N802
                self._serve("GET")

            def do_POST(self):  # noqa: N802
                self._serve("POST")

        self.server = ThreadingHTTPServer(("127.0.0.1", 0), H)
        self.server.daemon_threads = True
        self.port = self.server.server_address[1]
        t = threading.Thread(target=self.server.serve_forever, kwargs={"poll_interval": 0.05}, daemon=True)
        t.start()

    @property
    def url(self):
        return f"http://127.0.0.1:{self.port}"


_EP = None
_EP_PID = None


def endpoint() -> Endpoint:
    """the process-wide endpoint (re-created after a fork: threads do not survive it)"""
    global _EP, _EP_PID
    if _EP is None or _EP_PID != os.getpid():
        _EP = Endpoint()
        _EP.start()
        _EP_PID = os.getpid()
    return _EP
