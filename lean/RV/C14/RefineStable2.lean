import RV.C14.RefineStable
import RV.C14.RefineEquiv
/-
  Stability, the global half: the worklist invariant of `_refine` and its preservation by a pass.
-/
namespace RV.C14

/-! ### the splitter hash is irrelevant for stability; stability and node sets -/

def setHash (h : Nat) : Item → Item
  | .out p _ => .out p h
  | .inn _ p => .inn h p
  | .indiv k => .indiv k

theorem distinguishItems_setHash (h h' : Nat) (g : Graph) (Wn : List Term) (n : Term) :
    (distinguishItems h g Wn n).map (setHash h') = distinguishItems h' g Wn n := by
  unfold distinguishItems
  rw [List.map_flatMap]
  congr 1
  funext node
  rw [List.map_append, List.map_filterMap, List.map_filterMap]
  congr 1
  · congr 1; funext t; by_cases hc : t.1 = n ∧ t.2.2 = node <;> simp [hc, setHash]
  · congr 1; funext t; by_cases hc : t.1 = node ∧ t.2.2 = n <;> simp [hc, setHash]

theorem StableWrt.hash {g : Graph} {h : Nat} {Wn : List Term} {c : Color} (hs : StableWrt g h Wn c) (h' : Nat) :
    StableWrt g h' Wn c := by
  intro n hn m hm
  have := (hs n hn m hm).map (setHash h')
  rwa [distinguishItems_setHash, distinguishItems_setHash] at this

theorem distinguishItems_append (h : Nat) (g : Graph) (A B : List Term) (n : Term) :
    distinguishItems h g (A ++ B) n = distinguishItems h g A n ++ distinguishItems h g B n := by
  unfold distinguishItems
  rw [List.flatMap_append]

theorem StableWrt.perm {g : Graph} {h : Nat} {A B : List Term} {c : Color} (hs : StableWrt g h A c) (hp : A.Perm B) :
    StableWrt g h B c := by
  intro n hn m hm
  have e : ∀ x, (distinguishItems h g B x).Perm (distinguishItems h g A x) := fun x => by
    unfold distinguishItems
    exact List.Perm.flatMap_right _ hp.symm
  exact (e n).trans ((hs n hn m hm).trans (e m).symm)

theorem StableWrt.append {g : Graph} {h : Nat} {A B : List Term} {c : Color} (h1 : StableWrt g h A c)
    (h2 : StableWrt g h B c) : StableWrt g h (A ++ B) c := by
  intro n hn m hm
  rw [distinguishItems_append, distinguishItems_append]
  exact (h1 n hn m hm).append (h2 n hn m hm)

theorem StableWrt.cancel {g : Graph} {h : Nat} {A B : List Term} {c : Color} (h1 : StableWrt g h (A ++ B) c)
    (h2 : StableWrt g h B c) : StableWrt g h A c := by
  intro n hn m hm
  have e := h1 n hn m hm
  rw [distinguishItems_append, distinguishItems_append] at e
  have e2 := e.trans (List.Perm.append_left _ (h2 n hn m hm).symm)
  exact (List.perm_append_right_iff _).mp e2

theorem StableWrt.sub {g : Graph} {h : Nat} {A : List Term} {c c' : Color} (h1 : StableWrt g h A c)
    (hsub : ∀ n ∈ c'.nodes, n ∈ c.nodes) : StableWrt g h A c' :=
  fun n hn m hm => h1 n (hsub n hn) m (hsub m hm)

/-! ### the sequence component of a pass does not depend on the colouring -/

def seqStep (H : List Item → Nat) (HT : Term → Nat) (g : Graph) (W : Color) (T : List Color) (c : Color) : List Color :=
  if activeC c then
    (if c ∈ T then replaceAt T c (splitOf H HT g W c) else (splitOf H HT g W c).tail ++ T)
  else T

theorem foldl_step_snd (H : List Item → Nat) (HT : Term → Nat) (g : Graph) (W : Color) (todo : List Color) :
    ∀ (Q T : List Color), (todo.foldl (refineStep H HT g W) (Q, T)).2 = todo.foldl (seqStep H HT g W) T := by
  induction todo with
  | nil => intro Q T; rfl
  | cons c todo ih =>
    intro Q T
    rw [List.foldl_cons, List.foldl_cons, refineStep_eq]
    unfold seqStep
    by_cases hact : activeC c = true
    · rw [if_pos hact, if_pos hact]; exact ih _ _
    · rw [if_neg hact, if_neg hact]; exact ih _ _

theorem mem_replaceAt_of_ne {S : List Color} {c z : Color} (by_ : List Color) (hz : z ∈ S) (hne : z ≠ c) :
    z ∈ replaceAt S c by_ := by
  induction S with
  | nil => simp at hz
  | cons d ds ih =>
    unfold replaceAt
    split
    · rename_i hdc
      rcases List.mem_cons.mp hz with rfl | h
      · exact absurd hdc hne
      · exact List.mem_append_right _ h
    · rcases List.mem_cons.mp hz with rfl | h
      · exact List.mem_cons_self
      · exact List.mem_cons_of_mem _ (ih h)

theorem mem_replaceAt_by {S : List Color} {c x : Color} {by_ : List Color} (hc : c ∈ S) (hx : x ∈ by_) :
    x ∈ replaceAt S c by_ := by
  induction S with
  | nil => simp at hc
  | cons d ds ih =>
    unfold replaceAt
    split
    · exact List.mem_append_left _ hx
    · rename_i hne
      rcases List.mem_cons.mp hc with rfl | h
      · exact absurd rfl hne
      · exact List.mem_cons_of_mem _ (ih h)

theorem seqStep_persist {H : List Item → Nat} {HT : Term → Nat} {g : Graph} {W : Color} {T : List Color} {c z : Color}
    (hz : z ∈ T) (hne : activeC c = true → z ≠ c) : z ∈ seqStep H HT g W T c := by
  unfold seqStep
  by_cases hact : activeC c = true
  · rw [if_pos hact]
    split
    · exact mem_replaceAt_of_ne _ hz (hne hact)
    · exact List.mem_append_right _ hz
  · rw [if_neg hact]; exact hz

theorem foldl_seqStep_persist (H : List Item → Nat) (HT : Term → Nat) (g : Graph) (W : Color) (todo : List Color) :
    ∀ (T : List Color) (z : Color), z ∈ T → (∀ c ∈ todo, activeC c = true → z ≠ c) →
      z ∈ todo.foldl (seqStep H HT g W) T := by
  induction todo with
  | nil => intro T z hz _; exact hz
  | cons c todo ih =>
    intro T z hz hne
    rw [List.foldl_cons]
    exact ih _ z (seqStep_persist hz (hne c List.mem_cons_self))
      (fun c' hc' => hne c' (List.mem_cons_of_mem _ hc'))

/-- pairwise disjoint, non-empty cells -/
def Disj (cs : List Color) : Prop := cs.Pairwise (fun a b => ∀ n ∈ a.nodes, n ∉ b.nodes)

theorem splitOf_sub (H : List Item → Nat) (HT : Term → Nat) (g : Graph) (W c : Color) :
    ∀ x ∈ splitOf H HT g W c, ∀ n ∈ x.nodes, n ∈ c.nodes := by
  intro x hx n hn
  apply (splitOf_spec H HT g W c).2.1.mem_iff.mp
  exact List.mem_flatMap.mpr ⟨x, hx, hn⟩

theorem foldl_seqStep_lb (H : List Item → Nat) (HT : Term → Nat) (g : Graph) (W : Color) (todo : List Color) :
    ∀ (T : List Color), WFc todo → Disj todo → ∀ c ∈ todo, activeC c = true →
      (c ∈ T → ∀ x ∈ splitOf H HT g W c, x ∈ todo.foldl (seqStep H HT g W) T) ∧
      (∀ x ∈ (splitOf H HT g W c).tail, x ∈ todo.foldl (seqStep H HT g W) T) := by
  induction todo with
  | nil => intro T _ _ c hc; simp at hc
  | cons d todo ih =>
    intro T hwf hdisj c hc hact
    rw [List.foldl_cons]
    have hdisj' := List.pairwise_cons.mp hdisj
    have hwf' : WFc todo := fun x hx => hwf x (List.mem_cons_of_mem _ hx)
    -- a child of the head is different from every later cell
    have child_ne : ∀ x ∈ splitOf H HT g W d, ∀ c' ∈ todo, x ≠ c' := by
      intro x hx c' hc' e
      have hxn : x.nodes ≠ [] := (splitOf_spec H HT g W d).1 x hx
      obtain ⟨n, hn⟩ := List.exists_mem_of_ne_nil _ hxn
      have hnd : n ∈ d.nodes := splitOf_sub H HT g W d x hx n hn
      exact hdisj'.1 c' hc' n hnd (e ▸ hn)
    rcases List.mem_cons.mp hc with rfl | hc'
    · -- the head itself
      constructor
      · intro hcT x hx
        apply foldl_seqStep_persist
        · unfold seqStep
          rw [if_pos hact, if_pos hcT]
          exact mem_replaceAt_by hcT hx
        · exact fun c' hc' _ => child_ne x hx c' hc'
      · intro x hx
        apply foldl_seqStep_persist
        · unfold seqStep
          rw [if_pos hact]
          split
          · rename_i hcT; exact mem_replaceAt_by hcT (List.mem_of_mem_tail hx)
          · exact List.mem_append_left _ hx
        · exact fun c' hc' _ => child_ne x (List.mem_of_mem_tail hx) c' hc'
    · have hne : c ≠ d := by
        intro e
        have hcn : c.nodes ≠ [] := hwf' c hc'
        obtain ⟨n, hn⟩ := List.exists_mem_of_ne_nil _ hcn
        exact hdisj'.1 c hc' n (e ▸ hn) hn
      obtain ⟨a, b⟩ := ih (seqStep H HT g W T d) hwf' hdisj'.2 c hc' hact
      exact ⟨fun hcT => a (seqStep_persist hcT (fun _ => hne)), b⟩


/-! ### what a pass does to one colour -/

section
variable (H : List Item → Nat) (HT : Term → Nat) (g : Graph) (W : Color)

theorem keepOrSplit_nodes (c : Color) : (allNodes (keepOrSplit H HT g W c)).Perm c.nodes := by
  unfold keepOrSplit
  split
  · exact (splitOf_spec H HT g W c).2.1
  · simp [allNodes]

theorem keepOrSplit_sub (c : Color) : ∀ x ∈ keepOrSplit H HT g W c, ∀ n ∈ x.nodes, n ∈ c.nodes := by
  intro x hx n hn
  apply (keepOrSplit_nodes H HT g W c).mem_iff.mp
  exact List.mem_flatMap.mpr ⟨x, hx, hn⟩

theorem allNodes_flatMap_keep (Z : List Color) :
    (allNodes (Z.flatMap (keepOrSplit H HT g W))).Perm (allNodes Z) := by
  induction Z with
  | nil => exact List.Perm.refl _
  | cons z Z ih =>
    simp only [allNodes, List.flatMap_cons, List.flatMap_append] at ih ⊢
    exact List.Perm.append (keepOrSplit_nodes H HT g W z) ih

theorem disj_symm : ∀ {a b : Color}, (∀ n ∈ a.nodes, n ∉ b.nodes) → (∀ n ∈ b.nodes, n ∉ a.nodes) :=
  fun h n hn hn' => h n hn' hn

theorem disj_of_hashes {f : Color → Nat} {key : Term → Nat} :
    ∀ (l : List Color), (l.map f).Nodup → (∀ x ∈ l, ∀ n ∈ x.nodes, key n = f x) → Disj l := by
  intro l
  induction l with
  | nil => intro _ _; exact List.Pairwise.nil
  | cons x xs ih =>
    intro hnd hkey
    rw [List.map_cons, List.nodup_cons] at hnd
    refine List.Pairwise.cons ?_ (ih hnd.2 (fun y hy => hkey y (List.mem_cons_of_mem _ hy)))
    intro y hy n hn hn'
    apply hnd.1
    rw [← hkey x List.mem_cons_self n hn, hkey y (List.mem_cons_of_mem _ hy) n hn']
    exact List.mem_map.mpr ⟨y, hy, rfl⟩

theorem splitOf_disj (c : Color) : Disj (splitOf H HT g W c) := by
  have hd : Disj (distinguish H HT g c W) := by
    apply disj_of_hashes (f := fun x => H x.items)
      (key := fun n => H (c.items ++ distinguishItems (W.hash H HT) g W.nodes n))
    · exact (splitOf_spec H HT g W c).2.2
    · intro x hx n hn
      have key := groupByHash_members H
        (c.nodes.map (fun n => (n, c.items ++ distinguishItems (W.hash H HT) g W.nodes n)))
        (c.nodes.map (fun n => (n, c.items ++ distinguishItems (W.hash H HT) g W.nodes n))) []
        (fun x hx => hx) (by intro c hc; simp at hc) x hx n hn
      obtain ⟨its, hin, hh⟩ := key
      obtain ⟨n', _, en⟩ := List.mem_map.mp hin
      simp only [Prod.mk.injEq] at en
      obtain ⟨rfl, rfl⟩ := en
      exact hh
  unfold splitOf
  exact ((sortDesc_perm H HT _).pairwise_iff (fun h => disj_symm h)).mpr hd

theorem keepOrSplit_disj (c : Color) : Disj (keepOrSplit H HT g W c) := by
  unfold keepOrSplit
  split
  · exact splitOf_disj H HT g W c
  · exact List.pairwise_singleton _ _

theorem refinePass_disj (P S : List Color) (hd : Disj P) : Disj (refinePass H HT g W P S).1 := by
  refine ((refinePass_closed H HT g W P S).pairwise_iff (fun h => disj_symm h)).mpr ?_
  rw [List.pairwise_flatMap]
  refine ⟨fun c _ => keepOrSplit_disj H HT g W c, hd.imp ?_⟩
  intro a b hab x hx y hy n hn hn'
  exact hab n (keepOrSplit_sub H HT g W a x hx n hn) (keepOrSplit_sub H HT g W b y hy n hn')

end

/-! ### the worklist invariant -/

/-- `X` is in the sequence, or the colouring is stable against a union of `X` with cells that are all in the sequence -/
def Covered (g : Graph) (P S : List Color) (X : Color) : Prop :=
  X ∈ S ∨ ∃ Ys : List Color, (∀ Y ∈ Ys, Y ∈ S ∧ Y ∈ P) ∧ ∀ c ∈ P, StableWrt g 0 (X.nodes ++ allNodes Ys) c

def WInv (g : Graph) (P S : List Color) : Prop := ∀ X ∈ P, Covered g P S X

theorem remove_W {g : Graph} {c' W : Color} (hW : StableWrt g 0 W.nodes c') :
    ∀ (Ys : List Color) (A : List Term), StableWrt g 0 (A ++ allNodes Ys) c' →
      StableWrt g 0 (A ++ allNodes (Ys.filter (fun Y => decide (Y ≠ W)))) c' := by
  intro Ys
  induction Ys with
  | nil => intro A h; exact h
  | cons Y Ys ih =>
    intro A h
    have e : allNodes (Y :: Ys) = Y.nodes ++ allNodes Ys := by simp [allNodes]
    rw [e] at h
    by_cases hY : Y = W
    · subst hY
      have hf : (Y :: Ys).filter (fun Z => decide (Z ≠ Y)) = Ys.filter (fun Z => decide (Z ≠ Y)) := by simp
      rw [hf]
      apply ih A
      have hp : (A ++ (Y.nodes ++ allNodes Ys)).Perm ((A ++ allNodes Ys) ++ Y.nodes) := by
        rw [List.append_assoc]
        exact List.Perm.append_left A List.perm_append_comm
      exact (h.perm hp).cancel hW
    · have hf : (Y :: Ys).filter (fun Z => decide (Z ≠ W)) = Y :: Ys.filter (fun Z => decide (Z ≠ W)) := by simp [hY]
      rw [hf]
      have e' : allNodes (Y :: Ys.filter (fun Z => decide (Z ≠ W))) =
          Y.nodes ++ allNodes (Ys.filter (fun Z => decide (Z ≠ W))) := by simp [allNodes]
      rw [e', ← List.append_assoc]
      apply ih (A ++ Y.nodes)
      rw [List.append_assoc]
      exact h

theorem pass_WInv {H : List Item → Nat} (hH : MultisetInj H) (HT : Term → Nat) (g : Graph) (P S : List Color)
    (W : Color) (hS : S.getLast? = some W) (hwf : WFc P) (hdisj : Disj P) (hinv : WInv g P S) :
    WInv g (refinePass H HT g W P S.dropLast).1 (refinePass H HT g W P S.dropLast).2 := by
  have hS' : (refinePass H HT g W P S.dropLast).2 = P.foldl (seqStep H HT g W) S.dropLast :=
    foldl_step_snd H HT g W P P S.dropLast
  have hC : ∀ x, x ∈ (refinePass H HT g W P S.dropLast).1 ↔ ∃ c ∈ P, x ∈ keepOrSplit H HT g W c := by
    intro x
    rw [(refinePass_closed H HT g W P S.dropLast).mem_iff, List.mem_flatMap]
  have F1 : ∀ c' ∈ (refinePass H HT g W P S.dropLast).1, StableWrt g 0 W.nodes c' :=
    fun c' h => (refinePass_stable hH HT g W P _ c' h).hash 0
  have hsub : SubCells (refinePass H HT g W P S.dropLast).1 P := (refinePass_spec H HT g W P S.dropLast hwf).2.2.2
  have F2 : ∀ U, (∀ c ∈ P, StableWrt g 0 U c) → ∀ c' ∈ (refinePass H HT g W P S.dropLast).1, StableWrt g 0 U c' := by
    intro U h c' hc'
    obtain ⟨c, hc, hcc⟩ := hsub c' hc'
    exact (h c hc).sub hcc
  have memS : ∀ Y ∈ S, Y = W ∨ Y ∈ S.dropLast := by
    intro Y hY
    have hne : S ≠ [] := by intro e; rw [e] at hS; simp at hS
    have e := List.dropLast_concat_getLast hne
    have hl : S.getLast hne = W := by
      have := List.getLast?_eq_getLast hne
      rw [this] at hS
      exact Option.some.inj hS
    rw [← e, hl] at hY
    rcases List.mem_append.mp hY with h | h
    · exact Or.inr h
    · exact Or.inl (by simpa using h)
  have K : ∀ Y ∈ P, Y ∈ S.dropLast → ∀ y ∈ keepOrSplit H HT g W Y, y ∈ (refinePass H HT g W P S.dropLast).2 := by
    intro Y hYP hYS y hy
    rw [hS']
    unfold keepOrSplit at hy
    by_cases hact : activeC Y = true
    · rw [if_pos hact] at hy
      exact (foldl_seqStep_lb H HT g W P S.dropLast hwf hdisj Y hYP hact).1 hYS y hy
    · rw [if_neg hact] at hy
      simp only [List.mem_singleton] at hy
      subst hy
      apply foldl_seqStep_persist _ _ _ _ _ _ _ hYS
      intro c _ hcact e
      exact hact (e ▸ hcact)
  have LB2 : ∀ Y ∈ P, ∀ y ∈ (keepOrSplit H HT g W Y).tail, y ∈ (refinePass H HT g W P S.dropLast).2 := by
    intro Y hYP y hy
    rw [hS']
    unfold keepOrSplit at hy
    by_cases hact : activeC Y = true
    · rw [if_pos hact] at hy
      exact (foldl_seqStep_lb H HT g W P S.dropLast hwf hdisj Y hYP hact).2 y hy
    · rw [if_neg hact] at hy
      simp at hy
  intro X' hX'
  obtain ⟨X, hXP, hXX⟩ := (hC X').mp hX'
  cases hks : keepOrSplit H HT g W X with
  | nil => rw [hks] at hXX; simp at hXX
  | cons hd tl =>
    rw [hks] at hXX
    have hnodes : (hd.nodes ++ allNodes tl).Perm X.nodes := by
      have := keepOrSplit_nodes H HT g W X
      rw [hks] at this
      simpa [allNodes] using this
    have tlS : ∀ y ∈ tl, y ∈ (refinePass H HT g W P S.dropLast).2 ∧ y ∈ (refinePass H HT g W P S.dropLast).1 :=
      fun y hy => ⟨LB2 X hXP y (by rw [hks]; exact hy),
        (hC y).mpr ⟨X, hXP, by rw [hks]; exact List.mem_cons_of_mem _ hy⟩⟩
    rcases List.mem_cons.mp hXX with rfl | hXtl
    · rcases hinv X hXP with hXS | ⟨Ys, hYs, hst⟩
      · rcases memS X hXS with rfl | hXd
        · right
          exact ⟨tl, tlS, fun c' hc' => (F1 c' hc').perm hnodes.symm⟩
        · left
          exact K X hXP hXd X' (by rw [hks]; exact List.mem_cons_self)
      · right
        refine ⟨tl ++ (Ys.filter (fun Y => decide (Y ≠ W))).flatMap (keepOrSplit H HT g W), ?_, ?_⟩
        · intro y hy
          rcases List.mem_append.mp hy with h | h
          · exact tlS y h
          · obtain ⟨Y, hY, hyY⟩ := List.mem_flatMap.mp h
            have hY' := List.mem_filter.mp hY
            obtain ⟨hYS, hYP⟩ := hYs Y hY'.1
            have hne : Y ≠ W := by simpa using hY'.2
            rcases memS Y hYS with e | hd'
            · exact absurd e hne
            · exact ⟨K Y hYP hd' y hyY, (hC y).mpr ⟨Y, hYP, hyY⟩⟩
        · intro c' hc'
          have h1 := F2 _ hst c' hc'
          have h2 := remove_W (F1 c' hc') Ys X.nodes h1
          refine h2.perm ?_
          have e1 := allNodes_flatMap_keep H HT g W (Ys.filter (fun Y => decide (Y ≠ W)))
          have e2 : allNodes (tl ++ (Ys.filter (fun Y => decide (Y ≠ W))).flatMap (keepOrSplit H HT g W)) =
              allNodes tl ++ allNodes ((Ys.filter (fun Y => decide (Y ≠ W))).flatMap (keepOrSplit H HT g W)) := by
            simp [allNodes]
          rw [e2, ← List.append_assoc]
          exact List.Perm.append hnodes.symm e1.symm
    · left
      exact (tlS X' hXtl).1

/-- global stability of the loop's result -/
theorem run_stable {H : List Item → Nat} (hH : MultisetInj H) (HT : Term → Nat) (g : Graph) {P S R : List Color}
    (hrun : RefineRun H HT g P S R) : WFc P → Disj P → WInv g P S → Stable H HT g R := by
  induction hrun with
  | done hd =>
    rename_i P S
    intro _ _ hinv
    unfold refineDone at hd
    by_cases hdis : P.all Color.discrete = true
    · exact stable_of_discrete H HT g P hdis
    · have hS : S = [] := by
        cases S with
        | nil => rfl
        | cons a as => simp [hdis] at hd
      intro Wc hWc c hc
      rcases hinv Wc hWc with h | ⟨Ys, hYs, hst⟩
      · rw [hS] at h; simp at h
      · have hY : Ys = [] := by
          cases Ys with
          | nil => rfl
          | cons y ys => have := (hYs y List.mem_cons_self).1; rw [hS] at this; simp at this
        have := hst c hc
        rw [hY] at this
        simp only [allNodes, List.flatMap_nil, List.append_nil] at this
        exact this.hash _
  | step hd hW hsubrun ih =>
    rename_i P S R W
    intro hwf hdisj hinv
    exact ih (refinePass_spec H HT g W P S.dropLast hwf).1 (refinePass_disj H HT g W P S.dropLast hdisj)
      (pass_WInv hH HT g P S W hW hwf hdisj hinv)

/-! ### the initial call -/

theorem nodup_foldl_tinsert (l : List Term) : ∀ acc : List Term, acc.Nodup → (l.foldl tinsert acc).Nodup := by
  induction l with
  | nil => intro acc h; exact h
  | cons x xs ih =>
    intro acc h
    rw [List.foldl_cons]
    apply ih
    unfold tinsert
    split
    · exact h
    · rename_i hx
      rw [List.nodup_append]
      exact ⟨h, by simp, fun a ha b hb => by simp at hb; rw [hb]; intro e; exact hx (e ▸ ha)⟩

theorem initialColor_disj (g : Graph) : Disj (initialColor g) := by
  rw [initialColor_eq]
  split
  · exact List.Pairwise.nil
  · refine List.Pairwise.cons ?_ ?_
    · intro y hy n hn hn'
      obtain ⟨x, hx, rfl⟩ := List.mem_map.mp hy
      simp only [List.mem_singleton] at hn'
      subst hn'
      have hb : n.blank = true := by
        rcases (mem_foldl_tinsert _ _ _).mp hn with h | h
        · simp at h
        · simpa using (List.mem_filter.mp h).2
      have hnb : n.blank = false := by
        rcases (mem_foldl_tinsert _ _ _).mp hx with h | h
        · simp at h
        · simpa using (List.mem_filter.mp h).2
      rw [hb] at hnb; cases hnb
    · rw [List.pairwise_map]
      have hnd := nodup_foldl_tinsert ((touchTerms g).filter (fun x => !x.blank)) [] List.nodup_nil
      refine (List.nodup_iff_pairwise_ne.mp hnd).imp ?_
      intro a b hab n hn hn'
      simp only [List.mem_singleton] at hn hn'
      exact hab (hn.symm.trans hn')

theorem refineInit_stable {H : List Item → Nat} (hH : MultisetInj H) (HT : Term → Nat) (g : Graph) :
    Stable H HT g (refineLoop H HT g (refineFuel (initialColor g) (initialColor g)) (initialColor g)
      (sortDesc H HT (initialColor g))) := by
  have hrun := refineLoop_run H HT g (refineFuel (initialColor g) (initialColor g)) (initialColor g)
    (sortDesc H HT (initialColor g)) (initialColor_wf g) (by unfold refineFuel; rw [sortDesc_length]; exact Nat.le_refl _)
  apply run_stable hH HT g hrun (initialColor_wf g) (initialColor_disj g)
  intro X hX
  exact Or.inl ((sortDesc_perm H HT (initialColor g)).mem_iff.mpr hX)

end RV.C14
