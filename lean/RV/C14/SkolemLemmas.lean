import RV.C14.Model
/-
  Helper definitions and lemmas for the skolemisation clause of C14.
-/
namespace RV.C14

/-! ### guards used by the statements -/

def STerm.labels : STerm → List Str
  | .bnode l => [l]
  | _ => []

/-- blank-node labels in subject / object position -/
def slabels : SGraph → List Str
  | [] => []
  | t :: g => (t.1.labels ++ t.2.2.labels) ++ slabels g

/-- no IRI in subject or object position is already under the well-known genid path -/
def NoGenid (U : UrlOps) (g : SGraph) : Prop :=
  ∀ t ∈ g, ∀ u, (t.1 = .iri u ∨ t.2.2 = .iri u) →
    isRdflibSkolem U u = false ∧ isExternalSkolem U u = false

/-- contract of `urljoin` / `urlparse` on the skolem IRI of one label: it is recognised as an rdflib
    skolem IRI and its path minus the genid prefix is the label -/
def LabelOk (U : UrlOps) (l : Str) : Prop :=
  isRdflibSkolem U (skolemizeLabel U l) = true ∧
    (U.path (skolemizeLabel U l)).drop rdflibSkolemGenid.length = l

def LabelsOk (U : UrlOps) (g : SGraph) : Prop := ∀ l ∈ slabels g, LabelOk U l

/-- labels without the URL delimiters (the N-Triples BLANK_NODE_LABEL grammar has none of them) -/
def LabelChars (l : Str) : Prop := ∀ c ∈ l, c ≠ '/' ∧ c ≠ '?' ∧ c ≠ '#' ∧ c ≠ ';'

instance (l : Str) : Decidable (LabelChars l) := by unfold LabelChars; infer_instance

/-! ### round trip -/

theorem desk_sk_term (U : UrlOps) (fresh : Str → Str) (x : STerm)
    (hn : ∀ u, x = .iri u → isRdflibSkolem U u = false ∧ isExternalSkolem U u = false)
    (hl : ∀ l ∈ x.labels, LabelOk U l) : deskTerm U fresh (skTerm U x) = x := by
  cases x with
  | iri u =>
    obtain ⟨h1, h2⟩ := hn u rfl
    simp [skTerm, skTermAt, deskTerm, h1, h2]
  | bnode l =>
    obtain ⟨h1, h2⟩ := hl l (by simp [STerm.labels])
    have e : skolemizeLabelAt U defaultAuthority rdflibSkolemGenid l = skolemizeLabel U l := rfl
    simp [skTerm, skTermAt, deskTerm, e, h1, h2]
  | lit lex n => rfl

theorem deSk_sk_eq (U : UrlOps) (fresh : Str → Str) (g : SGraph) (hn : NoGenid U g) (hl : LabelsOk U g) :
    deSkolemize U fresh (skolemize U g) = g := by
  induction g with
  | nil => rfl
  | cons t g ih =>
    have ih' := ih (fun t' ht' => hn t' (List.mem_cons_of_mem _ ht'))
      (fun l hl' => hl l (by simp only [slabels, List.mem_append]; exact Or.inr hl'))
    simp only [deSkolemize, skolemize, List.map_cons, List.map_map] at ih' ⊢
    rw [ih']
    have h1 : deskTerm U fresh (skTerm U t.1) = t.1 :=
      desk_sk_term U fresh t.1 (fun u hu => hn t List.mem_cons_self u (Or.inl hu))
        (fun l hl' => hl l (by simp only [slabels, List.mem_append]; exact Or.inl (Or.inl hl')))
    have h2 : deskTerm U fresh (skTerm U t.2.2) = t.2.2 :=
      desk_sk_term U fresh t.2.2 (fun u hu => hn t List.mem_cons_self u (Or.inr hu))
        (fun l hl' => hl l (by simp only [slabels, List.mem_append]; exact Or.inl (Or.inr hl')))
    simp [h1, h2]

/-- partial skolemisation (`skolemize(bnode=b)` for the nodes of `sel`) followed by a full `de_skolemize()` -/
theorem deSk_skSel_eq (U : UrlOps) (fresh : Str → Str) (sel : List Str) (g : SGraph) (hn : NoGenid U g)
    (hl : LabelsOk U g) :
    deSkolemize U fresh (skolemizeSel U defaultAuthority rdflibSkolemGenid sel g) = g := by
  have term : ∀ x : STerm,
      (∀ u, x = .iri u → isRdflibSkolem U u = false ∧ isExternalSkolem U u = false) →
      (∀ l ∈ x.labels, LabelOk U l) →
      deskTerm U fresh (skTermSel U defaultAuthority rdflibSkolemGenid sel x) = x := by
    intro x h1 h2
    cases x with
    | iri u => exact desk_sk_term U fresh (.iri u) h1 h2
    | lit lex n => rfl
    | bnode l =>
      by_cases hs : l ∈ sel
      · have := desk_sk_term U fresh (.bnode l) h1 h2
        simpa [skTermSel, hs, skTerm, skTermAt] using this
      · simp [skTermSel, hs, deskTerm]
  induction g with
  | nil => rfl
  | cons t g ih =>
    have ih' := ih (fun t' ht' => hn t' (List.mem_cons_of_mem _ ht'))
      (fun l hl' => hl l (by simp only [slabels, List.mem_append]; exact Or.inr hl'))
    simp only [deSkolemize, skolemizeSel, List.map_cons, List.map_map] at ih' ⊢
    rw [ih']
    have h1 := term t.1 (fun u hu => hn t List.mem_cons_self u (Or.inl hu))
      (fun l hl' => hl l (by simp only [slabels, List.mem_append]; exact Or.inl (Or.inl hl')))
    have h2 := term t.2.2 (fun u hu => hn t List.mem_cons_self u (Or.inr hu))
      (fun l hl' => hl l (by simp only [slabels, List.mem_append]; exact Or.inl (Or.inr hl')))
    simp [h1, h2]

/-! ### the stateful code (`skolems` dict) acts as ONE label map per call

    The only thing used about the dict is that entries are added and never changed or dropped
    (`CacheExt`): then every term of the call is translated by the single function the FINAL dict
    stands for.  (An eviction policy breaks exactly this.) -/

/-- `c'` still has every entry of `c` -/
def CacheExt (c c' : SkCache) : Prop := ∀ u l, clookup c u = some l → clookup c' u = some l

theorem CacheExt.refl (c : SkCache) : CacheExt c c := fun _ _ h => h
theorem CacheExt.trans {a b c : SkCache} (h1 : CacheExt a b) (h2 : CacheExt b c) : CacheExt a c :=
  fun u l h => h2 u l (h1 u l h)

theorem deskTermSt_spec (U : UrlOps) (mint : Nat → Str) (st : SkState) (x : STerm) :
    CacheExt st.cache (deskTermSt U mint st x).2.cache ∧
    ∀ (c'' : SkCache) (dflt : Str → Str), CacheExt (deskTermSt U mint st x).2.cache c'' →
      (deskTermSt U mint st x).1 = deskTerm U (c''.fn dflt) x := by
  cases x with
  | bnode l => exact ⟨CacheExt.refl _, fun _ _ _ => rfl⟩
  | lit lex n => exact ⟨CacheExt.refl _, fun _ _ _ => rfl⟩
  | iri u =>
    cases hr : isRdflibSkolem U u with
    | true =>
      have e1 : deskTermSt U mint st (.iri u) = (.bnode ((U.path u).drop rdflibSkolemGenid.length), st) := by
        simp [deskTermSt, hr]
      have e2 : ∀ f, deskTerm U f (.iri u) = .bnode ((U.path u).drop rdflibSkolemGenid.length) := by
        intro f; simp [deskTerm, hr]
      rw [e1]
      exact ⟨CacheExt.refl _, fun c'' dflt _ => (e2 _).symm⟩
    | false =>
      cases hx : isExternalSkolem U u with
      | false =>
        have e1 : deskTermSt U mint st (.iri u) = (.iri u, st) := by simp [deskTermSt, hr, hx]
        have e2 : ∀ f, deskTerm U f (.iri u) = .iri u := by intro f; simp [deskTerm, hr, hx]
        rw [e1]
        exact ⟨CacheExt.refl _, fun c'' dflt _ => (e2 _).symm⟩
      | true =>
        have e2 : ∀ f, deskTerm U f (.iri u) = .bnode (f u) := by intro f; simp [deskTerm, hr, hx]
        cases hl : clookup st.cache u with
        | some l =>
          have e1 : deskTermSt U mint st (.iri u) = (.bnode l, st) := by simp [deskTermSt, hr, hx, hl]
          rw [e1]
          refine ⟨CacheExt.refl _, fun c'' dflt he => ?_⟩
          rw [e2]
          simp only [SkCache.fn, he u l hl]
        | none =>
          have e1 : deskTermSt U mint st (.iri u) =
              (.bnode (mint st.next), ⟨(u, mint st.next) :: st.cache, st.next + 1⟩) := by
            simp [deskTermSt, hr, hx, hl]
          rw [e1]
          refine ⟨?_, fun c'' dflt he => ?_⟩
          · intro u' l' h'
            show clookup ((u, mint st.next) :: st.cache) u' = some l'
            unfold clookup
            split
            · next e => subst e; rw [hl] at h'; cases h'
            · exact h'
          · have : clookup c'' u = some (mint st.next) := he u _ (by simp [clookup])
            rw [e2]
            simp only [SkCache.fn, this]

theorem deSkolemizeSt_spec (U : UrlOps) (mint : Nat → Str) : ∀ (g : SGraph) (st : SkState),
    CacheExt st.cache (deSkolemizeSt U mint st g).2.cache ∧
    ∀ (c'' : SkCache) (dflt : Str → Str), CacheExt (deSkolemizeSt U mint st g).2.cache c'' →
      (deSkolemizeSt U mint st g).1 = deSkolemize U (c''.fn dflt) g := by
  intro g
  induction g with
  | nil => intro st; exact ⟨CacheExt.refl _, fun _ _ _ => rfl⟩
  | cons t g ih =>
    intro st
    obtain ⟨e1, s1⟩ := deskTermSt_spec U mint st t.1
    obtain ⟨e2, s2⟩ := deskTermSt_spec U mint (deskTermSt U mint st t.1).2 t.2.2
    obtain ⟨e3, s3⟩ := ih (deskTermSt U mint (deskTermSt U mint st t.1).2 t.2.2).2
    simp only [deSkolemizeSt]
    refine ⟨e1.trans (e2.trans e3), fun c'' dflt he => ?_⟩
    simp only [deSkolemize, List.map_cons]
    rw [s1 c'' dflt (e2.trans (e3.trans he)), s2 c'' dflt (e3.trans he)]
    have := s3 c'' dflt he
    simp only [deSkolemize] at this
    rw [this]

/-! ### round trip through the EXTERNAL genid branch (`skolemize(authority=…, basepath="/.well-known/genid/")`):
    the blank nodes come back with fresh labels, one per skolem IRI -/

/-- renaming of blank-node labels on string-labelled graphs -/
def STerm.rename (σ : Str → Str) : STerm → STerm
  | .bnode l => .bnode (σ l)
  | t => t

def SGraph.rename (σ : Str → Str) (g : SGraph) : SGraph :=
  g.map (fun t => (t.1.rename σ, t.2.1.rename σ, t.2.2.rename σ))

/-- dict invariant: the values are labels minted so far and pairwise distinct -/
structure CacheFresh (mint : Nat → Str) (st : SkState) : Prop where
  minted : ∀ p ∈ st.cache, ∃ k, k < st.next ∧ p.2 = mint k
  nodup : (st.cache.map (·.2)).Nodup

theorem clookup_mem {c : SkCache} {u l : Str} (h : clookup c u = some l) : (u, l) ∈ c := by
  induction c with
  | nil => simp [clookup] at h
  | cons p c ih =>
    obtain ⟨k, v⟩ := p
    unfold clookup at h
    split at h
    · next hk => subst hk; injection h with h; subst h; exact List.mem_cons_self
    · exact List.mem_cons_of_mem _ (ih h)

theorem clookup_inj {c : SkCache} (hv : (c.map (·.2)).Nodup) {a b v : Str}
    (ha : clookup c a = some v) (hb : clookup c b = some v) : a = b := by
  induction c with
  | nil => simp [clookup] at ha
  | cons p c ih =>
    obtain ⟨k, w⟩ := p
    simp only [List.map_cons, List.nodup_cons] at hv
    have hmem : ∀ {x : Str}, clookup c x = some v → v ∈ c.map (·.2) :=
      fun h => List.mem_map.mpr ⟨_, clookup_mem h, rfl⟩
    unfold clookup at ha hb
    split at ha
    · next hka =>
      split at hb
      · next hkb => rw [← hka, ← hkb]
      · injection ha with ha; subst ha; exact absurd (hmem hb) hv.1
    · next hka =>
      split at hb
      · injection hb with hb; subst hb; exact absurd (hmem ha) hv.1
      · exact ih hv.2 ha hb

theorem deskTermSt_fresh {U : UrlOps} {mint : Nat → Str} (hm : Function.Injective mint) {st : SkState}
    (hf : CacheFresh mint st) (x : STerm) : CacheFresh mint (deskTermSt U mint st x).2 := by
  cases x with
  | bnode l => exact hf
  | lit lex n => exact hf
  | iri u =>
    cases hr : isRdflibSkolem U u with
    | true => have : deskTermSt U mint st (.iri u) =
                  (.bnode ((U.path u).drop rdflibSkolemGenid.length), st) := by simp [deskTermSt, hr]
              rw [this]; exact hf
    | false =>
      cases hx : isExternalSkolem U u with
      | false => have : deskTermSt U mint st (.iri u) = (.iri u, st) := by simp [deskTermSt, hr, hx]
                 rw [this]; exact hf
      | true =>
        cases hl : clookup st.cache u with
        | some l => have : deskTermSt U mint st (.iri u) = (.bnode l, st) := by simp [deskTermSt, hr, hx, hl]
                    rw [this]; exact hf
        | none =>
          have e1 : deskTermSt U mint st (.iri u) =
              (.bnode (mint st.next), ⟨(u, mint st.next) :: st.cache, st.next + 1⟩) := by
            simp [deskTermSt, hr, hx, hl]
          rw [e1]
          constructor
          · intro p hp
            rcases List.mem_cons.mp hp with rfl | hp
            · exact ⟨st.next, Nat.lt_succ_self _, rfl⟩
            · obtain ⟨k, hk, e⟩ := hf.minted p hp
              exact ⟨k, Nat.lt_succ_of_lt hk, e⟩
          · show ((u, mint st.next) :: st.cache |>.map (·.2)).Nodup
            rw [List.map_cons, List.nodup_cons]
            refine ⟨?_, hf.nodup⟩
            intro hmem
            obtain ⟨p, hp, e⟩ := List.mem_map.mp hmem
            obtain ⟨k, hk, e'⟩ := hf.minted p hp
            have : mint k = mint st.next := by rw [← e', e]
            have := hm this
            omega

theorem deSkolemizeSt_fresh {U : UrlOps} {mint : Nat → Str} (hm : Function.Injective mint) :
    ∀ (g : SGraph) (st : SkState), CacheFresh mint st → CacheFresh mint (deSkolemizeSt U mint st g).2 := by
  intro g
  induction g with
  | nil => intro st h; exact h
  | cons t g ih =>
    intro st h
    simp only [deSkolemizeSt]
    exact ih _ (deskTermSt_fresh hm (deskTermSt_fresh hm h t.1) t.2.2)

theorem deskTermSt_present (U : UrlOps) (mint : Nat → Str) (st : SkState) (u : Str)
    (hr : isRdflibSkolem U u = false) (hx : isExternalSkolem U u = true) :
    ∃ v, clookup (deskTermSt U mint st (.iri u)).2.cache u = some v := by
  cases hl : clookup st.cache u with
  | some l =>
    have : deskTermSt U mint st (.iri u) = (.bnode l, st) := by simp [deskTermSt, hr, hx, hl]
    rw [this]; exact ⟨l, hl⟩
  | none =>
    have e1 : deskTermSt U mint st (.iri u) =
        (.bnode (mint st.next), ⟨(u, mint st.next) :: st.cache, st.next + 1⟩) := by
      simp [deskTermSt, hr, hx, hl]
    rw [e1]; exact ⟨mint st.next, by simp [clookup]⟩

theorem deSkolemizeSt_present (U : UrlOps) (mint : Nat → Str) : ∀ (g : SGraph) (st : SkState),
    ∀ t ∈ g, ∀ u, (t.1 = .iri u ∨ t.2.2 = .iri u) → isRdflibSkolem U u = false →
      isExternalSkolem U u = true → ∃ v, clookup (deSkolemizeSt U mint st g).2.cache u = some v := by
  intro g
  induction g with
  | nil => intro st t ht; cases ht
  | cons t0 g ih =>
    intro st t ht u hu hr hx
    simp only [deSkolemizeSt]
    have e2 := (deskTermSt_spec U mint (deskTermSt U mint st t0.1).2 t0.2.2).1
    have e3 := (deSkolemizeSt_spec U mint g (deskTermSt U mint (deskTermSt U mint st t0.1).2 t0.2.2).2).1
    rcases List.mem_cons.mp ht with rfl | ht
    · rcases hu with hu | hu
      · obtain ⟨v, hv⟩ := deskTermSt_present U mint st u hr hx
        rw [← hu] at hv
        exact ⟨v, e3 u v (e2 u v hv)⟩
      · obtain ⟨v, hv⟩ := deskTermSt_present U mint (deskTermSt U mint st t.1).2 u hr hx
        rw [← hu] at hv
        exact ⟨v, e3 u v hv⟩
    · exact ih _ t ht u hu hr hx

theorem mem_slabels {g : SGraph} {l : Str} :
    l ∈ slabels g ↔ ∃ t ∈ g, t.1 = .bnode l ∨ t.2.2 = .bnode l := by
  have hlab : ∀ x : STerm, l ∈ x.labels ↔ x = .bnode l := by
    intro x; cases x <;> simp [STerm.labels, eq_comm]
  induction g with
  | nil => simp [slabels]
  | cons t g ih =>
    simp only [slabels, List.mem_append, hlab, ih, List.mem_cons]
    constructor
    · rintro ((h | h) | ⟨t', ht', h⟩)
      · exact ⟨t, Or.inl rfl, Or.inl h⟩
      · exact ⟨t, Or.inl rfl, Or.inr h⟩
      · exact ⟨t', Or.inr ht', h⟩
    · rintro ⟨t', (rfl | ht'), h⟩
      · exact Or.inl h
      · exact Or.inr ⟨t', ht', h⟩

/-- the round trip through the external branch is a relabelling by an injective label map -/
theorem external_roundtrip (U : UrlOps) (mint : Nat → Str) (hm : Function.Injective mint) (auth base : Str)
    (g : SGraph) (st : SkState) (hf : CacheFresh mint st) (hn : NoGenid U g)
    (hp : ∀ t ∈ g, t.2.1.labels = [])
    (hx : ∀ l ∈ slabels g, isRdflibSkolem U (skolemizeLabelAt U auth base l) = false ∧
      isExternalSkolem U (skolemizeLabelAt U auth base l) = true)
    (hinj : ∀ a ∈ slabels g, ∀ b ∈ slabels g,
      skolemizeLabelAt U auth base a = skolemizeLabelAt U auth base b → a = b) :
    ∃ ρ : Str → Str, (∀ a ∈ slabels g, ∀ b ∈ slabels g, ρ a = ρ b → a = b) ∧
      (deSkolemizeSt U mint st (skolemizeAt U auth base g)).1 = g.rename ρ := by
  let fin := (deSkolemizeSt U mint st (skolemizeAt U auth base g)).2
  let σ : Str → Str := fin.cache.fn (fun u => u)
  refine ⟨fun l => σ (skolemizeLabelAt U auth base l), ?_, ?_⟩
  · intro a ha b hb hab
    have pres : ∀ l ∈ slabels g, ∃ v, clookup fin.cache (skolemizeLabelAt U auth base l) = some v := by
      intro l hl
      obtain ⟨t, ht, h⟩ := mem_slabels.mp hl
      apply deSkolemizeSt_present U mint (skolemizeAt U auth base g) st
        (skTermAt U auth base t.1, t.2.1, skTermAt U auth base t.2.2)
        (List.mem_map.mpr ⟨t, ht, rfl⟩) _ _ (hx l hl).1 (hx l hl).2
      rcases h with h | h
      · left; simp [h, skTermAt]
      · right; simp [h, skTermAt]
    obtain ⟨va, hva⟩ := pres a ha
    obtain ⟨vb, hvb⟩ := pres b hb
    have e : va = vb := by simpa [σ, SkCache.fn, hva, hvb] using hab
    subst e
    exact hinj a ha b hb (clookup_inj (deSkolemizeSt_fresh hm _ st hf).nodup hva hvb)
  · rw [(deSkolemizeSt_spec U mint (skolemizeAt U auth base g) st).2 fin.cache (fun u => u) (CacheExt.refl _)]
    simp only [deSkolemize, skolemizeAt, SGraph.rename, List.map_map]
    apply List.map_congr_left
    intro t ht
    have term : ∀ x : STerm, (∀ u, x = .iri u → isRdflibSkolem U u = false ∧ isExternalSkolem U u = false) →
        (∀ l, x = .bnode l → l ∈ slabels g) →
        deskTerm U σ (skTermAt U auth base x) = x.rename (fun l => σ (skolemizeLabelAt U auth base l)) := by
      intro x h1 h2
      cases x with
      | iri u => obtain ⟨a1, a2⟩ := h1 u rfl; simp [skTermAt, deskTerm, STerm.rename, a1, a2]
      | lit lex n => rfl
      | bnode l =>
        obtain ⟨a1, a2⟩ := hx l (h2 l rfl)
        simp [skTermAt, deskTerm, STerm.rename, a1, a2]
    have hpred : t.2.1.rename (fun l => σ (skolemizeLabelAt U auth base l)) = t.2.1 := by
      have := hp t ht
      cases h : t.2.1 with
      | bnode l => rw [h] at this; simp [STerm.labels] at this
      | iri u => rfl
      | lit lex n => rfl
    simp only [Function.comp]
    rw [term t.1 (fun u hu => hn t ht u (Or.inl hu)) (fun l hl => mem_slabels.mpr ⟨t, ht, Or.inl hl⟩),
      term t.2.2 (fun u hu => hn t ht u (Or.inr hu)) (fun l hl => mem_slabels.mpr ⟨t, ht, Or.inr hl⟩), hpred]

/-! ### the concrete `urllib` instance satisfies the contract -/

theorem defaultAuthority_eq : defaultAuthority =
    ['h', 't', 't', 'p', 's', ':', '/', '/', 'r', 'd', 'f', 'l', 'i', 'b', '.', 'g', 'i', 't', 'h', 'u', 'b', '.', 'i', 'o'] := by
  decide

theorem rdflibSkolemGenid_eq : rdflibSkolemGenid =
    ['/', '.', 'w', 'e', 'l', 'l', '-', 'k', 'n', 'o', 'w', 'n', '/', 'g', 'e', 'n', 'i', 'd', '/', 'r', 'd', 'f', 'l', 'i', 'b', '/'] := by
  decide

def cntSlash : Str → Nat
  | [] => 0
  | c :: cs => (if c = '/' then 1 else 0) + cntSlash cs

theorem cntSlash_append (a b : Str) : cntSlash (a ++ b) = cntSlash a + cntSlash b := by
  induction a with
  | nil => simp [cntSlash]
  | cons c cs ih => simp [cntSlash, ih]; omega

theorem cntSlash_zero {l : Str} (h : ∀ c ∈ l, c ≠ '/') : cntSlash l = 0 := by
  induction l with
  | nil => rfl
  | cons c cs ih =>
    simp only [cntSlash, ih (fun c' hc' => h c' (List.mem_cons_of_mem _ hc'))]
    simp [h c List.mem_cons_self]

theorem isPrefix_cnt : ∀ (a s : Str), isPrefix a s = true → cntSlash a ≤ cntSlash s := by
  intro a
  induction a with
  | nil => intro s _; simp [cntSlash]
  | cons c cs ih =>
    intro s h
    cases s with
    | nil => simp [isPrefix] at h
    | cons d ds =>
      simp only [isPrefix, Bool.and_eq_true, beq_iff_eq] at h
      have := ih ds h.2
      simp only [cntSlash, h.1]
      omega

theorem occurs_cnt (a : Str) : ∀ s : Str, occurs a s = true → cntSlash a ≤ cntSlash s := by
  intro s
  induction s with
  | nil => intro h; exact isPrefix_cnt a [] (by simpa [occurs] using h)
  | cons c cs ih =>
    intro h
    simp only [occurs, Bool.or_eq_true] at h
    rcases h with h | h
    · exact isPrefix_cnt a _ h
    · have := ih h
      simp only [cntSlash]
      omega

theorem isPrefix_append (a b : Str) : isPrefix a (a ++ b) = true := by
  induction a with
  | nil => simp [isPrefix]
  | cons c cs ih => simp [isPrefix, ih]

theorem takePath_id {s : Str} (h : ∀ c ∈ s, c ≠ '?' ∧ c ≠ '#') : takePath s = s := by
  induction s with
  | nil => rfl
  | cons c cs ih =>
    have hc := h c List.mem_cons_self
    simp [takePath, hc.1, hc.2, ih (fun c' hc' => h c' (List.mem_cons_of_mem _ hc'))]

theorem lastSeg_false {s : Str} (h : ∀ c ∈ s, c ≠ ';') : lastSegHasSemi s false = false := by
  induction s with
  | nil => rfl
  | cons c cs ih =>
    have hc := h c List.mem_cons_self
    have ih' := ih (fun c' hc' => h c' (List.mem_cons_of_mem _ hc'))
    unfold lastSegHasSemi
    split
    · exact ih'
    · simp [ih']

theorem simpleUrl_labelOk (l : Str) (hl : LabelChars l) : LabelOk simpleUrl l := by
  have hroot : (splitRoot 2 defaultAuthority).1 = defaultAuthority := by decide
  have hu : skolemizeLabel simpleUrl l = defaultAuthority ++ (rdflibSkolemGenid ++ l) := by
    show simpleJoin defaultAuthority (rdflibSkolemGenid ++ l) = _
    have hcons : rdflibSkolemGenid ++ l = '/' :: (rdflibSkolemGenid.tail ++ l) := by
      rw [rdflibSkolemGenid_eq]; rfl
    rw [hcons]
    simp only [simpleJoin, hroot]
  have hpl : ∀ c ∈ rdflibSkolemGenid ++ l, c ≠ '?' ∧ c ≠ '#' ∧ c ≠ ';' := by
    intro c hc
    rcases List.mem_append.mp hc with hc | hc
    · have hall : ∀ c ∈ rdflibSkolemGenid, c ≠ '?' ∧ c ≠ '#' ∧ c ≠ ';' := by decide
      exact hall c hc
    · exact ⟨(hl c hc).2.1, (hl c hc).2.2.1, (hl c hc).2.2.2⟩
  have habs : hasAbsShape (defaultAuthority ++ (rdflibSkolemGenid ++ l)) = true := by
    rw [defaultAuthority_eq]
    simp [hasAbsShape, occurs, isPrefix]
  have hdrop : dropAuthority 2 (defaultAuthority ++ (rdflibSkolemGenid ++ l)) = rdflibSkolemGenid ++ l := by
    rw [defaultAuthority_eq, rdflibSkolemGenid_eq]
    simp [dropAuthority]
  have htake : takePath (rdflibSkolemGenid ++ l) = rdflibSkolemGenid ++ l :=
    takePath_id (fun c hc => ⟨(hpl c hc).1, (hpl c hc).2.1⟩)
  have hsemi : lastSegHasSemi (rdflibSkolemGenid ++ l) false = false :=
    lastSeg_false (fun c hc => (hpl c hc).2.2)
  have hraw : rawPath (defaultAuthority ++ (rdflibSkolemGenid ++ l)) = rdflibSkolemGenid ++ l := by
    unfold rawPath
    rw [habs, if_pos rfl, hdrop, htake]
  have hpath : simpleUrl.path (skolemizeLabel simpleUrl l) = rdflibSkolemGenid ++ l := by
    rw [hu]
    show simplePath _ = _
    unfold simplePath stripParams
    rw [hraw, hsemi]
    simp
  have hpqf : simpleUrl.pqf (skolemizeLabel simpleUrl l) = false := by
    rw [hu]
    show simplePqf _ = false
    unfold simplePqf
    rw [hraw, hsemi, Bool.or_false, List.any_eq_false]
    intro c hc
    have hall : ∀ c ∈ defaultAuthority, c ≠ '?' ∧ c ≠ '#' := by decide
    rcases List.mem_append.mp hc with hc | hc
    · have := hall c hc
      simp [this.1, this.2]
    · have := hpl c hc
      simp [this.1, this.2.1]
  constructor
  · simp only [isRdflibSkolem, hpqf, hpath, rfindZero, isPrefix_append, Bool.not_false, Bool.true_and]
    have hcons : rdflibSkolemGenid ++ l = '/' :: (rdflibSkolemGenid.tail ++ l) := by
      rw [rdflibSkolemGenid_eq]; rfl
    rw [hcons]
    simp only [Bool.not_eq_true']
    cases hocc : occurs rdflibSkolemGenid (rdflibSkolemGenid.tail ++ l) with
    | false => rfl
    | true =>
      have := occurs_cnt _ _ hocc
      rw [cntSlash_append, cntSlash_zero (fun c hc => (hl c hc).1)] at this
      revert this; decide
  · rw [hpath]
    exact List.drop_left

end RV.C14
