import RV.C14.Model
/-
  Helper definitions and lemmas for the skolemisation clause of C14.
-/
namespace RV.C14

/-! ### guards used by the statements -/

def STerm.labels : STerm → List Str
  | .bnode l => [l]
  | _ => []

/-- blank-node labels in subject / object position -/
def slabels : SGraph → List Str
  | [] => []
  | t :: g => (t.1.labels ++ t.2.2.labels) ++ slabels g

/-- no IRI in subject or object position is already under the well-known genid path -/
def NoGenid (U : UrlOps) (g : SGraph) : Prop :=
  ∀ t ∈ g, ∀ u, (t.1 = .iri u ∨ t.2.2 = .iri u) →
    isRdflibSkolem U u = false ∧ isExternalSkolem U u = false

/-- contract of `urljoin` / `urlparse` on the skolem IRI of one label: it is recognised as an rdflib
    skolem IRI and its path minus the genid prefix is the label -/
def LabelOk (U : UrlOps) (l : Str) : Prop :=
  isRdflibSkolem U (skolemizeLabel U l) = true ∧
    (U.path (skolemizeLabel U l)).drop rdflibSkolemGenid.length = l

def LabelsOk (U : UrlOps) (g : SGraph) : Prop := ∀ l ∈ slabels g, LabelOk U l

/-- labels without the URL delimiters (the N-Triples BLANK_NODE_LABEL grammar has none of them) -/
def LabelChars (l : Str) : Prop := ∀ c ∈ l, c ≠ '/' ∧ c ≠ '?' ∧ c ≠ '#' ∧ c ≠ ';'

instance (l : Str) : Decidable (LabelChars l) := by unfold LabelChars; infer_instance

/-! ### round trip -/

theorem desk_sk_term (U : UrlOps) (fresh : Str → Str) (x : STerm)
    (hn : ∀ u, x = .iri u → isRdflibSkolem U u = false ∧ isExternalSkolem U u = false)
    (hl : ∀ l ∈ x.labels, LabelOk U l) : deskTerm U fresh (skTerm U x) = x := by
  cases x with
  | iri u =>
    obtain ⟨h1, h2⟩ := hn u rfl
    simp [skTerm, deskTerm, h1, h2]
  | bnode l =>
    obtain ⟨h1, h2⟩ := hl l (by simp [STerm.labels])
    simp [skTerm, deskTerm, h1, h2]
  | lit n => rfl

theorem deSk_sk_eq (U : UrlOps) (fresh : Str → Str) (g : SGraph) (hn : NoGenid U g) (hl : LabelsOk U g) :
    deSkolemize U fresh (skolemize U g) = g := by
  induction g with
  | nil => rfl
  | cons t g ih =>
    have ih' := ih (fun t' ht' => hn t' (List.mem_cons_of_mem _ ht'))
      (fun l hl' => hl l (by simp only [slabels, List.mem_append]; exact Or.inr hl'))
    simp only [deSkolemize, skolemize, List.map_cons, List.map_map] at ih' ⊢
    rw [ih']
    have h1 : deskTerm U fresh (skTerm U t.1) = t.1 :=
      desk_sk_term U fresh t.1 (fun u hu => hn t List.mem_cons_self u (Or.inl hu))
        (fun l hl' => hl l (by simp only [slabels, List.mem_append]; exact Or.inl (Or.inl hl')))
    have h2 : deskTerm U fresh (skTerm U t.2.2) = t.2.2 :=
      desk_sk_term U fresh t.2.2 (fun u hu => hn t List.mem_cons_self u (Or.inr hu))
        (fun l hl' => hl l (by simp only [slabels, List.mem_append]; exact Or.inl (Or.inr hl')))
    simp [h1, h2]

/-! ### the concrete `urllib` instance satisfies the contract -/

theorem defaultAuthority_eq : defaultAuthority =
    ['h', 't', 't', 'p', 's', ':', '/', '/', 'r', 'd', 'f', 'l', 'i', 'b', '.', 'g', 'i', 't', 'h', 'u', 'b', '.', 'i', 'o'] := by
  decide

theorem rdflibSkolemGenid_eq : rdflibSkolemGenid =
    ['/', '.', 'w', 'e', 'l', 'l', '-', 'k', 'n', 'o', 'w', 'n', '/', 'g', 'e', 'n', 'i', 'd', '/', 'r', 'd', 'f', 'l', 'i', 'b', '/'] := by
  decide

def cntSlash : Str → Nat
  | [] => 0
  | c :: cs => (if c = '/' then 1 else 0) + cntSlash cs

theorem cntSlash_append (a b : Str) : cntSlash (a ++ b) = cntSlash a + cntSlash b := by
  induction a with
  | nil => simp [cntSlash]
  | cons c cs ih => simp [cntSlash, ih]; omega

theorem cntSlash_zero {l : Str} (h : ∀ c ∈ l, c ≠ '/') : cntSlash l = 0 := by
  induction l with
  | nil => rfl
  | cons c cs ih =>
    simp only [cntSlash, ih (fun c' hc' => h c' (List.mem_cons_of_mem _ hc'))]
    simp [h c List.mem_cons_self]

theorem isPrefix_cnt : ∀ (a s : Str), isPrefix a s = true → cntSlash a ≤ cntSlash s := by
  intro a
  induction a with
  | nil => intro s _; simp [cntSlash]
  | cons c cs ih =>
    intro s h
    cases s with
    | nil => simp [isPrefix] at h
    | cons d ds =>
      simp only [isPrefix, Bool.and_eq_true, beq_iff_eq] at h
      have := ih ds h.2
      simp only [cntSlash, h.1]
      omega

theorem occurs_cnt (a : Str) : ∀ s : Str, occurs a s = true → cntSlash a ≤ cntSlash s := by
  intro s
  induction s with
  | nil => intro h; exact isPrefix_cnt a [] (by simpa [occurs] using h)
  | cons c cs ih =>
    intro h
    simp only [occurs, Bool.or_eq_true] at h
    rcases h with h | h
    · exact isPrefix_cnt a _ h
    · have := ih h
      simp only [cntSlash]
      omega

theorem isPrefix_append (a b : Str) : isPrefix a (a ++ b) = true := by
  induction a with
  | nil => simp [isPrefix]
  | cons c cs ih => simp [isPrefix, ih]

theorem takePath_id {s : Str} (h : ∀ c ∈ s, c ≠ '?' ∧ c ≠ '#') : takePath s = s := by
  induction s with
  | nil => rfl
  | cons c cs ih =>
    have hc := h c List.mem_cons_self
    simp [takePath, hc.1, hc.2, ih (fun c' hc' => h c' (List.mem_cons_of_mem _ hc'))]

theorem lastSeg_false {s : Str} (h : ∀ c ∈ s, c ≠ ';') : lastSegHasSemi s false = false := by
  induction s with
  | nil => rfl
  | cons c cs ih =>
    have hc := h c List.mem_cons_self
    have ih' := ih (fun c' hc' => h c' (List.mem_cons_of_mem _ hc'))
    unfold lastSegHasSemi
    split
    · exact ih'
    · simp [ih']

theorem simpleUrl_labelOk (l : Str) (hl : LabelChars l) : LabelOk simpleUrl l := by
  have hu : skolemizeLabel simpleUrl l = defaultAuthority ++ (rdflibSkolemGenid ++ l) := rfl
  have hpl : ∀ c ∈ rdflibSkolemGenid ++ l, c ≠ '?' ∧ c ≠ '#' ∧ c ≠ ';' := by
    intro c hc
    rcases List.mem_append.mp hc with hc | hc
    · have hall : ∀ c ∈ rdflibSkolemGenid, c ≠ '?' ∧ c ≠ '#' ∧ c ≠ ';' := by decide
      exact hall c hc
    · exact ⟨(hl c hc).2.1, (hl c hc).2.2.1, (hl c hc).2.2.2⟩
  have habs : hasAbsShape (defaultAuthority ++ (rdflibSkolemGenid ++ l)) = true := by
    rw [defaultAuthority_eq]
    simp [hasAbsShape, occurs, isPrefix]
  have hdrop : dropAuthority 2 (defaultAuthority ++ (rdflibSkolemGenid ++ l)) = rdflibSkolemGenid ++ l := by
    rw [defaultAuthority_eq, rdflibSkolemGenid_eq]
    simp [dropAuthority]
  have htake : takePath (rdflibSkolemGenid ++ l) = rdflibSkolemGenid ++ l :=
    takePath_id (fun c hc => ⟨(hpl c hc).1, (hpl c hc).2.1⟩)
  have hsemi : lastSegHasSemi (rdflibSkolemGenid ++ l) false = false :=
    lastSeg_false (fun c hc => (hpl c hc).2.2)
  have hraw : rawPath (defaultAuthority ++ (rdflibSkolemGenid ++ l)) = rdflibSkolemGenid ++ l := by
    unfold rawPath
    rw [habs, if_pos rfl, hdrop, htake]
  have hpath : simpleUrl.path (skolemizeLabel simpleUrl l) = rdflibSkolemGenid ++ l := by
    rw [hu]
    show simplePath _ = _
    unfold simplePath stripParams
    rw [hraw, hsemi]
    simp
  have hpqf : simpleUrl.pqf (skolemizeLabel simpleUrl l) = false := by
    rw [hu]
    show simplePqf _ = false
    unfold simplePqf
    rw [hraw, hsemi, Bool.or_false, List.any_eq_false]
    intro c hc
    have hall : ∀ c ∈ defaultAuthority, c ≠ '?' ∧ c ≠ '#' := by decide
    rcases List.mem_append.mp hc with hc | hc
    · have := hall c hc
      simp [this.1, this.2]
    · have := hpl c hc
      simp [this.1, this.2.1]
  constructor
  · simp only [isRdflibSkolem, hpqf, hpath, rfindZero, isPrefix_append, Bool.not_false, Bool.true_and]
    have hcons : rdflibSkolemGenid ++ l = '/' :: (rdflibSkolemGenid.tail ++ l) := by
      rw [rdflibSkolemGenid_eq]; rfl
    rw [hcons]
    simp only [Bool.not_eq_true']
    cases hocc : occurs rdflibSkolemGenid (rdflibSkolemGenid.tail ++ l) with
    | false => rfl
    | true =>
      have := occurs_cnt _ _ hocc
      rw [cntSlash_append, cntSlash_zero (fun c hc => (hl c hc).1)] at this
      revert this; decide
  · rw [hpath]
    exact List.drop_left

end RV.C14
