import RV.C14.RefineStable
import Mathlib.Logic.Equiv.Multiset
import Mathlib.Data.List.Perm.Basic
/-
  The hypothesis `MultisetInj` of `refine_stable` is satisfiable: an (uncomputable-in-practice, but total) hash that is
  injective on multisets of items exists — the encoding of the multiset of item codes.
-/
namespace RV.C14

def itemCode : Item → Nat × Nat × Nat × Nat
  | .out p w => (0, (if p.blank then 1 else 0), p.id, w)
  | .inn w p => (1, (if p.blank then 1 else 0), p.id, w)
  | .indiv k => (2, 0, 0, k)

theorem itemCode_injective : Function.Injective itemCode := by
  intro a b h
  cases a <;> cases b <;> simp [itemCode] at h
  · rename_i p w p' w'
    obtain ⟨h1, h2, h3⟩ := h
    obtain ⟨pb, pi⟩ := p
    obtain ⟨pb', pi'⟩ := p'
    simp only [] at h1 h2
    subst h2 h3
    cases pb <;> cases pb' <;> simp_all
  · rename_i w p w' p'
    obtain ⟨h1, h2, h3⟩ := h
    obtain ⟨pb, pi⟩ := p
    obtain ⟨pb', pi'⟩ := p'
    simp only [] at h1 h2
    subst h2 h3
    cases pb <;> cases pb' <;> simp_all
  · simp [h]

noncomputable def witnessHash (l : List Item) : Nat :=
  Encodable.encode ((l.map itemCode : List (Nat × Nat × Nat × Nat)) : Multiset (Nat × Nat × Nat × Nat))

theorem multisetInj_witness : MultisetInj witnessHash := by
  intro a b h
  have h1 := Encodable.encode_injective h
  have h2 : (a.map itemCode).Perm (b.map itemCode) := Multiset.coe_eq_coe.mp h1
  exact (List.map_perm_map_iff itemCode_injective).mp h2

end RV.C14
