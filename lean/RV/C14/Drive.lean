import RV.C14.Model
import RV.C14.Canon
import RV.C14.Search
import RV.C14.Traces
import RV.Base.Proto
/-
  C14 driver.  Protocol (one line in, one line out):
    iso  c c c c c c … | c c c …     -> true | false     (`isoDecide g h`)
         each `c` is a term code `2*id + (1 if blank node else 0)`; three codes = one triple
    canon c c c … | c c c …          -> true | false | none   verdict `canonSearch g = canonSearch h` of the exhaustive
                                         individualisation-refinement search (RV/C14/Search.lean); `none` = no leaf found
    cert k v k v … | g-codes | h-codes -> true | false    (`isoCheck m g h`; k,v = blank-node ids)
    skolem A B T T T …               -> true | false
         A, B = code points of `authority` and `basepath` given to `Graph.skolemize`; each `T` is `i:cp.cp.…` (IRI),
         `b:cp.cp.…` (blank-node label) or `l:n:cp.cp.…` (literal: opaque datatype/language tag n, lexical form);
         answer = `isoDecide g (deSkolemizeSt (skolemizeAt A B g))` (stateful model with the `skolems` dict,
         starting from an empty dict) after interning the string terms
    skolemsel M A B k L1 … Lk T T T … -> true | false   partial skolemisation: only the k blank nodes `b:cps` listed
                                         are skolemised (`skolemize(bnode=…)` one by one), then `de_skolemize()`
                                         (M = full) or `de_skolemize(uriref=…)` for each of their IRIs (M = uriref)
    refine c c c …                    -> the blank-node partition after the initial colour refinement of the
                                         model (`refinePartition`), canonical: classes sorted, `|`-separated
                                         (diagnostic tie of RV/C14/Canon.lean to `_TripleCanonicalizer._refine`)
    refinestat c c c …                -> `cells=K discrete=B`: number of blank-node colours after the initial `_refine` and
                                         whether they are all singletons (compared with the PUBLIC `stats` of
                                         `to_canonical_graph`: initial_color_count - adjacent_nodes, individuations == 0)
    canonrefine c c c … | c c c …     -> true | false | n/a   when both refinements are discrete: are the canonical triple
                                         sets `canonRefine g`, `canonRefine h` (labels = colour hashes) equal; else n/a
    canontraces c c c … | c c c …     -> true | false   are the canonical triple sets `canonTraces g`, `canonTraces h` equal
                                         (model of `canonical_triples` INCLUDING the `_traces` search, RV/C14/Traces.lean)
    tracesstat c c c …                -> `individuations=K discrete=B`: number of `_traces` calls of the model and whether
                                         the chosen leaf is discrete (diagnostic: compared with `stats["individuations"]`)
    diff                              -> true true true    (theorem `diff_clauses`: the three clauses hold
                                                            for a sound `canon`; constant prediction)
  anything else -> bad-op
-/
open RV RV.C14 RV.Proto

def term? (w : String) : Option Term := do
  let c ← w.toNat?
  pure ⟨c % 2 == 1, c / 2⟩

def triples? : List String → Option Graph
  | [] => some []
  | a :: b :: c :: rest => do
    let s ← term? a; let p ← term? b; let o ← term? c
    let g ← triples? rest
    pure ((s, p, o) :: g)
  | _ => none

def pairs? : List String → Option Asg
  | [] => some []
  | a :: b :: rest => do
    let k ← a.toNat?; let v ← b.toNat?
    let m ← pairs? rest
    pure ((k, v) :: m)
  | _ => none

/-- split a word list at the separator `|` -/
def splitBar (ws : List String) : List (List String) :=
  let r := ws.foldr (fun w (acc : List String × List (List String)) =>
    if w = "|" then ([], acc.1 :: acc.2) else (w :: acc.1, acc.2)) ([], [])
  r.1 :: r.2

def chars? (s : String) : Option Str :=
  if s = "" then some [] else
    (s.splitOn ".").mapM (fun d => d.toNat?.map Char.ofNat)

def sterm? (w : String) : Option STerm :=
  match w.splitOn ":" with
  | ["i", cs] => (chars? cs).map STerm.iri
  | ["b", cs] => (chars? cs).map STerm.bnode
  | ["l", n, cs] => do
    let k ← n.toNat?
    let lex ← chars? cs
    pure (STerm.lit lex k)
  | _ => none

def striples? : List String → Option SGraph
  | [] => some []
  | a :: b :: c :: rest => do
    let s ← sterm? a; let p ← sterm? b; let o ← sterm? c
    let g ← striples? rest
    pure ((s, p, o) :: g)
  | _ => none

/-- interning of string terms (protocol glue): position in a vocabulary list -/
def indexOf (v : List STerm) (t : STerm) : Nat :=
  match v with
  | [] => 0
  | x :: xs => if x = t then 0 else indexOf xs t + 1

def internT (v : List STerm) (t : STerm) : Term :=
  match t with
  | .bnode _ => ⟨true, indexOf v t⟩
  | _ => ⟨false, indexOf v t⟩

def intern (v : List STerm) (g : SGraph) : Graph :=
  g.map (fun t => (internT v t.1, internT v t.2.1, internT v t.2.2))

def vocab (g : SGraph) : List STerm := g.flatMap (fun t => [t.1, t.2.1, t.2.2])

def mintLabel (k : Nat) : Str := "~fresh~".toList ++ (toString k).toList

def showB (b : Bool) : String := if b then "true" else "false"

def step (s : Unit) : List String → Unit × String
  | "iso" :: rest =>
    match splitBar rest with
    | [a, b] =>
      match triples? a, triples? b with
      | some g, some h => (s, showB (isoDecide g h))
      | _, _ => (s, "bad-op")
    | _ => (s, "bad-op")
  | "canon" :: rest =>
    match splitBar rest with
    | [a, b] =>
      match triples? a, triples? b with
      | some g, some h =>
        match canonSearch driverHashes g, canonSearch driverHashes h with
        | some x, some y => (s, showB (x == y))
        | _, _ => (s, "none")
      | _, _ => (s, "bad-op")
    | _ => (s, "bad-op")
  | "cert" :: rest =>
    match splitBar rest with
    | [m, a, b] =>
      match pairs? m, triples? a, triples? b with
      | some m, some g, some h => (s, showB (isoCheck m g h))
      | _, _, _ => (s, "bad-op")
    | _ => (s, "bad-op")
  | "skolem" :: auth :: base :: rest =>
    match chars? auth, chars? base, striples? rest with
    | some a, some b, some g =>
      let g' := (deSkolemizeSt simpleUrl mintLabel ⟨[], 0⟩ (skolemizeAt simpleUrl a b g)).1
      let v := vocab g ++ vocab g'
      (s, showB (isoDecide (intern v g) (intern v g')))
    | _, _, _ => (s, "bad-op")
  | "skolemsel" :: mode :: auth :: base :: k :: rest =>
    match chars? auth, chars? base, k.toNat? with
    | some a, some b, some n =>
      match (rest.take n).mapM (fun w => match sterm? w with | some (.bnode l) => some l | _ => none),
            striples? (rest.drop n) with
      | some sel, some g =>
        let sk := skolemizeSel simpleUrl a b sel g
        let g' := if mode = "uriref" then deSkolemizeOnly simpleUrl (fun u => "~fresh~".toList ++ u) (sel.map (skolemizeLabelAt simpleUrl a b)) sk
                  else (deSkolemizeSt simpleUrl mintLabel ⟨[], 0⟩ sk).1
        let v := vocab g ++ vocab g'
        (s, showB (isoDecide (intern v g) (intern v g')))
      | _, _ => (s, "bad-op")
    | _, _, _ => (s, "bad-op")
  | "refine" :: rest =>
    match triples? rest with
    | some g =>
      let classes := (refinePartition g).map (fun c => sortBy (fun a b => decide (a < b)) c)
      (s, " | ".intercalate ((sortBy lexLt classes).map showNats))
    | none => (s, "bad-op")
  | "refinestat" :: rest =>
    match triples? rest with
    | some g =>
      let cells := refinePartition g
      (s, s!"cells={cells.length} discrete={showB (refineDiscrete sumHash termHash g)}")
    | none => (s, "bad-op")
  | "canonrefine" :: rest =>
    match splitBar rest with
    | [a, b] =>
      match triples? a, triples? b with
      | some g, some h =>
        if refineDiscrete sumHash termHash g && refineDiscrete sumHash termHash h then
          let cg := canonRefine sumHash termHash g
          let ch := canonRefine sumHash termHash h
          (s, showB (cg.all (fun t => decide (t ∈ ch)) && ch.all (fun t => decide (t ∈ cg))))
        else (s, "n/a")
      | _, _ => (s, "bad-op")
    | _ => (s, "bad-op")
  | "canontraces" :: rest =>
    match splitBar rest with
    | [a, b] =>
      match triples? a, triples? b with
      | some g, some h =>
        let cg := canonTraces sumHash termHash g
        let ch := canonTraces sumHash termHash h
        (s, showB (cg.all (fun t => decide (t ∈ ch)) && ch.all (fun t => decide (t ∈ cg))))
      | _, _ => (s, "bad-op")
    | _ => (s, "bad-op")
  | "tracesstat" :: rest =>
    match triples? rest with
    | some g =>
      let r := finalColoring sumHash termHash g
      (s, s!"individuations={r.2} discrete={showB (allDiscrete r.1)}")
    | none => (s, "bad-op")
  | ["diff"] => (s, "true true true")
  | _ => (s, "bad-op")

def main : IO Unit := RV.Proto.run step ()
