import RV.C14.Props
open RV.C14
#print axioms isoDecide_correct
#print axioms isoCheck_sound
#print axioms iso_equiv
#print axioms relabel_iso
#print axioms diff_algebra
#print axioms diff_clauses
#print axioms canon_decides
#print axioms refine_equivariant
#print axioms canon_iso_partial
#print axioms canon_sound_partial
#print axioms refine_terminates
#print axioms refine_refines
#print axioms refineInit_runs
#print axioms canonSearch_equivariant
#print axioms canonSearch_complete
#print axioms canonSearch_sound
#print axioms canonSearch_decides
#print axioms driverHashes_perm_invariant
#print axioms skolem_roundtrip_partial
#print axioms deskolemize_one_map
#print axioms skolem_roundtrip_stateful_partial
#print axioms skolem_roundtrip_subset_partial
#print axioms skolem_roundtrip_external
#print axioms simpleUrl_contract
#print axioms skolem_roundtrip_witness
