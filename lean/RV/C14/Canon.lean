import RV.C14.Model
/-
  C14 part D — model of the colour refinement of `rdflib/compare.py:_TripleCanonicalizer`
  (`_initial_color`, `Color.hash_color`, `Color.distinguish`, `_refine`, the label stage of
  `canonical_triples` / `_canonicalize_bnodes`).

  `hash_color` is a *sum* of SHA-256 values over the items of the colour tuple, i.e. a function of
  the multiset of items.  It is a parameter here: `H : List Item → Nat` (blank-node colours) and
  `HT : Term → Nat` (the n3 text of a non-blank neighbour).  The theorems assume only what a sum
  gives for free (`H` is invariant under permutation) and, for soundness of the labels, that the
  colour hashes that end up as labels are pairwise distinct (SHA-256 treated as injective, DESIGN §4.5).

  The individualisation search (`_traces`, `_experimental_path`, `_create_generator`) is NOT modelled.
-/
namespace RV.C14

/-- entries of a colour tuple -/
inductive Item
  | out (p : Term) (w : Nat)       -- `(1, p, W.hash_color())`  : edge  n --p--> node of W
  | inn (w : Nat) (p : Term)       -- `(W.hash_color(), p, 3)`  : edge  node of W --p--> n
  | indiv (k : Nat)                -- `(len(color.nodes),)`     : appended by `_individuate`
  deriving DecidableEq, Repr

/-- `Color`: the member nodes, the colour tuple, and for the singleton colour of a non-blank
    neighbour (`Color([x], hashfunc, x)`) the term itself -/
structure Color where
  nodes : List Term
  items : List Item
  ground : Option Term
  deriving DecidableEq, Repr

/-- `Color.hash_color()` -/
def Color.hash (H : List Item → Nat) (HT : Term → Nat) (c : Color) : Nat :=
  match c.ground with
  | some x => HT x
  | none => H c.items

/-- `Color.key()` = `(len(nodes), hash_color())` -/
def Color.key (H : List Item → Nat) (HT : Term → Nat) (c : Color) : Nat × Nat := (c.nodes.length, c.hash H HT)

def Color.discrete (c : Color) : Bool := c.nodes.length == 1

def tinsert (l : List Term) (x : Term) : List Term := if x ∈ l then l else l ++ [x]

/-- `_initial_color`: one colour holding every blank node, one singleton colour per non-blank term
    (subject, predicate or object) of a triple that mentions a blank node -/
def initialColor (g : Graph) : List Color :=
  let touching := g.filter (fun t => t.1.blank || t.2.1.blank || t.2.2.blank)
  let ts := touching.flatMap (fun t => [t.1, t.2.1, t.2.2])
  let bn := (ts.filter (·.blank)).foldl tinsert []
  let others := (ts.filter (fun x => !x.blank)).foldl tinsert []
  if bn.isEmpty then [] else ⟨bn, [], none⟩ :: others.map (fun x => ⟨[x], [], some x⟩)

/-- the items `Color.distinguish` appends for node `n` against the splitter `W` (hash `hW`, members `Wn`):
    `for node in W.nodes: [(1,p,hW) for s,p,o in graph.triples((n,None,node))] + [(hW,p,3) for … ((node,None,n))]` -/
def distinguishItems (hW : Nat) (g : Graph) (Wn : List Term) (n : Term) : List Item :=
  Wn.flatMap (fun node =>
    g.filterMap (fun t => if t.1 = n ∧ t.2.2 = node then some (Item.out t.2.1 hW) else none) ++
    g.filterMap (fun t => if t.1 = node ∧ t.2.2 = n then some (Item.inn hW t.2.1) else none))

/-- group `(node, new colour tuple)` pairs by the hash of the tuple, in first-occurrence order
    (`colors: dict[str, Color]` keyed by `new_hash_color`) -/
def groupByHash (H : List Item → Nat) : List (Term × List Item) → List Color → List Color
  | [], acc => acc
  | (n, its) :: rest, acc =>
    let k := H its
    if acc.any (fun c => H c.items == k) then
      groupByHash H rest (acc.map (fun c => if H c.items == k then { c with nodes := c.nodes ++ [n] } else c))
    else groupByHash H rest (acc ++ [⟨[n], its, none⟩])

/-- `Color.distinguish(W, graph)` -/
def distinguish (H : List Item → Nat) (HT : Term → Nat) (g : Graph) (c W : Color) : List Color :=
  groupByHash H (c.nodes.map (fun n => (n, c.items ++ distinguishItems (W.hash H HT) g W.nodes n))) []

/-- descending insertion sort by `key()` (`sorted(..., key=lambda x: x.key(), reverse=True)`, stable: `foldr`
    inserts later elements first, an earlier element goes in front of equal keys).  The code compares the
    hash as a hex *string*; here it is a natural number — both are label-independent total orders. -/
def insertDesc (H : List Item → Nat) (HT : Term → Nat) (c : Color) : List Color → List Color
  | [] => [c]
  | d :: ds =>
    let kc := c.key H HT
    let kd := d.key H HT
    if kd.1 > kc.1 || (kd.1 == kc.1 && kd.2 > kc.2) then d :: insertDesc H HT c ds else c :: d :: ds

def sortDesc (H : List Item → Nat) (HT : Term → Nat) (cs : List Color) : List Color :=
  cs.foldr (insertDesc H HT) []

def replaceAt (seq : List Color) (c : Color) (by_ : List Color) : List Color :=
  match seq with
  | [] => []
  | d :: ds => if d = c then by_ ++ ds else d :: replaceAt ds c by_

/-- body of `for c in coloring[:]` inside `_refine` -/
def refineStep (H : List Item → Nat) (HT : Term → Nat) (g : Graph) (W : Color)
    (st : List Color × List Color) (c : Color) : List Color × List Color :=
  let (coloring, sequence) := st
  match c.nodes with
  | [] => st
  | n0 :: rest =>
    if !rest.isEmpty || n0.blank then
      let colors := sortDesc H HT (distinguish H HT g c W)
      let coloring' := coloring.erase c ++ colors
      let sequence' := if c ∈ sequence then replaceAt sequence c colors else colors.tail ++ sequence
      (coloring', sequence')
    else st

/-- one iteration of the `while` loop after `W = sequence.pop()`: the whole `for c in coloring[:]` pass
    (`seq0` is the sequence after the pop) -/
def refinePass (H : List Item → Nat) (HT : Term → Nat) (g : Graph) (W : Color)
    (coloring seq0 : List Color) : List Color × List Color :=
  coloring.foldl (refineStep H HT g W) (coloring, seq0)

/-- the loop condition `len(sequence) > 0 and not self._discrete(coloring)`, negated -/
def refineDone (coloring sequence : List Color) : Bool :=
  sequence.isEmpty || coloring.all Color.discrete

/-- the `while len(sequence) > 0 and not self._discrete(coloring)` loop, with fuel
    (`refineLoop_run` in RefineLemmas.lean: the fuel `refineFuel coloring sequence` always suffices) -/
def refineLoop (H : List Item → Nat) (HT : Term → Nat) (g : Graph) : Nat → List Color → List Color → List Color
  | 0, coloring, _ => coloring
  | fuel + 1, coloring, sequence =>
    if refineDone coloring sequence then coloring
    else
      match sequence.getLast? with
      | none => coloring
      | some W =>
        let st := refinePass H HT g W coloring sequence.dropLast
        refineLoop H HT g fuel st.1 st.2

/-- number of nodes held by a colouring -/
def nodeCount (cs : List Color) : Nat := (cs.flatMap (·.nodes)).length

/-- the fuel that always suffices: every iteration pops one splitter and pushes one per newly created cell -/
def refineFuel (coloring sequence : List Color) : Nat :=
  sequence.length + (nodeCount coloring - coloring.length) + 1

/-- final merge of colours whose hashes collide -/
def mergeByHash (H : List Item → Nat) (HT : Term → Nat) : List Color → List Color → List Color
  | [], acc => acc
  | c :: cs, acc =>
    let k := c.hash H HT
    if acc.any (fun d => d.hash H HT == k) then
      mergeByHash H HT cs (acc.map (fun d => if d.hash H HT == k then { d with nodes := d.nodes ++ c.nodes } else d))
    else mergeByHash H HT cs (acc ++ [c])

/-- `_refine(coloring, sequence)` -/
def refine (H : List Item → Nat) (HT : Term → Nat) (g : Graph) (fuel : Nat) (coloring sequence : List Color) : List Color :=
  mergeByHash H HT (refineLoop H HT g fuel coloring (sortDesc H HT sequence)) []

/-- the call in `canonical_triples`: `self._refine(coloring, coloring[:])` on the initial colouring, with the
    fuel that provably suffices (the sort does not change the length of the sequence) -/
def refineInit (H : List Item → Nat) (HT : Term → Nat) (g : Graph) : List Color :=
  let c0 := initialColor g
  refine H HT g (refineFuel c0 c0) c0 c0

/-- `bnode_labels = dict((c.nodes[0], c.hash_color()) for c in coloring)` restricted to blank nodes -/
def canonLabels (hc : Color → Nat) : List Color → Asg
  | [] => []
  | c :: cs =>
    match c.nodes with
    | n :: _ => if n.blank then (n.id, hc c) :: canonLabels hc cs else canonLabels hc cs
    | [] => canonLabels hc cs

/-- `canonical_triples`: every blank node replaced by `BNode("cb" + labels[node])` -/
def canonicalTriples (labels : Asg) (g : Graph) : Graph := g.rename labels.fn

/-- `canonical_triples` on the path that needs no search (`self._discrete(coloring)` after the initial `_refine`):
    labels from the colour hashes of the refined colouring -/
def canonRefine (H : List Item → Nat) (HT : Term → Nat) (g : Graph) : Graph :=
  canonicalTriples (canonLabels (Color.hash H HT) (refineInit H HT g)) g

/-- `self._discrete(coloring)` for the blank-node colours after the initial refinement -/
def refineDiscrete (H : List Item → Nat) (HT : Term → Nat) (g : Graph) : Bool :=
  (refineInit H HT g).all Color.discrete

/-! ### a concrete (non-cryptographic) instance of the hash parameters, for the driver's diagnostic `refine` op:
    like the code, the colour hash is a SUM of per-item hashes (order-independent) -/

def hashMod : Nat := 2305843009213693951   -- 2^61 - 1

def termHash (t : Term) : Nat := ((t.id + 1) * 1000003 + (if t.blank then 7 else 11)) * 2654435761 % hashMod

def itemHash : Item → Nat
  | .out p w => ((termHash p * 31 + w) * 6364136223846793005 + 1442695040888963407) % hashMod
  | .inn w p => ((termHash p * 37 + w) * 3935559000370003845 + 2691343689449507681) % hashMod
  | .indiv k => ((k + 1) * 11400714819323198485 + 1) % hashMod

def sumHash (its : List Item) : Nat := (its.foldl (fun acc i => acc + itemHash i) 0) % hashMod + 1

/-- partition of the blank nodes after `_refine(_initial_color(), …)`, as lists of ids -/
def refinePartition (g : Graph) : List (List Nat) :=
  let cs := refineInit sumHash termHash g
  (cs.filter (fun c => c.ground.isNone)).map (fun c => c.nodes.map (·.id))

end RV.C14
