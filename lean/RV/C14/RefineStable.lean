import RV.C14.RefineLemmas
/-
  Stability, the local half: after a pass of `_refine` with splitter `W` no colour of the colouring can be split by `W`
  any more — all members of a colour have the same multiset of edges into `W` — provided the colour hash is injective
  on multisets of items (`MultisetInj`, the explicit SHA-256 hypothesis).
-/
namespace RV.C14

/-- the hash separates different multisets of items (`hash_color` is a sum of SHA-256 values over the items) -/
def MultisetInj (H : List Item → Nat) : Prop := ∀ a b : List Item, H a = H b → a.Perm b

/-- colour `c` cannot be split by the node set `Wn` (with splitter hash `hW`): all members see the same multiset of
    `(direction, predicate)` edges into `Wn` -/
def StableWrt (g : Graph) (hW : Nat) (Wn : List Term) (c : Color) : Prop :=
  ∀ n ∈ c.nodes, ∀ m ∈ c.nodes, (distinguishItems hW g Wn n).Perm (distinguishItems hW g Wn m)

/-- no colour can be split by any colour -/
def Stable (H : List Item → Nat) (HT : Term → Nat) (g : Graph) (cs : List Color) : Prop :=
  ∀ W ∈ cs, ∀ c ∈ cs, StableWrt g (W.hash H HT) W.nodes c

theorem groupByHash_members (H : List Item → Nat) (L : List (Term × List Item)) :
    ∀ (l : List (Term × List Item)) (acc : List Color), (∀ x ∈ l, x ∈ L) →
      (∀ c ∈ acc, ∀ n ∈ c.nodes, ∃ its, (n, its) ∈ L ∧ H its = H c.items) →
      ∀ c ∈ groupByHash H l acc, ∀ n ∈ c.nodes, ∃ its, (n, its) ∈ L ∧ H its = H c.items := by
  intro l
  induction l with
  | nil => intro acc _ h; exact h
  | cons x rest ih =>
    obtain ⟨n0, its0⟩ := x
    intro acc hl hacc
    rw [groupByHash_eq]
    have hx : (n0, its0) ∈ L := hl _ List.mem_cons_self
    have hrest : ∀ x ∈ rest, x ∈ L := fun x hx => hl x (List.mem_cons_of_mem _ hx)
    split
    · apply ih _ hrest
      intro c hc n hn
      obtain ⟨d, hd, rfl⟩ := List.mem_map.mp hc
      by_cases hk : (H d.items == H its0) = true
      · rw [if_pos hk] at hn ⊢
        rcases List.mem_append.mp hn with h | h
        · exact hacc d hd n h
        · simp only [List.mem_singleton] at h
          rw [h]
          exact ⟨its0, hx, by simpa using (by simpa using hk : H d.items = H its0).symm⟩
      · rw [if_neg hk] at hn ⊢
        exact hacc d hd n hn
    · apply ih _ hrest
      intro c hc n hn
      rcases List.mem_append.mp hc with h | h
      · exact hacc c h n hn
      · simp only [List.mem_singleton] at h
        rw [h] at hn ⊢
        simp only [List.mem_singleton] at hn
        rw [hn]
        exact ⟨its0, hx, rfl⟩

theorem splitOf_stable {H : List Item → Nat} (hH : MultisetInj H) (HT : Term → Nat) (g : Graph) (W c : Color) :
    ∀ c' ∈ splitOf H HT g W c, StableWrt g (W.hash H HT) W.nodes c' := by
  intro c' hc' n hn m hm
  have hc'' : c' ∈ distinguish H HT g c W := (sortDesc_perm H HT _).mem_iff.mp hc'
  have key := groupByHash_members H
    (c.nodes.map (fun n => (n, c.items ++ distinguishItems (W.hash H HT) g W.nodes n)))
    (c.nodes.map (fun n => (n, c.items ++ distinguishItems (W.hash H HT) g W.nodes n))) []
    (fun x hx => hx) (by intro c hc; simp at hc) c' hc''
  obtain ⟨itsn, hin, hhn⟩ := key n hn
  obtain ⟨itsm, him, hhm⟩ := key m hm
  obtain ⟨n', _, en⟩ := List.mem_map.mp hin
  obtain ⟨m', _, em⟩ := List.mem_map.mp him
  simp only [Prod.mk.injEq] at en em
  obtain ⟨rfl, rfl⟩ := en
  obtain ⟨rfl, rfl⟩ := em
  have := hH _ _ (hhn.trans hhm.symm)
  exact (List.perm_append_left_iff _).mp this

/-- what a pass does to one colour -/
def keepOrSplit (H : List Item → Nat) (HT : Term → Nat) (g : Graph) (W c : Color) : List Color :=
  if activeC c then splitOf H HT g W c else [c]

theorem pass_closed (H : List Item → Nat) (HT : Term → Nat) (g : Graph) (W : Color) (todo : List Color) :
    ∀ (P S rest : List Color), P.Perm (todo ++ rest) →
      ((todo.foldl (refineStep H HT g W) (P, S)).1).Perm (rest ++ todo.flatMap (keepOrSplit H HT g W)) := by
  induction todo with
  | nil => intro P S rest h; simpa using h
  | cons c todo ih =>
    intro P S rest hperm
    rw [List.foldl_cons, refineStep_eq, List.flatMap_cons]
    unfold keepOrSplit
    by_cases hact : activeC c = true
    · rw [if_pos hact, if_pos hact]
      have hcP : c ∈ P := hperm.mem_iff.mpr (by simp)
      have hperm1 : (P.erase c ++ splitOf H HT g W c).Perm (todo ++ (rest ++ splitOf H HT g W c)) := by
        have h1 : (c :: P.erase c).Perm (c :: (todo ++ rest)) := (List.perm_cons_erase hcP).symm.trans hperm
        have h2 := List.Perm.cons_inv h1
        rw [← List.append_assoc]
        exact List.Perm.append_right _ h2
      have := ih _ (if c ∈ S then replaceAt S c (splitOf H HT g W c) else (splitOf H HT g W c).tail ++ S) _ hperm1
      unfold keepOrSplit at this
      rw [List.append_assoc] at this
      exact this
    · rw [if_neg hact, if_neg hact]
      have hperm1 : P.Perm (todo ++ (c :: rest)) := hperm.trans (by simpa using List.perm_middle.symm)
      have := ih P S (c :: rest) hperm1
      unfold keepOrSplit at this
      refine this.trans ?_
      exact List.perm_middle.symm

theorem refinePass_closed (H : List Item → Nat) (HT : Term → Nat) (g : Graph) (W : Color) (P S : List Color) :
    ((refinePass H HT g W P S).1).Perm (P.flatMap (keepOrSplit H HT g W)) := by
  have := pass_closed H HT g W P P S [] (by simp)
  simpa [refinePass] using this

/-- after the pass with splitter `W`, every colour is stable with respect to `W` -/
theorem refinePass_stable {H : List Item → Nat} (hH : MultisetInj H) (HT : Term → Nat) (g : Graph)
    (W : Color) (P S : List Color) :
    ∀ c' ∈ (refinePass H HT g W P S).1, StableWrt g (W.hash H HT) W.nodes c' := by
  intro c' hc'
  have hm := (refinePass_closed H HT g W P S).mem_iff.mp hc'
  obtain ⟨c, _, hcc⟩ := List.mem_flatMap.mp hm
  unfold keepOrSplit at hcc
  by_cases hact : activeC c = true
  · rw [if_pos hact] at hcc
    exact splitOf_stable hH HT g W c c' hcc
  · rw [if_neg hact] at hcc
    simp only [List.mem_singleton] at hcc
    subst hcc
    intro n hn m hm'
    unfold activeC at hact
    cases hnodes : c'.nodes with
    | nil => rw [hnodes] at hn; simp at hn
    | cons n0 rest =>
      rw [hnodes] at hact hn hm'
      have hr : rest = [] := by
        cases rest with
        | nil => rfl
        | cons a as => simp at hact
      rw [hr] at hn hm'
      simp only [List.mem_singleton] at hn hm'
      rw [hn, hm']

/-- a colouring of singletons is stable -/
theorem stable_of_discrete (H : List Item → Nat) (HT : Term → Nat) (g : Graph) (cs : List Color)
    (h : cs.all Color.discrete = true) : Stable H HT g cs := by
  intro W _ c hc n hn m hm
  have hd : c.nodes.length = 1 := by
    have := List.all_eq_true.mp h c hc
    simpa [Color.discrete] using this
  cases hnodes : c.nodes with
  | nil => rw [hnodes] at hd; simp at hd
  | cons n0 rest =>
    rw [hnodes] at hd hn hm
    have hr : rest = [] := by
      cases rest with
      | nil => rfl
      | cons a as => simp at hd
    rw [hr] at hn hm
    simp only [List.mem_singleton] at hn hm
    rw [hn, hm]

end RV.C14
