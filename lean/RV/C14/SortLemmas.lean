import RV.C14.Search
/-
  Order and sorting lemmas for the label-free serialisation of `canonSearch` (core only, no Mathlib):
  `lexLe` lifts a total order to lists, `isort` of two permutations of each other is the same list.
-/
namespace RV.C14

structure TotalOrderB {α : Type} (le : α → α → Bool) : Prop where
  total : ∀ a b, le a b = true ∨ le b a = true
  trans : ∀ a b c, le a b = true → le b c = true → le a c = true
  antisymm : ∀ a b, le a b = true → le b a = true → a = b

theorem natLe_order : TotalOrderB (fun a b : Nat => decide (a ≤ b)) :=
  ⟨fun a b => by simp only [decide_eq_true_eq]; omega,
   fun a b c h1 h2 => by simp only [decide_eq_true_eq] at *; omega,
   fun a b h1 h2 => by simp only [decide_eq_true_eq] at *; omega⟩

section lex
variable {α : Type} [DecidableEq α] {le : α → α → Bool}

theorem lexLe_total (h : TotalOrderB le) : ∀ a b : List α, lexLe le a b = true ∨ lexLe le b a = true := by
  intro a
  induction a with
  | nil => intro b; left; cases b <;> rfl
  | cons x xs ih =>
    intro b
    cases b with
    | nil => right; rfl
    | cons y ys =>
      by_cases e : x = y
      · subst e
        simp only [lexLe, if_true]
        exact ih ys
      · have e' : ¬ y = x := fun h' => e h'.symm
        simp only [lexLe, if_neg e, if_neg e']
        exact h.total x y

theorem lexLe_antisymm (h : TotalOrderB le) : ∀ a b : List α, lexLe le a b = true → lexLe le b a = true → a = b := by
  intro a
  induction a with
  | nil => intro b _ h2; cases b with
    | nil => rfl
    | cons y ys => simp [lexLe] at h2
  | cons x xs ih =>
    intro b h1 h2
    cases b with
    | nil => simp [lexLe] at h1
    | cons y ys =>
      by_cases e : x = y
      · subst e
        simp only [lexLe, if_true] at h1 h2
        rw [ih ys h1 h2]
      · have e' : ¬ y = x := fun h' => e h'.symm
        simp only [lexLe, if_neg e, if_neg e'] at h1 h2
        exact absurd (h.antisymm x y h1 h2) e

theorem lexLe_trans (h : TotalOrderB le) : ∀ a b c : List α,
    lexLe le a b = true → lexLe le b c = true → lexLe le a c = true := by
  intro a
  induction a with
  | nil => intro b c _ _; cases c <;> rfl
  | cons x xs ih =>
    intro b c h1 h2
    cases b with
    | nil => simp [lexLe] at h1
    | cons y ys =>
      cases c with
      | nil => simp [lexLe] at h2
      | cons z zs =>
        by_cases e1 : x = y
        · subst e1
          by_cases e2 : x = z
          · subst e2
            simp only [lexLe, if_true] at h1 h2 ⊢
            exact ih ys zs h1 h2
          · simp only [lexLe, if_true, if_neg e2] at h1 h2 ⊢
            exact h2
        · by_cases e2 : y = z
          · subst e2
            simp only [lexLe, if_neg e1] at h1 ⊢
            exact h1
          · simp only [lexLe, if_neg e1, if_neg e2] at h1 h2
            by_cases e3 : x = z
            · subst e3
              exact absurd (h.antisymm x y h1 h2) e1
            · simp only [lexLe, if_neg e3]
              exact h.trans x y z h1 h2

theorem lexLe_order (h : TotalOrderB le) : TotalOrderB (lexLe le) :=
  ⟨lexLe_total h, lexLe_trans h, lexLe_antisymm h⟩

end lex

theorem keyLe_order : TotalOrderB keyLe := lexLe_order natLe_order
theorem leafLe_order : TotalOrderB leafLe := lexLe_order keyLe_order

section sort
variable {α : Type} {le : α → α → Bool}

theorem perm_oinsert (a : α) (l : List α) : (oinsert le a l).Perm (a :: l) := by
  induction l with
  | nil => exact List.Perm.refl _
  | cons b l ih =>
    unfold oinsert
    split
    · exact List.Perm.refl _
    · exact (List.Perm.cons b ih).trans (List.Perm.swap a b l)

theorem perm_isort (l : List α) : (isort le l).Perm l := by
  induction l with
  | nil => exact List.Perm.refl _
  | cons b l ih => exact (perm_oinsert b _).trans (List.Perm.cons b ih)

theorem sorted_oinsert (h : TotalOrderB le) (a : α) (l : List α)
    (hs : l.Pairwise (fun x y => le x y = true)) : (oinsert le a l).Pairwise (fun x y => le x y = true) := by
  induction l with
  | nil => simp [oinsert]
  | cons b l ih =>
    rw [List.pairwise_cons] at hs
    unfold oinsert
    split
    · next hab =>
      rw [List.pairwise_cons]
      refine ⟨?_, List.pairwise_cons.mpr hs⟩
      intro x hx
      rcases List.mem_cons.mp hx with rfl | hx
      · exact hab
      · exact h.trans _ _ _ hab (hs.1 x hx)
    · next hab =>
      have hba : le b a = true := by
        rcases h.total a b with h' | h'
        · exact absurd h' hab
        · exact h'
      rw [List.pairwise_cons]
      refine ⟨?_, ih hs.2⟩
      intro x hx
      rcases List.mem_cons.mp ((perm_oinsert a l).mem_iff.mp hx) with rfl | hx
      · exact hba
      · exact hs.1 x hx

theorem sorted_isort (h : TotalOrderB le) (l : List α) : (isort le l).Pairwise (fun x y => le x y = true) := by
  induction l with
  | nil => simp [isort]
  | cons b l ih => exact sorted_oinsert h b _ ih

theorem eq_of_perm_sorted (h : TotalOrderB le) : ∀ (l1 l2 : List α), l1.Perm l2 →
    l1.Pairwise (fun x y => le x y = true) → l2.Pairwise (fun x y => le x y = true) → l1 = l2 := by
  intro l1
  induction l1 with
  | nil => intro l2 hp _ _; exact (List.Perm.nil_eq hp)
  | cons a t1 ih =>
    intro l2 hp h1 h2
    cases l2 with
    | nil => exact absurd hp.length_eq (by simp)
    | cons b t2 =>
      rw [List.pairwise_cons] at h1 h2
      have hab : a = b := by
        have ha : a ∈ b :: t2 := hp.mem_iff.mp List.mem_cons_self
        have hb : b ∈ a :: t1 := hp.mem_iff.mpr List.mem_cons_self
        rcases List.mem_cons.mp ha with e | ha'
        · exact e
        · rcases List.mem_cons.mp hb with e | hb'
          · exact e.symm
          · exact h.antisymm a b (h1.1 b hb') (h2.1 a ha')
      subst hab
      rw [ih t2 hp.cons_inv h1.2 h2.2]

theorem isort_perm_eq (h : TotalOrderB le) {l1 l2 : List α} (hp : l1.Perm l2) : isort le l1 = isort le l2 :=
  eq_of_perm_sorted h _ _ ((perm_isort l1).trans (hp.trans (perm_isort l2).symm)) (sorted_isort h l1) (sorted_isort h l2)

theorem head_isort_mem {l : List α} {x : α} (hx : (isort le l).head? = some x) : x ∈ l := by
  have : x ∈ isort le l := by
    cases hl : isort le l with
    | nil => rw [hl] at hx; simp at hx
    | cons y ys => rw [hl] at hx; simp at hx; subst hx; exact List.mem_cons_self
  exact (perm_isort l).mem_iff.mp this

end sort

end RV.C14
