import RV.C14.Canon
/-
  C14 part E — an EXHAUSTIVE individualisation–refinement search (`canonSearch`): the unpruned reference for
  `_TripleCanonicalizer._traces`.

    colours    every blank node starts with a colour that says whether / when it was individualised
               (`HInd (position in the path)`, 0 = not individualised); one refinement round replaces the colour of
               a node by `H own (list of HI dir (HT predicate) (colour or HT of the neighbour))` over its out- and
               in-edges — the information `Color.distinguish` accumulates, for all cells at once; the rounds are
               repeated (number of blank nodes) times.
    discrete   all blank nodes have pairwise different colours: the leaf is the graph with every blank node
               renamed to its colour, serialised label-free as the SORTED list of its triples' keys.
    otherwise  the target cell is the non-trivial cell with the least colour; each of its members in turn is
               appended to the individualisation path and the search recurses (fuel = number of blank nodes).
               (`_get_candidates` offers the members of every non-trivial cell and `_traces` keeps the best score;
               one fixed, label-independent cell is enough for an exhaustive search and far cheaper.)
    result     the MINIMUM leaf (`_traces` keeps the best leaf under a fixed order and prunes candidates with
               discovered automorphisms; pruning is an optimisation that must not change the chosen leaf's graph).

  The hash functions are parameters (`Hashes`); the theorems need `H` to be invariant under permutation of the item
  list (it is a sum in the code) and nothing else — discreteness is checked on the colours themselves.
-/
namespace RV.C14

structure Hashes where
  HT : Term → Nat                   -- hash of a non-blank term (its n3 text)
  HI : Nat → Nat → Nat → Nat        -- one item: direction tag, predicate hash, neighbour colour
  H : Nat → List Nat → Nat          -- new colour from the own colour and the items
  HInd : Nat → Nat                  -- initial colour from the position in the individualisation path (0 = none)

/-- 1-based position of `n` in the path, 0 if absent -/
def idxOf : List Nat → Nat → Nat
  | [], _ => 0
  | x :: xs, n => if x = n then 1 else (if idxOf xs n = 0 then 0 else idxOf xs n + 1)

def nodesOf (g : Graph) : List Nat := dedup (bnodes g)

/-- colour of a node in a table (0 for nodes outside it; never used for nodes of the graph) -/
def colAt (tbl : Asg) (n : Nat) : Nat := (alookup tbl n).getD 0

def termCol (Hs : Hashes) (c : Nat → Nat) (t : Term) : Nat := if t.blank then c t.id else Hs.HT t

/-- the items of node `n`: one per out-edge and one per in-edge -/
def nodeItems (Hs : Hashes) (g : Graph) (c : Nat → Nat) (n : Nat) : List Nat :=
  g.filterMap (fun t => if t.1 = ⟨true, n⟩ then some (Hs.HI 1 (Hs.HT t.2.1) (termCol Hs c t.2.2)) else none) ++
  g.filterMap (fun t => if t.2.2 = ⟨true, n⟩ then some (Hs.HI 2 (Hs.HT t.2.1) (termCol Hs c t.1)) else none)

def initTable (Hs : Hashes) (nodes ind : List Nat) : Asg := nodes.map (fun n => (n, Hs.HInd (idxOf ind n)))

def stepTable (Hs : Hashes) (g : Graph) (nodes : List Nat) (tbl : Asg) : Asg :=
  nodes.map (fun n => (n, Hs.H (colAt tbl n) (nodeItems Hs g (colAt tbl) n)))

def iterTable (Hs : Hashes) (g : Graph) (nodes : List Nat) : Nat → Asg → Asg
  | 0, tbl => tbl
  | k + 1, tbl => iterTable Hs g nodes k (stepTable Hs g nodes tbl)

/-- the refined colouring for an individualisation path -/
def refinedTable (Hs : Hashes) (g : Graph) (ind : List Nat) : Asg :=
  iterTable Hs g (nodesOf g) (nodesOf g).length (initTable Hs (nodesOf g) ind)

/-! ### label-free serialisation -/

def Term.key (t : Term) : List Nat := [if t.blank then 1 else 0, t.id]
def Triple.key (t : Triple) : List Nat := t.1.key ++ (t.2.1.key ++ t.2.2.key)

/-- lexicographic order on lists, from a total order `le` on the elements -/
def lexLe {α : Type} [DecidableEq α] (le : α → α → Bool) : List α → List α → Bool
  | [], _ => true
  | _ :: _, [] => false
  | a :: as, b :: bs => if a = b then lexLe le as bs else le a b

def keyLe : List Nat → List Nat → Bool := lexLe (fun a b => decide (a ≤ b))
def leafLe : List (List Nat) → List (List Nat) → Bool := lexLe keyLe

def oinsert {α : Type} (le : α → α → Bool) (a : α) : List α → List α
  | [] => [a]
  | b :: l => if le a b then a :: b :: l else b :: oinsert le a l

def isort {α : Type} (le : α → α → Bool) : List α → List α
  | [] => []
  | b :: l => oinsert le b (isort le l)

/-- the leaf of a colouring: blank nodes renamed to their colours, triples as sorted keys -/
def leafOf (g : Graph) (c : Nat → Nat) : List (List Nat) := isort keyLe ((g.rename c).map Triple.key)

def nodupB : List Nat → Bool
  | [] => true
  | x :: xs => !decide (x ∈ xs) && nodupB xs

/-- least element of a list (0 for the empty list) -/
def minOf : List Nat → Nat
  | [] => 0
  | [x] => x
  | x :: y :: l => min x (minOf (y :: l))

/-- the colour of the target cell: the least colour carried by two or more nodes -/
def targetColour (cols : List Nat) : Nat := minOf (cols.filter (fun v => decide (2 ≤ cols.count v)))

/-- is the colouring discrete on the nodes -/
def discreteTbl (nodes : List Nat) (tbl : Asg) : Bool := nodupB (nodes.map (colAt tbl))

/-- the candidates: the members of the first non-trivial cell in colour order -/
def candidatesTbl (nodes : List Nat) (tbl : Asg) : List Nat :=
  let tc := targetColour (nodes.map (colAt tbl))
  nodes.filter (fun n => decide (colAt tbl n = tc))

/-- all leaves below an individualisation path -/
def leaves (Hs : Hashes) (g : Graph) : Nat → List Nat → List (List (List Nat))
  | 0, ind =>
    let tbl := refinedTable Hs g ind
    if discreteTbl (nodesOf g) tbl then [leafOf g (colAt tbl)] else []
  | fuel + 1, ind =>
    let tbl := refinedTable Hs g ind
    if discreteTbl (nodesOf g) tbl then [leafOf g (colAt tbl)]
    else (candidatesTbl (nodesOf g) tbl).flatMap (fun x => leaves Hs g fuel (ind ++ [x]))

/-- the canonical form: the minimum leaf (`none` only if the search found no discrete colouring) -/
def canonSearch (Hs : Hashes) (g : Graph) : Option (List (List Nat)) :=
  (isort leafLe (leaves Hs g (nodesOf g).length [])).head?

/-! ### concrete hashes for the driver (sum-based like the code's `hash_color`) -/

def driverHashes : Hashes where
  HT := termHash
  HI := fun d p c => ((d * 1000003 + p) * 6364136223846793005 + c * 2862933555777941757 + 3037000493) % hashMod
  H := fun own items => ((own * 11400714819323198485 + items.foldl (· + ·) 0) % hashMod) + 1
  HInd := fun k => (k * 7046029254386353087 + 5) % hashMod

end RV.C14
