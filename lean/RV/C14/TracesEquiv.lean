import RV.C14.Traces
import RV.C14.RefineEquiv
/-
  Equivariance of the `_traces` model under a blank-node renaming `σ` that is injective (on all labels): running the
  search on `g.rename σ` from the renamed colouring explores exactly the renamed leaves and returns the renamed best one.
  With a globally injective `σ` no side condition on the colourings is needed.
-/
namespace RV.C14

section
variable {σ : Nat → Nat} (hσ : Function.Injective σ)
include hσ

theorem rename_injective : Function.Injective (Term.rename σ) := by
  intro a b h
  have hfl : a.blank = b.blank := by
    have := congrArg Term.blank h
    simpa [rename_blank] using this
  cases hab : a.blank
  · have hbb : b.blank = false := by rw [← hfl, hab]
    simpa [Term.rename, hab, hbb] using h
  · have hbb : b.blank = true := by rw [← hfl, hab]
    have hid : σ a.id = σ b.id := by
      have := congrArg Term.id h
      simpa [Term.rename, hab, hbb] using this
    have := hσ hid
    cases a; cases b; simp_all

omit hσ in
theorem list_map_inj {α β : Type} {f : α → β} (hf : Function.Injective f) :
    ∀ (l1 l2 : List α), l1.map f = l2.map f → l1 = l2
  | [], [], _ => rfl
  | [], _ :: _, h => by simp at h
  | _ :: _, [], h => by simp at h
  | a :: l1, b :: l2, h => by
    simp only [List.map_cons, List.cons.injEq] at h
    rw [hf h.1, list_map_inj hf l1 l2 h.2]

theorem mapColor_injective : Function.Injective (mapColor (Term.rename σ)) := by
  intro c d h
  obtain ⟨cn, ci, cg⟩ := c
  obtain ⟨dn, di, dg⟩ := d
  simp only [mapColor, Color.mk.injEq] at h
  obtain ⟨h1, h2, h3⟩ := h
  have := list_map_inj (rename_injective hσ) _ _ h1
  rw [this, h2, h3]

theorem triple_rename_injective : Function.Injective (Triple.rename σ) := by
  intro a b h
  obtain ⟨a1, a2, a3⟩ := a
  obtain ⟨b1, b2, b3⟩ := b
  simp only [Triple.rename, Prod.mk.injEq] at h
  have h1 := rename_injective hσ h.1
  have h2 := rename_injective hσ h.2.1
  have h3 := rename_injective hσ h.2.2
  rw [h1, h2, h3]

theorem distinguishItems_renameG {g : Graph} (hp : NoBlankPred g) (hW : Nat) (Wn : List Term) (n : Term) :
    distinguishItems hW (g.rename σ) (Wn.map (Term.rename σ)) (n.rename σ) = distinguishItems hW g Wn n := by
  unfold distinguishItems
  rw [List.flatMap_map]
  apply flatMap_congr_mem
  intro node _
  have key : ∀ t : Triple, ∀ a b : Term,
      ((t.rename σ).1 = a.rename σ ∧ (t.rename σ).2.2 = b.rename σ ↔ t.1 = a ∧ t.2.2 = b) := by
    intro t a b
    simp only [Triple.rename]
    constructor
    · rintro ⟨e1, e2⟩; exact ⟨rename_injective hσ e1, rename_injective hσ e2⟩
    · rintro ⟨e1, e2⟩; rw [e1, e2]; exact ⟨rfl, rfl⟩
  have hpred : ∀ t ∈ g, (t.rename σ).2.1 = t.2.1 := by
    intro t ht
    simp [Triple.rename, Term.rename, hp t ht]
  congr 1
  · unfold Graph.rename
    rw [List.filterMap_map]
    apply filterMap_congr_mem
    intro t ht
    simp only [Function.comp]
    by_cases hc : t.1 = n ∧ t.2.2 = node
    · rw [if_pos ((key t n node).mpr hc), if_pos hc, hpred t ht]
    · rw [if_neg (fun h' => hc ((key t n node).mp h')), if_neg hc]
  · unfold Graph.rename
    rw [List.filterMap_map]
    apply filterMap_congr_mem
    intro t ht
    simp only [Function.comp]
    by_cases hc : t.1 = node ∧ t.2.2 = n
    · rw [if_pos ((key t node n).mpr hc), if_pos hc, hpred t ht]
    · rw [if_neg (fun h' => hc ((key t node n).mp h')), if_neg hc]

variable {g : Graph} (hp : NoBlankPred g) (H : List Item → Nat) (HT : Term → Nat)
include hp

theorem splitOf_renameG (c W : Color) :
    splitOf H HT (g.rename σ) (mapColor (Term.rename σ) W) (mapColor (Term.rename σ) c) =
      (splitOf H HT g W c).map (mapColor (Term.rename σ)) := by
  unfold splitOf distinguish
  have h0 := groupByHash_map (Term.rename σ) H
    (c.nodes.map (fun n => (n, c.items ++ distinguishItems (W.hash H HT) g W.nodes n))) []
  rw [List.map_nil] at h0
  rw [← sortDesc_map, ← h0, List.map_map]
  congr 2
  simp only [mapColor, List.map_map]
  apply map_congr_mem
  intro n _
  simp only [Function.comp]
  have := distinguishItems_renameG hσ hp (Color.hash H HT W) W.nodes n
  simp only [Color.hash] at this ⊢
  rw [this]

theorem refineStep_renameG (W : Color) (P S : List Color) (c : Color) :
    refineStep H HT (g.rename σ) (mapColor (Term.rename σ) W)
        (P.map (mapColor (Term.rename σ)), S.map (mapColor (Term.rename σ))) (mapColor (Term.rename σ) c) =
      ((refineStep H HT g W (P, S) c).1.map (mapColor (Term.rename σ)),
       (refineStep H HT g W (P, S) c).2.map (mapColor (Term.rename σ))) := by
  rw [refineStep_eq, refineStep_eq]
  have hact : activeC (mapColor (Term.rename σ) c) = activeC c := by
    unfold activeC mapColor
    cases c.nodes with
    | nil => rfl
    | cons n0 rest =>
      simp only [List.map_cons, rename_blank]
      cases rest <;> rfl
  rw [hact]
  by_cases ha : activeC c = true
  · rw [if_pos ha, if_pos ha]
    have inj : ∀ (l : List Color), ∀ x ∈ l, mapColor (Term.rename σ) x = mapColor (Term.rename σ) c → x = c :=
      fun _ x _ e => mapColor_injective hσ e
    rw [splitOf_renameG hσ hp H HT, map_erase_of_inj _ _ _ (inj P)]
    simp only [List.map_append]
    congr 1
    by_cases hin : c ∈ S
    · rw [if_pos hin, if_pos ((mem_map_of_inj _ _ _ (inj S)).mpr hin), replaceAt_map _ _ _ _ (inj S)]
    · rw [if_neg hin, if_neg (fun h => hin ((mem_map_of_inj _ _ _ (inj S)).mp h))]
      simp [List.map_tail]
  · rw [if_neg ha, if_neg ha]

theorem pass_renameG (W : Color) (todo : List Color) :
    ∀ (P S : List Color),
      (todo.map (mapColor (Term.rename σ))).foldl
          (refineStep H HT (g.rename σ) (mapColor (Term.rename σ) W))
          (P.map (mapColor (Term.rename σ)), S.map (mapColor (Term.rename σ))) =
        ((todo.foldl (refineStep H HT g W) (P, S)).1.map (mapColor (Term.rename σ)),
         (todo.foldl (refineStep H HT g W) (P, S)).2.map (mapColor (Term.rename σ))) := by
  induction todo with
  | nil => intro P S; rfl
  | cons c todo ih =>
    intro P S
    rw [List.map_cons, List.foldl_cons, List.foldl_cons, refineStep_renameG hσ hp H HT]
    exact ih _ _

theorem refineLoop_renameG :
    ∀ (fuel : Nat) (P S : List Color),
      refineLoop H HT (g.rename σ) fuel (P.map (mapColor (Term.rename σ))) (S.map (mapColor (Term.rename σ))) =
        (refineLoop H HT g fuel P S).map (mapColor (Term.rename σ)) := by
  intro fuel
  induction fuel with
  | zero => intro P S; rfl
  | succ fuel ih =>
    intro P S
    unfold refineLoop
    have hdone : refineDone (P.map (mapColor (Term.rename σ))) (S.map (mapColor (Term.rename σ))) = refineDone P S := by
      have hd : Color.discrete ∘ mapColor (Term.rename σ) = Color.discrete := by
        funext c; simp [Color.discrete, mapColor]
      unfold refineDone
      rw [List.all_map, hd]
      cases S <;> rfl
    rw [hdone]
    split
    · rfl
    · rw [List.getLast?_map]
      cases hS' : S.getLast? with
      | none => rfl
      | some W =>
        simp only [Option.map_some]
        have e := pass_renameG hσ hp H HT W P P S.dropLast
        unfold refinePass
        rw [← List.map_dropLast, e]
        exact ih _ _

theorem refine_renameG (fuel : Nat) (P S : List Color) :
    refine H HT (g.rename σ) fuel (P.map (mapColor (Term.rename σ))) (S.map (mapColor (Term.rename σ))) =
      (refine H HT g fuel P S).map (mapColor (Term.rename σ)) := by
  unfold refine
  rw [sortDesc_map, refineLoop_renameG hσ hp H HT]
  have := mergeByHash_map (Term.rename σ) H HT (refineLoop H HT g fuel P (sortDesc H HT S)) []
  rw [List.map_nil] at this
  exact this

theorem refineWith_rename (cs : List Color) (nc : Color) :
    refineWith H HT (g.rename σ) (cs.map (mapColor (Term.rename σ))) (mapColor (Term.rename σ) nc) =
      (refineWith H HT g cs nc).map (mapColor (Term.rename σ)) := by
  unfold refineWith
  have hf : refineFuel (cs.map (mapColor (Term.rename σ))) [mapColor (Term.rename σ) nc] = refineFuel cs [nc] := by
    unfold refineFuel
    rw [nodeCount_map, List.length_map]
    rfl
  rw [hf]
  exact refine_renameG hσ hp H HT _ cs [nc]

end


/-! ### the search -/

section
variable {σ : Nat → Nat} (hσ : Function.Injective σ)

local notation "ρ" => Term.rename σ
local notation "mc" => mapColor (Term.rename σ)

def mapGen (σ : Nat → Nat) (gen : List (Term × List Term)) : List (Term × List Term) :=
  gen.map (fun kv => (Term.rename σ kv.1, kv.2.map (Term.rename σ)))

def mapState (σ : Nat → Nat) (st : TState) : TState :=
  ⟨st.best.map (List.map (mapColor (Term.rename σ))), st.bestExp.map (List.map (mapColor (Term.rename σ))), st.bestScore,
   st.last.map (List.map (mapColor (Term.rename σ))), mapGen σ st.gen, st.visited.map (Term.rename σ)⟩

theorem any_congr_all {α : Type} {p q : α → Bool} (l : List α) (h : ∀ x, p x = q x) : l.any p = l.any q := by
  have : p = q := funext h
  rw [this]

theorem all_congr_all {α : Type} {p q : α → Bool} (l : List α) (h : ∀ x, p x = q x) : l.all p = l.all q := by
  have : p = q := funext h
  rw [this]

theorem discrete_map (c : Color) : (mc c).discrete = c.discrete := by simp [Color.discrete, mapColor]

theorem allDiscrete_map (cs : List Color) : allDiscrete (cs.map mc) = allDiscrete cs := by
  unfold allDiscrete
  rw [List.all_map]
  congr 1
  funext c
  exact discrete_map c

theorem filter_nondiscrete_map (cs : List Color) :
    (cs.map mc).filter (fun c => !c.discrete) = (cs.filter (fun c => !c.discrete)).map mc := by
  rw [List.filter_map]
  congr 1
  apply List.filter_congr
  intro c _
  simp [discrete_map]

theorem candidates_map (cs : List Color) :
    candidates (cs.map mc) = (candidates cs).map (fun p => (ρ p.1, mc p.2)) := by
  unfold candidates
  rw [filter_nondiscrete_map, List.flatMap_map, List.map_flatMap]
  congr 1
  funext c
  simp [mapColor, List.map_map, Function.comp_def]

include hσ

theorem individuate_map (cs : List Color) (c : Color) (n : Term) :
    individuate (cs.map mc) (mc c) (ρ n) = ((individuate cs c n).1.map mc, mc (individuate cs c n).2) := by
  unfold individuate
  simp only [List.map_append, List.map_map, List.map_cons, List.map_nil]
  congr 1
  · congr 1
    · apply map_congr_mem
      intro d _
      simp only [Function.comp]
      by_cases h : d = c
      · subst h
        simp only [if_true]
        have := map_erase_of_inj (Term.rename σ) n d.nodes (fun x _ e => rename_injective hσ e)
        simp [mapColor, this]
      · have h' : mc d ≠ mc c := fun e => h (mapColor_injective hσ e)
        rw [if_neg h, if_neg h']
    · simp [mapColor]
  · simp [mapColor]

variable {g : Graph} (hp : NoBlankPred g) (H : List Item → Nat) (HT : Term → Nat)
include hp

theorem experimentalPath_map : ∀ (fuel : Nat) (cs : List Color),
    experimentalPath H HT (g.rename σ) fuel (cs.map mc) = (experimentalPath H HT g fuel cs).map mc := by
  intro fuel
  induction fuel with
  | zero => intro cs; rfl
  | succ fuel ih =>
    intro cs
    unfold experimentalPath
    rw [filter_nondiscrete_map]
    cases hf : cs.filter (fun c => !c.discrete) with
    | nil => rfl
    | cons c rest =>
      simp only [List.map_cons]
      cases hn : c.nodes with
      | nil => simp [mapColor, hn]
      | cons n tl =>
        have e : (mc c).nodes = ρ n :: tl.map ρ := by simp [mapColor, hn]
        rw [e]
        simp only []
        rw [individuate_map hσ, refineWith_rename hσ hp H HT]
        exact ih _

omit hp in
theorem dget_map {β γ : Type} (f : β → γ) (x : Term) : ∀ m : List (Term × β),
    dget (m.map (fun kv => (ρ kv.1, f kv.2))) (ρ x) = (dget m x).map f := by
  intro m
  induction m with
  | nil => rfl
  | cons kv m ih =>
    obtain ⟨k, v⟩ := kv
    simp only [List.map_cons, dget]
    by_cases e : k = x
    · subst e; simp
    · have hne : ρ k ≠ ρ x := fun e' => e (rename_injective hσ e')
      rw [if_neg hne, if_neg e]; exact ih

omit hp in
theorem dset_map {β γ : Type} (f : β → γ) (k : Term) (v : β) (m : List (Term × β)) :
    dset (m.map (fun kv => (ρ kv.1, f kv.2))) (ρ k) (f v) = (dset m k v).map (fun kv => (ρ kv.1, f kv.2)) := by
  unfold dset
  rw [List.map_append, List.filter_map]
  congr 1
  congr 1
  apply List.filter_congr
  intro kv _
  simp only [Function.comp]
  by_cases e : kv.1 = k
  · simp [e]
  · have hne : ρ kv.1 ≠ ρ k := fun e' => e (rename_injective hσ e')
    simp [e, hne]

omit hp in
theorem cellIdx_map : ∀ (cs : List Color) (i : Nat) (n : Term),
    cellIdx (cs.map mc) i (ρ n) = cellIdx cs i n := by
  intro cs
  induction cs with
  | nil => intro i n; rfl
  | cons c cs ih =>
    intro i n
    simp only [List.map_cons, cellIdx]
    rw [ih]
    have : (ρ n ∈ (mc c).nodes) ↔ n ∈ c.nodes := by
      simp only [mapColor]
      exact mem_map_of_inj _ _ _ (fun x _ e => rename_injective hσ e)
    cases cellIdx cs (i + 1) n with
    | some j => rfl
    | none =>
      by_cases hm : n ∈ c.nodes
      · simp [hm, this.mpr hm]
      · have hn' : ¬ ρ n ∈ (mc c).nodes := fun h => hm (this.mp h)
        simp [hm, hn']

omit hσ hp in
theorem firstPairs_map : ∀ (a b : List Color),
    firstPairs (a.map mc) (b.map mc) = (firstPairs a b).map (fun p => (ρ p.1, ρ p.2)) := by
  intro a
  induction a with
  | nil => intro b; simp [firstPairs]
  | cons x xs ih =>
    intro b
    cases b with
    | nil => simp [firstPairs]
    | cons y ys =>
      simp only [List.map_cons, firstPairs]
      cases hx : x.nodes <;> cases hy : y.nodes <;> simp [mapColor, hx, hy, ih]

omit hp in
theorem valuesDistinct_map : ∀ (m : List (Term × Term)),
    valuesDistinct (m.map (fun kv => (ρ kv.1, ρ kv.2))) = valuesDistinct m := by
  intro m
  induction m with
  | nil => rfl
  | cons kv m ih =>
    obtain ⟨k, v⟩ := kv
    simp only [List.map_cons, valuesDistinct, ih, List.any_map]
    congr 2
    apply any_congr_all
    intro kv'
    simp only [Function.comp]
    by_cases e : kv'.2 = v
    · simp [e]
    · have hne : ρ kv'.2 ≠ ρ v := fun e' => e (rename_injective hσ e')
      simp [e, hne]

omit hp in
theorem applyMap_map (m : List (Term × Term)) (t : Term) :
    applyMap (m.map (fun kv => (ρ kv.1, ρ kv.2))) (ρ t) = ρ (applyMap m t) := by
  unfold applyMap
  rw [dget_map hσ (Term.rename σ)]
  cases dget m t <;> rfl

omit hp in
theorem foldl_dset_map (ps : List (Term × Term)) : ∀ m : List (Term × Term),
    (ps.map (fun p => (ρ p.1, ρ p.2))).foldl (fun m p => dset m p.1 p.2) (m.map (fun kv => (ρ kv.1, ρ kv.2))) =
      (ps.foldl (fun m p => dset m p.1 p.2) m).map (fun kv => (ρ kv.1, ρ kv.2)) := by
  induction ps with
  | nil => intro m; rfl
  | cons p ps ih =>
    intro m
    simp only [List.map_cons, List.foldl_cons]
    rw [dset_map hσ (Term.rename σ), ih]

theorem isAutomorphism_map (cs a b : List Color) :
    isAutomorphism (g.rename σ) (cs.map mc) (a.map mc) (b.map mc) = isAutomorphism g cs a b := by
  unfold isAutomorphism
  simp only [firstPairs_map, List.length_map]
  have hm := foldl_dset_map hσ (firstPairs a b) []
  rw [List.map_nil] at hm
  rw [hm, valuesDistinct_map hσ, List.all_map]
  congr 1
  · congr 1
    congr 1
    apply all_congr_all
    intro p
    simp only [Function.comp, cellIdx_map hσ]
  · unfold Graph.rename
    rw [List.all_map]
    apply all_congr_all
    intro t
    simp only [Function.comp]
    have hpred : (Triple.rename σ t) = (ρ t.1, ρ t.2.1, ρ t.2.2) := rfl
    rw [hpred]
    simp only [applyMap_map hσ]
    have : ((ρ (applyMap (List.foldl (fun m p => dset m p.1 p.2) [] (firstPairs a b)) t.1),
        ρ (applyMap (List.foldl (fun m p => dset m p.1 p.2) [] (firstPairs a b)) t.2.1),
        ρ (applyMap (List.foldl (fun m p => dset m p.1 p.2) [] (firstPairs a b)) t.2.2)) : Triple) =
        Triple.rename σ (applyMap (List.foldl (fun m p => dset m p.1 p.2) [] (firstPairs a b)) t.1,
          applyMap (List.foldl (fun m p => dset m p.1 p.2) [] (firstPairs a b)) t.2.1,
          applyMap (List.foldl (fun m p => dset m p.1 p.2) [] (firstPairs a b)) t.2.2) := rfl
    rw [this]
    have hiff := mem_map_of_inj (Triple.rename σ)
      (applyMap (List.foldl (fun m p => dset m p.1 p.2) [] (firstPairs a b)) t.1,
        applyMap (List.foldl (fun m p => dset m p.1 p.2) [] (firstPairs a b)) t.2.1,
        applyMap (List.foldl (fun m p => dset m p.1 p.2) [] (firstPairs a b)) t.2.2) g
      (fun x _ e => triple_rename_injective hσ e)
    exact decide_eq_decide.mpr hiff

omit hp in
theorem createGenerator_map (a b : List Color) (gen : List (Term × List Term)) :
    createGenerator (a.map mc) (b.map mc) (mapGen σ gen) = mapGen σ (createGenerator a b gen) := by
  unfold createGenerator
  rw [firstPairs_map]
  generalize firstPairs a b = ps
  induction ps generalizing gen with
  | nil => rfl
  | cons p ps ih =>
    simp only [List.map_cons, List.foldl_cons]
    have hs : (if ρ p.1 = ρ p.2 then [ρ p.1] else [ρ p.1, ρ p.2]) =
        (if p.1 = p.2 then [p.1] else [p.1, p.2]).map ρ := by
      by_cases e : p.1 = p.2
      · simp [e]
      · have hne : ρ p.1 ≠ ρ p.2 := fun e' => e (rename_injective hσ e')
        simp [e, hne]
    rw [hs]
    unfold mapGen at ih ⊢
    rw [dset_map hσ (List.map (Term.rename σ)), dset_map hσ (List.map (Term.rename σ))]
    exact ih _

omit hσ hp in
theorem score_map (cs : List Color) : score H HT (cs.map mc) = score H HT cs := by
  unfold score
  rw [List.map_map]
  apply map_congr_mem
  intro c _
  exact mapColor_key _ H HT c


omit hp in
theorem prunedBy_map (gen : List (Term × List Term)) (visited : List Term) (n : Term) :
    prunedBy (mapGen σ gen) (visited.map ρ) (ρ n) = prunedBy gen visited n := by
  unfold prunedBy mapGen
  rw [dget_map hσ (List.map (Term.rename σ))]
  cases dget gen n with
  | none => rfl
  | some grp =>
    simp only [Option.map_some, List.any_map]
    apply any_congr_all
    intro x
    simp only [Function.comp]
    exact decide_eq_decide.mpr (mem_map_of_inj _ _ _ (fun y _ e => rename_injective hσ e))

theorem updateGen_map (cs : List Color) (last : Option (List Color)) (exp : List Color)
    (gen : List (Term × List Term)) :
    updateGen (g.rename σ) (cs.map mc) (last.map (List.map mc)) (exp.map mc) (mapGen σ gen) =
      mapGen σ (updateGen g cs last exp gen) := by
  unfold updateGen
  cases last with
  | none => rfl
  | some l =>
    simp only [Option.map_some]
    rw [isAutomorphism_map hσ hp, createGenerator_map hσ]
    split <;> rfl

theorem tracesStep_map (efuel : Nat) (cs : List Color) (st : TState) (n : Term) (c : Color) :
    tracesStep H HT (g.rename σ) efuel (cs.map mc) (mapState σ st) (ρ n, mc c) =
      mapState σ (tracesStep H HT g efuel cs st (n, c)) := by
  obtain ⟨best, bestExp, bestScore, last, gen, visited⟩ := st
  unfold tracesStep
  simp only [mapState, prunedBy_map hσ]
  by_cases hprn : prunedBy gen visited n = true
  · rw [if_pos hprn, if_pos hprn]
    simp
  · rw [if_neg hprn, if_neg hprn]
    rw [individuate_map hσ]
    simp only []
    rw [refineWith_rename hσ hp H HT, score_map, experimentalPath_map hσ hp H HT, updateGen_map hσ hp]
    have hany : (bestExp.map (List.map mc)).any (fun e => isAutomorphism (g.rename σ) (cs.map mc) e
        ((experimentalPath H HT g efuel (individuate cs c n).1).map mc)) =
        bestExp.any (fun e => isAutomorphism g cs e (experimentalPath H HT g efuel (individuate cs c n).1)) := by
      rw [List.any_map]
      apply any_congr_all
      intro e
      simp only [Function.comp]
      exact isAutomorphism_map hσ hp cs e _
    simp only [hany]
    cases bestScore with
    | none => simp
    | some bs =>
      simp only []
      split
      · simp
      · split
        · simp
        · simp


theorem foldl_tracesStep_map (efuel : Nat) (cs : List Color) (l : List (Term × Color)) :
    ∀ st : TState,
      (l.map (fun p => (ρ p.1, mc p.2))).foldl (tracesStep H HT (g.rename σ) efuel (cs.map mc)) (mapState σ st) =
        mapState σ (l.foldl (tracesStep H HT g efuel cs) st) := by
  induction l with
  | nil => intro st; rfl
  | cons p l ih =>
    intro st
    obtain ⟨n, c⟩ := p
    rw [List.map_cons, List.foldl_cons, List.foldl_cons, tracesStep_map hσ hp H HT]
    exact ih _

omit hp in
theorem termKeyL_map (labels : Asg) (t : Term) :
    termKeyL (labels.map (fun kv => (σ kv.1, kv.2))) (ρ t) = termKeyL labels t := by
  unfold termKeyL
  rw [rename_blank]
  by_cases hb : t.blank = true
  · have : (ρ t).id = σ t.id := by simp [Term.rename, hb]
    rw [if_pos hb, if_pos hb, this, alookup_map_inj σ t.id labels (fun k _ e => hσ e)]
  · have hb' : t.blank = false := by simpa using hb
    rw [if_neg hb, if_neg hb, rename_nonblank σ hb']

omit hp in
theorem leafKey_map (cs : List Color) : leafKey H HT (g.rename σ) (cs.map mc) = leafKey H HT g cs := by
  unfold leafKey
  simp only []
  rw [canonLabels_map σ _ (fun c => mapColor_hash _ H HT c)]
  unfold Graph.rename
  rw [List.map_map]
  congr 1
  apply map_congr_mem
  intro t _
  simp only [Function.comp, Triple.rename, termKeyL_map hσ]

omit hσ hp in
theorem maxLeaf_map (key key' : List Color → List (List Nat)) (hk : ∀ l, key' (l.map mc) = key l) :
    ∀ (xs : List (List Color)) (cur : List Color),
      maxLeaf key' (cur.map mc) (xs.map (List.map mc)) = (maxLeaf key cur xs).map mc := by
  intro xs
  induction xs with
  | nil => intro cur; rfl
  | cons x xs ih =>
    intro cur
    simp only [List.map_cons, maxLeaf, hk]
    split
    · exact ih cur
    · exact ih x

omit hσ hp in
theorem pickLeaf_map (key key' : List Color → List (List Nat)) (hk : ∀ l, key' (l.map mc) = key l)
    (dflt : List Color) (ls : List (List Color)) :
    pickLeaf key' (dflt.map mc) (ls.map (List.map mc)) = (pickLeaf key dflt ls).map mc := by
  cases ls with
  | nil => rfl
  | cons l ls => exact maxLeaf_map key key' hk ls l

theorem traces_map (efuel : Nat) : ∀ (fuel : Nat) (cs : List Color),
    traces H HT (g.rename σ) efuel fuel (cs.map mc) =
      ((traces H HT g efuel fuel cs).1.map mc, (traces H HT g efuel fuel cs).2) := by
  intro fuel
  induction fuel with
  | zero => intro cs; rfl
  | succ fuel ih =>
    intro cs
    unfold traces
    have hst : (candidates (cs.map mc)).foldl (tracesStep H HT (g.rename σ) efuel (cs.map mc)) TState.init =
        mapState σ ((candidates cs).foldl (tracesStep H HT g efuel cs) TState.init) := by
      rw [candidates_map]
      exact foldl_tracesStep_map hσ hp H HT efuel cs (candidates cs) TState.init
    simp only [hst]
    generalize (candidates cs).foldl (tracesStep H HT g efuel cs) TState.init = st
    have hbest : (mapState σ st).best = st.best.map (List.map mc) := rfl
    rw [hbest]
    have hfil : (st.best.map (List.map mc)).filter allDiscrete = (st.best.filter allDiscrete).map (List.map mc) := by
      rw [List.filter_map]
      congr 1
      apply List.filter_congr
      intro l _
      simp only [Function.comp, allDiscrete_map]
    rw [hfil]
    have hemp : ((st.best.filter allDiscrete).map (List.map mc)).isEmpty = (st.best.filter allDiscrete).isEmpty := by
      cases st.best.filter allDiscrete <;> rfl
    rw [hemp]
    have hk : ∀ l, leafKey H HT (g.rename σ) (l.map mc) = leafKey H HT g l := leafKey_map hσ H HT
    by_cases he : (st.best.filter allDiscrete).isEmpty = true
    · rw [if_pos he, if_pos he]
      have hsub : (st.best.map (List.map mc)).map (traces H HT (g.rename σ) efuel fuel) =
          (st.best.map (traces H HT g efuel fuel)).map (fun r => (r.1.map mc, r.2)) := by
        rw [List.map_map, List.map_map]
        apply map_congr_mem
        intro l _
        exact ih l
      rw [hsub]
      simp only [List.map_map]
      congr 1
      have := pickLeaf_map (leafKey H HT g) (leafKey H HT (g.rename σ)) hk cs
        ((st.best.map (traces H HT g efuel fuel)).map (·.1))
      simp only [List.map_map] at this
      exact this
    · rw [if_neg he, if_neg he]
      congr 1
      exact pickLeaf_map (leafKey H HT g) (leafKey H HT (g.rename σ)) hk cs _

theorem finalColoring_map :
    finalColoring H HT (g.rename σ) = ((finalColoring H HT g).1.map mc, (finalColoring H HT g).2) := by
  unfold finalColoring
  simp only []
  rw [refineInit_rename (fun a _ b _ e => hσ e) hp H HT, allDiscrete_map, nodeCount_map]
  split
  · rfl
  · exact traces_map hσ hp H HT _ _ _

/-- the canonical triples of the renamed graph are those of the graph, provided the final colouring labels every
    blank node (it is a discrete leaf) -/
theorem canonTraces_rename
    (hcov : ∀ a ∈ bnodes g, a ∈ keys (canonLabels (Color.hash H HT) (finalColoring H HT g).1)) :
    canonTraces H HT (g.rename σ) = canonTraces H HT g := by
  unfold canonTraces canonicalTriples
  rw [finalColoring_map hσ hp H HT]
  simp only []
  rw [canonLabels_map σ _ (fun c => mapColor_hash _ H HT c), Graph.rename_rename]
  apply Graph.rename_congr
  intro a ha
  simp only [Function.comp, Asg.fn]
  rw [alookup_map_inj σ a _ (fun k _ e => hσ e)]
  have := (alookup_isSome (m := canonLabels (Color.hash H HT) (finalColoring H HT g).1) (x := a)).mpr (hcov a ha)
  cases hl : alookup (canonLabels (Color.hash H HT) (finalColoring H HT g).1) a with
  | none => rw [hl] at this; simp at this
  | some y => rfl

end

end RV.C14
