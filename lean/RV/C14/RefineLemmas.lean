import RV.C14.Canon
import RV.C14.CanonLemmas
/-
  Lemmas about the worklist loop of `_TripleCanonicalizer._refine` (model: `refineStep`, `refinePass`, `refineLoop`,
  `mergeByHash`, `refine` of RV/C14/Canon.lean):

  * `distinguish` partitions the nodes of a colour into non-empty groups with pairwise different hashes;
  * one pass keeps the multiset of nodes, only ever splits cells, and pushes exactly one splitter per new cell;
  * hence `refineFuel` iterations suffice (`refineLoop_run`: the fuelled function computes the result of the
    fuel-free big-step semantics `RefineRun` of the `while` loop) and the result refines the input colouring.
-/
namespace RV.C14

def allNodes (cs : List Color) : List Term := cs.flatMap (·.nodes)

/-- every colour holds at least one node -/
def WFc (cs : List Color) : Prop := ∀ c ∈ cs, c.nodes ≠ []

/-- `cs'` only splits cells of `cs` -/
def SubCells (cs' cs : List Color) : Prop := ∀ c' ∈ cs', ∃ c ∈ cs, ∀ n ∈ c'.nodes, n ∈ c.nodes

theorem SubCells.refl (cs : List Color) : SubCells cs cs := fun c hc => ⟨c, hc, fun _ h => h⟩

theorem SubCells.trans {a b c : List Color} (h1 : SubCells a b) (h2 : SubCells b c) : SubCells a c := by
  intro x hx
  obtain ⟨y, hy, hxy⟩ := h1 x hx
  obtain ⟨z, hz, hyz⟩ := h2 y hy
  exact ⟨z, hz, fun n hn => hyz n (hxy n hn)⟩

theorem allNodes_perm {a b : List Color} (h : a.Perm b) : (allNodes a).Perm (allNodes b) :=
  List.Perm.flatMap_right _ h

theorem length_le_nodeCount {cs : List Color} (h : WFc cs) : cs.length ≤ nodeCount cs := by
  induction cs with
  | nil => simp
  | cons c cs ih =>
    have hc : c.nodes ≠ [] := h c List.mem_cons_self
    have := ih (fun d hd => h d (List.mem_cons_of_mem _ hd))
    have hl : 0 < c.nodes.length := List.length_pos_iff.mpr hc
    simp only [nodeCount, List.flatMap_cons, List.length_append, List.length_cons] at this ⊢
    omega

/-! ### sorting -/

theorem insertDesc_perm (H : List Item → Nat) (HT : Term → Nat) (c : Color) (l : List Color) :
    (insertDesc H HT c l).Perm (c :: l) := by
  induction l with
  | nil => exact List.Perm.refl _
  | cons d ds ih =>
    unfold insertDesc
    dsimp only
    split
    · exact (List.Perm.cons d ih).trans (List.Perm.swap c d ds)
    · exact List.Perm.refl _

theorem sortDesc_perm (H : List Item → Nat) (HT : Term → Nat) (cs : List Color) :
    (sortDesc H HT cs).Perm cs := by
  induction cs with
  | nil => exact List.Perm.refl _
  | cons c cs ih =>
    unfold sortDesc
    rw [List.foldr_cons]
    exact (insertDesc_perm H HT c _).trans (List.Perm.cons c ih)

/-! ### grouping by hash -/

def HashesNodup (H : List Item → Nat) (acc : List Color) : Prop := (acc.map (fun c => H c.items)).Nodup

/-- the update `colors[new_hash_color].nodes.append(n)` -/
def addTo (H : List Item → Nat) (k : Nat) (n : Term) (acc : List Color) : List Color :=
  acc.map (fun c => if H c.items == k then { c with nodes := c.nodes ++ [n] } else c)

theorem addTo_hashes (H : List Item → Nat) (k : Nat) (n : Term) (acc : List Color) :
    (addTo H k n acc).map (fun c => H c.items) = acc.map (fun c => H c.items) := by
  induction acc with
  | nil => rfl
  | cons c cs ih =>
    simp only [addTo, List.map_cons] at ih ⊢
    rw [ih]
    split <;> rfl

theorem addTo_noop {H : List Item → Nat} {k : Nat} {n : Term} {acc : List Color}
    (h : ∀ c ∈ acc, H c.items ≠ k) : addTo H k n acc = acc := by
  induction acc with
  | nil => rfl
  | cons c cs ih =>
    simp only [addTo, List.map_cons] at ih ⊢
    rw [ih (fun d hd => h d (List.mem_cons_of_mem _ hd))]
    have := h c List.mem_cons_self
    simp [this]

theorem addTo_nodes {H : List Item → Nat} {k : Nat} {n : Term} {acc : List Color}
    (hnd : HashesNodup H acc) (hit : ∃ c ∈ acc, H c.items = k) :
    (allNodes (addTo H k n acc)).Perm (n :: allNodes acc) := by
  induction acc with
  | nil => obtain ⟨c, hc, _⟩ := hit; simp at hc
  | cons c cs ih =>
    have hnd' : (H c.items ∉ cs.map (fun c => H c.items)) ∧ HashesNodup H cs := by
      simpa [HashesNodup] using hnd
    by_cases hk : H c.items = k
    · have hno : ∀ d ∈ cs, H d.items ≠ k := by
        intro d hd e
        exact hnd'.1 (List.mem_map.mpr ⟨d, hd, e.trans hk.symm⟩)
      have e1 : addTo H k n (c :: cs) = { c with nodes := c.nodes ++ [n] } :: cs := by
        have := addTo_noop (n := n) hno
        simp only [addTo, List.map_cons] at this ⊢
        rw [this]; simp [hk]
      rw [e1]
      simp only [allNodes, List.flatMap_cons]
      have : (c.nodes ++ [n] ++ List.flatMap (fun x => x.nodes) cs).Perm
          (n :: (c.nodes ++ List.flatMap (fun x => x.nodes) cs)) := by
        rw [List.append_assoc]
        exact (List.perm_middle (l₁ := c.nodes) (a := n) (l₂ := List.flatMap (fun x => x.nodes) cs))
      exact this
    · have hit' : ∃ d ∈ cs, H d.items = k := by
        obtain ⟨d, hd, e⟩ := hit
        rcases List.mem_cons.mp hd with rfl | hd
        · exact absurd e hk
        · exact ⟨d, hd, e⟩
      have e1 : addTo H k n (c :: cs) = c :: addTo H k n cs := by
        simp [addTo, hk]
      rw [e1]
      simp only [allNodes, List.flatMap_cons]
      have := ih hnd'.2 hit'
      simp only [allNodes] at this
      exact (List.Perm.append_left c.nodes this).trans
        (List.perm_middle (l₁ := c.nodes) (a := n) (l₂ := List.flatMap (fun x => x.nodes) cs))

theorem addTo_WFc {H : List Item → Nat} {k : Nat} {n : Term} {acc : List Color} (h : WFc acc) :
    WFc (addTo H k n acc) := by
  intro c hc
  obtain ⟨d, hd, rfl⟩ := List.mem_map.mp hc
  split
  · simp
  · exact h d hd

theorem groupByHash_eq (H : List Item → Nat) (n : Term) (its : List Item) (rest : List (Term × List Item))
    (acc : List Color) :
    groupByHash H ((n, its) :: rest) acc =
      if acc.any (fun c => H c.items == H its) then groupByHash H rest (addTo H (H its) n acc)
      else groupByHash H rest (acc ++ [⟨[n], its, none⟩]) := by
  rfl

theorem groupByHash_spec (H : List Item → Nat) (l : List (Term × List Item)) :
    ∀ acc : List Color, HashesNodup H acc → WFc acc →
      HashesNodup H (groupByHash H l acc) ∧ WFc (groupByHash H l acc) ∧
      (allNodes (groupByHash H l acc)).Perm (allNodes acc ++ l.map Prod.fst) := by
  induction l with
  | nil =>
    intro acc h1 h2
    exact ⟨h1, h2, by simp [groupByHash]⟩
  | cons x rest ih =>
    obtain ⟨n, its⟩ := x
    intro acc h1 h2
    rw [groupByHash_eq]
    split
    · rename_i hany
      have hit : ∃ c ∈ acc, H c.items = H its := by
        obtain ⟨c, hc, e⟩ := List.any_eq_true.mp hany
        exact ⟨c, hc, by simpa using e⟩
      have h1' : HashesNodup H (addTo H (H its) n acc) := by
        unfold HashesNodup; rw [addTo_hashes]; exact h1
      obtain ⟨a, b, c⟩ := ih _ h1' (addTo_WFc h2)
      refine ⟨a, b, c.trans ?_⟩
      simp only [List.map_cons]
      exact (List.Perm.append_right _ (addTo_nodes h1 hit)).trans
        (List.perm_middle (l₁ := allNodes acc) (a := n) (l₂ := rest.map Prod.fst)).symm
    · rename_i hany
      have hno : ∀ c ∈ acc, H c.items ≠ H its := by
        intro c hc e
        apply hany
        exact List.any_eq_true.mpr ⟨c, hc, by simpa using e⟩
      have h1' : HashesNodup H (acc ++ [⟨[n], its, none⟩]) := by
        unfold HashesNodup at h1 ⊢
        rw [List.map_append, List.nodup_append]
        refine ⟨h1, by simp, ?_⟩
        intro a ha b hb
        simp only [List.map_cons, List.map_nil, List.mem_singleton] at hb
        obtain ⟨c, hc, rfl⟩ := List.mem_map.mp ha
        rw [hb]
        exact hno c hc
      have h2' : WFc (acc ++ [⟨[n], its, none⟩]) := by
        intro c hc
        rcases List.mem_append.mp hc with hc | hc
        · exact h2 c hc
        · simp only [List.mem_singleton] at hc; rw [hc]; simp
      obtain ⟨a, b, c⟩ := ih _ h1' h2'
      refine ⟨a, b, c.trans ?_⟩
      simp [allNodes, List.flatMap_append]

/-- the sorted result of `c.distinguish(W, graph)` -/
def splitOf (H : List Item → Nat) (HT : Term → Nat) (g : Graph) (W c : Color) : List Color :=
  sortDesc H HT (distinguish H HT g c W)

theorem splitOf_spec (H : List Item → Nat) (HT : Term → Nat) (g : Graph) (W c : Color) :
    WFc (splitOf H HT g W c) ∧ (allNodes (splitOf H HT g W c)).Perm c.nodes ∧
    HashesNodup H (distinguish H HT g c W) := by
  obtain ⟨a, b, d⟩ := groupByHash_spec H
    (c.nodes.map (fun n => (n, c.items ++ distinguishItems (W.hash H HT) g W.nodes n))) []
    (by simp [HashesNodup]) (by intro x hx; simp at hx)
  have hp := sortDesc_perm H HT (distinguish H HT g c W)
  refine ⟨?_, ?_, a⟩
  · intro x hx
    exact b x (hp.mem_iff.mp hx)
  · refine (allNodes_perm hp).trans (d.trans ?_)
    simp [allNodes, List.map_map, Function.comp_def]

theorem splitOf_ne_nil {H : List Item → Nat} {HT : Term → Nat} {g : Graph} {W c : Color} (hc : c.nodes ≠ []) :
    splitOf H HT g W c ≠ [] := by
  intro e
  have := (splitOf_spec H HT g W c).2.1
  rw [e] at this
  simp only [allNodes, List.flatMap_nil] at this
  exact hc (List.Perm.eq_nil this.symm)

/-! ### one step / one pass -/

/-- the test `len(c.nodes) > 1 or isinstance(c.nodes[0], BNode)` -/
def activeC (c : Color) : Bool :=
  match c.nodes with
  | [] => false
  | n0 :: rest => !rest.isEmpty || n0.blank

theorem refineStep_eq (H : List Item → Nat) (HT : Term → Nat) (g : Graph) (W : Color) (P S : List Color) (c : Color) :
    refineStep H HT g W (P, S) c =
      if activeC c then
        (P.erase c ++ splitOf H HT g W c,
          if c ∈ S then replaceAt S c (splitOf H HT g W c) else (splitOf H HT g W c).tail ++ S)
      else (P, S) := by
  unfold refineStep activeC splitOf
  cases c.nodes with
  | nil => simp
  | cons n0 rest => simp only []

theorem activeC_nodes {c : Color} (h : activeC c = true) : c.nodes ≠ [] := by
  unfold activeC at h
  intro e
  rw [e] at h
  simp at h

theorem replaceAt_length {S : List Color} {c : Color} (by_ : List Color) (h : c ∈ S) :
    (replaceAt S c by_).length + 1 = S.length + by_.length := by
  induction S with
  | nil => simp at h
  | cons d ds ih =>
    unfold replaceAt
    split
    · simp only [List.length_append, List.length_cons]; omega
    · rename_i hne
      rcases List.mem_cons.mp h with rfl | h
      · exact absurd rfl hne
      · have := ih h
        simp only [List.length_cons]; omega

theorem pass_inv (H : List Item → Nat) (HT : Term → Nat) (g : Graph) (W : Color) (todo : List Color) :
    ∀ (P S rest : List Color), P.Perm (todo ++ rest) → WFc P →
      WFc (todo.foldl (refineStep H HT g W) (P, S)).1 ∧
      (allNodes (todo.foldl (refineStep H HT g W) (P, S)).1).Perm (allNodes P) ∧
      (todo.foldl (refineStep H HT g W) (P, S)).2.length + P.length =
        S.length + (todo.foldl (refineStep H HT g W) (P, S)).1.length ∧
      SubCells (todo.foldl (refineStep H HT g W) (P, S)).1 P := by
  induction todo with
  | nil =>
    intro P S rest _ hwf
    exact ⟨hwf, List.Perm.refl _, rfl, SubCells.refl _⟩
  | cons c todo ih =>
    intro P S rest hperm hwf
    rw [List.foldl_cons, refineStep_eq]
    by_cases hact : activeC c = true
    · rw [if_pos hact]
      have hcP : c ∈ P := hperm.mem_iff.mpr (by simp)
      have hcn : c.nodes ≠ [] := hwf c hcP
      obtain ⟨swf, snodes, _⟩ := splitOf_spec H HT g W c
      have sne : splitOf H HT g W c ≠ [] := splitOf_ne_nil hcn
      have hperm1 : (P.erase c ++ splitOf H HT g W c).Perm (todo ++ (rest ++ splitOf H HT g W c)) := by
        have h1 : (c :: P.erase c).Perm (c :: (todo ++ rest)) := (List.perm_cons_erase hcP).symm.trans hperm
        have h2 := List.Perm.cons_inv h1
        rw [← List.append_assoc]
        exact List.Perm.append_right _ h2
      have hwf1 : WFc (P.erase c ++ splitOf H HT g W c) := by
        intro x hx
        rcases List.mem_append.mp hx with hx | hx
        · exact hwf x (List.mem_of_mem_erase hx)
        · exact swf x hx
      have hnodes1 : (allNodes (P.erase c ++ splitOf H HT g W c)).Perm (allNodes P) := by
        have h1 : (allNodes P).Perm (c.nodes ++ allNodes (P.erase c)) := by
          have := allNodes_perm (List.perm_cons_erase hcP)
          simpa [allNodes] using this
        refine List.Perm.trans ?_ h1.symm
        simp only [allNodes, List.flatMap_append]
        exact (List.Perm.append_left _ snodes).trans List.perm_append_comm
      have hlenP : (P.erase c ++ splitOf H HT g W c).length + 1 = P.length + (splitOf H HT g W c).length := by
        rw [List.length_append, List.length_erase_of_mem hcP]
        have : 0 < P.length := List.length_pos_of_mem hcP
        omega
      have hspos : 0 < (splitOf H HT g W c).length := List.length_pos_iff.mpr sne
      have hlenS : (if c ∈ S then replaceAt S c (splitOf H HT g W c) else (splitOf H HT g W c).tail ++ S).length + 1 =
          S.length + (splitOf H HT g W c).length := by
        split
        · rename_i hin; exact replaceAt_length _ hin
        · simp only [List.length_append, List.length_tail]; omega
      have hsub1 : SubCells (P.erase c ++ splitOf H HT g W c) P := by
        intro x hx
        rcases List.mem_append.mp hx with hx | hx
        · exact ⟨x, List.mem_of_mem_erase hx, fun _ h => h⟩
        · refine ⟨c, hcP, fun n hn => ?_⟩
          apply snodes.mem_iff.mp
          exact List.mem_flatMap.mpr ⟨x, hx, hn⟩
      obtain ⟨a, b, d, e⟩ := ih _ (if c ∈ S then replaceAt S c (splitOf H HT g W c) else (splitOf H HT g W c).tail ++ S)
        _ hperm1 hwf1
      refine ⟨a, b.trans hnodes1, ?_, e.trans hsub1⟩
      omega
    · rw [if_neg hact]
      have hperm1 : P.Perm (todo ++ (c :: rest)) := hperm.trans (by simpa using List.perm_middle.symm)
      exact ih P S (c :: rest) hperm1 hwf

theorem refinePass_spec (H : List Item → Nat) (HT : Term → Nat) (g : Graph) (W : Color) (P S : List Color)
    (hwf : WFc P) :
    WFc (refinePass H HT g W P S).1 ∧
    (allNodes (refinePass H HT g W P S).1).Perm (allNodes P) ∧
    (refinePass H HT g W P S).2.length + P.length = S.length + (refinePass H HT g W P S).1.length ∧
    SubCells (refinePass H HT g W P S).1 P :=
  pass_inv H HT g W P P S [] (by simp) hwf

/-! ### the loop: fuel-free semantics, termination, refinement -/

/-- big-step semantics of `while len(sequence) > 0 and not self._discrete(coloring): W = sequence.pop(); <pass>` -/
inductive RefineRun (H : List Item → Nat) (HT : Term → Nat) (g : Graph) : List Color → List Color → List Color → Prop
  | done {P S : List Color} : refineDone P S = true → RefineRun H HT g P S P
  | step {P S R : List Color} {W : Color} : refineDone P S = false → S.getLast? = some W →
      RefineRun H HT g (refinePass H HT g W P S.dropLast).1 (refinePass H HT g W P S.dropLast).2 R →
      RefineRun H HT g P S R

theorem nodeCount_perm {a b : List Color} (h : (allNodes a).Perm (allNodes b)) : nodeCount a = nodeCount b :=
  h.length_eq

theorem refineLoop_run (H : List Item → Nat) (HT : Term → Nat) (g : Graph) :
    ∀ (fuel : Nat) (P S : List Color), WFc P → refineFuel P S ≤ fuel →
      RefineRun H HT g P S (refineLoop H HT g fuel P S) := by
  intro fuel
  induction fuel with
  | zero => intro P S _ h; simp [refineFuel] at h
  | succ fuel ih =>
    intro P S hwf hfuel
    unfold refineLoop
    by_cases hd : refineDone P S = true
    · rw [if_pos hd]; exact RefineRun.done hd
    · rw [if_neg hd]
      have hd' : refineDone P S = false := by simpa using hd
      have hne : S ≠ [] := by
        intro e; rw [e] at hd; simp [refineDone] at hd
      obtain ⟨W, hW⟩ : ∃ W, S.getLast? = some W := by
        cases hS : S.getLast? with
        | none => exact absurd (List.getLast?_eq_none_iff.mp hS) hne
        | some W => exact ⟨W, rfl⟩
      rw [hW]
      obtain ⟨a, b, c, _⟩ := refinePass_spec H HT g W P S.dropLast hwf
      refine RefineRun.step hd' hW (ih _ _ a ?_)
      have h1 := length_le_nodeCount hwf
      have h2 := length_le_nodeCount a
      have h3 := nodeCount_perm b
      have h4 : S.dropLast.length + 1 = S.length := by
        rw [List.length_dropLast]
        have : 0 < S.length := List.length_pos_iff.mpr hne
        omega
      unfold refineFuel at hfuel ⊢
      omega

theorem refineLoop_spec (H : List Item → Nat) (HT : Term → Nat) (g : Graph) :
    ∀ (fuel : Nat) (P S : List Color), WFc P →
      WFc (refineLoop H HT g fuel P S) ∧ (allNodes (refineLoop H HT g fuel P S)).Perm (allNodes P) ∧
      SubCells (refineLoop H HT g fuel P S) P := by
  intro fuel
  induction fuel with
  | zero => intro P S hwf; exact ⟨hwf, List.Perm.refl _, SubCells.refl _⟩
  | succ fuel ih =>
    intro P S hwf
    unfold refineLoop
    split
    · exact ⟨hwf, List.Perm.refl _, SubCells.refl _⟩
    · split
      · exact ⟨hwf, List.Perm.refl _, SubCells.refl _⟩
      · rename_i W _
        obtain ⟨a, b, _, d⟩ := refinePass_spec H HT g W P S.dropLast hwf
        obtain ⟨a', b', d'⟩ := ih _ (refinePass H HT g W P S.dropLast).2 a
        exact ⟨a', b'.trans b, d'.trans d⟩

/-- the final merge changes nothing when the colour hashes are pairwise distinct -/
theorem mergeByHash_id (H : List Item → Nat) (HT : Term → Nat) (cs : List Color) :
    ∀ acc : List Color, ((acc ++ cs).map (Color.hash H HT)).Nodup → mergeByHash H HT cs acc = acc ++ cs := by
  induction cs with
  | nil => intro acc _; simp [mergeByHash]
  | cons c cs ih =>
    intro acc hnd
    unfold mergeByHash
    have hno : acc.any (fun d => d.hash H HT == c.hash H HT) = false := by
      rw [Bool.eq_false_iff]
      intro hany
      obtain ⟨d, hd, e⟩ := List.any_eq_true.mp hany
      have e' : d.hash H HT = c.hash H HT := by simpa using e
      rw [List.map_append, List.map_cons, List.nodup_append] at hnd
      exact hnd.2.2 _ (List.mem_map.mpr ⟨d, hd, rfl⟩) _ List.mem_cons_self e'
    simp only [hno]
    have := ih (acc ++ [c]) (by simpa using hnd)
    simpa using this

theorem sortDesc_length (H : List Item → Nat) (HT : Term → Nat) (cs : List Color) :
    (sortDesc H HT cs).length = cs.length := (sortDesc_perm H HT cs).length_eq

end RV.C14

namespace RV.C14

theorem RefineRun_det {H : List Item → Nat} {HT : Term → Nat} {g : Graph} {P S R R' : List Color}
    (h : RefineRun H HT g P S R) (h' : RefineRun H HT g P S R') : R = R' := by
  induction h with
  | done hd =>
    cases h' with
    | done _ => rfl
    | step hd' _ _ => rw [hd] at hd'; cases hd'
  | step hd hW _ ih =>
    cases h' with
    | done hd' => rw [hd] at hd'; cases hd'
    | step _ hW' hr =>
      rw [hW] at hW'
      cases hW'
      exact ih hr

theorem foldl_tinsert_ne_nil (l : List Term) : ∀ acc : List Term, acc ≠ [] → l.foldl tinsert acc ≠ [] := by
  induction l with
  | nil => intro acc h; exact h
  | cons x xs ih =>
    intro acc h
    rw [List.foldl_cons]
    apply ih
    unfold tinsert
    split
    · exact h
    · simp

theorem initialColor_wf (g : Graph) : WFc (initialColor g) := by
  intro c hc
  unfold initialColor at hc
  dsimp only at hc
  split at hc
  · simp at hc
  · rename_i hne
    rcases List.mem_cons.mp hc with rfl | hc
    · intro e
      apply hne
      simp only [] at e
      rw [e]; rfl
    · obtain ⟨x, _, rfl⟩ := List.mem_map.mp hc
      simp

end RV.C14
