import RV.C14.Canon
import RV.C14.Search
/-
  C14 part F — model of the individualisation search of `rdflib/compare.py:_TripleCanonicalizer`
  (`_get_candidates`, `_individuate`, `_experimental_path`, `_is_automorphism`, `_create_generator`, `_traces`,
  `_leaf_key`, and the search branch of `canonical_triples`), as repaired by C14-F2 / C14-F3.

  Python objects → values: a colouring is a `List Color`; `coloring_copy` / `c.copy()` are the values themselves;
  `color_copy` is found by structural equality (cells of a colouring are pairwise different);
  `generator : dict[Node, set[Node]]` and `mapping : dict[Node, Node]` are association lists with dict semantics
  (`dset`: a later assignment replaces the entry); `visited : set[Node]` is a list read as a set.
  Loops that Python runs until a condition holds get fuel (`experimentalPath`, the recursion depth of `traces`).

  Deviations (documented in design.d/C14.md): the leaf key orders the label-free serialisation by numeric term codes,
  Python by n3 text — both are total orders on label-independent data; colours whose node list is empty cannot occur and
  are skipped where Python would raise; the in-place `nodes.extend` of `_refine`'s collision merge on shared `Color`
  objects is not modelled (values are not shared).
-/
namespace RV.C14

/-- `_get_candidates`: `(node, colour)` for every node of every non-discrete colour, in colouring / node order -/
def candidates (cs : List Color) : List (Term × Color) :=
  (cs.filter (fun c => !c.discrete)).flatMap (fun c => c.nodes.map (fun n => (n, c)))

/-- `_individuate(color_copy, candidate)` followed by `coloring_copy.append(new_color)`:
    the colour loses the node, the new singleton colour carries the old tuple plus `(len(color.nodes),)` -/
def individuate (cs : List Color) (c : Color) (n : Term) : List Color × Color :=
  let newC : Color := ⟨[n], c.items ++ [Item.indiv c.nodes.length], none⟩
  (cs.map (fun d => if d = c then { d with nodes := d.nodes.erase n } else d) ++ [newC], newC)

/-- `self._refine(coloring, [new_color])` with the fuel that suffices -/
def refineWith (H : List Item → Nat) (HT : Term → Nat) (g : Graph) (cs : List Color) (nc : Color) : List Color :=
  refine H HT g (refineFuel cs [nc]) cs [nc]

def allDiscrete (cs : List Color) : Bool := cs.all Color.discrete

/-- `_experimental_path`: individualise the first node of the first non-discrete colour and refine, until discrete -/
def experimentalPath (H : List Item → Nat) (HT : Term → Nat) (g : Graph) : Nat → List Color → List Color
  | 0, cs => cs
  | fuel + 1, cs =>
    match cs.filter (fun c => !c.discrete) with
    | [] => cs
    | c :: _ =>
      match c.nodes with
      | [] => cs
      | n :: _ =>
        let st := individuate cs c n
        experimentalPath H HT g fuel (refineWith H HT g st.1 st.2)

/-! ### dict helpers -/

def dset {β : Type} (m : List (Term × β)) (k : Term) (v : β) : List (Term × β) :=
  m.filter (fun kv => !decide (kv.1 = k)) ++ [(k, v)]

def dget {β : Type} : List (Term × β) → Term → Option β
  | [], _ => none
  | (k, v) :: m, x => if k = x then some v else dget m x

/-- `{n: i for i, c in enumerate(coloring) for n in c.nodes}.get(x)`: the LAST colour holding `x` -/
def cellIdx : List Color → Nat → Term → Option Nat
  | [], _, _ => none
  | c :: cs, i, n =>
    match cellIdx cs (i + 1) n with
    | some j => some j
    | none => if n ∈ c.nodes then some i else none

/-- the pairs `(color_a.nodes[0], color_b.nodes[0])` of `zip(a, b)` -/
def firstPairs : List Color → List Color → List (Term × Term)
  | a :: as, b :: bs =>
    match a.nodes, b.nodes with
    | x :: _, y :: _ => (x, y) :: firstPairs as bs
    | _, _ => firstPairs as bs
  | _, _ => []

def valuesDistinct : List (Term × Term) → Bool
  | [] => true
  | (_, v) :: m => !(m.any (fun kv => decide (kv.2 = v))) && valuesDistinct m

def applyMap (m : List (Term × Term)) (t : Term) : Term := (dget m t).getD t

/-- `_is_automorphism(coloring, a, b)` -/
def isAutomorphism (g : Graph) (cs a b : List Color) : Bool :=
  let ps := firstPairs a b
  let m := ps.foldl (fun m p => dset m p.1 p.2) []
  a.length == b.length &&
  ps.all (fun p => cellIdx cs 0 p.1 == cellIdx cs 0 p.2) &&
  valuesDistinct m &&
  g.all (fun t => decide ((applyMap m t.1, applyMap m t.2.1, applyMap m t.2.2) ∈ g))

/-- `_create_generator([last, experimental], generator)`: for every paired position the two first nodes are put into one
    group (`groupings[n]` in the code is indexed by the `Color` objects of the group, so it never contributes) -/
def createGenerator (a b : List Color) (gen : List (Term × List Term)) : List (Term × List Term) :=
  (firstPairs a b).foldl (fun gen p =>
    let s := if p.1 = p.2 then [p.1] else [p.1, p.2]
    dset (dset gen p.1 s) p.2 s) gen

/-- `color_score = tuple(c.key() for c in refined_coloring)` -/
def score (H : List Item → Nat) (HT : Term → Nat) (cs : List Color) : List (Nat × Nat) := cs.map (Color.key H HT)

/-- Python's `<` on tuples of `(int, str)` pairs -/
def scoreLt : List (Nat × Nat) → List (Nat × Nat) → Bool
  | [], [] => false
  | [], _ :: _ => true
  | _ :: _, [] => false
  | a :: as, b :: bs =>
    if a = b then scoreLt as bs else decide (a.1 < b.1) || (a.1 == b.1 && decide (a.2 < b.2))

structure TState where
  best : List (List Color)
  bestExp : List (List Color)
  bestScore : Option (List (Nat × Nat))
  last : Option (List Color)
  gen : List (Term × List Term)
  visited : List Term

def TState.init : TState := ⟨[], [], none, none, [], []⟩

/-- `candidate in generator and len(generator[candidate] & visited) > 0` -/
def prunedBy (gen : List (Term × List Term)) (visited : List Term) (n : Term) : Bool :=
  match dget gen n with
  | some grp => grp.any (fun x => decide (x ∈ visited))
  | none => false

/-- `if last_coloring and self._is_automorphism(coloring, last_coloring, experimental): generator = …` -/
def updateGen (g : Graph) (cs : List Color) (last : Option (List Color)) (exp : List Color)
    (gen : List (Term × List Term)) : List (Term × List Term) :=
  match last with
  | some l => if isAutomorphism g cs l exp then createGenerator l exp gen else gen
  | none => gen

/-- body of `for candidate, color in candidates` in `_traces` -/
def tracesStep (H : List Item → Nat) (HT : Term → Nat) (g : Graph) (efuel : Nat) (cs : List Color)
    (st : TState) (cand : Term × Color) : TState :=
  if prunedBy st.gen st.visited cand.1 then { st with visited := st.visited ++ [cand.1] }
  else
    let ind := individuate cs cand.2 cand.1
    let refined := refineWith H HT g ind.1 ind.2
    let sc := score H HT refined
    let exp := experimentalPath H HT g efuel ind.1
    let st' : TState := { st with visited := st.visited ++ [cand.1], last := some exp,
                                  gen := updateGen g cs st.last exp st.gen }
    match st.bestScore with
    | none => { st' with best := [refined], bestExp := [exp], bestScore := some sc }
    | some bs =>
      if scoreLt bs sc then { st' with best := [refined], bestExp := [exp], bestScore := some sc }
      else if scoreLt sc bs || st.bestExp.any (fun e => isAutomorphism g cs e exp) then st'
      else { st' with best := st.best ++ [refined], bestExp := st.bestExp ++ [exp] }

/-! ### leaves -/

def termKeyL (labels : Asg) (t : Term) : List Nat :=
  if t.blank then [1, (alookup labels t.id).getD 0] else [0, t.id]

/-- `_leaf_key`: the sorted label-free serialisation of the graph under the labels of the colouring -/
def leafKey (H : List Item → Nat) (HT : Term → Nat) (g : Graph) (cs : List Color) : List (List Nat) :=
  let labels := canonLabels (Color.hash H HT) cs
  isort keyLe (g.map (fun t => termKeyL labels t.1 ++ (termKeyL labels t.2.1 ++ termKeyL labels t.2.2)))

/-- `max(leaves, key=…)`: the first maximal element -/
def maxLeaf (key : List Color → List (List Nat)) : List Color → List (List Color) → List Color
  | cur, [] => cur
  | cur, x :: xs => if leafLe (key x) (key cur) then maxLeaf key cur xs else maxLeaf key x xs

/-- `leaves[0]` if there is one leaf, `max(leaves, key=self._leaf_key)` otherwise (`dflt` only if there is none) -/
def pickLeaf (key : List Color → List (List Nat)) (dflt : List Color) : List (List Color) → List Color
  | [] => dflt
  | l :: ls => maxLeaf key l ls

/-- `_traces(coloring)`; the second component counts the calls (`stats["individuations"]`) -/
def traces (H : List Item → Nat) (HT : Term → Nat) (g : Graph) (efuel : Nat) : Nat → List Color → List Color × Nat
  | 0, cs => (cs, 1)
  | fuel + 1, cs =>
    let st := (candidates cs).foldl (tracesStep H HT g efuel cs) TState.init
    let direct := st.best.filter allDiscrete
    if direct.isEmpty then
      let sub := st.best.map (traces H HT g efuel fuel)
      (pickLeaf (leafKey H HT g) cs (sub.map (·.1)), 1 + (sub.map (·.2)).foldl (· + ·) 0)
    else (pickLeaf (leafKey H HT g) cs direct, 1)

/-- the final colouring of `canonical_triples` and the number of `_traces` calls -/
def finalColoring (H : List Item → Nat) (HT : Term → Nat) (g : Graph) : List Color × Nat :=
  let cs := refineInit H HT g
  if allDiscrete cs then (cs, 0) else traces H HT g (nodeCount cs) (nodeCount cs) cs

/-- `canonical_triples` -/
def canonTraces (H : List Item → Nat) (HT : Term → Nat) (g : Graph) : Graph :=
  canonicalTriples (canonLabels (Color.hash H HT) (finalColoring H HT g).1) g

end RV.C14
