import RV.C14.SortLemmas
import RV.C14.CanonLemmas
/-
  Lemmas for the exhaustive search `canonSearch`: every stage (initial colours, refinement rounds, discreteness test,
  leaf, target cell, candidates, recursion) is equivariant under an isomorphism; leaves are injective relabellings.
-/
namespace RV.C14

/-- `H` only depends on the multiset of items (in the code it is a sum of hashes) -/
def PermInv (Hs : Hashes) : Prop := ∀ (c : Nat) (a b : List Nat), a.Perm b → Hs.H c a = Hs.H c b

/-! ### small list facts -/

theorem nodup_map_of_injOn {α β : Type} {f : α → β} : ∀ {l : List α}, l.Nodup →
    (∀ a ∈ l, ∀ b ∈ l, f a = f b → a = b) → (l.map f).Nodup := by
  intro l
  induction l with
  | nil => intro _ _; simp
  | cons x xs ih =>
    intro hnd hinj
    rw [List.nodup_cons] at hnd
    rw [List.map_cons, List.nodup_cons]
    refine ⟨?_, ih hnd.2 (fun a ha b hb => hinj a (List.mem_cons_of_mem _ ha) b (List.mem_cons_of_mem _ hb))⟩
    intro hm
    obtain ⟨y, hy, hxy⟩ := List.mem_map.mp hm
    have := hinj y (List.mem_cons_of_mem _ hy) x List.mem_cons_self hxy
    exact hnd.1 (this ▸ hy)

theorem injOn_of_nodup_map {α β : Type} {f : α → β} : ∀ {l : List α}, (l.map f).Nodup →
    ∀ a ∈ l, ∀ b ∈ l, f a = f b → a = b := by
  intro l
  induction l with
  | nil => intro _ a ha; cases ha
  | cons x xs ih =>
    intro hnd a ha b hb hab
    rw [List.map_cons, List.nodup_cons] at hnd
    rcases List.mem_cons.mp ha with e1 | ha <;> rcases List.mem_cons.mp hb with e2 | hb
    · rw [e1, e2]
    · rw [e1] at hab
      exact absurd (List.mem_map.mpr ⟨b, hb, hab.symm⟩) hnd.1
    · rw [e2] at hab
      exact absurd (List.mem_map.mpr ⟨a, ha, hab⟩) hnd.1
    · exact ih hnd.2 a ha b hb hab

theorem nodupB_iff {l : List Nat} : nodupB l = true ↔ l.Nodup := by
  induction l with
  | nil => simp [nodupB]
  | cons x xs ih => simp [nodupB, ih]

theorem alookup_map_self (f : Nat → Nat) : ∀ {l : List Nat} {x : Nat}, x ∈ l →
    alookup (l.map (fun n => (n, f n))) x = some (f x) := by
  intro l
  induction l with
  | nil => intro x hx; cases hx
  | cons y ys ih =>
    intro x hx
    simp only [List.map_cons, alookup]
    split
    · next e => rw [e]
    · next e =>
      rcases List.mem_cons.mp hx with rfl | hx
      · exact absurd rfl e
      · exact ih hx

theorem colAt_map_self (f : Nat → Nat) {l : List Nat} {x : Nat} (hx : x ∈ l) :
    colAt (l.map (fun n => (n, f n))) x = f x := by
  simp [colAt, alookup_map_self f hx]

theorem minOf_le : ∀ {l : List Nat} {x : Nat}, x ∈ l → minOf l ≤ x := by
  intro l
  induction l with
  | nil => intro x hx; cases hx
  | cons a t ih =>
    intro x hx
    cases t with
    | nil => simp at hx; subst hx; simp [minOf]
    | cons b t' =>
      simp only [minOf]
      rcases List.mem_cons.mp hx with rfl | hx
      · exact Nat.min_le_left _ _
      · exact Nat.le_trans (Nat.min_le_right _ _) (ih hx)

theorem minOf_mem : ∀ {l : List Nat}, l ≠ [] → minOf l ∈ l := by
  intro l
  induction l with
  | nil => intro h; exact absurd rfl h
  | cons a t ih =>
    intro _
    cases t with
    | nil => simp [minOf]
    | cons b t' =>
      simp only [minOf]
      have := ih (by simp)
      rcases Nat.le_total a (minOf (b :: t')) with h | h
      · rw [Nat.min_eq_left h]; exact List.mem_cons_self
      · rw [Nat.min_eq_right h]; exact List.mem_cons_of_mem _ this

theorem minOf_perm {l1 l2 : List Nat} (hp : l1.Perm l2) : minOf l1 = minOf l2 := by
  cases l1 with
  | nil => rw [List.Perm.nil_eq hp]
  | cons a t =>
    have h2 : l2 ≠ [] := by
      intro e; subst e; exact absurd hp.length_eq (by simp)
    have m1 := minOf_mem (l := a :: t) (by simp)
    have m2 := minOf_mem h2
    have := minOf_le (hp.mem_iff.mp m1)
    have := minOf_le (hp.mem_iff.mpr m2)
    omega

theorem targetColour_perm {c1 c2 : List Nat} (hp : c1.Perm c2) : targetColour c1 = targetColour c2 := by
  unfold targetColour
  have hf : (fun v => decide (2 ≤ c1.count v)) = (fun v => decide (2 ≤ c2.count v)) := by
    funext v; rw [hp.count_eq v]
  rw [hf]
  exact minOf_perm (hp.filter _)

theorem idxOf_map {π : Nat → Nat} {S : List Nat} (hinj : InjOn π S) :
    ∀ (ind : List Nat), (∀ x ∈ ind, x ∈ S) → ∀ n ∈ S, idxOf (ind.map π) (π n) = idxOf ind n := by
  intro ind
  induction ind with
  | nil => intro _ n _; rfl
  | cons x xs ih =>
    intro hS n hn
    have ih' := ih (fun y hy => hS y (List.mem_cons_of_mem _ hy)) n hn
    simp only [List.map_cons, idxOf]
    by_cases e : x = n
    · subst e; simp
    · have : ¬ π x = π n := fun h => e (hinj x (hS x List.mem_cons_self) n hn h)
      simp only [if_neg e, if_neg this, ih']

/-! ### the isomorphism data -/

structure IsoData (π : Nat → Nat) (g h : Graph) : Prop where
  inj : InjOn π (bnodes g)
  perm : h.Perm (g.rename π)
  nbp : NoBlankPred g

theorem bnode_term_mem_gterms {g : Graph} {n : Nat} (hn : n ∈ bnodes g) : (⟨true, n⟩ : Term) ∈ gterms g := by
  obtain ⟨t, ht, h⟩ := mem_bnodes.mp hn
  have key : ∀ x : Term, n ∈ x.bn → x = ⟨true, n⟩ := by
    intro x hx
    unfold Term.bn at hx
    cases hb : x.blank
    · simp [hb] at hx
    · simp [hb] at hx
      cases x; simp_all
  simp only [Triple.bn, List.mem_append] at h
  refine mem_gterms.mpr ⟨t, ht, ?_⟩
  rcases h with h | h | h
  · exact Or.inl (key _ h).symm
  · exact Or.inr (Or.inl (key _ h).symm)
  · exact Or.inr (Or.inr (key _ h).symm)

theorem IsoData.setEq {π : Nat → Nat} {g h : Graph} (d : IsoData π g h) : SetEq (g.rename π) h :=
  fun t => d.perm.mem_iff.symm

theorem IsoData.maps {π : Nat → Nat} {g h : Graph} (d : IsoData π g h) {a : Nat} (ha : a ∈ bnodes g) :
    π a ∈ nodesOf h := mem_dedup.mpr (image_maps d.setEq a ha)

theorem IsoData.nodes_perm {π : Nat → Nat} {g h : Graph} (d : IsoData π g h) :
    (nodesOf h).Perm ((nodesOf g).map π) := by
  have hnd : ((nodesOf g).map π).Nodup :=
    nodup_map_of_injOn (nodup_dedup _) (fun a ha b hb => d.inj a (mem_dedup.mp ha) b (mem_dedup.mp hb))
  refine (List.perm_ext_iff_of_nodup (nodup_dedup _) hnd).mpr ?_
  intro b
  simp only [nodesOf, mem_dedup, List.mem_map]
  constructor
  · intro hb
    obtain ⟨a, ha, e⟩ := image_surj d.setEq b hb
    exact ⟨a, ha, e⟩
  · rintro ⟨a, ha, rfl⟩
    exact image_maps d.setEq a ha

/-- the two colour tables agree along `π` -/
def TblEq (π : Nat → Nat) (g : Graph) (tg th : Asg) : Prop := ∀ n ∈ bnodes g, colAt th (π n) = colAt tg n

theorem nodeItems_equiv (Hs : Hashes) {π : Nat → Nat} {g h : Graph} (d : IsoData π g h) {cg ch : Nat → Nat}
    (hc : ∀ m ∈ bnodes g, ch (π m) = cg m) {n : Nat} (hn : n ∈ bnodes g) :
    (nodeItems Hs h ch (π n)).Perm (nodeItems Hs g cg n) := by
  have hnt := bnode_term_mem_gterms hn
  have hren : (⟨true, π n⟩ : Term) = Term.rename π ⟨true, n⟩ := by simp [Term.rename]
  have hpred : ∀ t ∈ g, (t.rename π).2.1 = t.2.1 := by
    intro t ht
    simp [Triple.rename, Term.rename, d.nbp t ht]
  have hcol : ∀ x ∈ gterms g, termCol Hs ch (x.rename π) = termCol Hs cg x := by
    intro x hx
    unfold termCol Term.rename
    cases hb : x.blank
    · simp [hb]
    · simp [hc x.id (blank_id_mem_bnodes hx hb)]
  unfold nodeItems
  apply List.Perm.append
  · refine (List.Perm.filterMap _ d.perm).trans ?_
    unfold Graph.rename
    rw [List.filterMap_map]
    apply List.Perm.of_eq
    apply filterMap_congr_mem
    intro t ht
    have h1 : t.1 ∈ gterms g := mem_gterms.mpr ⟨t, ht, Or.inl rfl⟩
    have h3 : t.2.2 ∈ gterms g := mem_gterms.mpr ⟨t, ht, Or.inr (Or.inr rfl)⟩
    simp only [Function.comp]
    by_cases hcnd : t.1 = ⟨true, n⟩
    · have : (t.rename π).1 = ⟨true, π n⟩ := by rw [hren, ← hcnd]; rfl
      rw [if_pos this, if_pos hcnd, hpred t ht]
      have : (t.rename π).2.2 = t.2.2.rename π := rfl
      rw [this, hcol _ h3]
    · have : ¬ (t.rename π).1 = ⟨true, π n⟩ := by
        intro e
        rw [hren] at e
        exact hcnd (term_rename_inj d.inj h1 hnt e)
      rw [if_neg this, if_neg hcnd]
  · refine (List.Perm.filterMap _ d.perm).trans ?_
    unfold Graph.rename
    rw [List.filterMap_map]
    apply List.Perm.of_eq
    apply filterMap_congr_mem
    intro t ht
    have h1 : t.1 ∈ gterms g := mem_gterms.mpr ⟨t, ht, Or.inl rfl⟩
    have h3 : t.2.2 ∈ gterms g := mem_gterms.mpr ⟨t, ht, Or.inr (Or.inr rfl)⟩
    simp only [Function.comp]
    by_cases hcnd : t.2.2 = ⟨true, n⟩
    · have : (t.rename π).2.2 = ⟨true, π n⟩ := by rw [hren, ← hcnd]; rfl
      rw [if_pos this, if_pos hcnd, hpred t ht]
      have : (t.rename π).1 = t.1.rename π := rfl
      rw [this, hcol _ h1]
    · have : ¬ (t.rename π).2.2 = ⟨true, π n⟩ := by
        intro e
        rw [hren] at e
        exact hcnd (term_rename_inj d.inj h3 hnt e)
      rw [if_neg this, if_neg hcnd]

theorem initTable_equiv (Hs : Hashes) {π : Nat → Nat} {g h : Graph} (d : IsoData π g h) {ind : List Nat}
    (hind : ∀ x ∈ ind, x ∈ bnodes g) :
    TblEq π g (initTable Hs (nodesOf g) ind) (initTable Hs (nodesOf h) (ind.map π)) := by
  intro n hn
  unfold initTable
  rw [colAt_map_self (fun n => Hs.HInd (idxOf (ind.map π) n)) (d.maps hn),
    colAt_map_self (fun n => Hs.HInd (idxOf ind n)) (show n ∈ nodesOf g from mem_dedup.mpr hn), idxOf_map d.inj ind hind n hn]

theorem stepTable_equiv (Hs : Hashes) (hH : PermInv Hs) {π : Nat → Nat} {g h : Graph} (d : IsoData π g h)
    {tg th : Asg} (e : TblEq π g tg th) :
    TblEq π g (stepTable Hs g (nodesOf g) tg) (stepTable Hs h (nodesOf h) th) := by
  intro n hn
  unfold stepTable
  rw [colAt_map_self (fun n => Hs.H (colAt th n) (nodeItems Hs h (colAt th) n)) (d.maps hn),
    colAt_map_self (fun n => Hs.H (colAt tg n) (nodeItems Hs g (colAt tg) n)) (show n ∈ nodesOf g from mem_dedup.mpr hn), e n hn]
  exact hH _ _ _ (nodeItems_equiv Hs d e hn)

theorem iterTable_equiv (Hs : Hashes) (hH : PermInv Hs) {π : Nat → Nat} {g h : Graph} (d : IsoData π g h) :
    ∀ (k : Nat) {tg th : Asg}, TblEq π g tg th →
      TblEq π g (iterTable Hs g (nodesOf g) k tg) (iterTable Hs h (nodesOf h) k th) := by
  intro k
  induction k with
  | zero => intro tg th e; exact e
  | succ k ih => intro tg th e; exact ih (stepTable_equiv Hs hH d e)

theorem refinedTable_equiv (Hs : Hashes) (hH : PermInv Hs) {π : Nat → Nat} {g h : Graph} (d : IsoData π g h)
    {ind : List Nat} (hind : ∀ x ∈ ind, x ∈ bnodes g) :
    TblEq π g (refinedTable Hs g ind) (refinedTable Hs h (ind.map π)) := by
  unfold refinedTable
  have hl : (nodesOf h).length = (nodesOf g).length := by
    rw [d.nodes_perm.length_eq, List.length_map]
  rw [hl]
  exact iterTable_equiv Hs hH d _ (initTable_equiv Hs d hind)

/-! ### consequences of agreeing tables -/

section agree
variable {π : Nat → Nat} {g h : Graph} (d : IsoData π g h) {tg th : Asg} (e : TblEq π g tg th)
include d e

theorem cols_perm : ((nodesOf h).map (colAt th)).Perm ((nodesOf g).map (colAt tg)) := by
  refine (d.nodes_perm.map _).trans ?_
  rw [List.map_map]
  apply List.Perm.of_eq
  apply List.map_congr_left
  intro n hn
  exact e n (mem_dedup.mp hn)

theorem discrete_equiv : discreteTbl (nodesOf h) th = discreteTbl (nodesOf g) tg := by
  unfold discreteTbl
  rw [Bool.eq_iff_iff, nodupB_iff, nodupB_iff]
  exact (cols_perm d e).nodup_iff

theorem leaf_equiv : leafOf h (colAt th) = leafOf g (colAt tg) := by
  unfold leafOf
  apply isort_perm_eq keyLe_order
  refine ((d.perm.map (Triple.rename (colAt th))).map Triple.key).trans ?_
  apply List.Perm.of_eq
  have h1 : (g.rename π).map (Triple.rename (colAt th)) = (g.rename π).rename (colAt th) := rfl
  have h2 : h.rename (colAt th) = h.map (Triple.rename (colAt th)) := rfl
  rw [h1, Graph.rename_rename, Graph.rename_congr (σ := colAt th ∘ π) (τ := colAt tg) (fun a ha => e a ha)]

theorem candidates_perm :
    (candidatesTbl (nodesOf h) th).Perm ((candidatesTbl (nodesOf g) tg).map π) := by
  unfold candidatesTbl
  simp only []
  rw [targetColour_perm (cols_perm d e)]
  refine (d.nodes_perm.filter _).trans ?_
  rw [List.filter_map]
  apply List.Perm.of_eq
  congr 1
  apply List.filter_congr
  intro n hn
  simp only [Function.comp, e n (mem_dedup.mp hn)]

end agree

/-! ### the search is equivariant -/

theorem leaves_equivariant (Hs : Hashes) (hH : PermInv Hs) {π : Nat → Nat} {g h : Graph} (d : IsoData π g h) :
    ∀ (fuel : Nat) (ind : List Nat), (∀ x ∈ ind, x ∈ bnodes g) →
      (leaves Hs h fuel (ind.map π)).Perm (leaves Hs g fuel ind) := by
  intro fuel
  induction fuel with
  | zero =>
    intro ind hind
    have e := refinedTable_equiv Hs hH d hind
    simp only [leaves, discrete_equiv d e, leaf_equiv d e]
    exact List.Perm.refl _
  | succ fuel ih =>
    intro ind hind
    have e := refinedTable_equiv Hs hH d hind
    simp only [leaves, discrete_equiv d e, leaf_equiv d e]
    split
    · exact List.Perm.refl _
    · refine (List.Perm.flatMap_right _ (candidates_perm d e)).trans ?_
      rw [List.flatMap_map]
      apply flatMap_perm_congr
      intro x hx
      have hxg : x ∈ bnodes g := by
        unfold candidatesTbl at hx
        exact mem_dedup.mp (List.mem_filter.mp hx).1
      have := ih (ind ++ [x]) (by
        intro y hy
        rcases List.mem_append.mp hy with hy | hy
        · exact hind y hy
        · simp at hy; subst hy; exact hxg)
      rw [List.map_append] at this
      exact this

theorem canonSearch_eq_of_isoData (Hs : Hashes) (hH : PermInv Hs) {π : Nat → Nat} {g h : Graph}
    (d : IsoData π g h) : canonSearch Hs h = canonSearch Hs g := by
  unfold canonSearch
  have hl : (nodesOf h).length = (nodesOf g).length := by
    rw [d.nodes_perm.length_eq, List.length_map]
  rw [hl]
  have := leaves_equivariant Hs hH d (nodesOf g).length [] (by intro x hx; cases hx)
  simp only [List.map_nil] at this
  rw [isort_perm_eq leafLe_order this]

/-! ### leaves are injective relabellings -/

theorem leaves_form (Hs : Hashes) (g : Graph) : ∀ (fuel : Nat) (ind : List Nat) (L : List (List Nat)),
    L ∈ leaves Hs g fuel ind → ∃ tbl : Asg, discreteTbl (nodesOf g) tbl = true ∧ L = leafOf g (colAt tbl) := by
  intro fuel
  induction fuel with
  | zero =>
    intro ind L hL
    simp only [leaves] at hL
    split at hL
    · next hd => simp at hL; exact ⟨_, hd, hL⟩
    · cases hL
  | succ fuel ih =>
    intro ind L hL
    simp only [leaves] at hL
    split at hL
    · next hd => simp at hL; exact ⟨_, hd, hL⟩
    · obtain ⟨x, _, hx⟩ := List.mem_flatMap.mp hL
      exact ih _ L hx

theorem Term.key_inj {a b : Term} (h : a.key = b.key) : a = b := by
  unfold Term.key at h
  simp only [List.cons.injEq, and_true] at h
  obtain ⟨h1, h2⟩ := h
  cases a; cases b
  simp only [Term.mk.injEq]
  refine ⟨?_, h2⟩
  simp only at h1
  rename_i ba _ bb _
  cases ba <;> cases bb <;> simp_all

theorem Triple.key_inj {a b : Triple} (h : a.key = b.key) : a = b := by
  unfold Triple.key at h
  have l1 : a.1.key.length = b.1.key.length := by simp [Term.key]
  have h1 := List.append_inj h l1
  have l2 : a.2.1.key.length = b.2.1.key.length := by simp [Term.key]
  have h2 := List.append_inj h1.2 l2
  obtain ⟨a1, a2, a3⟩ := a
  obtain ⟨b1, b2, b3⟩ := b
  simp only at h1 h2
  rw [Term.key_inj h1.1, Term.key_inj h2.1, Term.key_inj h2.2]

theorem setEq_of_leaf_eq {g h : Graph} {c c' : Nat → Nat} (e : leafOf g c = leafOf h c') :
    SetEq (g.rename c) (h.rename c') := by
  intro t
  have hp : ((g.rename c).map Triple.key).Perm ((h.rename c').map Triple.key) := by
    have := (perm_isort (le := keyLe) ((g.rename c).map Triple.key)).symm
    unfold leafOf at e
    rw [e] at this
    exact this.trans (perm_isort _)
  have hm := hp.mem_iff (a := t.key)
  simp only [List.mem_map] at hm
  constructor
  · intro ht
    obtain ⟨t', ht', e'⟩ := hm.mp ⟨t, ht, rfl⟩
    rw [← Triple.key_inj e']; exact ht'
  · intro ht
    obtain ⟨t', ht', e'⟩ := hm.mpr ⟨t, ht, rfl⟩
    rw [← Triple.key_inj e']; exact ht'

theorem rawIso_of_discrete {g : Graph} {tbl : Asg} (hd : discreteTbl (nodesOf g) tbl = true) :
    RawIso g (g.rename (colAt tbl)) := by
  apply rawIso_relabel
  intro a ha b hb hab
  exact injOn_of_nodup_map (nodupB_iff.mp hd) a (mem_dedup.mpr ha) b (mem_dedup.mpr hb) hab

theorem rawIso_of_common_leaf (Hs : Hashes) {g h : Graph} {L : List (List Nat)}
    (hg : canonSearch Hs g = some L) (hh : canonSearch Hs h = some L) : RawIso g h := by
  obtain ⟨tg, dg, eg⟩ := leaves_form Hs g _ _ L (head_isort_mem hg)
  obtain ⟨th, dh, eh⟩ := leaves_form Hs h _ _ L (head_isort_mem hh)
  have e := setEq_of_leaf_eq (eg.symm.trans eh)
  exact rawIso_trans (rawIso_trans (rawIso_of_discrete dg) (rawIso_of_setEq e)) (rawIso_symm (rawIso_of_discrete dh))

/-! ### the driver's hashes are permutation-invariant -/

theorem foldl_add_perm {a b : List Nat} (hp : a.Perm b) : ∀ z : Nat, a.foldl (· + ·) z = b.foldl (· + ·) z := by
  induction hp with
  | nil => intro z; rfl
  | cons x _ ih => intro z; simp only [List.foldl_cons]; exact ih _
  | swap x y l => intro z; simp only [List.foldl_cons]; rw [Nat.add_right_comm]
  | trans _ _ ih1 ih2 => intro z; rw [ih1, ih2]

theorem driverHashes_permInv : PermInv driverHashes := by
  intro c a b hp
  simp only [driverHashes, foldl_add_perm hp 0]

end RV.C14
