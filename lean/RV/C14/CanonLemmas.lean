import RV.C14.Canon
import RV.C14.Lemmas
/-
  Lemmas about the colour-refinement model: one `distinguish` round is equivariant under an
  isomorphism; discrete colourings give injective canonical labels.
-/
namespace RV.C14

/-- the terms occurring in subject / predicate / object position -/
def gterms : Graph → List Term
  | [] => []
  | t :: g => t.1 :: t.2.1 :: t.2.2 :: gterms g

theorem mem_gterms {g : Graph} {x : Term} :
    x ∈ gterms g ↔ ∃ t ∈ g, x = t.1 ∨ x = t.2.1 ∨ x = t.2.2 := by
  induction g with
  | nil => simp [gterms]
  | cons t g ih =>
    simp only [gterms, List.mem_cons, ih]
    constructor
    · rintro (h | h | h | ⟨t', ht', h⟩)
      · exact ⟨t, Or.inl rfl, Or.inl h⟩
      · exact ⟨t, Or.inl rfl, Or.inr (Or.inl h)⟩
      · exact ⟨t, Or.inl rfl, Or.inr (Or.inr h)⟩
      · exact ⟨t', Or.inr ht', h⟩
    · rintro ⟨t', (rfl | ht'), h⟩
      · rcases h with h | h | h
        · exact Or.inl h
        · exact Or.inr (Or.inl h)
        · exact Or.inr (Or.inr (Or.inl h))
      · exact Or.inr (Or.inr (Or.inr ⟨t', ht', h⟩))

theorem blank_id_mem_bnodes {g : Graph} {x : Term} (hx : x ∈ gterms g) (hb : x.blank = true) :
    x.id ∈ bnodes g := by
  obtain ⟨t, ht, h⟩ := mem_gterms.mp hx
  refine mem_bnodes.mpr ⟨t, ht, ?_⟩
  have hbn : x.id ∈ x.bn := by simp [Term.bn, hb]
  simp only [Triple.bn, List.mem_append]
  rcases h with h | h | h
  · exact Or.inl (h ▸ hbn)
  · exact Or.inr (Or.inl (h ▸ hbn))
  · exact Or.inr (Or.inr (h ▸ hbn))

/-- renaming is injective on the terms of `g` when `σ` is injective on its blank nodes -/
theorem term_rename_inj {σ : Nat → Nat} {g : Graph} (hinj : InjOn σ (bnodes g)) {a b : Term}
    (ha : a ∈ gterms g) (hb : b ∈ gterms g) (h : a.rename σ = b.rename σ) : a = b := by
  have hfl : a.blank = b.blank := by
    have := congrArg Term.blank h
    simpa using this
  cases hab : a.blank
  · have hbb : b.blank = false := by rw [← hfl, hab]
    simpa [Term.rename, hab, hbb] using h
  · have hbb : b.blank = true := by rw [← hfl, hab]
    have hid : σ a.id = σ b.id := by
      have := congrArg Term.id h
      simpa [Term.rename, hab, hbb] using this
    have := hinj _ (blank_id_mem_bnodes ha hab) _ (blank_id_mem_bnodes hb hbb) hid
    cases a; cases b; simp_all

theorem flatMap_perm_congr {α β : Type} (l : List α) {f f' : α → List β}
    (h : ∀ a ∈ l, (f a).Perm (f' a)) : (l.flatMap f).Perm (l.flatMap f') := by
  induction l with
  | nil => simp
  | cons x xs ih =>
    simp only [List.flatMap_cons]
    exact List.Perm.append (h x List.mem_cons_self) (ih (fun a ha => h a (List.mem_cons_of_mem _ ha)))

theorem filterMap_congr_mem {α β : Type} (l : List α) {f f' : α → Option β}
    (h : ∀ a ∈ l, f a = f' a) : l.filterMap f = l.filterMap f' := by
  induction l with
  | nil => rfl
  | cons x xs ih =>
    simp only [List.filterMap_cons, h x List.mem_cons_self,
      ih (fun a ha => h a (List.mem_cons_of_mem _ ha))]

/-- predicates are never blank nodes (RDF) -/
def NoBlankPred (g : Graph) : Prop := ∀ t ∈ g, t.2.1.blank = false

theorem distinguishItems_equivariant {σ : Nat → Nat} {g h : Graph} (hinj : InjOn σ (bnodes g))
    (hp : NoBlankPred g) (hperm : h.Perm (g.rename σ)) (hW : Nat) {Wn Wn' : List Term}
    (hWperm : Wn'.Perm (Wn.map (Term.rename σ))) (hWg : ∀ w ∈ Wn, w ∈ gterms g)
    {n : Term} (hn : n ∈ gterms g) :
    (distinguishItems hW h Wn' (n.rename σ)).Perm (distinguishItems hW g Wn n) := by
  unfold distinguishItems
  refine (List.Perm.flatMap_right _ hWperm).trans ?_
  rw [List.flatMap_map]
  apply flatMap_perm_congr
  intro node hnode
  have hnodeg := hWg node hnode
  have key : ∀ t ∈ g, ∀ a b : Term, a ∈ gterms g → b ∈ gterms g →
      ((t.rename σ).1 = a.rename σ ∧ (t.rename σ).2.2 = b.rename σ ↔ t.1 = a ∧ t.2.2 = b) := by
    intro t ht a b ha hb
    have h1 : t.1 ∈ gterms g := mem_gterms.mpr ⟨t, ht, Or.inl rfl⟩
    have h3 : t.2.2 ∈ gterms g := mem_gterms.mpr ⟨t, ht, Or.inr (Or.inr rfl)⟩
    simp only [Triple.rename]
    constructor
    · rintro ⟨e1, e2⟩
      exact ⟨term_rename_inj hinj h1 ha e1, term_rename_inj hinj h3 hb e2⟩
    · rintro ⟨e1, e2⟩
      rw [e1, e2]; exact ⟨rfl, rfl⟩
  have hpred : ∀ t ∈ g, (t.rename σ).2.1 = t.2.1 := by
    intro t ht
    simp [Triple.rename, Term.rename, hp t ht]
  apply List.Perm.append
  · refine (List.Perm.filterMap _ hperm).trans ?_
    unfold Graph.rename
    rw [List.filterMap_map]
    apply List.Perm.of_eq
    apply filterMap_congr_mem
    intro t ht
    simp only [Function.comp]
    by_cases hc : t.1 = n ∧ t.2.2 = node
    · rw [if_pos ((key t ht n node hn hnodeg).mpr hc), if_pos hc, hpred t ht]
    · rw [if_neg (fun h' => hc ((key t ht n node hn hnodeg).mp h')), if_neg hc]
  · refine (List.Perm.filterMap _ hperm).trans ?_
    unfold Graph.rename
    rw [List.filterMap_map]
    apply List.Perm.of_eq
    apply filterMap_congr_mem
    intro t ht
    simp only [Function.comp]
    by_cases hc : t.1 = node ∧ t.2.2 = n
    · rw [if_pos ((key t ht node n hnodeg hn).mpr hc), if_pos hc, hpred t ht]
    · rw [if_neg (fun h' => hc ((key t ht node n hnodeg hn).mp h')), if_neg hc]

/-- relabel-and-shuffle of a duplicate-free triple list is a permutation of the renamed list -/
theorem perm_of_nodup_setEq {σ : Nat → Nat} {g h : Graph} (hinj : InjOn σ (bnodes g))
    (hg : g.Nodup) (hh : h.Nodup) (e : SetEq (g.rename σ) h) : h.Perm (g.rename σ) := by
  have hnd : (g.rename σ).Nodup := by
    unfold Graph.rename
    have inj : ∀ a ∈ g, ∀ b ∈ g, a.rename σ = b.rename σ → a = b := by
      intro a ha b hb hab
      have e1 := congrArg Prod.fst hab
      have e2 := congrArg (fun t => t.2.1) hab
      have e3 := congrArg (fun t => t.2.2) hab
      simp only [Triple.rename] at e1 e2 e3
      have m : ∀ (t : Triple), t ∈ g → t.1 ∈ gterms g ∧ t.2.1 ∈ gterms g ∧ t.2.2 ∈ gterms g :=
        fun t ht => ⟨mem_gterms.mpr ⟨t, ht, Or.inl rfl⟩, mem_gterms.mpr ⟨t, ht, Or.inr (Or.inl rfl)⟩,
          mem_gterms.mpr ⟨t, ht, Or.inr (Or.inr rfl)⟩⟩
      have := term_rename_inj hinj (m a ha).1 (m b hb).1 e1
      have := term_rename_inj hinj (m a ha).2.1 (m b hb).2.1 e2
      have := term_rename_inj hinj (m a ha).2.2 (m b hb).2.2 e3
      obtain ⟨a1, a2, a3⟩ := a
      obtain ⟨b1, b2, b3⟩ := b
      simp_all
    clear e hh
    induction g with
    | nil => simp
    | cons x xs ih =>
      rw [List.nodup_cons] at hg
      rw [List.map_cons, List.nodup_cons]
      refine ⟨?_, ih (fun a ha b hb hab => ?_) hg.2 (fun a ha b hb => inj a (List.mem_cons_of_mem _ ha) b (List.mem_cons_of_mem _ hb))⟩
      · intro hm
        obtain ⟨y, hy, hxy⟩ := List.mem_map.mp hm
        have := inj y (List.mem_cons_of_mem _ hy) x List.mem_cons_self hxy
        exact hg.1 (this ▸ hy)
      · exact hinj a (by
          rw [mem_bnodes] at ha ⊢
          obtain ⟨t, ht, hat⟩ := ha
          exact ⟨t, List.mem_cons_of_mem _ ht, hat⟩) b (by
          rw [mem_bnodes] at hb ⊢
          obtain ⟨t, ht, hbt⟩ := hb
          exact ⟨t, List.mem_cons_of_mem _ ht, hbt⟩) hab
  exact (List.perm_ext_iff_of_nodup hh hnd).mpr (fun t => (e t).symm)

/-! ### labels of a discrete colouring -/

theorem vals_canonLabels_sublist (hc : Color → Nat) (cs : List Color) :
    (vals (canonLabels hc cs)).Sublist (cs.map hc) := by
  induction cs with
  | nil => simp [canonLabels, vals]
  | cons c cs ih =>
    unfold canonLabels
    split
    · split
      · simp only [vals, List.map_cons]
        exact List.Sublist.cons_cons _ ih
      · exact List.Sublist.cons _ ih
    · exact List.Sublist.cons _ ih

theorem keys_canonLabels {hc : Color → Nat} {cs : List Color} {a : Nat}
    (h : ∃ c ∈ cs, ∃ rest, c.nodes = ⟨true, a⟩ :: rest) : a ∈ keys (canonLabels hc cs) := by
  induction cs with
  | nil => obtain ⟨c, hc', _⟩ := h; simp at hc'
  | cons d ds ih =>
    obtain ⟨c, hcm, rest, hn⟩ := h
    rcases List.mem_cons.mp hcm with rfl | hcm
    · unfold canonLabels
      rw [hn]
      simp [keys]
    · have := ih ⟨c, hcm, rest, hn⟩
      unfold canonLabels
      split
      · split
        · simp only [keys, List.map_cons, List.mem_cons]; exact Or.inr this
        · exact this
      · exact this

end RV.C14
