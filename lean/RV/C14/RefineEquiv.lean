import RV.C14.RefineLemmas
/-
  Equivariance of the whole `_refine` computation under blank-node renaming: for a renaming `σ` that is injective on the
  blank nodes of `g`, running the model on `g.rename σ` from the renamed colouring gives EXACTLY the renamed result —
  same cells in the same order, same colour tuples, same hashes — whatever the hash functions are.
  (Independence of the ITERATION ORDER of Python's sets is not covered here; `refine_equivariant` /
  `canonSearch_equivariant` treat order through `PermInv`.)
-/
namespace RV.C14

/-- a colour with its member nodes renamed -/
def mapColor (ρ : Term → Term) (c : Color) : Color := ⟨c.nodes.map ρ, c.items, c.ground⟩

theorem mapColor_hash (ρ : Term → Term) (H : List Item → Nat) (HT : Term → Nat) (c : Color) :
    (mapColor ρ c).hash H HT = c.hash H HT := rfl

theorem mapColor_key (ρ : Term → Term) (H : List Item → Nat) (HT : Term → Nat) (c : Color) :
    (mapColor ρ c).key H HT = c.key H HT := by
  simp [Color.key, mapColor, Color.hash]

/-- all member nodes are terms of the graph -/
def InG (g : Graph) (cs : List Color) : Prop := ∀ c ∈ cs, ∀ n ∈ c.nodes, n ∈ gterms g

theorem flatMap_congr_mem {α β : Type} (l : List α) {f f' : α → List β}
    (h : ∀ a ∈ l, f a = f' a) : l.flatMap f = l.flatMap f' := by
  induction l with
  | nil => rfl
  | cons x xs ih =>
    simp only [List.flatMap_cons, h x List.mem_cons_self,
      ih (fun a ha => h a (List.mem_cons_of_mem _ ha))]

theorem map_congr_mem {α β : Type} (l : List α) {f f' : α → β}
    (h : ∀ a ∈ l, f a = f' a) : l.map f = l.map f' := by
  induction l with
  | nil => rfl
  | cons x xs ih =>
    simp only [List.map_cons, h x List.mem_cons_self,
      ih (fun a ha => h a (List.mem_cons_of_mem _ ha))]

theorem distinguishItems_rename {σ : Nat → Nat} {g : Graph} (hinj : InjOn σ (bnodes g))
    (hp : NoBlankPred g) (hW : Nat) {Wn : List Term} (hWg : ∀ w ∈ Wn, w ∈ gterms g)
    {n : Term} (hn : n ∈ gterms g) :
    distinguishItems hW (g.rename σ) (Wn.map (Term.rename σ)) (n.rename σ) = distinguishItems hW g Wn n := by
  unfold distinguishItems
  rw [List.flatMap_map]
  apply flatMap_congr_mem
  intro node hnode
  have hnodeg := hWg node hnode
  have key : ∀ t ∈ g, ∀ a b : Term, a ∈ gterms g → b ∈ gterms g →
      ((t.rename σ).1 = a.rename σ ∧ (t.rename σ).2.2 = b.rename σ ↔ t.1 = a ∧ t.2.2 = b) := by
    intro t ht a b ha hb
    have h1 : t.1 ∈ gterms g := mem_gterms.mpr ⟨t, ht, Or.inl rfl⟩
    have h3 : t.2.2 ∈ gterms g := mem_gterms.mpr ⟨t, ht, Or.inr (Or.inr rfl)⟩
    simp only [Triple.rename]
    constructor
    · rintro ⟨e1, e2⟩
      exact ⟨term_rename_inj hinj h1 ha e1, term_rename_inj hinj h3 hb e2⟩
    · rintro ⟨e1, e2⟩
      rw [e1, e2]; exact ⟨rfl, rfl⟩
  have hpred : ∀ t ∈ g, (t.rename σ).2.1 = t.2.1 := by
    intro t ht
    simp [Triple.rename, Term.rename, hp t ht]
  congr 1
  · unfold Graph.rename
    rw [List.filterMap_map]
    apply filterMap_congr_mem
    intro t ht
    simp only [Function.comp]
    by_cases hc : t.1 = n ∧ t.2.2 = node
    · rw [if_pos ((key t ht n node hn hnodeg).mpr hc), if_pos hc, hpred t ht]
    · rw [if_neg (fun h' => hc ((key t ht n node hn hnodeg).mp h')), if_neg hc]
  · unfold Graph.rename
    rw [List.filterMap_map]
    apply filterMap_congr_mem
    intro t ht
    simp only [Function.comp]
    by_cases hc : t.1 = node ∧ t.2.2 = n
    · rw [if_pos ((key t ht node n hnodeg hn).mpr hc), if_pos hc, hpred t ht]
    · rw [if_neg (fun h' => hc ((key t ht node n hnodeg hn).mp h')), if_neg hc]

/-! ### generic commutation with `map (mapColor ρ)` -/

theorem addTo_map (ρ : Term → Term) (H : List Item → Nat) (k : Nat) (n : Term) (acc : List Color) :
    addTo H k (ρ n) (acc.map (mapColor ρ)) = (addTo H k n acc).map (mapColor ρ) := by
  unfold addTo
  rw [List.map_map, List.map_map]
  apply map_congr_mem
  intro c _
  simp only [Function.comp]
  by_cases h : (H c.items == k) = true
  · simp [mapColor, h]
  · simp [mapColor, h]

theorem groupByHash_map (ρ : Term → Term) (H : List Item → Nat) (l : List (Term × List Item)) :
    ∀ acc : List Color,
      groupByHash H (l.map (fun x => (ρ x.1, x.2))) (acc.map (mapColor ρ)) =
        (groupByHash H l acc).map (mapColor ρ) := by
  induction l with
  | nil => intro acc; rfl
  | cons x rest ih =>
    obtain ⟨n, its⟩ := x
    intro acc
    rw [List.map_cons, groupByHash_eq, groupByHash_eq]
    have hany : (acc.map (mapColor ρ)).any (fun c => H c.items == H its) = acc.any (fun c => H c.items == H its) := by
      rw [List.any_map]; rfl
    rw [hany]
    split
    · rw [addTo_map, ih]
    · have : acc.map (mapColor ρ) ++ [⟨[ρ n], its, none⟩] = (acc ++ [(⟨[n], its, none⟩ : Color)]).map (mapColor ρ) := by
        simp [mapColor]
      rw [this, ih]

theorem insertDesc_map (ρ : Term → Term) (H : List Item → Nat) (HT : Term → Nat) (c : Color) (l : List Color) :
    insertDesc H HT (mapColor ρ c) (l.map (mapColor ρ)) = (insertDesc H HT c l).map (mapColor ρ) := by
  induction l with
  | nil => rfl
  | cons d ds ih =>
    simp only [List.map_cons]
    unfold insertDesc
    dsimp only
    rw [mapColor_key, mapColor_key]
    split
    · rw [List.map_cons, ih]
    · rfl

theorem sortDesc_map (ρ : Term → Term) (H : List Item → Nat) (HT : Term → Nat) (cs : List Color) :
    sortDesc H HT (cs.map (mapColor ρ)) = (sortDesc H HT cs).map (mapColor ρ) := by
  induction cs with
  | nil => rfl
  | cons c cs ih =>
    unfold sortDesc at ih ⊢
    rw [List.map_cons, List.foldr_cons, List.foldr_cons, ih, insertDesc_map]

theorem mergeByHash_map (ρ : Term → Term) (H : List Item → Nat) (HT : Term → Nat) (cs : List Color) :
    ∀ acc : List Color,
      mergeByHash H HT (cs.map (mapColor ρ)) (acc.map (mapColor ρ)) = (mergeByHash H HT cs acc).map (mapColor ρ) := by
  induction cs with
  | nil => intro acc; rfl
  | cons c cs ih =>
    intro acc
    rw [List.map_cons]
    unfold mergeByHash
    dsimp only
    have hany : (acc.map (mapColor ρ)).any (fun d => d.hash H HT == (mapColor ρ c).hash H HT) =
        acc.any (fun d => d.hash H HT == c.hash H HT) := by
      rw [List.any_map]; rfl
    rw [hany]
    split
    · have : (acc.map (mapColor ρ)).map (fun d => if (d.hash H HT == (mapColor ρ c).hash H HT) = true then
          { d with nodes := d.nodes ++ (mapColor ρ c).nodes } else d) =
          (acc.map (fun d => if (d.hash H HT == c.hash H HT) = true then { d with nodes := d.nodes ++ c.nodes } else d)).map
            (mapColor ρ) := by
        rw [List.map_map, List.map_map]
        apply map_congr_mem
        intro d _
        simp only [Function.comp]
        by_cases h : (d.hash H HT == c.hash H HT) = true
        · have h' : ((mapColor ρ d).hash H HT == (mapColor ρ c).hash H HT) = true := h
          rw [if_pos h', if_pos h]; simp [mapColor]
        · have h' : ¬ ((mapColor ρ d).hash H HT == (mapColor ρ c).hash H HT) = true := h
          rw [if_neg h', if_neg h]
      rw [this, ih]
    · have : acc.map (mapColor ρ) ++ [mapColor ρ c] = (acc ++ [c]).map (mapColor ρ) := by simp
      rw [this, ih]

/-! ### injectivity of the renaming on colours over the graph's terms -/

theorem map_rename_inj {σ : Nat → Nat} {g : Graph} (hinj : InjOn σ (bnodes g)) :
    ∀ {l1 l2 : List Term}, (∀ n ∈ l1, n ∈ gterms g) → (∀ n ∈ l2, n ∈ gterms g) →
      l1.map (Term.rename σ) = l2.map (Term.rename σ) → l1 = l2
  | [], [], _, _, _ => rfl
  | [], _ :: _, _, _, h => by simp at h
  | _ :: _, [], _, _, h => by simp at h
  | a :: l1, b :: l2, h1, h2, h => by
    simp only [List.map_cons, List.cons.injEq] at h
    have e := term_rename_inj hinj (h1 a List.mem_cons_self) (h2 b List.mem_cons_self) h.1
    have := map_rename_inj hinj (fun n hn => h1 n (List.mem_cons_of_mem _ hn))
      (fun n hn => h2 n (List.mem_cons_of_mem _ hn)) h.2
    rw [e, this]

theorem mapColor_inj {σ : Nat → Nat} {g : Graph} (hinj : InjOn σ (bnodes g)) {c d : Color}
    (hc : ∀ n ∈ c.nodes, n ∈ gterms g) (hd : ∀ n ∈ d.nodes, n ∈ gterms g)
    (h : mapColor (Term.rename σ) c = mapColor (Term.rename σ) d) : c = d := by
  obtain ⟨cn, ci, cg⟩ := c
  obtain ⟨dn, di, dg⟩ := d
  simp only [mapColor, Color.mk.injEq] at h
  obtain ⟨h1, h2, h3⟩ := h
  have := map_rename_inj hinj hc hd h1
  simp only [] at this
  rw [this, h2, h3]

theorem map_erase_of_inj {α β : Type} [DecidableEq α] [DecidableEq β] (f : α → β) (c : α) :
    ∀ l : List α, (∀ x ∈ l, f x = f c → x = c) → (l.map f).erase (f c) = (l.erase c).map f := by
  intro l
  induction l with
  | nil => intro _; rfl
  | cons x xs ih =>
    intro h
    by_cases e : x = c
    · subst e; simp
    · have hne : f x ≠ f c := fun e' => e (h x List.mem_cons_self e')
      rw [List.map_cons, List.erase_cons_tail (by simpa using hne), List.erase_cons_tail (by simpa using e),
        List.map_cons, ih (fun y hy => h y (List.mem_cons_of_mem _ hy))]

theorem mem_map_of_inj {α β : Type} (f : α → β) (c : α) (l : List α) (h : ∀ x ∈ l, f x = f c → x = c) :
    f c ∈ l.map f ↔ c ∈ l := by
  constructor
  · intro hm
    obtain ⟨x, hx, e⟩ := List.mem_map.mp hm
    exact (h x hx e) ▸ hx
  · exact fun hm => List.mem_map.mpr ⟨c, hm, rfl⟩

theorem replaceAt_map (f : Color → Color) (c : Color) (by_ : List Color) :
    ∀ S : List Color, (∀ x ∈ S, f x = f c → x = c) →
      replaceAt (S.map f) (f c) (by_.map f) = (replaceAt S c by_).map f := by
  intro S
  induction S with
  | nil => intro _; rfl
  | cons d ds ih =>
    intro h
    rw [List.map_cons]
    unfold replaceAt
    by_cases e : d = c
    · subst e; simp
    · have hne : f d ≠ f c := fun e' => e (h d List.mem_cons_self e')
      rw [if_neg hne, if_neg e, List.map_cons, ih (fun y hy => h y (List.mem_cons_of_mem _ hy))]

/-! ### `distinguish`, one step, one pass, the loop -/

section
variable {σ : Nat → Nat} {g : Graph} (hinj : InjOn σ (bnodes g)) (hp : NoBlankPred g)
variable (H : List Item → Nat) (HT : Term → Nat)

include hinj hp

theorem distinguish_rename {c W : Color} (hc : ∀ n ∈ c.nodes, n ∈ gterms g) (hW : ∀ n ∈ W.nodes, n ∈ gterms g) :
    distinguish H HT (g.rename σ) (mapColor (Term.rename σ) c) (mapColor (Term.rename σ) W) =
      (distinguish H HT g c W).map (mapColor (Term.rename σ)) := by
  unfold distinguish
  have h0 := groupByHash_map (Term.rename σ) H
    (c.nodes.map (fun n => (n, c.items ++ distinguishItems (W.hash H HT) g W.nodes n))) []
  rw [List.map_nil] at h0
  rw [← h0, List.map_map]
  congr 1
  simp only [mapColor, List.map_map]
  apply map_congr_mem
  intro n hn
  simp only [Function.comp]
  have := distinguishItems_rename hinj hp (Color.hash H HT W) hW (hc n hn)
  simp only [Color.hash] at this ⊢
  rw [this]

theorem splitOf_rename {c W : Color} (hc : ∀ n ∈ c.nodes, n ∈ gterms g) (hW : ∀ n ∈ W.nodes, n ∈ gterms g) :
    splitOf H HT (g.rename σ) (mapColor (Term.rename σ) W) (mapColor (Term.rename σ) c) =
      (splitOf H HT g W c).map (mapColor (Term.rename σ)) := by
  unfold splitOf
  rw [distinguish_rename hinj hp H HT hc hW, sortDesc_map]

theorem activeC_map (c : Color) : activeC (mapColor (Term.rename σ) c) = activeC c := by
  unfold activeC mapColor
  cases c.nodes with
  | nil => rfl
  | cons n0 rest =>
    simp only [List.map_cons]
    have : (Term.rename σ n0).blank = n0.blank := by
      unfold Term.rename; split <;> simp_all
    rw [this]
    cases rest <;> rfl

theorem splitOf_InG {c W : Color} (hc : ∀ n ∈ c.nodes, n ∈ gterms g) : InG g (splitOf H HT g W c) := by
  intro x hx n hn
  apply hc
  apply (splitOf_spec H HT g W c).2.1.mem_iff.mp
  exact List.mem_flatMap.mpr ⟨x, hx, hn⟩

theorem refineStep_rename {W : Color} (hW : ∀ n ∈ W.nodes, n ∈ gterms g) {P S : List Color} {c : Color}
    (hP : InG g P) (hS : InG g S) (hc : ∀ n ∈ c.nodes, n ∈ gterms g) :
    refineStep H HT (g.rename σ) (mapColor (Term.rename σ) W)
        (P.map (mapColor (Term.rename σ)), S.map (mapColor (Term.rename σ))) (mapColor (Term.rename σ) c) =
      ((refineStep H HT g W (P, S) c).1.map (mapColor (Term.rename σ)),
       (refineStep H HT g W (P, S) c).2.map (mapColor (Term.rename σ))) ∧
    InG g (refineStep H HT g W (P, S) c).1 ∧ InG g (refineStep H HT g W (P, S) c).2 := by
  rw [refineStep_eq, refineStep_eq, activeC_map hinj hp]
  by_cases hact : activeC c = true
  · rw [if_pos hact, if_pos hact]
    have injP : ∀ x ∈ P, mapColor (Term.rename σ) x = mapColor (Term.rename σ) c → x = c :=
      fun x hx e => mapColor_inj hinj (hP x hx) hc e
    have injS : ∀ x ∈ S, mapColor (Term.rename σ) x = mapColor (Term.rename σ) c → x = c :=
      fun x hx e => mapColor_inj hinj (hS x hx) hc e
    have hsp := splitOf_InG hinj hp H HT (W := W) hc
    refine ⟨?_, ?_, ?_⟩
    · rw [splitOf_rename hinj hp H HT hc hW, map_erase_of_inj _ _ _ injP]
      simp only [List.map_append]
      congr 1
      by_cases hin : c ∈ S
      · rw [if_pos hin, if_pos ((mem_map_of_inj _ _ _ injS).mpr hin), replaceAt_map _ _ _ _ injS]
      · rw [if_neg hin, if_neg (fun h => hin ((mem_map_of_inj _ _ _ injS).mp h))]
        simp [List.map_tail]
    · intro x hx
      rcases List.mem_append.mp hx with hx | hx
      · exact hP x (List.mem_of_mem_erase hx)
      · exact hsp x hx
    · intro x hx
      simp only [] at hx
      split at hx
      · have : x ∈ S ∨ x ∈ splitOf H HT g W c := by
          clear injS
          induction S with
          | nil => simp [replaceAt] at hx
          | cons d ds ih =>
            unfold replaceAt at hx
            split at hx
            · rcases List.mem_append.mp hx with h | h
              · exact Or.inr h
              · exact Or.inl (List.mem_cons_of_mem _ h)
            · rename_i hne
              rcases List.mem_cons.mp hx with rfl | h
              · exact Or.inl List.mem_cons_self
              · rename_i hin
                have hin' : c ∈ ds := by
                  rcases List.mem_cons.mp hin with rfl | h'
                  · exact absurd rfl hne
                  · exact h'
                rcases ih (fun y hy => hS y (List.mem_cons_of_mem _ hy)) hin' h with h'' | h''
                · exact Or.inl (List.mem_cons_of_mem _ h'')
                · exact Or.inr h''
        rcases this with h | h
        · exact hS x h
        · exact hsp x h
      · rcases List.mem_append.mp hx with h | h
        · exact hsp x (List.mem_of_mem_tail h)
        · exact hS x h
  · rw [if_neg hact, if_neg hact]
    exact ⟨rfl, hP, hS⟩

theorem pass_rename {W : Color} (hW : ∀ n ∈ W.nodes, n ∈ gterms g) (todo : List Color) :
    ∀ (P S : List Color), InG g P → InG g S → InG g todo →
      (todo.map (mapColor (Term.rename σ))).foldl
          (refineStep H HT (g.rename σ) (mapColor (Term.rename σ) W))
          (P.map (mapColor (Term.rename σ)), S.map (mapColor (Term.rename σ))) =
        ((todo.foldl (refineStep H HT g W) (P, S)).1.map (mapColor (Term.rename σ)),
         (todo.foldl (refineStep H HT g W) (P, S)).2.map (mapColor (Term.rename σ))) ∧
      InG g (todo.foldl (refineStep H HT g W) (P, S)).1 ∧ InG g (todo.foldl (refineStep H HT g W) (P, S)).2 := by
  induction todo with
  | nil => intro P S hP hS _; exact ⟨rfl, hP, hS⟩
  | cons c todo ih =>
    intro P S hP hS ht
    obtain ⟨e, a, b⟩ := refineStep_rename hinj hp H HT hW hP hS (ht c List.mem_cons_self)
    rw [List.map_cons, List.foldl_cons, List.foldl_cons, e]
    have hst : refineStep H HT g W (P, S) c =
        ((refineStep H HT g W (P, S) c).1, (refineStep H HT g W (P, S) c).2) := rfl
    rw [hst]
    exact ih _ _ a b (fun x hx => ht x (List.mem_cons_of_mem _ hx))

theorem refineLoop_rename :
    ∀ (fuel : Nat) (P S : List Color), InG g P → InG g S →
      refineLoop H HT (g.rename σ) fuel (P.map (mapColor (Term.rename σ))) (S.map (mapColor (Term.rename σ))) =
        (refineLoop H HT g fuel P S).map (mapColor (Term.rename σ)) := by
  intro fuel
  induction fuel with
  | zero => intro P S _ _; rfl
  | succ fuel ih =>
    intro P S hP hS
    unfold refineLoop
    have hdone : refineDone (P.map (mapColor (Term.rename σ))) (S.map (mapColor (Term.rename σ))) = refineDone P S := by
      have hd : Color.discrete ∘ mapColor (Term.rename σ) = Color.discrete := by
        funext c; simp [Color.discrete, mapColor]
      unfold refineDone
      rw [List.all_map, hd]
      cases S <;> rfl
    rw [hdone]
    split
    · rfl
    · rw [List.getLast?_map]
      cases hS' : S.getLast? with
      | none => rfl
      | some W =>
        simp only [Option.map_some]
        have hWm : W ∈ S := List.mem_of_getLast? hS'
        have hSd : InG g S.dropLast := fun x hx => hS x (List.dropLast_subset S hx)
        obtain ⟨e, a, b⟩ := pass_rename hinj hp H HT (hS W hWm) P P S.dropLast hP hSd hP
        unfold refinePass
        rw [← List.map_dropLast, e]
        exact ih _ _ a b

end


/-! ### the initial colouring and the call made by `canonical_triples` -/

theorem rename_blank (σ : Nat → Nat) (t : Term) : (t.rename σ).blank = t.blank := by
  unfold Term.rename; split <;> simp_all

theorem rename_nonblank (σ : Nat → Nat) {t : Term} (h : t.blank = false) : t.rename σ = t := by
  unfold Term.rename; simp [h]

theorem mem_foldl_tinsert (l : List Term) : ∀ (acc : List Term) (x : Term),
    x ∈ l.foldl tinsert acc ↔ x ∈ acc ∨ x ∈ l := by
  induction l with
  | nil => intro acc x; simp
  | cons y ys ih =>
    intro acc x
    rw [List.foldl_cons, ih]
    unfold tinsert
    split
    · rename_i hy
      constructor
      · rintro (h | h)
        · exact Or.inl h
        · exact Or.inr (List.mem_cons_of_mem _ h)
      · rintro (h | h)
        · exact Or.inl h
        · rcases List.mem_cons.mp h with rfl | h
          · exact Or.inl hy
          · exact Or.inr h
    · simp [or_assoc]

theorem foldl_tinsert_rename {σ : Nat → Nat} {g : Graph} (hinj : InjOn σ (bnodes g)) (l : List Term) :
    ∀ acc : List Term, (∀ x ∈ l, x ∈ gterms g) → (∀ x ∈ acc, x ∈ gterms g) →
      (l.map (Term.rename σ)).foldl tinsert (acc.map (Term.rename σ)) =
        (l.foldl tinsert acc).map (Term.rename σ) := by
  induction l with
  | nil => intro acc _ _; rfl
  | cons y ys ih =>
    intro acc hl hacc
    rw [List.map_cons, List.foldl_cons, List.foldl_cons]
    have hy := hl y List.mem_cons_self
    have hstep : tinsert (acc.map (Term.rename σ)) (y.rename σ) = (tinsert acc y).map (Term.rename σ) := by
      unfold tinsert
      have hiff : y.rename σ ∈ acc.map (Term.rename σ) ↔ y ∈ acc :=
        mem_map_of_inj _ _ _ (fun x hx e => term_rename_inj hinj (hacc x hx) hy e)
      by_cases hm : y ∈ acc
      · rw [if_pos hm, if_pos (hiff.mpr hm)]
      · rw [if_neg hm, if_neg (fun h => hm (hiff.mp h))]; simp
    rw [hstep]
    apply ih _ (fun x hx => hl x (List.mem_cons_of_mem _ hx))
    intro x hx
    unfold tinsert at hx
    split at hx
    · exact hacc x hx
    · rcases List.mem_append.mp hx with h | h
      · exact hacc x h
      · simp only [List.mem_singleton] at h; rw [h]; exact hy

/-- the terms of the triples that mention a blank node (`nodes` of `_initial_color`) -/
def touchTerms (g : Graph) : List Term :=
  (g.filter (fun t => t.1.blank || t.2.1.blank || t.2.2.blank)).flatMap (fun t => [t.1, t.2.1, t.2.2])

theorem touchTerms_sub (g : Graph) : ∀ x ∈ touchTerms g, x ∈ gterms g := by
  intro x hx
  obtain ⟨t, ht, hxt⟩ := List.mem_flatMap.mp hx
  have htg : t ∈ g := (List.mem_filter.mp ht).1
  simp only [List.mem_cons, List.not_mem_nil, or_false] at hxt
  exact mem_gterms.mpr ⟨t, htg, hxt⟩

theorem touchTerms_rename (σ : Nat → Nat) (g : Graph) :
    touchTerms (g.rename σ) = (touchTerms g).map (Term.rename σ) := by
  unfold touchTerms Graph.rename
  rw [List.filter_map, List.flatMap_map, List.map_flatMap]
  have : ((fun t : Triple => t.1.blank || t.2.1.blank || t.2.2.blank) ∘ Triple.rename σ) =
      (fun t : Triple => t.1.blank || t.2.1.blank || t.2.2.blank) := by
    funext t; simp [Function.comp, Triple.rename, rename_blank]
  rw [this]
  rfl

theorem initialColor_eq (g : Graph) :
    initialColor g =
      if ((touchTerms g).filter (·.blank)).foldl tinsert [] = [] then []
      else ⟨((touchTerms g).filter (·.blank)).foldl tinsert [], [], none⟩ ::
        (((touchTerms g).filter (fun x => !x.blank)).foldl tinsert []).map (fun x => ⟨[x], [], some x⟩) := by
  unfold initialColor touchTerms
  dsimp only
  cases h : List.foldl tinsert [] (List.filter (fun x => x.blank)
      (List.flatMap (fun t => [t.1, t.2.1, t.2.2]) (List.filter (fun t => t.1.blank || t.2.1.blank || t.2.2.blank) g)))
    <;> simp

theorem initialColor_InG (g : Graph) : InG g (initialColor g) := by
  rw [initialColor_eq]
  intro c hc n hn
  split at hc
  · simp at hc
  · rcases List.mem_cons.mp hc with rfl | hc
    · simp only [] at hn
      rcases (mem_foldl_tinsert _ _ _).mp hn with h | h
      · simp at h
      · exact touchTerms_sub g n (List.mem_filter.mp h).1
    · obtain ⟨x, hx, rfl⟩ := List.mem_map.mp hc
      simp only [List.mem_singleton] at hn
      rw [hn]
      rcases (mem_foldl_tinsert _ _ _).mp hx with h | h
      · simp at h
      · exact touchTerms_sub g x (List.mem_filter.mp h).1

theorem initialColor_rename {σ : Nat → Nat} {g : Graph} (hinj : InjOn σ (bnodes g)) :
    initialColor (g.rename σ) = (initialColor g).map (mapColor (Term.rename σ)) := by
  rw [initialColor_eq, initialColor_eq, touchTerms_rename]
  have hb : ((touchTerms g).map (Term.rename σ)).filter (·.blank) =
      ((touchTerms g).filter (·.blank)).map (Term.rename σ) := by
    rw [List.filter_map]
    congr 1
    apply List.filter_congr
    intro x _
    simp [rename_blank]
  have hnb : ((touchTerms g).map (Term.rename σ)).filter (fun x => !x.blank) =
      ((touchTerms g).filter (fun x => !x.blank)) := by
    rw [List.filter_map]
    have h1 : List.filter ((fun x => !x.blank) ∘ Term.rename σ) (touchTerms g) =
        List.filter (fun x => !x.blank) (touchTerms g) := by
      apply List.filter_congr
      intro x _
      simp [rename_blank]
    rw [h1]
    have : ∀ l : List Term, (∀ x ∈ l, x.blank = false) → l.map (Term.rename σ) = l := by
      intro l hl
      induction l with
      | nil => rfl
      | cons a as ih =>
        rw [List.map_cons, rename_nonblank σ (hl a List.mem_cons_self),
          ih (fun x hx => hl x (List.mem_cons_of_mem _ hx))]
    apply this
    intro x hx
    simpa using (List.mem_filter.mp hx).2
  rw [hb, hnb]
  have hf := foldl_tinsert_rename hinj ((touchTerms g).filter (·.blank)) []
    (fun x hx => touchTerms_sub g x (List.mem_filter.mp hx).1) (by simp)
  rw [List.map_nil] at hf
  rw [hf]
  by_cases he : ((touchTerms g).filter (·.blank)).foldl tinsert [] = []
  · rw [he]; simp
  · rw [if_neg he, if_neg (by simpa using he)]
    rw [List.map_cons, List.map_map]
    congr 1
    apply map_congr_mem
    intro x hx
    have hxb : x.blank = false := by
      rcases (mem_foldl_tinsert _ _ _).mp hx with h | h
      · simp at h
      · simpa using (List.mem_filter.mp h).2
    simp [Function.comp, mapColor, rename_nonblank σ hxb]

theorem nodeCount_map (ρ : Term → Term) (cs : List Color) : nodeCount (cs.map (mapColor ρ)) = nodeCount cs := by
  induction cs with
  | nil => rfl
  | cons c cs ih =>
    simp only [nodeCount, List.map_cons, List.flatMap_cons, List.length_append] at ih ⊢
    rw [ih]; simp [mapColor]

theorem refine_rename {σ : Nat → Nat} {g : Graph} (hinj : InjOn σ (bnodes g)) (hp : NoBlankPred g)
    (H : List Item → Nat) (HT : Term → Nat) (fuel : Nat) (P S : List Color) (hP : InG g P) (hS : InG g S) :
    refine H HT (g.rename σ) fuel (P.map (mapColor (Term.rename σ))) (S.map (mapColor (Term.rename σ))) =
      (refine H HT g fuel P S).map (mapColor (Term.rename σ)) := by
  unfold refine
  have hS' : InG g (sortDesc H HT S) := fun c hc => hS c ((sortDesc_perm H HT S).mem_iff.mp hc)
  rw [sortDesc_map, refineLoop_rename hinj hp H HT fuel P _ hP hS']
  have := mergeByHash_map (Term.rename σ) H HT (refineLoop H HT g fuel P (sortDesc H HT S)) []
  rw [List.map_nil] at this
  exact this

theorem refineInit_rename {σ : Nat → Nat} {g : Graph} (hinj : InjOn σ (bnodes g)) (hp : NoBlankPred g)
    (H : List Item → Nat) (HT : Term → Nat) :
    refineInit H HT (g.rename σ) = (refineInit H HT g).map (mapColor (Term.rename σ)) := by
  unfold refineInit
  dsimp only
  rw [initialColor_rename hinj]
  have hf : refineFuel ((initialColor g).map (mapColor (Term.rename σ))) ((initialColor g).map (mapColor (Term.rename σ))) =
      refineFuel (initialColor g) (initialColor g) := by
    unfold refineFuel
    rw [nodeCount_map, List.length_map]
  rw [hf]
  exact refine_rename hinj hp H HT _ _ _ (initialColor_InG g) (initialColor_InG g)


/-! ### canonical labels of a discretely refined graph -/

theorem mergeByHash_InG {g : Graph} (H : List Item → Nat) (HT : Term → Nat) (cs : List Color) :
    ∀ acc : List Color, InG g acc → InG g cs → InG g (mergeByHash H HT cs acc) := by
  induction cs with
  | nil => intro acc h _; exact h
  | cons c cs ih =>
    intro acc hacc hcs
    unfold mergeByHash
    dsimp only
    have hc := hcs c List.mem_cons_self
    have hcs' : InG g cs := fun d hd => hcs d (List.mem_cons_of_mem _ hd)
    split
    · apply ih _ _ hcs'
      intro d hd n hn
      obtain ⟨e, he, rfl⟩ := List.mem_map.mp hd
      split at hn
      · rcases List.mem_append.mp hn with h | h
        · exact hacc e he n h
        · exact hc n h
      · exact hacc e he n hn
    · apply ih _ _ hcs'
      intro d hd
      rcases List.mem_append.mp hd with h | h
      · exact hacc d h
      · simp only [List.mem_singleton] at h; rw [h]; exact hc

theorem refineInit_InG (H : List Item → Nat) (HT : Term → Nat) (g : Graph) : InG g (refineInit H HT g) := by
  unfold refineInit refine
  dsimp only
  apply mergeByHash_InG H HT _ [] (by intro c hc; simp at hc)
  intro c hc n hn
  obtain ⟨_, _, hsub⟩ := refineLoop_spec H HT g (refineFuel (initialColor g) (initialColor g)) (initialColor g)
    (sortDesc H HT (initialColor g)) (initialColor_wf g)
  obtain ⟨d, hd, hcd⟩ := hsub c hc
  exact initialColor_InG g d hd n (hcd n hn)

theorem canonLabels_map (σ : Nat → Nat) (hc : Color → Nat)
    (hhc : ∀ c, hc (mapColor (Term.rename σ) c) = hc c) (cs : List Color) :
    canonLabels hc (cs.map (mapColor (Term.rename σ))) = (canonLabels hc cs).map (fun kv => (σ kv.1, kv.2)) := by
  induction cs with
  | nil => rfl
  | cons c cs ih =>
    rw [List.map_cons]
    unfold canonLabels
    rw [ih]
    cases hn : c.nodes with
    | nil => simp [mapColor, hn]
    | cons n rest =>
      have e : (mapColor (Term.rename σ) c).nodes = n.rename σ :: rest.map (Term.rename σ) := by
        simp [mapColor, hn]
      rw [e]
      simp only [rename_blank]
      by_cases hb : n.blank = true
      · have : (n.rename σ).id = σ n.id := by simp [Term.rename, hb]
        simp [hb, this, hhc]
      · simp [hb]

theorem keys_canonLabels_inv {hc : Color → Nat} {cs : List Color} {a : Nat}
    (h : a ∈ keys (canonLabels hc cs)) : ∃ c ∈ cs, ∃ rest, c.nodes = ⟨true, a⟩ :: rest := by
  induction cs with
  | nil => simp [canonLabels, keys] at h
  | cons d ds ih =>
    unfold canonLabels at h
    split at h
    · rename_i n rest hn
      split at h
      · rename_i hb
        simp only [keys, List.map_cons, List.mem_cons] at h
        rcases h with h | h
        · refine ⟨d, List.mem_cons_self, rest, ?_⟩
          rw [hn]
          obtain ⟨nb, ni⟩ := n
          simp only [] at hb h
          rw [hb, h]
        · obtain ⟨c, hc', r⟩ := ih h
          exact ⟨c, List.mem_cons_of_mem _ hc', r⟩
      · obtain ⟨c, hc', r⟩ := ih h
        exact ⟨c, List.mem_cons_of_mem _ hc', r⟩
    · obtain ⟨c, hc', r⟩ := ih h
      exact ⟨c, List.mem_cons_of_mem _ hc', r⟩

theorem alookup_map_inj (σ : Nat → Nat) (a : Nat) :
    ∀ m : Asg, (∀ k ∈ keys m, σ k = σ a → k = a) →
      alookup (m.map (fun kv => (σ kv.1, kv.2))) (σ a) = alookup m a := by
  intro m
  induction m with
  | nil => intro _; rfl
  | cons kv m ih =>
    obtain ⟨k, v⟩ := kv
    intro h
    simp only [List.map_cons, alookup]
    by_cases e : k = a
    · subst e; simp
    · have hne : σ k ≠ σ a := fun e' => e (h k (by simp [keys]) e')
      rw [if_neg hne, if_neg e]
      exact ih (fun k' hk' => h k' (by simp only [keys, List.map_cons, List.mem_cons] at hk' ⊢; exact Or.inr hk'))

theorem canonRefine_rename {σ : Nat → Nat} {g : Graph} (hinj : InjOn σ (bnodes g)) (hp : NoBlankPred g)
    (H : List Item → Nat) (HT : Term → Nat)
    (hcov : ∀ a ∈ bnodes g, a ∈ keys (canonLabels (Color.hash H HT) (refineInit H HT g))) :
    canonRefine H HT (g.rename σ) = canonRefine H HT g := by
  unfold canonRefine canonicalTriples
  rw [refineInit_rename hinj hp, canonLabels_map σ _ (fun c => mapColor_hash _ H HT c), Graph.rename_rename]
  apply Graph.rename_congr
  intro a ha
  simp only [Function.comp, Asg.fn]
  rw [alookup_map_inj]
  · have := (alookup_isSome (m := canonLabels (Color.hash H HT) (refineInit H HT g)) (x := a)).mpr (hcov a ha)
    cases hl : alookup (canonLabels (Color.hash H HT) (refineInit H HT g)) a with
    | none => rw [hl] at this; simp at this
    | some y => rfl
  · intro k hk e
    obtain ⟨c, hc, rest, hn⟩ := keys_canonLabels_inv hk
    have hkg : (⟨true, k⟩ : Term) ∈ gterms g := refineInit_InG H HT g c hc _ (by rw [hn]; exact List.mem_cons_self)
    exact hinj k (blank_id_mem_bnodes hkg rfl) a ha e

end RV.C14
