import RV.C14.Model
/-
  Helper lemmas for C14, part A: renaming, assignments, soundness and completeness of the
  backtracking search (`search`, `isoDecide`, `isoCheck`) against the "raw" isomorphism
  condition  ∃ σ, σ injective on the blank nodes of g ∧ rename σ g = h (as sets).
-/
namespace RV.C14

/-! ### renaming -/

@[simp] theorem Term.rename_blank (σ : Nat → Nat) (t : Term) : (t.rename σ).blank = t.blank := by
  unfold Term.rename
  split
  · next h => simp [h]
  · rfl

theorem Term.bn_rename (σ : Nat → Nat) (t : Term) : (t.rename σ).bn = t.bn.map σ := by
  unfold Term.rename Term.bn
  cases h : t.blank <;> simp [h]

theorem Triple.bn_rename (σ : Nat → Nat) (t : Triple) : (t.rename σ).bn = t.bn.map σ := by
  simp [Triple.rename, Triple.bn, Term.bn_rename]

theorem bnodes_rename (σ : Nat → Nat) (g : Graph) : bnodes (g.rename σ) = (bnodes g).map σ := by
  induction g with
  | nil => rfl
  | cons t g ih =>
    have : Graph.rename σ (t :: g) = t.rename σ :: Graph.rename σ g := rfl
    rw [this]
    simp only [bnodes, List.map_append, Triple.bn_rename, ih]

theorem mem_bnodes {g : Graph} {a : Nat} : a ∈ bnodes g ↔ ∃ t ∈ g, a ∈ t.bn := by
  induction g with
  | nil => simp [bnodes]
  | cons t g ih =>
    simp only [bnodes, List.mem_append, ih, List.mem_cons]
    constructor
    · rintro (h | ⟨t', ht', h⟩)
      · exact ⟨t, Or.inl rfl, h⟩
      · exact ⟨t', Or.inr ht', h⟩
    · rintro ⟨t', (rfl | ht'), h⟩
      · exact Or.inl h
      · exact Or.inr ⟨t', ht', h⟩

theorem bnodes_congr {g h : Graph} (e : SetEq g h) (a : Nat) : a ∈ bnodes g ↔ a ∈ bnodes h := by
  simp only [mem_bnodes]
  constructor
  · rintro ⟨t, ht, ha⟩; exact ⟨t, (e t).1 ht, ha⟩
  · rintro ⟨t, ht, ha⟩; exact ⟨t, (e t).2 ht, ha⟩

theorem Term.rename_congr {σ τ : Nat → Nat} {t : Term} (h : ∀ a ∈ t.bn, σ a = τ a) :
    t.rename σ = t.rename τ := by
  unfold Term.rename
  cases hb : t.blank
  · simp
  · have : σ t.id = τ t.id := h _ (by simp [Term.bn, hb])
    simp [this]

theorem Triple.rename_congr {σ τ : Nat → Nat} {t : Triple} (h : ∀ a ∈ t.bn, σ a = τ a) :
    t.rename σ = t.rename τ := by
  unfold Triple.rename
  have h1 : t.1.rename σ = t.1.rename τ := Term.rename_congr (fun a ha => h a (by simp [Triple.bn, ha]))
  have h2 : t.2.1.rename σ = t.2.1.rename τ := Term.rename_congr (fun a ha => h a (by simp [Triple.bn, ha]))
  have h3 : t.2.2.rename σ = t.2.2.rename τ := Term.rename_congr (fun a ha => h a (by simp [Triple.bn, ha]))
  rw [h1, h2, h3]

theorem Graph.rename_congr {σ τ : Nat → Nat} {g : Graph} (h : ∀ a ∈ bnodes g, σ a = τ a) :
    g.rename σ = g.rename τ := by
  unfold Graph.rename
  apply List.map_congr_left
  intro t ht
  exact Triple.rename_congr (fun a ha => h a (mem_bnodes.mpr ⟨t, ht, ha⟩))

theorem Term.rename_rename (σ τ : Nat → Nat) (t : Term) : (t.rename σ).rename τ = t.rename (τ ∘ σ) := by
  unfold Term.rename
  cases hb : t.blank <;> simp [hb]

theorem Triple.rename_rename (σ τ : Nat → Nat) (t : Triple) :
    (t.rename σ).rename τ = t.rename (τ ∘ σ) := by
  simp [Triple.rename, Term.rename_rename]

theorem Graph.rename_rename (σ τ : Nat → Nat) (g : Graph) :
    (g.rename σ).rename τ = g.rename (τ ∘ σ) := by
  simp [Graph.rename, List.map_map, Function.comp_def, Triple.rename_rename]

theorem Term.rename_id (t : Term) : t.rename (fun a => a) = t := by
  unfold Term.rename
  cases hb : t.blank
  · simp
  · cases t; simp_all

theorem Triple.rename_id (t : Triple) : t.rename (fun a => a) = t := by
  simp [Triple.rename, Term.rename_id]

theorem Graph.rename_id (g : Graph) : g.rename (fun a => a) = g := by
  unfold Graph.rename
  induction g with
  | nil => rfl
  | cons t g ih => rw [List.map_cons, ih, Triple.rename_id]

theorem mem_rename {σ : Nat → Nat} {g : Graph} {t' : Triple} :
    t' ∈ g.rename σ ↔ ∃ t ∈ g, t.rename σ = t' := by
  simp [Graph.rename, List.mem_map]

theorem setEq_rename {σ : Nat → Nat} {g g' : Graph} (e : SetEq g g') : SetEq (g.rename σ) (g'.rename σ) := by
  intro t
  simp only [mem_rename]
  constructor
  · rintro ⟨u, hu, h⟩; exact ⟨u, (e u).1 hu, h⟩
  · rintro ⟨u, hu, h⟩; exact ⟨u, (e u).2 hu, h⟩

/-! ### the raw isomorphism condition -/

def InjOn (σ : Nat → Nat) (l : List Nat) : Prop := ∀ a ∈ l, ∀ b ∈ l, σ a = σ b → a = b

def RawIso (g h : Graph) : Prop := ∃ σ : Nat → Nat, InjOn σ (bnodes g) ∧ SetEq (g.rename σ) h

theorem image_maps {σ : Nat → Nat} {g h : Graph} (e : SetEq (g.rename σ) h) :
    ∀ a ∈ bnodes g, σ a ∈ bnodes h := by
  intro a ha
  rw [← bnodes_congr e, bnodes_rename]
  exact List.mem_map_of_mem ha

theorem image_surj {σ : Nat → Nat} {g h : Graph} (e : SetEq (g.rename σ) h) :
    ∀ b ∈ bnodes h, ∃ a ∈ bnodes g, σ a = b := by
  intro b hb
  rw [← bnodes_congr e, bnodes_rename, List.mem_map] at hb
  exact hb

/-! ### de-duplication -/

theorem mem_foldl_sinsert (l acc : List Nat) (a : Nat) : a ∈ l.foldl sinsert acc ↔ a ∈ acc ∨ a ∈ l := by
  induction l generalizing acc with
  | nil => simp
  | cons x xs ih =>
    simp only [List.foldl_cons, ih, mem_sinsert, List.mem_cons]
    constructor
    · rintro ((h | h) | h)
      · exact Or.inr (Or.inl h)
      · exact Or.inl h
      · exact Or.inr (Or.inr h)
    · rintro (h | h | h)
      · exact Or.inl (Or.inr h)
      · exact Or.inl (Or.inl h)
      · exact Or.inr h

theorem nodup_foldl_sinsert (l acc : List Nat) (h : acc.Nodup) : (l.foldl sinsert acc).Nodup := by
  induction l generalizing acc with
  | nil => simpa
  | cons x xs ih => exact ih _ (nodup_sinsert h)

@[simp] theorem mem_dedup {l : List Nat} {a : Nat} : a ∈ dedup l ↔ a ∈ l := by
  simp [dedup, mem_foldl_sinsert]

theorem nodup_dedup (l : List Nat) : (dedup l).Nodup := nodup_foldl_sinsert l [] List.nodup_nil

/-! ### assignments -/

theorem alookup_mem {m : Asg} {x y : Nat} (h : alookup m x = some y) : (x, y) ∈ m := by
  induction m with
  | nil => simp [alookup] at h
  | cons p m ih =>
    obtain ⟨k, v⟩ := p
    unfold alookup at h
    split at h
    · next hk => subst hk; injection h with h; subst h; exact List.mem_cons_self
    · exact List.mem_cons_of_mem _ (ih h)

theorem alookup_isSome {m : Asg} {x : Nat} : (alookup m x).isSome = true ↔ x ∈ keys m := by
  induction m with
  | nil => simp [alookup, keys]
  | cons p m ih =>
    obtain ⟨k, v⟩ := p
    unfold alookup
    split
    · next hk => subst hk; simp [keys]
    · next hk =>
      rw [ih]
      simp only [keys, List.map_cons, List.mem_cons]
      constructor
      · exact Or.inr
      · rintro (h | h)
        · exact absurd h.symm hk
        · exact h

theorem mem_vals_of_lookup {m : Asg} {x y : Nat} (h : alookup m x = some y) : y ∈ vals m := by
  have := alookup_mem h
  exact List.mem_map.mpr ⟨(x, y), this, rfl⟩

/-- with pairwise distinct values, two keys that look up the same value are equal -/
theorem lookup_inj {m : Asg} (hv : (vals m).Nodup) {a b v : Nat}
    (ha : alookup m a = some v) (hb : alookup m b = some v) : a = b := by
  induction m with
  | nil => simp [alookup] at ha
  | cons p m ih =>
    obtain ⟨k, w⟩ := p
    simp only [vals, List.map_cons, List.nodup_cons] at hv
    unfold alookup at ha hb
    split at ha
    · next hka =>
      split at hb
      · next hkb => rw [← hka, ← hkb]
      · next hkb =>
        injection ha with ha
        subst ha
        exact absurd (mem_vals_of_lookup hb) hv.1
    · next hka =>
      split at hb
      · next hkb =>
        injection hb with hb
        subst hb
        exact absurd (mem_vals_of_lookup ha) hv.1
      · exact ih hv.2 ha hb

/-- the assignment agrees with a renaming -/
def Agrees (m : Asg) (σ : Nat → Nat) : Prop := ∀ p ∈ m, σ p.1 = p.2

theorem Agrees.lookup {m : Asg} {σ : Nat → Nat} (h : Agrees m σ) {x y : Nat}
    (hl : alookup m x = some y) : σ x = y := h (x, y) (alookup_mem hl)

theorem Agrees.fn {m : Asg} {σ : Nat → Nat} (h : Agrees m σ) {x : Nat} (hx : x ∈ keys m) :
    m.fn x = σ x := by
  unfold Asg.fn
  cases hl : alookup m x with
  | none => rw [← alookup_isSome, hl] at hx; simp at hx
  | some y => simp [h.lookup hl]

theorem Term.rename_fn {m : Asg} {σ : Nat → Nat} (h : Agrees m σ) {t : Term}
    (ht : t.assigned m = true) : t.rename m.fn = t.rename σ := by
  apply Term.rename_congr
  intro a ha
  unfold Term.bn at ha
  cases hb : t.blank
  · simp [hb] at ha
  · simp [hb] at ha
    subst ha
    have : (alookup m t.id).isSome = true := by simpa [Term.assigned, hb] using ht
    exact h.fn (alookup_isSome.mp this)

theorem Triple.rename_fn {m : Asg} {σ : Nat → Nat} (h : Agrees m σ) {t : Triple}
    (ht : t.assigned m = true) : t.rename m.fn = t.rename σ := by
  simp only [Triple.assigned, Bool.and_eq_true] at ht
  unfold Triple.rename
  rw [Term.rename_fn h ht.1.1, Term.rename_fn h ht.1.2, Term.rename_fn h ht.2]

/-! ### the leaf check -/

theorem leaf_iff {g h : Graph} {m : Asg} : leaf g h m = true ↔ SetEq (g.rename m.fn) h := by
  simp only [leaf, Bool.and_eq_true, List.all_eq_true, decide_eq_true_eq]
  constructor
  · rintro ⟨h1, h2⟩ t
    constructor
    · intro ht
      obtain ⟨u, hu, e⟩ := mem_rename.mp ht
      rw [← e]; exact h1 u hu
    · exact h2 t
  · intro e
    exact ⟨fun t ht => (e _).1 (mem_rename.mpr ⟨t, ht, rfl⟩), fun t ht => (e t).2 ht⟩

theorem partialOk_of_agrees {g h : Graph} {m : Asg} {σ : Nat → Nat} (ha : Agrees m σ)
    (e : SetEq (g.rename σ) h) : partialOk g h m = true := by
  simp only [partialOk, List.all_eq_true, Bool.or_eq_true, Bool.not_eq_true', decide_eq_true_eq]
  intro t ht
  cases hta : t.assigned m
  · exact Or.inl rfl
  · right
    rw [Triple.rename_fn ha hta]
    exact (e _).1 (mem_rename.mpr ⟨t, ht, rfl⟩)

/-! ### soundness of the search -/

theorem search_sound (g h : Graph) (hb : List Nat) :
    ∀ (xs : List Nat) (m : Asg), search g h hb xs m = true →
      ∃ m', leaf g h m' = true ∧ (∀ x, x ∈ xs ∨ x ∈ keys m → x ∈ keys m') ∧
        ((vals m).Nodup → (vals m').Nodup) := by
  intro xs
  induction xs with
  | nil =>
    intro m hs
    exact ⟨m, hs, fun x hx => hx.elim (fun h => by simp at h) id, id⟩
  | cons x xs ih =>
    intro m hs
    simp only [search, List.any_eq_true, Bool.and_eq_true, Bool.not_eq_true', decide_eq_false_iff_not] at hs
    obtain ⟨y, _hy, ⟨hfree, _hpo⟩, hrec⟩ := hs
    obtain ⟨m', hl, hk, hv⟩ := ih _ hrec
    refine ⟨m', hl, ?_, ?_⟩
    · intro z hz
      apply hk
      simp only [keys, List.map_cons, List.mem_cons] at hz ⊢
      rcases hz with (hz | hz) | hz
      · exact Or.inr (Or.inl hz)
      · exact Or.inl hz
      · exact Or.inr (Or.inr hz)
    · intro hn
      apply hv
      simp only [vals, List.map_cons, List.nodup_cons]
      exact ⟨hfree, hn⟩

theorem injOn_of_assignment {g : Graph} {m : Asg} (hk : ∀ a ∈ bnodes g, a ∈ keys m)
    (hv : (vals m).Nodup) : InjOn m.fn (bnodes g) := by
  intro a ha b hb hab
  have h1 := alookup_isSome.mpr (hk a ha)
  have h2 := alookup_isSome.mpr (hk b hb)
  cases hla : alookup m a with
  | none => simp [hla] at h1
  | some va =>
    cases hlb : alookup m b with
    | none => simp [hlb] at h2
    | some vb =>
      simp only [Asg.fn, hla, hlb] at hab
      subst hab
      exact lookup_inj hv hla hlb

theorem isoDecide_sound {g h : Graph} (hd : isoDecide g h = true) : RawIso g h := by
  simp only [isoDecide, Bool.and_eq_true] at hd
  obtain ⟨m', hl, hk, hv⟩ := search_sound g h _ _ _ hd.2
  refine ⟨m'.fn, ?_, leaf_iff.mp hl⟩
  apply injOn_of_assignment
  · intro a ha
    exact hk a (Or.inl (mem_dedup.mpr ha))
  · exact hv (by simp [vals])

/-! ### completeness of the search -/

theorem search_complete {g h : Graph} {hb : List Nat} {σ : Nat → Nat}
    (hinj : InjOn σ (bnodes g)) (e : SetEq (g.rename σ) h) (hhb : ∀ b, b ∈ bnodes h → b ∈ hb) :
    ∀ (xs : List Nat) (m : Asg), Agrees m σ → (∀ p ∈ m, p.1 ∈ bnodes g) →
      (∀ x ∈ xs, x ∈ bnodes g) → xs.Nodup → (∀ x ∈ xs, x ∉ keys m) →
      (∀ a ∈ bnodes g, a ∈ keys m ∨ a ∈ xs) → search g h hb xs m = true := by
  intro xs
  induction xs with
  | nil =>
    intro m hag _ _ _ _ hcov
    simp only [search]
    rw [leaf_iff]
    have : g.rename m.fn = g.rename σ := by
      apply Graph.rename_congr
      intro a ha
      rcases hcov a ha with h1 | h1
      · exact hag.fn h1
      · simp at h1
    rw [this]; exact e
  | cons x xs ih =>
    intro m hag hkeys hxs hnd hfresh hcov
    simp only [search, List.any_eq_true, Bool.and_eq_true, Bool.not_eq_true', decide_eq_false_iff_not]
    have hxg : x ∈ bnodes g := hxs x List.mem_cons_self
    have hag' : Agrees ((x, σ x) :: m) σ := by
      intro p hp
      rcases List.mem_cons.mp hp with rfl | hp
      · rfl
      · exact hag p hp
    refine ⟨σ x, hhb _ (image_maps e x hxg), ⟨?_, partialOk_of_agrees hag' e⟩, ?_⟩
    · intro hv
      obtain ⟨p, hp, hpy⟩ := List.mem_map.mp hv
      have h1 : σ p.1 = σ x := by rw [hag p hp]; exact hpy
      have h2 : p.1 = x := hinj _ (hkeys p hp) _ hxg h1
      exact hfresh x List.mem_cons_self (List.mem_map.mpr ⟨p, hp, h2⟩)
    · rw [List.nodup_cons] at hnd
      apply ih _ hag'
      · intro p hp
        rcases List.mem_cons.mp hp with rfl | hp
        · exact hxg
        · exact hkeys p hp
      · exact fun z hz => hxs z (List.mem_cons_of_mem _ hz)
      · exact hnd.2
      · intro z hz hzk
        simp only [keys, List.map_cons, List.mem_cons] at hzk
        rcases hzk with rfl | hzk
        · exact hnd.1 hz
        · exact hfresh z (List.mem_cons_of_mem _ hz) hzk
      · intro a ha
        simp only [keys, List.map_cons, List.mem_cons]
        rcases hcov a ha with h1 | h1
        · exact Or.inl (Or.inr h1)
        · rcases List.mem_cons.mp h1 with rfl | h1
          · exact Or.inl (Or.inl rfl)
          · exact Or.inr h1

theorem isoDecide_complete {g h : Graph} (hi : RawIso g h) : isoDecide g h = true := by
  obtain ⟨σ, hinj, e⟩ := hi
  simp only [isoDecide, Bool.and_eq_true]
  constructor
  · simp only [coverOk, List.all_eq_true, List.any_eq_true]
    intro y hy
    obtain ⟨a, ha, hay⟩ := image_surj e y (mem_dedup.mp hy)
    refine ⟨a, mem_dedup.mpr ha, partialOk_of_agrees ?_ e⟩
    intro p hp
    simp only [List.mem_singleton] at hp
    subst hp
    exact hay
  · apply search_complete hinj e (fun b hb => mem_dedup.mpr hb)
    · intro p hp; simp at hp
    · intro p hp; simp at hp
    · intro x hx; exact mem_dedup.mp hx
    · exact nodup_dedup _
    · intro x _ hk; simp [keys] at hk
    · intro a ha; exact Or.inr (mem_dedup.mpr ha)

theorem isoDecide_iff {g h : Graph} : isoDecide g h = true ↔ RawIso g h :=
  ⟨isoDecide_sound, isoDecide_complete⟩

/-! ### the certificate checker -/

theorem valsNodup_iff {m : Asg} : valsNodup m = true ↔ (vals m).Nodup := by
  induction m with
  | nil => simp [valsNodup, vals]
  | cons p m ih =>
    obtain ⟨k, v⟩ := p
    have hv : vals ((k, v) :: m) = v :: vals m := rfl
    rw [hv, List.nodup_cons, ← ih]
    simp [valsNodup]

theorem isoCheck_sound' {m : Asg} {g h : Graph} (hc : isoCheck m g h = true) : RawIso g h := by
  simp only [isoCheck, Bool.and_eq_true, List.all_eq_true] at hc
  obtain ⟨⟨hk, hv⟩, hl⟩ := hc
  refine ⟨m.fn, ?_, leaf_iff.mp hl⟩
  exact injOn_of_assignment (fun a ha => alookup_isSome.mp (hk a ha)) (valsNodup_iff.mp hv)

end RV.C14

namespace RV.C14

/-! ### the raw condition is an equivalence; relabelling -/

theorem rawIso_of_setEq {g h : Graph} (e : SetEq g h) : RawIso g h :=
  ⟨fun a => a, fun _ _ _ _ hab => hab, by rw [Graph.rename_id]; exact e⟩

theorem rawIso_refl (g : Graph) : RawIso g g := rawIso_of_setEq (SetEq.refl g)

theorem rawIso_trans {g h k : Graph} (h1 : RawIso g h) (h2 : RawIso h k) : RawIso g k := by
  obtain ⟨σ, hσ, e1⟩ := h1
  obtain ⟨τ, hτ, e2⟩ := h2
  refine ⟨τ ∘ σ, ?_, ?_⟩
  · intro a ha b hb hab
    exact hσ a ha b hb (hτ _ (image_maps e1 a ha) _ (image_maps e1 b hb) hab)
  · rw [← Graph.rename_rename]
    exact SetEq.trans (setEq_rename e1) e2

theorem rawIso_symm {g h : Graph} (h1 : RawIso g h) : RawIso h g := by
  classical
  obtain ⟨σ, hσ, e⟩ := h1
  let τ : Nat → Nat := fun b =>
    if hx : ∃ a, a ∈ bnodes g ∧ σ a = b then Classical.choose hx else b
  have hτσ : ∀ a ∈ bnodes g, τ (σ a) = a := by
    intro a ha
    have hx : ∃ a', a' ∈ bnodes g ∧ σ a' = σ a := ⟨a, ha, rfl⟩
    have hsp := Classical.choose_spec hx
    simp only [τ, dif_pos hx]
    exact hσ _ hsp.1 _ ha hsp.2
  refine ⟨τ, ?_, ?_⟩
  · intro b1 hb1 b2 hb2 hb
    obtain ⟨a1, ha1, rfl⟩ := image_surj e b1 hb1
    obtain ⟨a2, ha2, rfl⟩ := image_surj e b2 hb2
    rw [hτσ a1 ha1, hτσ a2 ha2] at hb
    rw [hb]
  · have h2 : SetEq (h.rename τ) ((g.rename σ).rename τ) := setEq_rename (SetEq.symm e)
    rw [Graph.rename_rename] at h2
    have h3 : g.rename (τ ∘ σ) = g.rename (fun a => a) :=
      Graph.rename_congr (fun a ha => hτσ a ha)
    rw [h3, Graph.rename_id] at h2
    exact h2

theorem rawIso_relabel {g : Graph} {ℓ : Nat → Nat} (hinj : InjOn ℓ (bnodes g)) : RawIso g (g.rename ℓ) :=
  ⟨ℓ, hinj, SetEq.refl _⟩

/-! ### set algebra of `graph_diff` -/

@[simp] theorem mem_ginter {a b : Graph} {t : Triple} : t ∈ ginter a b ↔ t ∈ a ∧ t ∈ b := by
  simp [ginter, List.mem_filter, and_comm]

@[simp] theorem mem_gdiff {a b : Graph} {t : Triple} : t ∈ gdiff a b ↔ t ∈ a ∧ t ∉ b := by
  simp [gdiff, List.mem_filter]

@[simp] theorem mem_gunion {a b : Graph} {t : Triple} : t ∈ gunion a b ↔ t ∈ a ∨ t ∈ b := by
  unfold gunion
  induction b generalizing a with
  | nil => simp
  | cons x xs ih =>
    simp only [List.foldl_cons, ih, mem_sinsert, List.mem_cons]
    constructor
    · rintro ((h | h) | h)
      · exact Or.inr (Or.inl h)
      · exact Or.inl h
      · exact Or.inr (Or.inr h)
    · rintro (h | h | h)
      · exact Or.inl (Or.inr h)
      · exact Or.inl (Or.inl h)
      · exact Or.inr h

theorem diff_union_first (A B : Graph) : SetEq (gunion (ginter A B) (gdiff A B)) A := by
  intro t
  simp only [mem_gunion, mem_ginter, mem_gdiff]
  by_cases hb : t ∈ B <;> simp [hb]

theorem diff_disjoint (A B : Graph) (t : Triple) : ¬ (t ∈ gdiff A B ∧ t ∈ gdiff B A) := by
  simp only [mem_gdiff]
  rintro ⟨⟨_, h2⟩, ⟨h3, _⟩⟩
  exact h2 h3

theorem inter_comm_setEq (A B : Graph) : SetEq (ginter A B) (ginter B A) := by
  intro t; simp [and_comm]

end RV.C14
