import RV.Base.SetList
/-
  C14 — executable models.

  Part A (the property's independent oracle, DESIGN §6 C14 "reference semantics"):
    RDF terms are `⟨blank, id⟩` (the harness owns the numbering of IRIs / literals /
    blank-node labels), graphs are lists of triples read as sets.
    `isoDecide g h` = backtracking search for an injective assignment of the blank
    nodes of `g` to blank nodes of `h`, pruned by forward checking (`partialOk`: every
    triple of `g` whose blank nodes are all assigned must already land in `h`), with
    full two-way image comparison at the leaves (`leaf`).
    `isoCheck m g h` = certificate checker for a given assignment.

  Part B: the set algebra behind `graph_diff` (`Graph.__mul__`, `__sub__`, `__add__`).

  Part C: skolemisation (`BNode.skolemize`, `URIRef.de_skolemize`, `Genid`, `RDFLibGenid`,
    `Graph.skolemize / de_skolemize`) over string-labelled terms; `urlparse`/`urljoin`
    are parameters (`UrlOps`) with a small concrete instance for the driver.

  Part D (`RV/C14/Canon.lean`): colour refinement of `_TripleCanonicalizer`.
-/
namespace RV.C14

/-! ## Part A — terms, graphs, renaming -/

structure Term where
  blank : Bool
  id : Nat
  deriving DecidableEq, Repr

abbrev Triple := Term × Term × Term
abbrev Graph := List Triple

def Term.rename (σ : Nat → Nat) (t : Term) : Term :=
  if t.blank then ⟨true, σ t.id⟩ else t

def Triple.rename (σ : Nat → Nat) (t : Triple) : Triple :=
  (t.1.rename σ, t.2.1.rename σ, t.2.2.rename σ)

def Graph.rename (σ : Nat → Nat) (g : Graph) : Graph := g.map (Triple.rename σ)

/-- blank-node ids of a term / triple / graph (as a list; only membership matters) -/
def Term.bn (t : Term) : List Nat := if t.blank then [t.id] else []
def Triple.bn (t : Triple) : List Nat := t.1.bn ++ (t.2.1.bn ++ t.2.2.bn)
def bnodes : Graph → List Nat
  | [] => []
  | t :: g => t.bn ++ bnodes g

/-- first-occurrence de-duplication (`set(...)` with a fixed iteration order) -/
def dedup (l : List Nat) : List Nat := l.foldl sinsert []

/-! ### assignments (Python `dict` bnode → bnode) -/

abbrev Asg := List (Nat × Nat)

def alookup : Asg → Nat → Option Nat
  | [], _ => none
  | (k, v) :: m, x => if k = x then some v else alookup m x

/-- the renaming induced by an assignment (identity where unassigned) -/
def Asg.fn (m : Asg) (x : Nat) : Nat :=
  match alookup m x with
  | some y => y
  | none => x

def vals (m : Asg) : List Nat := m.map (·.2)
def keys (m : Asg) : List Nat := m.map (·.1)

def Term.assigned (m : Asg) (t : Term) : Bool := !t.blank || (alookup m t.id).isSome
def Triple.assigned (m : Asg) (t : Triple) : Bool :=
  t.1.assigned m && t.2.1.assigned m && t.2.2.assigned m

/-- forward check: every fully assigned triple of `g` is mapped into `h` -/
def partialOk (g h : Graph) (m : Asg) : Bool :=
  g.all (fun t => !t.assigned m || decide (t.rename m.fn ∈ h))

/-- leaf check: the image of `g` under the assignment equals `h` as a set -/
def leaf (g h : Graph) (m : Asg) : Bool :=
  g.all (fun t => decide (t.rename m.fn ∈ h)) && h.all (fun t => decide (t ∈ g.rename m.fn))

/-- assign the blank nodes `xs` of `g` one by one to unused blank nodes of `h` -/
def search (g h : Graph) (hb : List Nat) : List Nat → Asg → Bool
  | [], m => leaf g h m
  | x :: xs, m =>
    hb.any (fun y => !decide (y ∈ vals m) && partialOk g h ((x, y) :: m) && search g h hb xs ((x, y) :: m))

/-- cheap necessary condition: every blank node of `h` is a possible image of some blank node of `g` -/
def coverOk (g h : Graph) (gb hb : List Nat) : Bool :=
  hb.all (fun y => gb.any (fun x => partialOk g h [(x, y)]))

def isoDecide (g h : Graph) : Bool :=
  coverOk g h (dedup (bnodes g)) (dedup (bnodes h)) &&
    search g h (dedup (bnodes h)) (dedup (bnodes g)) []

/-- values of an assignment pairwise distinct -/
def valsNodup : Asg → Bool
  | [] => true
  | (_, v) :: m => !decide (v ∈ vals m) && valsNodup m

/-- certificate check: `m` assigns every blank node of `g`, injectively, and maps `g` onto `h` -/
def isoCheck (m : Asg) (g h : Graph) : Bool :=
  (bnodes g).all (fun a => (alookup m a).isSome) && valsNodup m && leaf g h m

/-! ## Part B — `graph_diff` set algebra
    `Graph.__mul__`: `for x in other: if x in self: retval.add(x)`;
    `Graph.__sub__`: `for x in self: if x not in other: retval.add(x)`;
    `Graph.__add__`: copy of self, then add every triple of other. -/

def ginter (a b : Graph) : Graph := b.filter (fun t => decide (t ∈ a))
def gdiff (a b : Graph) : Graph := a.filter (fun t => !decide (t ∈ b))
def gunion (a b : Graph) : Graph := b.foldl sinsert a

/-- `graph_diff` after canonicalisation: `(in_both, in_first, in_second)` -/
def graphDiff (canon : Graph → Graph) (g1 g2 : Graph) : Graph × Graph × Graph :=
  let c1 := canon g1
  let c2 := canon g2
  (ginter c1 c2, gdiff c1 c2, gdiff c2 c1)

/-! ## Part C — skolemisation over string-labelled terms -/

abbrev Str := List Char

inductive STerm
  | iri (s : Str)
  | bnode (l : Str)
  | lit (lex : Str) (tag : Nat)   -- lexical form + opaque datatype/language tag; the lexical form may LOOK like an IRI
  deriving DecidableEq, Repr

abbrev STriple := STerm × STerm × STerm
abbrev SGraph := List STriple

/-- what the code asks of `urllib.parse` -/
structure UrlOps where
  /-- `urljoin(authority, path)` for an absolute path -/
  join : Str → Str → Str
  /-- `urlparse(u).path` -/
  path : Str → Str
  /-- `urlparse(u)` has non-empty params, query or fragment -/
  pqf : Str → Bool

def skolemGenid : Str := "/.well-known/genid/".toList
def rdflibSkolemGenid : Str := "/.well-known/genid/rdflib/".toList
def defaultAuthority : Str := "https://rdflib.github.io".toList

def isPrefix : Str → Str → Bool
  | [], _ => true
  | _ :: _, [] => false
  | a :: as, b :: bs => a == b && isPrefix as bs

/-- does `pat` occur in `s` at some position ≥ 0 -/
def occurs (pat : Str) : Str → Bool
  | [] => isPrefix pat []
  | c :: cs => isPrefix pat (c :: cs) || occurs pat cs

/-- `s.rfind(pat) == 0`: `pat` is a prefix of `s` and does not occur again further right -/
def rfindZero (pat s : Str) : Bool :=
  isPrefix pat s && !(match s with | [] => false | _ :: cs => occurs pat cs)

/-- `RDFLibGenid._is_rdflib_skolem` -/
def isRdflibSkolem (U : UrlOps) (u : Str) : Bool :=
  !U.pqf u && rfindZero rdflibSkolemGenid (U.path u)

/-- `Genid._is_external_skolem` -/
def isExternalSkolem (U : UrlOps) (u : Str) : Bool :=
  rfindZero skolemGenid (U.path u)

/-- `BNode.skolemize(authority, basepath)` -/
def skolemizeLabelAt (U : UrlOps) (auth base : Str) (l : Str) : Str := U.join auth (base ++ l)

/-- `BNode.skolemize(authority=None, basepath=None)` -/
def skolemizeLabel (U : UrlOps) (l : Str) : Str := skolemizeLabelAt U defaultAuthority rdflibSkolemGenid l

/-- `do_skolemize2` on one subject / object term (literals and IRIs untouched) -/
def skTermAt (U : UrlOps) (auth base : Str) : STerm → STerm
  | .bnode l => .iri (skolemizeLabelAt U auth base l)
  | t => t

def skTerm (U : UrlOps) : STerm → STerm := skTermAt U defaultAuthority rdflibSkolemGenid

/-- `do_de_skolemize2` on one subject / object term; `fresh` = the `skolems` dict + `BNode()` -/
def deskTerm (U : UrlOps) (fresh : Str → Str) : STerm → STerm
  | .iri u =>
    if isRdflibSkolem U u then .bnode ((U.path u).drop rdflibSkolemGenid.length)
    else if isExternalSkolem U u then .bnode (fresh u)
    else .iri u
  | t => t

/-- `Graph.skolemize(authority=…, basepath=…)` — subject and object only, predicate untouched -/
def skolemizeAt (U : UrlOps) (auth base : Str) (g : SGraph) : SGraph :=
  g.map (fun t => (skTermAt U auth base t.1, t.2.1, skTermAt U auth base t.2.2))

/-- partial skolemisation: `g.skolemize(bnode=b)` for every `b` of `sel`, one call after the other
    (`do_skolemize`: only subject / object terms EQUAL to the chosen blank node are replaced) -/
def skTermSel (U : UrlOps) (auth base : Str) (sel : List Str) : STerm → STerm
  | .bnode l => if l ∈ sel then .iri (skolemizeLabelAt U auth base l) else .bnode l
  | t => t

def skolemizeSel (U : UrlOps) (auth base : Str) (sel : List Str) (g : SGraph) : SGraph :=
  g.map (fun t => (skTermSel U auth base sel t.1, t.2.1, skTermSel U auth base sel t.2.2))

/-- `Graph.de_skolemize(uriref=u)` for every `u` of `iris`, one call after the other (`do_de_skolemize`: only
    subject / object IRIs whose text equals the given rdflib skolem IRI are replaced; everything else is copied) -/
def deskTermOnly (U : UrlOps) (fresh : Str → Str) (iris : List Str) : STerm → STerm
  | .iri u => if u ∈ iris then deskTerm U fresh (.iri u) else .iri u
  | t => t

def deSkolemizeOnly (U : UrlOps) (fresh : Str → Str) (iris : List Str) (g : SGraph) : SGraph :=
  g.map (fun t => (deskTermOnly U fresh iris t.1, t.2.1, deskTermOnly U fresh iris t.2.2))

/-- `Graph.skolemize()` -/
def skolemize (U : UrlOps) (g : SGraph) : SGraph :=
  g.map (fun t => (skTerm U t.1, t.2.1, skTerm U t.2.2))

/-- `Graph.de_skolemize()` -/
def deSkolemize (U : UrlOps) (fresh : Str → Str) (g : SGraph) : SGraph :=
  g.map (fun t => (deskTerm U fresh t.1, t.2.1, deskTerm U fresh t.2.2))

/-! ### the code as it runs: `URIRef.de_skolemize` consults the module-level dict `skolems`
    (`if bnode_id in skolems: return skolems[bnode_id] else: retval = BNode(); skolems[bnode_id] = retval`).
    State = the dict (entries are only ever ADDED) and a counter standing for the `uuid4` supply;
    `mint k` is the label of the k-th fresh `BNode()`. -/

abbrev SkCache := List (Str × Str)

def clookup : SkCache → Str → Option Str
  | [], _ => none
  | (k, v) :: m, x => if k = x then some v else clookup m x

structure SkState where
  cache : SkCache
  next : Nat

def deskTermSt (U : UrlOps) (mint : Nat → Str) (st : SkState) : STerm → STerm × SkState
  | .iri u =>
    if isRdflibSkolem U u then (.bnode ((U.path u).drop rdflibSkolemGenid.length), st)
    else if isExternalSkolem U u then
      match clookup st.cache u with
      | some l => (.bnode l, st)
      | none => (.bnode (mint st.next), ⟨(u, mint st.next) :: st.cache, st.next + 1⟩)
    else (.iri u, st)
  | t => (t, st)

/-- `Graph.de_skolemize()` triple by triple, subject then object, threading the dict -/
def deSkolemizeSt (U : UrlOps) (mint : Nat → Str) : SkState → SGraph → SGraph × SkState
  | st, [] => ([], st)
  | st, t :: g =>
    let r1 := deskTermSt U mint st t.1
    let r2 := deskTermSt U mint r1.2 t.2.2
    let rest := deSkolemizeSt U mint r2.2 g
    ((r1.1, t.2.1, r2.1) :: rest.1, rest.2)

/-- the label map a dict stands for (`dflt` where the dict has no entry) -/
def SkCache.fn (c : SkCache) (dflt : Str → Str) (u : Str) : Str :=
  match clookup c u with
  | some l => l
  | none => dflt u

/-! concrete `urllib.parse` for IRIs of the shape `scheme://authority/path[?query][#fragment]`
    (the driver's instance; the theorems are about an arbitrary `UrlOps` with a stated contract) -/

/-- drop `scheme://authority`, i.e. everything up to the third `/` -/
def dropAuthority : Nat → Str → Str
  | _, [] => []
  | n, c :: cs =>
    if c = '/' then (if n = 0 then c :: cs else dropAuthority (n - 1) cs) else dropAuthority n cs

def takePath : Str → Str
  | [] => []
  | c :: cs => if c = '?' ∨ c = '#' then [] else c :: takePath cs

/-- `;params` are split off the last path segment only -/
def lastSegHasSemi : Str → Bool → Bool
  | [], b => b
  | c :: cs, b => if c = '/' then lastSegHasSemi cs false else if c = ';' then lastSegHasSemi cs true else lastSegHasSemi cs b

def stripParams (p : Str) : Str :=
  if lastSegHasSemi p false then
    -- cut at the first `;` of the last segment
    let rev := p.reverse
    let seg := rev.takeWhile (· ≠ '/')
    let before := (rev.dropWhile (· ≠ '/')).reverse
    before ++ (seg.reverse.takeWhile (· ≠ ';'))
  else p

def hasAbsShape (u : Str) : Bool := occurs "://".toList u

def rawPath (u : Str) : Str :=
  if hasAbsShape u then takePath (dropAuthority 2 u) else takePath u

def simplePath (u : Str) : Str := stripParams (rawPath u)

def simplePqf (u : Str) : Bool :=
  u.any (fun c => c = '?' || c = '#') || lastSegHasSemi (rawPath u) false

/-- split `scheme://authority` from the path: everything before the third `/` and the rest (with that `/`) -/
def splitRoot : Nat → Str → Str × Str
  | _, [] => ([], [])
  | n, c :: cs =>
    if c = '/' then
      (if n = 0 then ([], c :: cs) else let r := splitRoot (n - 1) cs; (c :: r.1, r.2))
    else let r := splitRoot n cs; (c :: r.1, r.2)

/-- directory part of a path: up to and including its last `/` (`/` for an empty path) -/
def dirOf (path : Str) : Str :=
  match (path.reverse.dropWhile (· ≠ '/')).reverse with
  | [] => ['/']
  | d => d

/-- `urljoin(base, ref)` for a base `scheme://authority[/path]` without query/fragment and a reference that is a
    path: an absolute path replaces the base path, a relative one is merged with its directory (RFC 3986 §5.2.2-3;
    no dot segments occur in the references the code builds) -/
def simpleJoin (a p : Str) : Str :=
  match p with
  | '/' :: _ => (splitRoot 2 a).1 ++ p
  | _ => (splitRoot 2 a).1 ++ dirOf (splitRoot 2 a).2 ++ p

def simpleUrl : UrlOps where
  join := simpleJoin
  path := simplePath
  pqf := simplePqf

end RV.C14
