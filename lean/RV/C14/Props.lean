import RV.C14.Lemmas
import RV.C14.SkolemLemmas
import RV.C14.CanonLemmas
import RV.C14.SearchLemmas
import RV.C14.RefineLemmas
import RV.C14.RefineEquiv
import RV.C14.RefineStable
import RV.C14.RefineStable2
import RV.C14.RefineWitness
import RV.C14.TracesEquiv
/-
  C14 — property statements and theorems.

  "Graph isomorphism and canonicalisation decide equality up to blank-node renaming."

  Specification: `Spec.Iso g h` — a bijection between the blank nodes of `g` and of `h`
  (identity on every other term) that maps `g` onto `h` as a set of triples.
-/
namespace RV.C14

/-! ## Specification -/

/-- `σ` is an isomorphism from `g` to `h`: a bijection `bnodes g → bnodes h` with `σ(g) = h`. -/
structure IsIso (σ : Nat → Nat) (g h : Graph) : Prop where
  inj : ∀ a ∈ bnodes g, ∀ b ∈ bnodes g, σ a = σ b → a = b
  maps : ∀ a ∈ bnodes g, σ a ∈ bnodes h
  surj : ∀ b ∈ bnodes h, ∃ a ∈ bnodes g, σ a = b
  image : SetEq (g.rename σ) h

def Spec.Iso (g h : Graph) : Prop := ∃ σ : Nat → Nat, IsIso σ g h

/-- glue: the bijection conditions `maps`/`surj` follow from injectivity and the image equation -/
theorem iso_iff_raw {g h : Graph} : Spec.Iso g h ↔ RawIso g h :=
  ⟨fun ⟨σ, hσ⟩ => ⟨σ, hσ.inj, hσ.image⟩,
   fun ⟨σ, hi, e⟩ => ⟨σ, ⟨hi, image_maps e, image_surj e, e⟩⟩⟩

/-! ## Statements -/

/-- the verified oracle: the backtracking search answers `true` exactly on isomorphic graphs -/
def Statement_isoDecide_correct : Prop :=
  ∀ g h : Graph, isoDecide g h = true ↔ Spec.Iso g h

/-- a certificate accepted by `isoCheck` proves isomorphism (used for pairs too large for the search) -/
def Statement_isoCheck_sound : Prop :=
  ∀ (m : Asg) (g h : Graph), isoCheck m g h = true → Spec.Iso g h

/-- "equal up to blank-node renaming" is an equivalence relation -/
def Statement_iso_equiv : Prop :=
  (∀ g, Spec.Iso g g) ∧ (∀ g h, Spec.Iso g h → Spec.Iso h g) ∧
    (∀ g h k, Spec.Iso g h → Spec.Iso h k → Spec.Iso g k)

/-- relabelling the blank nodes injectively (and re-ordering / duplicating the triple list) gives an isomorphic graph -/
def Statement_relabel_iso : Prop :=
  ∀ (g g' : Graph) (ℓ : Nat → Nat), (∀ a ∈ bnodes g, ∀ b ∈ bnodes g, ℓ a = ℓ b → a = b) →
    SetEq g' (g.rename ℓ) → Spec.Iso g g'

/-- the set algebra of `graph_diff`: both ∪ first = A, both ∪ second = B, first ∩ second = ∅ -/
def Statement_diff_algebra : Prop :=
  ∀ A B : Graph,
    SetEq (gunion (ginter A B) (gdiff A B)) A ∧ SetEq (gunion (ginter A B) (gdiff B A)) B ∧
      ∀ t, ¬ (t ∈ gdiff A B ∧ t ∈ gdiff B A)

/-- the property's three `graph_diff` clauses, for any canonicaliser that returns a relabelling of its input -/
def Statement_diff_clauses : Prop :=
  ∀ (canon : Graph → Graph), (∀ g, Spec.Iso g (canon g)) → ∀ g1 g2 : Graph,
    Spec.Iso (gunion (graphDiff canon g1 g2).1 (graphDiff canon g1 g2).2.1) g1 ∧
    Spec.Iso (gunion (graphDiff canon g1 g2).1 (graphDiff canon g1 g2).2.2) g2 ∧
    ∀ t, ¬ (t ∈ (graphDiff canon g1 g2).2.1 ∧ t ∈ (graphDiff canon g1 g2).2.2)

/-- a canonicaliser that is sound (`canon g ≅ g`) and complete (isomorphic inputs give EQUAL outputs)
    decides isomorphism by equality of canonical graphs — the logic behind `isomorphic` / `__eq__` -/
def Statement_canon_decides : Prop :=
  ∀ (canon : Graph → Graph), (∀ g, Spec.Iso g (canon g)) →
    (∀ g h, Spec.Iso g h → SetEq (canon g) (canon h)) →
    ∀ g h, SetEq (canon g) (canon h) ↔ Spec.Iso g h

/-! ## Proofs -/

theorem isoDecide_correct : Statement_isoDecide_correct :=
  fun _ _ => isoDecide_iff.trans iso_iff_raw.symm

theorem isoCheck_sound : Statement_isoCheck_sound :=
  fun _ _ _ hc => iso_iff_raw.mpr (isoCheck_sound' hc)

theorem iso_equiv : Statement_iso_equiv :=
  ⟨fun g => iso_iff_raw.mpr (rawIso_refl g),
   fun _ _ h => iso_iff_raw.mpr (rawIso_symm (iso_iff_raw.mp h)),
   fun _ _ _ h1 h2 => iso_iff_raw.mpr (rawIso_trans (iso_iff_raw.mp h1) (iso_iff_raw.mp h2))⟩

theorem relabel_iso : Statement_relabel_iso :=
  fun _ _ _ hinj e => iso_iff_raw.mpr (rawIso_trans (rawIso_relabel hinj) (rawIso_of_setEq (SetEq.symm e)))

theorem diff_algebra : Statement_diff_algebra := by
  intro A B
  refine ⟨diff_union_first A B, ?_, diff_disjoint A B⟩
  intro t
  simp only [mem_gunion, mem_ginter, mem_gdiff]
  by_cases ha : t ∈ A <;> simp [ha]

theorem diff_clauses : Statement_diff_clauses := by
  intro canon hc g1 g2
  obtain ⟨_, hsymm, htrans⟩ := iso_equiv
  obtain ⟨h1, h2, h3⟩ := diff_algebra (canon g1) (canon g2)
  refine ⟨?_, ?_, h3⟩
  · exact htrans _ _ _ (iso_iff_raw.mpr (rawIso_of_setEq h1)) (hsymm _ _ (hc g1))
  · exact htrans _ _ _ (iso_iff_raw.mpr (rawIso_of_setEq h2)) (hsymm _ _ (hc g2))

theorem canon_decides : Statement_canon_decides := by
  intro canon hs hcomp g h
  obtain ⟨_, hsymm, htrans⟩ := iso_equiv
  constructor
  · intro e
    exact htrans _ _ _ (htrans _ _ _ (hs g) (iso_iff_raw.mpr (rawIso_of_setEq e))) (hsymm _ _ (hs h))
  · exact hcomp g h

/-! ### Non-vacuity: symmetric structures where the search has to backtrack -/

private def b (n : Nat) : Term := ⟨true, n⟩
private def p : Term := ⟨false, 0⟩

/-- directed 6-cycle 1→2→…→6→1 and two directed 3-cycles (same degree sequence, not isomorphic) -/
def exC6 : Graph := [(b 1, p, b 2), (b 2, p, b 3), (b 3, p, b 4), (b 4, p, b 5), (b 5, p, b 6), (b 6, p, b 1)]
def exC6' : Graph := [(b 14, p, b 15), (b 11, p, b 12), (b 16, p, b 11), (b 13, p, b 14), (b 12, p, b 13), (b 15, p, b 16)]
def ex2C3 : Graph := [(b 1, p, b 2), (b 2, p, b 3), (b 3, p, b 1), (b 4, p, b 5), (b 5, p, b 6), (b 6, p, b 4)]

example : isoDecide exC6 exC6' = true := by decide
example : isoDecide exC6 ex2C3 = false := by decide
example : Spec.Iso exC6 exC6' := (isoDecide_correct _ _).mp (by decide)
example : ¬ Spec.Iso exC6 ex2C3 := fun h => absurd ((isoDecide_correct _ _).mpr h) (by decide)
example : isoCheck [(1, 11), (2, 12), (3, 13), (4, 14), (5, 15), (6, 16)] exC6 exC6' = true := by decide


/-! ## The canonicaliser (colour refinement and labels; the individualisation search is not modelled) -/

/-- one `Color.distinguish` round is invariant under isomorphism: for an isomorphism `σ : g → h`
    (`h` = relabelled and shuffled `g`, both duplicate-free), a colour tuple `items`, a splitter with hash `hW`
    whose members in `h` are the images of its members in `g` (in any order), every node `n` of `g` and its
    image get colour tuples with the SAME hash — `hash_color` being a sum, hence order-independent. -/
def Statement_refine_equivariant : Prop :=
  ∀ (H : List Item → Nat), (∀ a b : List Item, a.Perm b → H a = H b) →
  ∀ (σ : Nat → Nat) (g h : Graph), g.Nodup → h.Nodup → NoBlankPred g → IsIso σ g h →
  ∀ (items : List Item) (hW : Nat) (Wn Wn' : List Term), Wn'.Perm (Wn.map (Term.rename σ)) →
    (∀ w ∈ Wn, w ∈ gterms g) →
  ∀ n ∈ gterms g,
    H (items ++ distinguishItems hW h Wn' (n.rename σ)) = H (items ++ distinguishItems hW g Wn n)

/-- "no false positives" of the label stage: if both colourings are discrete (every blank node is the first
    member of a colour) and the colour hashes used as labels are pairwise distinct (`_refine` merges colours
    with equal hashes; SHA-256 taken as injective), equal canonical triple sets imply isomorphic inputs. -/
def Statement_canon_sound_partial : Prop :=
  ∀ (hcg hch : Color → Nat) (cg ch : List Color) (g h : Graph),
    (∀ a ∈ bnodes g, ∃ c ∈ cg, ∃ rest, c.nodes = ⟨true, a⟩ :: rest) → (cg.map hcg).Nodup →
    (∀ a ∈ bnodes h, ∃ c ∈ ch, ∃ rest, c.nodes = ⟨true, a⟩ :: rest) → (ch.map hch).Nodup →
    SetEq (canonicalTriples (canonLabels hcg cg) g) (canonicalTriples (canonLabels hch ch) h) →
    Spec.Iso g h

/-- and the canonical graph of a discretely coloured graph is a relabelling of it (`canon g ≅ g`) -/
def Statement_canon_iso_partial : Prop :=
  ∀ (hc : Color → Nat) (cs : List Color) (g : Graph),
    (∀ a ∈ bnodes g, ∃ c ∈ cs, ∃ rest, c.nodes = ⟨true, a⟩ :: rest) → (cs.map hc).Nodup →
    Spec.Iso g (canonicalTriples (canonLabels hc cs) g)

/-- OPEN for rdflib's own `_traces` (not proved here): completeness of a canonicaliser `canon` — isomorphic inputs get
    EQUAL canonical graphs.  For the EXHAUSTIVE search model this is `canonSearch_complete` below; `_traces` differs
    from it by score- and automorphism-based pruning (`_experimental_path`, `_is_automorphism`, `_create_generator`),
    which is not modelled: that pruning never changes the verdict is covered by the correspondence run, which compares
    rdflib's verdicts with `canonSearch` (unpruned) and `isoDecide` on highly symmetric graphs. -/
def Statement_canon_complete (canon : Graph → Graph) : Prop :=
  ∀ g h : Graph, Spec.Iso g h → SetEq (canon g) (canon h)

theorem refine_equivariant : Statement_refine_equivariant := by
  intro H hH σ g h hg hh hp hσ items hW Wn Wn' hWp hWg n hn
  apply hH
  apply List.Perm.append_left
  exact distinguishItems_equivariant hσ.inj hp (perm_of_nodup_setEq hσ.inj hg hh hσ.image) hW hWp hWg hn

theorem canon_iso_partial : Statement_canon_iso_partial := by
  intro hc cs g hcov hnd
  apply iso_iff_raw.mpr
  apply rawIso_relabel
  apply injOn_of_assignment
  · exact fun a ha => keys_canonLabels (hcov a ha)
  · exact (vals_canonLabels_sublist hc cs).nodup hnd

theorem canon_sound_partial : Statement_canon_sound_partial := by
  intro hcg hch cg ch g h hcovg hndg hcovh hndh e
  obtain ⟨_, hsymm, htrans⟩ := iso_equiv
  have h1 := canon_iso_partial hcg cg g hcovg hndg
  have h2 := canon_iso_partial hch ch h hcovh hndh
  exact htrans _ _ _ (htrans _ _ _ h1 (iso_iff_raw.mpr (rawIso_of_setEq e))) (hsymm _ _ h2)

/-- non-vacuity: the directed 3-cycle with a discrete colouring (hashes 7, 8, 9) -/
example : Spec.Iso [(b 1, p, b 2), (b 2, p, b 3), (b 3, p, b 1)]
    (canonicalTriples (canonLabels (fun c => c.items.length + 7)
      [⟨[b 1], [], none⟩, ⟨[b 2], [.indiv 1], none⟩, ⟨[b 3], [.indiv 1, .indiv 2], none⟩])
      [(b 1, p, b 2), (b 2, p, b 3), (b 3, p, b 1)]) := by
  apply canon_iso_partial
  · intro a ha
    have : a = 1 ∨ a = 2 ∨ a = 3 := by
      simp [bnodes, Triple.bn, Term.bn, b, p] at ha
      omega
    rcases this with rfl | rfl | rfl
    · exact ⟨_, List.mem_cons_self, [], rfl⟩
    · exact ⟨_, List.mem_cons_of_mem _ List.mem_cons_self, [], rfl⟩
    · exact ⟨_, List.mem_cons_of_mem _ (List.mem_cons_of_mem _ List.mem_cons_self), [], rfl⟩
  · decide

/-- non-vacuity of the refinement round: in the directed path 1→2→3 against the splitter {1,2,3},
    the three nodes get three different colour tuples (out-only, both, in-only) -/
example : distinguishItems 5 [(b 1, p, b 2), (b 2, p, b 3)] [b 1, b 2, b 3] (b 2) =
    [.inn 5 p, .out p 5] := by decide
example : distinguishItems 5 [(b 1, p, b 2), (b 2, p, b 3)] [b 1, b 2, b 3] (b 1) = [.out p 5] := by decide


/-! ## The worklist loop of `_refine` (RV/C14/Canon.lean `refineStep` / `refinePass` / `refineLoop` / `refine`)

    `RefineRun` (RefineLemmas.lean) is the fuel-free big-step semantics of
    `while len(sequence) > 0 and not self._discrete(coloring): W = sequence.pop(); for c in coloring[:]: …`. -/

/-- the loop TERMINATES: for every colouring whose colours are non-empty and every sequence the `while` loop has a run,
    the run is unique, and the fuelled `refineLoop` computes its result as soon as the fuel reaches
    `refineFuel = len(sequence) + (number of nodes - number of colours) + 1` (every iteration pops one splitter and pushes
    exactly one per newly created cell, and there are never more cells than nodes) -/
def Statement_refine_terminates : Prop :=
  ∀ (H : List Item → Nat) (HT : Term → Nat) (g : Graph) (P S : List Color), WFc P →
    ∀ fuel, refineFuel P S ≤ fuel →
      RefineRun H HT g P S (refineLoop H HT g fuel P S) ∧
      ∀ R, RefineRun H HT g P S R → R = refineLoop H HT g fuel P S

/-- the result REFINES the input colouring: colours stay non-empty, the nodes are the same multiset (nothing lost,
    nothing duplicated), every resulting colour lies inside one input colour; and when the resulting colour hashes are
    pairwise distinct the collision merge at the end of `_refine` changes nothing -/
def Statement_refine_refines : Prop :=
  ∀ (H : List Item → Nat) (HT : Term → Nat) (g : Graph) (fuel : Nat) (P S : List Color), WFc P →
    WFc (refineLoop H HT g fuel P (sortDesc H HT S)) ∧
    (allNodes (refineLoop H HT g fuel P (sortDesc H HT S))).Perm (allNodes P) ∧
    SubCells (refineLoop H HT g fuel P (sortDesc H HT S)) P ∧
    (((refineLoop H HT g fuel P (sortDesc H HT S)).map (Color.hash H HT)).Nodup →
      refine H HT g fuel P S = refineLoop H HT g fuel P (sortDesc H HT S))

/-- the call made by `canonical_triples` (`_refine(coloring, coloring[:])` on `_initial_color()`) meets the
    hypotheses: its colours are non-empty and `refineInit` runs with enough fuel -/
def Statement_refineInit_runs : Prop :=
  ∀ (H : List Item → Nat) (HT : Term → Nat) (g : Graph),
    WFc (initialColor g) ∧
    RefineRun H HT g (initialColor g) (sortDesc H HT (initialColor g))
      (refineLoop H HT g (refineFuel (initialColor g) (initialColor g)) (initialColor g)
        (sortDesc H HT (initialColor g)))

theorem refine_terminates : Statement_refine_terminates := by
  intro H HT g P S hwf fuel hf
  have h := refineLoop_run H HT g fuel P S hwf hf
  exact ⟨h, fun R hR => RefineRun_det hR h⟩

theorem refine_refines : Statement_refine_refines := by
  intro H HT g fuel P S hwf
  obtain ⟨a, b, c⟩ := refineLoop_spec H HT g fuel P (sortDesc H HT S) hwf
  refine ⟨a, b, c, fun hnd => ?_⟩
  unfold refine
  have := mergeByHash_id H HT (refineLoop H HT g fuel P (sortDesc H HT S)) [] (by simpa using hnd)
  simpa using this

theorem refineInit_runs : Statement_refineInit_runs := by
  intro H HT g
  have hf : refineFuel (initialColor g) (sortDesc H HT (initialColor g)) =
      refineFuel (initialColor g) (initialColor g) := by
    unfold refineFuel
    rw [sortDesc_length]
  exact ⟨initialColor_wf g, refineLoop_run H HT g _ _ _ (initialColor_wf g) (Nat.le_of_eq hf)⟩

/-- non-vacuity: on the directed path 1→2→3 the loop separates all three nodes (and needs more than one iteration) -/
example : refinePartition [(b 1, p, b 2), (b 2, p, b 3)] = [[3], [1], [2]] := by decide
example : refinePartition [(b 1, p, b 2), (b 2, p, b 3), (b 3, p, b 1)] = [[1, 2, 3]] := by decide

/-- STABILITY, full strength: under the explicit hypothesis that the colour hash is injective on multisets of items
    (`MultisetInj H`: H a = H b → a ~ b; `hash_color` is a sum of SHA-256 values), the colouring the loop returns for the
    call of `canonical_triples` is stable — no colour can be split by any colour of the final partition: for every
    splitter `W` and every colour `c` of the result, all members of `c` have the same multiset of (direction, predicate)
    edges into `W`.  Proof (RefineStable2.lean): worklist invariant `WInv` — every colour `X` is in the sequence, or the
    colouring is stable against `X ∪ Ys` for colours `Ys` that are all in the sequence (at the start everything is in the
    sequence; a pass keeps the invariant because all children of a colour that was in the sequence are pushed, all
    children but the first of any other colour are pushed, the pass makes everything stable against the popped `W`, and
    stability against `A ∪ B` and `B` gives stability against `A`); at `sequence = []` this is stability, and the early
    exit at a discrete colouring is stable outright. -/
def Statement_refine_stable : Prop :=
  ∀ (H : List Item → Nat) (HT : Term → Nat) (g : Graph), MultisetInj H →
    Stable H HT g (refineLoop H HT g (refineFuel (initialColor g) (initialColor g)) (initialColor g)
      (sortDesc H HT (initialColor g)))

/-- STABILITY, the local facts (any colouring, any sequence): (i) after every pass of the loop, every colour of the new colouring is stable
    with respect to the splitter `W` that was popped for this pass (all members have the same multiset of edges into
    `W`) — under `MultisetInj H`; (ii) a discrete colouring (the early exit of the loop) is stable outright -/
def Statement_refine_stable_partial : Prop :=
  (∀ (H : List Item → Nat) (HT : Term → Nat) (g : Graph), MultisetInj H → ∀ (W : Color) (P S : List Color),
    ∀ c' ∈ (refinePass H HT g W P S).1, StableWrt g (W.hash H HT) W.nodes c') ∧
  (∀ (H : List Item → Nat) (HT : Term → Nat) (g : Graph) (cs : List Color),
    cs.all Color.discrete = true → Stable H HT g cs)

theorem refine_stable : Statement_refine_stable :=
  fun _ HT g hH => refineInit_stable hH HT g

/-- non-vacuity of the hypothesis: a hash that is injective on multisets of items exists (the encoding of the multiset
    of item codes, RefineWitness.lean) -/
example : ∃ H : List Item → Nat, MultisetInj H := ⟨witnessHash, multisetInj_witness⟩

theorem refine_stable_partial : Statement_refine_stable_partial :=
  ⟨fun _ HT g hH W P S => refinePass_stable hH HT g W P S, stable_of_discrete⟩

/-- non-vacuity of (i): in the 3-cycle all nodes see one out- and one in-edge into the cell {1,2,3} -/
example : StableWrt [(b 1, p, b 2), (b 2, p, b 3), (b 3, p, b 1)] 5 [b 1, b 2, b 3] ⟨[b 1, b 2, b 3], [], none⟩ := by
  intro n hn m hm
  simp only [List.mem_cons, List.not_mem_nil, or_false] at hn hm
  rcases hn with rfl | rfl | rfl <;> rcases hm with rfl | rfl | rfl <;> decide

/-- the whole `_refine` computation is EQUIVARIANT under blank-node renaming, for arbitrary hash functions: for `σ`
    injective on the blank nodes of `g` (no blank predicates), running `_refine` on the renamed graph from the renamed
    colouring and sequence gives exactly the renamed result — the same cells in the same order with the same colour
    tuples and hashes; in particular for the call of `canonical_triples` (`refineInit`, which includes `_initial_color`).
    (What is NOT covered: that the result does not depend on the iteration order of Python's sets and of the store —
    `refine_equivariant` shows it for one `distinguish` round, `canonSearch_equivariant` for the exhaustive search.) -/
def Statement_refine_rename_equivariant : Prop :=
  ∀ (H : List Item → Nat) (HT : Term → Nat) (σ : Nat → Nat) (g : Graph), InjOn σ (bnodes g) → NoBlankPred g →
    (∀ (fuel : Nat) (P S : List Color), InG g P → InG g S →
      refine H HT (g.rename σ) fuel (P.map (mapColor (Term.rename σ))) (S.map (mapColor (Term.rename σ))) =
        (refine H HT g fuel P S).map (mapColor (Term.rename σ))) ∧
    refineInit H HT (g.rename σ) = (refineInit H HT g).map (mapColor (Term.rename σ))

/-- `canon_complete`, PARTIAL, for rdflib's own canonicaliser on the path without search: if the initial refinement
    already separates all blank nodes of `g` (every blank node is the first member of a colour, i.e. `_discrete`), the
    canonical triples do not depend on the blank-node labels: `canonical_triples(σ g) = canonical_triples(g)` for every
    injective relabelling `σ`, as lists.  Exact hypothesis: `h` is `g.rename σ` (same triple order) and refinement
    reaches a discrete colouring; the general `Statement_canon_complete` stays open. -/
def Statement_canon_complete_partial : Prop :=
  ∀ (H : List Item → Nat) (HT : Term → Nat) (σ : Nat → Nat) (g : Graph), InjOn σ (bnodes g) → NoBlankPred g →
    (∀ a ∈ bnodes g, ∃ c ∈ refineInit H HT g, ∃ rest, c.nodes = ⟨true, a⟩ :: rest) →
    canonRefine H HT (g.rename σ) = canonRefine H HT g

theorem refine_rename_equivariant : Statement_refine_rename_equivariant :=
  fun H HT _ _ hinj hp =>
    ⟨fun fuel P S hP hS => refine_rename hinj hp H HT fuel P S hP hS, refineInit_rename hinj hp H HT⟩

theorem canon_complete_partial : Statement_canon_complete_partial :=
  fun H HT _ _ hinj hp hcov => canonRefine_rename hinj hp H HT (fun a ha => keys_canonLabels (hcov a ha))

/-- non-vacuity: the path 1→2→3 is refined to a discrete colouring, and relabelling it (1,2,3 ↦ 7,5,9) gives literally
    the same canonical triples -/
example : refineDiscrete sumHash termHash [(b 1, p, b 2), (b 2, p, b 3)] = true := by decide +kernel
example : canonRefine sumHash termHash [(b 7, p, b 5), (b 5, p, b 9)] =
    canonRefine sumHash termHash [(b 1, p, b 2), (b 2, p, b 3)] := by decide +kernel

/-! ## The individualisation search `_traces` (RV/C14/Traces.lean: `candidates`, `individuate`, `experimentalPath`,
    `isAutomorphism`, `createGenerator`, `tracesStep`, `traces`, `leafKey`, `finalColoring`, `canonTraces`) -/

/-- the whole search is EQUIVARIANT under blank-node renaming: for an injective `σ` (no blank predicates), ARBITRARY hash
    functions `H`, `HT` and any colouring `cs`,
    (i) the automorphism test gives the same answer on the renamed data;
    (ii) the loop over the candidates of `_traces` run on `σ g` from `σ cs` ends in the σ-image of the state it ends in on
         `g` from `cs` — the kept branches `best` (the leaves explored at this level), their experimental paths, the
         generator and the visited set are the σ-images, the best score is the same;
    (iii) `_traces` returns the σ-image of the leaf it returns on `g` after the same number of calls;
    (iv) so does the whole of `canonical_triples` up to the final colouring (`finalColoring`).
    No hypothesis on the hashes is needed: every score, colour hash and leaf key is computed from label-free data
    (items, term codes, hashes), so it is σ-invariant by construction; what IS needed is that the two runs visit
    candidates, nodes and triples in corresponding order — the statement is about `g.rename σ` with the same list
    orders, not about Python's label-dependent set iteration. -/
def Statement_traces_rename_equivariant : Prop :=
  ∀ (H : List Item → Nat) (HT : Term → Nat) (σ : Nat → Nat) (g : Graph), Function.Injective σ → NoBlankPred g →
    (∀ cs a b : List Color,
      isAutomorphism (g.rename σ) (cs.map (mapColor (Term.rename σ))) (a.map (mapColor (Term.rename σ)))
        (b.map (mapColor (Term.rename σ))) = isAutomorphism g cs a b) ∧
    (∀ (efuel : Nat) (cs : List Color),
      (candidates (cs.map (mapColor (Term.rename σ)))).foldl
          (tracesStep H HT (g.rename σ) efuel (cs.map (mapColor (Term.rename σ)))) TState.init =
        mapState σ ((candidates cs).foldl (tracesStep H HT g efuel cs) TState.init)) ∧
    (∀ (efuel fuel : Nat) (cs : List Color),
      traces H HT (g.rename σ) efuel fuel (cs.map (mapColor (Term.rename σ))) =
        ((traces H HT g efuel fuel cs).1.map (mapColor (Term.rename σ)), (traces H HT g efuel fuel cs).2)) ∧
    finalColoring H HT (g.rename σ) =
      ((finalColoring H HT g).1.map (mapColor (Term.rename σ)), (finalColoring H HT g).2)

/-- `canon_complete` for rdflib's own canonicaliser INCLUDING the search, PARTIAL: whenever the final colouring labels
    every blank node of `g` (it is a discrete leaf — what `_traces` returns), the canonical triples do not depend on the
    blank-node labels: `canonical_triples(σ g) = canonical_triples(g)` as lists, for every injective `σ`.
    Exact hypothesis that remains: `h = g.rename σ` with the same triple / node orders (see above). -/
def Statement_canon_complete_traces_partial : Prop :=
  ∀ (H : List Item → Nat) (HT : Term → Nat) (σ : Nat → Nat) (g : Graph), Function.Injective σ → NoBlankPred g →
    (∀ a ∈ bnodes g, ∃ c ∈ (finalColoring H HT g).1, ∃ rest, c.nodes = ⟨true, a⟩ :: rest) →
    canonTraces H HT (g.rename σ) = canonTraces H HT g

theorem traces_rename_equivariant : Statement_traces_rename_equivariant := by
  intro H HT σ g hσ hp
  refine ⟨fun cs a b => isAutomorphism_map hσ hp cs a b, fun efuel cs => ?_,
    fun efuel fuel cs => traces_map hσ hp H HT efuel fuel cs, finalColoring_map hσ hp H HT⟩
  rw [candidates_map]
  exact foldl_tracesStep_map hσ hp H HT efuel cs (candidates cs) TState.init

theorem canon_complete_traces_partial : Statement_canon_complete_traces_partial :=
  fun H HT _ _ hσ hp hcov => canonTraces_rename hσ hp H HT (fun a ha => keys_canonLabels (hcov a ha))

/-- non-vacuity: the directed 3-cycle needs the search (one call of `_traces`, a discrete leaf), and a relabelled copy
    gets literally the same canonical triples -/
example : (finalColoring sumHash termHash [(b 1, p, b 2), (b 2, p, b 3), (b 3, p, b 1)]).2 = 1 := by decide +kernel
example : allDiscrete (finalColoring sumHash termHash [(b 1, p, b 2), (b 2, p, b 3), (b 3, p, b 1)]).1 = true := by
  decide +kernel
example : canonTraces sumHash termHash [(b 11, p, b 12), (b 12, p, b 13), (b 13, p, b 11)] =
    canonTraces sumHash termHash [(b 1, p, b 2), (b 2, p, b 3), (b 3, p, b 1)] := by decide +kernel

/-! ## The exhaustive individualisation–refinement search `canonSearch` (RV/C14/Search.lean)

    The unpruned reference for `_traces`: refine, and if the colouring is not discrete individualise each member of the
    first non-trivial cell in turn and recurse; the canonical form is the minimum of the leaves' label-free
    serialisations.  `H` (a sum of hashes in the code) is only assumed invariant under permutation of its items
    (`PermInv`); discreteness is tested on the colours themselves, so no collision-freeness is assumed. -/

/-- (i) the search is equivariant: for an isomorphism `π : g → h` (both triple lists duplicate-free, no blank predicates)
    the leaves below the image of an individualisation path are a permutation of the leaves below the path — leaves
    being label-free, they are literally the same serialisations -/
def Statement_canonSearch_equivariant : Prop :=
  ∀ (Hs : Hashes), PermInv Hs → ∀ (π : Nat → Nat) (g h : Graph), g.Nodup → h.Nodup → NoBlankPred g → IsIso π g h →
    ∀ (fuel : Nat) (ind : List Nat), (∀ x ∈ ind, x ∈ bnodes g) →
      (leaves Hs h fuel (ind.map π)).Perm (leaves Hs g fuel ind)

/-- (ii) completeness of the exhaustive search: isomorphic inputs get the SAME canonical form -/
def Statement_canonSearch_complete : Prop :=
  ∀ (Hs : Hashes), PermInv Hs → ∀ (g h : Graph), g.Nodup → h.Nodup → NoBlankPred g →
    Spec.Iso g h → canonSearch Hs g = canonSearch Hs h

/-- soundness: a common canonical form is a common injective relabelling, so the inputs are isomorphic
    (no assumption on the hashes at all) -/
def Statement_canonSearch_sound : Prop :=
  ∀ (Hs : Hashes) (g h : Graph) (L : List (List Nat)),
    canonSearch Hs g = some L → canonSearch Hs h = some L → Spec.Iso g h

/-- (iii) whenever the search finds a leaf for `g`, equality of canonical forms decides isomorphism -/
def Statement_canonSearch_decides : Prop :=
  ∀ (Hs : Hashes), PermInv Hs → ∀ (g h : Graph), g.Nodup → h.Nodup → NoBlankPred g → canonSearch Hs g ≠ none →
    (canonSearch Hs g = canonSearch Hs h ↔ Spec.Iso g h)

/-- the driver's concrete hashes meet the one assumption of the theorems -/
def Statement_driverHashes_permInv : Prop := PermInv driverHashes

theorem isoData_of_isIso {π : Nat → Nat} {g h : Graph} (hg : g.Nodup) (hh : h.Nodup) (hp : NoBlankPred g)
    (hσ : IsIso π g h) : IsoData π g h :=
  ⟨hσ.inj, perm_of_nodup_setEq hσ.inj hg hh hσ.image, hp⟩

theorem canonSearch_equivariant : Statement_canonSearch_equivariant :=
  fun Hs hH _ _ _ hg hh hp hσ fuel ind hind =>
    leaves_equivariant Hs hH (isoData_of_isIso hg hh hp hσ) fuel ind hind

theorem canonSearch_complete : Statement_canonSearch_complete := by
  intro Hs hH g h hg hh hp ⟨π, hσ⟩
  exact (canonSearch_eq_of_isoData Hs hH (isoData_of_isIso hg hh hp hσ)).symm

theorem canonSearch_sound : Statement_canonSearch_sound :=
  fun Hs _ _ _ hg hh => iso_iff_raw.mpr (rawIso_of_common_leaf Hs hg hh)

theorem canonSearch_decides : Statement_canonSearch_decides := by
  intro Hs hH g h hg hh hp hne
  constructor
  · intro e
    cases hL : canonSearch Hs g with
    | none => exact absurd hL hne
    | some L => exact canonSearch_sound Hs g h L hL (by rw [← e, hL])
  · exact canonSearch_complete Hs hH g h hg hh hp

theorem driverHashes_perm_invariant : Statement_driverHashes_permInv := driverHashes_permInv

/-- non-vacuity: the directed 3-cycle and a relabelled copy get the same canonical form, a 3-path does not -/
example : canonSearch driverHashes [(b 1, p, b 2), (b 2, p, b 3), (b 3, p, b 1)] =
    canonSearch driverHashes [(b 9, p, b 7), (b 8, p, b 9), (b 7, p, b 8)] := by decide
example : canonSearch driverHashes [(b 1, p, b 2), (b 2, p, b 3), (b 3, p, b 1)] ≠
    canonSearch driverHashes [(b 1, p, b 2), (b 2, p, b 3), (b 1, p, b 3)] := by decide
example : canonSearch driverHashes [(b 1, p, b 2), (b 2, p, b 3), (b 3, p, b 1)] ≠ none := by decide

/-! ## Skolemisation -/

def Spec.SIso (g h : SGraph) : Prop :=
  ∃ σ : Str → Str, (∀ a ∈ slabels g, ∀ b ∈ slabels g, σ a = σ b → a = b) ∧ SetEq (g.rename σ) h

/-- full-strength clause: skolemising then de-skolemising ANY graph returns an isomorphic graph.
    The pinned code falsifies it (known finding C14-K1): see `skolem_roundtrip_witness`. -/
def Statement_skolem_roundtrip (U : UrlOps) (fresh : Str → Str) : Prop :=
  ∀ g : SGraph, LabelsOk U g → Spec.SIso (deSkolemize U fresh (skolemize U g)) g

/-- the proved part: graphs with no IRI already under the well-known genid path (`NoGenid`) whose
    blank-node labels satisfy the urllib contract (`LabelsOk`) come back EQUAL, label for label -/
def Statement_skolem_roundtrip_partial : Prop :=
  ∀ (U : UrlOps) (fresh : Str → Str) (g : SGraph), NoGenid U g → LabelsOk U g →
    deSkolemize U fresh (skolemize U g) = g ∧ Spec.SIso (deSkolemize U fresh (skolemize U g)) g

/-- the driver's concrete `urllib` satisfies the contract for labels without `/ ? # ;` -/
def Statement_simpleUrl_contract : Prop :=
  ∀ l : Str, LabelChars l → LabelOk simpleUrl l

/-- ONE consistent label map per call: the code, which consults and extends the module-level `skolems` dict term
    by term (`deSkolemizeSt`), translates every term of the call by the single function its FINAL dict stands for.
    The proof uses only that dict entries are added and never changed or dropped (`CacheExt`). -/
def Statement_deskolemize_one_map : Prop :=
  ∀ (U : UrlOps) (mint : Nat → Str) (st : SkState) (g : SGraph),
    (deSkolemizeSt U mint st g).1 =
      deSkolemize U ((deSkolemizeSt U mint st g).2.cache.fn (fun u => u)) g

/-- the guarded round trip for the stateful code, whatever the dict held before the call -/
def Statement_skolem_roundtrip_stateful_partial : Prop :=
  ∀ (U : UrlOps) (mint : Nat → Str) (st : SkState) (g : SGraph), NoGenid U g → LabelsOk U g →
    (deSkolemizeSt U mint st (skolemize U g)).1 = g

/-- round trip through the EXTERNAL genid branch (`skolemize(authority=a, basepath="/.well-known/genid/")`): the blank
    nodes come back under fresh labels, and the result is the input relabelled by an injective map (so the two
    graphs are isomorphic) — given: fresh labels are distinct (`mint` injective), the dict holds only labels minted
    so far, no genid IRI in the input, no blank predicate, and the urllib contract that the skolem IRIs are recognised
    as external genids and are distinct for distinct labels. -/
def Statement_skolem_roundtrip_external : Prop :=
  ∀ (U : UrlOps) (mint : Nat → Str), Function.Injective mint → ∀ (auth base : Str) (g : SGraph) (st : SkState),
    CacheFresh mint st → NoGenid U g → (∀ t ∈ g, t.2.1.labels = []) →
    (∀ l ∈ slabels g, isRdflibSkolem U (skolemizeLabelAt U auth base l) = false ∧
      isExternalSkolem U (skolemizeLabelAt U auth base l) = true) →
    (∀ a ∈ slabels g, ∀ b ∈ slabels g,
      skolemizeLabelAt U auth base a = skolemizeLabelAt U auth base b → a = b) →
    Spec.SIso g (deSkolemizeSt U mint st (skolemizeAt U auth base g)).1

/-- PARTIAL skolemisation: skolemising any chosen subset `sel` of the blank nodes (`g.skolemize(bnode=b)` one by one;
    the chosen node may be subject, object or both, next to blank nodes that stay blank) and de-skolemising gives
    the graph back, under the same guards as the full round trip -/
def Statement_skolem_roundtrip_subset_partial : Prop :=
  ∀ (U : UrlOps) (mint : Nat → Str) (st : SkState) (sel : List Str) (g : SGraph), NoGenid U g → LabelsOk U g →
    (deSkolemizeSt U mint st (skolemizeSel U defaultAuthority rdflibSkolemGenid sel g)).1 = g

theorem deskolemize_one_map : Statement_deskolemize_one_map :=
  fun U mint st g => (deSkolemizeSt_spec U mint g st).2 _ _ (CacheExt.refl _)

theorem skolem_roundtrip_stateful_partial : Statement_skolem_roundtrip_stateful_partial := by
  intro U mint st g hn hl
  rw [deskolemize_one_map]
  exact deSk_sk_eq U _ g hn hl

theorem skolem_roundtrip_subset_partial : Statement_skolem_roundtrip_subset_partial := by
  intro U mint st sel g hn hl
  rw [deskolemize_one_map]
  exact deSk_skSel_eq U _ sel g hn hl

theorem skolem_roundtrip_external : Statement_skolem_roundtrip_external := by
  intro U mint hm auth base g st hf hn hp hx hinj
  obtain ⟨ρ, hρ, e⟩ := external_roundtrip U mint hm auth base g st hf hn hp hx hinj
  exact ⟨ρ, hρ, by rw [e]; exact SetEq.refl _⟩

theorem skolem_roundtrip_partial : Statement_skolem_roundtrip_partial := by
  intro U fresh g hn hl
  have e := deSk_sk_eq U fresh g hn hl
  refine ⟨e, fun a => a, fun _ _ _ _ h => h, ?_⟩
  rw [e]
  have hid : ∀ g : SGraph, SGraph.rename (fun a => a) g = g := by
    intro g
    unfold SGraph.rename
    induction g with
    | nil => rfl
    | cons t g ih =>
      have h1 : ∀ x : STerm, STerm.rename (fun a => a) x = x := by intro x; cases x <;> rfl
      rw [List.map_cons, ih]
      simp [h1]
  rw [hid]
  exact SetEq.refl g

theorem simpleUrl_contract : Statement_simpleUrl_contract := fun l hl => simpleUrl_labelOk l hl

/-- the excluded case really differs: an IRI under the genid path comes back as a blank node -/
def exIri : Str := "http://a.example/.well-known/genid/abc".toList
def exGenid : SGraph := [(.bnode "b".toList, .iri "http://e/p".toList, .iri exIri)]

theorem skolem_roundtrip_witness (fresh : Str → Str) : ¬ Statement_skolem_roundtrip simpleUrl fresh := by
  intro hs
  have hl : LabelsOk simpleUrl exGenid := by
    intro l hl
    have : l = "b".toList := by simpa [exGenid, slabels, STerm.labels] using hl
    subst this
    exact simpleUrl_labelOk _ (by decide)
  obtain ⟨σ, _, e⟩ := hs exGenid hl
  have hmem := (e (.bnode "b".toList, .iri "http://e/p".toList,
    .iri exIri)).2 (by simp [exGenid])
  have h1 : isRdflibSkolem simpleUrl exIri = false := by decide
  have h2 : isExternalSkolem simpleUrl exIri = true := by decide
  have h3 : deskTerm simpleUrl fresh (skTerm simpleUrl (.bnode "b".toList)) = .bnode "b".toList :=
    desk_sk_term simpleUrl fresh _ (fun u hu => by cases hu)
      (fun l hl' => by
        have : l = "b".toList := by simpa [STerm.labels] using hl'
        subst this
        exact simpleUrl_labelOk _ (by decide))
  have hrt : deSkolemize simpleUrl fresh (skolemize simpleUrl exGenid) =
      [(.bnode "b".toList, .iri "http://e/p".toList,
        .bnode (fresh exIri))] := by
    simp only [exGenid, deSkolemize, skolemize, List.map_cons, List.map_nil, h3]
    simp [skTerm, skTermAt, deskTerm, h1, h2]
  rw [hrt] at hmem
  simp [SGraph.rename, STerm.rename] at hmem

/-- non-vacuity of the literal guard: a LITERAL whose lexical form is the skolem IRI of the graph's own blank node
    is not a skolem IRI — `NoGenid` holds and the graph round-trips unchanged -/
example : NoGenid simpleUrl
    [(.bnode "b".toList, .iri "http://e/p".toList,
      .lit "https://rdflib.github.io/.well-known/genid/rdflib/b".toList 0)] := by
  intro t ht u hu
  simp only [List.mem_singleton] at ht
  subst ht
  rcases hu with hu | hu <;> simp at hu

/-- the driver's `urljoin`: an authority WITH a path still puts the skolem IRI under the well-known path at the root,
    a relative basepath does not (those IRIs are outside the clause; the harness only observes them) -/
example : simpleJoin "http://example.org/datasets/42/".toList "/.well-known/genid/rdflib/b".toList =
    "http://example.org/.well-known/genid/rdflib/b".toList := by decide
example : simpleJoin "http://example.org/datasets/42".toList ".well-known/genid/rdflib/b".toList =
    "http://example.org/datasets/.well-known/genid/rdflib/b".toList := by decide
example : simpleJoin "http://example.org".toList ".well-known/genid/rdflib/b".toList =
    "http://example.org/.well-known/genid/rdflib/b".toList := by decide

/-- non-vacuity of the partial round trip: `b` is skolemised where it is the OBJECT of a triple with a blank subject -/
example : skolemizeSel simpleUrl defaultAuthority rdflibSkolemGenid ["b".toList]
    [(.bnode "a".toList, .iri "http://e/p".toList, .bnode "b".toList)] =
    [(.bnode "a".toList, .iri "http://e/p".toList,
      .iri "https://rdflib.github.io/.well-known/genid/rdflib/b".toList)] := by decide

/-- non-vacuity of the external round trip: two occurrences of one node get ONE fresh label -/
example : (deSkolemizeSt simpleUrl (fun k => (toString k).toList) ⟨[], 0⟩
    (skolemizeAt simpleUrl "http://example.org".toList skolemGenid
      [(.bnode "x".toList, .iri "http://e/p".toList, .bnode "y".toList),
       (.bnode "y".toList, .iri "http://e/p".toList, .bnode "x".toList)])).1 =
    [(.bnode "0".toList, .iri "http://e/p".toList, .bnode "1".toList),
     (.bnode "1".toList, .iri "http://e/p".toList, .bnode "0".toList)] := by decide

example : NoGenid simpleUrl [(.bnode "b".toList, .iri "http://e/p".toList, .iri "http://e/x".toList)] := by
  intro t ht u hu
  simp only [List.mem_singleton] at ht
  subst ht
  rcases hu with hu | hu <;> simp at hu
  subst hu
  decide

end RV.C14
