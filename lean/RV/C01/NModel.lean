import RV.C01.Model
/-
  C01, round g — the CONCRETE three-index model: the nested dictionaries themselves.

  `Model.lean` abstracts one index (`spo[s][p][o] = 1`) to the finite set of triples it holds.  Here the three
  indexes are what the code has: three-level insertion-ordered dictionaries (`Idx`; a Python `dict` keeps
  insertion order, a value update keeps the key's position, `del` removes the key, a re-insert appends),
    * `idxAdd`  = the `try: po = spo[s] except LookupError: po = spo[s] = {}` … `o[object_] = 1` ladder
                  (missing levels are created, never removed again),
    * `idxDel`  = `del self.__spo[s][p][o]` (only the LEAF key goes; `spo[s]` and `spo[s][p]` stay, possibly empty;
                  `KeyError` when any level lacks its key),
    * `idxHas`  = `_ = self.__spo[s][p][o]` / the chain of `in` tests,
    * `idxCands` = the walks of `Memory.triples` / `SimpleMemory.triples`: which index for which of the 8 shapes,
                  `list(d.keys())` then `d[k]` level by level.
  `NMem` = `Memory` with these indexes (the context bookkeeping — `__tripleContexts`, `__defaultContexts`,
  `__contextTriples`, `__all_contexts` — is `Model.lean`'s, reused unchanged: field `cx`, whose own flat index
  fields are not used).  `NSMem` = `SimpleMemory`.  `NGen` = an open `Memory.triples()` generator: the key lists it
  has copied so far and has still to walk (work list), `next()` runs it to the next `yield`.

  Props.lean proves that `NMem` / `NSMem` refine the set specifications (`nested_refines_quadset`,
  `nested_simple_refines`) through `NMem.toMem` (flatten the indexes), and the safety of `NGen` under any
  interleaving (`gen_sound`).  The driver runs THIS model.
-/
namespace RV.C01
open RV

/-- one index: `d[a][b][c] = 1` (innermost dictionary = the list of its keys, all values are `1`) -/
abbrev Idx := List (Nat × List (Nat × List Nat))

/-- `list(d.keys())` -/
def akeys {κ ν : Type} (l : List (κ × ν)) : List κ := l.map Prod.fst

/-- `i[a]` for a key that is present (callers test `a in i` / copied the key from `i` first); `{}` otherwise -/
def lvl2 (i : Idx) (a : Nat) : List (Nat × List Nat) :=
  match alookup i a with
  | some d => d
  | none => []

/-- the keys of `i[a][b]` -/
def lvl3 (i : Idx) (a b : Nat) : List Nat :=
  match alookup (lvl2 i a) b with
  | some l => l
  | none => []

/-- `try: _ = i[a][b][c] … except KeyError` / `a in i and b in i[a] and c in i[a][b]` -/
def idxHas (i : Idx) (a b c : Nat) : Bool := decide (c ∈ lvl3 i a b)

/-- the insertion ladder of `add`: create `i[a]`, `i[a][b]` when missing, then `i[a][b][c] = 1` -/
def idxAdd (i : Idx) (a b c : Nat) : Idx :=
  aset i a (aset (lvl2 i a) b (sinsert (lvl3 i a b) c))

/-- `del i[a][b][c]` (the caller flags the `KeyError` when `idxHas` is false) -/
def idxDel (i : Idx) (a b c : Nat) : Idx :=
  if idxHas i a b c then aset i a (aset (lvl2 i a) b (sremove (lvl3 i a b) c)) else i

/-- all entries of `i[a]`, in dictionary order -/
def flat2 (a : Nat) : List (Nat × List Nat) → List Triple
  | [] => []
  | (b, l) :: r => l.map (fun c => (a, b, c)) ++ flat2 a r

/-- all entries `(a, b, c)` of the index, in dictionary order -/
def flat : Idx → List Triple
  | [] => []
  | (a, d) :: r => flat2 a d ++ flat r

/-- an entry `(p, o, s)` of `pos` / `(o, s, p)` of `osp` as the triple `(s, p, o)` -/
def rotPOS (x : Triple) : Triple := (x.2.2, x.1, x.2.1)
def rotOSP (x : Triple) : Triple := (x.2.1, x.2.2, x.1)

/-- the walks of `triples()` over the nested dictionaries, one per shape (`is not None` dispatch of `Memory`,
    `!= ANY` of `SimpleMemory`: the same tree), each level's keys copied and then looked up -/
def idxCands (ispo ipos iosp : Idx) : Pat → List Triple
  | (some s, some p, some o) => if idxHas ispo s p o then [(s, p, o)] else []
  | (some s, some p, none) => (lvl3 ispo s p).map (fun o => (s, p, o))
  | (some s, none, some o) =>
    ((akeys (lvl2 ispo s)).filter (fun p => decide (o ∈ lvl3 ispo s p))).map (fun p => (s, p, o))
  | (some s, none, none) => (akeys (lvl2 ispo s)).flatMap (fun p => (lvl3 ispo s p).map (fun o => (s, p, o)))
  | (none, some p, some o) => (lvl3 ipos p o).map (fun s => (s, p, o))
  | (none, some p, none) => (akeys (lvl2 ipos p)).flatMap (fun o => (lvl3 ipos p o).map (fun s => (s, p, o)))
  | (none, none, some o) => (akeys (lvl2 iosp o)).flatMap (fun s => (lvl3 iosp o s).map (fun p => (s, p, o)))
  | (none, none, none) =>
    (akeys ispo).flatMap (fun s => (akeys (lvl2 ispo s)).flatMap (fun p => (lvl3 ispo s p).map (fun o => (s, p, o))))

/-! ### `Memory` over nested dictionaries -/

structure NMem where
  ispo : Idx := []
  ipos : Idx := []
  iosp : Idx := []
  /-- `__tripleContexts`, `__defaultContexts`, `__contextTriples`, `__all_contexts`, the raise flag
      (the fields `spo`/`pos`/`osp` of this record are not used) -/
  cx : Mem := {}
  deriving Repr

def NMem.init : NMem := {}

/-- forget the dictionary structure: each index as the list of its triples, in dictionary order -/
def NMem.toMem (n : NMem) : Mem :=
  { n.cx with spo := flat n.ispo, pos := (flat n.ipos).map rotPOS, osp := (flat n.iosp).map rotOSP }

def NMem.has (n : NMem) (t : Triple) : Bool := idxHas n.ispo t.1 t.2.1 t.2.2

/-- `__triple_has_context` (repaired form): the `spo` probe, then the dictionary test -/
def NMem.hasCtx (n : NMem) (t : Triple) (c : Ctx) : Bool := n.has t && decide (c ∈ getCtxs n.cx t)

def NMem.hasCtxRaises (n : NMem) (t : Triple) : Bool := n.has t && getCtxsRaises n.cx t

/-- the index and context part of `Memory.add` -/
def NMem.addCore (n : NMem) (t : Triple) (c : Nat) : NMem :=
  if n.has t then { n with cx := addTripleContext n.cx t true c }
  else
    { ispo := idxAdd n.ispo t.1 t.2.1 t.2.2
      cx := addTripleContext n.cx t false c
      ipos := idxAdd n.ipos t.2.1 t.2.2 t.1
      iosp := idxAdd n.iosp t.2.2 t.1 t.2.1 }

def NMem.add (n : NMem) (t : Triple) (c : Nat) : NMem := NMem.addCore { n with cx := n.cx.register c } t c

/-- `if len(ctxs) == 0: del spo[s][p][o]; del pos[p][o][s]; del osp[o][s][p]; del tripleContexts[t]` -/
def NMem.dropTriple (n : NMem) (t : Triple) : NMem :=
  if (getCtxs n.cx t).length == 0 then
    { ispo := idxDel n.ispo t.1 t.2.1 t.2.2
      ipos := idxDel n.ipos t.2.1 t.2.2 t.1
      iosp := idxDel n.iosp t.2.2 t.1 t.2.1
      cx := { n.cx with
        tctx := aerase n.cx.tctx t
        err := n.cx.err || !idxHas n.ispo t.1 t.2.1 t.2.2 || !idxHas n.ipos t.2.1 t.2.2 t.1
                || !idxHas n.iosp t.2.2 t.1 t.2.1 || (alookup n.cx.tctx t).isNone } }
  else n

/-- body of the `for triple, c in self.triples(...)` loop of `Memory.remove` -/
def NMem.removeOne (n : NMem) (t : Triple) (req : Ctx) : NMem :=
  NMem.dropTriple
    { n with cx := dropUnion (removeCtxLoop (n.cx.flag (getCtxsRaises n.cx t)) t req (getCtxs n.cx t)) t req } t

def NMem.cands (n : NMem) (pat : Pat) : List Triple := idxCands n.ispo n.ipos n.iosp pat

/-- `Memory.triples(pattern, context)` run to completion with no interleaved mutation -/
def NMem.triples (n : NMem) (pat : Pat) (req : Ctx) : List Triple :=
  match pat with
  | (none, none, none) => ctxTget n.cx req
  | _ => (n.cands pat).filter (fun t => n.hasCtx t req)

def NMem.triplesRaises (n : NMem) (pat : Pat) : Bool :=
  match pat with
  | (none, none, none) => false
  | _ => (n.cands pat).any (fun t => n.hasCtxRaises t)

def NMem.removeLoop (n : NMem) (req : Ctx) (test : Bool) : List Triple → NMem
  | [] => n
  | t :: r =>
    if !test || n.hasCtx t req then
      NMem.removeLoop (NMem.removeOne { n with cx := n.cx.flag (test && n.hasCtxRaises t) } t req) req test r
    else NMem.removeLoop { n with cx := n.cx.flag (test && n.hasCtxRaises t) } req test r

def NMem.remove (n : NMem) (pat : Pat) (req : Ctx) : NMem :=
  match pat with
  | (none, none, none) =>
    let n' := n.removeLoop req false (ctxTget n.cx req)
    { n' with cx := dropEmptyCtx n'.cx req }
  | _ =>
    let n' := n.removeLoop req true (n.cands pat)
    { n' with cx := dropEmptyCtx n'.cx req }

def NMem.len (n : NMem) (req : Ctx) : Nat := (ctxTget n.cx req).length

def NMem.contexts (n : NMem) : Pat → List Nat
  | (none, none, none) => n.cx.allc
  | (some s, some p, some o) => if idxHas n.ispo s p o then ctxKeys n.cx (s, p, o) else []
  | _ => []

def NMem.triplesC (n : NMem) (pat : Pat) (req : Ctx) : List (Triple × List Nat) :=
  (n.triples pat req).map (fun t => (t, ctxKeys n.cx t))

def NMem.addGraph (n : NMem) (k : Nat) : NMem := { n with cx := n.cx.register k }

def NMem.removeGraph (n : NMem) (k : Nat) : NMem :=
  let n' := n.remove (none, none, none) (some k)
  { n' with cx := { n'.cx with allc := sremove n'.cx.allc k } }

def NMem.contains (n : NMem) (t : Triple) (g : Nat) : Bool :=
  !(n.triples (some t.1, some t.2.1, some t.2.2) (some g)).isEmpty

def NMem.addN (n : NMem) (g : Nat) : List Quad → NMem
  | [] => n
  | (t, c, isG) :: r => if isG && c == g then NMem.addN (n.add t c) g r else NMem.addN n g r

def NMem.set (n : NMem) (t : Triple) (g : Nat) : NMem :=
  (n.remove (some t.1, some t.2.1, none) (some g)).add t g

def NMem.iadd (n : NMem) (g : Nat) (ts : List Triple) : NMem := n.addN g (ts.map (fun t => (t, g, true)))

def NMem.isub (n : NMem) (g : Nat) : List Triple → NMem
  | [] => n
  | t :: r => NMem.isub (n.remove (some t.1, some t.2.1, some t.2.2) (some g)) g r

def NMem.graph (n : NMem) (g : Nat) : List Triple := n.triples allPat (some g)

def NMem.step (n : NMem) : Op → NMem
  | .add t g => n.add t g
  | .addN g qs => n.addN g qs
  | .remove pat g => n.remove pat (some g)
  | .set t g => n.set t g
  | .iadd g ts => n.iadd g ts
  | .iaddG g h => n.iadd g (n.graph h)
  | .isub g ts => n.isub g ts
  | .isubG g h => n.isub g (n.graph h)

def NMem.stStep (n : NMem) : StOp → NMem
  | .add t c => n.add t c
  | .remove pat ctx => n.remove pat ctx
  | .addGraph k => n.addGraph k
  | .removeGraph k => n.removeGraph k
  | .graph op => n.step op

def NMem.stRun (n : NMem) (ops : List StOp) : NMem := ops.foldl NMem.stStep n

def View.ofNMem (n : NMem) (g : Nat) : View := ⟨n.graph g, fun x => n.contains x g⟩

/-! Round h: the NEW graph built by `+ - * ^` is itself a `Memory` over nested dictionaries
    (`retval = Graph()`; `retval.add(x)` for each `x`) -/

/-- a fresh `Graph()` (own `Memory`, identifier `r`) filled by `retval.add(x)` for each `x` in turn -/
def NMem.ofList (r : Nat) (ts : List Triple) : NMem := ts.foldl (fun n t => n.add t r) NMem.init

def nUnion (xs ys : List Triple) (r : Nat) : NMem := NMem.ofList r (xs ++ ys)
def nInter (inA : Triple → Bool) (ys : List Triple) (r : Nat) : NMem := NMem.ofList r (ys.filter inA)
def nDiff (xs : List Triple) (inB : Triple → Bool) (r : Nat) : NMem := NMem.ofList r (xs.filter (fun x => !inB x))
/-- `a ^ b` : `(self - other) + (other - self)` — the two differences are graphs of their own, iterated by `+` -/
def nXor (xs : List Triple) (inA : Triple → Bool) (ys : List Triple) (inB : Triple → Bool) (r : Nat) : NMem :=
  nUnion ((nDiff xs inB r).graph r) ((nDiff ys inA r).graph r) r

def View.nunion (a b : View) (r : Nat) : NMem := nUnion a.xs b.xs r
def View.ndiff (a b : View) (r : Nat) : NMem := nDiff a.xs b.has r
def View.ninter (a b : View) (r : Nat) : NMem := nInter a.has b.xs r
def View.nxor (a b : View) (r : Nat) : NMem := nXor a.xs a.has b.xs b.has r

/-- which position of the pattern holds the list of choices in `triples_choices` -/
inductive Slot
  | s | p | o
  deriving Repr, DecidableEq

/-- the pattern with `x` in the list's slot and `a`, `b` in the two other positions (in s, p, o order) -/
def Slot.pat (sl : Slot) (a b x : Option Nat) : Pat :=
  match sl with
  | .s => (x, a, b)
  | .p => (a, x, b)
  | .o => (a, b, x)

def Slot.get (sl : Slot) (t : Triple) : Nat :=
  match sl with
  | .s => t.1
  | .p => t.2.1
  | .o => t.2.2

/-- `Store.triples_choices` (rdflib/store.py; `Memory` inherits it, `Graph.triples_choices` passes `context=self`):
    `if choices: for x in choices: yield from self.triples(pattern with x)` `else: self.triples(pattern with None)`
    (one list slot; two lists raise `ValueError` before anything is read) -/
def NMem.triplesChoices (n : NMem) (sl : Slot) (choices : List Nat) (a b : Option Nat) (req : Ctx) : List Triple :=
  if choices.isEmpty then n.triples (sl.pat a b none) req
  else choices.flatMap (fun x => n.triples (sl.pat a b (some x)) req)

/-- one position of the argument of `triples_choices`: a term / `None`, or a list (tuple) of terms -/
inductive Arg
  | term (x : Option Nat)
  | list (l : List Nat)
  deriving Repr

def Arg.nLists : Arg → Nat
  | .term _ => 0
  | .list _ => 1

/-- `Store.triples_choices` with its whole dispatch (round h): the object position is examined first, then the
    subject, then the predicate; a second list raises `ValueError` (`none`) before anything is read; with NO list in
    any position none of the three `isinstance` branches is taken and the generator yields nothing -/
def NMem.triplesChoicesG (n : NMem) (s p o : Arg) (req : Ctx) : Option (List Triple) :=
  match o with
  | .list os =>
    match s, p with
    | .list _, _ => none          -- "object_ / subject are both lists"
    | .term _, .list _ => none    -- "object_ / predicate are both lists"
    | .term s, .term p => some (n.triplesChoices .o os s p req)
  | .term o =>
    match s with
    | .list ss =>
      match p with
      | .list _ => none           -- "subject / predicate are both lists"
      | .term p => some (n.triplesChoices .s ss p o req)
    | .term s =>
      match p with
      | .list ps => some (n.triplesChoices .p ps s o req)
      | .term _ => some []

/-! ### an open `Memory.triples()` generator over the nested dictionaries (the real copy discipline)

  The generator body starts at the first `next()`.  It copies ONE level of keys at a time
  (`list(subjectDictionary.keys())`), looks each copied key up again in the LIVE dictionary when the loop reaches it
  (`subjectDictionary[p]` — a `KeyError` if the key had gone; it cannot: only leaf keys are ever deleted), copies
  the next level there, and evaluates the has-context test on the live store just before each `yield`.  The
  all-unbound shape copies `__contextTriples[ctx]` once and yields the copy without any test.
  `Work` = what the suspended generator still has to do, innermost loop first. -/

inductive Work
  /-- element of the start copy of the all-unbound shape: yielded as is -/
  | snap (t : Triple)
  /-- candidate built from a copied innermost key: `if self.__triple_has_context(triple, req_ctx): yield` -/
  | leaf (t : Triple)
  /-- shape `(s, ?, o)`, copied key `p`: `if object_ in subjectDictionary[p]:` then as `leaf` -/
  | probe (t : Triple)
  /-- a copied outer key of a two-level shape: `for x in list(d[k].keys())` is copied when the loop reaches `k` -/
  | expand (k : Nat)
  deriving Repr

structure NGen where
  pat : Pat
  req : Ctx
  started : Bool := false
  work : List Work := []
  deriving Repr

def NGen.new (pat : Pat) (req : Ctx) : NGen := { pat := pat, req := req }

/-- the code from the generator's entry to its first loop: which dictionary, which keys are copied first -/
def NMem.startWork (n : NMem) (pat : Pat) (req : Ctx) : List Work :=
  match pat with
  | (none, none, none) => (ctxTget n.cx req).map Work.snap
  | (some s, some p, some o) => [Work.leaf (s, p, o)]
  | (some s, some p, none) => (lvl3 n.ispo s p).map (fun o => Work.leaf (s, p, o))
  | (some s, none, some o) => (akeys (lvl2 n.ispo s)).map (fun p => Work.probe (s, p, o))
  | (some s, none, none) => (akeys (lvl2 n.ispo s)).map Work.expand
  | (none, some p, some o) => (lvl3 n.ipos p o).map (fun s => Work.leaf (s, p, o))
  | (none, some p, none) => (akeys (lvl2 n.ipos p)).map Work.expand
  | (none, none, some o) => (akeys (lvl2 n.iosp o)).map Work.expand

/-- the inner copy made when a two-level loop reaches the copied outer key `k` (live lookup `d[k]`) -/
def NMem.expandKey (n : NMem) (pat : Pat) (k : Nat) : List Triple :=
  match pat with
  | (some s, none, none) => (lvl3 n.ispo s k).map (fun o => (s, k, o))
  | (none, some p, none) => (lvl3 n.ipos p k).map (fun s => (s, p, k))
  | (none, none, some o) => (lvl3 n.iosp o k).map (fun p => (k, p, o))
  | _ => []

/-- `d[k]` for a copied key raises `KeyError` when the key is gone -/
def NMem.expandRaises (n : NMem) (pat : Pat) (k : Nat) : Bool :=
  match pat with
  | (some s, none, none) => !decide (k ∈ akeys (lvl2 n.ispo s))
  | (none, some p, none) => !decide (k ∈ akeys (lvl2 n.ipos p))
  | (none, none, some o) => !decide (k ∈ akeys (lvl2 n.iosp o))
  | _ => false

def NMem.probeOk (n : NMem) (t : Triple) : Bool := decide (t.2.2 ∈ lvl3 n.ispo t.1 t.2.1)

def NMem.probeRaises (n : NMem) (t : Triple) : Bool := !decide (t.2.1 ∈ akeys (lvl2 n.ispo t.1))

/-- first candidate of a fresh inner copy that passes the has-context test, and the candidates after it -/
def NMem.scan (n : NMem) (req : Ctx) : List Triple → Option (Triple × List Triple)
  | [] => none
  | t :: r => if n.hasCtx t req then some (t, r) else NMem.scan n req r

def NMem.scanRaises (n : NMem) (req : Ctx) : List Triple → Bool
  | [] => false
  | t :: r => n.hasCtxRaises t || (if n.hasCtx t req then false else NMem.scanRaises n req r)

/-- run the suspended generator to its next `yield` (or to exhaustion): remaining work, yielded triple -/
def NMem.runGen (n : NMem) (pat : Pat) (req : Ctx) : List Work → List Work × Option Triple
  | [] => ([], none)
  | .snap t :: r => (r, some t)
  | .leaf t :: r => if n.hasCtx t req then (r, some t) else NMem.runGen n pat req r
  | .probe t :: r => if n.probeOk t && n.hasCtx t req then (r, some t) else NMem.runGen n pat req r
  | .expand k :: r =>
    match n.scan req (n.expandKey pat k) with
    | some (t, rest) => (rest.map Work.leaf ++ r, some t)
    | none => NMem.runGen n pat req r

/-- some Python operation of that run raised -/
def NMem.runGenRaises (n : NMem) (pat : Pat) (req : Ctx) : List Work → Bool
  | [] => false
  | .snap _ :: _ => false
  | .leaf t :: r => n.hasCtxRaises t || (if n.hasCtx t req then false else NMem.runGenRaises n pat req r)
  | .probe t :: r =>
    n.probeRaises t || (n.probeOk t && n.hasCtxRaises t) ||
      (if n.probeOk t && n.hasCtx t req then false else NMem.runGenRaises n pat req r)
  | .expand k :: r =>
    n.expandRaises pat k || n.scanRaises req (n.expandKey pat k) ||
      (match n.scan req (n.expandKey pat k) with
       | some _ => false
       | none => NMem.runGenRaises n pat req r)

/-- the work the generator has when `next()` is called: the start copies if it has not begun yet -/
def NGen.workAt (gen : NGen) (n : NMem) : List Work :=
  if gen.started then gen.work else n.startWork gen.pat gen.req

/-- one `next()` -/
def NGen.next (gen : NGen) (n : NMem) : NGen × Option Triple :=
  ({ gen with started := true, work := (n.runGen gen.pat gen.req (gen.workAt n)).1 },
    (n.runGen gen.pat gen.req (gen.workAt n)).2)

def NGen.nextRaises (gen : NGen) (n : NMem) : Bool := n.runGenRaises gen.pat gen.req (gen.workAt n)

/-- the whole remaining iteration when nothing is interleaved -/
def NMem.runAll (n : NMem) (pat : Pat) (req : Ctx) : List Work → List Triple
  | [] => []
  | .snap t :: r => t :: NMem.runAll n pat req r
  | .leaf t :: r => if n.hasCtx t req then t :: NMem.runAll n pat req r else NMem.runAll n pat req r
  | .probe t :: r => if n.probeOk t && n.hasCtx t req then t :: NMem.runAll n pat req r else NMem.runAll n pat req r
  | .expand k :: r => (n.expandKey pat k).filter (fun t => n.hasCtx t req) ++ NMem.runAll n pat req r

/-- `list(store.triples(pattern, context))`: the generator run to exhaustion -/
def NMem.drain (n : NMem) (pat : Pat) (req : Ctx) : List Triple := n.runAll pat req (n.startWork pat req)

inductive GEv
  | mutate (op : StOp)
  | next
  deriving Repr

/-- yields of a schedule, each with the store states since the generator began (= its first `next()`), latest first -/
def gyields (hist : List NMem) (n : NMem) (gen : NGen) : List GEv → List (Triple × List NMem)
  | [] => []
  | .mutate op :: es => gyields (if gen.started then n.stStep op :: hist else hist) (n.stStep op) gen es
  | .next :: es =>
    match (gen.next n).2 with
    | some t => (t, if gen.started then hist else [n]) :: gyields (if gen.started then hist else [n]) n (gen.next n).1 es
    | none => gyields (if gen.started then hist else [n]) n (gen.next n).1 es

/-- number of `next()` calls of a schedule -/
def gcountNext : List GEv → Nat
  | [] => 0
  | .next :: es => gcountNext es + 1
  | .mutate _ :: es => gcountNext es

/-- some step of the schedule raised -/
def gschedRaises (n : NMem) (gen : NGen) : List GEv → Bool
  | [] => false
  | .mutate op :: es => (n.stStep op).cx.err || gschedRaises (n.stStep op) gen es
  | .next :: es => gen.nextRaises n || gschedRaises n (gen.next n).1 es

/-! ### `SimpleMemory` over nested dictionaries -/

structure NSMem where
  ispo : Idx := []
  ipos : Idx := []
  iosp : Idx := []
  err : Bool := false
  deriving Repr

def NSMem.init : NSMem := {}

def NSMem.toSMem (n : NSMem) : SMem :=
  { spo := flat n.ispo, pos := (flat n.ipos).map rotPOS, osp := (flat n.iosp).map rotOSP, err := n.err }

/-- `SimpleMemory.add`: the three insertion ladders -/
def NSMem.add (n : NSMem) (t : Triple) : NSMem :=
  { n with ispo := idxAdd n.ispo t.1 t.2.1 t.2.2, ipos := idxAdd n.ipos t.2.1 t.2.2 t.1,
           iosp := idxAdd n.iosp t.2.2 t.1 t.2.1 }

def NSMem.triples (n : NSMem) (pat : Pat) : List Triple := idxCands n.ispo n.ipos n.iosp pat

def NSMem.del (n : NSMem) (t : Triple) : NSMem :=
  { ispo := idxDel n.ispo t.1 t.2.1 t.2.2, ipos := idxDel n.ipos t.2.1 t.2.2 t.1, iosp := idxDel n.iosp t.2.2 t.1 t.2.1
    err := n.err || !idxHas n.ispo t.1 t.2.1 t.2.2 || !idxHas n.ipos t.2.1 t.2.2 t.1 || !idxHas n.iosp t.2.2 t.1 t.2.1 }

/-- `for … in list(self.triples(pattern)): del …; del …; del …` -/
def NSMem.remove (n : NSMem) (pat : Pat) : NSMem := (n.triples pat).foldl NSMem.del n

def NSMem.len (n : NSMem) : Nat := (n.triples allPat).length

def NSMem.contains (n : NSMem) (t : Triple) : Bool := !(n.triples (some t.1, some t.2.1, some t.2.2)).isEmpty

def NSMem.addN (n : NSMem) (g : Nat) : List Quad → NSMem
  | [] => n
  | (t, c, isG) :: r => if isG && c == g then NSMem.addN (n.add t) g r else NSMem.addN n g r

def NSMem.set (n : NSMem) (t : Triple) : NSMem := (n.remove (some t.1, some t.2.1, none)).add t

def NSMem.iadd (n : NSMem) (ts : List Triple) : NSMem := ts.foldl NSMem.add n

def NSMem.isub (n : NSMem) : List Triple → NSMem
  | [] => n
  | t :: r => NSMem.isub (n.remove (some t.1, some t.2.1, some t.2.2)) r

def NSMem.step (n : NSMem) : SOp → NSMem
  | .add t => n.add t
  | .addN g qs => n.addN g qs
  | .remove pat => n.remove pat
  | .set t => n.set t
  | .iadd ts => n.iadd ts
  | .isub ts => n.isub ts

def NSMem.run (n : NSMem) (ops : List SOp) : NSMem := ops.foldl NSMem.step n

def View.ofNSimple (n : NSMem) : View := ⟨n.triples allPat, fun x => n.contains x⟩

end RV.C01
