import RV.Base.SetList
/-
  C01 — model of `rdflib/plugins/stores/memory.py` (`Memory`, `SimpleMemory`) and of the
  `Graph` methods of `rdflib/graph.py` that the property names.

  What is kept of the code (DESIGN §5.1, §6 C01):
  * three indexes `spo`, `pos`, `osp`, each abstracted to the finite set of triples it holds
    (the nested-dict shape `spo[s][p][o]` is modelled in `NModel.lean`, round g, and proved to refine this
    model: `nested_refines_quadset`) but *updated separately* exactly
    where the code updates them, and read by the pattern dispatch of `Memory.triples`
    (which index for which of the 8 shapes, the two fast paths);
  * the per-triple context dictionary `__tripleContexts` with the default-context
    compression (`__defaultContexts`, first-seen context set; explicit entry dropped when
    equal to it), `__add_triple_context`, `__remove_triple_context`,
    `__get_context_for_triple`, `__triple_has_context`;
  * `__contextTriples` (key `None` = union of asserted triples), its creation on first use
    and the deletion of an emptied named entry in `remove`;
  * `remove`'s walk: lazy `triples()` generator, per triple the loop over its contexts,
    the removal of the `None` entry when no asserted context is left, the deletion from
    the indexes when no context is left; both for a graph and for `context=None`;
  * `__all_contexts` (registered graphs): `add`, `add_graph`, `remove_graph`, `contexts()`,
    and `contexts(triple)` / the per-triple context generator of `triples`.
  Quoted statements are outside the property (`quoted = False` everywhere), so a context
  dictionary `{ctx: False, …}` is the *set* of its keys and dict equality is set equality.

  Python operations that can raise (`del d[k]`, `set.remove`, `None.copy()`, …) set the
  sticky flag `err` instead of being silently totalised; "never raises" is the theorem
  `err = false` on every reachable state (Props.lean).

  Terms and graph identifiers are naturals owned by the harness (the store only uses
  `==`/`hash` of terms and the string `"<Class>:<identifier>"` of a graph).
-/
namespace RV.C01

abbrev Triple := Nat × Nat × Nat
abbrev Pat := Option Nat × Option Nat × Option Nat
/-- a key of `__contextTriples` / of a context dictionary: `none` = Python `None` (the union) -/
abbrev Ctx := Option Nat

def matchPos (p : Option Nat) (x : Nat) : Bool :=
  match p with
  | none => true
  | some y => x == y

def Pat.matches (p : Pat) (t : Triple) : Bool :=
  matchPos p.1 t.1 && matchPos p.2.1 t.2.1 && matchPos p.2.2 t.2.2

/-! ### Python `dict` as association list (first binding wins) -/

section Assoc
variable {κ ν : Type} [DecidableEq κ]

def alookup : List (κ × ν) → κ → Option ν
  | [], _ => none
  | (k, v) :: r, x => if k = x then some v else alookup r x

/-- `del d[x]` (removes every binding of `x`; the caller flags `KeyError` when absent) -/
def aerase : List (κ × ν) → κ → List (κ × ν)
  | [], _ => []
  | (k, v) :: r, x => if k = x then aerase r x else (k, v) :: aerase r x

/-- `d[x] = v` -/
def aset : List (κ × ν) → κ → ν → List (κ × ν)
  | [], x, v => [(x, v)]
  | (k, w) :: r, x, v => if k = x then (k, v) :: r else (k, w) :: aset r x v

end Assoc

/-! ### `Memory` -/

structure Mem where
  spo : List Triple := []
  pos : List Triple := []
  osp : List Triple := []
  /-- `__tripleContexts`: explicit context sets (only for triples whose set differs from the default) -/
  tctx : List (Triple × List Ctx) := []
  /-- `__defaultContexts`: `None` until the first triple is added -/
  dflt : Option (List Ctx) := none
  /-- `__contextTriples`, initially `{None: set()}` -/
  ctxT : List (Ctx × List Triple) := [(none, [])]
  /-- `__all_contexts`: the registered graphs (a Python set of `Graph` objects, hashed and compared by
      identifier; here the graph keys) -/
  allc : List Nat := []
  /-- a Python exception was raised by a store operation -/
  err : Bool := false
  deriving Repr

def Mem.init : Mem := {}

/-- record that a Python exception would have been raised when `b` holds -/
def Mem.flag (m : Mem) (b : Bool) : Mem := { m with err := m.err || b }

/-- dict equality of two context dictionaries (all values are `False`) -/
def ctxEq (a b : List Ctx) : Bool := a.all (fun x => decide (x ∈ b)) && b.all (fun x => decide (x ∈ a))

/-- `ctxs == self.__defaultContexts` (a dict never equals `None`) -/
def eqDflt (cs : List Ctx) (d : Option (List Ctx)) : Bool :=
  match d with
  | none => false
  | some d => ctxEq cs d

/-- `self.__tripleContexts.get(triple, self.__defaultContexts).keys()` on the two dictionaries -/
def getC (tctx : List (Triple × List Ctx)) (d : Option (List Ctx)) (t : Triple) : List Ctx :=
  match alookup tctx t with
  | some cs => cs
  | none =>
    match d with
    | some d => d
    | none => []

/-- `__get_context_for_triple` -/
def getCtxs (m : Mem) (t : Triple) : List Ctx := getC m.tctx m.dflt t

/-- the call above raises (`None.keys()`) when there is neither an entry nor a default -/
def getCtxsRaises (m : Mem) (t : Triple) : Bool :=
  (alookup m.tctx t).isNone && m.dflt.isNone

/-- `__triple_has_context` after the repair (`fix:` commit): the triple must be in the store.
    (`try: self.__spo[s][p][o] except KeyError: return False`, then the dictionary test) -/
def hasCtx (m : Mem) (t : Triple) (c : Ctx) : Bool :=
  decide (t ∈ m.spo) && decide (c ∈ getCtxs m t)

/-- `__triple_has_context` of the pinned code (kept to document finding C01-F1; not used by the model):
    answers from the default context set for a triple that is no longer in the store. -/
def hasCtxPinned (m : Mem) (t : Triple) (c : Ctx) : Bool :=
  decide (c ∈ getCtxs m t)

def hasCtxRaises (m : Mem) (t : Triple) : Bool :=
  decide (t ∈ m.spo) && getCtxsRaises m t

/-- `d[k]` for `d = __contextTriples`, empty when the key is absent (callers test the key first) -/
def getT (l : List (Ctx × List Triple)) (k : Ctx) : List Triple :=
  match alookup l k with
  | some ts => ts
  | none => []

def ctxTget (m : Mem) (k : Ctx) : List Triple := getT m.ctxT k

/-- `if k not in d: d[k] = set()` ; `d[k].add(t)` -/
def ctxTadd (l : List (Ctx × List Triple)) (k : Ctx) (t : Triple) : List (Ctx × List Triple) :=
  match alookup l k with
  | some ts => aset l k (sinsert ts t)
  | none => aset l k [t]

/-- `d[k].remove(t)` -/
def ctxTdel (l : List (Ctx × List Triple)) (k : Ctx) (t : Triple) : List (Ctx × List Triple) :=
  match alookup l k with
  | some ts => aset l k (sremove ts t)
  | none => l

def ctxTdelRaises (l : List (Ctx × List Triple)) (k : Ctx) (t : Triple) : Bool :=
  match alookup l k with
  | some ts => !decide (t ∈ ts)
  | none => true

/-- the dictionary `triple_context` built by the first `if/else` of `__add_triple_context` -/
def newTripleCtx (m : Mem) (t : Triple) (ex : Bool) (ctx : Ctx) : List Ctx :=
  if ex then sinsert (sinsert (getCtxs m t) ctx) none else [ctx, none]

/-- `self.__tripleContexts[t] = tc` followed by `if tc == default: del self.__tripleContexts[t]` -/
def compress (tctx : List (Triple × List Ctx)) (d : Option (List Ctx)) (t : Triple) (tc : List Ctx) :
    List (Triple × List Ctx) :=
  if eqDflt tc d then aerase tctx t else aset tctx t tc

/-- `if self.__defaultContexts is None: self.__defaultContexts = triple_context` -/
def setDflt (d : Option (List Ctx)) (tc : List Ctx) : Option (List Ctx) :=
  match d with
  | none => some tc
  | some d => some d

/-- `__add_triple_context(triple, triple_exists, context, quoted=False)` -/
def addTripleContext (m : Mem) (t : Triple) (ex : Bool) (c : Nat) : Mem :=
  { m with
    tctx := compress m.tctx (setDflt m.dflt (newTripleCtx m t ex (some c))) t (newTripleCtx m t ex (some c))
    dflt := setDflt m.dflt (newTripleCtx m t ex (some c))
    ctxT := ctxTadd (ctxTadd m.ctxT none t) (some c) t
    err := m.err || (ex && getCtxsRaises m t) || (alookup m.ctxT none).isNone }

/-- the index and context part of `Memory.add`: probe/insert `spo`, context bookkeeping, then `pos`, `osp`
    only when the triple was new -/
def Mem.addCore (m : Mem) (t : Triple) (c : Nat) : Mem :=
  if t ∈ m.spo then addTripleContext m t true c
  else
    { addTripleContext { m with spo := m.spo ++ [t] } t false c with
      pos := sinsert m.pos t
      osp := sinsert m.osp t }

/-- `if context is not None: self.__all_contexts.add(context)` -/
def Mem.register (m : Mem) (c : Nat) : Mem := { m with allc := sinsert m.allc c }

/-- `Memory.add(triple, context)` with `context` a graph (`add(t, None)` — a triple asserted in the union
    only — has no caller among the modelled APIs and is not modelled) -/
def Mem.add (m : Mem) (t : Triple) (c : Nat) : Mem := (m.register c).addCore t c

/-- `__remove_triple_context(triple, ctx)` -/
def removeTripleContext (m : Mem) (t : Triple) (ctx : Ctx) : Mem :=
  { m with
    tctx := compress m.tctx m.dflt t (sremove (getCtxs m t) ctx)
    ctxT := ctxTdel m.ctxT ctx t
    err := m.err || getCtxsRaises m t || !decide (ctx ∈ getCtxs m t)
            || (eqDflt (sremove (getCtxs m t) ctx) m.dflt && (alookup m.tctx t).isNone)
            || ctxTdelRaises m.ctxT ctx t }

/-- `for ctx in self.__get_context_for_triple(triple): if context is not None and req_ctx != ctx: continue; …`
    (the key view iterated belongs to a dictionary that is never mutated in place) -/
def removeCtxLoop (m : Mem) (t : Triple) (req : Ctx) : List Ctx → Mem
  | [] => m
  | ctx :: r =>
    if req.isSome && req != ctx then removeCtxLoop m t req r
    else removeCtxLoop (removeTripleContext m t ctx) t req r

/-- `if None in ctxs and (context is None or len(ctxs) == 1): self.__remove_triple_context(triple, None)` -/
def dropUnion (m : Mem) (t : Triple) (req : Ctx) : Mem :=
  if decide (none ∈ getCtxs m t) && (req.isNone || (getCtxs m t).length == 1) then removeTripleContext m t none
  else m

/-- `if len(self.__get_context_for_triple(triple)) == 0: del spo…; del pos…; del osp…; del tripleContexts[t]` -/
def dropTriple (m : Mem) (t : Triple) : Mem :=
  if (getCtxs m t).length == 0 then
    { m with
      spo := sremove m.spo t
      pos := sremove m.pos t
      osp := sremove m.osp t
      tctx := aerase m.tctx t
      err := m.err || !decide (t ∈ m.spo) || !decide (t ∈ m.pos) || !decide (t ∈ m.osp)
              || (alookup m.tctx t).isNone }
  else m

/-- body of the `for triple, c in self.triples(...)` loop of `Memory.remove` -/
def removeOne (m : Mem) (t : Triple) (req : Ctx) : Mem :=
  dropTriple
    (dropUnion (removeCtxLoop (m.flag (getCtxsRaises m t)) t req (getCtxs m t)) t req) t

/-- the candidates read from the index chosen by the pattern shape (`is None` tests).
    The key lists are copied level by level while the generator runs; within `remove` and
    within an un-interleaved `triples()` this equals reading the index once. -/
def cands (m : Mem) : Pat → List Triple
  | (some s, some p, some o) => if (s, p, o) ∈ m.spo then [(s, p, o)] else []
  | (some s, some p, none) => m.spo.filter (fun t => t.1 == s && t.2.1 == p)
  | (some s, none, some o) => m.spo.filter (fun t => t.1 == s && t.2.2 == o)
  | (some s, none, none) => m.spo.filter (fun t => t.1 == s)
  | (none, some p, some o) => m.pos.filter (fun t => t.2.1 == p && t.2.2 == o)
  | (none, some p, none) => m.pos.filter (fun t => t.2.1 == p)
  | (none, none, some o) => m.osp.filter (fun t => t.2.2 == o)
  | (none, none, none) => m.spo   -- the code's last branch ("Shouldn't get here")

/-- `Memory.triples(pattern, context)` run to completion with no interleaved mutation -/
def triples (m : Mem) (pat : Pat) (req : Ctx) : List Triple :=
  match pat with
  | (none, none, none) => ctxTget m req    -- `self.__contextTriples[req_ctx].copy()`, `return` when the key is absent
  | _ => (cands m pat).filter (fun t => hasCtx m t req)

def triplesRaises (m : Mem) (pat : Pat) : Bool :=
  match pat with
  | (none, none, none) => false
  | _ => (cands m pat).any (fun t => hasCtxRaises m t)

/-- `Memory.__len__(context)` -/
def Mem.len (m : Mem) (req : Ctx) : Nat := (ctxTget m req).length

/-- `Memory.remove`'s loop over its own lazy `triples()` generator.  `test = false` is the
    all-unbound fast path (snapshot, no has-context test). -/
def removeLoop (m : Mem) (req : Ctx) (test : Bool) : List Triple → Mem
  | [] => m
  | t :: r =>
    if !test || hasCtx m t req then
      removeLoop (removeOne (m.flag (test && hasCtxRaises m t)) t req) req test r
    else removeLoop (m.flag (test && hasCtxRaises m t)) req test r

/-- `if req_ctx is not None and req_ctx in self.__contextTriples and len(self.__contextTriples[req_ctx]) == 0: del …` -/
def dropEmptyCtx (m : Mem) (req : Ctx) : Mem :=
  match req with
  | none => m
  | some c =>
    match alookup m.ctxT (some c) with
    | some [] => { m with ctxT := aerase m.ctxT (some c) }
    | _ => m

/-- `Memory.remove(pattern, context)`, `context` a graph (`some g`) or `None` (every graph).
    The final clause `if pattern == (None, None, None) and context in self.__all_contexts and not
    self.graph_aware: self.__all_contexts.remove(context)` never fires: `Memory.graph_aware = True`. -/
def Mem.remove (m : Mem) (pat : Pat) (req : Ctx) : Mem :=
  match pat with
  | (none, none, none) => dropEmptyCtx (removeLoop m req false (ctxTget m req)) req
  | _ => dropEmptyCtx (removeLoop m req true (cands m pat)) req

/-- `__contexts(triple)`: the graphs among the triple's context keys (`if ctx_str is not None`) -/
def keysOf : List Ctx → List Nat
  | [] => []
  | none :: r => keysOf r
  | some k :: r => k :: keysOf r

def ctxKeys (m : Mem) (t : Triple) : List Nat := keysOf (getCtxs m t)

/-- `Memory.contexts(triple=None)`: all registered graphs for `None` / `(None, None, None)`; for a triple,
    `try: self.__spo[s][p][o]; return self.__contexts(triple) except KeyError: return ()` — a pattern with an
    unbound position runs into the `KeyError` -/
def Mem.contexts (m : Mem) : Pat → List Nat
  | (none, none, none) => m.allc
  | (some s, some p, some o) => if (s, p, o) ∈ m.spo then ctxKeys m (s, p, o) else []
  | _ => []

/-- `Memory.triples(pattern, context)` as the store yields it: each triple with `__contexts(triple)` -/
def Mem.triplesC (m : Mem) (pat : Pat) (req : Ctx) : List (Triple × List Nat) :=
  (triples m pat req).map (fun t => (t, ctxKeys m t))

/-- `Memory.add_graph(graph)` (graph-aware store) -/
def Mem.addGraph (m : Mem) (k : Nat) : Mem := m.register k

/-- `Memory.remove_graph(graph)`: `self.remove((None, None, None), graph)`, then
    `try: self.__all_contexts.remove(graph) except KeyError: pass` -/
def Mem.removeGraph (m : Mem) (k : Nat) : Mem :=
  { m.remove (none, none, none) (some k) with allc := sremove (m.remove (none, none, none) (some k)).allc k }

/-! ### `Graph` over a `Memory` store (graph `g` = context `some g`) -/

/-- `t in g`: first element of `g.triples(t)` -/
def Mem.contains (m : Mem) (t : Triple) (g : Nat) : Bool :=
  !(triples m (some t.1, some t.2.1, some t.2.2) (some g)).isEmpty

/-- a quad handed to `addN`: triple, identifier of its context, and whether the context object is a `Graph` -/
abbrev Quad := Triple × Nat × Bool

/-- `Graph.addN`: keep quads whose context is a Graph with this graph's identifier
    (`==` after the repair, `fix:` commit; the pinned code used `is`), `Store.addN` adds each with its context -/
def Mem.addN (m : Mem) (g : Nat) : List Quad → Mem
  | [] => m
  | (t, c, isG) :: r => if isG && c == g then Mem.addN (m.add t c) g r else Mem.addN m g r

/-- `Graph.set((s, p, o))` -/
def Mem.set (m : Mem) (t : Triple) (g : Nat) : Mem :=
  (m.remove (some t.1, some t.2.1, none) (some g)).add t g

/-- `g += ts` : `self.addN((s, p, o, self) for s, p, o in other)` -/
def Mem.iadd (m : Mem) (g : Nat) (ts : List Triple) : Mem :=
  m.addN g (ts.map (fun t => (t, g, true)))

/-- `g -= ts` : `for triple in other: self.remove(triple)` -/
def Mem.isub (m : Mem) (g : Nat) : List Triple → Mem
  | [] => m
  | t :: r => Mem.isub (m.remove (some t.1, some t.2.1, some t.2.2) (some g)) g r

def allPat : Pat := (none, none, none)

/-- `list(g)` -/
def Mem.graph (m : Mem) (g : Nat) : List Triple := triples m allPat (some g)

/-- a new `Graph()` (own fresh `Memory`, identifier `r`) filled by `retval.add(x)` for each `x` -/
def Mem.ofList (r : Nat) (ts : List Triple) : Mem := ts.foldl (fun m t => m.add t r) Mem.init

/-! The binary operators build a new `Graph()`; they read their operands only through
    iteration (`xs`, `ys`) and membership (`inA`, `inB`), whatever store the operands live on. -/

/-- `a + b` : `for x in self: retval.add(x); for y in other: retval.add(y)` -/
def gUnion (xs ys : List Triple) (r : Nat) : Mem := Mem.ofList r (xs ++ ys)

/-- `a * b` : `for x in other: if x in self: retval.add(x)` -/
def gInter (inA : Triple → Bool) (ys : List Triple) (r : Nat) : Mem := Mem.ofList r (ys.filter inA)

/-- `a - b` : `for x in self: if x not in other: retval.add(x)` -/
def gDiff (xs : List Triple) (inB : Triple → Bool) (r : Nat) : Mem :=
  Mem.ofList r (xs.filter (fun x => !inB x))

/-- `a ^ b` : `(self - other) + (other - self)` -/
def gXor (xs : List Triple) (inA : Triple → Bool) (ys : List Triple) (inB : Triple → Bool) (r : Nat) : Mem :=
  gUnion ((gDiff xs inB r).graph r) ((gDiff ys inA r).graph r) r

/-- a graph as the binary operators see it, whatever store it lives on: its iteration and its `in` test -/
structure View where
  xs : List Triple
  has : Triple → Bool

def View.ofMem (m : Mem) (g : Nat) : View := ⟨m.graph g, fun x => m.contains x g⟩

/-- the four operators on two views (`r` = identifier of the new graph) -/
def View.union (a b : View) (r : Nat) : Mem := gUnion a.xs b.xs r
def View.diff (a b : View) (r : Nat) : Mem := gDiff a.xs b.has r
def View.inter (a b : View) (r : Nat) : Mem := gInter a.has b.xs r
def View.xor (a b : View) (r : Nat) : Mem := gXor a.xs a.has b.xs b.has r

/-- mutating operations of a history (all through `Graph` objects sharing one `Memory`) -/
inductive Op
  | add (t : Triple) (g : Nat)
  | addN (g : Nat) (qs : List Quad)
  | remove (pat : Pat) (g : Nat)
  | set (t : Triple) (g : Nat)
  | iadd (g : Nat) (ts : List Triple)
  | iaddG (g h : Nat)     -- `g += h`, `h` a graph on the same store (its iteration is a snapshot)
  | isub (g : Nat) (ts : List Triple)
  | isubG (g h : Nat)     -- `g -= h`
  deriving Repr

def Mem.step (m : Mem) : Op → Mem
  | .add t g => m.add t g
  | .addN g qs => m.addN g qs
  | .remove pat g => m.remove pat (some g)
  | .set t g => m.set t g
  | .iadd g ts => m.iadd g ts
  | .iaddG g h => m.iadd g (m.graph h)
  | .isub g ts => m.isub g ts
  | .isubG g h => m.isub g (m.graph h)

def Mem.run (m : Mem) (ops : List Op) : Mem := ops.foldl Mem.step m

/-- operations of a store-level history: the `Memory` API called directly (contexts are graphs of the
    store, `remove` also with `None`), freely mixed with the `Graph`-level operations above -/
inductive StOp
  | add (t : Triple) (c : Nat)
  | remove (pat : Pat) (ctx : Option Nat)
  | addGraph (k : Nat)
  | removeGraph (k : Nat)
  | graph (op : Op)
  deriving Repr

def Mem.stStep (m : Mem) : StOp → Mem
  | .add t c => m.add t c
  | .remove pat ctx => m.remove pat ctx
  | .addGraph k => m.addGraph k
  | .removeGraph k => m.removeGraph k
  | .graph op => m.step op

def Mem.stRun (m : Mem) (ops : List StOp) : Mem := ops.foldl Mem.stStep m

/-! ### an open `triples()` generator interleaved with mutations (small-step machine)

  The real generator copies key lists level by level while it advances.  The machine
  over-approximates this: the environment may `load` candidates at any moment, each of
  which must be in the index selected by the pattern shape *at that moment*; `next` pops
  one pending candidate and yields it iff the has-context test passes *now*.  The
  all-unbound fast path snapshots `__contextTriples[ctx]` when the generator starts and
  yields the snapshot without any test. -/

structure Iter where
  pat : Pat
  g : Nat
  fast : Bool
  pending : List Triple
  deriving Repr

def Iter.start (m : Mem) (pat : Pat) (g : Nat) : Iter :=
  match pat with
  | (none, none, none) => ⟨pat, g, true, ctxTget m (some g)⟩
  | _ => ⟨pat, g, false, []⟩

def Iter.load (it : Iter) (m : Mem) (ts : List Triple) : Iter :=
  if it.fast then it
  else { it with pending := it.pending ++ ts.filter (fun t => decide (t ∈ cands m it.pat)) }

/-- one `next()`-internal step: test the head candidate; `some t` = yielded -/
def Iter.next (it : Iter) (m : Mem) : Iter × Option Triple :=
  match it.pending with
  | [] => (it, none)
  | t :: r =>
    if it.fast || hasCtx m t (some it.g) then ({ it with pending := r }, some t)
    else ({ it with pending := r }, none)

def Iter.nextRaises (it : Iter) (m : Mem) : Bool :=
  match it.pending with
  | [] => false
  | t :: _ => !it.fast && hasCtxRaises m t

/-- the same step with the pinned code's has-context test (finding C01-F1) -/
def Iter.nextPinned (it : Iter) (m : Mem) : Iter × Option Triple :=
  match it.pending with
  | [] => (it, none)
  | t :: r =>
    if it.fast || hasCtxPinned m t (some it.g) then ({ it with pending := r }, some t)
    else ({ it with pending := r }, none)

inductive Ev
  | mutate (op : StOp)
  | load (ts : List Triple)
  | next
  deriving Repr

/-- yields of a schedule, each with the store states since the generator began (latest first) -/
def yields (hist : List Mem) (m : Mem) (it : Iter) : List Ev → List (Triple × List Mem)
  | [] => []
  | .mutate op :: es => yields (m.stStep op :: hist) (m.stStep op) it es
  | .load ts :: es => yields hist m (it.load m ts) es
  | .next :: es =>
    match (it.next m).2 with
    | some t => (t, hist) :: yields hist m (it.next m).1 es
    | none => yields hist m (it.next m).1 es

/-- number of `next` steps of a schedule -/
def countNext : List Ev → Nat
  | [] => 0
  | .next :: es => countNext es + 1
  | _ :: es => countNext es

/-- some step of the schedule raised -/
def schedRaises (m : Mem) (it : Iter) : List Ev → Bool
  | [] => false
  | .mutate op :: es => (m.stStep op).err || schedRaises (m.stStep op) it es
  | .load ts :: es => schedRaises m (it.load m ts) es
  | .next :: es => it.nextRaises m || schedRaises m (it.next m).1 es

def yieldsPinned (hist : List Mem) (m : Mem) (it : Iter) : List Ev → List (Triple × List Mem)
  | [] => []
  | .mutate op :: es => yieldsPinned (m.stStep op :: hist) (m.stStep op) it es
  | .load ts :: es => yieldsPinned hist m (it.load m ts) es
  | .next :: es =>
    match (it.nextPinned m).2 with
    | some t => (t, hist) :: yieldsPinned hist m (it.nextPinned m).1 es
    | none => yieldsPinned hist m (it.nextPinned m).1 es

/-! ### `SimpleMemory` (no contexts; `!= ANY` dispatch) -/

structure SMem where
  spo : List Triple := []
  pos : List Triple := []
  osp : List Triple := []
  err : Bool := false
  deriving Repr

def SMem.init : SMem := {}

/-- `SimpleMemory.add`: three idempotent dict assignments -/
def SMem.add (m : SMem) (t : Triple) : SMem :=
  { m with spo := sinsert m.spo t, pos := sinsert m.pos t, osp := sinsert m.osp t }

/-- `SimpleMemory.triples`: subject given → `spo`; else predicate given → `pos`; else object given → `osp`; else `spo` -/
def SMem.triples (m : SMem) : Pat → List Triple
  | (some s, some p, some o) => if (s, p, o) ∈ m.spo then [(s, p, o)] else []
  | (some s, some p, none) => m.spo.filter (fun t => t.1 == s && t.2.1 == p)
  | (some s, none, some o) => m.spo.filter (fun t => t.1 == s && t.2.2 == o)
  | (some s, none, none) => m.spo.filter (fun t => t.1 == s)
  | (none, some p, some o) => m.pos.filter (fun t => t.2.1 == p && t.2.2 == o)
  | (none, some p, none) => m.pos.filter (fun t => t.2.1 == p)
  | (none, none, some o) => m.osp.filter (fun t => t.2.2 == o)
  | (none, none, none) => m.spo

/-- `del self.__spo[s][p][o]; del self.__pos[p][o][s]; del self.__osp[o][s][p]` -/
def SMem.del (m : SMem) (t : Triple) : SMem :=
  { spo := sremove m.spo t, pos := sremove m.pos t, osp := sremove m.osp t
    err := m.err || !decide (t ∈ m.spo) || !decide (t ∈ m.pos) || !decide (t ∈ m.osp) }

/-- `SimpleMemory.remove`: `for … in list(self.triples(pattern)): del …` -/
def SMem.remove (m : SMem) (pat : Pat) : SMem := (m.triples pat).foldl SMem.del m

def SMem.len (m : SMem) : Nat := (m.triples allPat).length

def SMem.contains (m : SMem) (t : Triple) : Bool :=
  !(m.triples (some t.1, some t.2.1, some t.2.2)).isEmpty

/-- `Graph.addN` on a graph with identifier `g` over this store -/
def SMem.addN (m : SMem) (g : Nat) : List Quad → SMem
  | [] => m
  | (t, c, isG) :: r => if isG && c == g then SMem.addN (m.add t) g r else SMem.addN m g r

def SMem.set (m : SMem) (t : Triple) : SMem := (m.remove (some t.1, some t.2.1, none)).add t

def SMem.iadd (m : SMem) (ts : List Triple) : SMem := ts.foldl SMem.add m

def SMem.isub (m : SMem) : List Triple → SMem
  | [] => m
  | t :: r => SMem.isub (m.remove (some t.1, some t.2.1, some t.2.2)) r

def View.ofSimple (m : SMem) : View := ⟨m.triples allPat, fun x => m.contains x⟩

inductive SOp
  | add (t : Triple)
  | addN (g : Nat) (qs : List Quad)
  | remove (pat : Pat)
  | set (t : Triple)
  | iadd (ts : List Triple)
  | isub (ts : List Triple)
  deriving Repr

def SMem.step (m : SMem) : SOp → SMem
  | .add t => m.add t
  | .addN g qs => m.addN g qs
  | .remove pat => m.remove pat
  | .set t => m.set t
  | .iadd ts => m.iadd ts
  | .isub ts => m.isub ts

def SMem.run (m : SMem) (ops : List SOp) : SMem := ops.foldl SMem.step m

end RV.C01
