import RV.C01.LemStore
/-
  C01 helper lemmas, part G: every operation of a history keeps the invariant; an open
  `triples()` generator interleaved with mutations.
-/
namespace RV.C01
open RV

@[simp] theorem load_pat (it : Iter) (m : Mem) (ts : List Triple) : (it.load m ts).pat = it.pat := by
  unfold Iter.load; split <;> rfl
@[simp] theorem load_g (it : Iter) (m : Mem) (ts : List Triple) : (it.load m ts).g = it.g := by
  unfold Iter.load; split <;> rfl
@[simp] theorem load_fast (it : Iter) (m : Mem) (ts : List Triple) : (it.load m ts).fast = it.fast := by
  unfold Iter.load; split <;> rfl
@[simp] theorem next_pat (it : Iter) (m : Mem) : (it.next m).1.pat = it.pat := by
  unfold Iter.next; split
  · rfl
  · split <;> rfl
@[simp] theorem next_g (it : Iter) (m : Mem) : (it.next m).1.g = it.g := by
  unfold Iter.next; split
  · rfl
  · split <;> rfl
@[simp] theorem next_fast (it : Iter) (m : Mem) : (it.next m).1.fast = it.fast := by
  unfold Iter.next; split
  · rfl
  · split <;> rfl

/-- what the machine knows about each pending candidate -/
def PendingOk (hist : List Mem) (it : Iter) : Prop :=
  ∀ t ∈ it.pending, it.pat.matches t = true ∧ (it.fast = true → ∃ m' ∈ hist, InG m' t it.g)

theorem pendingOk_mono {hist : List Mem} {it : Iter} (m' : Mem) (h : PendingOk hist it) :
    PendingOk (m' :: hist) it := by
  intro t ht
  obtain ⟨h1, h2⟩ := h t ht
  refine ⟨h1, fun hf => ?_⟩
  obtain ⟨m'', hm, hin⟩ := h2 hf
  exact ⟨m'', List.mem_cons_of_mem _ hm, hin⟩

theorem pendingOk_load {hist : List Mem} {it : Iter} {m : Mem} (hI : Inv m) (ts : List Triple)
    (h : PendingOk hist it) : PendingOk hist (it.load m ts) := by
  unfold Iter.load
  by_cases hf : it.fast = true
  · simp only [hf, if_true]; exact h
  · have hf' : it.fast = false := by simpa using hf
    simp only [hf', Bool.false_eq_true, if_false]
    intro t ht
    have ht' : t ∈ it.pending ++ ts.filter (fun t => decide (t ∈ cands m it.pat)) := ht
    simp only [List.mem_append, List.mem_filter, decide_eq_true_eq] at ht'
    refine ⟨?_, fun hf'' => by cases hf''⟩
    show it.pat.matches t = true
    rcases ht' with ht' | ⟨_, ht'⟩
    · exact (h t ht').1
    · exact ((mem_cands hI.toInv0 _ _).1 ht').2

theorem pendingOk_next {hist : List Mem} {it : Iter} (m : Mem) (h : PendingOk hist it) :
    PendingOk hist (it.next m).1 := by
  unfold Iter.next
  cases hp : it.pending with
  | nil => simpa [PendingOk, hp] using h
  | cons t r =>
    have : ∀ t' ∈ r, t' ∈ it.pending := by intro t' ht'; rw [hp]; exact List.mem_cons_of_mem _ ht'
    simp only
    split <;> (intro t' ht'; exact h t' (this t' ht'))

theorem next_yield {hist : List Mem} {it : Iter} {m : Mem} (hm : m ∈ hist) (h : PendingOk hist it)
    {t : Triple} (hy : (it.next m).2 = some t) :
    it.pat.matches t = true ∧ ∃ m' ∈ hist, InG m' t it.g := by
  unfold Iter.next at hy
  cases hp : it.pending with
  | nil => simp [hp] at hy
  | cons t0 r =>
    simp only [hp] at hy
    obtain ⟨h1, h2⟩ := h t0 (by rw [hp]; simp)
    by_cases hf : it.fast = true
    · simp only [hf, Bool.true_or, if_true, Option.some.injEq] at hy
      subst hy
      exact ⟨h1, h2 hf⟩
    · have hf' : it.fast = false := by simpa using hf
      by_cases hc : hasCtx m t0 (some it.g) = true
      · simp only [hf', hc, Bool.or_true, if_true, Option.some.injEq] at hy
        subst hy
        exact ⟨h1, m, hm, (hasCtx_iff m t0 it.g).1 hc⟩
      · simp [hf', hc] at hy

/-- every triple yielded under any schedule matched the pattern and was in the graph at some
    moment since the generator began -/
theorem yields_sound (pat : Pat) (g : Nat) : ∀ (evs : List Ev) (hist : List Mem) (m : Mem) (it : Iter),
    Inv m → m ∈ hist → it.pat = pat → it.g = g → PendingOk hist it →
    ∀ y ∈ yields hist m it evs, pat.matches y.1 = true ∧ ∃ m' ∈ y.2, InG m' y.1 g := by
  intro evs
  induction evs with
  | nil => intro hist m it _ _ _ _ _ y hy; simp [yields] at hy
  | cons e es ih =>
    intro hist m it hI hm hp hg hok y hy
    cases e with
    | mutate op =>
      simp only [yields] at hy
      exact ih _ _ it (stStep_inv hI op) (by simp) hp hg (pendingOk_mono _ hok) y hy
    | load ts =>
      simp only [yields] at hy
      exact ih hist m _ hI hm (by simp [hp]) (by simp [hg]) (pendingOk_load hI ts hok) y hy
    | next =>
      simp only [yields] at hy
      cases hn : (it.next m).2 with
      | none =>
        rw [hn] at hy
        exact ih hist m _ hI hm (by simp [hp]) (by simp [hg]) (pendingOk_next m hok) y hy
      | some t =>
        rw [hn] at hy
        simp only [List.mem_cons] at hy
        rcases hy with hy | hy
        · subst hy
          have := next_yield hm hok hn
          rw [hp, hg] at this
          exact this
        · exact ih hist m _ hI hm (by simp [hp]) (by simp [hg]) (pendingOk_next m hok) y hy

theorem pendingOk_start {m : Mem} (hI : Inv m) (pat : Pat) (g : Nat) : PendingOk [m] (Iter.start m pat g) := by
  by_cases hp : pat = (none, none, none)
  · subst hp
    intro t ht
    simp only [Iter.start] at ht ⊢
    exact ⟨by simp [Pat.matches, matchPos], fun _ => ⟨m, by simp, (hI.ctxT_iff _ _).1 ht⟩⟩
  · have : Iter.start m pat g = ⟨pat, g, false, []⟩ := by
      obtain ⟨ps, pp, po⟩ := pat
      cases ps <;> cases pp <;> cases po <;> first | rfl | exact (hp rfl).elim
    rw [this]
    intro t ht
    cases ht

theorem start_pat (m : Mem) (pat : Pat) (g : Nat) : (Iter.start m pat g).pat = pat := by
  obtain ⟨ps, pp, po⟩ := pat
  cases ps <;> cases pp <;> cases po <;> rfl

theorem start_g (m : Mem) (pat : Pat) (g : Nat) : (Iter.start m pat g).g = g := by
  obtain ⟨ps, pp, po⟩ := pat
  cases ps <;> cases pp <;> cases po <;> rfl

/-- no step of any schedule raises -/
theorem sched_no_raise : ∀ (evs : List Ev) (m : Mem) (it : Iter), Inv m → schedRaises m it evs = false := by
  intro evs
  induction evs with
  | nil => intro m it _; rfl
  | cons e es ih =>
    intro m it hI
    cases e with
    | mutate op =>
      simp only [schedRaises, Bool.or_eq_false_iff]
      exact ⟨(stStep_inv hI op).err, ih _ it (stStep_inv hI op)⟩
    | load ts => exact ih m _ hI
    | next =>
      simp only [schedRaises, Bool.or_eq_false_iff]
      refine ⟨?_, ih m _ hI⟩
      unfold Iter.nextRaises
      split
      · rfl
      · simp [hasCtxRaises_false hI.toInv0]

end RV.C01
