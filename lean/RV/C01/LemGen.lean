import RV.C01.LemNest
/-
  C01 helper lemmas, round g, part 5: the concrete generator machine `NGen` (level-by-level key copies).
  * first- and second-level dictionary keys are never deleted (`KeysLe`), so the live lookups `d[k]` of copied keys
    cannot raise;
  * every yield passed the has-context test on the live store just before (or comes from the start copy);
  * run to exhaustion with nothing interleaved, the generator yields exactly `NMem.triples`.
-/
namespace RV.C01
open RV

/-! ### dictionary keys of the first two levels only grow -/

theorem keys_lvl2_aset_self {i : Idx} {a b k : Nat} {l : List Nat} (h : k ∈ akeys (lvl2 i a)) :
    k ∈ akeys (lvl2 (aset i a (aset (lvl2 i a) b l)) a) := by
  rw [lvl2_aset]; simp only [if_true]
  rw [akeys_aset]
  split
  · exact h
  · exact List.mem_append_left _ h

theorem keys_lvl2_aset {i : Idx} {a a' b k : Nat} {l : List Nat} (h : k ∈ akeys (lvl2 i a')) :
    k ∈ akeys (lvl2 (aset i a (aset (lvl2 i a) b l)) a') := by
  by_cases e : a = a'
  · subst e; exact keys_lvl2_aset_self h
  · rw [lvl2_aset]; simp only [e, if_false]; exact h

theorem keys_idxAdd {i : Idx} {a' k : Nat} (a b c : Nat) (h : k ∈ akeys (lvl2 i a')) :
    k ∈ akeys (lvl2 (idxAdd i a b c) a') := keys_lvl2_aset h

theorem keys_idxDel {i : Idx} {a' k : Nat} (a b c : Nat) (h : k ∈ akeys (lvl2 i a')) :
    k ∈ akeys (lvl2 (idxDel i a b c) a') := by
  unfold idxDel
  split
  · exact keys_lvl2_aset h
  · exact h

structure KeysLe (n n' : NMem) : Prop where
  spo : ∀ a k, k ∈ akeys (lvl2 n.ispo a) → k ∈ akeys (lvl2 n'.ispo a)
  pos : ∀ a k, k ∈ akeys (lvl2 n.ipos a) → k ∈ akeys (lvl2 n'.ipos a)
  osp : ∀ a k, k ∈ akeys (lvl2 n.iosp a) → k ∈ akeys (lvl2 n'.iosp a)

theorem KeysLe.refl (n : NMem) : KeysLe n n := ⟨fun _ _ h => h, fun _ _ h => h, fun _ _ h => h⟩

theorem KeysLe.trans {a b c : NMem} (h1 : KeysLe a b) (h2 : KeysLe b c) : KeysLe a c :=
  ⟨fun x k h => h2.spo x k (h1.spo x k h), fun x k h => h2.pos x k (h1.pos x k h), fun x k h => h2.osp x k (h1.osp x k h)⟩

theorem keysLe_cx (n : NMem) (c : Mem) : KeysLe n { n with cx := c } := ⟨fun _ _ h => h, fun _ _ h => h, fun _ _ h => h⟩

theorem keysLe_addCore (n : NMem) (t : Triple) (c : Nat) : KeysLe n (n.addCore t c) := by
  unfold NMem.addCore
  split
  · exact keysLe_cx n _
  · exact ⟨fun _ _ h => keys_idxAdd _ _ _ h, fun _ _ h => keys_idxAdd _ _ _ h, fun _ _ h => keys_idxAdd _ _ _ h⟩

theorem keysLe_add (n : NMem) (t : Triple) (c : Nat) : KeysLe n (n.add t c) :=
  (keysLe_cx n _).trans (keysLe_addCore _ t c)

theorem keysLe_dropTriple (n : NMem) (t : Triple) : KeysLe n (n.dropTriple t) := by
  unfold NMem.dropTriple
  split
  · exact ⟨fun _ _ h => keys_idxDel _ _ _ h, fun _ _ h => keys_idxDel _ _ _ h, fun _ _ h => keys_idxDel _ _ _ h⟩
  · exact KeysLe.refl n

theorem keysLe_removeOne (n : NMem) (t : Triple) (req : Ctx) : KeysLe n (n.removeOne t req) :=
  (keysLe_cx n _).trans (keysLe_dropTriple _ t)

theorem keysLe_removeLoop (req : Ctx) (test : Bool) : ∀ (l : List Triple) (n : NMem), KeysLe n (n.removeLoop req test l) := by
  intro l
  induction l with
  | nil => intro n; exact KeysLe.refl n
  | cons t r ih =>
    intro n
    simp only [NMem.removeLoop]
    split
    · exact ((keysLe_cx n _).trans (keysLe_removeOne _ t req)).trans (ih _)
    · exact (keysLe_cx n _).trans (ih _)

theorem keysLe_remove (n : NMem) (pat : Pat) (req : Ctx) : KeysLe n (n.remove pat req) := by
  have key : ∀ (test : Bool) (l : List Triple),
      KeysLe n { n.removeLoop req test l with cx := dropEmptyCtx (n.removeLoop req test l).cx req } :=
    fun test l => (keysLe_removeLoop req test l n).trans (keysLe_cx _ _)
  obtain ⟨ps, pp, po⟩ := pat
  cases ps <;> cases pp <;> cases po <;> exact key _ _

theorem keysLe_addN (g : Nat) : ∀ (qs : List Quad) (n : NMem), KeysLe n (n.addN g qs) := by
  intro qs
  induction qs with
  | nil => intro n; exact KeysLe.refl n
  | cons q r ih =>
    intro n
    obtain ⟨t, c, isG⟩ := q
    simp only [NMem.addN]
    split
    · exact (keysLe_add n t c).trans (ih _)
    · exact ih _

theorem keysLe_isub (g : Nat) : ∀ (ts : List Triple) (n : NMem), KeysLe n (n.isub g ts) := by
  intro ts
  induction ts with
  | nil => intro n; exact KeysLe.refl n
  | cons t r ih => intro n; exact (keysLe_remove n _ _).trans (ih _)

theorem keysLe_step (n : NMem) (op : Op) : KeysLe n (n.step op) := by
  cases op with
  | add t g => exact keysLe_add n t g
  | addN g qs => exact keysLe_addN g qs n
  | remove pat g => exact keysLe_remove n pat _
  | set t g => exact (keysLe_remove n _ _).trans (keysLe_add _ t g)
  | iadd g ts => exact keysLe_addN g _ n
  | iaddG g h => exact keysLe_addN g _ n
  | isub g ts => exact keysLe_isub g ts n
  | isubG g h => exact keysLe_isub g _ n

theorem keysLe_stStep (n : NMem) (op : StOp) : KeysLe n (n.stStep op) := by
  cases op with
  | add t c => exact keysLe_add n t c
  | remove pat ctx => exact keysLe_remove n pat ctx
  | addGraph k => exact keysLe_cx n _
  | removeGraph k => exact (keysLe_remove n _ _).trans (keysLe_cx _ _)
  | graph op => exact keysLe_step n op

/-! ### reachable states -/

structure NGood (n : NMem) : Prop where
  wf : NWF n
  inv : Inv n.toMem

theorem ngood_init : NGood NMem.init := ⟨nwf_init, inv_init⟩

theorem ngood_stStep {n : NMem} (h : NGood n) (op : StOp) : NGood (n.stStep op) := by
  obtain ⟨e, hw⟩ := stStep_equiv h.wf op
  obtain ⟨n1, n2, n3⟩ := nodup_toMem hw
  exact ⟨hw, inv_of_equiv (stStep_inv h.inv op) e n1 n2 n3⟩

theorem ngood_stRun : ∀ (ops : List StOp) (n : NMem), NGood n → NGood (n.stRun ops) := by
  intro ops
  induction ops with
  | nil => intro n h; exact h
  | cons op r ih => intro n h; exact ih _ (ngood_stStep h op)

theorem nhasCtx_InG {n : NMem} (h : NGood n) (t : Triple) (g : Nat) : n.hasCtx t (some g) = true ↔ InG n.toMem t g := by
  rw [hasCtx_eq h.wf]; exact hasCtx_iff _ _ _

theorem nhasCtxRaises_false {n : NMem} (h : NGood n) (t : Triple) : n.hasCtxRaises t = false := by
  rw [hasCtxRaises_eq h.wf]; exact hasCtxRaises_false h.inv.toInv0 t

/-! ### the work list -/

/-- what is known of a work item: `hist` = the store states since the generator began, `n` = the live store -/
def WorkOk (g : Nat) (pat : Pat) (hist : List NMem) (n : NMem) : Work → Prop
  | .snap t => pat.matches t = true ∧ ∃ n' ∈ hist, InG n'.toMem t g
  | .leaf t => pat.matches t = true
  | .probe t => pat.matches t = true ∧ n.probeRaises t = false
  | .expand k => n.expandRaises pat k = false

theorem workOk_mono {g : Nat} {pat : Pat} {hist hist' : List NMem} {n n' : NMem} (hh : ∀ x ∈ hist, x ∈ hist')
    (hk : KeysLe n n') {w : Work} (h : WorkOk g pat hist n w) : WorkOk g pat hist' n' w := by
  cases w with
  | snap t =>
    obtain ⟨h1, x, hx, h2⟩ := h
    exact ⟨h1, x, hh x hx, h2⟩
  | leaf t => exact h
  | probe t =>
    refine ⟨h.1, ?_⟩
    have := h.2
    simp only [NMem.probeRaises, Bool.not_eq_false', decide_eq_true_eq] at this ⊢
    exact hk.spo _ _ this
  | expand k =>
    simp only [WorkOk] at h ⊢
    obtain ⟨ps, pp, po⟩ := pat
    cases ps <;> cases pp <;> cases po <;>
      simp only [NMem.expandRaises, Bool.not_eq_false', decide_eq_true_eq] at h ⊢
    · exact hk.osp _ _ h
    · exact hk.pos _ _ h
    · exact hk.spo _ _ h

theorem matches_expandKey (n : NMem) (pat : Pat) (k : Nat) : ∀ t ∈ n.expandKey pat k, pat.matches t = true := by
  obtain ⟨ps, pp, po⟩ := pat
  intro t ht
  cases ps <;> cases pp <;> cases po <;> simp only [NMem.expandKey, List.mem_map, List.not_mem_nil] at ht
  all_goals
    obtain ⟨x, _, rfl⟩ := ht
    simp [Pat.matches, matchPos]

theorem scan_spec (n : NMem) (req : Ctx) : ∀ (l : List Triple),
    (∀ t rest, n.scan req l = some (t, rest) →
        t ∈ l ∧ n.hasCtx t req = true ∧ (∀ x ∈ rest, x ∈ l) ∧
        l.filter (fun x => n.hasCtx x req) = t :: rest.filter (fun x => n.hasCtx x req)) ∧
    (n.scan req l = none → l.filter (fun x => n.hasCtx x req) = []) := by
  intro l
  induction l with
  | nil => simp [NMem.scan]
  | cons a r ih =>
    by_cases h : n.hasCtx a req = true
    · simp only [NMem.scan, h, if_true, Option.some.injEq, Prod.mk.injEq, reduceCtorEq, false_imp_iff, and_true]
      rintro t rest ⟨rfl, rfl⟩
      refine ⟨by simp, h, fun x hx => List.mem_cons_of_mem _ hx, ?_⟩
      simp [List.filter_cons, h]
    · have h' : n.hasCtx a req = false := by simpa using h
      simp only [NMem.scan, h', Bool.false_eq_true, if_false]
      constructor
      · intro t rest hs
        obtain ⟨h1, h2, h3, h4⟩ := ih.1 t rest hs
        refine ⟨List.mem_cons_of_mem _ h1, h2, fun x hx => List.mem_cons_of_mem _ (h3 x hx), ?_⟩
        simp [List.filter_cons, h', h4]
      · intro hs
        simp [List.filter_cons, h', ih.2 hs]

theorem scanRaises_false {n : NMem} (h : NGood n) (req : Ctx) : ∀ (l : List Triple), n.scanRaises req l = false := by
  intro l
  induction l with
  | nil => rfl
  | cons a r ih =>
    simp only [NMem.scanRaises, nhasCtxRaises_false h, Bool.false_or, ih]
    split <;> rfl

/-- one `next()`: the remaining work is still described by `WorkOk`, a yield is sound, nothing raises -/
theorem runGen_ok {n : NMem} (hg : NGood n) (g : Nat) (pat : Pat) (hist : List NMem) (hn : n ∈ hist) :
    ∀ (work : List Work), (∀ w ∈ work, WorkOk g pat hist n w) →
      (∀ w ∈ (n.runGen pat (some g) work).1, WorkOk g pat hist n w) ∧
      (∀ t, (n.runGen pat (some g) work).2 = some t → pat.matches t = true ∧ ∃ n' ∈ hist, InG n'.toMem t g) ∧
      n.runGenRaises pat (some g) work = false := by
  intro work
  induction work with
  | nil => intro _; simp [NMem.runGen, NMem.runGenRaises]
  | cons w r ih =>
    intro hall
    have hr : ∀ w ∈ r, WorkOk g pat hist n w := fun w hw => hall w (List.mem_cons_of_mem _ hw)
    have hw0 := hall w (by simp)
    obtain ⟨i1, i2, i3⟩ := ih hr
    cases w with
    | snap t =>
      simp only [NMem.runGen, NMem.runGenRaises, and_true]
      refine ⟨hr, ?_⟩
      intro t' e; injection e with e; subst e; exact hw0
    | leaf t =>
      simp only [NMem.runGen, NMem.runGenRaises, nhasCtxRaises_false hg, Bool.false_or]
      by_cases h : n.hasCtx t (some g) = true
      · simp only [h, if_true, and_true]
        refine ⟨hr, ?_⟩
        intro t' e; injection e with e; subst e
        exact ⟨hw0, n, hn, (nhasCtx_InG hg _ g).1 h⟩
      · simp only [h, if_false]
        exact ⟨i1, i2, i3⟩
    | probe t =>
      simp only [NMem.runGen, NMem.runGenRaises, nhasCtxRaises_false hg, Bool.and_false, Bool.or_false, hw0.2,
        Bool.false_or]
      by_cases h : (n.probeOk t && n.hasCtx t (some g)) = true
      · simp only [h, if_true, and_true]
        refine ⟨hr, ?_⟩
        intro t' e; injection e with e; subst e
        simp only [Bool.and_eq_true] at h
        exact ⟨hw0.1, n, hn, (nhasCtx_InG hg _ g).1 h.2⟩
      · simp only [h, if_false]
        exact ⟨i1, i2, i3⟩
    | expand k =>
      have hx : n.expandRaises pat k = false := hw0
      simp only [NMem.runGen, NMem.runGenRaises, hx, scanRaises_false hg, Bool.false_or]
      cases hs : n.scan (some g) (n.expandKey pat k) with
      | none => simp only; exact ⟨i1, i2, i3⟩
      | some tr =>
        obtain ⟨t, rest⟩ := tr
        obtain ⟨h1, h2, h3, _⟩ := (scan_spec n (some g) _).1 t rest hs
        simp only [and_true]
        refine ⟨?_, ?_⟩
        · intro w hw
          rcases List.mem_append.1 hw with hw | hw
          · simp only [List.mem_map] at hw
            obtain ⟨x, hx', rfl⟩ := hw
            exact matches_expandKey n pat k x (h3 x hx')
          · exact hr w hw
        · intro t' e; injection e with e; subst e
          exact ⟨matches_expandKey n pat k _ h1, n, hn, (nhasCtx_InG hg _ g).1 h2⟩

theorem startWork_ok {n : NMem} (hg : NGood n) (g : Nat) (pat : Pat) :
    ∀ w ∈ n.startWork pat (some g), WorkOk g pat [n] n w := by
  obtain ⟨ps, pp, po⟩ := pat
  intro w hw
  cases ps <;> cases pp <;> cases po <;> simp only [NMem.startWork, List.mem_map, List.mem_singleton] at hw
  · -- all unbound: the copy of `__contextTriples[g]`
    obtain ⟨t, ht, rfl⟩ := hw
    refine ⟨by simp [Pat.matches, matchPos], n, by simp, ?_⟩
    exact (hg.inv.ctxT_iff (some g) t).1 ht
  · obtain ⟨k, hk, rfl⟩ := hw
    simp only [WorkOk, NMem.expandRaises, Bool.not_eq_false', decide_eq_true_eq]; exact hk
  · obtain ⟨k, hk, rfl⟩ := hw
    simp only [WorkOk, NMem.expandRaises, Bool.not_eq_false', decide_eq_true_eq]; exact hk
  · obtain ⟨x, _, rfl⟩ := hw
    simp [WorkOk, Pat.matches, matchPos]
  · obtain ⟨k, hk, rfl⟩ := hw
    simp only [WorkOk, NMem.expandRaises, Bool.not_eq_false', decide_eq_true_eq]; exact hk
  · obtain ⟨k, hk, rfl⟩ := hw
    refine ⟨by simp [Pat.matches, matchPos], ?_⟩
    simp only [NMem.probeRaises, Bool.not_eq_false', decide_eq_true_eq]; exact hk
  · obtain ⟨x, _, rfl⟩ := hw
    simp [WorkOk, Pat.matches, matchPos]
  · subst hw
    simp [WorkOk, Pat.matches, matchPos]

/-- any schedule of mutations and `next()` steps -/
theorem gyields_sound (g : Nat) (pat : Pat) : ∀ (evs : List GEv) (hist : List NMem) (n : NMem) (gen : NGen),
    NGood n → gen.pat = pat → gen.req = some g →
    (gen.started = true → n ∈ hist ∧ ∀ w ∈ gen.work, WorkOk g pat hist n w) →
    gschedRaises n gen evs = false ∧
      ∀ y ∈ gyields hist n gen evs, pat.matches y.1 = true ∧ ∃ n' ∈ y.2, InG n'.toMem y.1 g := by
  intro evs
  induction evs with
  | nil => intro hist n gen _ _ _ _; simp [gschedRaises, gyields]
  | cons ev es ih =>
    intro hist n gen hg hp hr hw
    cases ev with
    | mutate op =>
      have hg' := ngood_stStep hg op
      have herr : (n.stStep op).cx.err = false := hg'.inv.err
      simp only [gschedRaises, gyields, herr, Bool.false_or]
      by_cases hs : gen.started = true
      · rw [if_pos hs]
        obtain ⟨h1, h2⟩ := hw hs
        refine ih _ _ _ hg' hp hr (fun _ => ⟨by simp, fun w hw' => ?_⟩)
        exact workOk_mono (fun x hx => List.mem_cons_of_mem _ hx) (keysLe_stStep n op) (h2 w hw')
      · rw [if_neg hs]
        exact ih _ _ _ hg' hp hr (fun h => (hs h).elim)
    | next =>
      have hwork : n ∈ (if gen.started = true then hist else [n]) ∧
          ∀ w ∈ gen.workAt n, WorkOk g pat (if gen.started = true then hist else [n]) n w := by
        unfold NGen.workAt
        by_cases hs : gen.started = true
        · rw [if_pos hs, if_pos hs]; exact hw hs
        · rw [if_neg hs, if_neg hs, hp, hr]; exact ⟨by simp, startWork_ok hg g pat⟩
      obtain ⟨k1, k2, k3⟩ := runGen_ok hg g pat _ hwork.1 (gen.workAt n) hwork.2
      have hnext := ih (if gen.started = true then hist else [n]) n (gen.next n).1 hg hp hr
        (fun _ => ⟨hwork.1, by simpa [NGen.next, hp, hr] using k1⟩)
      have hraise : gen.nextRaises n = false := by simpa [NGen.nextRaises, hp, hr] using k3
      simp only [gschedRaises, hraise, Bool.false_or, hnext.1, true_and]
      simp only [gyields]
      cases hy : (gen.next n).2 with
      | none => simp only; exact hnext.2
      | some t =>
        simp only [List.mem_cons]
        rintro y (rfl | hy')
        · exact k2 t (by simpa [NGen.next, hp, hr] using hy)
        · exact hnext.2 y hy'

/-! ### nothing interleaved: the generator yields `NMem.triples` -/

theorem runAll_append (n : NMem) (pat : Pat) (req : Ctx) : ∀ (a b : List Work),
    n.runAll pat req (a ++ b) = n.runAll pat req a ++ n.runAll pat req b := by
  intro a
  induction a with
  | nil => intro b; rfl
  | cons w r ih =>
    intro b
    cases w with
    | snap t => simp [NMem.runAll, ih]
    | leaf t => simp only [List.cons_append, NMem.runAll, ih]; split <;> simp
    | probe t => simp only [List.cons_append, NMem.runAll, ih]; split <;> simp
    | expand k => simp [NMem.runAll, ih]

theorem runAll_snap (n : NMem) (pat : Pat) (req : Ctx) (l : List Triple) : n.runAll pat req (l.map Work.snap) = l := by
  induction l with
  | nil => rfl
  | cons a r ih => simp [NMem.runAll, ih]

theorem runAll_leaf (n : NMem) (pat : Pat) (req : Ctx) {α : Type} (f : α → Triple) (l : List α) :
    n.runAll pat req (l.map (fun x => Work.leaf (f x))) = (l.map f).filter (fun t => n.hasCtx t req) := by
  induction l with
  | nil => rfl
  | cons a r ih =>
    simp only [List.map_cons, NMem.runAll, ih, List.filter_cons]

theorem runAll_leaf' (n : NMem) (pat : Pat) (req : Ctx) (l : List Triple) :
    n.runAll pat req (l.map Work.leaf) = l.filter (fun t => n.hasCtx t req) := by
  have := runAll_leaf n pat req id l
  simpa using this

theorem runAll_expand (n : NMem) (pat : Pat) (req : Ctx) (ks : List Nat) :
    n.runAll pat req (ks.map Work.expand) = (ks.flatMap (n.expandKey pat)).filter (fun t => n.hasCtx t req) := by
  induction ks with
  | nil => rfl
  | cons k r ih => simp only [List.map_cons, NMem.runAll, ih, List.flatMap_cons, List.filter_append]

theorem runAll_probe (n : NMem) (pat : Pat) (req : Ctx) (s o : Nat) (ks : List Nat) :
    n.runAll pat req (ks.map (fun p => Work.probe (s, p, o)))
      = ((ks.filter (fun p => decide (o ∈ lvl3 n.ispo s p))).map (fun p => (s, p, o))).filter (fun t => n.hasCtx t req) := by
  induction ks with
  | nil => rfl
  | cons k r ih =>
    simp only [List.map_cons, NMem.runAll, ih, NMem.probeOk, List.filter_cons]
    by_cases h1 : o ∈ lvl3 n.ispo s k
    · by_cases h2 : n.hasCtx (s, k, o) req = true
      · simp [h1, h2]
      · simp [h1, h2]
    · simp [h1]

/-- `list(store.triples(pattern, context))` = the walk filtered by the has-context test -/
theorem drain_eq_triples (n : NMem) (pat : Pat) (req : Ctx) : n.drain pat req = n.triples pat req := by
  obtain ⟨ps, pp, po⟩ := pat
  cases ps with
  | none =>
    cases pp with
    | none =>
      cases po with
      | none => exact runAll_snap n _ req _
      | some o => simp only [NMem.drain, NMem.startWork, NMem.triples, NMem.cands, idxCands, runAll_expand]; rfl
    | some p =>
      cases po with
      | none => simp only [NMem.drain, NMem.startWork, NMem.triples, NMem.cands, idxCands, runAll_expand]; rfl
      | some o => simp only [NMem.drain, NMem.startWork, NMem.triples, NMem.cands, idxCands, runAll_leaf]
  | some s =>
    cases pp with
    | none =>
      cases po with
      | none => simp only [NMem.drain, NMem.startWork, NMem.triples, NMem.cands, idxCands, runAll_expand]; rfl
      | some o => simp only [NMem.drain, NMem.startWork, NMem.triples, NMem.cands, idxCands, runAll_probe]
    | some p =>
      cases po with
      | none => simp only [NMem.drain, NMem.startWork, NMem.triples, NMem.cands, idxCands, runAll_leaf]
      | some o =>
        simp only [NMem.drain, NMem.startWork, NMem.triples, NMem.cands, idxCands, NMem.runAll]
        by_cases h : idxHas n.ispo s p o = true
        · simp only [h, if_true, List.filter_cons, List.filter_nil]
        · have h' : n.hasCtx (s, p, o) req = false := by
            simp only [NMem.hasCtx, NMem.has]
            simp [h]
          simp [h, h']

/-! ### the all-unbound shape: the yields are the start copy, whatever is interleaved -/

theorem gyields_snap (pat : Pat) (req : Ctx) : ∀ (evs : List GEv) (hist : List NMem) (n : NMem) (l : List Triple),
    (gyields hist n { pat := pat, req := req, started := true, work := l.map Work.snap } evs).map (fun y => y.1)
      = l.take (gcountNext evs) := by
  intro evs
  induction evs with
  | nil => intro hist n l; simp [gyields, gcountNext]
  | cons ev es ih =>
    intro hist n l
    cases ev with
    | mutate op => simp only [gyields, gcountNext]; exact ih _ _ l
    | next =>
      cases l with
      | nil =>
        simp only [gyields, gcountNext, NGen.next, NGen.workAt, List.map_nil, NMem.runGen, if_true, List.take_nil]
        simpa using ih hist n ([] : List Triple)
      | cons t r =>
        simp only [gyields, gcountNext, NGen.next, NGen.workAt, List.map_cons, NMem.runGen, if_true, List.take_succ_cons]
        rw [ih _ _ r]

/-- the generator begins at this `next()` on the state `n` -/
theorem gyields_fast (n : NMem) (g : Nat) (evs : List GEv) (hist : List NMem) :
    (gyields hist n (NGen.new allPat (some g)) (.next :: evs)).map (fun y => y.1)
      = (n.graph g).take (gcountNext evs + 1) := by
  have hw : (NGen.new allPat (some g)).workAt n = (n.graph g).map Work.snap := rfl
  cases hl : n.graph g with
  | nil =>
    simp only [gyields, NGen.next, hw, hl, List.map_nil, NMem.runGen, List.take_nil]
    simpa [NGen.new] using gyields_snap allPat (some g) evs [n] n ([] : List Triple)
  | cons t r =>
    simp only [gyields, NGen.next, hw, hl, List.map_cons, NMem.runGen, List.take_succ_cons]
    have := gyields_snap allPat (some g) evs [n] n r
    simpa [NGen.new] using this

/-! ### `triples_choices` -/

theorem nodup_flatMap_disjoint {α β : Type} {l : List α} {f : α → List β} (hl : l.Nodup)
    (hf : ∀ x ∈ l, (f x).Nodup) (hd : ∀ x ∈ l, ∀ y ∈ l, x ≠ y → ∀ t, t ∈ f x → t ∉ f y) :
    (l.flatMap f).Nodup := by
  induction l with
  | nil => simp
  | cons a r ih =>
    rw [List.nodup_cons] at hl
    simp only [List.flatMap_cons]
    rw [List.nodup_append]
    refine ⟨hf a (by simp), ih hl.2 (fun x hx => hf x (List.mem_cons_of_mem _ hx))
      (fun x hx y hy => hd x (List.mem_cons_of_mem _ hx) y (List.mem_cons_of_mem _ hy)), ?_⟩
    intro t ht t' ht' e
    subst e
    simp only [List.mem_flatMap] at ht'
    obtain ⟨y, hy, hty⟩ := ht'
    have hne : a ≠ y := fun e => hl.1 (e ▸ hy)
    exact hd a (by simp) y (List.mem_cons_of_mem _ hy) hne t ht hty

theorem slot_matches (sl : Slot) (a b : Option Nat) (x : Nat) (t : Triple) :
    (sl.pat a b (some x)).matches t = true ↔ ((sl.pat a b none).matches t = true ∧ sl.get t = x) := by
  cases sl <;> simp only [Slot.pat, Slot.get, Pat.matches, matchPos, Bool.and_eq_true, beq_iff_eq, Bool.true_and,
    Bool.and_true] <;> grind

/-- `next()` after `next()` unfolds the full run: a yield is the head of what remains, exhaustion means nothing remains -/
theorem runGen_runAll (n : NMem) (pat : Pat) (req : Ctx) : ∀ (work : List Work),
    (∀ t, (n.runGen pat req work).2 = some t →
        n.runAll pat req work = t :: n.runAll pat req (n.runGen pat req work).1) ∧
    ((n.runGen pat req work).2 = none → n.runAll pat req work = []) := by
  intro work
  induction work with
  | nil => simp [NMem.runGen, NMem.runAll]
  | cons w r ih =>
    cases w with
    | snap t =>
      simp only [NMem.runGen, NMem.runAll, Option.some.injEq, reduceCtorEq, false_imp_iff, and_true]
      rintro t' rfl; rfl
    | leaf t =>
      simp only [NMem.runGen, NMem.runAll]
      by_cases h : n.hasCtx t req = true
      · simp only [h, if_true, Option.some.injEq, reduceCtorEq, false_imp_iff, and_true]
        rintro t' rfl; rfl
      · simp only [h, if_false]; exact ih
    | probe t =>
      simp only [NMem.runGen, NMem.runAll]
      by_cases h : (n.probeOk t && n.hasCtx t req) = true
      · simp only [h, if_true, Option.some.injEq, reduceCtorEq, false_imp_iff, and_true]
        rintro t' rfl; rfl
      · simp only [h, if_false]; exact ih
    | expand k =>
      simp only [NMem.runGen, NMem.runAll]
      cases hs : n.scan req (n.expandKey pat k) with
      | none =>
        simp only [(scan_spec n req _).2 hs, List.nil_append]
        exact ih
      | some tr =>
        obtain ⟨t, rest⟩ := tr
        obtain ⟨_, _, _, h4⟩ := (scan_spec n req _).1 t rest hs
        simp only [Option.some.injEq, reduceCtorEq, false_imp_iff, and_true]
        rintro t' rfl
        rw [h4, runAll_append, runAll_leaf']
        rfl

end RV.C01
