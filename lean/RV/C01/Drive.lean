import RV.C01.NModel
import RV.Base.Proto
/-
  C01 driver.  Terms and graph identifiers are naturals owned by the harness; `*` = wildcard.
  Default store (one `Memory`, graphs g):
    reset                                -> ok
    add g s p o | remove g s p o | set g s p o          -> ok | error
    addN g (s p o c k)*                  -> ok | error     (c = identifier of the quad's context, k = 1 iff it is a Graph)
    iadd g (s p o)* | isub g (s p o)*    -> ok | error
    iaddG g h | isubG g h                -> ok | error     (operand = graph h of the same store)
    len g                                -> n
    has g s p o                          -> 0 | 1
    tri g s p o                          -> matching triples, sorted, duplicates kept:  s,p,o s,p,o …
    ulen | utri s p o                    -> the same for the store's union view (context None)
  Store API called directly on the `Memory` (c = a graph of the store, or `*` = None):
    madd c s p o | mremove c s p o | addgraph k | rmgraph k       -> ok | error
    mtri c s p o                         -> store.triples(pattern, c):  s,p,o@k1+k2 …  (triple @ its graphs)
    mlen c                               -> store.__len__(c)
    ctxs s p o                           -> store.contexts(pattern)  (`* * *` = all registered graphs)
    bin OP g h      (OP = add|sub|mul|xor)  -> triples of the new graph, sorted
    binl OP g R|L (s p o)*               -> the same with the other operand a graph of ANOTHER store holding the
                                            listed triples (R: g OP other, L: other OP g);  sbinl OP i R|L … likewise
    iopen k g s p o                      -> ok            (generator k starts now)
    iyield k s p o                       -> adm | NOT-adm (could the machine yield this triple now?)
    gopen k g s p o                      -> ok            (concrete generator k = graph g's triples(pattern), not yet begun)
    gnext k                              -> s,p,o | stop | error   (one next() of the concrete generator machine `NGen`)
  `tri` / `utri` / `mtri` are answered by running the concrete generator machine to exhaustion (`NMem.drain`).
  Simple stores i ∈ {0,1} (one graph each, identifier 50+i):
    sadd i s p o | sremove i s p o | sset i s p o | saddN i (s p o c k)* | siadd i (s p o)* | sisub i (s p o)*
    siaddS i j | sisubS i j              (operand = the graph of simple store j)
    slen i | shas i s p o | stri i s p o | sbin OP i j
    echo w                               -> w
-/
open RV RV.C01 RV.Proto

/- Round g: the state is the NESTED-dictionary model (`NModel.lean`): `NMem` for the default store, `NSMem` for the
   simple stores; every answer below is computed by the walks over the nested indexes. -/
structure DS where
  m : NMem := {}
  s0 : NSMem := {}
  s1 : NSMem := {}
  its : List (Nat × Iter) := []
  gens : List (Nat × NGen) := []
  probe : Triple := (0, 0, 0)

def tripleLt (a b : Triple) : Bool := lexLt [a.1, a.2.1, a.2.2] [b.1, b.2.1, b.2.2]

def showTriples (ts : List Triple) : String :=
  " ".intercalate ((sortBy tripleLt ts).map (fun t => showNats [t.1, t.2.1, t.2.2]))

/-- `s,p,o@k1+k2 …` : each triple with the graphs the store reports for it (sorted, duplicates kept) -/
def showTriplesC (es : List (Triple × List Nat)) : String :=
  " ".intercalate ((sortBy (fun a b => tripleLt a.1 b.1) es).map (fun e =>
    showNats [e.1.1, e.1.2.1, e.1.2.2] ++ "@" ++ "+".intercalate ((sortBy (fun x y => x < y) e.2).map toString)))

def triple? (a b c : String) : Option Triple := do
  let a ← a.toNat?; let b ← b.toNat?; let c ← c.toNat?
  pure (a, b, c)

def pat? (a b c : String) : Option Pat := do
  let a ← optNat? a; let b ← optNat? b; let c ← optNat? c
  pure (a, b, c)

def triples? : List String → Option (List Triple)
  | [] => some []
  | a :: b :: c :: r => do
    let t ← triple? a b c
    let ts ← triples? r
    pure (t :: ts)
  | _ => none

def quads? : List String → Option (List Quad)
  | [] => some []
  | a :: b :: c :: d :: k :: r => do
    let t ← triple? a b c
    let d ← d.toNat?
    let k ← k.toNat?
    let qs ← quads? r
    pure ((t, d, k == 1) :: qs)
  | _ => none

def ack (m : NMem) : String := if m.cx.err then "error" else "ok"
def sack (m : NSMem) : String := if m.err then "error" else "ok"

def DS.mut (d : DS) (m : NMem) : DS × String := ({ d with m := m }, ack m)

def DS.sget (d : DS) (i : Nat) : NSMem := if i == 0 then d.s0 else d.s1
def DS.sput (d : DS) (i : Nat) (s : NSMem) : DS × String :=
  (if i == 0 then { d with s0 := s } else { d with s1 := s }, sack s)

def sidx? (w : String) : Option Nat := if w = "0" then some 0 else if w = "1" then some 1 else none

def binop (op : String) (xs : List Triple) (inA : Triple → Bool) (ys : List Triple) (inB : Triple → Bool) :
    Option NMem :=
  if op = "add" then some (View.nunion ⟨xs, inA⟩ ⟨ys, inB⟩ 1000)
  else if op = "sub" then some (View.ndiff ⟨xs, inA⟩ ⟨ys, inB⟩ 1000)
  else if op = "mul" then some (View.ninter ⟨xs, inA⟩ ⟨ys, inB⟩ 1000)
  else if op = "xor" then some (View.nxor ⟨xs, inA⟩ ⟨ys, inB⟩ 1000)
  else none

/-- iteration of an operand graph that lives on some other store and holds the listed triples -/
def dedup (ts : List Triple) : List Triple := ts.foldl sinsert []

/-- the new graph (round h: a `Memory` over nested dictionaries) as the harness looks at it: `list(r)`, three
    one-position patterns of the probe triple (they read `spo`, `pos`, `osp` of the NEW store) and `probe in r` -/
def showBin (pr : Triple) (r : Option NMem) : String :=
  match r with
  | some m =>
    if m.cx.err || m.triplesRaises (some pr.1, none, none) || m.triplesRaises (none, some pr.2.1, none)
        || m.triplesRaises (none, none, some pr.2.2) then "error"
    else showTriples (m.drain allPat (some 1000)) ++ " | " ++ showTriples (m.drain (some pr.1, none, none) (some 1000))
      ++ " | " ++ showTriples (m.drain (none, some pr.2.1, none) (some 1000))
      ++ " | " ++ showTriples (m.drain (none, none, some pr.2.2) (some 1000))
      ++ " | " ++ (if m.contains pr 1000 then "1" else "0")
  | none => "bad-op"

/-- `t:*` | `t:7` (a term) | `l:` | `l:1,2` (a list of terms) -/
def arg? (w : String) : Option Arg :=
  match w.splitOn ":" with
  | ["t", x] => (optNat? x).map Arg.term
  | ["l", x] => if x = "" then some (Arg.list []) else ((x.splitOn ",").mapM (fun (y : String) => y.toNat?)).map Arg.list
  | _ => none

def iterAdm (d : DS) (k : Nat) (t : Triple) : DS × String :=
  match alookup d.its k with
  | none => (d, "bad-op")
  | some it =>
    if it.fast then
      if t ∈ it.pending then ({ d with its := aset d.its k { it with pending := sremove it.pending t } }, "adm")
      else (d, "NOT-adm")
    else if it.pat.matches t && d.m.hasCtx t (some it.g) then (d, "adm") else (d, "NOT-adm")

def step (d : DS) : List String → DS × String
  | ["reset"] => ({}, "ok")
  | ["echo", w] => (d, w)
  | ["add", g, a, b, c] =>
    match g.toNat?, triple? a b c with
    | some g, some t => d.mut (d.m.add t g)
    | _, _ => (d, "bad-op")
  | ["remove", g, a, b, c] =>
    match g.toNat?, pat? a b c with
    | some g, some p => d.mut (d.m.remove p (some g))
    | _, _ => (d, "bad-op")
  | ["set", g, a, b, c] =>
    match g.toNat?, triple? a b c with
    | some g, some t => d.mut (d.m.set t g)
    | _, _ => (d, "bad-op")
  | "addN" :: g :: r =>
    match g.toNat?, quads? r with
    | some g, some qs => d.mut (d.m.addN g qs)
    | _, _ => (d, "bad-op")
  | "iadd" :: g :: r =>
    match g.toNat?, triples? r with
    | some g, some ts => d.mut (d.m.iadd g ts)
    | _, _ => (d, "bad-op")
  | "isub" :: g :: r =>
    match g.toNat?, triples? r with
    | some g, some ts => d.mut (d.m.isub g ts)
    | _, _ => (d, "bad-op")
  | ["iaddG", g, h] =>
    match g.toNat?, h.toNat? with
    | some g, some h => d.mut (d.m.step (.iaddG g h))
    | _, _ => (d, "bad-op")
  | ["isubG", g, h] =>
    match g.toNat?, h.toNat? with
    | some g, some h => d.mut (d.m.step (.isubG g h))
    | _, _ => (d, "bad-op")
  | ["len", g] =>
    match g.toNat? with
    | some g => (d, toString (d.m.len (some g)))
    | none => (d, "bad-op")
  | ["has", g, a, b, c] =>
    match g.toNat?, triple? a b c with
    | some g, some t => (d, if d.m.contains t g then "1" else "0")
    | _, _ => (d, "bad-op")
  | ["tri", g, a, b, c] =>
    match g.toNat?, pat? a b c with
    | some g, some p => (d, if d.m.triplesRaises p then "error" else showTriples (d.m.drain p (some g)))
    | _, _ => (d, "bad-op")
  | ["madd", c, a, b, c'] =>
    match c.toNat?, triple? a b c' with
    | some c, some t => d.mut (d.m.add t c)
    | _, _ => (d, "bad-op")
  | ["mremove", c, a, b, c'] =>
    match optNat? c, pat? a b c' with
    | some c, some p => d.mut (d.m.remove p c)
    | _, _ => (d, "bad-op")
  | ["addgraph", k] =>
    match k.toNat? with
    | some k => d.mut (d.m.addGraph k)
    | none => (d, "bad-op")
  | ["rmgraph", k] =>
    match k.toNat? with
    | some k => d.mut (d.m.removeGraph k)
    | none => (d, "bad-op")
  | ["mtri", c, a, b, c'] =>
    match optNat? c, pat? a b c' with
    | some c, some p => (d, if d.m.triplesRaises p then "error" else showTriplesC ((d.m.drain p c).map (fun t => (t, ctxKeys d.m.cx t))))
    | _, _ => (d, "bad-op")
  | ["mlen", c] =>
    match optNat? c with
    | some c => (d, toString (d.m.len c))
    | none => (d, "bad-op")
  | ["ctxs", a, b, c] =>
    match pat? a b c with
    | some p => (d, showNats (sortBy (fun x y => x < y) (d.m.contexts p)))
    | none => (d, "bad-op")
  | ["ulen"] => (d, toString (d.m.len none))
  | ["utri", a, b, c] =>
    match pat? a b c with
    | some p => (d, if d.m.triplesRaises p then "error" else showTriples (d.m.drain p none))
    | none => (d, "bad-op")
  | ["bin", op, g, h] =>
    match g.toNat?, h.toNat? with
    | some g, some h =>
      (d, showBin d.probe (binop op (d.m.graph g) (fun x => d.m.contains x g) (d.m.graph h) (fun x => d.m.contains x h)))
    | _, _ => (d, "bad-op")
  | "binl" :: op :: g :: side :: r =>
    match g.toNat?, triples? r with
    | some g, some ts =>
      if side = "R" then
        (d, showBin d.probe (binop op (d.m.graph g) (fun x => d.m.contains x g) (dedup ts) (fun x => decide (x ∈ ts))))
      else if side = "L" then
        (d, showBin d.probe (binop op (dedup ts) (fun x => decide (x ∈ ts)) (d.m.graph g) (fun x => d.m.contains x g)))
      else (d, "bad-op")
    | _, _ => (d, "bad-op")
  | "sbinl" :: op :: i :: side :: r =>
    match sidx? i, triples? r with
    | some i, some ts =>
      if side = "R" then
        (d, showBin d.probe (binop op ((d.sget i).triples allPat) (fun x => (d.sget i).contains x) (dedup ts) (fun x => decide (x ∈ ts))))
      else if side = "L" then
        (d, showBin d.probe (binop op (dedup ts) (fun x => decide (x ∈ ts)) ((d.sget i).triples allPat) (fun x => (d.sget i).contains x)))
      else (d, "bad-op")
    | _, _ => (d, "bad-op")
  | ["iopen", k, g, a, b, c] =>
    match k.toNat?, g.toNat?, pat? a b c with
    | some k, some g, some p => ({ d with its := aset d.its k (Iter.start d.m.toMem p g) }, "ok")
    | _, _, _ => (d, "bad-op")
  -- tch g SLOT a b c1 c2 …  : graph g's triples_choices, SLOT ∈ {s,p,o} holds the list c1 c2 …, a b = the two other positions
  | "tch" :: g :: sl :: a :: b :: cs =>
    match g.toNat?, optNat? a, optNat? b, cs.mapM (fun w => w.toNat?) with
    | some g, some a, some b, some cs =>
      if sl = "s" then (d, showTriples (d.m.triplesChoices .s cs a b (some g)))
      else if sl = "p" then (d, showTriples (d.m.triplesChoices .p cs a b (some g)))
      else if sl = "o" then (d, showTriples (d.m.triplesChoices .o cs a b (some g)))
      else (d, "bad-op")
    | _, _, _, _ => (d, "bad-op")
  | ["binprobe", a, b, c] =>
    match triple? a b c with
    | some t => ({ d with probe := t }, "ok")
    | none => (d, "bad-op")
  -- tchg g S P O : graph g's triples_choices with every position a term (`t:…`) or a list (`l:…`)
  | ["tchg", g, a, b, c] =>
    match g.toNat?, arg? a, arg? b, arg? c with
    | some g, some a, some b, some c =>
      match d.m.triplesChoicesG a b c (some g) with
      | some ts => (d, showTriples ts)
      | none => (d, "ValueError")
    | _, _, _, _ => (d, "bad-op")
  | ["gopen", k, g, a, b, c] =>
    match k.toNat?, g.toNat?, pat? a b c with
    | some k, some g, some p => ({ d with gens := aset d.gens k (NGen.new p (some g)) }, "ok")
    | _, _, _ => (d, "bad-op")
  | ["gnext", k] =>
    match k.toNat? with
    | some k =>
      match alookup d.gens k with
      | none => (d, "bad-op")
      | some gen =>
        if gen.nextRaises d.m then (d, "error")
        else
          ({ d with gens := aset d.gens k (gen.next d.m).1 },
            match (gen.next d.m).2 with
            | some t => showNats [t.1, t.2.1, t.2.2]
            | none => "stop")
    | none => (d, "bad-op")
  | ["iyield", k, a, b, c] =>
    match k.toNat?, triple? a b c with
    | some k, some t => iterAdm d k t
    | _, _ => (d, "bad-op")
  -- SimpleMemory
  | ["sadd", i, a, b, c] =>
    match sidx? i, triple? a b c with
    | some i, some t => d.sput i ((d.sget i).add t)
    | _, _ => (d, "bad-op")
  | ["sremove", i, a, b, c] =>
    match sidx? i, pat? a b c with
    | some i, some p => d.sput i ((d.sget i).remove p)
    | _, _ => (d, "bad-op")
  | ["sset", i, a, b, c] =>
    match sidx? i, triple? a b c with
    | some i, some t => d.sput i ((d.sget i).set t)
    | _, _ => (d, "bad-op")
  | "saddN" :: i :: r =>
    match sidx? i, quads? r with
    | some i, some qs => d.sput i ((d.sget i).addN (50 + i) qs)
    | _, _ => (d, "bad-op")
  | "siadd" :: i :: r =>
    match sidx? i, triples? r with
    | some i, some ts => d.sput i ((d.sget i).iadd ts)
    | _, _ => (d, "bad-op")
  | "sisub" :: i :: r =>
    match sidx? i, triples? r with
    | some i, some ts => d.sput i ((d.sget i).isub ts)
    | _, _ => (d, "bad-op")
  | ["siaddS", i, j] =>
    match sidx? i, sidx? j with
    | some i, some j => d.sput i ((d.sget i).iadd ((d.sget j).triples allPat))
    | _, _ => (d, "bad-op")
  | ["sisubS", i, j] =>
    match sidx? i, sidx? j with
    | some i, some j => d.sput i ((d.sget i).isub ((d.sget j).triples allPat))
    | _, _ => (d, "bad-op")
  | ["slen", i] =>
    match sidx? i with
    | some i => (d, toString (d.sget i).len)
    | none => (d, "bad-op")
  | ["shas", i, a, b, c] =>
    match sidx? i, triple? a b c with
    | some i, some t => (d, if (d.sget i).contains t then "1" else "0")
    | _, _ => (d, "bad-op")
  | ["stri", i, a, b, c] =>
    match sidx? i, pat? a b c with
    | some i, some p => (d, showTriples ((d.sget i).triples p))
    | _, _ => (d, "bad-op")
  | ["sbin", op, i, j] =>
    match sidx? i, sidx? j with
    | some i, some j =>
      (d, showBin d.probe (binop op ((d.sget i).triples allPat) (fun x => (d.sget i).contains x)
            ((d.sget j).triples allPat) (fun x => (d.sget j).contains x)))
    | _, _ => (d, "bad-op")
  | _ => (d, "bad-op")

def main : IO Unit := RV.Proto.run step ({} : DS)
