import RV.C01.LemIdx2
import RV.C01.Lemmas
/-
  C01 helper lemmas, round g, part 3: `NMem` (nested dictionaries) against `Mem` (flat index sets).
  `NMem.toMem` commutes EXACTLY with every operation that does not insert into an index (`remove` and all it is made
  of: the walks are the same lists, `del` is `sremove`), and up to the order inside the index lists (`MEquiv`) with
  `add`; the invariant and the abstraction of `Mem` only speak of membership, so they transfer.
-/
namespace RV.C01
open RV

structure NWF (n : NMem) : Prop where
  spo : WFI n.ispo
  pos : WFI n.ipos
  osp : WFI n.iosp

theorem nwf_init : NWF NMem.init := ⟨wfi_nil, wfi_nil, wfi_nil⟩

theorem nwf_cx {n : NMem} (h : NWF n) (c : Mem) : NWF { n with cx := c } := ⟨h.spo, h.pos, h.osp⟩

/-- replace the three index lists -/
def Mem.withIdx (m : Mem) (a b c : List Triple) : Mem := { m with spo := a, pos := b, osp := c }

theorem toMem_eq (n : NMem) :
    n.toMem = n.cx.withIdx (flat n.ispo) ((flat n.ipos).map rotPOS) ((flat n.iosp).map rotOSP) := rfl

section Ctx
variable (m : Mem) (a b c : List Triple)

theorem withIdx_atc (t : Triple) (ex : Bool) (k : Nat) :
    addTripleContext (m.withIdx a b c) t ex k = (addTripleContext m t ex k).withIdx a b c := rfl

theorem withIdx_rtc (t : Triple) (ctx : Ctx) :
    removeTripleContext (m.withIdx a b c) t ctx = (removeTripleContext m t ctx).withIdx a b c := rfl

theorem withIdx_flag (f : Bool) : (m.withIdx a b c).flag f = (m.flag f).withIdx a b c := rfl

theorem withIdx_register (k : Nat) : (m.withIdx a b c).register k = (m.register k).withIdx a b c := rfl

theorem withIdx_getCtxs (t : Triple) : getCtxs (m.withIdx a b c) t = getCtxs m t := rfl

theorem withIdx_dropUnion (t : Triple) (req : Ctx) :
    dropUnion (m.withIdx a b c) t req = (dropUnion m t req).withIdx a b c := by
  unfold dropUnion
  simp only [withIdx_getCtxs, withIdx_rtc]
  exact (apply_ite (fun x : Mem => x.withIdx a b c) _ _ _).symm

theorem withIdx_dropEmptyCtx (req : Ctx) :
    dropEmptyCtx (m.withIdx a b c) req = (dropEmptyCtx m req).withIdx a b c := by
  unfold dropEmptyCtx
  cases req with
  | none => rfl
  | some k =>
    simp only
    have : (m.withIdx a b c).ctxT = m.ctxT := rfl
    rw [this]
    split <;> rfl

end Ctx

theorem withIdx_removeCtxLoop (a b c : List Triple) (t : Triple) (req : Ctx) : ∀ (cs : List Ctx) (m : Mem),
    removeCtxLoop (m.withIdx a b c) t req cs = (removeCtxLoop m t req cs).withIdx a b c := by
  intro cs
  induction cs with
  | nil => intro m; rfl
  | cons ctx r ih =>
    intro m
    simp only [removeCtxLoop]
    split
    · exact ih m
    · rw [withIdx_rtc, ih]

/-! ### membership in the flattened indexes -/

theorem mem_spo_iff {n : NMem} (h : NWF n) (t : Triple) : t ∈ n.toMem.spo ↔ n.has t = true :=
  mem_flat_iff h.spo t.1 t.2.1 t.2.2

theorem mem_pos_iff {n : NMem} (h : NWF n) (t : Triple) : t ∈ n.toMem.pos ↔ idxHas n.ipos t.2.1 t.2.2 t.1 = true := by
  rw [← mem_flat_iff h.pos]
  show t ∈ (flat n.ipos).map rotPOS ↔ _
  simp only [List.mem_map]
  constructor
  · rintro ⟨x, hx, rfl⟩; exact hx
  · intro hx; exact ⟨_, hx, rfl⟩

theorem mem_osp_iff {n : NMem} (h : NWF n) (t : Triple) : t ∈ n.toMem.osp ↔ idxHas n.iosp t.2.2 t.1 t.2.1 = true := by
  rw [← mem_flat_iff h.osp]
  show t ∈ (flat n.iosp).map rotOSP ↔ _
  simp only [List.mem_map]
  constructor
  · rintro ⟨x, hx, rfl⟩; exact hx
  · intro hx; exact ⟨_, hx, rfl⟩

theorem has_eq {n : NMem} (h : NWF n) (t : Triple) : n.has t = decide (t ∈ n.toMem.spo) := by
  by_cases e : n.has t = true
  · simp [e, (mem_spo_iff h t).2 e]
  · have : t ∉ n.toMem.spo := fun hm => e ((mem_spo_iff h t).1 hm)
    simp [e, this]

theorem hasCtx_eq {n : NMem} (h : NWF n) (t : Triple) (c : Ctx) : n.hasCtx t c = hasCtx n.toMem t c := by
  simp only [NMem.hasCtx, hasCtx, has_eq h]; rfl

theorem hasCtxRaises_eq {n : NMem} (h : NWF n) (t : Triple) : n.hasCtxRaises t = hasCtxRaises n.toMem t := by
  simp only [NMem.hasCtxRaises, hasCtxRaises, has_eq h]; rfl

theorem nodup_toMem {n : NMem} (h : NWF n) : n.toMem.spo.Nodup ∧ n.toMem.pos.Nodup ∧ n.toMem.osp.Nodup :=
  ⟨nodup_flat h.spo, nodup_map_inj rotPOS_inj (nodup_flat h.pos), nodup_map_inj rotOSP_inj (nodup_flat h.osp)⟩

/-! ### `remove`: exact commutation -/

theorem cands_eq {n : NMem} (h : NWF n) (pat : Pat) : n.cands pat = cands n.toMem pat :=
  idxCands_eq h.spo h.pos h.osp n.toMem rfl rfl rfl pat

theorem dropTriple_toMem {n : NMem} (h : NWF n) (t : Triple) :
    (n.dropTriple t).toMem = dropTriple n.toMem t ∧ NWF (n.dropTriple t) := by
  unfold NMem.dropTriple dropTriple
  have hg : getCtxs n.toMem t = getCtxs n.cx t := rfl
  rw [hg]
  by_cases e : ((getCtxs n.cx t).length == 0) = true
  · simp only [e, if_true]
    refine ⟨?_, ⟨wfi_idxDel h.spo _ _ _, wfi_idxDel h.pos _ _ _, wfi_idxDel h.osp _ _ _⟩⟩
    have e1 : flat (idxDel n.ispo t.1 t.2.1 t.2.2) = sremove n.toMem.spo t := flat_idxDel h.spo _ _ _
    have e2 : (flat (idxDel n.ipos t.2.1 t.2.2 t.1)).map rotPOS = sremove n.toMem.pos t := by
      rw [flat_idxDel h.pos]
      exact (sremove_map_inj rotPOS_inj (flat n.ipos) (t.2.1, t.2.2, t.1)).symm
    have e3 : (flat (idxDel n.iosp t.2.2 t.1 t.2.1)).map rotOSP = sremove n.toMem.osp t := by
      rw [flat_idxDel h.osp]
      exact (sremove_map_inj rotOSP_inj (flat n.iosp) (t.2.2, t.1, t.2.1)).symm
    have b1 : idxHas n.ispo t.1 t.2.1 t.2.2 = decide (t ∈ n.toMem.spo) := has_eq h t
    have b2 : idxHas n.ipos t.2.1 t.2.2 t.1 = decide (t ∈ n.toMem.pos) := by
      by_cases e : idxHas n.ipos t.2.1 t.2.2 t.1 = true
      · simp [e, (mem_pos_iff h t).2 e]
      · have : t ∉ n.toMem.pos := fun hm => e ((mem_pos_iff h t).1 hm)
        simp [e, this]
    have b3 : idxHas n.iosp t.2.2 t.1 t.2.1 = decide (t ∈ n.toMem.osp) := by
      by_cases e : idxHas n.iosp t.2.2 t.1 t.2.1 = true
      · simp [e, (mem_osp_iff h t).2 e]
      · have : t ∉ n.toMem.osp := fun hm => e ((mem_osp_iff h t).1 hm)
        simp [e, this]
    simp only [NMem.toMem, e1, e2, e3, b1, b2, b3]
  · simp only [e]
    exact ⟨rfl, h⟩

theorem removeOne_toMem {n : NMem} (h : NWF n) (t : Triple) (req : Ctx) :
    (n.removeOne t req).toMem = removeOne n.toMem t req ∧ NWF (n.removeOne t req) := by
  unfold NMem.removeOne removeOne
  have h' : NWF { n with cx := dropUnion (removeCtxLoop (n.cx.flag (getCtxsRaises n.cx t)) t req (getCtxs n.cx t)) t req } :=
    nwf_cx h _
  obtain ⟨e, hw⟩ := dropTriple_toMem h' t
  refine ⟨?_, hw⟩
  rw [e]
  congr 1
  rw [toMem_eq n, withIdx_flag, withIdx_removeCtxLoop, withIdx_dropUnion]
  rfl

theorem removeLoop_toMem (req : Ctx) (test : Bool) : ∀ (l : List Triple) (n : NMem), NWF n →
    (n.removeLoop req test l).toMem = removeLoop n.toMem req test l ∧ NWF (n.removeLoop req test l) := by
  intro l
  induction l with
  | nil => intro n h; exact ⟨rfl, h⟩
  | cons t r ih =>
    intro n h
    simp only [NMem.removeLoop, removeLoop, hasCtx_eq h, hasCtxRaises_eq h]
    have hf : NWF { n with cx := n.cx.flag (test && hasCtxRaises n.toMem t) } := nwf_cx h _
    have ef : ({ n with cx := n.cx.flag (test && hasCtxRaises n.toMem t) } : NMem).toMem
        = n.toMem.flag (test && hasCtxRaises n.toMem t) := rfl
    split
    · obtain ⟨e1, h1⟩ := removeOne_toMem hf t req
      obtain ⟨e2, h2⟩ := ih _ h1
      rw [e2, e1, ef]
      exact ⟨rfl, h2⟩
    · obtain ⟨e2, h2⟩ := ih _ hf
      rw [e2, ef]
      exact ⟨rfl, h2⟩

theorem remove_toMem {n : NMem} (h : NWF n) (pat : Pat) (req : Ctx) :
    (n.remove pat req).toMem = n.toMem.remove pat req ∧ NWF (n.remove pat req) := by
  have key : ∀ (test : Bool) (l : List Triple),
      ({ n.removeLoop req test l with cx := dropEmptyCtx (n.removeLoop req test l).cx req } : NMem).toMem
        = dropEmptyCtx (removeLoop n.toMem req test l) req ∧
      NWF { n.removeLoop req test l with cx := dropEmptyCtx (n.removeLoop req test l).cx req } := by
    intro test l
    obtain ⟨e, hw⟩ := removeLoop_toMem req test l n h
    refine ⟨?_, nwf_cx hw _⟩
    rw [← e, toMem_eq (n.removeLoop req test l), withIdx_dropEmptyCtx]
    rfl
  obtain ⟨ps, pp, po⟩ := pat
  have hc := cands_eq h (ps, pp, po)
  cases ps <;> cases pp <;> cases po <;>
    first
    | exact key false _
    | (simp only [NMem.remove, Mem.remove]; rw [hc]; exact key true _)

/-! ### `add`: commutation up to the order inside the index lists -/

structure MEquiv (m m' : Mem) : Prop where
  spo : ∀ t, t ∈ m.spo ↔ t ∈ m'.spo
  pos : ∀ t, t ∈ m.pos ↔ t ∈ m'.pos
  osp : ∀ t, t ∈ m.osp ↔ t ∈ m'.osp
  tctx : m.tctx = m'.tctx
  dflt : m.dflt = m'.dflt
  ctxT : m.ctxT = m'.ctxT
  allc : m.allc = m'.allc
  err : m.err = m'.err

theorem MEquiv.refl (m : Mem) : MEquiv m m :=
  ⟨fun _ => Iff.rfl, fun _ => Iff.rfl, fun _ => Iff.rfl, rfl, rfl, rfl, rfl, rfl⟩

theorem MEquiv.of_eq {m m' : Mem} (h : m = m') : MEquiv m m' := h ▸ MEquiv.refl m

theorem MEquiv.trans {a b c : Mem} (h1 : MEquiv a b) (h2 : MEquiv b c) : MEquiv a c :=
  ⟨fun t => (h1.spo t).trans (h2.spo t), fun t => (h1.pos t).trans (h2.pos t), fun t => (h1.osp t).trans (h2.osp t),
    h1.tctx.trans h2.tctx, h1.dflt.trans h2.dflt, h1.ctxT.trans h2.ctxT, h1.allc.trans h2.allc, h1.err.trans h2.err⟩

theorem add_congr {m m' : Mem} (h : MEquiv m m') (t : Triple) (c : Nat) : MEquiv (m.add t c) (m'.add t c) := by
  obtain ⟨s1, p1, o1, tc1, d1, ct1, al1, er1⟩ := m
  obtain ⟨s2, p2, o2, tc2, d2, ct2, al2, er2⟩ := m'
  obtain ⟨hs, hp, ho, h4, h5, h6, h7, h8⟩ := h
  simp only at hs hp ho h4 h5 h6 h7 h8
  subst h4; subst h5; subst h6; subst h7; subst h8
  simp only [Mem.add, Mem.register, Mem.addCore]
  by_cases e : t ∈ s1
  · have e' : t ∈ s2 := (hs t).1 e
    simp only [e, e', if_true]
    exact ⟨hs, hp, ho, rfl, rfl, rfl, rfl, rfl⟩
  · have e' : t ∉ s2 := fun h => e ((hs t).2 h)
    simp only [e, e', if_false]
    refine ⟨?_, ?_, ?_, rfl, rfl, rfl, rfl, rfl⟩
    · intro x; simp only [addTripleContext, List.mem_append, hs x]
    · intro x; simp only [mem_sinsert, hp x]
    · intro x; simp only [mem_sinsert, ho x]

theorem addN_congr (g : Nat) : ∀ (qs : List Quad) (m m' : Mem), MEquiv m m' → MEquiv (m.addN g qs) (m'.addN g qs) := by
  intro qs
  induction qs with
  | nil => intro m m' h; exact h
  | cons q r ih =>
    intro m m' h
    obtain ⟨t, c, isG⟩ := q
    simp only [Mem.addN]
    split
    · exact ih _ _ (add_congr h t c)
    · exact ih _ _ h

theorem add_equiv {n : NMem} (h : NWF n) (t : Triple) (c : Nat) :
    MEquiv (n.toMem.add t c) (n.add t c).toMem ∧ NWF (n.add t c) := by
  have h' : NWF { n with cx := n.cx.register c } := nwf_cx h _
  have hb : ({ n with cx := n.cx.register c } : NMem).has t = decide (t ∈ (n.toMem.register c).spo) := has_eq h t
  simp only [Mem.add, NMem.add, Mem.addCore, NMem.addCore, hb]
  by_cases e : t ∈ (n.toMem.register c).spo
  · simp only [e, if_true, decide_true]
    exact ⟨MEquiv.refl _, nwf_cx h' _⟩
  · simp only [e, if_false, decide_false, Bool.false_eq_true]
    have hw : NWF { ispo := idxAdd n.ispo t.1 t.2.1 t.2.2, cx := addTripleContext (n.cx.register c) t false c,
                    ipos := idxAdd n.ipos t.2.1 t.2.2 t.1, iosp := idxAdd n.iosp t.2.2 t.1 t.2.1 } :=
      ⟨wfi_idxAdd h.spo _ _ _, wfi_idxAdd h.pos _ _ _, wfi_idxAdd h.osp _ _ _⟩
    refine ⟨⟨?_, ?_, ?_, rfl, rfl, rfl, rfl, rfl⟩, hw⟩
    · intro x
      rw [mem_spo_iff hw x]
      simp only [NMem.has, idxHas_idxAdd]
      show x ∈ n.toMem.spo ++ [t] ↔ _
      rw [List.mem_append, mem_spo_iff h x]
      simp only [NMem.has, List.mem_singleton]
      constructor
      · rintro (h1 | h1)
        · exact Or.inl h1
        · subst h1; exact Or.inr ⟨rfl, rfl, rfl⟩
      · rintro (h1 | ⟨h1, h2, h3⟩)
        · exact Or.inl h1
        · right
          obtain ⟨x1, x2, x3⟩ := x
          simp only at h1 h2 h3
          subst h1; subst h2; subst h3; rfl
    · intro x
      rw [mem_pos_iff hw x]
      simp only [idxHas_idxAdd]
      show x ∈ sinsert n.toMem.pos t ↔ _
      rw [mem_sinsert, mem_pos_iff h x]
      constructor
      · rintro (h1 | h1)
        · subst h1; exact Or.inr ⟨rfl, rfl, rfl⟩
        · exact Or.inl h1
      · rintro (h1 | ⟨h1, h2, h3⟩)
        · exact Or.inr h1
        · left
          obtain ⟨x1, x2, x3⟩ := x
          simp only at h1 h2 h3
          subst h1; subst h2; subst h3; rfl
    · intro x
      rw [mem_osp_iff hw x]
      simp only [idxHas_idxAdd]
      show x ∈ sinsert n.toMem.osp t ↔ _
      rw [mem_sinsert, mem_osp_iff h x]
      constructor
      · rintro (h1 | h1)
        · subst h1; exact Or.inr ⟨rfl, rfl, rfl⟩
        · exact Or.inl h1
      · rintro (h1 | ⟨h1, h2, h3⟩)
        · exact Or.inr h1
        · left
          obtain ⟨x1, x2, x3⟩ := x
          simp only at h1 h2 h3
          subst h1; subst h2; subst h3; rfl

theorem addN_equiv (g : Nat) : ∀ (qs : List Quad) (n : NMem), NWF n →
    MEquiv (n.toMem.addN g qs) (n.addN g qs).toMem ∧ NWF (n.addN g qs) := by
  intro qs
  induction qs with
  | nil => intro n h; exact ⟨MEquiv.refl _, h⟩
  | cons q r ih =>
    intro n h
    obtain ⟨t, c, isG⟩ := q
    simp only [Mem.addN, NMem.addN]
    split
    · obtain ⟨e1, h1⟩ := add_equiv h t c
      obtain ⟨e2, h2⟩ := ih _ h1
      exact ⟨(addN_congr g r _ _ e1).trans e2, h2⟩
    · exact ih _ h

theorem isub_toMem (g : Nat) : ∀ (ts : List Triple) (n : NMem), NWF n →
    (n.isub g ts).toMem = n.toMem.isub g ts ∧ NWF (n.isub g ts) := by
  intro ts
  induction ts with
  | nil => intro n h; exact ⟨rfl, h⟩
  | cons t r ih =>
    intro n h
    simp only [NMem.isub, Mem.isub]
    obtain ⟨e1, h1⟩ := remove_toMem h (some t.1, some t.2.1, some t.2.2) (some g)
    obtain ⟨e2, h2⟩ := ih _ h1
    rw [e2, e1]
    exact ⟨rfl, h2⟩

theorem graph_toMem (n : NMem) (g : Nat) : n.graph g = n.toMem.graph g := rfl

theorem step_equiv {n : NMem} (h : NWF n) (op : Op) : MEquiv (n.toMem.step op) (n.step op).toMem ∧ NWF (n.step op) := by
  cases op with
  | add t g => exact add_equiv h t g
  | addN g qs => exact addN_equiv g qs n h
  | remove pat g =>
    obtain ⟨e, hw⟩ := remove_toMem h pat (some g)
    exact ⟨MEquiv.of_eq e.symm, hw⟩
  | set t g =>
    obtain ⟨e, hw⟩ := remove_toMem h (some t.1, some t.2.1, none) (some g)
    obtain ⟨e2, h2⟩ := add_equiv hw t g
    simp only [Mem.step, NMem.step, Mem.set, NMem.set]
    rw [e] at e2
    exact ⟨e2, h2⟩
  | iadd g ts => exact addN_equiv g _ n h
  | iaddG g h' => exact addN_equiv g _ n h
  | isub g ts =>
    obtain ⟨e, hw⟩ := isub_toMem g ts n h
    exact ⟨MEquiv.of_eq e.symm, hw⟩
  | isubG g h' =>
    obtain ⟨e, hw⟩ := isub_toMem g (n.graph h') n h
    exact ⟨MEquiv.of_eq e.symm, hw⟩

theorem stStep_equiv {n : NMem} (h : NWF n) (op : StOp) :
    MEquiv (n.toMem.stStep op) (n.stStep op).toMem ∧ NWF (n.stStep op) := by
  cases op with
  | add t c => exact add_equiv h t c
  | remove pat ctx =>
    obtain ⟨e, hw⟩ := remove_toMem h pat ctx
    exact ⟨MEquiv.of_eq e.symm, hw⟩
  | addGraph k => exact ⟨MEquiv.refl _, nwf_cx h _⟩
  | removeGraph k =>
    obtain ⟨e, hw⟩ := remove_toMem h (none, none, none) (some k)
    refine ⟨MEquiv.of_eq ?_, nwf_cx hw _⟩
    simp only [Mem.stStep, NMem.stStep, Mem.removeGraph, NMem.removeGraph]
    rw [← e]
    rfl
  | graph op => exact step_equiv h op

/-! ### the invariant and the abstraction only speak of membership -/

theorem inv_of_equiv {m m' : Mem} (hI : Inv m) (h : MEquiv m m') (n1 : m'.spo.Nodup) (n2 : m'.pos.Nodup)
    (n3 : m'.osp.Nodup) : Inv m' := by
  obtain ⟨s1, p1, o1, tc1, d1, ct1, al1, er1⟩ := m
  obtain ⟨s2, p2, o2, tc2, d2, ct2, al2, er2⟩ := m'
  obtain ⟨hs, hp, ho, h4, h5, h6, h7, h8⟩ := h
  simp only at hs hp ho h4 h5 h6 h7 h8 n1 n2 n3
  subst h4; subst h5; subst h6; subst h7; subst h8
  exact
    { err := hI.err, nd_spo := n1, nd_pos := n2, nd_osp := n3
      pos_iff := fun t => ((hp t).symm.trans (hI.pos_iff t)).trans (hs t)
      osp_iff := fun t => ((ho t).symm.trans (hI.osp_iff t)).trans (hs t)
      dflt_some := fun t ht => hI.dflt_some t ((hs t).2 ht)
      dflt_ok := hI.dflt_ok
      tctx_in := fun t ht => hI.tctx_in t (fun h' => ht ((hs t).1 h'))
      ctxs_nd := hI.ctxs_nd
      ctxT_nd := hI.ctxT_nd
      ctxT_none := hI.ctxT_none
      ctxT_iff := fun k t => (hI.ctxT_iff k t).trans ⟨fun h' => ⟨(hs t).1 h'.1, h'.2⟩, fun h' => ⟨(hs t).2 h'.1, h'.2⟩⟩
      ctx_ok := fun t ht => hI.ctx_ok t ((hs t).2 ht) }

/-! ### the new graph of a binary operator (round h) -/

theorem foldl_add_equiv (r : Nat) : ∀ (ts : List Triple) (m : Mem) (n : NMem), NWF n → MEquiv m n.toMem →
    MEquiv (ts.foldl (fun m t => m.add t r) m) (ts.foldl (fun n t => n.add t r) n).toMem ∧
      NWF (ts.foldl (fun n t => n.add t r) n) := by
  intro ts
  induction ts with
  | nil => intro m n h e; exact ⟨e, h⟩
  | cons t rest ih =>
    intro m n h e
    obtain ⟨e1, h1⟩ := add_equiv h t r
    exact ih _ _ h1 ((add_congr e t r).trans e1)

theorem ofList_equiv (r : Nat) (ts : List Triple) :
    MEquiv (Mem.ofList r ts) (NMem.ofList r ts).toMem ∧ NWF (NMem.ofList r ts) :=
  foldl_add_equiv r ts Mem.init NMem.init nwf_init (MEquiv.refl _)

theorem graph_of_equiv {m : Mem} {n : NMem} (e : MEquiv m n.toMem) (g : Nat) : n.graph g = m.graph g := by
  show ctxTget n.cx (some g) = ctxTget m (some g)
  have : m.ctxT = n.cx.ctxT := e.ctxT
  simp only [ctxTget, this]

theorem nXor_eq (xs : List Triple) (inA : Triple → Bool) (ys : List Triple) (inB : Triple → Bool) (r : Nat) :
    nXor xs inA ys inB r = NMem.ofList r ((gDiff xs inB r).graph r ++ (gDiff ys inA r).graph r) := by
  simp only [nXor, nUnion, nDiff, gDiff, graph_of_equiv (ofList_equiv r _).1]

theorem InG_of_equiv {m m' : Mem} (h : MEquiv m m') (t : Triple) (g : Nat) : InG m t g ↔ InG m' t g := by
  obtain ⟨s1, p1, o1, tc1, d1, ct1, al1, er1⟩ := m
  obtain ⟨s2, p2, o2, tc2, d2, ct2, al2, er2⟩ := m'
  obtain ⟨hs, hp, ho, h4, h5, h6, h7, h8⟩ := h
  simp only at hs hp ho h4 h5 h6 h7 h8
  subst h4; subst h5
  exact ⟨fun h' => ⟨(hs t).1 h'.1, h'.2⟩, fun h' => ⟨(hs t).2 h'.1, h'.2⟩⟩

end RV.C01
