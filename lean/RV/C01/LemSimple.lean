import RV.C01.LemOps
/-
  C01 helper lemmas, part F: `SimpleMemory`.
-/
namespace RV.C01
open RV

structure SInv (m : SMem) : Prop where
  err : m.err = false
  nd_spo : m.spo.Nodup
  nd_pos : m.pos.Nodup
  nd_osp : m.osp.Nodup
  pos_iff : ∀ t, t ∈ m.pos ↔ t ∈ m.spo
  osp_iff : ∀ t, t ∈ m.osp ↔ t ∈ m.spo

theorem sinv_init : SInv SMem.init := by
  refine ⟨rfl, ?_, ?_, ?_, ?_, ?_⟩ <;> simp [SMem.init]

/-- the three indexes of a `SimpleMemory` seen as the indexes of a `Memory` (same dispatch) -/
def SMem.idx (m : SMem) : Mem := { spo := m.spo, pos := m.pos, osp := m.osp }

theorem striples_eq (m : SMem) (pat : Pat) : m.triples pat = cands m.idx pat := by
  obtain ⟨ps, pp, po⟩ := pat
  cases ps <;> cases pp <;> cases po <;> rfl

theorem mem_striples {m : SMem} (hI : SInv m) (pat : Pat) (t : Triple) :
    t ∈ m.triples pat ↔ (t ∈ m.spo ∧ pat.matches t = true) := by
  rw [striples_eq]
  exact mem_cands_gen (m := m.idx) hI.pos_iff hI.osp_iff pat t

theorem nodup_striples {m : SMem} (hI : SInv m) (pat : Pat) : (m.triples pat).Nodup := by
  rw [striples_eq]
  exact nodup_cands_gen (m := m.idx) hI.nd_spo hI.nd_pos hI.nd_osp pat

theorem sadd_spec {m : SMem} (hI : SInv m) (t : Triple) :
    SInv (m.add t) ∧ ∀ x, x ∈ (m.add t).spo ↔ (x ∈ m.spo ∨ x = t) := by
  refine ⟨⟨hI.err, nodup_sinsert hI.nd_spo, nodup_sinsert hI.nd_pos, nodup_sinsert hI.nd_osp, ?_, ?_⟩, ?_⟩
  · intro x; simp only [SMem.add, mem_sinsert, hI.pos_iff]
  · intro x; simp only [SMem.add, mem_sinsert, hI.osp_iff]
  · intro x; simp only [SMem.add, mem_sinsert]; exact or_comm

theorem sdel_spec {m : SMem} (hI : SInv m) {t : Triple} (ht : t ∈ m.spo) :
    SInv (m.del t) ∧ ∀ x, x ∈ (m.del t).spo ↔ (x ∈ m.spo ∧ x ≠ t) := by
  have h2 := (hI.pos_iff t).2 ht
  have h3 := (hI.osp_iff t).2 ht
  refine ⟨⟨?_, nodup_sremove hI.nd_spo, nodup_sremove hI.nd_pos, nodup_sremove hI.nd_osp, ?_, ?_⟩, ?_⟩
  · simp [SMem.del, hI.err, ht, h2, h3]
  · intro x; simp only [SMem.del, mem_sremove, hI.pos_iff]
  · intro x; simp only [SMem.del, mem_sremove, hI.osp_iff]
  · intro x; simp only [SMem.del, mem_sremove]; exact and_comm

theorem sdel_fold : ∀ (l : List Triple) (m : SMem), SInv m → l.Nodup → (∀ t ∈ l, t ∈ m.spo) →
    SInv (l.foldl SMem.del m) ∧ ∀ x, x ∈ (l.foldl SMem.del m).spo ↔ (x ∈ m.spo ∧ x ∉ l) := by
  intro l
  induction l with
  | nil => intro m hI _ _; simp [hI]
  | cons t r ih =>
    intro m hI hnd hall
    rw [List.nodup_cons] at hnd
    obtain ⟨hI1, h1⟩ := sdel_spec hI (hall t (by simp))
    have hall' : ∀ t' ∈ r, t' ∈ (m.del t).spo := by
      intro t' ht'
      rw [h1]
      exact ⟨hall t' (by simp [ht']), fun e => hnd.1 (e ▸ ht')⟩
    obtain ⟨hI2, h2⟩ := ih _ hI1 hnd.2 hall'
    refine ⟨hI2, ?_⟩
    intro x
    simp only [List.foldl_cons]
    rw [h2, h1]
    simp only [List.mem_cons, not_or]
    constructor
    · rintro ⟨⟨h3, h4⟩, h5⟩; exact ⟨h3, h4, h5⟩
    · rintro ⟨h3, h4, h5⟩; exact ⟨⟨h3, h4⟩, h5⟩

theorem sremove_spec {m : SMem} (hI : SInv m) (pat : Pat) :
    SInv (m.remove pat) ∧ ∀ x, x ∈ (m.remove pat).spo ↔ (x ∈ m.spo ∧ ¬ pat.matches x = true) := by
  unfold SMem.remove
  obtain ⟨hI1, h1⟩ := sdel_fold (m.triples pat) m hI (nodup_striples hI pat)
    (fun t ht => ((mem_striples hI pat t).1 ht).1)
  refine ⟨hI1, ?_⟩
  intro x
  rw [h1, mem_striples hI]
  constructor
  · rintro ⟨h2, h3⟩; exact ⟨h2, fun h => h3 ⟨h2, h⟩⟩
  · rintro ⟨h2, h3⟩; exact ⟨h2, fun h => h3 h.2⟩

theorem saddN_spec (g : Nat) : ∀ (qs : List Quad) (m : SMem), SInv m →
    SInv (m.addN g qs) ∧ ∀ x, x ∈ (m.addN g qs).spo ↔ (x ∈ m.spo ∨ (x, g, true) ∈ qs) := by
  intro qs
  induction qs with
  | nil => intro m hI; simp [SMem.addN, hI]
  | cons q r ih =>
    intro m hI
    obtain ⟨t0, c0, b0⟩ := q
    by_cases hq : (b0 && c0 == g) = true
    · have hb : b0 = true := by simp at hq; exact hq.1
      have hc : c0 = g := by simp at hq; exact hq.2
      subst hb; subst hc
      have : m.addN c0 ((t0, c0, true) :: r) = (m.add t0).addN c0 r := by simp [SMem.addN]
      rw [this]
      obtain ⟨hI1, h1⟩ := sadd_spec hI t0
      obtain ⟨hI2, h2⟩ := ih _ hI1
      refine ⟨hI2, ?_⟩
      intro x
      rw [h2, h1]
      simp only [List.mem_cons, Prod.mk.injEq, and_true]
      constructor
      · rintro ((h | h) | h)
        · exact Or.inl h
        · exact Or.inr (Or.inl h)
        · exact Or.inr (Or.inr h)
      · rintro (h | h | h)
        · exact Or.inl (Or.inl h)
        · exact Or.inl (Or.inr h)
        · exact Or.inr h
    · have : m.addN g ((t0, c0, b0) :: r) = m.addN g r := by simp [SMem.addN, hq]
      rw [this]
      obtain ⟨hI2, h2⟩ := ih _ hI
      refine ⟨hI2, ?_⟩
      intro x
      rw [h2]
      simp only [List.mem_cons, Prod.mk.injEq]
      constructor
      · rintro (h | h)
        · exact Or.inl h
        · exact Or.inr (Or.inr h)
      · rintro (h | h | h)
        · exact Or.inl h
        · exfalso
          obtain ⟨_, h5, h6⟩ := h
          apply hq
          simp [← h5, ← h6]
        · exact Or.inr h

theorem sset_spec {m : SMem} (hI : SInv m) (t0 : Triple) :
    SInv (m.set t0) ∧
      ∀ x, x ∈ (m.set t0).spo ↔ ((x ∈ m.spo ∧ ¬ (x.1 = t0.1 ∧ x.2.1 = t0.2.1)) ∨ x = t0) := by
  unfold SMem.set
  obtain ⟨hI1, h1⟩ := sremove_spec hI (some t0.1, some t0.2.1, none)
  obtain ⟨hI2, h2⟩ := sadd_spec hI1 t0
  refine ⟨hI2, ?_⟩
  intro x
  rw [h2, h1]
  simp [Pat.matches, matchPos]

theorem siadd_spec : ∀ (ts : List Triple) (m : SMem), SInv m →
    SInv (m.iadd ts) ∧ ∀ x, x ∈ (m.iadd ts).spo ↔ (x ∈ m.spo ∨ x ∈ ts) := by
  intro ts
  induction ts with
  | nil => intro m hI; simp [SMem.iadd, hI]
  | cons t0 r ih =>
    intro m hI
    obtain ⟨hI1, h1⟩ := sadd_spec hI t0
    obtain ⟨hI2, h2⟩ := ih _ hI1
    refine ⟨hI2, ?_⟩
    intro x
    show x ∈ (SMem.iadd (m.add t0) r).spo ↔ _
    rw [h2, h1]
    simp only [List.mem_cons]
    constructor
    · rintro ((h | h) | h)
      · exact Or.inl h
      · exact Or.inr (Or.inl h)
      · exact Or.inr (Or.inr h)
    · rintro (h | h | h)
      · exact Or.inl (Or.inl h)
      · exact Or.inl (Or.inr h)
      · exact Or.inr h

theorem sisub_spec : ∀ (ts : List Triple) (m : SMem), SInv m →
    SInv (m.isub ts) ∧ ∀ x, x ∈ (m.isub ts).spo ↔ (x ∈ m.spo ∧ x ∉ ts) := by
  intro ts
  induction ts with
  | nil => intro m hI; simp [SMem.isub, hI]
  | cons t0 r ih =>
    intro m hI
    obtain ⟨hI1, h1⟩ := sremove_spec hI (some t0.1, some t0.2.1, some t0.2.2)
    obtain ⟨hI2, h2⟩ := ih _ hI1
    refine ⟨hI2, ?_⟩
    intro x
    show x ∈ (SMem.isub (m.remove (some t0.1, some t0.2.1, some t0.2.2)) r).spo ↔ _
    rw [h2, h1]
    have hm : (Pat.matches (some t0.1, some t0.2.1, some t0.2.2) x = true) ↔ x = t0 := by
      obtain ⟨a, b, c⟩ := x
      obtain ⟨a', b', c'⟩ := t0
      simp [Pat.matches, matchPos, and_assoc]
    rw [hm]
    simp only [List.mem_cons, not_or]
    constructor
    · rintro ⟨⟨h3, h4⟩, h5⟩; exact ⟨h3, h4, h5⟩
    · rintro ⟨h3, h4, h5⟩; exact ⟨⟨h3, h4⟩, h5⟩

theorem scontains_iff {m : SMem} (hI : SInv m) (t : Triple) : m.contains t = true ↔ t ∈ m.spo := by
  unfold SMem.contains
  have h := mem_striples hI (some t.1, some t.2.1, some t.2.2)
  constructor
  · intro hc
    cases hl : m.triples (some t.1, some t.2.1, some t.2.2) with
    | nil => simp [hl] at hc
    | cons x r =>
      have hx := (h x).1 (by rw [hl]; simp)
      have : x = t := by
        obtain ⟨a, b, c⟩ := x
        obtain ⟨a', b', c'⟩ := t
        have := hx.2
        simp only [Pat.matches, matchPos, Bool.and_eq_true, beq_iff_eq] at this
        obtain ⟨⟨rfl, rfl⟩, rfl⟩ := this
        rfl
      rw [← this]; exact hx.1
  · intro hin
    have : t ∈ m.triples (some t.1, some t.2.1, some t.2.2) :=
      (h t).2 ⟨hin, by simp [Pat.matches, matchPos]⟩
    cases hl : m.triples (some t.1, some t.2.1, some t.2.2) with
    | nil => rw [hl] at this; cases this
    | cons x r => simp

end RV.C01
