import RV.C01.LemMem
/-
  C01 helper lemmas, part C: `Memory.remove` — one context of one triple, the walk over a
  triple's contexts, the per-triple step, the loop over the lazy generator, the final
  clean-up of an emptied context entry.
-/
namespace RV.C01
open RV

theorem flag_false (m : Mem) : m.flag false = m := by
  cases m; simp [Mem.flag]

/-- `__remove_triple_context` on a stored triple that has the context -/
theorem rtc_spec {m : Mem} (hI : Inv0 m) {t : Triple} {ctx : Ctx} (ht : t ∈ m.spo)
    (hc : ctx ∈ getCtxs m t) :
    Inv0 (removeTripleContext m t ctx) ∧
    (removeTripleContext m t ctx).spo = m.spo ∧
    (∀ t', t' ≠ t → getCtxs (removeTripleContext m t ctx) t' = getCtxs m t') ∧
    (∀ x, x ∈ getCtxs (removeTripleContext m t ctx) t ↔ (x ∈ getCtxs m t ∧ x ≠ ctx)) := by
  have hd : (removeTripleContext m t ctx).dflt = m.dflt := rfl
  have htc : (removeTripleContext m t ctx).tctx
      = compress m.tctx m.dflt t (sremove (getCtxs m t) ctx) := rfl
  obtain ⟨hoth, hself0⟩ := getCtxs_upd hd htc
  have hself : ∀ x, x ∈ getCtxs (removeTripleContext m t ctx) t ↔ (x ∈ getCtxs m t ∧ x ≠ ctx) := by
    intro x; rw [hself0, mem_sremove]; exact and_comm
  obtain ⟨d0, hd0⟩ := Option.isSome_iff_exists.mp (hI.dflt_some t ht)
  have hTin : t ∈ getT m.ctxT ctx := (hI.ctxT_iff ctx t).2 ⟨ht, hc⟩
  have hne : (eqDflt (sremove (getCtxs m t) ctx) m.dflt && (alookup m.tctx t).isNone) = false := by
    cases hl : alookup m.tctx t with
    | some cs => simp
    | none =>
      have hg : getCtxs m t = d0 := by simp [getCtxs, getC, hl, hd0]
      have : eqDflt (sremove (getCtxs m t) ctx) m.dflt = false := by
        rw [hd0, hg]
        simp only [eqDflt]
        cases h : ctxEq (sremove d0 ctx) d0 with
        | false => rfl
        | true =>
          exfalso
          have := ((ctxEq_iff _ _).1 h ctx).2 (hg ▸ hc)
          exact (mem_sremove.1 this).1 rfl
      simp [this]
  refine ⟨?_, rfl, hoth, hself⟩
  refine
    { err := ?_, nd_spo := hI.nd_spo, nd_pos := hI.nd_pos, nd_osp := hI.nd_osp, pos_iff := hI.pos_iff,
      osp_iff := hI.osp_iff, dflt_some := hI.dflt_some, dflt_ok := hI.dflt_ok, tctx_in := ?_,
      ctxs_nd := ?_, ctxT_nd := ?_, ctxT_none := ?_, ctxT_iff := ?_ }
  · simp only [removeTripleContext, hI.err, getCtxsRaises_false hI ht, hne,
      ctxTdelRaises_eq_false _ _ _ hTin, hc, decide_true, Bool.not_true, Bool.or_self]
  · intro t' h
    have e : t' ≠ t := fun e => h (e ▸ ht)
    rw [htc, alookup_compress_other _ _ _ _ _ e]
    exact hI.tctx_in t' h
  · intro t'
    by_cases e : t' = t
    · subst e
      exact getCtxs_upd_nodup hd htc (nodup_sremove (hI.ctxs_nd t')) (fun d h => (hI.dflt_ok d h).2)
    · rw [hoth t' e]; exact hI.ctxs_nd t'
  · intro k
    exact nodup_getT_ctxTdel _ _ _ _ (hI.ctxT_nd k)
  · show (alookup (ctxTdel m.ctxT ctx t) none).isSome = true
    rw [isSome_alookup_ctxTdel]; exact hI.ctxT_none
  · intro k x
    show x ∈ getT (ctxTdel m.ctxT ctx t) k ↔ (x ∈ m.spo ∧ _)
    rw [mem_getT_ctxTdel]
    have := hI.ctxT_iff k x
    simp only [ctxTget] at this
    rw [this]
    by_cases e : x = t
    · subst e
      rw [hself]
      constructor
      · rintro ⟨⟨h1, h2⟩, h3⟩
        exact ⟨h1, h2, fun e => h3 ⟨e, rfl⟩⟩
      · rintro ⟨h1, h2, h3⟩
        exact ⟨⟨h1, h2⟩, fun h => h3 h.1⟩
    · rw [hoth x e]
      constructor
      · rintro ⟨h, _⟩; exact h
      · intro h; exact ⟨h, fun h' => e h'.2⟩

/-- the walk over the triple's contexts with a graph given: only that graph's context is removed -/
theorem removeCtxLoop_some (t : Triple) (g : Nat) :
    ∀ (cs : List Ctx) (m : Mem), cs.Nodup →
      removeCtxLoop m t (some g) cs = if some g ∈ cs then removeTripleContext m t (some g) else m := by
  intro cs
  induction cs with
  | nil => intro m _; simp [removeCtxLoop]
  | cons ctx r ih =>
    intro m hnd
    rw [List.nodup_cons] at hnd
    by_cases e : ctx = some g
    · subst e
      have : (some g : Ctx) ∉ r := hnd.1
      simp only [removeCtxLoop, Option.isSome_some, bne_self_eq_false, Bool.and_false,
        Bool.false_eq_true, if_false, List.mem_cons, true_or, if_true]
      rw [ih _ hnd.2]
      simp [this]
    · have e' : ¬ (some g : Ctx) = ctx := fun h => e h.symm
      have hb : ((some g : Ctx) != ctx) = true := by simp [bne_iff_ne, e']
      simp only [removeCtxLoop, Option.isSome_some, hb, Bool.and_self, if_true, List.mem_cons, e', false_or]
      exact ih m hnd.2

/-- deleting a stored triple whose context set has become empty -/
theorem dropTriple_spec {m2 : Mem} (hI2 : Inv0 m2) {t : Triple} (ht : t ∈ m2.spo)
    (hnil : getCtxs m2 t = [])
    (hok : ∀ t', t' ∈ m2.spo → t' ≠ t → none ∈ getCtxs m2 t' ∧ ∃ c, some c ∈ getCtxs m2 t') :
    Inv (dropTriple m2 t) ∧ (∀ x, x ∈ (dropTriple m2 t).spo ↔ (x ≠ t ∧ x ∈ m2.spo)) ∧
      ∀ t', t' ≠ t → getCtxs (dropTriple m2 t) t' = getCtxs m2 t' := by
  have hempty : ∀ x, x ∉ getCtxs m2 t := by rw [hnil]; simp
  have h4 : (alookup m2.tctx t).isNone = false := by
    cases hl : alookup m2.tctx t with
    | some cs => rfl
    | none =>
      exfalso
      obtain ⟨d0, hd0⟩ := Option.isSome_iff_exists.mp (hI2.dflt_some t ht)
      have : getCtxs m2 t = d0 := by simp [getCtxs, getC, hl, hd0]
      exact hempty none (this ▸ (hI2.dflt_ok d0 hd0).1)
  have h2 : t ∈ m2.pos := (hI2.pos_iff t).2 ht
  have h3 : t ∈ m2.osp := (hI2.osp_iff t).2 ht
  have hs3 : (dropTriple m2 t).spo = sremove m2.spo t := by simp [dropTriple, hnil]
  have hp3 : (dropTriple m2 t).pos = sremove m2.pos t := by simp [dropTriple, hnil]
  have ho3 : (dropTriple m2 t).osp = sremove m2.osp t := by simp [dropTriple, hnil]
  have hd3 : (dropTriple m2 t).dflt = m2.dflt := by simp [dropTriple, hnil]
  have ht3 : (dropTriple m2 t).tctx = aerase m2.tctx t := by simp [dropTriple, hnil]
  have hc3 : (dropTriple m2 t).ctxT = m2.ctxT := by simp [dropTriple, hnil]
  have he3 : (dropTriple m2 t).err = false := by simp [dropTriple, hnil, ht, h2, h3, h4, hI2.err]
  generalize dropTriple m2 t = m3 at *
  have hmem3 : ∀ x, x ∈ m3.spo ↔ (x ≠ t ∧ x ∈ m2.spo) := by intro x; rw [hs3, mem_sremove]
  have hget3 : ∀ t', t' ≠ t → getCtxs m3 t' = getCtxs m2 t' := by
    intro t' e
    have e' : ¬ t = t' := fun h => e h.symm
    simp [getCtxs, getC, hd3, ht3, alookup_aerase, e']
  refine ⟨?_, hmem3, hget3⟩
  refine
    { err := he3, nd_spo := ?_, nd_pos := ?_, nd_osp := ?_, pos_iff := ?_,
      osp_iff := ?_, dflt_some := ?_, dflt_ok := ?_, tctx_in := ?_,
      ctxs_nd := ?_, ctxT_nd := ?_, ctxT_none := ?_, ctxT_iff := ?_, ctx_ok := ?_ }
  · rw [hs3]; exact nodup_sremove hI2.nd_spo
  · rw [hp3]; exact nodup_sremove hI2.nd_pos
  · rw [ho3]; exact nodup_sremove hI2.nd_osp
  · intro x; rw [hp3, hmem3, mem_sremove, hI2.pos_iff]
  · intro x; rw [ho3, hmem3, mem_sremove, hI2.osp_iff]
  · intro x hx; rw [hd3]; exact hI2.dflt_some x ((hmem3 x).1 hx).2
  · intro d h; rw [hd3] at h; exact hI2.dflt_ok d h
  · intro t' h
    rw [ht3, alookup_aerase]
    by_cases e : t = t'
    · simp [e]
    · simp only [e, if_false]
      apply hI2.tctx_in
      intro h'
      exact h ((hmem3 t').2 ⟨fun e' => e e'.symm, h'⟩)
  · intro t'
    simp only [getCtxs, hd3, ht3]
    refine nodup_getC ?_ (fun d h => (hI2.dflt_ok d h).2) t'
    intro t'' cs h
    rw [alookup_aerase] at h
    by_cases e : t = t''
    · simp [e] at h
    · simp only [e, if_false] at h
      exact hI2.entry_nd t'' cs h
  · intro k; simp only [ctxTget, hc3]; exact hI2.ctxT_nd k
  · rw [hc3]; exact hI2.ctxT_none
  · intro k x
    simp only [ctxTget, hc3]
    have := hI2.ctxT_iff k x
    simp only [ctxTget] at this
    rw [this, hmem3]
    by_cases e : x = t
    · subst e
      simp only [ne_eq, not_true_eq_false, false_and, iff_false, not_and]
      intro _ h; exact hempty k h
    · rw [hget3 x e]
      simp [e]
  · intro t' h
    obtain ⟨e, h'⟩ := (hmem3 t').1 h
    rw [hget3 t' e]; exact hok t' h' e

theorem removeOne_spec {m : Mem} (hI : Inv m) {t : Triple} {g : Nat} (hin : InG m t g) :
    Inv (removeOne m t (some g)) ∧
      ∀ t' c', InG (removeOne m t (some g)) t' c' ↔ (InG m t' c' ∧ ¬ (t' = t ∧ c' = g)) := by
  obtain ⟨ht, hg⟩ := hin
  have hfl : m.flag (getCtxsRaises m t) = m := by
    rw [getCtxsRaises_false hI.toInv0 ht]; exact flag_false m
  obtain ⟨hI1, hspo1, hoth1, hself1⟩ := rtc_spec hI.toInv0 ht hg
  have hnone0 : (none : Ctx) ∈ getCtxs m t := (hI.ctx_ok t ht).1
  have hnone1 : (none : Ctx) ∈ getCtxs (removeTripleContext m t (some g)) t :=
    (hself1 none).2 ⟨hnone0, by simp⟩
  have hloop : removeCtxLoop m t (some g) (getCtxs m t) = removeTripleContext m t (some g) := by
    rw [removeCtxLoop_some t g _ m (hI.ctxs_nd t)]; simp [hg]
  unfold removeOne
  rw [hfl, hloop]
  by_cases hlen : (getCtxs (removeTripleContext m t (some g)) t).length = 1
  · -- the graph was the triple's only asserted context: drop the union entry, then the triple
    have hall := (length_eq_one_iff_of_mem (hI1.ctxs_nd t) hnone1).1 hlen
    have hdu : dropUnion (removeTripleContext m t (some g)) t (some g)
        = removeTripleContext (removeTripleContext m t (some g)) t none := by
      simp [dropUnion, hnone1, hlen]
    rw [hdu]
    have ht1 : t ∈ (removeTripleContext m t (some g)).spo := by rw [hspo1]; exact ht
    obtain ⟨hI2, hspo2, hoth2, hself2⟩ := rtc_spec hI1 ht1 hnone1
    generalize hm2 : removeTripleContext (removeTripleContext m t (some g)) t none = m2 at *
    have hempty : ∀ x, x ∉ getCtxs m2 t := by
      intro x hx
      have := (hself2 x).1 hx
      exact this.2 (hall x this.1)
    have hnil : getCtxs m2 t = [] := List.eq_nil_iff_forall_not_mem.2 hempty
    have hspo2' : m2.spo = m.spo := by rw [hspo2, hspo1]
    have hothm : ∀ t', t' ≠ t → getCtxs m2 t' = getCtxs m t' := by
      intro t' e; rw [hoth2 t' e, hoth1 t' e]
    obtain ⟨hI3, hmem3, hget3⟩ := dropTriple_spec hI2 (hspo2' ▸ ht) hnil (by
      intro t' h e
      rw [hothm t' e]; exact hI.ctx_ok t' (hspo2' ▸ h))
    refine ⟨hI3, ?_⟩
    intro t' c'
    unfold InG
    rw [hmem3, hspo2']
    by_cases e : t' = t
    · subst e
      constructor
      · rintro ⟨⟨h, _⟩, _⟩; exact (h rfl).elim
      · rintro ⟨⟨_, h⟩, hne⟩
        exfalso
        have hcg : c' ≠ g := fun e => hne ⟨rfl, e⟩
        have := hall (some c') ((hself1 _).2 ⟨h, fun e => hcg (Option.some.inj e)⟩)
        cases this
    · rw [hget3 t' e, hothm t' e]
      simp [e]
  · -- other asserted contexts remain: nothing more happens
    have hdu : dropUnion (removeTripleContext m t (some g)) t (some g) = removeTripleContext m t (some g) := by
      simp [dropUnion, hlen]
    rw [hdu]
    have hlen0 : (getCtxs (removeTripleContext m t (some g)) t).length ≠ 0 := by
      intro h
      have := List.eq_nil_of_length_eq_zero h
      rw [this] at hnone1
      cases hnone1
    have hdt : dropTriple (removeTripleContext m t (some g)) t = removeTripleContext m t (some g) := by
      simp [dropTriple, hlen0]
    rw [hdt]
    generalize hm1 : removeTripleContext m t (some g) = m1 at *
    constructor
    · refine { toInv0 := hI1, ctx_ok := ?_ }
      intro t' h
      rw [hspo1] at h
      by_cases e : t' = t
      · subst e
        refine ⟨hnone1, ?_⟩
        have hnot : ¬ ∀ x ∈ getCtxs m1 t', x = none := fun hall =>
          hlen ((length_eq_one_iff_of_mem (hI1.ctxs_nd t') hnone1).2 hall)
        have : ∃ x, x ∈ getCtxs m1 t' ∧ x ≠ none := by
          refine Classical.byContradiction fun hne => hnot ?_
          intro x hx
          refine Classical.byContradiction fun hx' => hne ⟨x, hx, hx'⟩
        obtain ⟨x, hx, hx'⟩ := this
        cases x with
        | none => exact (hx' rfl).elim
        | some c => exact ⟨c, hx⟩
      · rw [hoth1 t' e]; exact hI.ctx_ok t' h
    · intro t' c'
      unfold InG
      rw [hspo1]
      by_cases e : t' = t
      · subst e
        rw [hself1]
        constructor
        · rintro ⟨h1, h2, h3⟩
          exact ⟨⟨h1, h2⟩, fun h => h3 (by rw [h.2])⟩
        · rintro ⟨⟨h1, h2⟩, h3⟩
          exact ⟨h1, h2, fun h => h3 ⟨rfl, Option.some.inj h⟩⟩
      · rw [hoth1 t' e]; simp [e]

end RV.C01
