import RV.C01.LemRem
/-
  C01 helper lemmas, part D: pattern dispatch (`cands`, `triples`), the remove loop and
  `Memory.remove` as a whole.
-/
namespace RV.C01
open RV

theorem nodup_filter {α : Type} {l : List α} (p : α → Bool) (h : l.Nodup) : (l.filter p).Nodup :=
  List.Sublist.nodup List.filter_sublist h

/-- whichever index the shape selects, the candidates are the stored triples matching the pattern -/
theorem mem_cands_gen {m : Mem} (hp : ∀ t, t ∈ m.pos ↔ t ∈ m.spo) (ho : ∀ t, t ∈ m.osp ↔ t ∈ m.spo)
    (pat : Pat) (t : Triple) : t ∈ cands m pat ↔ (t ∈ m.spo ∧ pat.matches t = true) := by
  obtain ⟨ps, pp, po⟩ := pat
  obtain ⟨s, p, o⟩ := t
  cases ps <;> cases pp <;> cases po <;>
    simp only [cands, List.mem_filter, hp, ho, Pat.matches, matchPos, Bool.and_eq_true,
      beq_iff_eq, Bool.true_and, Bool.and_true, and_true]
  case some.some.some s' p' o' =>
    by_cases h : (s', p', o') ∈ m.spo
    · simp only [h, if_true, List.mem_singleton, Prod.mk.injEq]
      constructor
      · rintro ⟨rfl, rfl, rfl⟩; exact ⟨h, ⟨rfl, rfl⟩, rfl⟩
      · rintro ⟨_, ⟨rfl, rfl⟩, rfl⟩; exact ⟨rfl, rfl, rfl⟩
    · simp only [h, if_false, List.not_mem_nil, false_iff, not_and]
      rintro h1 ⟨rfl, rfl⟩ rfl; exact h h1

theorem mem_cands {m : Mem} (hI : Inv0 m) (pat : Pat) (t : Triple) :
    t ∈ cands m pat ↔ (t ∈ m.spo ∧ pat.matches t = true) := mem_cands_gen hI.pos_iff hI.osp_iff pat t

theorem nodup_cands_gen {m : Mem} (h1 : m.spo.Nodup) (h2 : m.pos.Nodup) (h3 : m.osp.Nodup) (pat : Pat) :
    (cands m pat).Nodup := by
  obtain ⟨ps, pp, po⟩ := pat
  cases ps <;> cases pp <;> cases po <;> simp only [cands]
  case some.some.some s' p' o' => split <;> simp
  all_goals
    first
    | exact h1
    | exact nodup_filter _ h1
    | exact nodup_filter _ h2
    | exact nodup_filter _ h3

theorem nodup_cands {m : Mem} (hI : Inv0 m) (pat : Pat) : (cands m pat).Nodup :=
  nodup_cands_gen hI.nd_spo hI.nd_pos hI.nd_osp pat

theorem hasCtxRaises_false {m : Mem} (hI : Inv0 m) (t : Triple) : hasCtxRaises m t = false := by
  unfold hasCtxRaises
  by_cases h : t ∈ m.spo
  · simp [getCtxsRaises_false hI h]
  · simp [h]

/-- `Memory.triples` for every one of the eight shapes and every context key (`none` = the union) -/
theorem mem_triples_ctx {m : Mem} (hI : Inv m) (pat : Pat) (c : Ctx) (t : Triple) :
    t ∈ triples m pat c ↔ ((t ∈ m.spo ∧ c ∈ getCtxs m t) ∧ pat.matches t = true) := by
  by_cases hp : pat = (none, none, none)
  · subst hp
    simp only [triples]
    rw [hI.ctxT_iff]
    simp [Pat.matches, matchPos]
  · have : triples m pat c = (cands m pat).filter (fun t => hasCtx m t c) := by
      obtain ⟨ps, pp, po⟩ := pat
      cases ps <;> cases pp <;> cases po <;> first | rfl | exact (hp rfl).elim
    rw [this, List.mem_filter, mem_cands hI.toInv0]
    simp only [hasCtx, Bool.and_eq_true, decide_eq_true_eq]
    constructor
    · rintro ⟨⟨_, h2⟩, h3⟩; exact ⟨h3, h2⟩
    · rintro ⟨h3, h2⟩; exact ⟨⟨h3.1, h2⟩, h3⟩

/-- `Memory.triples` for every one of the eight shapes: exactly the graph's matching triples -/
theorem mem_triples {m : Mem} (hI : Inv m) (pat : Pat) (g : Nat) (t : Triple) :
    t ∈ triples m pat (some g) ↔ (InG m t g ∧ pat.matches t = true) := mem_triples_ctx hI pat (some g) t

/-- the union entry holds exactly the triples that are in some graph -/
theorem union_iff {m : Mem} (hI : Inv m) (t : Triple) :
    (t ∈ m.spo ∧ none ∈ getCtxs m t) ↔ ∃ g, InG m t g := by
  constructor
  · rintro ⟨h, _⟩
    obtain ⟨c, hc⟩ := (hI.ctx_ok t h).2
    exact ⟨c, h, hc⟩
  · rintro ⟨g, h, _⟩
    exact ⟨h, (hI.ctx_ok t h).1⟩

theorem nodup_triples {m : Mem} (hI : Inv m) (pat : Pat) (c : Ctx) : (triples m pat c).Nodup := by
  by_cases hp : pat = (none, none, none)
  · subst hp; exact hI.ctxT_nd c
  · have : triples m pat c = (cands m pat).filter (fun t => hasCtx m t c) := by
      obtain ⟨ps, pp, po⟩ := pat
      cases ps <;> cases pp <;> cases po <;> first | rfl | exact (hp rfl).elim
    rw [this]; exact nodup_filter _ (nodup_cands hI.toInv0 pat)

theorem triplesRaises_false {m : Mem} (hI : Inv m) (pat : Pat) : triplesRaises m pat = false := by
  obtain ⟨ps, pp, po⟩ := pat
  cases ps <;> cases pp <;> cases po <;>
    simp [triplesRaises, hasCtxRaises_false hI.toInv0]

/-! ### the loop of `Memory.remove` -/

theorem removeLoop_test (g : Nat) : ∀ (l : List Triple) (m : Mem), Inv m →
    Inv (removeLoop m (some g) true l) ∧
      ∀ t' c', InG (removeLoop m (some g) true l) t' c' ↔ (InG m t' c' ∧ ¬ (t' ∈ l ∧ c' = g)) := by
  intro l
  induction l with
  | nil => intro m hI; simp [removeLoop, hI]
  | cons t r ih =>
    intro m hI
    have hfl : m.flag (hasCtxRaises m t) = m := by
      rw [hasCtxRaises_false hI.toInv0]; exact flag_false m
    by_cases h : hasCtx m t (some g) = true
    · have hin := (hasCtx_iff m t g).1 h
      obtain ⟨hI1, h1⟩ := removeOne_spec hI hin
      have : removeLoop m (some g) true (t :: r) = removeLoop (removeOne m t (some g)) (some g) true r := by
        simp [removeLoop, h, hfl]
      rw [this]
      obtain ⟨hI2, h2⟩ := ih _ hI1
      refine ⟨hI2, ?_⟩
      intro t' c'
      rw [h2, h1]
      simp only [List.mem_cons]
      constructor
      · rintro ⟨⟨h3, h4⟩, h5⟩
        refine ⟨h3, ?_⟩
        rintro ⟨h6 | h6, h7⟩
        · exact h4 ⟨h6, h7⟩
        · exact h5 ⟨h6, h7⟩
      · rintro ⟨h3, h4⟩
        exact ⟨⟨h3, fun h => h4 ⟨Or.inl h.1, h.2⟩⟩, fun h => h4 ⟨Or.inr h.1, h.2⟩⟩
    · have hnin : ¬ InG m t g := fun hin => h ((hasCtx_iff m t g).2 hin)
      have : removeLoop m (some g) true (t :: r) = removeLoop m (some g) true r := by
        simp [removeLoop, h, hfl]
      rw [this]
      obtain ⟨hI2, h2⟩ := ih _ hI
      refine ⟨hI2, ?_⟩
      intro t' c'
      rw [h2]
      simp only [List.mem_cons]
      constructor
      · rintro ⟨h3, h5⟩
        refine ⟨h3, ?_⟩
        rintro ⟨h6 | h6, h7⟩
        · subst h6; subst h7; exact hnin h3
        · exact h5 ⟨h6, h7⟩
      · rintro ⟨h3, h4⟩
        exact ⟨h3, fun h => h4 ⟨Or.inr h.1, h.2⟩⟩

theorem removeLoop_snapshot (g : Nat) : ∀ (l : List Triple) (m : Mem), Inv m → l.Nodup →
    (∀ t ∈ l, InG m t g) →
    Inv (removeLoop m (some g) false l) ∧
      ∀ t' c', InG (removeLoop m (some g) false l) t' c' ↔ (InG m t' c' ∧ ¬ (t' ∈ l ∧ c' = g)) := by
  intro l
  induction l with
  | nil => intro m hI _ _; simp [removeLoop, hI]
  | cons t r ih =>
    intro m hI hnd hall
    rw [List.nodup_cons] at hnd
    have hfl : m.flag false = m := flag_false m
    have hin := hall t (by simp)
    obtain ⟨hI1, h1⟩ := removeOne_spec hI hin
    have : removeLoop m (some g) false (t :: r) = removeLoop (removeOne m t (some g)) (some g) false r := by
      simp [removeLoop, hfl]
    rw [this]
    have hall' : ∀ t' ∈ r, InG (removeOne m t (some g)) t' g := by
      intro t' ht'
      rw [h1]
      refine ⟨hall t' (by simp [ht']), ?_⟩
      rintro ⟨e, _⟩
      subst e; exact hnd.1 ht'
    obtain ⟨hI2, h2⟩ := ih _ hI1 hnd.2 hall'
    refine ⟨hI2, ?_⟩
    intro t' c'
    rw [h2, h1]
    simp only [List.mem_cons]
    constructor
    · rintro ⟨⟨h3, h4⟩, h5⟩
      refine ⟨h3, ?_⟩
      rintro ⟨h6 | h6, h7⟩
      · exact h4 ⟨h6, h7⟩
      · exact h5 ⟨h6, h7⟩
    · rintro ⟨h3, h4⟩
      exact ⟨⟨h3, fun h => h4 ⟨Or.inl h.1, h.2⟩⟩, fun h => h4 ⟨Or.inr h.1, h.2⟩⟩

/-- dropping an emptied named context entry changes no observation -/
theorem dropEmptyCtx_spec {m : Mem} (hI : Inv m) (g : Nat) :
    Inv (dropEmptyCtx m (some g)) ∧ ∀ t' c', InG (dropEmptyCtx m (some g)) t' c' ↔ InG m t' c' := by
  simp only [dropEmptyCtx]
  split
  · next hl =>
      refine ⟨?_, fun _ _ => Iff.rfl⟩
      have hget : ∀ k, getT (aerase m.ctxT (some g)) k = getT m.ctxT k :=
        fun k => getT_aerase_empty _ _ _ hl
      refine
        { err := hI.err, nd_spo := hI.nd_spo, nd_pos := hI.nd_pos, nd_osp := hI.nd_osp, pos_iff := hI.pos_iff,
          osp_iff := hI.osp_iff, dflt_some := hI.dflt_some, dflt_ok := hI.dflt_ok, tctx_in := hI.tctx_in,
          ctxs_nd := hI.ctxs_nd, ctxT_nd := ?_, ctxT_none := ?_, ctxT_iff := ?_, ctx_ok := hI.ctx_ok }
      · intro k; simp only [ctxTget, hget]; exact hI.ctxT_nd k
      · simp only [alookup_aerase]
        simpa using hI.ctxT_none
      · intro k x
        simp only [ctxTget, hget]
        exact hI.ctxT_iff k x
  · exact ⟨hI, fun _ _ => Iff.rfl⟩

/-- `Memory.remove(pattern, graph)`: exactly the graph's matching triples leave the graph -/
theorem remove_spec {m : Mem} (hI : Inv m) (pat : Pat) (g : Nat) :
    Inv (m.remove pat (some g)) ∧
      ∀ t' c', InG (m.remove pat (some g)) t' c' ↔ (InG m t' c' ∧ ¬ (pat.matches t' = true ∧ c' = g)) := by
  by_cases hp : pat = (none, none, none)
  · subst hp
    have hall : ∀ t ∈ ctxTget m (some g), InG m t g := fun t h => (hI.ctxT_iff (some g) t).1 h
    obtain ⟨hI1, h1⟩ := removeLoop_snapshot g _ m hI (hI.ctxT_nd _) hall
    obtain ⟨hI2, h2⟩ := dropEmptyCtx_spec hI1 g
    refine ⟨hI2, ?_⟩
    intro t' c'
    show InG (dropEmptyCtx (removeLoop m (some g) false (ctxTget m (some g))) (some g)) t' c' ↔ _
    rw [h2, h1]
    constructor
    · rintro ⟨h3, h4⟩
      refine ⟨h3, ?_⟩
      rintro ⟨_, e⟩
      subst e
      exact h4 ⟨(hI.ctxT_iff _ _).2 h3, rfl⟩
    · rintro ⟨h3, h4⟩
      exact ⟨h3, fun h => h4 ⟨by simp [Pat.matches, matchPos], h.2⟩⟩
  · have : m.remove pat (some g) = dropEmptyCtx (removeLoop m (some g) true (cands m pat)) (some g) := by
      obtain ⟨ps, pp, po⟩ := pat
      cases ps <;> cases pp <;> cases po <;> first | rfl | exact (hp rfl).elim
    rw [this]
    obtain ⟨hI1, h1⟩ := removeLoop_test g (cands m pat) m hI
    obtain ⟨hI2, h2⟩ := dropEmptyCtx_spec hI1 g
    refine ⟨hI2, ?_⟩
    intro t' c'
    rw [h2, h1]
    constructor
    · rintro ⟨h3, h4⟩
      exact ⟨h3, fun h => h4 ⟨(mem_cands hI.toInv0 pat t').2 ⟨h3.1, h.1⟩, h.2⟩⟩
    · rintro ⟨h3, h4⟩
      exact ⟨h3, fun h => h4 ⟨((mem_cands hI.toInv0 pat t').1 h.1).2, h.2⟩⟩

end RV.C01
