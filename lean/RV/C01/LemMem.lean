import RV.C01.LemA
/-
  C01 helper lemmas, part B: the representation invariant of `Memory`, the abstraction
  `InG` (triple `t` is in graph `g`), and the effect of `add`.
-/
namespace RV.C01
open RV

/-- abstraction: the triple is in the store and graph `g` is among its contexts
    (presence-guarded, so stale bookkeeping for absent triples cannot leak) -/
def InG (m : Mem) (t : Triple) (g : Nat) : Prop := t ∈ m.spo ∧ some g ∈ getCtxs m t

instance (m : Mem) (t : Triple) (g : Nat) : Decidable (InG m t g) := by unfold InG; infer_instance

/-- the part of the invariant that also holds in the middle of `Memory.remove`'s per-triple step -/
structure Inv0 (m : Mem) : Prop where
  err : m.err = false
  nd_spo : m.spo.Nodup
  nd_pos : m.pos.Nodup
  nd_osp : m.osp.Nodup
  pos_iff : ∀ t, t ∈ m.pos ↔ t ∈ m.spo
  osp_iff : ∀ t, t ∈ m.osp ↔ t ∈ m.spo
  /-- a non-empty store has its default context set -/
  dflt_some : ∀ t, t ∈ m.spo → m.dflt.isSome = true
  dflt_ok : ∀ d, m.dflt = some d → none ∈ d ∧ d.Nodup
  /-- explicit context entries exist only for triples in the store -/
  tctx_in : ∀ t, t ∉ m.spo → alookup m.tctx t = none
  ctxs_nd : ∀ t, (getCtxs m t).Nodup
  ctxT_nd : ∀ k, (ctxTget m k).Nodup
  ctxT_none : (alookup m.ctxT none).isSome = true
  /-- `__contextTriples[k]` is exactly the set of stored triples having context `k` -/
  ctxT_iff : ∀ k t, t ∈ ctxTget m k ↔ (t ∈ m.spo ∧ k ∈ getCtxs m t)

structure Inv (m : Mem) : Prop extends Inv0 m where
  /-- a stored triple is in the union entry and in at least one asserted context -/
  ctx_ok : ∀ t, t ∈ m.spo → none ∈ getCtxs m t ∧ ∃ c, some c ∈ getCtxs m t

theorem inv_init : Inv Mem.init := by
  refine
    { err := rfl, nd_spo := ?_, nd_pos := ?_, nd_osp := ?_, pos_iff := ?_,
      osp_iff := ?_, dflt_some := ?_, dflt_ok := ?_, tctx_in := ?_, ctxs_nd := ?_, ctx_ok := ?_,
      ctxT_nd := ?nd, ctxT_none := ?_, ctxT_iff := ?iff }
  case nd => intro k; cases k <;> simp [Mem.init, alookup, ctxTget, getT]
  case iff => intro k t; cases k <;> simp [Mem.init, alookup, ctxTget, getT]
  all_goals simp [Mem.init, getCtxs, getC, alookup]

/-- effect of replacing the context set of `t` by `tc` (through `compress`) on `getCtxs` -/
theorem getCtxs_upd {m m' : Mem} {t : Triple} {tc : List Ctx}
    (hd : m'.dflt = m.dflt) (ht : m'.tctx = compress m.tctx m.dflt t tc) :
    (∀ t', t' ≠ t → getCtxs m' t' = getCtxs m t') ∧ (∀ x, x ∈ getCtxs m' t ↔ x ∈ tc) := by
  constructor
  · intro t' h
    simp only [getCtxs, hd, ht]
    exact getC_compress_other _ _ _ _ _ h
  · intro x
    simp only [getCtxs, hd, ht]
    exact mem_getC_compress_self _ _ _ _ _

theorem getCtxs_upd_nodup {m m' : Mem} {t : Triple} {tc : List Ctx}
    (hd : m'.dflt = m.dflt) (ht : m'.tctx = compress m.tctx m.dflt t tc)
    (h1 : tc.Nodup) (h2 : ∀ d0, m.dflt = some d0 → d0.Nodup) : (getCtxs m' t).Nodup := by
  simp only [getCtxs, hd, ht]
  exact nodup_getC_compress_self _ _ _ _ h1 h2

theorem getCtxsRaises_false {m : Mem} (hI : Inv0 m) {t : Triple} (h : t ∈ m.spo) :
    getCtxsRaises m t = false := by
  have := hI.dflt_some t h
  simp [getCtxsRaises, this]

theorem hasCtx_iff (m : Mem) (t : Triple) (g : Nat) : hasCtx m t (some g) = true ↔ InG m t g := by
  simp [hasCtx, InG]

/-! ### `add` -/

theorem add_present {m : Mem} (hI : Inv m) {t : Triple} (c : Nat) (ht : t ∈ m.spo) :
    Inv (addTripleContext m t true c) ∧
      ∀ t' c', InG (addTripleContext m t true c) t' c' ↔ (InG m t' c' ∨ (t' = t ∧ c' = c)) := by
  obtain ⟨d0, hd0⟩ := Option.isSome_iff_exists.mp (hI.dflt_some t ht)
  have hset : setDflt m.dflt (newTripleCtx m t true (some c)) = m.dflt := by simp [setDflt, hd0]
  have hd : (addTripleContext m t true c).dflt = m.dflt := by simp [addTripleContext, hset]
  have htc : (addTripleContext m t true c).tctx
      = compress m.tctx m.dflt t (newTripleCtx m t true (some c)) := by simp [addTripleContext, hset]
  obtain ⟨hoth, hself⟩ := getCtxs_upd hd htc
  have hmemtc : ∀ x, x ∈ newTripleCtx m t true (some c) ↔ (x = none ∨ x = some c ∨ x ∈ getCtxs m t) := by
    intro x; simp [newTripleCtx, mem_sinsert]
  have hndtc : (newTripleCtx m t true (some c)).Nodup := by
    simp only [newTripleCtx, if_true]
    exact nodup_sinsert (nodup_sinsert (hI.ctxs_nd t))
  have hT : ∀ k x, x ∈ ctxTget (addTripleContext m t true c) k ↔
      (x ∈ ctxTget m k ∨ ((k = none ∨ k = some c) ∧ x = t)) := by
    intro k x
    simp only [ctxTget, addTripleContext, mem_getT_ctxTadd]
    constructor
    · rintro ((h | ⟨h1, h2⟩) | ⟨h1, h2⟩)
      · exact Or.inl h
      · exact Or.inr ⟨Or.inl h1, h2⟩
      · exact Or.inr ⟨Or.inr h1, h2⟩
    · rintro (h | ⟨h1 | h1, h2⟩)
      · exact Or.inl (Or.inl h)
      · exact Or.inl (Or.inr ⟨h1, h2⟩)
      · exact Or.inr ⟨h1, h2⟩
  have hctx : ∀ t' x, x ∈ getCtxs (addTripleContext m t true c) t' ↔
      (x ∈ getCtxs m t' ∨ (t' = t ∧ (x = none ∨ x = some c))) := by
    intro t' x
    by_cases e : t' = t
    · subst e
      rw [hself, hmemtc]
      constructor
      · rintro (h | h | h)
        · exact Or.inr ⟨rfl, Or.inl h⟩
        · exact Or.inr ⟨rfl, Or.inr h⟩
        · exact Or.inl h
      · rintro (h | ⟨_, h | h⟩)
        · exact Or.inr (Or.inr h)
        · exact Or.inl h
        · exact Or.inr (Or.inl h)
    · rw [hoth t' e]; simp [e]
  constructor
  · refine
      { err := ?_, nd_spo := hI.nd_spo, nd_pos := hI.nd_pos, nd_osp := hI.nd_osp, pos_iff := hI.pos_iff,
        osp_iff := hI.osp_iff, dflt_some := ?_, dflt_ok := ?_, tctx_in := ?_, ctxs_nd := ?_, ctx_ok := ?_,
        ctxT_nd := ?_, ctxT_none := ?_, ctxT_iff := ?_ }
    · simp [addTripleContext, hI.err, getCtxsRaises_false hI.toInv0 ht, hI.ctxT_none]
    · intro t' h; rw [hd]; exact hI.dflt_some t' h
    · intro d h; rw [hd] at h; exact hI.dflt_ok d h
    · intro t' h
      have e : t' ≠ t := fun e => h (e ▸ ht)
      rw [htc, alookup_compress_other _ _ _ _ _ e]
      exact hI.tctx_in t' h
    · intro t'
      by_cases e : t' = t
      · subst e
        exact getCtxs_upd_nodup hd htc hndtc (fun d h => (hI.dflt_ok d h).2)
      · rw [hoth t' e]; exact hI.ctxs_nd t'
    · intro k
      simp only [ctxTget, addTripleContext]
      exact nodup_getT_ctxTadd _ _ _ _ (nodup_getT_ctxTadd _ _ _ _ (hI.ctxT_nd k))
    · simp only [addTripleContext]
      exact isSome_alookup_ctxTadd _ _ _ _ (isSome_alookup_ctxTadd _ _ _ _ hI.ctxT_none)
    · intro k x
      rw [hT, hctx, hI.ctxT_iff]
      show _ ↔ (x ∈ m.spo ∧ _)
      constructor
      · rintro (⟨h1, h2⟩ | ⟨h1, h2⟩)
        · exact ⟨h1, Or.inl h2⟩
        · subst h2; exact ⟨ht, Or.inr ⟨rfl, h1⟩⟩
      · rintro ⟨h1, h2 | ⟨h2, h3⟩⟩
        · exact Or.inl ⟨h1, h2⟩
        · exact Or.inr ⟨h3, h2⟩
    · intro t' h
      have := hI.ctx_ok t' h
      refine ⟨(hctx t' none).2 (Or.inl this.1), ?_⟩
      obtain ⟨c0, hc0⟩ := this.2
      exact ⟨c0, (hctx t' (some c0)).2 (Or.inl hc0)⟩
  · intro t' c'
    unfold InG
    rw [hctx]
    show (t' ∈ m.spo ∧ _) ↔ _
    constructor
    · rintro ⟨h1, h2 | ⟨h2, h3⟩⟩
      · exact Or.inl ⟨h1, h2⟩
      · rcases h3 with h3 | h3
        · cases h3
        · injection h3 with h3; exact Or.inr ⟨h2, h3⟩
    · rintro (⟨h1, h2⟩ | ⟨h1, h2⟩)
      · exact ⟨h1, Or.inl h2⟩
      · subst h1; subst h2; exact ⟨ht, Or.inr ⟨rfl, Or.inr rfl⟩⟩

theorem nodup_getC {l : List (Triple × List Ctx)} {d : Option (List Ctx)}
    (h1 : ∀ t cs, alookup l t = some cs → cs.Nodup) (h2 : ∀ d0, d = some d0 → d0.Nodup) (t : Triple) :
    (getC l d t).Nodup := by
  unfold getC
  cases hl : alookup l t with
  | some cs => exact h1 t cs hl
  | none =>
    cases d with
    | none => simp
    | some d0 => exact h2 d0 rfl

theorem Inv0.entry_nd {m : Mem} (hI : Inv0 m) : ∀ t cs, alookup m.tctx t = some cs → cs.Nodup := by
  intro t cs h
  have := hI.ctxs_nd t
  simpa [getCtxs, getC, h] using this

theorem add_absent {m : Mem} (hI : Inv m) {t : Triple} (c : Nat) (ht : t ∉ m.spo) :
    Inv (m.addCore t c) ∧ ∀ t' c', InG (m.addCore t c) t' c' ↔ (InG m t' c' ∨ (t' = t ∧ c' = c)) := by
  have hspo : (m.addCore t c).spo = m.spo ++ [t] := by simp [Mem.addCore, ht, addTripleContext]
  have hpos : (m.addCore t c).pos = sinsert m.pos t := by simp [Mem.addCore, ht]
  have hosp : (m.addCore t c).osp = sinsert m.osp t := by simp [Mem.addCore, ht]
  have hdf : (m.addCore t c).dflt = setDflt m.dflt [some c, none] := by
    simp [Mem.addCore, ht, addTripleContext, newTripleCtx]
  have htc : (m.addCore t c).tctx = compress m.tctx (setDflt m.dflt [some c, none]) t [some c, none] := by
    simp [Mem.addCore, ht, addTripleContext, newTripleCtx]
  have hcT : (m.addCore t c).ctxT = ctxTadd (ctxTadd m.ctxT none t) (some c) t := by
    simp [Mem.addCore, ht, addTripleContext]
  have herr : (m.addCore t c).err = false := by
    simp [Mem.addCore, ht, addTripleContext, hI.err, hI.ctxT_none]
  have hmemspo : ∀ x, x ∈ (m.addCore t c).spo ↔ (x ∈ m.spo ∨ x = t) := by
    intro x; rw [hspo]; simp
  have hself : ∀ x, x ∈ getCtxs (m.addCore t c) t ↔ (x = some c ∨ x = none) := by
    intro x
    simp only [getCtxs, hdf, htc]
    rw [mem_getC_compress_self]; simp
  have hpres : ∀ t', t' ∈ m.spo → getCtxs (m.addCore t c) t' = getCtxs m t' := by
    intro t' h
    have e : t' ≠ t := fun e => ht (e ▸ h)
    obtain ⟨d0, hd0⟩ := Option.isSome_iff_exists.mp (hI.dflt_some t' h)
    simp only [getCtxs, hdf, htc]
    rw [getC_compress_other _ _ _ _ _ e]
    simp [setDflt, hd0]
  have hdok : ∀ d, (m.addCore t c).dflt = some d → none ∈ d ∧ d.Nodup := by
    intro d h
    rw [hdf] at h
    cases hm : m.dflt with
    | none =>
      simp only [setDflt, hm, Option.some.injEq] at h
      subst h; simp
    | some d0 =>
      simp only [setDflt, hm, Option.some.injEq] at h
      subst h; exact hI.dflt_ok _ hm
  have hT : ∀ k x, x ∈ ctxTget (m.addCore t c) k ↔
      (x ∈ ctxTget m k ∨ ((k = none ∨ k = some c) ∧ x = t)) := by
    intro k x
    simp only [ctxTget, hcT, mem_getT_ctxTadd]
    constructor
    · rintro ((h | ⟨h1, h2⟩) | ⟨h1, h2⟩)
      · exact Or.inl h
      · exact Or.inr ⟨Or.inl h1, h2⟩
      · exact Or.inr ⟨Or.inr h1, h2⟩
    · rintro (h | ⟨h1 | h1, h2⟩)
      · exact Or.inl (Or.inl h)
      · exact Or.inl (Or.inr ⟨h1, h2⟩)
      · exact Or.inr ⟨h1, h2⟩
  constructor
  · refine
      { err := herr, nd_spo := ?_, nd_pos := ?_, nd_osp := ?_, pos_iff := ?_,
        osp_iff := ?_, dflt_some := ?_, dflt_ok := hdok, tctx_in := ?_, ctxs_nd := ?_, ctx_ok := ?_,
        ctxT_nd := ?_, ctxT_none := ?_, ctxT_iff := ?_ }
    · rw [hspo, List.nodup_append]
      refine ⟨hI.nd_spo, by simp, ?_⟩
      intro a ha b hb
      simp at hb; subst hb
      intro e; exact ht (e ▸ ha)
    · rw [hpos]; exact nodup_sinsert hI.nd_pos
    · rw [hosp]; exact nodup_sinsert hI.nd_osp
    · intro x; rw [hpos, hmemspo, mem_sinsert, hI.pos_iff]; exact or_comm
    · intro x; rw [hosp, hmemspo, mem_sinsert, hI.osp_iff]; exact or_comm
    · intro x _; rw [hdf]; cases m.dflt <;> simp [setDflt]
    · intro t' h
      rw [hmemspo] at h
      have e : t' ≠ t := fun e => h (Or.inr e)
      rw [htc, alookup_compress_other _ _ _ _ _ e]
      exact hI.tctx_in t' (fun h' => h (Or.inl h'))
    · intro t'
      by_cases e : t' = t
      · subst e
        simp only [getCtxs, hdf, htc]
        refine nodup_getC_compress_self _ _ _ _ (by simp) ?_
        intro d0 h
        exact (hdok d0 (by rw [hdf]; exact h)).2
      · simp only [getCtxs, hdf, htc]
        rw [getC_compress_other _ _ _ _ _ e]
        refine nodup_getC hI.toInv0.entry_nd ?_ t'
        intro d0 h
        exact (hdok d0 (by rw [hdf]; exact h)).2
    · intro k
      simp only [ctxTget, hcT]
      exact nodup_getT_ctxTadd _ _ _ _ (nodup_getT_ctxTadd _ _ _ _ (hI.ctxT_nd k))
    · rw [hcT]
      exact isSome_alookup_ctxTadd _ _ _ _ (isSome_alookup_ctxTadd _ _ _ _ hI.ctxT_none)
    · intro k x
      rw [hT, hmemspo, hI.ctxT_iff]
      constructor
      · rintro (⟨h1, h2⟩ | ⟨h1, h2⟩)
        · exact ⟨Or.inl h1, by rw [hpres x h1]; exact h2⟩
        · subst h2
          refine ⟨Or.inr rfl, (hself k).2 ?_⟩
          rcases h1 with h1 | h1
          · exact Or.inr h1
          · exact Or.inl h1
      · rintro ⟨h1 | h1, h2⟩
        · rw [hpres x h1] at h2; exact Or.inl ⟨h1, h2⟩
        · subst h1
          rcases (hself k).1 h2 with h | h
          · exact Or.inr ⟨Or.inr h, rfl⟩
          · exact Or.inr ⟨Or.inl h, rfl⟩
    · intro t' h
      rw [hmemspo] at h
      rcases h with h | h
      · rw [hpres t' h]; exact hI.ctx_ok t' h
      · subst h
        exact ⟨(hself none).2 (Or.inr rfl), c, (hself (some c)).2 (Or.inl rfl)⟩
  · intro t' c'
    unfold InG
    rw [hmemspo]
    constructor
    · rintro ⟨h1 | h1, h2⟩
      · rw [hpres t' h1] at h2; exact Or.inl ⟨h1, h2⟩
      · subst h1
        rcases (hself _).1 h2 with h | h
        · injection h with h; exact Or.inr ⟨rfl, h⟩
        · cases h
    · rintro (⟨h1, h2⟩ | ⟨h1, h2⟩)
      · exact ⟨Or.inl h1, by rw [hpres t' h1]; exact h2⟩
      · subst h1; subst h2
        exact ⟨Or.inr rfl, (hself _).2 (Or.inl rfl)⟩

/-- the index/context part of `Memory.add` keeps the invariant and adds exactly the pair (triple, graph) -/
theorem addCore_spec {m : Mem} (hI : Inv m) (t : Triple) (c : Nat) :
    Inv (m.addCore t c) ∧ ∀ t' c', InG (m.addCore t c) t' c' ↔ (InG m t' c' ∨ (t' = t ∧ c' = c)) := by
  by_cases ht : t ∈ m.spo
  · have : m.addCore t c = addTripleContext m t true c := by simp [Mem.addCore, ht]
    rw [this]; exact add_present hI c ht
  · exact add_absent hI c ht

theorem inv_register {m : Mem} (hI : Inv m) (c : Nat) : Inv (m.register c) :=
  { err := hI.err, nd_spo := hI.nd_spo, nd_pos := hI.nd_pos, nd_osp := hI.nd_osp, pos_iff := hI.pos_iff,
    osp_iff := hI.osp_iff, dflt_some := hI.dflt_some, dflt_ok := hI.dflt_ok, tctx_in := hI.tctx_in,
    ctxs_nd := hI.ctxs_nd, ctxT_nd := hI.ctxT_nd, ctxT_none := hI.ctxT_none, ctxT_iff := hI.ctxT_iff,
    ctx_ok := hI.ctx_ok }

/-- `Memory.add` keeps the invariant and adds exactly the pair (triple, graph) -/
theorem add_spec {m : Mem} (hI : Inv m) (t : Triple) (c : Nat) :
    Inv (m.add t c) ∧ ∀ t' c', InG (m.add t c) t' c' ↔ (InG m t' c' ∨ (t' = t ∧ c' = c)) :=
  addCore_spec (inv_register hI c) t c

end RV.C01
