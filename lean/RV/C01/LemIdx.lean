import RV.C01.NModel
import RV.C01.LemA
/-
  C01 helper lemmas, round g, part 1: one nested-dictionary index (`Idx`): well-formedness (unique keys at every
  level), `idxAdd` / `idxDel` / `idxHas`, the flattening `flat`, and the walks as filters of `flat`.
-/
namespace RV.C01
open RV

section Assoc
variable {ν : Type}

/-- the keys of a dictionary are unique -/
def KN (l : List (Nat × ν)) : Prop := (akeys l).Nodup

theorem kn_nil : KN ([] : List (Nat × ν)) := by simp [KN, akeys]

theorem kn_cons {k : Nat} {v : ν} {r : List (Nat × ν)} : KN ((k, v) :: r) ↔ (k ∉ akeys r ∧ KN r) := by
  simp [KN, akeys]

theorem mem_akeys_of_mem {l : List (Nat × ν)} {k : Nat} {v : ν} (h : (k, v) ∈ l) : k ∈ akeys l := by
  simp only [akeys, List.mem_map]; exact ⟨(k, v), h, rfl⟩

theorem alookup_mem {l : List (Nat × ν)} {k : Nat} {v : ν} (h : alookup l k = some v) : (k, v) ∈ l := by
  induction l with
  | nil => simp [alookup] at h
  | cons a r ih =>
    obtain ⟨k0, v0⟩ := a
    by_cases e : k0 = k
    · subst e; simp [alookup] at h; subst h; simp
    · simp [alookup, e] at h; exact List.mem_cons_of_mem _ (ih h)

theorem alookup_of_mem {l : List (Nat × ν)} (hk : KN l) {k : Nat} {v : ν} (h : (k, v) ∈ l) :
    alookup l k = some v := by
  induction l with
  | nil => simp at h
  | cons a r ih =>
    obtain ⟨k0, v0⟩ := a
    rw [kn_cons] at hk
    rcases List.mem_cons.1 h with h | h
    · injection h with h1 h2; subst h1; subst h2; simp [alookup]
    · have : k0 ≠ k := fun e => hk.1 (e ▸ mem_akeys_of_mem h)
      simp [alookup, this, ih hk.2 h]

theorem alookup_none_of_not_mem {l : List (Nat × ν)} {k : Nat} (h : k ∉ akeys l) : alookup l k = none := by
  induction l with
  | nil => rfl
  | cons a r ih =>
    obtain ⟨k0, v0⟩ := a
    simp only [akeys, List.map_cons, List.mem_cons, not_or] at h
    have : k0 ≠ k := fun e => h.1 e.symm
    simp only [alookup, this, if_false]
    exact ih h.2

theorem mem_akeys_of_alookup {l : List (Nat × ν)} {k : Nat} {v : ν} (h : alookup l k = some v) : k ∈ akeys l :=
  mem_akeys_of_mem (alookup_mem h)

theorem akeys_aset (l : List (Nat × ν)) (k : Nat) (v : ν) :
    akeys (aset l k v) = if k ∈ akeys l then akeys l else akeys l ++ [k] := by
  induction l with
  | nil => simp [aset, akeys]
  | cons a r ih =>
    obtain ⟨k0, v0⟩ := a
    by_cases e : k0 = k
    · subst e; simp [aset, akeys]
    · have e' : ¬ k = k0 := fun h => e h.symm
      simp only [aset, e, if_false, akeys, List.map_cons, List.mem_cons, e', false_or] at ih ⊢
      rw [ih]; split <;> simp_all

theorem kn_aset {l : List (Nat × ν)} (h : KN l) (k : Nat) (v : ν) : KN (aset l k v) := by
  unfold KN at *
  rw [akeys_aset]
  split
  · exact h
  · next hk =>
    rw [List.nodup_append]
    refine ⟨h, by simp, ?_⟩
    intro a ha b hb
    simp at hb; subst hb
    intro e; subst e; exact hk ha

theorem mem_aset {l : List (Nat × ν)} {k : Nat} {v : ν} {x : Nat × ν} (h : x ∈ aset l k v) :
    x = (k, v) ∨ x ∈ l := by
  induction l with
  | nil => simp [aset] at h; exact Or.inl h
  | cons a r ih =>
    obtain ⟨k0, v0⟩ := a
    by_cases e : k0 = k
    · subst e
      simp only [aset, if_true, List.mem_cons] at h
      rcases h with h | h
      · exact Or.inl h
      · exact Or.inr (List.mem_cons_of_mem _ h)
    · simp only [aset, e, if_false, List.mem_cons] at h
      rcases h with h | h
      · exact Or.inr (by simp [h])
      · rcases ih h with h | h
        · exact Or.inl h
        · exact Or.inr (List.mem_cons_of_mem _ h)

end Assoc

/-! ### well-formed indexes -/

structure WF2 (d : List (Nat × List Nat)) : Prop where
  kn : KN d
  leaf : ∀ b l, (b, l) ∈ d → l.Nodup

structure WFI (i : Idx) : Prop where
  kn : KN i
  sub : ∀ a d, (a, d) ∈ i → WF2 d

theorem wf2_nil : WF2 [] := ⟨kn_nil, by simp⟩
theorem wfi_nil : WFI [] := ⟨kn_nil, by simp⟩

theorem wf2_lvl2 {i : Idx} (h : WFI i) (a : Nat) : WF2 (lvl2 i a) := by
  unfold lvl2
  cases e : alookup i a with
  | none => exact wf2_nil
  | some d => exact h.sub a d (alookup_mem e)

theorem nodup_leaf {d : List (Nat × List Nat)} (h : WF2 d) (b : Nat) :
    (match alookup d b with | some l => l | none => []).Nodup := by
  cases e : alookup d b with
  | none => simp
  | some l => exact h.leaf b l (alookup_mem e)

theorem nodup_lvl3 {i : Idx} (h : WFI i) (a b : Nat) : (lvl3 i a b).Nodup := nodup_leaf (wf2_lvl2 h a) b

theorem wf2_aset {d : List (Nat × List Nat)} (h : WF2 d) (b : Nat) {l : List Nat} (hl : l.Nodup) :
    WF2 (aset d b l) := by
  refine ⟨kn_aset h.kn b l, ?_⟩
  intro b' l' hm
  rcases mem_aset hm with e | e
  · injection e with _ e2; subst e2; exact hl
  · exact h.leaf b' l' e

theorem wfi_aset {i : Idx} (h : WFI i) (a : Nat) {d : List (Nat × List Nat)} (hd : WF2 d) : WFI (aset i a d) := by
  refine ⟨kn_aset h.kn a d, ?_⟩
  intro a' d' hm
  rcases mem_aset hm with e | e
  · injection e with _ e2; subst e2; exact hd
  · exact h.sub a' d' e

theorem wfi_idxAdd {i : Idx} (h : WFI i) (a b c : Nat) : WFI (idxAdd i a b c) :=
  wfi_aset h a (wf2_aset (wf2_lvl2 h a) b (nodup_sinsert (nodup_lvl3 h a b)))

theorem wfi_idxDel {i : Idx} (h : WFI i) (a b c : Nat) : WFI (idxDel i a b c) := by
  unfold idxDel
  split
  · exact wfi_aset h a (wf2_aset (wf2_lvl2 h a) b (nodup_sremove (nodup_lvl3 h a b)))
  · exact h

/-! ### lookups after `idxAdd` / `idxDel` -/

theorem lvl2_aset (i : Idx) (a a' : Nat) (d : List (Nat × List Nat)) :
    lvl2 (aset i a d) a' = if a = a' then d else lvl2 i a' := by
  unfold lvl2
  rw [alookup_aset]
  by_cases e : a = a' <;> simp [e]

theorem lvl3_aset2 (i : Idx) (a b a' b' : Nat) (l : List Nat) :
    lvl3 (aset i a (aset (lvl2 i a) b l)) a' b' = if a = a' ∧ b = b' then l else lvl3 i a' b' := by
  unfold lvl3
  rw [lvl2_aset]
  by_cases ea : a = a'
  · subst ea
    simp only [if_true, true_and]
    rw [alookup_aset]
    by_cases eb : b = b' <;> simp [eb]
  · simp [ea]

theorem idxHas_idxAdd (i : Idx) (a b c a' b' c' : Nat) :
    idxHas (idxAdd i a b c) a' b' c' = true ↔ (idxHas i a' b' c' = true ∨ (a' = a ∧ b' = b ∧ c' = c)) := by
  simp only [idxHas, idxAdd, lvl3_aset2, decide_eq_true_eq]
  by_cases e : a = a' ∧ b = b'
  · obtain ⟨rfl, rfl⟩ := e
    simp only [and_self, if_true, mem_sinsert, true_and]
    exact or_comm
  · simp only [e, if_false]
    constructor
    · exact Or.inl
    · rintro (h | ⟨h1, h2, _⟩)
      · exact h
      · exact (e ⟨h1.symm, h2.symm⟩).elim

theorem idxHas_idxDel (i : Idx) (a b c a' b' c' : Nat) :
    idxHas (idxDel i a b c) a' b' c' = true ↔ (idxHas i a' b' c' = true ∧ ¬ (a' = a ∧ b' = b ∧ c' = c)) := by
  unfold idxDel
  by_cases hh : idxHas i a b c = true
  · simp only [hh, if_true]
    simp only [idxHas, lvl3_aset2, decide_eq_true_eq]
    by_cases e : a = a' ∧ b = b'
    · obtain ⟨rfl, rfl⟩ := e
      simp only [and_self, if_true, mem_sremove, true_and]
      exact and_comm
    · simp only [e, if_false]
      constructor
      · intro h; exact ⟨h, fun h' => e ⟨h'.1.symm, h'.2.1.symm⟩⟩
      · exact And.left
  · simp only [hh]
    constructor
    · intro h
      refine ⟨h, ?_⟩
      rintro ⟨rfl, rfl, rfl⟩
      exact hh h
    · exact And.left

/-! ### `flat` -/

theorem mem_flat2 {a : Nat} {d : List (Nat × List Nat)} {x : Triple} :
    x ∈ flat2 a d ↔ ∃ b l, (b, l) ∈ d ∧ x.1 = a ∧ x.2.1 = b ∧ x.2.2 ∈ l := by
  induction d with
  | nil => simp [flat2]
  | cons e r ih =>
    obtain ⟨b0, l0⟩ := e
    simp only [flat2, List.mem_append, List.mem_map, ih, List.mem_cons]
    constructor
    · rintro (⟨c, hc, rfl⟩ | ⟨b, l, h1, h2⟩)
      · exact ⟨b0, l0, Or.inl rfl, rfl, rfl, hc⟩
      · exact ⟨b, l, Or.inr h1, h2⟩
    · rintro ⟨b, l, h1 | h1, h2, h3, h4⟩
      · injection h1 with e1 e2; subst e1; subst e2
        obtain ⟨x1, x2, x3⟩ := x
        simp only at h2 h3 h4
        subst h2; subst h3
        exact Or.inl ⟨x3, h4, rfl⟩
      · exact Or.inr ⟨b, l, h1, h2, h3, h4⟩

theorem mem_flat {i : Idx} {x : Triple} : x ∈ flat i ↔ ∃ a d, (a, d) ∈ i ∧ x ∈ flat2 a d := by
  induction i with
  | nil => simp [flat]
  | cons e r ih =>
    obtain ⟨a0, d0⟩ := e
    simp only [flat, List.mem_append, ih, List.mem_cons]
    constructor
    · rintro (h | ⟨a, d, h1, h2⟩)
      · exact ⟨a0, d0, Or.inl rfl, h⟩
      · exact ⟨a, d, Or.inr h1, h2⟩
    · rintro ⟨a, d, h1 | h1, h2⟩
      · injection h1 with e1 e2; subst e1; subst e2; exact Or.inl h2
      · exact Or.inr ⟨a, d, h1, h2⟩

theorem fst_of_mem_flat2 {a : Nat} {d : List (Nat × List Nat)} {x : Triple} (h : x ∈ flat2 a d) :
    x.1 = a ∧ x.2.1 ∈ akeys d := by
  obtain ⟨b, l, h1, h2, h3, _⟩ := mem_flat2.1 h
  exact ⟨h2, h3 ▸ mem_akeys_of_mem h1⟩

theorem fst_of_mem_flat {i : Idx} {x : Triple} (h : x ∈ flat i) : x.1 ∈ akeys i := by
  obtain ⟨a, d, h1, h2⟩ := mem_flat.1 h
  exact (fst_of_mem_flat2 h2).1 ▸ mem_akeys_of_mem h1

theorem lvl3_eq {i : Idx} {a b : Nat} {d : List (Nat × List Nat)} {l : List Nat}
    (h1 : alookup i a = some d) (h2 : alookup d b = some l) : lvl3 i a b = l := by
  simp [lvl3, lvl2, h1, h2]

theorem mem_flat_iff {i : Idx} (h : WFI i) (a b c : Nat) : (a, b, c) ∈ flat i ↔ idxHas i a b c = true := by
  have hh : idxHas i a b c = true ↔ c ∈ lvl3 i a b := by simp [idxHas]
  rw [hh]
  constructor
  · intro hm
    obtain ⟨a', d, h1, h2⟩ := mem_flat.1 hm
    obtain ⟨b', l, h3, h4, h5, h6⟩ := mem_flat2.1 h2
    simp only at h4 h5 h6
    subst h4; subst h5
    rw [lvl3_eq (alookup_of_mem h.kn h1) (alookup_of_mem (h.sub _ _ h1).kn h3)]
    exact h6
  · intro hm
    cases e1 : alookup i a with
    | none => simp [lvl3, lvl2, e1, alookup] at hm
    | some d =>
      cases e2 : alookup d b with
      | none => simp [lvl3, lvl2, e1, e2] at hm
      | some l =>
        rw [lvl3_eq e1 e2] at hm
        exact mem_flat.2 ⟨a, d, alookup_mem e1, mem_flat2.2 ⟨b, l, alookup_mem e2, rfl, rfl, hm⟩⟩

theorem nodup_map_inj {α β : Type} {f : α → β} (hf : ∀ x y, f x = f y → x = y) {l : List α} (h : l.Nodup) :
    (l.map f).Nodup := by
  induction l with
  | nil => simp
  | cons a r ih =>
    rw [List.nodup_cons] at h
    simp only [List.map_cons, List.nodup_cons, List.mem_map, not_exists, not_and]
    refine ⟨?_, ih h.2⟩
    intro x hx e
    exact h.1 (hf _ _ e ▸ hx)

theorem nodup_flat2 {d : List (Nat × List Nat)} (h : WF2 d) (a : Nat) : (flat2 a d).Nodup := by
  induction d with
  | nil => simp [flat2]
  | cons e r ih =>
    obtain ⟨b0, l0⟩ := e
    have hk := kn_cons.1 h.kn
    have hr : WF2 r := ⟨hk.2, fun b l hm => h.leaf b l (List.mem_cons_of_mem _ hm)⟩
    simp only [flat2]
    rw [List.nodup_append]
    refine ⟨?_, ih hr, ?_⟩
    · refine nodup_map_inj ?_ (h.leaf b0 l0 (by simp))
      intro c c' hcc; injection hcc with _ h2; injection h2
    · intro x hx y hy e
      subst e
      simp only [List.mem_map] at hx
      obtain ⟨c, _, rfl⟩ := hx
      exact hk.1 (fst_of_mem_flat2 hy).2

theorem nodup_flat {i : Idx} (h : WFI i) : (flat i).Nodup := by
  induction i with
  | nil => simp [flat]
  | cons e r ih =>
    obtain ⟨a0, d0⟩ := e
    have hk := kn_cons.1 h.kn
    have hr : WFI r := ⟨hk.2, fun a d hm => h.sub a d (List.mem_cons_of_mem _ hm)⟩
    simp only [flat]
    rw [List.nodup_append]
    refine ⟨nodup_flat2 (h.sub a0 d0 (by simp)) a0, ih hr, ?_⟩
    intro x hx y hy e
    subst e
    exact hk.1 ((fst_of_mem_flat2 hx).1 ▸ fst_of_mem_flat hy)

end RV.C01
