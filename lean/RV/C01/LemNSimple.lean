import RV.C01.LemNest
/-
  C01 helper lemmas, round g, part 4: `NSMem` (`SimpleMemory` over nested dictionaries) against `SMem`.
-/
namespace RV.C01
open RV

structure NSWF (n : NSMem) : Prop where
  spo : WFI n.ispo
  pos : WFI n.ipos
  osp : WFI n.iosp

theorem nswf_init : NSWF NSMem.init := ⟨wfi_nil, wfi_nil, wfi_nil⟩

theorem mem_map_rotPOS {i : Idx} (h : WFI i) (t : Triple) :
    t ∈ (flat i).map rotPOS ↔ idxHas i t.2.1 t.2.2 t.1 = true := by
  rw [← mem_flat_iff h]
  simp only [List.mem_map]
  constructor
  · rintro ⟨x, hx, rfl⟩; exact hx
  · intro hx; exact ⟨_, hx, rfl⟩

theorem mem_map_rotOSP {i : Idx} (h : WFI i) (t : Triple) :
    t ∈ (flat i).map rotOSP ↔ idxHas i t.2.2 t.1 t.2.1 = true := by
  rw [← mem_flat_iff h]
  simp only [List.mem_map]
  constructor
  · rintro ⟨x, hx, rfl⟩; exact hx
  · intro hx; exact ⟨_, hx, rfl⟩

theorem bool_eq_decide {b : Bool} {p : Prop} [Decidable p] (h : p ↔ b = true) : b = decide p := by
  by_cases e : b = true
  · simp [e, h.2 e]
  · have : ¬ p := fun hp => e (h.1 hp)
    simp [e, this]

theorem striples_toSMem {n : NSMem} (h : NSWF n) (pat : Pat) : n.triples pat = n.toSMem.triples pat := by
  rw [striples_eq]
  exact idxCands_eq h.spo h.pos h.osp n.toSMem.idx rfl rfl rfl pat

theorem sdel_toSMem {n : NSMem} (h : NSWF n) (t : Triple) : (n.del t).toSMem = n.toSMem.del t ∧ NSWF (n.del t) := by
  refine ⟨?_, ⟨wfi_idxDel h.spo _ _ _, wfi_idxDel h.pos _ _ _, wfi_idxDel h.osp _ _ _⟩⟩
  have e1 : flat (idxDel n.ispo t.1 t.2.1 t.2.2) = sremove n.toSMem.spo t := flat_idxDel h.spo _ _ _
  have e2 : (flat (idxDel n.ipos t.2.1 t.2.2 t.1)).map rotPOS = sremove n.toSMem.pos t := by
    rw [flat_idxDel h.pos]
    exact (sremove_map_inj rotPOS_inj (flat n.ipos) (t.2.1, t.2.2, t.1)).symm
  have e3 : (flat (idxDel n.iosp t.2.2 t.1 t.2.1)).map rotOSP = sremove n.toSMem.osp t := by
    rw [flat_idxDel h.osp]
    exact (sremove_map_inj rotOSP_inj (flat n.iosp) (t.2.2, t.1, t.2.1)).symm
  have b1 : idxHas n.ispo t.1 t.2.1 t.2.2 = decide (t ∈ n.toSMem.spo) :=
    bool_eq_decide (mem_flat_iff h.spo t.1 t.2.1 t.2.2)
  have b2 : idxHas n.ipos t.2.1 t.2.2 t.1 = decide (t ∈ n.toSMem.pos) := bool_eq_decide (mem_map_rotPOS h.pos t)
  have b3 : idxHas n.iosp t.2.2 t.1 t.2.1 = decide (t ∈ n.toSMem.osp) := bool_eq_decide (mem_map_rotOSP h.osp t)
  simp only [NSMem.del, SMem.del, NSMem.toSMem, e1, e2, e3, b1, b2, b3]

theorem sdel_fold_toSMem : ∀ (l : List Triple) (n : NSMem), NSWF n →
    (l.foldl NSMem.del n).toSMem = l.foldl SMem.del n.toSMem ∧ NSWF (l.foldl NSMem.del n) := by
  intro l
  induction l with
  | nil => intro n h; exact ⟨rfl, h⟩
  | cons t r ih =>
    intro n h
    obtain ⟨e1, h1⟩ := sdel_toSMem h t
    obtain ⟨e2, h2⟩ := ih _ h1
    simp only [List.foldl_cons]
    rw [e2, e1]
    exact ⟨rfl, h2⟩

theorem sremove_toSMem {n : NSMem} (h : NSWF n) (pat : Pat) :
    (n.remove pat).toSMem = n.toSMem.remove pat ∧ NSWF (n.remove pat) := by
  unfold NSMem.remove SMem.remove
  rw [striples_toSMem h]
  exact sdel_fold_toSMem _ n h

structure SEquiv (m m' : SMem) : Prop where
  spo : ∀ t, t ∈ m.spo ↔ t ∈ m'.spo
  pos : ∀ t, t ∈ m.pos ↔ t ∈ m'.pos
  osp : ∀ t, t ∈ m.osp ↔ t ∈ m'.osp
  err : m.err = m'.err

theorem SEquiv.refl (m : SMem) : SEquiv m m := ⟨fun _ => Iff.rfl, fun _ => Iff.rfl, fun _ => Iff.rfl, rfl⟩
theorem SEquiv.of_eq {m m' : SMem} (h : m = m') : SEquiv m m' := h ▸ SEquiv.refl m
theorem SEquiv.trans {a b c : SMem} (h1 : SEquiv a b) (h2 : SEquiv b c) : SEquiv a c :=
  ⟨fun t => (h1.spo t).trans (h2.spo t), fun t => (h1.pos t).trans (h2.pos t), fun t => (h1.osp t).trans (h2.osp t),
    h1.err.trans h2.err⟩

theorem sadd_congr {m m' : SMem} (h : SEquiv m m') (t : Triple) : SEquiv (m.add t) (m'.add t) :=
  ⟨fun x => by simp only [SMem.add, mem_sinsert, h.spo x], fun x => by simp only [SMem.add, mem_sinsert, h.pos x],
    fun x => by simp only [SMem.add, mem_sinsert, h.osp x], h.err⟩

theorem saddN_congr (g : Nat) : ∀ (qs : List Quad) (m m' : SMem), SEquiv m m' → SEquiv (m.addN g qs) (m'.addN g qs) := by
  intro qs
  induction qs with
  | nil => intro m m' h; exact h
  | cons q r ih =>
    intro m m' h
    obtain ⟨t, c, isG⟩ := q
    simp only [SMem.addN]
    split
    · exact ih _ _ (sadd_congr h t)
    · exact ih _ _ h

theorem siadd_congr : ∀ (ts : List Triple) (m m' : SMem), SEquiv m m' → SEquiv (m.iadd ts) (m'.iadd ts) := by
  intro ts
  induction ts with
  | nil => intro m m' h; exact h
  | cons t r ih => intro m m' h; exact ih _ _ (sadd_congr h t)

theorem sadd_equiv {n : NSMem} (h : NSWF n) (t : Triple) : SEquiv (n.toSMem.add t) (n.add t).toSMem ∧ NSWF (n.add t) := by
  have w1 : WFI (idxAdd n.ispo t.1 t.2.1 t.2.2) := wfi_idxAdd h.spo _ _ _
  have w2 : WFI (idxAdd n.ipos t.2.1 t.2.2 t.1) := wfi_idxAdd h.pos _ _ _
  have w3 : WFI (idxAdd n.iosp t.2.2 t.1 t.2.1) := wfi_idxAdd h.osp _ _ _
  refine ⟨⟨?_, ?_, ?_, rfl⟩, ⟨w1, w2, w3⟩⟩
  · intro x
    obtain ⟨x1, x2, x3⟩ := x
    show (x1, x2, x3) ∈ sinsert (flat n.ispo) t ↔ (x1, x2, x3) ∈ flat (idxAdd n.ispo t.1 t.2.1 t.2.2)
    rw [mem_sinsert, mem_flat_iff w1, idxHas_idxAdd, ← mem_flat_iff h.spo]
    constructor
    · rintro (h1 | h1)
      · subst h1; exact Or.inr ⟨rfl, rfl, rfl⟩
      · exact Or.inl h1
    · rintro (h1 | ⟨h1, h2, h3⟩)
      · exact Or.inr h1
      · left; subst h1; subst h2; subst h3; rfl
  · intro x
    obtain ⟨x1, x2, x3⟩ := x
    show (x1, x2, x3) ∈ sinsert ((flat n.ipos).map rotPOS) t ↔ (x1, x2, x3) ∈ (flat (idxAdd n.ipos t.2.1 t.2.2 t.1)).map rotPOS
    rw [mem_sinsert, mem_map_rotPOS w2, idxHas_idxAdd, mem_map_rotPOS h.pos]
    constructor
    · rintro (h1 | h1)
      · subst h1; exact Or.inr ⟨rfl, rfl, rfl⟩
      · exact Or.inl h1
    · rintro (h1 | ⟨h1, h2, h3⟩)
      · exact Or.inr h1
      · left; simp only at h1 h2 h3; subst h1; subst h2; subst h3; rfl
  · intro x
    obtain ⟨x1, x2, x3⟩ := x
    show (x1, x2, x3) ∈ sinsert ((flat n.iosp).map rotOSP) t ↔ (x1, x2, x3) ∈ (flat (idxAdd n.iosp t.2.2 t.1 t.2.1)).map rotOSP
    rw [mem_sinsert, mem_map_rotOSP w3, idxHas_idxAdd, mem_map_rotOSP h.osp]
    constructor
    · rintro (h1 | h1)
      · subst h1; exact Or.inr ⟨rfl, rfl, rfl⟩
      · exact Or.inl h1
    · rintro (h1 | ⟨h1, h2, h3⟩)
      · exact Or.inr h1
      · left; simp only at h1 h2 h3; subst h1; subst h2; subst h3; rfl

theorem saddN_equiv (g : Nat) : ∀ (qs : List Quad) (n : NSMem), NSWF n →
    SEquiv (n.toSMem.addN g qs) (n.addN g qs).toSMem ∧ NSWF (n.addN g qs) := by
  intro qs
  induction qs with
  | nil => intro n h; exact ⟨SEquiv.refl _, h⟩
  | cons q r ih =>
    intro n h
    obtain ⟨t, c, isG⟩ := q
    simp only [SMem.addN, NSMem.addN]
    split
    · obtain ⟨e1, h1⟩ := sadd_equiv h t
      obtain ⟨e2, h2⟩ := ih _ h1
      exact ⟨(saddN_congr g r _ _ e1).trans e2, h2⟩
    · exact ih _ h

theorem siadd_equiv : ∀ (ts : List Triple) (n : NSMem), NSWF n →
    SEquiv (n.toSMem.iadd ts) (n.iadd ts).toSMem ∧ NSWF (n.iadd ts) := by
  intro ts
  induction ts with
  | nil => intro n h; exact ⟨SEquiv.refl _, h⟩
  | cons t r ih =>
    intro n h
    obtain ⟨e1, h1⟩ := sadd_equiv h t
    obtain ⟨e2, h2⟩ := ih _ h1
    exact ⟨(siadd_congr r _ _ e1).trans e2, h2⟩

theorem sisub_toSMem : ∀ (ts : List Triple) (n : NSMem), NSWF n →
    (n.isub ts).toSMem = n.toSMem.isub ts ∧ NSWF (n.isub ts) := by
  intro ts
  induction ts with
  | nil => intro n h; exact ⟨rfl, h⟩
  | cons t r ih =>
    intro n h
    simp only [NSMem.isub, SMem.isub]
    obtain ⟨e1, h1⟩ := sremove_toSMem h (some t.1, some t.2.1, some t.2.2)
    obtain ⟨e2, h2⟩ := ih _ h1
    rw [e2, e1]
    exact ⟨rfl, h2⟩

theorem sstep_equiv {n : NSMem} (h : NSWF n) (op : SOp) : SEquiv (n.toSMem.step op) (n.step op).toSMem ∧ NSWF (n.step op) := by
  cases op with
  | add t => exact sadd_equiv h t
  | addN g qs => exact saddN_equiv g qs n h
  | remove pat =>
    obtain ⟨e, hw⟩ := sremove_toSMem h pat
    exact ⟨SEquiv.of_eq e.symm, hw⟩
  | set t =>
    obtain ⟨e, hw⟩ := sremove_toSMem h (some t.1, some t.2.1, none)
    obtain ⟨e2, h2⟩ := sadd_equiv hw t
    simp only [SMem.step, NSMem.step, SMem.set, NSMem.set]
    rw [e] at e2
    exact ⟨e2, h2⟩
  | iadd ts => exact siadd_equiv ts n h
  | isub ts =>
    obtain ⟨e, hw⟩ := sisub_toSMem ts n h
    exact ⟨SEquiv.of_eq e.symm, hw⟩

theorem nodup_toSMem {n : NSMem} (h : NSWF n) : n.toSMem.spo.Nodup ∧ n.toSMem.pos.Nodup ∧ n.toSMem.osp.Nodup :=
  ⟨nodup_flat h.spo, nodup_map_inj rotPOS_inj (nodup_flat h.pos), nodup_map_inj rotOSP_inj (nodup_flat h.osp)⟩

theorem sinv_of_equiv {m m' : SMem} (hI : SInv m) (h : SEquiv m m') (n1 : m'.spo.Nodup) (n2 : m'.pos.Nodup)
    (n3 : m'.osp.Nodup) : SInv m' :=
  { err := h.err ▸ hI.err, nd_spo := n1, nd_pos := n2, nd_osp := n3
    pos_iff := fun t => ((h.pos t).symm.trans (hI.pos_iff t)).trans (h.spo t)
    osp_iff := fun t => ((h.osp t).symm.trans (hI.osp_iff t)).trans (h.spo t) }

end RV.C01
