import RV.C01.LemBin
/-
  C01 helper lemmas (entry point).  The lemmas are split over
    LemA      association lists, context-set equality, `getC` / `getT` under the store's updates
    LemMem    representation invariant `Inv`, abstraction `InG`, `add`
    LemRem    `__remove_triple_context`, the per-triple step of `remove`
    LemTri    pattern dispatch (`cands`, `triples`), the remove loop, `remove`
    LemOps    `Graph` operations: addN, set, +=, -=, new graphs of the binary operators
    LemSimple `SimpleMemory`
    LemIter   histories keep the invariant; generator interleaved with mutations
    LemBin    binary operators over operands of any store; `__iter__` under mutation = start snapshot
    LemStore  store-level API: remove(pattern, None), __all_contexts, contexts, add_graph, remove_graph
  Round g (imported by Props.lean directly; they build on this entry point):
    LemIdx    one nested-dictionary index: unique keys (`WFI`), `idxAdd` / `idxDel` / `idxHas`, `flat`
    LemIdx2   the eight walks = the filters of the flattening (as lists); `del` = `sremove` on the flattening
    LemNest   `NMem.toMem` commutes exactly with remove, up to index-list order with add (`MEquiv`); `Inv` transfers
    LemNSimple  the same for `NSMem` / `SMem`
    LemGen    the concrete generator `NGen`: keys of the first two levels only grow, soundness of every schedule,
              full run = `NMem.triples`; `triples_choices` glue
-/
