import RV.C01.Model
namespace RV.C01
end RV.C01
