import RV.C01.Model
/-
  C01 helper lemmas, part A: association lists, context-set equality, and the meaning
  functions `getC` (contexts of a triple) / `getT` (triples of a context) under the updates
  the store performs.
-/
namespace RV.C01
open RV

section Assoc
variable {κ ν : Type} [DecidableEq κ]

theorem alookup_aset (l : List (κ × ν)) (x y : κ) (v : ν) :
    alookup (aset l x v) y = if x = y then some v else alookup l y := by
  induction l with
  | nil => simp [aset, alookup]
  | cons a r ih =>
    obtain ⟨k, w⟩ := a
    by_cases hkx : k = x
    · subst hkx
      by_cases hky : k = y
      · simp [aset, alookup, hky]
      · simp [aset, alookup, hky]
    · by_cases hky : k = y
      · subst hky
        have : ¬ x = k := fun e => hkx e.symm
        simp [aset, alookup, hkx, this]
      · simp [aset, alookup, hkx, hky, ih]

theorem alookup_aerase (l : List (κ × ν)) (x y : κ) :
    alookup (aerase l x) y = if x = y then none else alookup l y := by
  induction l with
  | nil => simp [aerase, alookup]
  | cons a r ih =>
    obtain ⟨k, w⟩ := a
    by_cases hkx : k = x
    · subst hkx
      by_cases hky : k = y
      · subst hky; simpa [aerase] using ih
      · simp [aerase, alookup, hky, ih]
    · by_cases hky : k = y
      · subst hky
        have : ¬ x = k := fun e => hkx e.symm
        simp [aerase, alookup, hkx, this]
      · simp [aerase, alookup, hkx, hky, ih]

end Assoc

theorem ctxEq_iff (a b : List Ctx) : ctxEq a b = true ↔ ∀ x, x ∈ a ↔ x ∈ b := by
  simp only [ctxEq, Bool.and_eq_true, List.all_eq_true, decide_eq_true_eq]
  constructor
  · rintro ⟨h1, h2⟩ x; exact ⟨h1 x, h2 x⟩
  · intro h; exact ⟨fun x hx => (h x).1 hx, fun x hx => (h x).2 hx⟩

/-! ### `getC` under `compress` -/

theorem alookup_compress_other (l : List (Triple × List Ctx)) (d : Option (List Ctx)) (t t' : Triple)
    (tc : List Ctx) (h : t' ≠ t) : alookup (compress l d t tc) t' = alookup l t' := by
  have h' : ¬ t = t' := fun e => h e.symm
  by_cases hc : eqDflt tc d = true
  · simp [compress, hc, alookup_aerase, h']
  · simp [compress, hc, alookup_aset, h']

theorem getC_compress_other (l : List (Triple × List Ctx)) (d : Option (List Ctx)) (t t' : Triple)
    (tc : List Ctx) (h : t' ≠ t) : getC (compress l d t tc) d t' = getC l d t' := by
  unfold getC
  rw [alookup_compress_other l d t t' tc h]

theorem mem_getC_compress_self (l : List (Triple × List Ctx)) (d : Option (List Ctx)) (t : Triple)
    (tc : List Ctx) (x : Ctx) : x ∈ getC (compress l d t tc) d t ↔ x ∈ tc := by
  by_cases h : eqDflt tc d = true
  · cases d with
    | none => simp [eqDflt] at h
    | some d0 =>
      simp only [eqDflt] at h
      simp only [compress, eqDflt, h, getC, alookup_aerase, if_true]
      exact ((ctxEq_iff tc d0).1 h x).symm
  · simp [compress, h, getC, alookup_aset]

theorem nodup_getC_compress_self (l : List (Triple × List Ctx)) (d : Option (List Ctx)) (t : Triple)
    (tc : List Ctx) (h1 : tc.Nodup) (h2 : ∀ d0, d = some d0 → d0.Nodup) :
    (getC (compress l d t tc) d t).Nodup := by
  by_cases h : eqDflt tc d = true
  · cases d with
    | none => simp [eqDflt] at h
    | some d0 => simpa [compress, h, getC, alookup_aerase] using h2 d0 rfl
  · simpa [compress, h, getC, alookup_aset] using h1

/-- the explicit entry after `compress`, when the new set is not the default -/
theorem alookup_compress_self_ne (l : List (Triple × List Ctx)) (d : Option (List Ctx)) (t : Triple)
    (tc : List Ctx) (h : eqDflt tc d = false) : alookup (compress l d t tc) t = some tc := by
  simp [compress, h, alookup_aset]

/-! ### `getT` under `ctxTadd` / `ctxTdel` / `aerase` -/

theorem mem_getT_ctxTadd (l : List (Ctx × List Triple)) (k k' : Ctx) (t x : Triple) :
    x ∈ getT (ctxTadd l k t) k' ↔ x ∈ getT l k' ∨ (k' = k ∧ x = t) := by
  unfold ctxTadd getT
  cases hl : alookup l k with
  | none =>
    simp only [alookup_aset]
    by_cases hk : k = k'
    · subst hk; simp [hl]
    · have : ¬ k' = k := fun e => hk e.symm
      simp [hk, this]
  | some ts =>
    simp only [alookup_aset]
    by_cases hk : k = k'
    · subst hk; simp [hl, mem_sinsert, or_comm]
    · have : ¬ k' = k := fun e => hk e.symm
      simp [hk, this]

theorem nodup_getT_ctxTadd (l : List (Ctx × List Triple)) (k k' : Ctx) (t : Triple)
    (h : (getT l k').Nodup) : (getT (ctxTadd l k t) k').Nodup := by
  unfold ctxTadd getT at *
  cases hl : alookup l k with
  | none =>
    simp only [alookup_aset]
    by_cases hk : k = k'
    · subst hk; simp
    · simpa [hk] using h
  | some ts =>
    simp only [alookup_aset]
    by_cases hk : k = k'
    · subst hk
      simp only [if_true]
      rw [hl] at h
      exact nodup_sinsert h
    · simpa [hk] using h

theorem isSome_alookup_ctxTadd (l : List (Ctx × List Triple)) (k k' : Ctx) (t : Triple)
    (h : (alookup l k').isSome = true) : (alookup (ctxTadd l k t) k').isSome = true := by
  unfold ctxTadd
  cases hl : alookup l k with
  | none =>
    simp only [alookup_aset]
    by_cases hk : k = k'
    · simp [hk]
    · simpa [hk] using h
  | some ts =>
    simp only [alookup_aset]
    by_cases hk : k = k'
    · simp [hk]
    · simpa [hk] using h

theorem mem_getT_ctxTdel (l : List (Ctx × List Triple)) (k k' : Ctx) (t x : Triple) :
    x ∈ getT (ctxTdel l k t) k' ↔ x ∈ getT l k' ∧ ¬ (k' = k ∧ x = t) := by
  unfold ctxTdel getT
  cases hl : alookup l k with
  | none =>
    by_cases hk : k = k'
    · subst hk; simp [hl]
    · have : ¬ k' = k := fun e => hk e.symm
      simp [this]
  | some ts =>
    simp only [alookup_aset]
    by_cases hk : k = k'
    · subst hk; simp [hl, mem_sremove, and_comm]
    · have : ¬ k' = k := fun e => hk e.symm
      simp [hk, this]

theorem nodup_getT_ctxTdel (l : List (Ctx × List Triple)) (k k' : Ctx) (t : Triple)
    (h : (getT l k').Nodup) : (getT (ctxTdel l k t) k').Nodup := by
  unfold ctxTdel getT at *
  cases hl : alookup l k with
  | none => simpa using h
  | some ts =>
    simp only [alookup_aset]
    by_cases hk : k = k'
    · subst hk
      simp only [if_true]
      rw [hl] at h
      exact nodup_sremove h
    · simpa [hk] using h

theorem isSome_alookup_ctxTdel (l : List (Ctx × List Triple)) (k k' : Ctx) (t : Triple) :
    (alookup (ctxTdel l k t) k').isSome = (alookup l k').isSome := by
  unfold ctxTdel
  cases hl : alookup l k with
  | none => rfl
  | some ts =>
    simp only [alookup_aset]
    by_cases hk : k = k'
    · subst hk; simp [hl]
    · simp [hk]

theorem ctxTdelRaises_eq_false (l : List (Ctx × List Triple)) (k : Ctx) (t : Triple)
    (h : t ∈ getT l k) : ctxTdelRaises l k t = false := by
  unfold ctxTdelRaises
  unfold getT at h
  cases hl : alookup l k with
  | none => simp [hl] at h
  | some ts => simpa [hl] using h

/-- erasing a key whose set is empty does not change any `getT` -/
theorem getT_aerase_empty (l : List (Ctx × List Triple)) (k k' : Ctx) (h : alookup l k = some []) :
    getT (aerase l k) k' = getT l k' := by
  unfold getT
  rw [alookup_aerase]
  by_cases hk : k = k'
  · subst hk; simp [h]
  · simp [hk]

/-! ### small list facts -/

theorem nodup_length_le_one_of_all_eq {α : Type} {l : List α} {a : α} (hnd : l.Nodup)
    (h : ∀ x ∈ l, x = a) : l.length ≤ 1 := by
  match l, hnd, h with
  | [], _, _ => simp
  | [_], _, _ => simp
  | x :: y :: r, hnd, h =>
    exfalso
    have hx : x = a := h x (by simp)
    have hy : y = a := h y (by simp)
    rw [List.nodup_cons] at hnd
    exact hnd.1 (by simp [hx, hy])

theorem length_eq_one_iff_of_mem {α : Type} {l : List α} {a : α} (hnd : l.Nodup) (ha : a ∈ l) :
    l.length = 1 ↔ ∀ x ∈ l, x = a := by
  constructor
  · intro h1 x hx
    match l, h1, ha, hx with
    | [b], _, ha, hx =>
      simp at ha hx
      rw [ha, hx]
  · intro h
    have h1 := nodup_length_le_one_of_all_eq hnd h
    have h2 : 0 < l.length := List.length_pos_of_mem ha
    omega

end RV.C01
