import RV.C01.LemIter
/-
  C01 helper lemmas, part I: the binary operators over operands of any store (a `View`);
  iteration of the all-unbound shape (`Graph.__iter__`) under mutation is the start snapshot.
-/
namespace RV.C01
open RV

/-- a view is coherent when its `in` test agrees with its iteration -/
def View.Coherent (v : View) : Prop := ∀ x, v.has x = true ↔ x ∈ v.xs

theorem coherent_ofMem {m : Mem} (hI : Inv m) (g : Nat) : (View.ofMem m g).Coherent := by
  intro x
  show m.contains x g = true ↔ x ∈ m.graph g
  rw [contains_iff hI, mem_graph hI]

theorem coherent_ofSimple {m : SMem} (hI : SInv m) : (View.ofSimple m).Coherent := by
  intro x
  show m.contains x = true ↔ x ∈ m.triples allPat
  rw [scontains_iff hI, mem_striples hI]
  simp [allPat, Pat.matches, matchPos]

theorem mem_ofSimple {m : SMem} (hI : SInv m) (x : Triple) : x ∈ (View.ofSimple m).xs ↔ x ∈ m.spo := by
  show x ∈ m.triples allPat ↔ _
  rw [mem_striples hI]
  simp [allPat, Pat.matches, matchPos]

/-- the four operators on coherent views build the union / difference / intersection / symmetric difference -/
theorem view_ops_spec (a b : View) (ha : a.Coherent) (hb : b.Coherent) (r : Nat) :
    (∀ t c, InG (a.union b r) t c ↔ ((t ∈ a.xs ∨ t ∈ b.xs) ∧ c = r)) ∧
    (∀ t c, InG (a.diff b r) t c ↔ ((t ∈ a.xs ∧ t ∉ b.xs) ∧ c = r)) ∧
    (∀ t c, InG (a.inter b r) t c ↔ ((t ∈ a.xs ∧ t ∈ b.xs) ∧ c = r)) ∧
    (∀ t c, InG (a.xor b r) t c ↔ (((t ∈ a.xs ∧ t ∉ b.xs) ∨ (t ∈ b.xs ∧ t ∉ a.xs)) ∧ c = r)) ∧
    Inv (a.union b r) ∧ Inv (a.diff b r) ∧ Inv (a.inter b r) ∧ Inv (a.xor b r) := by
  have hU := ofList_spec r (a.xs ++ b.xs)
  have hD := ofList_spec r (a.xs.filter (fun x => !b.has x))
  have hD' := ofList_spec r (b.xs.filter (fun x => !a.has x))
  have hN := ofList_spec r (b.xs.filter a.has)
  have hX := ofList_spec r
    ((Mem.ofList r (a.xs.filter (fun x => !b.has x))).graph r ++ (Mem.ofList r (b.xs.filter (fun x => !a.has x))).graph r)
  have hna : ∀ x, a.has x = false ↔ x ∉ a.xs := by
    intro x; rw [← ha x]; simp
  have hnb : ∀ x, b.has x = false ↔ x ∉ b.xs := by
    intro x; rw [← hb x]; simp
  refine ⟨?_, ?_, ?_, ?_, hU.1, hD.1, hN.1, hX.1⟩
  · intro t c
    simp only [View.union, gUnion, hU.2, List.mem_append]
  · intro t c
    simp only [View.diff, gDiff, hD.2, List.mem_filter, Bool.not_eq_true', hnb]
  · intro t c
    simp only [View.inter, gInter, hN.2, List.mem_filter, ha t]
    constructor
    · rintro ⟨⟨h1, h2⟩, h3⟩; exact ⟨⟨h2, h1⟩, h3⟩
    · rintro ⟨⟨h1, h2⟩, h3⟩; exact ⟨⟨h2, h1⟩, h3⟩
  · intro t c
    simp only [View.xor, gXor, gUnion, gDiff, hX.2, List.mem_append, mem_graph hD.1, mem_graph hD'.1]
    simp only [hD.2, hD'.2, List.mem_filter, Bool.not_eq_true', hna, hnb, and_true]

/-! ### `Graph.__iter__` (all-unbound shape) under mutation -/

theorem yields_fast : ∀ (evs : List Ev) (hist : List Mem) (m : Mem) (it : Iter), it.fast = true →
    (yields hist m it evs).map (fun y => y.1) = it.pending.take (countNext evs) := by
  intro evs
  induction evs with
  | nil => intro hist m it _; simp [yields, countNext]
  | cons e es ih =>
    intro hist m it hf
    cases e with
    | mutate op => simp only [yields, countNext]; exact ih _ _ it hf
    | load ts =>
      have : it.load m ts = it := by simp [Iter.load, hf]
      simp only [yields, countNext, this]; exact ih _ _ it hf
    | next =>
      simp only [yields, countNext]
      cases hp : it.pending with
      | nil =>
        have h1 : it.next m = (it, none) := by simp [Iter.next, hp]
        rw [h1]
        simp only
        rw [ih hist m it hf, hp]; simp
      | cons t r =>
        have h1 : it.next m = ({ it with pending := r }, some t) := by simp [Iter.next, hp, hf]
        rw [h1]
        simp only [List.map_cons, List.take_succ_cons]
        rw [ih hist m { it with pending := r } hf]

end RV.C01
