import RV.C01.LemTri
/-
  C01 helper lemmas, part E: the `Graph`-level operations (`addN`, `set`, `+=`, `-=`, the
  binary operators) and the observations `len`, `in`, iteration.
-/
namespace RV.C01
open RV

theorem mem_graph {m : Mem} (hI : Inv m) (g : Nat) (t : Triple) : t ∈ m.graph g ↔ InG m t g := by
  unfold Mem.graph allPat
  rw [mem_triples hI]
  simp [Pat.matches, matchPos]

theorem nodup_graph {m : Mem} (hI : Inv m) (g : Nat) : (m.graph g).Nodup := nodup_triples hI _ _

theorem len_eq {m : Mem} (g : Nat) : m.len (some g) = (m.graph g).length := rfl

theorem contains_iff {m : Mem} (hI : Inv m) (t : Triple) (g : Nat) : m.contains t g = true ↔ InG m t g := by
  unfold Mem.contains
  have h := mem_triples hI (some t.1, some t.2.1, some t.2.2) g
  constructor
  · intro hc
    cases hl : triples m (some t.1, some t.2.1, some t.2.2) (some g) with
    | nil => simp [hl] at hc
    | cons x r =>
      have hx := (h x).1 (by rw [hl]; simp)
      have : x = t := by
        obtain ⟨a, b, c⟩ := x
        obtain ⟨a', b', c'⟩ := t
        have := hx.2
        simp only [Pat.matches, matchPos, Bool.and_eq_true, beq_iff_eq] at this
        obtain ⟨⟨rfl, rfl⟩, rfl⟩ := this
        rfl
      rw [← this]; exact hx.1
  · intro hin
    have : t ∈ triples m (some t.1, some t.2.1, some t.2.2) (some g) :=
      (h t).2 ⟨hin, by simp [Pat.matches, matchPos]⟩
    cases hl : triples m (some t.1, some t.2.1, some t.2.2) (some g) with
    | nil => rw [hl] at this; cases this
    | cons x r => simp

/-- `Graph.addN`: the quads whose context is a Graph denoting this graph are added -/
theorem addN_spec (g : Nat) : ∀ (qs : List Quad) (m : Mem), Inv m →
    Inv (m.addN g qs) ∧
      ∀ t c, InG (m.addN g qs) t c ↔ (InG m t c ∨ (c = g ∧ (t, g, true) ∈ qs)) := by
  intro qs
  induction qs with
  | nil => intro m hI; simp [Mem.addN, hI]
  | cons q r ih =>
    intro m hI
    obtain ⟨t0, c0, b0⟩ := q
    by_cases hq : (b0 && c0 == g) = true
    · have hb : b0 = true := by simp at hq; exact hq.1
      have hc : c0 = g := by simp at hq; exact hq.2
      subst hb; subst hc
      have : m.addN c0 ((t0, c0, true) :: r) = (m.add t0 c0).addN c0 r := by simp [Mem.addN]
      rw [this]
      obtain ⟨hI1, h1⟩ := add_spec hI t0 c0
      obtain ⟨hI2, h2⟩ := ih _ hI1
      refine ⟨hI2, ?_⟩
      intro t c
      rw [h2, h1]
      simp only [List.mem_cons, Prod.mk.injEq, and_true]
      constructor
      · rintro ((h | ⟨h3, h4⟩) | ⟨h3, h4⟩)
        · exact Or.inl h
        · exact Or.inr ⟨h4, Or.inl h3⟩
        · exact Or.inr ⟨h3, Or.inr h4⟩
      · rintro (h | ⟨h3, h4 | h4⟩)
        · exact Or.inl (Or.inl h)
        · exact Or.inl (Or.inr ⟨h4, h3⟩)
        · exact Or.inr ⟨h3, h4⟩
    · have : m.addN g ((t0, c0, b0) :: r) = m.addN g r := by simp [Mem.addN, hq]
      rw [this]
      obtain ⟨hI2, h2⟩ := ih _ hI
      refine ⟨hI2, ?_⟩
      intro t c
      rw [h2]
      simp only [List.mem_cons, Prod.mk.injEq]
      constructor
      · rintro (h | ⟨h3, h4⟩)
        · exact Or.inl h
        · exact Or.inr ⟨h3, Or.inr h4⟩
      · rintro (h | ⟨h3, h4 | h4⟩)
        · exact Or.inl h
        · exfalso
          obtain ⟨_, h5, h6⟩ := h4
          apply hq
          simp [← h5, ← h6]
        · exact Or.inr ⟨h3, h4⟩

/-- `Graph.set` -/
theorem set_spec {m : Mem} (hI : Inv m) (t0 : Triple) (g : Nat) :
    Inv (m.set t0 g) ∧
      ∀ t c, InG (m.set t0 g) t c ↔
        ((InG m t c ∧ ¬ ((t.1 = t0.1 ∧ t.2.1 = t0.2.1) ∧ c = g)) ∨ (t = t0 ∧ c = g)) := by
  unfold Mem.set
  obtain ⟨hI1, h1⟩ := remove_spec hI (some t0.1, some t0.2.1, none) g
  obtain ⟨hI2, h2⟩ := add_spec hI1 t0 g
  refine ⟨hI2, ?_⟩
  intro t c
  rw [h2, h1]
  simp [Pat.matches, matchPos]

/-- `g += ts` -/
theorem iadd_spec {m : Mem} (hI : Inv m) (g : Nat) (ts : List Triple) :
    Inv (m.iadd g ts) ∧ ∀ t c, InG (m.iadd g ts) t c ↔ (InG m t c ∨ (t ∈ ts ∧ c = g)) := by
  unfold Mem.iadd
  obtain ⟨hI1, h1⟩ := addN_spec g (ts.map (fun t => (t, g, true))) m hI
  refine ⟨hI1, ?_⟩
  intro t c
  rw [h1]
  simp only [List.mem_map, Prod.mk.injEq, and_true, exists_eq_right]
  constructor
  · rintro (h | ⟨h2, h3⟩)
    · exact Or.inl h
    · exact Or.inr ⟨h3, h2⟩
  · rintro (h | ⟨h2, h3⟩)
    · exact Or.inl h
    · exact Or.inr ⟨h3, h2⟩

/-- `g -= ts` -/
theorem isub_spec (g : Nat) : ∀ (ts : List Triple) (m : Mem), Inv m →
    Inv (m.isub g ts) ∧ ∀ t c, InG (m.isub g ts) t c ↔ (InG m t c ∧ ¬ (t ∈ ts ∧ c = g)) := by
  intro ts
  induction ts with
  | nil => intro m hI; simp [Mem.isub, hI]
  | cons t0 r ih =>
    intro m hI
    obtain ⟨hI1, h1⟩ := remove_spec hI (some t0.1, some t0.2.1, some t0.2.2) g
    obtain ⟨hI2, h2⟩ := ih _ hI1
    refine ⟨hI2, ?_⟩
    intro t c
    show InG ((m.remove (some t0.1, some t0.2.1, some t0.2.2) (some g)).isub g r) t c ↔ _
    rw [h2, h1]
    have hm : (Pat.matches (some t0.1, some t0.2.1, some t0.2.2) t = true) ↔ t = t0 := by
      obtain ⟨a, b, c⟩ := t
      obtain ⟨a', b', c'⟩ := t0
      simp [Pat.matches, matchPos, and_assoc]
    rw [hm]
    simp only [List.mem_cons]
    constructor
    · rintro ⟨⟨h3, h4⟩, h5⟩
      refine ⟨h3, ?_⟩
      rintro ⟨h6 | h6, h7⟩
      · exact h4 ⟨h6, h7⟩
      · exact h5 ⟨h6, h7⟩
    · rintro ⟨h3, h4⟩
      exact ⟨⟨h3, fun h => h4 ⟨Or.inl h.1, h.2⟩⟩, fun h => h4 ⟨Or.inr h.1, h.2⟩⟩

/-! ### new graphs built by the binary operators -/

theorem foldl_add_spec (r : Nat) : ∀ (ts : List Triple) (m : Mem), Inv m →
    Inv (ts.foldl (fun m t => m.add t r) m) ∧
      ∀ t c, InG (ts.foldl (fun m t => m.add t r) m) t c ↔ (InG m t c ∨ (t ∈ ts ∧ c = r)) := by
  intro ts
  induction ts with
  | nil => intro m hI; simp [hI]
  | cons t0 rest ih =>
    intro m hI
    obtain ⟨hI1, h1⟩ := add_spec hI t0 r
    obtain ⟨hI2, h2⟩ := ih _ hI1
    refine ⟨hI2, ?_⟩
    intro t c
    simp only [List.foldl_cons]
    rw [h2, h1]
    simp only [List.mem_cons]
    constructor
    · rintro ((h | ⟨h3, h4⟩) | ⟨h3, h4⟩)
      · exact Or.inl h
      · exact Or.inr ⟨Or.inl h3, h4⟩
      · exact Or.inr ⟨Or.inr h3, h4⟩
    · rintro (h | ⟨h3 | h3, h4⟩)
      · exact Or.inl (Or.inl h)
      · exact Or.inl (Or.inr ⟨h3, h4⟩)
      · exact Or.inr ⟨h3, h4⟩

theorem not_InG_init (t : Triple) (c : Nat) : ¬ InG Mem.init t c := by
  simp [InG, Mem.init]

theorem ofList_spec (r : Nat) (ts : List Triple) :
    Inv (Mem.ofList r ts) ∧ ∀ t c, InG (Mem.ofList r ts) t c ↔ (t ∈ ts ∧ c = r) := by
  obtain ⟨hI, h⟩ := foldl_add_spec r ts Mem.init inv_init
  refine ⟨hI, ?_⟩
  intro t c
  unfold Mem.ofList
  rw [h]
  simp [not_InG_init]

/-! ### every operation of a history keeps the invariant -/

theorem step_inv {m : Mem} (hI : Inv m) (op : Op) : Inv (m.step op) := by
  cases op with
  | add t g => exact (add_spec hI t g).1
  | addN g qs => exact (addN_spec g qs m hI).1
  | remove pat g => exact (remove_spec hI pat g).1
  | set t g => exact (set_spec hI t g).1
  | iadd g ts => exact (iadd_spec hI g ts).1
  | iaddG g h => exact (iadd_spec hI g _).1
  | isub g ts => exact (isub_spec g ts m hI).1
  | isubG g h => exact (isub_spec g _ m hI).1

theorem run_inv : ∀ (ops : List Op) (m : Mem), Inv m → Inv (m.run ops) := by
  intro ops
  induction ops with
  | nil => intro m h; exact h
  | cons op r ih => intro m h; exact ih _ (step_inv h op)

end RV.C01
