import RV.C01.Props
open RV.C01
#print axioms refine_step
#print axioms refine_history
#print axioms triples_shape_complete
#print axioms binop_spec
#print axioms memory_refines_quadset
#print axioms iter_sound
#print axioms iter_all_is_snapshot
#print axioms binop_any_store
#print axioms simple_refine_history
#print axioms pinned_has_context_yields_ghost
#print axioms nested_refines_quadset
#print axioms nested_simple_refines
#print axioms binop_nested_flat
#print axioms binop_nested
#print axioms gen_sound
#print axioms gen_quiescent
#print axioms triples_choices
#print axioms triples_choices_dispatch
#print axioms gen_snapshot
