import RV.C01.Props
open RV.C01
