import RV.C01.LemSimple
/-
  C01 helper lemmas, part H: the store-level API — `remove(pattern, None)`, the registered
  graphs `__all_contexts`, `contexts`, `add_graph`, `remove_graph`.
-/
namespace RV.C01
open RV

/-! ### `__contexts(triple)` -/

theorem mem_keysOf (l : List Ctx) (k : Nat) : k ∈ keysOf l ↔ some k ∈ l := by
  induction l with
  | nil => simp [keysOf]
  | cons x r ih =>
    cases x with
    | none => simp [keysOf, ih]
    | some k' => simp [keysOf, ih]

theorem nodup_keysOf {l : List Ctx} (h : l.Nodup) : (keysOf l).Nodup := by
  induction l with
  | nil => simp [keysOf]
  | cons x r ih =>
    rw [List.nodup_cons] at h
    cases x with
    | none => simpa [keysOf] using ih h.2
    | some k' =>
      simp only [keysOf, List.nodup_cons]
      exact ⟨fun hk => h.1 ((mem_keysOf r k').1 hk), ih h.2⟩

theorem mem_ctxKeys (m : Mem) (t : Triple) (k : Nat) : k ∈ ctxKeys m t ↔ some k ∈ getCtxs m t :=
  mem_keysOf _ k

/-! ### `remove(pattern, None)`: the walk removes every context of the triple -/

theorem removeCtxLoop_none (t : Triple) : ∀ (cs : List Ctx) (m : Mem), Inv0 m → t ∈ m.spo → cs.Nodup →
    (∀ x ∈ cs, x ∈ getCtxs m t) →
    Inv0 (removeCtxLoop m t none cs) ∧ (removeCtxLoop m t none cs).spo = m.spo ∧
      (∀ t', t' ≠ t → getCtxs (removeCtxLoop m t none cs) t' = getCtxs m t') ∧
      (∀ x, x ∈ getCtxs (removeCtxLoop m t none cs) t ↔ (x ∈ getCtxs m t ∧ x ∉ cs)) := by
  intro cs
  induction cs with
  | nil => intro m hI _ _ _; simp [removeCtxLoop, hI]
  | cons ctx r ih =>
    intro m hI ht hnd hall
    rw [List.nodup_cons] at hnd
    have hstep : removeCtxLoop m t none (ctx :: r) = removeCtxLoop (removeTripleContext m t ctx) t none r := by
      simp [removeCtxLoop]
    rw [hstep]
    obtain ⟨hI1, hspo1, hoth1, hself1⟩ := rtc_spec hI ht (hall ctx (by simp))
    have hall' : ∀ x ∈ r, x ∈ getCtxs (removeTripleContext m t ctx) t := by
      intro x hx
      rw [hself1]
      exact ⟨hall x (by simp [hx]), fun e => hnd.1 (e ▸ hx)⟩
    obtain ⟨hI2, hspo2, hoth2, hself2⟩ := ih _ hI1 (hspo1 ▸ ht) hnd.2 hall'
    refine ⟨hI2, by rw [hspo2, hspo1], ?_, ?_⟩
    · intro t' e; rw [hoth2 t' e, hoth1 t' e]
    · intro x
      rw [hself2, hself1]
      simp only [List.mem_cons, not_or]
      constructor
      · rintro ⟨⟨h1, h2⟩, h3⟩; exact ⟨h1, h2, h3⟩
      · rintro ⟨h1, h2, h3⟩; exact ⟨⟨h1, h2⟩, h3⟩

theorem removeOne_none_spec {m : Mem} (hI : Inv m) {t : Triple} (ht : t ∈ m.spo) :
    Inv (removeOne m t none) ∧
      ∀ t' c', InG (removeOne m t none) t' c' ↔ (InG m t' c' ∧ t' ≠ t) := by
  have hfl : m.flag (getCtxsRaises m t) = m := by
    rw [getCtxsRaises_false hI.toInv0 ht]; exact flag_false m
  obtain ⟨hI1, hspo1, hoth1, hself1⟩ :=
    removeCtxLoop_none t (getCtxs m t) m hI.toInv0 ht (hI.ctxs_nd t) (fun _ h => h)
  unfold removeOne
  rw [hfl]
  generalize removeCtxLoop m t none (getCtxs m t) = m1 at *
  have hnil : getCtxs m1 t = [] := by
    apply List.eq_nil_iff_forall_not_mem.2
    intro x hx
    have := (hself1 x).1 hx
    exact this.2 this.1
  have hdu : dropUnion m1 t none = m1 := by simp [dropUnion, hnil]
  rw [hdu]
  obtain ⟨hI3, hmem3, hget3⟩ := dropTriple_spec hI1 (hspo1 ▸ ht) hnil (by
    intro t' h e
    rw [hoth1 t' e]; exact hI.ctx_ok t' (hspo1 ▸ h))
  refine ⟨hI3, ?_⟩
  intro t' c'
  unfold InG
  rw [hmem3, hspo1]
  by_cases e : t' = t
  · subst e; simp
  · rw [hget3 t' e, hoth1 t' e]; simp [e]

theorem hasCtx_none_iff {m : Mem} (hI : Inv m) (t : Triple) : hasCtx m t none = true ↔ t ∈ m.spo := by
  simp only [hasCtx, Bool.and_eq_true, decide_eq_true_eq]
  exact ⟨fun h => h.1, fun h => ⟨h, (hI.ctx_ok t h).1⟩⟩

theorem removeLoop_none (test : Bool) : ∀ (l : List Triple) (m : Mem), Inv m →
    (test = false → l.Nodup ∧ ∀ t ∈ l, t ∈ m.spo) →
    Inv (removeLoop m none test l) ∧
      ∀ t' c', InG (removeLoop m none test l) t' c' ↔ (InG m t' c' ∧ t' ∉ l) := by
  intro l
  induction l with
  | nil => intro m hI _; simp [removeLoop, hI]
  | cons t r ih =>
    intro m hI hsnap
    have hfl : m.flag (test && hasCtxRaises m t) = m := by
      rw [hasCtxRaises_false hI.toInv0]; simp [flag_false]
    by_cases h : (!test || hasCtx m t none) = true
    · have ht : t ∈ m.spo := by
        cases test with
        | true => simpa [hasCtx_none_iff hI] using h
        | false => exact (hsnap rfl).2 t (by simp)
      obtain ⟨hI1, h1⟩ := removeOne_none_spec hI ht
      have : removeLoop m none test (t :: r) = removeLoop (removeOne m t none) none test r := by
        simp only [removeLoop, h, if_true, hfl]
      rw [this]
      have hsnap' : test = false → r.Nodup ∧ ∀ t' ∈ r, t' ∈ (removeOne m t none).spo := by
        intro htest
        obtain ⟨hnd, hall⟩ := hsnap htest
        rw [List.nodup_cons] at hnd
        refine ⟨hnd.2, ?_⟩
        intro t' ht'
        have hne : t' ≠ t := fun e => hnd.1 (e ▸ ht')
        have hin := hall t' (by simp [ht'])
        obtain ⟨c, hc⟩ := (hI.ctx_ok t' hin).2
        exact ((h1 t' c).2 ⟨⟨hin, hc⟩, hne⟩).1
      obtain ⟨hI2, h2⟩ := ih _ hI1 hsnap'
      refine ⟨hI2, ?_⟩
      intro t' c'
      rw [h2, h1]
      simp only [List.mem_cons, not_or]
      constructor
      · rintro ⟨⟨h3, h4⟩, h5⟩; exact ⟨h3, h4, h5⟩
      · rintro ⟨h3, h4, h5⟩; exact ⟨⟨h3, h4⟩, h5⟩
    · have htest : test = true := by
        cases test with
        | true => rfl
        | false => simp at h
      subst htest
      have hnin : t ∉ m.spo := by
        intro hin
        apply h
        simp [(hasCtx_none_iff hI t).2 hin]
      have : removeLoop m none true (t :: r) = removeLoop m none true r := by
        have h' : hasCtx m t none = false := by simpa using h
        simp only [removeLoop, h', Bool.not_true, Bool.or_self, Bool.false_eq_true, if_false, hfl]
      rw [this]
      obtain ⟨hI2, h2⟩ := ih _ hI (fun e => by cases e)
      refine ⟨hI2, ?_⟩
      intro t' c'
      rw [h2]
      simp only [List.mem_cons, not_or]
      constructor
      · rintro ⟨h3, h5⟩
        exact ⟨h3, fun e => hnin (e ▸ h3.1), h5⟩
      · rintro ⟨h3, _, h5⟩; exact ⟨h3, h5⟩

/-- `Memory.remove(pattern, None)`: the matching triples leave every graph -/
theorem remove_none_spec {m : Mem} (hI : Inv m) (pat : Pat) :
    Inv (m.remove pat none) ∧
      ∀ t' c', InG (m.remove pat none) t' c' ↔ (InG m t' c' ∧ ¬ pat.matches t' = true) := by
  by_cases hp : pat = (none, none, none)
  · subst hp
    obtain ⟨hI1, h1⟩ := removeLoop_none false (ctxTget m none) m hI
      (fun _ => ⟨hI.ctxT_nd _, fun t h => ((hI.ctxT_iff none t).1 h).1⟩)
    refine ⟨hI1, ?_⟩
    intro t' c'
    show InG (dropEmptyCtx (removeLoop m none false (ctxTget m none)) none) t' c' ↔ _
    simp only [dropEmptyCtx]
    rw [h1]
    constructor
    · rintro ⟨h3, h4⟩
      exact ⟨h3, fun _ => h4 ((hI.ctxT_iff none t').2 ⟨h3.1, (hI.ctx_ok t' h3.1).1⟩)⟩
    · rintro ⟨h3, h4⟩
      exact ⟨h3, fun _ => h4 (by simp [Pat.matches, matchPos])⟩
  · have : m.remove pat none = dropEmptyCtx (removeLoop m none true (cands m pat)) none := by
      obtain ⟨ps, pp, po⟩ := pat
      cases ps <;> cases pp <;> cases po <;> first | rfl | exact (hp rfl).elim
    rw [this]
    obtain ⟨hI1, h1⟩ := removeLoop_none true (cands m pat) m hI (fun e => by cases e)
    simp only [dropEmptyCtx]
    refine ⟨hI1, ?_⟩
    intro t' c'
    rw [h1]
    constructor
    · rintro ⟨h3, h4⟩
      exact ⟨h3, fun h => h4 ((mem_cands hI.toInv0 pat t').2 ⟨h3.1, h⟩)⟩
    · rintro ⟨h3, h4⟩
      exact ⟨h3, fun h => h4 ((mem_cands hI.toInv0 pat t').1 h).2⟩

/-- both forms of `Memory.remove` -/
theorem remove_ctx_spec {m : Mem} (hI : Inv m) (pat : Pat) (ctx : Option Nat) :
    Inv (m.remove pat ctx) ∧
      ∀ t' c', InG (m.remove pat ctx) t' c' ↔
        (InG m t' c' ∧ ¬ (pat.matches t' = true ∧ (ctx = none ∨ ctx = some c'))) := by
  cases ctx with
  | none =>
    obtain ⟨h1, h2⟩ := remove_none_spec hI pat
    exact ⟨h1, fun t' c' => by rw [h2]; simp⟩
  | some g =>
    obtain ⟨h1, h2⟩ := remove_spec hI pat g
    refine ⟨h1, fun t' c' => ?_⟩
    rw [h2]
    simp only [Option.some.injEq, false_or, reduceCtorEq]
    constructor
    · rintro ⟨h3, h4⟩; exact ⟨h3, fun h => h4 ⟨h.1, h.2.symm⟩⟩
    · rintro ⟨h3, h4⟩; exact ⟨h3, fun h => h4 ⟨h.1, h.2.symm⟩⟩

/-! ### `__all_contexts` is touched only by `add`, `add_graph`, `remove_graph` -/

@[simp] theorem allc_flag (m : Mem) (b : Bool) : (m.flag b).allc = m.allc := rfl
@[simp] theorem allc_rtc (m : Mem) (t : Triple) (c : Ctx) : (removeTripleContext m t c).allc = m.allc := rfl
@[simp] theorem allc_atc (m : Mem) (t : Triple) (b : Bool) (c : Nat) : (addTripleContext m t b c).allc = m.allc := rfl

@[simp] theorem allc_removeCtxLoop (t : Triple) (req : Ctx) : ∀ (cs : List Ctx) (m : Mem),
    (removeCtxLoop m t req cs).allc = m.allc := by
  intro cs
  induction cs with
  | nil => intro m; rfl
  | cons c r ih =>
    intro m
    simp only [removeCtxLoop]
    split
    · exact ih m
    · rw [ih]; rfl

@[simp] theorem allc_dropUnion (m : Mem) (t : Triple) (req : Ctx) : (dropUnion m t req).allc = m.allc := by
  unfold dropUnion; split <;> rfl

@[simp] theorem allc_dropTriple (m : Mem) (t : Triple) : (dropTriple m t).allc = m.allc := by
  unfold dropTriple; split <;> rfl

@[simp] theorem allc_removeOne (m : Mem) (t : Triple) (req : Ctx) : (removeOne m t req).allc = m.allc := by
  simp [removeOne]

@[simp] theorem allc_removeLoop (req : Ctx) (test : Bool) : ∀ (l : List Triple) (m : Mem),
    (removeLoop m req test l).allc = m.allc := by
  intro l
  induction l with
  | nil => intro m; rfl
  | cons t r ih =>
    intro m
    simp only [removeLoop]
    split
    · rw [ih]; simp
    · rw [ih]; simp

@[simp] theorem allc_dropEmptyCtx (m : Mem) (req : Ctx) : (dropEmptyCtx m req).allc = m.allc := by
  unfold dropEmptyCtx
  cases req with
  | none => rfl
  | some c => simp only; split <;> rfl

@[simp] theorem allc_remove (m : Mem) (pat : Pat) (req : Ctx) : (m.remove pat req).allc = m.allc := by
  obtain ⟨ps, pp, po⟩ := pat
  cases ps <;> cases pp <;> cases po <;> simp [Mem.remove]

@[simp] theorem allc_addCore (m : Mem) (t : Triple) (c : Nat) : (m.addCore t c).allc = m.allc := by
  unfold Mem.addCore; split <;> rfl

@[simp] theorem allc_add (m : Mem) (t : Triple) (c : Nat) : (m.add t c).allc = sinsert m.allc c := by
  simp [Mem.add, Mem.register]

theorem mem_allc_addN (g : Nat) : ∀ (qs : List Quad) (m : Mem) (k : Nat),
    k ∈ (m.addN g qs).allc ↔ (k ∈ m.allc ∨ (k = g ∧ ∃ t, (t, g, true) ∈ qs)) := by
  intro qs
  induction qs with
  | nil => intro m k; simp [Mem.addN]
  | cons q r ih =>
    intro m k
    obtain ⟨t0, c0, b0⟩ := q
    by_cases hq : (b0 && c0 == g) = true
    · have hb : b0 = true := by simp at hq; exact hq.1
      have hc : c0 = g := by simp at hq; exact hq.2
      subst hb; subst hc
      have : m.addN c0 ((t0, c0, true) :: r) = (m.add t0 c0).addN c0 r := by simp [Mem.addN]
      rw [this, ih, allc_add, mem_sinsert]
      constructor
      · rintro ((h | h) | ⟨h1, t, h2⟩)
        · exact Or.inr ⟨h, t0, by simp⟩
        · exact Or.inl h
        · exact Or.inr ⟨h1, t, by simp [h2]⟩
      · rintro (h | ⟨h1, _⟩)
        · exact Or.inl (Or.inr h)
        · exact Or.inl (Or.inl h1)
    · have : m.addN g ((t0, c0, b0) :: r) = m.addN g r := by simp [Mem.addN, hq]
      rw [this, ih]
      constructor
      · rintro (h | ⟨h1, t, h2⟩)
        · exact Or.inl h
        · exact Or.inr ⟨h1, t, by simp [h2]⟩
      · rintro (h | ⟨h1, t, h2⟩)
        · exact Or.inl h
        · simp only [List.mem_cons, Prod.mk.injEq] at h2
          rcases h2 with ⟨_, h3, h4⟩ | h2
          · exfalso; apply hq; simp [← h3, ← h4]
          · exact Or.inr ⟨h1, t, h2⟩

theorem allc_isub (g : Nat) : ∀ (ts : List Triple) (m : Mem), (m.isub g ts).allc = m.allc := by
  intro ts
  induction ts with
  | nil => intro m; rfl
  | cons t r ih => intro m; simp only [Mem.isub]; rw [ih]; simp

theorem nodup_allc_addN (g : Nat) : ∀ (qs : List Quad) (m : Mem), m.allc.Nodup → (m.addN g qs).allc.Nodup := by
  intro qs
  induction qs with
  | nil => intro m h; exact h
  | cons q r ih =>
    intro m h
    obtain ⟨t0, c0, b0⟩ := q
    simp only [Mem.addN]
    split
    · apply ih; rw [allc_add]; exact nodup_sinsert h
    · exact ih m h

/-! ### `add_graph`, `remove_graph` -/

theorem removeGraph_spec {m : Mem} (hI : Inv m) (k : Nat) :
    Inv (m.removeGraph k) ∧
      (∀ t' c', InG (m.removeGraph k) t' c' ↔ (InG m t' c' ∧ c' ≠ k)) ∧
      (m.removeGraph k).allc = sremove m.allc k := by
  obtain ⟨hI1, h1⟩ := remove_spec hI (none, none, none) k
  refine ⟨?_, ?_, by simp [Mem.removeGraph]⟩
  · exact
      { err := hI1.err, nd_spo := hI1.nd_spo, nd_pos := hI1.nd_pos, nd_osp := hI1.nd_osp, pos_iff := hI1.pos_iff,
        osp_iff := hI1.osp_iff, dflt_some := hI1.dflt_some, dflt_ok := hI1.dflt_ok, tctx_in := hI1.tctx_in,
        ctxs_nd := hI1.ctxs_nd, ctxT_nd := hI1.ctxT_nd, ctxT_none := hI1.ctxT_none, ctxT_iff := hI1.ctxT_iff,
        ctx_ok := hI1.ctx_ok }
  · intro t' c'
    show InG (m.remove (none, none, none) (some k)) t' c' ↔ _
    rw [h1]
    simp [Pat.matches, matchPos]

theorem mem_allc_iadd (m : Mem) (g : Nat) (ts : List Triple) (k : Nat) :
    k ∈ (m.iadd g ts).allc ↔ (k ∈ m.allc ∨ (k = g ∧ ∃ t, t ∈ ts)) := by
  unfold Mem.iadd
  rw [mem_allc_addN]
  simp only [List.mem_map, Prod.mk.injEq, and_true, exists_eq_right]

theorem allc_set (m : Mem) (t : Triple) (g : Nat) : (m.set t g).allc = sinsert m.allc g := by
  simp [Mem.set]

theorem nodup_allc_step {m : Mem} (h : m.allc.Nodup) (op : Op) : (m.step op).allc.Nodup := by
  cases op with
  | add t g => simp only [Mem.step, allc_add]; exact nodup_sinsert h
  | addN g qs => exact nodup_allc_addN g qs m h
  | remove pat g => simpa [Mem.step] using h
  | set t g => simp only [Mem.step, allc_set]; exact nodup_sinsert h
  | iadd g ts => exact nodup_allc_addN g _ m h
  | iaddG g k => exact nodup_allc_addN g _ m h
  | isub g ts => simpa [Mem.step, allc_isub] using h
  | isubG g k => simpa [Mem.step, allc_isub] using h

theorem stStep_inv {m : Mem} (hI : Inv m) (op : StOp) : Inv (m.stStep op) := by
  cases op with
  | add t c => exact (add_spec hI t c).1
  | remove pat ctx => exact (remove_ctx_spec hI pat ctx).1
  | addGraph k => exact inv_register hI k
  | removeGraph k => exact (removeGraph_spec hI k).1
  | graph op => exact step_inv hI op

theorem nodup_allc_stStep {m : Mem} (hI : Inv m) (h : m.allc.Nodup) (op : StOp) : (m.stStep op).allc.Nodup := by
  cases op with
  | add t c => simp only [Mem.stStep, allc_add]; exact nodup_sinsert h
  | remove pat ctx => simpa [Mem.stStep] using h
  | addGraph k => exact nodup_sinsert h
  | removeGraph k => rw [Mem.stStep, (removeGraph_spec hI k).2.2]; exact nodup_sremove h
  | graph op => exact nodup_allc_step h op

theorem stRun_inv : ∀ (ops : List StOp) (m : Mem), Inv m → Inv (m.stRun ops) := by
  intro ops
  induction ops with
  | nil => intro m h; exact h
  | cons op r ih => intro m h; exact ih _ (stStep_inv h op)

end RV.C01
