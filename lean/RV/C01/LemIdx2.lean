import RV.C01.LemIdx
/-
  C01 helper lemmas, round g, part 2: the walks of `triples()` over a nested index are the filters of its
  flattening (as LISTS, order included), and `del i[a][b][c]` is `sremove` on the flattening.
-/
namespace RV.C01
open RV

theorem flatMap_congr' {α β : Type} {l : List α} {f g : α → List β} (h : ∀ x ∈ l, f x = g x) :
    l.flatMap f = l.flatMap g := by
  induction l with
  | nil => rfl
  | cons a r ih =>
    simp only [List.flatMap_cons]
    rw [h a (by simp), ih (fun x hx => h x (List.mem_cons_of_mem _ hx))]

theorem filter_and {α : Type} (l : List α) (p q : α → Bool) :
    l.filter (fun x => p x && q x) = (l.filter p).filter q := by
  rw [List.filter_filter]
  apply List.filter_congr
  intro x _; exact Bool.and_comm _ _

theorem filter_map_flatMap {α β : Type} (l : List α) (q : α → Bool) (f : α → β) :
    (l.filter q).map f = l.flatMap (fun x => if q x then [f x] else []) := by
  induction l with
  | nil => rfl
  | cons a r ih =>
    simp only [List.flatMap_cons, List.filter_cons]
    by_cases h : q a = true
    · simp [h, ih]
    · simp [h, ih]

theorem filter_beq_nodup {l : List Nat} (h : l.Nodup) (c : Nat) :
    l.filter (fun x => x == c) = if c ∈ l then [c] else [] := by
  induction l with
  | nil => simp
  | cons a r ih =>
    rw [List.nodup_cons] at h
    by_cases e : a = c
    · subst e
      have : r.filter (fun x => x == a) = [] := by
        rw [ih h.2]; simp [h.1]
      simp [this]
    · have e' : ¬ c = a := fun h' => e h'.symm
      simp [e, e', ih h.2]

/-- `d[b]` for a key copied from `d` (`{}` when absent) -/
def lk (d : List (Nat × List Nat)) (b : Nat) : List Nat :=
  match alookup d b with
  | some l => l
  | none => []

theorem lvl3_eq_lk (i : Idx) (a b : Nat) : lvl3 i a b = lk (lvl2 i a) b := rfl

theorem lk_of_mem {d : List (Nat × List Nat)} (h : KN d) {b : Nat} {l : List Nat} (hm : (b, l) ∈ d) : lk d b = l := by
  simp [lk, alookup_of_mem h hm]

theorem lvl2_of_mem {i : Idx} (h : KN i) {a : Nat} {d : List (Nat × List Nat)} (hm : (a, d) ∈ i) : lvl2 i a = d := by
  simp [lvl2, alookup_of_mem h hm]

theorem flat2_items (a : Nat) (d : List (Nat × List Nat)) :
    flat2 a d = d.flatMap (fun bl => bl.2.map (fun c => (a, bl.1, c))) := by
  induction d with
  | nil => rfl
  | cons e r ih => obtain ⟨b, l⟩ := e; simp [flat2, ih]

theorem flat_items (i : Idx) : flat i = i.flatMap (fun ad => flat2 ad.1 ad.2) := by
  induction i with
  | nil => rfl
  | cons e r ih => obtain ⟨a, d⟩ := e; simp [flat, ih]

/-- walking the copied keys and looking each up again = walking the items -/
theorem walk_items2 {β : Type} {d : List (Nat × List Nat)} (h : KN d) (g : Nat → List Nat → List β) :
    (akeys d).flatMap (fun b => g b (lk d b)) = d.flatMap (fun bl => g bl.1 bl.2) := by
  unfold akeys
  rw [List.flatMap_map]
  apply flatMap_congr'
  intro bl hm
  obtain ⟨b, l⟩ := bl
  simp only [lk_of_mem h hm]

theorem walk_items1 {β : Type} {i : Idx} (h : KN i) (g : Nat → List (Nat × List Nat) → List β) :
    (akeys i).flatMap (fun a => g a (lvl2 i a)) = i.flatMap (fun ad => g ad.1 ad.2) := by
  unfold akeys
  rw [List.flatMap_map]
  apply flatMap_congr'
  intro ad hm
  obtain ⟨a, d⟩ := ad
  simp only [lvl2_of_mem h hm]

/-- L1: the entries under first key `a` -/
theorem flat_filter_a {i : Idx} (h : KN i) (a : Nat) :
    (flat i).filter (fun t => t.1 == a) = flat2 a (lvl2 i a) := by
  induction i with
  | nil => simp [flat, lvl2, alookup, flat2]
  | cons e r ih =>
    obtain ⟨a0, d0⟩ := e
    have hk := kn_cons.1 h
    simp only [flat, List.filter_append]
    by_cases e : a0 = a
    · subst e
      have h1 : (flat2 a0 d0).filter (fun t => t.1 == a0) = flat2 a0 d0 := by
        rw [List.filter_eq_self]
        intro x hx; simp [(fst_of_mem_flat2 hx).1]
      have h2 : (flat r).filter (fun t => t.1 == a0) = [] := by
        rw [List.filter_eq_nil_iff]
        intro x hx hx'
        simp only [beq_iff_eq] at hx'
        exact hk.1 (hx' ▸ fst_of_mem_flat hx)
      simp [h1, h2, lvl2, alookup]
    · have h1 : (flat2 a0 d0).filter (fun t => t.1 == a) = [] := by
        rw [List.filter_eq_nil_iff]
        intro x hx hx'
        simp only [beq_iff_eq] at hx'
        exact e ((fst_of_mem_flat2 hx).1.symm.trans hx')
      have h2 : lvl2 ((a0, d0) :: r) a = lvl2 r a := by simp [lvl2, alookup, e]
      rw [h1, h2, List.nil_append, ih hk.2]

/-- L2: the entries of `d` under second key `b` -/
theorem flat2_filter_b {d : List (Nat × List Nat)} (h : KN d) (a b : Nat) :
    (flat2 a d).filter (fun t => t.2.1 == b) = (lk d b).map (fun c => (a, b, c)) := by
  induction d with
  | nil => simp [flat2, lk, alookup]
  | cons e r ih =>
    obtain ⟨b0, l0⟩ := e
    have hk := kn_cons.1 h
    simp only [flat2, List.filter_append]
    by_cases e : b0 = b
    · subst e
      have h1 : (l0.map (fun c => (a, b0, c))).filter (fun t => t.2.1 == b0) = l0.map (fun c => (a, b0, c)) := by
        rw [List.filter_eq_self]
        intro x hx
        simp only [List.mem_map] at hx
        obtain ⟨c, _, rfl⟩ := hx
        simp
      have h2 : (flat2 a r).filter (fun t => t.2.1 == b0) = [] := by
        rw [List.filter_eq_nil_iff]
        intro x hx hx'
        simp only [beq_iff_eq] at hx'
        exact hk.1 (hx' ▸ (fst_of_mem_flat2 hx).2)
      simp [h1, h2, lk, alookup]
    · have h1 : (l0.map (fun c => (a, b0, c))).filter (fun t => t.2.1 == b) = [] := by
        rw [List.filter_eq_nil_iff]
        intro x hx hx'
        simp only [List.mem_map] at hx
        obtain ⟨c, _, rfl⟩ := hx
        simp only [beq_iff_eq] at hx'
        exact e hx'
      have h2 : lk ((b0, l0) :: r) b = lk r b := by simp [lk, alookup, e]
      rw [h1, h2, List.nil_append, ih hk.2]

/-- L3: the entries of `d` with third key `c` = the second-level keys whose leaf has `c` -/
theorem flat2_filter_c {d : List (Nat × List Nat)} (h : WF2 d) (a c : Nat) :
    (flat2 a d).filter (fun t => t.2.2 == c)
      = ((akeys d).filter (fun b => decide (c ∈ lk d b))).map (fun b => (a, b, c)) := by
  rw [filter_map_flatMap]
  rw [walk_items2 h.kn (fun b l => if decide (c ∈ l) = true then [(a, b, c)] else [])]
  rw [flat2_items, List.filter_flatMap]
  apply flatMap_congr'
  intro bl hm
  obtain ⟨b, l⟩ := bl
  have hnd := h.leaf b l hm
  simp only
  rw [List.filter_map]
  have : (fun t : Triple => t.2.2 == c) ∘ (fun c' => (a, b, c')) = fun x => x == c := rfl
  rw [this, filter_beq_nodup hnd]
  by_cases hc : c ∈ l <;> simp [hc]

/-- L4 -/
theorem flat2_walk {d : List (Nat × List Nat)} (h : KN d) (a : Nat) :
    flat2 a d = (akeys d).flatMap (fun b => (lk d b).map (fun c => (a, b, c))) := by
  rw [walk_items2 h (fun b l => l.map (fun c => (a, b, c))), flat2_items]

/-- L5 -/
theorem flat_walk {i : Idx} (h : WFI i) :
    flat i = (akeys i).flatMap (fun a => (akeys (lvl2 i a)).flatMap (fun b => (lvl3 i a b).map (fun c => (a, b, c)))) := by
  have : ∀ a, (akeys (lvl2 i a)).flatMap (fun b => (lvl3 i a b).map (fun c => (a, b, c))) = flat2 a (lvl2 i a) := by
    intro a
    rw [flat2_walk (wf2_lvl2 h a).kn]
    rfl
  simp only [this]
  rw [walk_items1 h.kn (fun a d => flat2 a d), flat_items]

/-! ### `del` -/

theorem sremove_append {α : Type} [DecidableEq α] (l1 l2 : List α) (x : α) :
    sremove (l1 ++ l2) x = sremove l1 x ++ sremove l2 x := by
  induction l1 with
  | nil => rfl
  | cons a r ih =>
    simp only [List.cons_append, sremove]
    split <;> simp [ih]

theorem sremove_of_not_mem {α : Type} [DecidableEq α] {l : List α} {x : α} (h : x ∉ l) : sremove l x = l := by
  induction l with
  | nil => rfl
  | cons a r ih =>
    simp only [List.mem_cons, not_or] at h
    have : ¬ a = x := fun e => h.1 e.symm
    simp [sremove, this, ih h.2]

theorem sremove_map_inj {α β : Type} [DecidableEq α] [DecidableEq β] {f : α → β}
    (hf : ∀ x y, f x = f y → x = y) (l : List α) (x : α) : sremove (l.map f) (f x) = (sremove l x).map f := by
  induction l with
  | nil => rfl
  | cons a r ih =>
    by_cases e : a = x
    · subst e; simp [sremove, ih]
    · have : ¬ f a = f x := fun h => e (hf _ _ h)
      simp [sremove, e, this, ih]

theorem flat2_aset_sremove {d : List (Nat × List Nat)} (h : KN d) (a b c : Nat) {l : List Nat}
    (hl : alookup d b = some l) : flat2 a (aset d b (sremove l c)) = sremove (flat2 a d) (a, b, c) := by
  induction d with
  | nil => simp [alookup] at hl
  | cons e r ih =>
    obtain ⟨b0, l0⟩ := e
    have hk := kn_cons.1 h
    by_cases e : b0 = b
    · subst e
      simp only [alookup, if_true, Option.some.injEq] at hl
      subst hl
      simp only [aset, if_true, flat2, sremove_append]
      have h1 : sremove (l0.map (fun c' => (a, b0, c'))) (a, b0, c) = (sremove l0 c).map (fun c' => (a, b0, c')) :=
        sremove_map_inj (f := fun c' => (a, b0, c')) (by intro x y hxy; injection hxy with _ h2; injection h2) l0 c
      have h2 : sremove (flat2 a r) (a, b0, c) = flat2 a r := by
        apply sremove_of_not_mem
        intro hm; exact hk.1 (fst_of_mem_flat2 hm).2
      rw [h1, h2]
    · simp only [alookup, e, if_false] at hl
      simp only [aset, e, if_false, flat2, sremove_append]
      have h1 : sremove (l0.map (fun c' => (a, b0, c'))) (a, b, c) = l0.map (fun c' => (a, b0, c')) := by
        apply sremove_of_not_mem
        intro hm
        simp only [List.mem_map] at hm
        obtain ⟨c', _, hc'⟩ := hm
        injection hc' with _ h2; injection h2 with h3 _; exact e h3
      rw [h1, ih hk.2 hl]

theorem flat_aset_sremove {i : Idx} (h : WFI i) (a b c : Nat) {d : List (Nat × List Nat)} {l : List Nat}
    (hd : alookup i a = some d) (hl : alookup d b = some l) :
    flat (aset i a (aset d b (sremove l c))) = sremove (flat i) (a, b, c) := by
  induction i with
  | nil => simp [alookup] at hd
  | cons e r ih =>
    obtain ⟨a0, d0⟩ := e
    have hk := kn_cons.1 h.kn
    have hr : WFI r := ⟨hk.2, fun a d hm => h.sub a d (List.mem_cons_of_mem _ hm)⟩
    by_cases e : a0 = a
    · subst e
      simp only [alookup, if_true, Option.some.injEq] at hd
      subst hd
      simp only [aset, if_true, flat, sremove_append]
      have h2 : sremove (flat r) (a0, b, c) = flat r := by
        apply sremove_of_not_mem
        intro hm; exact hk.1 (fst_of_mem_flat hm)
      rw [h2, flat2_aset_sremove (h.sub a0 d0 (by simp)).kn a0 b c hl]
    · simp only [alookup, e, if_false] at hd
      simp only [aset, e, if_false, flat, sremove_append]
      have h1 : sremove (flat2 a0 d0) (a, b, c) = flat2 a0 d0 := by
        apply sremove_of_not_mem
        intro hm; exact e (fst_of_mem_flat2 hm).1.symm
      rw [h1, ih hr hd]

/-- `del i[a][b][c]` on the flattening -/
theorem flat_idxDel {i : Idx} (h : WFI i) (a b c : Nat) : flat (idxDel i a b c) = sremove (flat i) (a, b, c) := by
  unfold idxDel
  by_cases hh : idxHas i a b c = true
  · simp only [hh, if_true]
    have hc : c ∈ lvl3 i a b := by simpa [idxHas] using hh
    cases e1 : alookup i a with
    | none => simp [lvl3, lvl2, e1, alookup] at hc
    | some d =>
      cases e2 : alookup d b with
      | none => simp [lvl3, lvl2, e1, e2] at hc
      | some l =>
        have hl2 : lvl2 i a = d := by simp [lvl2, e1]
        rw [lvl3_eq e1 e2, hl2]
        exact flat_aset_sremove h a b c e1 e2
  · have hf : idxHas i a b c = false := by simpa using hh
    rw [if_neg (by simp [hf]), sremove_of_not_mem]
    intro hm; exact hh ((mem_flat_iff h a b c).1 hm)

theorem rotPOS_inj (x y : Triple) (h : rotPOS x = rotPOS y) : x = y := by
  obtain ⟨a, b, c⟩ := x; obtain ⟨a', b', c'⟩ := y
  simp only [rotPOS, Prod.mk.injEq] at h
  obtain ⟨h1, h2, h3⟩ := h
  subst h1; subst h2; subst h3; rfl

theorem rotOSP_inj (x y : Triple) (h : rotOSP x = rotOSP y) : x = y := by
  obtain ⟨a, b, c⟩ := x; obtain ⟨a', b', c'⟩ := y
  simp only [rotOSP, Prod.mk.injEq] at h
  obtain ⟨h1, h2, h3⟩ := h
  subst h1; subst h2; subst h3; rfl

/-! ### the eight walks = the filters of `Model.cands` on the flattened indexes (as lists) -/

theorem idxCands_eq {ispo ipos iosp : Idx} (h1 : WFI ispo) (h2 : WFI ipos) (h3 : WFI iosp) (m : Mem)
    (e1 : m.spo = flat ispo) (e2 : m.pos = (flat ipos).map rotPOS) (e3 : m.osp = (flat iosp).map rotOSP)
    (pat : Pat) : idxCands ispo ipos iosp pat = cands m pat := by
  obtain ⟨ps, pp, po⟩ := pat
  cases ps with
  | some s =>
    cases pp with
    | some p =>
      cases po with
      | some o =>
        simp only [idxCands, cands, e1, mem_flat_iff h1]
      | none =>
        simp only [idxCands, cands, e1]
        rw [filter_and, flat_filter_a h1.kn, flat2_filter_b (wf2_lvl2 h1 s).kn]
        rfl
    | none =>
      cases po with
      | some o =>
        simp only [idxCands, cands, e1]
        rw [filter_and, flat_filter_a h1.kn, flat2_filter_c (wf2_lvl2 h1 s)]
        rfl
      | none =>
        simp only [idxCands, cands, e1]
        rw [flat_filter_a h1.kn, flat2_walk (wf2_lvl2 h1 s).kn]
        rfl
  | none =>
    cases pp with
    | some p =>
      cases po with
      | some o =>
        simp only [idxCands, cands, e2]
        rw [List.filter_map]
        have : ((fun t : Triple => t.2.1 == p && t.2.2 == o) ∘ rotPOS) = fun t => t.1 == p && t.2.1 == o := rfl
        rw [this, filter_and, flat_filter_a h2.kn, flat2_filter_b (wf2_lvl2 h2 p).kn, List.map_map]
        rfl
      | none =>
        simp only [idxCands, cands, e2]
        rw [List.filter_map]
        have : ((fun t : Triple => t.2.1 == p) ∘ rotPOS) = fun t => t.1 == p := rfl
        rw [this, flat_filter_a h2.kn, flat2_walk (wf2_lvl2 h2 p).kn, List.map_flatMap]
        simp only [List.map_map]
        rfl
    | none =>
      cases po with
      | some o =>
        simp only [idxCands, cands, e3]
        rw [List.filter_map]
        have : ((fun t : Triple => t.2.2 == o) ∘ rotOSP) = fun t => t.1 == o := rfl
        rw [this, flat_filter_a h3.kn, flat2_walk (wf2_lvl2 h3 o).kn, List.map_flatMap]
        simp only [List.map_map]
        rfl
      | none =>
        simp only [idxCands, cands, e1]
        exact (flat_walk h1).symm

end RV.C01
