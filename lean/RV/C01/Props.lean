import RV.C01.Lemmas
namespace RV.C01
end RV.C01
