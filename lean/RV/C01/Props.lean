import RV.C01.Lemmas
/-
  C01 — property theorems.

  "A Graph is exactly the set of triples its history implies, under every pattern."

  Specification = a mathematical set of (triple, graph) pairs, `QSet := Triple → Nat → Prop`,
  transformed by each operation in the obvious way (`Spec.step`).  The model (`Model.lean`)
  follows `rdflib/plugins/stores/memory.py` + the `Graph` methods of `rdflib/graph.py`.
  Statements first (`def Statement_… : Prop`), then the theorems.
-/
namespace RV.C01
open RV

/-! ### Specification -/

abbrev QSet := Triple → Nat → Prop

def QSet.empty : QSet := fun _ _ => False

/-- what each operation of the property does to a mathematical set of (triple, graph) pairs -/
def Spec.step (S : QSet) : Op → QSet
  | .add t0 g => fun t c => S t c ∨ (t = t0 ∧ c = g)
  | .addN g qs => fun t c => S t c ∨ (c = g ∧ (t, g, true) ∈ qs)
  | .remove pat g => fun t c => S t c ∧ ¬ (pat.matches t = true ∧ c = g)
  | .set t0 g => fun t c => (S t c ∧ ¬ ((t.1 = t0.1 ∧ t.2.1 = t0.2.1) ∧ c = g)) ∨ (t = t0 ∧ c = g)
  | .iadd g ts => fun t c => S t c ∨ (t ∈ ts ∧ c = g)
  | .iaddG g h => fun t c => S t c ∨ (S t h ∧ c = g)
  | .isub g ts => fun t c => S t c ∧ ¬ (t ∈ ts ∧ c = g)
  | .isubG g h => fun t c => S t c ∧ ¬ (S t h ∧ c = g)

def Spec.run (S : QSet) (ops : List Op) : QSet := ops.foldl Spec.step S

/-- abstraction of a `Memory` state: the pairs (triple, graph) it holds
    (`t` is in the `spo` index and `g` is among the contexts recorded for `t`) -/
def abs (m : Mem) : QSet := fun t g => t ∈ m.spo ∧ some g ∈ getCtxs m t

/-- every observation the property names agrees with the set `S`, with no duplicates and no exception -/
structure ObsAgree (m : Mem) (S : QSet) : Prop where
  no_raise : m.err = false ∧ ∀ pat, triplesRaises m pat = false
  /-- `len(g)` is the number of elements of the set, however it is enumerated -/
  len : ∀ g (l : List Triple), l.Nodup → (∀ t, t ∈ l ↔ S t g) → m.len (some g) = l.length
  /-- `t in g` -/
  contains : ∀ t g, m.contains t g = true ↔ S t g
  /-- `list(g)` -/
  iter : ∀ g, (m.graph g).Nodup ∧ ∀ t, t ∈ m.graph g ↔ S t g
  /-- `g.triples(pattern)` for every pattern (all eight bound/unbound shapes) -/
  triples : ∀ (pat : Pat) g,
    (RV.C01.triples m pat (some g)).Nodup ∧
      ∀ t, t ∈ RV.C01.triples m pat (some g) ↔ (S t g ∧ pat.matches t = true)
  /-- the store's union view (`store.triples(pattern, None)`, `len(store)`): the triples that are in some graph -/
  union : ∀ (pat : Pat),
    (RV.C01.triples m pat none).Nodup ∧
      ∀ t, t ∈ RV.C01.triples m pat none ↔ ((∃ g, S t g) ∧ pat.matches t = true)
  ulen : ∀ (l : List Triple), l.Nodup → (∀ t, t ∈ l ↔ ∃ g, S t g) → m.len none = l.length

/-! ### Statements: the default store `Memory` -/

/-- one operation: the invariant is kept and the abstraction commutes with the set semantics -/
def Statement_refine_step : Prop :=
  ∀ (m : Mem) (S : QSet) (op : Op), Inv m → (∀ t g, abs m t g ↔ S t g) →
    Inv (m.step op) ∧ ∀ t g, abs (m.step op) t g ↔ Spec.step S op t g

/-- every finite history of add / addN / remove (wildcards) / set / += / -= on graphs sharing one store:
    the store holds exactly the set the history implies, and len, membership, iteration and
    `triples` for every pattern agree with that set, without duplicates and without raising -/
def Statement_refine_history : Prop :=
  ∀ (ops : List Op),
    (∀ t g, abs (Mem.init.run ops) t g ↔ Spec.run QSet.empty ops t g) ∧
      ObsAgree (Mem.init.run ops) (Spec.run QSet.empty ops)

/-- each of the eight pattern shapes returns exactly the graph's triples matching the pattern -/
def Statement_triples_shape_complete : Prop :=
  ∀ (ops : List Op) (s p o : Option Nat) (g : Nat) (t : Triple),
    t ∈ triples (Mem.init.run ops) (s, p, o) (some g) ↔
      (abs (Mem.init.run ops) t g ∧ Pat.matches (s, p, o) t = true)

/-- `a + b`, `a - b`, `a * b`, `a ^ b` (operands after arbitrary histories, on the same or on different
    stores) build a new graph holding the union / difference / intersection / symmetric difference.
    (The operands are immutable values here; that reading them leaves the real stores unchanged is
    checked by the correspondence run after every operation.) -/
def Statement_binop_spec : Prop :=
  ∀ (opsA opsB : List Op) (a b r : Nat),
    let ma := Mem.init.run opsA
    let mb := Mem.init.run opsB
    let A := abs ma
    let B := abs mb
    let xs := ma.graph a
    let ys := mb.graph b
    let inA := fun x => ma.contains x a
    let inB := fun x => mb.contains x b
    (∀ t c, abs (gUnion xs ys r) t c ↔ ((A t a ∨ B t b) ∧ c = r)) ∧
    (∀ t c, abs (gDiff xs inB r) t c ↔ ((A t a ∧ ¬ B t b) ∧ c = r)) ∧
    (∀ t c, abs (gInter inA ys r) t c ↔ ((A t a ∧ B t b) ∧ c = r)) ∧
    (∀ t c, abs (gXor xs inA ys inB r) t c ↔ (((A t a ∧ ¬ B t b) ∨ (B t b ∧ ¬ A t a)) ∧ c = r)) ∧
    Inv (gUnion xs ys r) ∧ Inv (gDiff xs inB r) ∧ Inv (gInter inA ys r) ∧ Inv (gXor xs inA ys inB r)

/-- iteration under mutation (default store): for every history before the generator starts and every
    schedule of mutations, candidate loads and `next` steps, nothing raises and every yielded triple
    matched the pattern and was in the graph in one of the states since the generator began -/
def Statement_iter_sound : Prop :=
  ∀ (pre : List Op) (pat : Pat) (g : Nat) (evs : List Ev),
    schedRaises (Mem.init.run pre) (Iter.start (Mem.init.run pre) pat g) evs = false ∧
    ∀ y ∈ yields [Mem.init.run pre] (Mem.init.run pre) (Iter.start (Mem.init.run pre) pat g) evs,
      pat.matches y.1 = true ∧ ∃ m' ∈ y.2, abs m' y.1 g

/-! ### Statements: `SimpleMemory` -/

abbrev TSet := Triple → Prop

def SSpec.step (S : TSet) : SOp → TSet
  | .add t0 => fun t => S t ∨ t = t0
  | .addN g qs => fun t => S t ∨ (t, g, true) ∈ qs
  | .remove pat => fun t => S t ∧ ¬ pat.matches t = true
  | .set t0 => fun t => (S t ∧ ¬ (t.1 = t0.1 ∧ t.2.1 = t0.2.1)) ∨ t = t0
  | .iadd ts => fun t => S t ∨ t ∈ ts
  | .isub ts => fun t => S t ∧ t ∉ ts

def SSpec.run (S : TSet) (ops : List SOp) : TSet := ops.foldl SSpec.step S

def Statement_simple_refine_history : Prop :=
  ∀ (ops : List SOp),
    let m := SMem.init.run ops
    let S := SSpec.run (fun _ => False) ops
    m.err = false ∧ (∀ t, t ∈ m.spo ↔ S t) ∧
    (∀ (l : List Triple), l.Nodup → (∀ t, t ∈ l ↔ S t) → m.len = l.length) ∧
    (∀ t, m.contains t = true ↔ S t) ∧
    (∀ (s p o : Option Nat), (m.triples (s, p, o)).Nodup ∧
        ∀ t, t ∈ m.triples (s, p, o) ↔ (S t ∧ Pat.matches (s, p, o) t = true))

/-! ### Proofs -/

theorem abs_eq_InG (m : Mem) : abs m = InG m := rfl

theorem refine_step : Statement_refine_step := by
  intro m S op hI hS
  rw [abs_eq_InG] at hS ⊢
  refine ⟨step_inv hI op, ?_⟩
  intro t c
  cases op with
  | add t0 g => simp only [Mem.step, Spec.step, (add_spec hI t0 g).2, hS]
  | addN g qs => simp only [Mem.step, Spec.step, (addN_spec g qs m hI).2, hS]
  | remove pat g => simp only [Mem.step, Spec.step, (remove_spec hI pat g).2, hS]
  | set t0 g => simp only [Mem.step, Spec.step, (set_spec hI t0 g).2, hS]
  | iadd g ts => simp only [Mem.step, Spec.step, (iadd_spec hI g ts).2, hS]
  | iaddG g h => simp only [Mem.step, Spec.step, (iadd_spec hI g _).2, mem_graph hI, hS]
  | isub g ts => simp only [Mem.step, Spec.step, (isub_spec g ts m hI).2, hS]
  | isubG g h => simp only [Mem.step, Spec.step, (isub_spec g _ m hI).2, mem_graph hI, hS]

theorem refine_run : ∀ (ops : List Op) (m : Mem) (S : QSet), Inv m → (∀ t g, abs m t g ↔ S t g) →
    Inv (m.run ops) ∧ ∀ t g, abs (m.run ops) t g ↔ Spec.run S ops t g := by
  intro ops
  induction ops with
  | nil => intro m S hI hS; exact ⟨hI, hS⟩
  | cons op r ih =>
    intro m S hI hS
    obtain ⟨hI1, h1⟩ := refine_step m S op hI hS
    exact ih _ _ hI1 h1

theorem obsAgree_of {m : Mem} {S : QSet} (hI : Inv m) (hS : ∀ t g, abs m t g ↔ S t g) : ObsAgree m S := by
  rw [abs_eq_InG] at hS
  refine ⟨⟨hI.err, triplesRaises_false hI⟩, ?_, ?_, ?_, ?_, ?_, ?_⟩
  · intro g l hnd hl
    rw [len_eq]
    apply List.Perm.length_eq
    rw [List.perm_ext_iff_of_nodup (nodup_graph hI g) hnd]
    intro t
    rw [mem_graph hI, hS, hl]
  · intro t g; rw [contains_iff hI, hS]
  · intro g; exact ⟨nodup_graph hI g, fun t => by rw [mem_graph hI, hS]⟩
  · intro pat g
    exact ⟨nodup_triples hI pat _, fun t => by rw [mem_triples hI, hS]⟩
  · intro pat
    refine ⟨nodup_triples hI pat _, fun t => ?_⟩
    rw [mem_triples_ctx hI, union_iff hI]
    simp only [hS]
  · intro l hnd hl
    show (RV.C01.triples m allPat none).length = l.length
    apply List.Perm.length_eq
    rw [List.perm_ext_iff_of_nodup (nodup_triples hI _ _) hnd]
    intro t
    rw [mem_triples_ctx hI, union_iff hI, hl]
    simp [hS, allPat, Pat.matches, matchPos]

theorem refine_history : Statement_refine_history := by
  intro ops
  obtain ⟨hI, h⟩ := refine_run ops Mem.init QSet.empty inv_init
    (fun t g => by simp [abs, Mem.init, QSet.empty])
  exact ⟨h, obsAgree_of hI h⟩

theorem triples_shape_complete : Statement_triples_shape_complete := by
  intro ops s p o g t
  exact mem_triples (run_inv ops _ inv_init) (s, p, o) g t

theorem binop_spec : Statement_binop_spec := by
  intro opsA opsB a b r
  have hIa := run_inv opsA _ inv_init
  have hIb := run_inv opsB _ inv_init
  simp only [abs_eq_InG]
  have hU := ofList_spec r ((Mem.init.run opsA).graph a ++ (Mem.init.run opsB).graph b)
  have hD := ofList_spec r (((Mem.init.run opsA).graph a).filter (fun x => !(Mem.init.run opsB).contains x b))
  have hD' := ofList_spec r (((Mem.init.run opsB).graph b).filter (fun x => !(Mem.init.run opsA).contains x a))
  have hN := ofList_spec r (((Mem.init.run opsB).graph b).filter (fun x => (Mem.init.run opsA).contains x a))
  have hcA : ∀ x, (Mem.init.run opsA).contains x a = true ↔ InG (Mem.init.run opsA) x a := fun x => contains_iff hIa x a
  have hcB : ∀ x, (Mem.init.run opsB).contains x b = true ↔ InG (Mem.init.run opsB) x b := fun x => contains_iff hIb x b
  have hX := ofList_spec r
    ((Mem.ofList r (((Mem.init.run opsA).graph a).filter (fun x => !(Mem.init.run opsB).contains x b))).graph r ++
     (Mem.ofList r (((Mem.init.run opsB).graph b).filter (fun x => !(Mem.init.run opsA).contains x a))).graph r)
  refine ⟨?_, ?_, ?_, ?_, hU.1, hD.1, hN.1, hX.1⟩
  · intro t c
    simp only [gUnion, hU.2, List.mem_append, mem_graph hIa, mem_graph hIb]
  · intro t c
    simp only [gDiff, hD.2, List.mem_filter, mem_graph hIa, Bool.not_eq_true', ← Bool.not_eq_true, hcB]
  · intro t c
    simp only [gInter, hN.2, List.mem_filter, mem_graph hIb, hcA]
    constructor
    · rintro ⟨⟨h1, h2⟩, h3⟩; exact ⟨⟨h2, h1⟩, h3⟩
    · rintro ⟨⟨h1, h2⟩, h3⟩; exact ⟨⟨h2, h1⟩, h3⟩
  · intro t c
    simp only [gXor, gUnion, gDiff, hX.2, List.mem_append, mem_graph hD.1, mem_graph hD'.1]
    simp only [hD.2, hD'.2, List.mem_filter, mem_graph hIa, mem_graph hIb, Bool.not_eq_true',
      ← Bool.not_eq_true, hcA, hcB, and_true]

theorem iter_sound : Statement_iter_sound := by
  intro pre pat g evs
  have hI := run_inv pre _ inv_init
  refine ⟨sched_no_raise evs _ _ hI, ?_⟩
  exact yields_sound pat g evs [Mem.init.run pre] (Mem.init.run pre) _ hI (by simp)
    (start_pat _ _ _) (start_g _ _ _) (pendingOk_start hI pat g)

theorem simple_refine_run : ∀ (ops : List SOp) (m : SMem) (S : TSet), SInv m → (∀ t, t ∈ m.spo ↔ S t) →
    SInv (m.run ops) ∧ ∀ t, t ∈ (m.run ops).spo ↔ SSpec.run S ops t := by
  intro ops
  induction ops with
  | nil => intro m S hI hS; exact ⟨hI, hS⟩
  | cons op r ih =>
    intro m S hI hS
    have : SInv (m.step op) ∧ ∀ t, t ∈ (m.step op).spo ↔ SSpec.step S op t := by
      cases op with
      | add t0 => exact ⟨(sadd_spec hI t0).1, fun t => by simp only [SMem.step, SSpec.step, (sadd_spec hI t0).2, hS]⟩
      | addN g qs =>
        exact ⟨(saddN_spec g qs m hI).1, fun t => by simp only [SMem.step, SSpec.step, (saddN_spec g qs m hI).2, hS]⟩
      | remove pat =>
        exact ⟨(sremove_spec hI pat).1, fun t => by simp only [SMem.step, SSpec.step, (sremove_spec hI pat).2, hS]⟩
      | set t0 => exact ⟨(sset_spec hI t0).1, fun t => by simp only [SMem.step, SSpec.step, (sset_spec hI t0).2, hS]⟩
      | iadd ts => exact ⟨(siadd_spec ts m hI).1, fun t => by simp only [SMem.step, SSpec.step, (siadd_spec ts m hI).2, hS]⟩
      | isub ts => exact ⟨(sisub_spec ts m hI).1, fun t => by simp only [SMem.step, SSpec.step, (sisub_spec ts m hI).2, hS]⟩
    exact ih _ _ this.1 this.2

theorem simple_refine_history : Statement_simple_refine_history := by
  intro ops
  obtain ⟨hI, h⟩ := simple_refine_run ops SMem.init (fun _ => False) sinv_init (fun t => by simp [SMem.init])
  refine ⟨hI.err, h, ?_, ?_, ?_⟩
  · intro l hnd hl
    unfold SMem.len
    apply List.Perm.length_eq
    rw [List.perm_ext_iff_of_nodup (nodup_striples hI _) hnd]
    intro t
    rw [mem_striples hI, hl, h]
    simp [allPat, Pat.matches, matchPos]
  · intro t; rw [scontains_iff hI, h]
  · intro s p o
    exact ⟨nodup_striples hI _, fun t => by rw [mem_striples hI, h]⟩

/-! ### Non-vacuity: a reachable state with one context set compressed to the default and one explicit -/

def exOps : List Op :=
  [.add (1, 2, 3) 0, .add (1, 2, 3) 1, .add (4, 2, 0) 0, .addN 1 [((4, 2, 0), 1, true), ((7, 7, 7), 2, true)],
   .remove (some 1, none, none) 0, .set (4, 2, 9) 1, .isubG 0 1]

example : (Mem.init.run exOps).dflt = some [some 0, none] ∧ (Mem.init.run exOps).tctx.length = 2 ∧
    (Mem.init.run exOps).graph 0 = [(4, 2, 0)] ∧ (Mem.init.run exOps).graph 1 = [(1, 2, 3), (4, 2, 9)] ∧
    triples (Mem.init.run exOps) (none, some 2, none) (some 1) = [(1, 2, 3), (4, 2, 9)] := by decide

/-- a schedule on which the generator really yields between mutations -/
def exEvs : List Ev :=
  [.load [(1, 2, 3), (1, 2, 4)], .next, .mutate (.remove (some 1, some 2, some 4) 1), .next]

example : (yields [Mem.init.run [.add (1, 2, 3) 0, .add (1, 2, 4) 1]] (Mem.init.run [.add (1, 2, 3) 0, .add (1, 2, 4) 1])
    (Iter.start (Mem.init.run [.add (1, 2, 3) 0, .add (1, 2, 4) 1]) (some 1, some 2, none) 0) exEvs).map (·.1)
      = [(1, 2, 3)] := by decide

/-! ### Finding C01-F1 (fixed): the has-context test of the pinned code.
    With `__triple_has_context` answering from the default context set for a triple that is no longer
    in the store, the same schedule yields `(1,2,4)`, which was never in graph 0. -/

theorem pinned_has_context_yields_ghost :
    ¬ (∀ y ∈ yieldsPinned [Mem.init.run [.add (1, 2, 3) 0, .add (1, 2, 4) 1]]
          (Mem.init.run [.add (1, 2, 3) 0, .add (1, 2, 4) 1])
          (Iter.start (Mem.init.run [.add (1, 2, 3) 0, .add (1, 2, 4) 1]) (some 1, some 2, none) 0) exEvs,
        ∃ m' ∈ y.2, InG m' y.1 0) := by decide

end RV.C01
