import RV.C01.Lemmas
import RV.C01.LemNSimple
import RV.C01.LemGen
/-
  C01 — property theorems.

  "A Graph is exactly the set of triples its history implies, under every pattern."

  Specification = a mathematical set of (triple, graph) pairs, `QSet := Triple → Nat → Prop`,
  transformed by each operation in the obvious way (`Spec.step`).  The model (`Model.lean`)
  follows `rdflib/plugins/stores/memory.py` + the `Graph` methods of `rdflib/graph.py`.
  Statements first (`def Statement_… : Prop`), then the theorems.
-/
namespace RV.C01
open RV

/-! ### Specification -/

abbrev QSet := Triple → Nat → Prop

def QSet.empty : QSet := fun _ _ => False

/-- what each operation of the property does to a mathematical set of (triple, graph) pairs -/
def Spec.step (S : QSet) : Op → QSet
  | .add t0 g => fun t c => S t c ∨ (t = t0 ∧ c = g)
  | .addN g qs => fun t c => S t c ∨ (c = g ∧ (t, g, true) ∈ qs)
  | .remove pat g => fun t c => S t c ∧ ¬ (pat.matches t = true ∧ c = g)
  | .set t0 g => fun t c => (S t c ∧ ¬ ((t.1 = t0.1 ∧ t.2.1 = t0.2.1) ∧ c = g)) ∨ (t = t0 ∧ c = g)
  | .iadd g ts => fun t c => S t c ∨ (t ∈ ts ∧ c = g)
  | .iaddG g h => fun t c => S t c ∨ (S t h ∧ c = g)
  | .isub g ts => fun t c => S t c ∧ ¬ (t ∈ ts ∧ c = g)
  | .isubG g h => fun t c => S t c ∧ ¬ (S t h ∧ c = g)

def Spec.run (S : QSet) (ops : List Op) : QSet := ops.foldl Spec.step S

/-- abstraction of a `Memory` state: the pairs (triple, graph) it holds
    (`t` is in the `spo` index and `g` is among the contexts recorded for `t`) -/
def abs (m : Mem) : QSet := fun t g => t ∈ m.spo ∧ some g ∈ getCtxs m t

/-- every observation the property names agrees with the set `S`, with no duplicates and no exception -/
structure ObsAgree (m : Mem) (S : QSet) : Prop where
  no_raise : m.err = false ∧ ∀ pat, triplesRaises m pat = false
  /-- `len(g)` is the number of elements of the set, however it is enumerated -/
  len : ∀ g (l : List Triple), l.Nodup → (∀ t, t ∈ l ↔ S t g) → m.len (some g) = l.length
  /-- `t in g` -/
  contains : ∀ t g, m.contains t g = true ↔ S t g
  /-- `list(g)` -/
  iter : ∀ g, (m.graph g).Nodup ∧ ∀ t, t ∈ m.graph g ↔ S t g
  /-- `g.triples(pattern)` for every pattern (all eight bound/unbound shapes) -/
  triples : ∀ (pat : Pat) g,
    (RV.C01.triples m pat (some g)).Nodup ∧
      ∀ t, t ∈ RV.C01.triples m pat (some g) ↔ (S t g ∧ pat.matches t = true)
  /-- the store's union view (`store.triples(pattern, None)`, `len(store)`): the triples that are in some graph -/
  union : ∀ (pat : Pat),
    (RV.C01.triples m pat none).Nodup ∧
      ∀ t, t ∈ RV.C01.triples m pat none ↔ ((∃ g, S t g) ∧ pat.matches t = true)
  ulen : ∀ (l : List Triple), l.Nodup → (∀ t, t ∈ l ↔ ∃ g, S t g) → m.len none = l.length

/-! ### Statements: the default store `Memory` -/

/-- one operation: the invariant is kept and the abstraction commutes with the set semantics -/
def Statement_refine_step : Prop :=
  ∀ (m : Mem) (S : QSet) (op : Op), Inv m → (∀ t g, abs m t g ↔ S t g) →
    Inv (m.step op) ∧ ∀ t g, abs (m.step op) t g ↔ Spec.step S op t g

/-- every finite history of add / addN / remove (wildcards) / set / += / -= on graphs sharing one store:
    the store holds exactly the set the history implies, and len, membership, iteration and
    `triples` for every pattern agree with that set, without duplicates and without raising -/
def Statement_refine_history : Prop :=
  ∀ (ops : List Op),
    (∀ t g, abs (Mem.init.run ops) t g ↔ Spec.run QSet.empty ops t g) ∧
      ObsAgree (Mem.init.run ops) (Spec.run QSet.empty ops)

/-- each of the eight pattern shapes returns exactly the graph's triples matching the pattern -/
def Statement_triples_shape_complete : Prop :=
  ∀ (ops : List Op) (s p o : Option Nat) (g : Nat) (t : Triple),
    t ∈ triples (Mem.init.run ops) (s, p, o) (some g) ↔
      (abs (Mem.init.run ops) t g ∧ Pat.matches (s, p, o) t = true)

/-- `a + b`, `a - b`, `a * b`, `a ^ b` (operands after arbitrary histories, on the same or on different
    stores) build a new graph holding the union / difference / intersection / symmetric difference.
    (The operands are immutable values here; that reading them leaves the real stores unchanged is
    checked by the correspondence run after every operation.) -/
def Statement_binop_spec : Prop :=
  ∀ (opsA opsB : List Op) (a b r : Nat),
    let ma := Mem.init.run opsA
    let mb := Mem.init.run opsB
    let A := abs ma
    let B := abs mb
    let xs := ma.graph a
    let ys := mb.graph b
    let inA := fun x => ma.contains x a
    let inB := fun x => mb.contains x b
    (∀ t c, abs (gUnion xs ys r) t c ↔ ((A t a ∨ B t b) ∧ c = r)) ∧
    (∀ t c, abs (gDiff xs inB r) t c ↔ ((A t a ∧ ¬ B t b) ∧ c = r)) ∧
    (∀ t c, abs (gInter inA ys r) t c ↔ ((A t a ∧ B t b) ∧ c = r)) ∧
    (∀ t c, abs (gXor xs inA ys inB r) t c ↔ (((A t a ∧ ¬ B t b) ∨ (B t b ∧ ¬ A t a)) ∧ c = r)) ∧
    Inv (gUnion xs ys r) ∧ Inv (gDiff xs inB r) ∧ Inv (gInter inA ys r) ∧ Inv (gXor xs inA ys inB r)

/-- iteration under mutation (default store): for every history (store-level and `Graph`-level calls) before
    the generator starts and every schedule of such mutations, candidate loads and `next` steps, nothing raises and every yielded triple
    matched the pattern and was in the graph in one of the states since the generator began -/
def Statement_iter_sound : Prop :=
  ∀ (pre : List StOp) (pat : Pat) (g : Nat) (evs : List Ev),
    schedRaises (Mem.init.stRun pre) (Iter.start (Mem.init.stRun pre) pat g) evs = false ∧
    ∀ y ∈ yields [Mem.init.stRun pre] (Mem.init.stRun pre) (Iter.start (Mem.init.stRun pre) pat g) evs,
      pat.matches y.1 = true ∧ ∃ m' ∈ y.2, abs m' y.1 g

/-! ### Statements: the `Memory` store API itself (what C02, C10, C13, C18, C20 assume of the store)

  Specification = a pair `(Q, K)`: `Q` the set of (triple, graph) pairs, `K` the set of registered
  graphs.  It is the abstraction C02 uses for `Memory` (`RV.C02.Mem`: `qs` read as a set = `Q`, `allc` read
  as a set = `K`), restated here with sets instead of duplicate-free lists. -/

structure QK where
  Q : QSet
  K : Nat → Prop

def QK.empty : QK := ⟨QSet.empty, fun _ => False⟩

/-- the graphs registered by a `Graph`-level operation (every `Memory.add` it performs registers its context) -/
def KSpec.step (Q : QSet) (K : Nat → Prop) : Op → (Nat → Prop)
  | .add _ g => fun k => K k ∨ k = g
  | .addN g qs => fun k => K k ∨ (k = g ∧ ∃ t, (t, g, true) ∈ qs)
  | .remove _ _ => K
  | .set _ g => fun k => K k ∨ k = g
  | .iadd g ts => fun k => K k ∨ (k = g ∧ ∃ t, t ∈ ts)
  | .iaddG g h => fun k => K k ∨ (k = g ∧ ∃ t, Q t h)
  | .isub _ _ => K
  | .isubG _ _ => K

/-- `add(t, c)`: `Q ∪ {(t,c)}`, `K ∪ {c}`;  `remove(pat, ctx|None)`: the matching pairs of graph `ctx` (of every
    graph for `None`) leave `Q`, `K` unchanged (an emptied graph stays registered);  `add_graph(k)`: `K ∪ {k}`;
    `remove_graph(k)`: all pairs of `k` leave `Q`, `K \ {k}` -/
def QK.step (S : QK) : StOp → QK
  | .add t0 c => ⟨fun t g => S.Q t g ∨ (t = t0 ∧ g = c), fun k => S.K k ∨ k = c⟩
  | .remove pat ctx => ⟨fun t g => S.Q t g ∧ ¬ (pat.matches t = true ∧ (ctx = none ∨ ctx = some g)), S.K⟩
  | .addGraph k0 => ⟨S.Q, fun k => S.K k ∨ k = k0⟩
  | .removeGraph k0 => ⟨fun t g => S.Q t g ∧ g ≠ k0, fun k => S.K k ∧ k ≠ k0⟩
  | .graph op => ⟨Spec.step S.Q op, KSpec.step S.Q S.K op⟩

def QK.run (S : QK) (ops : List StOp) : QK := ops.foldl QK.step S

/-- the triples visible through `context` (`none` = `None` = every graph) -/
def QK.sees (S : QK) (ctx : Option Nat) (t : Triple) : Prop := ∃ g, S.Q t g ∧ (ctx = none ∨ ctx = some g)

/-- every answer of the store API agrees with `(Q, K)`; no duplicates, no exception -/
structure StoreObsAgree (m : Mem) (S : QK) : Prop where
  no_raise : m.err = false ∧ ∀ pat, triplesRaises m pat = false
  /-- `store.triples(pattern, context)`, all eight shapes, `context` a graph or `None`: the distinct matching
      triples visible through the context … -/
  triples : ∀ (pat : Pat) (ctx : Option Nat),
    (RV.C01.triples m pat ctx).Nodup ∧
      ∀ t, t ∈ RV.C01.triples m pat ctx ↔ (S.sees ctx t ∧ pat.matches t = true)
  /-- … each yielded with exactly the graphs it is asserted in (`__contexts(triple)`) -/
  triple_ctxs : ∀ (pat : Pat) (ctx : Option Nat) (e : Triple × List Nat), e ∈ m.triplesC pat ctx →
    e.1 ∈ RV.C01.triples m pat ctx ∧ e.2.Nodup ∧ ∀ k, k ∈ e.2 ↔ S.Q e.1 k
  /-- `store.__len__(context)` = number of triples visible through the context -/
  len : ∀ (ctx : Option Nat) (l : List Triple), l.Nodup → (∀ t, t ∈ l ↔ S.sees ctx t) → m.len ctx = l.length
  /-- `store.contexts()` = the registered graphs -/
  contexts_all : (m.contexts (none, none, none)).Nodup ∧ ∀ k, k ∈ m.contexts (none, none, none) ↔ S.K k
  /-- `store.contexts(t)` = the graphs `t` is asserted in -/
  contexts_of : ∀ (s p o : Nat),
    (m.contexts (some s, some p, some o)).Nodup ∧ ∀ k, k ∈ m.contexts (some s, some p, some o) ↔ S.Q (s, p, o) k
  /-- `store.contexts(pattern)` with an unbound position (but not all): nothing (`KeyError` caught) -/
  contexts_partial : ∀ (s p o : Option Nat), ¬ (s = none ∧ p = none ∧ o = none) →
    ¬ (s.isSome = true ∧ p.isSome = true ∧ o.isSome = true) → m.contexts (s, p, o) = []

/-- `memory_refines_quadset`: for every finite history of store-level calls (`add`, `remove` with a graph or
    `None`, `add_graph`, `remove_graph`) freely mixed with `Graph`-level operations, the `Memory` model
    (indexes, context compression, `__contextTriples`, `__all_contexts`) represents exactly the pair
    `(Q, K)` the history implies, and every observable answer equals the set-theoretic one -/
def Statement_memory_refines_quadset : Prop :=
  ∀ (ops : List StOp),
    (∀ t g, abs (Mem.init.stRun ops) t g ↔ (QK.run QK.empty ops).Q t g) ∧
    (∀ k, k ∈ (Mem.init.stRun ops).allc ↔ (QK.run QK.empty ops).K k) ∧
    StoreObsAgree (Mem.init.stRun ops) (QK.run QK.empty ops)

/-! ### Statements: `SimpleMemory` -/

abbrev TSet := Triple → Prop

def SSpec.step (S : TSet) : SOp → TSet
  | .add t0 => fun t => S t ∨ t = t0
  | .addN g qs => fun t => S t ∨ (t, g, true) ∈ qs
  | .remove pat => fun t => S t ∧ ¬ pat.matches t = true
  | .set t0 => fun t => (S t ∧ ¬ (t.1 = t0.1 ∧ t.2.1 = t0.2.1)) ∨ t = t0
  | .iadd ts => fun t => S t ∨ t ∈ ts
  | .isub ts => fun t => S t ∧ t ∉ ts

def SSpec.run (S : TSet) (ops : List SOp) : TSet := ops.foldl SSpec.step S

def Statement_simple_refine_history : Prop :=
  ∀ (ops : List SOp),
    let m := SMem.init.run ops
    let S := SSpec.run (fun _ => False) ops
    m.err = false ∧ (∀ t, t ∈ m.spo ↔ S t) ∧
    (∀ (l : List Triple), l.Nodup → (∀ t, t ∈ l ↔ S t) → m.len = l.length) ∧
    (∀ t, m.contains t = true ↔ S t) ∧
    (∀ (s p o : Option Nat), (m.triples (s, p, o)).Nodup ∧
        ∀ t, t ∈ m.triples (s, p, o) ↔ (S t ∧ Pat.matches (s, p, o) t = true))

/-! ### Statements: binary operators over operands of ANY store; `Graph.__iter__` under mutation -/

/-- an operand of `+ - * ^` (`| &` are aliases; `|= &= ^=` rebind to the new graph): a graph of a default
    store after any store-level / Graph-level history, or the graph of a `SimpleMemory` after any history -/
inductive Operand
  | mem (ops : List StOp) (g : Nat)
  | simple (ops : List SOp)

def Operand.view : Operand → View
  | .mem ops g => View.ofMem (Mem.init.stRun ops) g
  | .simple ops => View.ofSimple (SMem.init.run ops)

/-- the set of triples the operand denotes, by the *specifications* of the two stores -/
def Operand.set : Operand → Triple → Prop
  | .mem ops g => fun t => (QK.run QK.empty ops).Q t g
  | .simple ops => SSpec.run (fun _ => False) ops

/-- whatever stores the two operands live on (same `Memory`, two `Memory`s, `SimpleMemory`, mixed), the new
    graph holds exactly the union / difference / intersection / symmetric difference of the two sets -/
def Statement_binop_any_store : Prop :=
  ∀ (a b : Operand) (r : Nat),
    (∀ t c, abs (a.view.union b.view r) t c ↔ ((a.set t ∨ b.set t) ∧ c = r)) ∧
    (∀ t c, abs (a.view.diff b.view r) t c ↔ ((a.set t ∧ ¬ b.set t) ∧ c = r)) ∧
    (∀ t c, abs (a.view.inter b.view r) t c ↔ ((a.set t ∧ b.set t) ∧ c = r)) ∧
    (∀ t c, abs (a.view.xor b.view r) t c ↔ (((a.set t ∧ ¬ b.set t) ∨ (b.set t ∧ ¬ a.set t)) ∧ c = r)) ∧
    Inv (a.view.union b.view r) ∧ Inv (a.view.diff b.view r) ∧ Inv (a.view.inter b.view r) ∧
    Inv (a.view.xor b.view r)

/-- `for t in g` / `g.triples((None, None, None))` overlapped with ANY mutations of the store: the k-th `next()`
    yields the k-th element of the copy taken when the generator began — i.e. the iteration is exactly the
    graph's content at its start (each triple once, see `refine_history`/`memory_refines_quadset` for the
    copy being duplicate-free and equal to the set), untouched by what happens meanwhile.  This is what makes
    the idiom `for t in g: g.remove(t)` safe on the default store. -/
def Statement_iter_all_is_snapshot : Prop :=
  ∀ (pre : List StOp) (g : Nat) (evs : List Ev),
    (yields [Mem.init.stRun pre] (Mem.init.stRun pre) (Iter.start (Mem.init.stRun pre) allPat g) evs).map (fun y => y.1)
      = ((Mem.init.stRun pre).graph g).take (countNext evs)

/-! ### Proofs -/

theorem abs_eq_InG (m : Mem) : abs m = InG m := rfl

theorem refine_step : Statement_refine_step := by
  intro m S op hI hS
  rw [abs_eq_InG] at hS ⊢
  refine ⟨step_inv hI op, ?_⟩
  intro t c
  cases op with
  | add t0 g => simp only [Mem.step, Spec.step, (add_spec hI t0 g).2, hS]
  | addN g qs => simp only [Mem.step, Spec.step, (addN_spec g qs m hI).2, hS]
  | remove pat g => simp only [Mem.step, Spec.step, (remove_spec hI pat g).2, hS]
  | set t0 g => simp only [Mem.step, Spec.step, (set_spec hI t0 g).2, hS]
  | iadd g ts => simp only [Mem.step, Spec.step, (iadd_spec hI g ts).2, hS]
  | iaddG g h => simp only [Mem.step, Spec.step, (iadd_spec hI g _).2, mem_graph hI, hS]
  | isub g ts => simp only [Mem.step, Spec.step, (isub_spec g ts m hI).2, hS]
  | isubG g h => simp only [Mem.step, Spec.step, (isub_spec g _ m hI).2, mem_graph hI, hS]

theorem refine_run : ∀ (ops : List Op) (m : Mem) (S : QSet), Inv m → (∀ t g, abs m t g ↔ S t g) →
    Inv (m.run ops) ∧ ∀ t g, abs (m.run ops) t g ↔ Spec.run S ops t g := by
  intro ops
  induction ops with
  | nil => intro m S hI hS; exact ⟨hI, hS⟩
  | cons op r ih =>
    intro m S hI hS
    obtain ⟨hI1, h1⟩ := refine_step m S op hI hS
    exact ih _ _ hI1 h1

theorem obsAgree_of {m : Mem} {S : QSet} (hI : Inv m) (hS : ∀ t g, abs m t g ↔ S t g) : ObsAgree m S := by
  rw [abs_eq_InG] at hS
  refine ⟨⟨hI.err, triplesRaises_false hI⟩, ?_, ?_, ?_, ?_, ?_, ?_⟩
  · intro g l hnd hl
    rw [len_eq]
    apply List.Perm.length_eq
    rw [List.perm_ext_iff_of_nodup (nodup_graph hI g) hnd]
    intro t
    rw [mem_graph hI, hS, hl]
  · intro t g; rw [contains_iff hI, hS]
  · intro g; exact ⟨nodup_graph hI g, fun t => by rw [mem_graph hI, hS]⟩
  · intro pat g
    exact ⟨nodup_triples hI pat _, fun t => by rw [mem_triples hI, hS]⟩
  · intro pat
    refine ⟨nodup_triples hI pat _, fun t => ?_⟩
    rw [mem_triples_ctx hI, union_iff hI]
    simp only [hS]
  · intro l hnd hl
    show (RV.C01.triples m allPat none).length = l.length
    apply List.Perm.length_eq
    rw [List.perm_ext_iff_of_nodup (nodup_triples hI _ _) hnd]
    intro t
    rw [mem_triples_ctx hI, union_iff hI, hl]
    simp [hS, allPat, Pat.matches, matchPos]

theorem refine_history : Statement_refine_history := by
  intro ops
  obtain ⟨hI, h⟩ := refine_run ops Mem.init QSet.empty inv_init
    (fun t g => by simp [abs, Mem.init, QSet.empty])
  exact ⟨h, obsAgree_of hI h⟩

theorem triples_shape_complete : Statement_triples_shape_complete := by
  intro ops s p o g t
  exact mem_triples (run_inv ops _ inv_init) (s, p, o) g t

theorem binop_spec : Statement_binop_spec := by
  intro opsA opsB a b r
  have hIa := run_inv opsA _ inv_init
  have hIb := run_inv opsB _ inv_init
  simp only [abs_eq_InG]
  have hU := ofList_spec r ((Mem.init.run opsA).graph a ++ (Mem.init.run opsB).graph b)
  have hD := ofList_spec r (((Mem.init.run opsA).graph a).filter (fun x => !(Mem.init.run opsB).contains x b))
  have hD' := ofList_spec r (((Mem.init.run opsB).graph b).filter (fun x => !(Mem.init.run opsA).contains x a))
  have hN := ofList_spec r (((Mem.init.run opsB).graph b).filter (fun x => (Mem.init.run opsA).contains x a))
  have hcA : ∀ x, (Mem.init.run opsA).contains x a = true ↔ InG (Mem.init.run opsA) x a := fun x => contains_iff hIa x a
  have hcB : ∀ x, (Mem.init.run opsB).contains x b = true ↔ InG (Mem.init.run opsB) x b := fun x => contains_iff hIb x b
  have hX := ofList_spec r
    ((Mem.ofList r (((Mem.init.run opsA).graph a).filter (fun x => !(Mem.init.run opsB).contains x b))).graph r ++
     (Mem.ofList r (((Mem.init.run opsB).graph b).filter (fun x => !(Mem.init.run opsA).contains x a))).graph r)
  refine ⟨?_, ?_, ?_, ?_, hU.1, hD.1, hN.1, hX.1⟩
  · intro t c
    simp only [gUnion, hU.2, List.mem_append, mem_graph hIa, mem_graph hIb]
  · intro t c
    simp only [gDiff, hD.2, List.mem_filter, mem_graph hIa, Bool.not_eq_true', ← Bool.not_eq_true, hcB]
  · intro t c
    simp only [gInter, hN.2, List.mem_filter, mem_graph hIb, hcA]
    constructor
    · rintro ⟨⟨h1, h2⟩, h3⟩; exact ⟨⟨h2, h1⟩, h3⟩
    · rintro ⟨⟨h1, h2⟩, h3⟩; exact ⟨⟨h2, h1⟩, h3⟩
  · intro t c
    simp only [gXor, gUnion, gDiff, hX.2, List.mem_append, mem_graph hD.1, mem_graph hD'.1]
    simp only [hD.2, hD'.2, List.mem_filter, mem_graph hIa, mem_graph hIb, Bool.not_eq_true',
      ← Bool.not_eq_true, hcA, hcB, and_true]

theorem iter_sound : Statement_iter_sound := by
  intro pre pat g evs
  have hI := stRun_inv pre _ inv_init
  refine ⟨sched_no_raise evs _ _ hI, ?_⟩
  exact yields_sound pat g evs [Mem.init.stRun pre] (Mem.init.stRun pre) _ hI (by simp)
    (start_pat _ _ _) (start_g _ _ _) (pendingOk_start hI pat g)

theorem iter_all_is_snapshot : Statement_iter_all_is_snapshot := by
  intro pre g evs
  exact yields_fast evs _ _ (Iter.start (Mem.init.stRun pre) allPat g) rfl

/-- simulation relation between the store model and `(Q, K)` -/
structure StSim (m : Mem) (S : QK) : Prop where
  inv : Inv m
  nd : m.allc.Nodup
  q : ∀ t g, abs m t g ↔ S.Q t g
  k : ∀ k, k ∈ m.allc ↔ S.K k

theorem stSim_step {m : Mem} {S : QK} (h : StSim m S) (op : StOp) : StSim (m.stStep op) (S.step op) := by
  have hI := h.inv
  refine ⟨stStep_inv hI op, nodup_allc_stStep hI h.nd op, ?_, ?_⟩
  · have hq := h.q
    rw [abs_eq_InG] at hq ⊢
    intro t g
    cases op with
    | add t0 c => simp only [Mem.stStep, QK.step, (add_spec hI t0 c).2, hq]
    | remove pat ctx => simp only [Mem.stStep, QK.step, (remove_ctx_spec hI pat ctx).2, hq]
    | addGraph k0 => exact hq t g
    | removeGraph k0 => simp only [Mem.stStep, QK.step, (removeGraph_spec hI k0).2.1, hq]
    | graph op => exact (refine_step m S.Q op hI h.q).2 t g
  · have hk := h.k
    have hq := h.q
    rw [abs_eq_InG] at hq
    intro k
    cases op with
    | add t0 c => simp only [Mem.stStep, QK.step, allc_add, mem_sinsert, hk]; exact or_comm
    | remove pat ctx => simp only [Mem.stStep, QK.step, allc_remove, hk]
    | addGraph k0 => simp only [Mem.stStep, QK.step, Mem.addGraph, Mem.register, mem_sinsert, hk]; exact or_comm
    | removeGraph k0 =>
      simp only [Mem.stStep, QK.step, (removeGraph_spec hI k0).2.2, mem_sremove, hk]; exact and_comm
    | graph op =>
      cases op with
      | add t0 g => simp only [Mem.stStep, Mem.step, QK.step, KSpec.step, allc_add, mem_sinsert, hk]; exact or_comm
      | addN g qs => simp only [Mem.stStep, Mem.step, QK.step, KSpec.step, mem_allc_addN, hk]
      | remove pat g => simp only [Mem.stStep, Mem.step, QK.step, KSpec.step, allc_remove, hk]
      | set t0 g => simp only [Mem.stStep, Mem.step, QK.step, KSpec.step, allc_set, mem_sinsert, hk]; exact or_comm
      | iadd g ts => simp only [Mem.stStep, Mem.step, QK.step, KSpec.step, mem_allc_iadd, hk]
      | iaddG g h' =>
        simp only [Mem.stStep, Mem.step, QK.step, KSpec.step, mem_allc_iadd, hk, mem_graph hI, hq]
      | isub g ts => simp only [Mem.stStep, Mem.step, QK.step, KSpec.step, allc_isub, hk]
      | isubG g h' => simp only [Mem.stStep, Mem.step, QK.step, KSpec.step, allc_isub, hk]

theorem stSim_run : ∀ (ops : List StOp) (m : Mem) (S : QK), StSim m S → StSim (m.stRun ops) (S.run ops) := by
  intro ops
  induction ops with
  | nil => intro m S h; exact h
  | cons op r ih => intro m S h; exact ih _ _ (stSim_step h op)

theorem storeObsAgree_of {m : Mem} {S : QK} (h : StSim m S) : StoreObsAgree m S := by
  have hI := h.inv
  have hq := h.q
  rw [abs_eq_InG] at hq
  have hsees : ∀ (ctx : Option Nat) t, (t ∈ m.spo ∧ ctx ∈ getCtxs m t) ↔ S.sees ctx t := by
    intro ctx t
    cases ctx with
    | none =>
      rw [union_iff hI]
      simp only [QK.sees, true_or, and_true, hq]
    | some g =>
      simp only [QK.sees, reduceCtorEq, false_or, Option.some.injEq]
      constructor
      · intro hin; exact ⟨g, (hq t g).1 hin, rfl⟩
      · rintro ⟨g', h1, h2⟩; subst h2; exact (hq t g).2 h1
  have hkeys : ∀ t, t ∈ m.spo → (ctxKeys m t).Nodup ∧ ∀ k, k ∈ ctxKeys m t ↔ S.Q t k := by
    intro t ht
    refine ⟨nodup_keysOf (hI.ctxs_nd t), fun k => ?_⟩
    rw [mem_ctxKeys, ← hq]
    exact ⟨fun hc => ⟨ht, hc⟩, fun hc => hc.2⟩
  refine ⟨⟨hI.err, triplesRaises_false hI⟩, ?_, ?_, ?_, ⟨h.nd, h.k⟩, ?_, ?_⟩
  · intro pat ctx
    exact ⟨nodup_triples hI pat ctx, fun t => by rw [mem_triples_ctx hI, hsees]⟩
  · intro pat ctx e he
    simp only [Mem.triplesC, List.mem_map] at he
    obtain ⟨t, ht, rfl⟩ := he
    have hin := ((mem_triples_ctx hI pat ctx t).1 ht).1.1
    exact ⟨ht, hkeys t hin⟩
  · intro ctx l hnd hl
    show (RV.C01.triples m allPat ctx).length = l.length
    apply List.Perm.length_eq
    rw [List.perm_ext_iff_of_nodup (nodup_triples hI _ _) hnd]
    intro t
    rw [mem_triples_ctx hI, hsees, hl]
    simp [allPat, Pat.matches, matchPos]
  · intro s p o
    simp only [Mem.contexts]
    by_cases hin : (s, p, o) ∈ m.spo
    · simp only [hin, if_true]; exact hkeys _ hin
    · simp only [hin, if_false, List.nodup_nil, List.not_mem_nil, false_iff, true_and]
      intro k hk; exact hin ((hq _ _).2 hk).1
  · intro s p o h1 h2
    cases s <;> cases p <;> cases o <;> simp_all [Mem.contexts]

theorem memory_refines_quadset : Statement_memory_refines_quadset := by
  intro ops
  have h0 : StSim Mem.init QK.empty :=
    ⟨inv_init, by simp [Mem.init], fun t g => by simp [abs, Mem.init, QK.empty, QSet.empty],
      fun k => by simp [Mem.init, QK.empty]⟩
  have h := stSim_run ops _ _ h0
  exact ⟨h.q, h.k, storeObsAgree_of h⟩

theorem simple_refine_run : ∀ (ops : List SOp) (m : SMem) (S : TSet), SInv m → (∀ t, t ∈ m.spo ↔ S t) →
    SInv (m.run ops) ∧ ∀ t, t ∈ (m.run ops).spo ↔ SSpec.run S ops t := by
  intro ops
  induction ops with
  | nil => intro m S hI hS; exact ⟨hI, hS⟩
  | cons op r ih =>
    intro m S hI hS
    have : SInv (m.step op) ∧ ∀ t, t ∈ (m.step op).spo ↔ SSpec.step S op t := by
      cases op with
      | add t0 => exact ⟨(sadd_spec hI t0).1, fun t => by simp only [SMem.step, SSpec.step, (sadd_spec hI t0).2, hS]⟩
      | addN g qs =>
        exact ⟨(saddN_spec g qs m hI).1, fun t => by simp only [SMem.step, SSpec.step, (saddN_spec g qs m hI).2, hS]⟩
      | remove pat =>
        exact ⟨(sremove_spec hI pat).1, fun t => by simp only [SMem.step, SSpec.step, (sremove_spec hI pat).2, hS]⟩
      | set t0 => exact ⟨(sset_spec hI t0).1, fun t => by simp only [SMem.step, SSpec.step, (sset_spec hI t0).2, hS]⟩
      | iadd ts => exact ⟨(siadd_spec ts m hI).1, fun t => by simp only [SMem.step, SSpec.step, (siadd_spec ts m hI).2, hS]⟩
      | isub ts => exact ⟨(sisub_spec ts m hI).1, fun t => by simp only [SMem.step, SSpec.step, (sisub_spec ts m hI).2, hS]⟩
    exact ih _ _ this.1 this.2

theorem operand_ok (a : Operand) : a.view.Coherent ∧ ∀ t, t ∈ a.view.xs ↔ a.set t := by
  cases a with
  | mem ops g =>
    have h0 : StSim Mem.init QK.empty :=
      ⟨inv_init, by simp [Mem.init], fun t g => by simp [abs, Mem.init, QK.empty, QSet.empty],
        fun k => by simp [Mem.init, QK.empty]⟩
    have h := stSim_run ops _ _ h0
    refine ⟨coherent_ofMem h.inv g, fun t => ?_⟩
    show t ∈ (Mem.init.stRun ops).graph g ↔ _
    rw [mem_graph h.inv, ← abs_eq_InG]
    exact h.q t g
  | simple ops =>
    obtain ⟨hI, h⟩ := simple_refine_run ops SMem.init (fun _ => False) sinv_init (fun t => by simp [SMem.init])
    refine ⟨coherent_ofSimple hI, fun t => ?_⟩
    show t ∈ (View.ofSimple (SMem.init.run ops)).xs ↔ _
    rw [mem_ofSimple hI]
    exact h t

theorem binop_any_store : Statement_binop_any_store := by
  intro a b r
  obtain ⟨ha, hsa⟩ := operand_ok a
  obtain ⟨hb, hsb⟩ := operand_ok b
  have h := view_ops_spec a.view b.view ha hb r
  simp only [abs_eq_InG]
  simp only [hsa, hsb] at h
  exact h

theorem simple_refine_history : Statement_simple_refine_history := by
  intro ops
  obtain ⟨hI, h⟩ := simple_refine_run ops SMem.init (fun _ => False) sinv_init (fun t => by simp [SMem.init])
  refine ⟨hI.err, h, ?_, ?_, ?_⟩
  · intro l hnd hl
    unfold SMem.len
    apply List.Perm.length_eq
    rw [List.perm_ext_iff_of_nodup (nodup_striples hI _) hnd]
    intro t
    rw [mem_striples hI, hl, h]
    simp [allPat, Pat.matches, matchPos]
  · intro t; rw [scontains_iff hI, h]
  · intro s p o
    exact ⟨nodup_striples hI _, fun t => by rw [mem_striples hI, h]⟩

/-! ### Round g: the nested dictionaries themselves (`NModel.lean`)

  `NMem` / `NSMem` keep the three indexes as the code has them — three-level insertion-ordered dictionaries with the
  `try/except` insertion ladder, leaf-only `del`, and the level-by-level walks of `triples()` — and reuse the context
  bookkeeping of `Mem`.  The statements below are about the observations computed ON THE NESTED MODEL (which is what
  the driver runs and the correspondence compares with the real store on every line). -/

/-- every answer of the store API, computed on the nested-dictionary model, agrees with `(Q, K)` -/
structure NStoreObsAgree (n : NMem) (S : QK) : Prop where
  no_raise : n.cx.err = false ∧ ∀ pat, n.triplesRaises pat = false
  /-- `store.triples(pattern, context)`: the walk of the nested index chosen by the shape, filtered by the has-context test -/
  triples : ∀ (pat : Pat) (ctx : Option Nat),
    (n.triples pat ctx).Nodup ∧ ∀ t, t ∈ n.triples pat ctx ↔ (S.sees ctx t ∧ pat.matches t = true)
  triple_ctxs : ∀ (pat : Pat) (ctx : Option Nat) (e : Triple × List Nat), e ∈ n.triplesC pat ctx →
    e.1 ∈ n.triples pat ctx ∧ e.2.Nodup ∧ ∀ k, k ∈ e.2 ↔ S.Q e.1 k
  len : ∀ (ctx : Option Nat) (l : List Triple), l.Nodup → (∀ t, t ∈ l ↔ S.sees ctx t) → n.len ctx = l.length
  /-- `t in g` (the fully bound walk: three dictionary probes, then the has-context test) -/
  contains : ∀ t g, n.contains t g = true ↔ S.Q t g
  contexts_all : (n.contexts (none, none, none)).Nodup ∧ ∀ k, k ∈ n.contexts (none, none, none) ↔ S.K k
  contexts_of : ∀ (s p o : Nat),
    (n.contexts (some s, some p, some o)).Nodup ∧ ∀ k, k ∈ n.contexts (some s, some p, some o) ↔ S.Q (s, p, o) k
  contexts_partial : ∀ (s p o : Option Nat), ¬ (s = none ∧ p = none ∧ o = none) →
    ¬ (s.isSome = true ∧ p.isSome = true ∧ o.isSome = true) → n.contexts (s, p, o) = []
  /-- the three nested indexes are coherent: `spo[s][p][o]`, `pos[p][o][s]`, `osp[o][s][p]` exist together, exactly
      for the triples that are in some graph (emptied inner dictionaries may remain, stale leaf keys may not) -/
  index : ∀ (s p o : Nat), (idxHas n.ispo s p o = true ↔ ∃ g, S.Q (s, p, o) g) ∧
    idxHas n.ipos p o s = idxHas n.ispo s p o ∧ idxHas n.iosp o s p = idxHas n.ispo s p o

/-- `nested_refines_quadset`: for every finite history of store-level and `Graph`-level calls, the `Memory` model over
    NESTED dictionaries (insertion ladders, leaf-only deletion, level-by-level walks, context compression, …) keeps
    unique keys at every dictionary level and answers every observation exactly as the pair `(Q, K)` the history implies -/
def Statement_nested_refines_quadset : Prop :=
  ∀ (ops : List StOp),
    NWF (NMem.init.stRun ops) ∧ NStoreObsAgree (NMem.init.stRun ops) (QK.run QK.empty ops)

/-- the same for `SimpleMemory` over nested dictionaries -/
def Statement_nested_simple_refines : Prop :=
  ∀ (ops : List SOp),
    let n := NSMem.init.run ops
    let S := SSpec.run (fun _ => False) ops
    NSWF n ∧ n.err = false ∧
    (∀ (s p o : Nat), (idxHas n.ispo s p o = true ↔ S (s, p, o)) ∧
        idxHas n.ipos p o s = idxHas n.ispo s p o ∧ idxHas n.iosp o s p = idxHas n.ispo s p o) ∧
    (∀ (l : List Triple), l.Nodup → (∀ t, t ∈ l ↔ S t) → n.len = l.length) ∧
    (∀ t, n.contains t = true ↔ S t) ∧
    (∀ (s p o : Option Nat), (n.triples (s, p, o)).Nodup ∧
        ∀ t, t ∈ n.triples (s, p, o) ↔ (S t ∧ Pat.matches (s, p, o) t = true))

/-- an operand of `+ - * ^` given by a NESTED model -/
inductive NOperand
  | mem (ops : List StOp) (g : Nat)
  | simple (ops : List SOp)

def NOperand.view : NOperand → View
  | .mem ops g => View.ofNMem (NMem.init.stRun ops) g
  | .simple ops => View.ofNSimple (NSMem.init.run ops)

def NOperand.set : NOperand → Triple → Prop
  | .mem ops g => fun t => (QK.run QK.empty ops).Q t g
  | .simple ops => SSpec.run (fun _ => False) ops

/-- the binary operators reading their operands through the nested models (iteration = the walks, `in` = the probes) -/
def Statement_binop_nested_flat : Prop :=
  ∀ (a b : NOperand) (r : Nat),
    (∀ t c, abs (a.view.union b.view r) t c ↔ ((a.set t ∨ b.set t) ∧ c = r)) ∧
    (∀ t c, abs (a.view.diff b.view r) t c ↔ ((a.set t ∧ ¬ b.set t) ∧ c = r)) ∧
    (∀ t c, abs (a.view.inter b.view r) t c ↔ ((a.set t ∧ b.set t) ∧ c = r)) ∧
    (∀ t c, abs (a.view.xor b.view r) t c ↔ (((a.set t ∧ ¬ b.set t) ∨ (b.set t ∧ ¬ a.set t)) ∧ c = r))

/-- what is demanded of the NEW graph `n` (identifier `r`) an operator returns, `R` = the set-theoretic result -/
structure ResultOk (n : NMem) (r : Nat) (R : Triple → Prop) : Prop where
  /-- its nested dictionaries have unique keys at every level -/
  wf : NWF n
  no_raise : n.cx.err = false ∧ n.triplesRaises allPat = false
  /-- it holds exactly `R`, under its own identifier, and nothing else -/
  holds : ∀ t c, abs n.toMem t c ↔ (R t ∧ c = r)
  /-- `list(result)` -/
  iter : (n.graph r).Nodup ∧ ∀ t, t ∈ n.graph r ↔ R t
  /-- `t in result` -/
  contains : ∀ t, n.contains t r = true ↔ R t

/-- (round h) the binary operators with operands read through the nested models AND the result built as a nested
    model: `retval = Graph()` is a fresh `Memory` over nested dictionaries filled by `retval.add(x)` (`NMem.ofList`);
    `a ^ b` builds the two differences as graphs of their own and adds their iterations -/
def Statement_binop_nested : Prop :=
  ∀ (a b : NOperand) (r : Nat),
    ResultOk (a.view.nunion b.view r) r (fun t => a.set t ∨ b.set t) ∧
    ResultOk (a.view.ndiff b.view r) r (fun t => a.set t ∧ ¬ b.set t) ∧
    ResultOk (a.view.ninter b.view r) r (fun t => a.set t ∧ b.set t) ∧
    ResultOk (a.view.nxor b.view r) r (fun t => (a.set t ∧ ¬ b.set t) ∨ (b.set t ∧ ¬ a.set t))

theorem stSim_of_equiv {m m' : Mem} {S : QK} (h : StSim m S) (e : MEquiv m m') (n1 : m'.spo.Nodup)
    (n2 : m'.pos.Nodup) (n3 : m'.osp.Nodup) : StSim m' S := by
  refine ⟨inv_of_equiv h.inv e n1 n2 n3, e.allc ▸ h.nd, ?_, ?_⟩
  · intro t g
    rw [abs_eq_InG, ← InG_of_equiv e, ← abs_eq_InG]
    exact h.q t g
  · intro k; rw [← e.allc]; exact h.k k

/-- simulation: the flattening of the nested model is in `StSim` with the specification, and the dictionaries are well formed -/
structure NSim (n : NMem) (S : QK) : Prop where
  wf : NWF n
  sim : StSim n.toMem S

theorem nsim_init : NSim NMem.init QK.empty :=
  ⟨nwf_init, ⟨inv_init, by simp [NMem.init, NMem.toMem], fun t g => by simp [abs, NMem.init, NMem.toMem, flat, QK.empty, QSet.empty],
    fun k => by simp [NMem.init, NMem.toMem, QK.empty]⟩⟩

theorem nsim_step {n : NMem} {S : QK} (h : NSim n S) (op : StOp) : NSim (n.stStep op) (S.step op) := by
  obtain ⟨e, hw⟩ := stStep_equiv h.wf op
  obtain ⟨n1, n2, n3⟩ := nodup_toMem hw
  exact ⟨hw, stSim_of_equiv (stSim_step h.sim op) e n1 n2 n3⟩

theorem nsim_run : ∀ (ops : List StOp) (n : NMem) (S : QK), NSim n S → NSim (n.stRun ops) (S.run ops) := by
  intro ops
  induction ops with
  | nil => intro n S h; exact h
  | cons op r ih => intro n S h; exact ih _ _ (nsim_step h op)

theorem ntriples_eq {n : NMem} (h : NWF n) (pat : Pat) (c : Ctx) : n.triples pat c = triples n.toMem pat c := by
  have hf : (n.cands pat).filter (fun t => n.hasCtx t c) = (cands n.toMem pat).filter (fun t => hasCtx n.toMem t c) := by
    rw [cands_eq h]
    apply List.filter_congr
    intro t _; exact hasCtx_eq h t c
  obtain ⟨ps, pp, po⟩ := pat
  cases ps <;> cases pp <;> cases po <;> first | rfl | exact hf

theorem ntriplesRaises_eq {n : NMem} (h : NWF n) (pat : Pat) : n.triplesRaises pat = triplesRaises n.toMem pat := by
  have hf : (n.cands pat).any (fun t => n.hasCtxRaises t) = (cands n.toMem pat).any (fun t => hasCtxRaises n.toMem t) := by
    rw [cands_eq h]
    congr 1
    funext t; exact hasCtxRaises_eq h t
  obtain ⟨ps, pp, po⟩ := pat
  cases ps <;> cases pp <;> cases po <;> first | rfl | exact hf

theorem ncontains_eq {n : NMem} (h : NWF n) (t : Triple) (g : Nat) : n.contains t g = n.toMem.contains t g := by
  simp only [NMem.contains, Mem.contains, ntriples_eq h]

theorem nstoreObsAgree_of {n : NMem} {S : QK} (h : NSim n S) : NStoreObsAgree n S := by
  have hw := h.wf
  have hO := storeObsAgree_of h.sim
  have hI := h.sim.inv
  have hq := h.sim.q
  refine ⟨⟨hO.no_raise.1, fun pat => by rw [ntriplesRaises_eq hw]; exact hO.no_raise.2 pat⟩, ?_, ?_, ?_, ?_, hO.contexts_all, ?_, ?_, ?_⟩
  · intro pat ctx; rw [ntriples_eq hw]; exact hO.triples pat ctx
  · intro pat ctx e he
    have : n.triplesC pat ctx = n.toMem.triplesC pat ctx := by
      simp only [NMem.triplesC, Mem.triplesC, ntriples_eq hw]; rfl
    rw [ntriples_eq hw]
    exact hO.triple_ctxs pat ctx e (this ▸ he)
  · intro ctx l hnd hl; exact hO.len ctx l hnd hl
  · intro t g
    rw [ncontains_eq hw, contains_iff hI, ← abs_eq_InG]
    exact hq t g
  · intro s p o
    have : n.contexts (some s, some p, some o) = n.toMem.contexts (some s, some p, some o) := by
      simp only [NMem.contexts, Mem.contexts]
      have hb : idxHas n.ispo s p o = decide ((s, p, o) ∈ n.toMem.spo) := has_eq hw (s, p, o)
      by_cases e : (s, p, o) ∈ n.toMem.spo
      · simp only [hb, e, decide_true, if_true]; rfl
      · simp only [hb, e, decide_false, if_false, Bool.false_eq_true]
    rw [this]; exact hO.contexts_of s p o
  · intro s p o h1 h2
    cases s <;> cases p <;> cases o <;> simp_all [NMem.contexts]
  · intro s p o
    have h1 : idxHas n.ispo s p o = true ↔ (s, p, o) ∈ n.toMem.spo := (mem_spo_iff hw (s, p, o)).symm
    have h2 : idxHas n.ipos p o s = true ↔ (s, p, o) ∈ n.toMem.pos := (mem_pos_iff hw (s, p, o)).symm
    have h3 : idxHas n.iosp o s p = true ↔ (s, p, o) ∈ n.toMem.osp := (mem_osp_iff hw (s, p, o)).symm
    refine ⟨?_, ?_, ?_⟩
    · rw [h1]
      constructor
      · intro hin
        obtain ⟨g, hg⟩ := (hI.ctx_ok _ hin).2
        exact ⟨g, (hq _ g).1 ⟨hin, hg⟩⟩
      · rintro ⟨g, hg⟩; exact ((hq _ g).2 hg).1
    · rw [Bool.eq_iff_iff, h2, h1]; exact hI.pos_iff _
    · rw [Bool.eq_iff_iff, h3, h1]; exact hI.osp_iff _

theorem nested_refines_quadset : Statement_nested_refines_quadset := by
  intro ops
  have h := nsim_run ops _ _ nsim_init
  exact ⟨h.wf, nstoreObsAgree_of h⟩

/-- simulation for `SimpleMemory` -/
theorem nsimple_run : ∀ (ops : List SOp) (n : NSMem) (S : TSet), NSWF n → SInv n.toSMem → (∀ t, t ∈ n.toSMem.spo ↔ S t) →
    NSWF (n.run ops) ∧ SInv (n.run ops).toSMem ∧ ∀ t, t ∈ (n.run ops).toSMem.spo ↔ SSpec.run S ops t := by
  intro ops
  induction ops with
  | nil => intro n S hw hI hS; exact ⟨hw, hI, hS⟩
  | cons op r ih =>
    intro n S hw hI hS
    obtain ⟨hI1, h1⟩ := simple_refine_run [op] n.toSMem S hI hS
    obtain ⟨e, hw1⟩ := sstep_equiv hw op
    obtain ⟨n1, n2, n3⟩ := nodup_toSMem hw1
    have hI2 : SInv (n.step op).toSMem := sinv_of_equiv hI1 e n1 n2 n3
    have h2 : ∀ t, t ∈ (n.step op).toSMem.spo ↔ SSpec.step S op t := fun t => (e.spo t).symm.trans (h1 t)
    exact ih _ _ hw1 hI2 h2

theorem nested_simple_refines : Statement_nested_simple_refines := by
  intro ops
  obtain ⟨hw, hI, h⟩ := nsimple_run ops NSMem.init (fun _ => False) nswf_init
    (show SInv NSMem.init.toSMem from sinv_init) (fun t => by simp [NSMem.toSMem, NSMem.init, flat])
  have htri : ∀ pat, (NSMem.init.run ops).triples pat = (NSMem.init.run ops).toSMem.triples pat := striples_toSMem hw
  refine ⟨hw, hI.err, ?_, ?_, ?_, ?_⟩
  · intro s p o
    have h1 : idxHas (NSMem.init.run ops).ispo s p o = true ↔ (s, p, o) ∈ (NSMem.init.run ops).toSMem.spo :=
      (mem_flat_iff hw.spo s p o).symm
    have h2 : idxHas (NSMem.init.run ops).ipos p o s = true ↔ (s, p, o) ∈ (NSMem.init.run ops).toSMem.pos :=
      (mem_map_rotPOS hw.pos (s, p, o)).symm
    have h3 : idxHas (NSMem.init.run ops).iosp o s p = true ↔ (s, p, o) ∈ (NSMem.init.run ops).toSMem.osp :=
      (mem_map_rotOSP hw.osp (s, p, o)).symm
    refine ⟨h1.trans (h _), ?_, ?_⟩
    · rw [Bool.eq_iff_iff, h2, h1]; exact hI.pos_iff _
    · rw [Bool.eq_iff_iff, h3, h1]; exact hI.osp_iff _
  · intro l hnd hl
    unfold NSMem.len
    rw [htri]
    apply List.Perm.length_eq
    rw [List.perm_ext_iff_of_nodup (nodup_striples hI _) hnd]
    intro t
    rw [mem_striples hI, hl, h]
    simp [allPat, Pat.matches, matchPos]
  · intro t
    have : (NSMem.init.run ops).contains t = (NSMem.init.run ops).toSMem.contains t := by
      simp only [NSMem.contains, SMem.contains, htri]
    rw [this, scontains_iff hI, h]
  · intro s p o
    rw [htri]
    exact ⟨nodup_striples hI _, fun t => by rw [mem_striples hI, h]⟩

theorem noperand_ok (a : NOperand) : a.view.Coherent ∧ ∀ t, t ∈ a.view.xs ↔ a.set t := by
  cases a with
  | mem ops g =>
    have h := nsim_run ops _ _ nsim_init
    have hv : View.ofNMem (NMem.init.stRun ops) g = View.ofMem (NMem.init.stRun ops).toMem g := by
      simp only [View.ofNMem, View.ofMem, NMem.graph, Mem.graph, ntriples_eq h.wf]
      congr 1
      funext x; exact ncontains_eq h.wf x g
    show (View.ofNMem (NMem.init.stRun ops) g).Coherent ∧ ∀ t, t ∈ (View.ofNMem (NMem.init.stRun ops) g).xs ↔ _
    rw [hv]
    refine ⟨coherent_ofMem h.sim.inv g, fun t => ?_⟩
    show t ∈ (NMem.init.stRun ops).toMem.graph g ↔ _
    rw [mem_graph h.sim.inv, ← abs_eq_InG]
    exact h.sim.q t g
  | simple ops =>
    obtain ⟨hw, hI, h⟩ := nsimple_run ops NSMem.init (fun _ => False) nswf_init
      (show SInv NSMem.init.toSMem from sinv_init) (fun t => by simp [NSMem.toSMem, NSMem.init, flat])
    have hv : View.ofNSimple (NSMem.init.run ops) = View.ofSimple (NSMem.init.run ops).toSMem := by
      simp only [View.ofNSimple, View.ofSimple, striples_toSMem hw]
      congr 1
      funext x
      simp only [NSMem.contains, SMem.contains, striples_toSMem hw]
    show (View.ofNSimple (NSMem.init.run ops)).Coherent ∧ ∀ t, t ∈ (View.ofNSimple (NSMem.init.run ops)).xs ↔ _
    rw [hv]
    refine ⟨coherent_ofSimple hI, fun t => ?_⟩
    rw [mem_ofSimple hI]
    exact h t

theorem binop_nested_flat : Statement_binop_nested_flat := by
  intro a b r
  obtain ⟨ha, hsa⟩ := noperand_ok a
  obtain ⟨hb, hsb⟩ := noperand_ok b
  have h := view_ops_spec a.view b.view ha hb r
  simp only [abs_eq_InG]
  simp only [hsa, hsb] at h
  exact ⟨h.1, h.2.1, h.2.2.1, h.2.2.2.1⟩

theorem resultOk_of {n : NMem} {m : Mem} {r : Nat} {R : Triple → Prop} (e : MEquiv m n.toMem) (hw : NWF n)
    (hI : Inv m) (hm : ∀ t c, InG m t c ↔ (R t ∧ c = r)) : ResultOk n r R := by
  obtain ⟨n1, n2, n3⟩ := nodup_toMem hw
  have hI' : Inv n.toMem := inv_of_equiv hI e n1 n2 n3
  have hq : ∀ t c, InG n.toMem t c ↔ (R t ∧ c = r) := fun t c => (InG_of_equiv e t c).symm.trans (hm t c)
  refine ⟨hw, ⟨hI'.err, rfl⟩, hq, ⟨nodup_graph hI' r, fun t => ?_⟩, fun t => ?_⟩
  · show t ∈ n.toMem.graph r ↔ _
    rw [mem_graph hI', hq]; simp
  · rw [ncontains_eq hw, contains_iff hI', hq]; simp

theorem binop_nested : Statement_binop_nested := by
  intro a b r
  obtain ⟨ha, hsa⟩ := noperand_ok a
  obtain ⟨hb, hsb⟩ := noperand_ok b
  have h := view_ops_spec a.view b.view ha hb r
  simp only [hsa, hsb] at h
  obtain ⟨h1, h2, h3, h4, i1, i2, i3, i4⟩ := h
  refine ⟨?_, ?_, ?_, ?_⟩
  · obtain ⟨e, hw⟩ := ofList_equiv r (a.view.xs ++ b.view.xs)
    exact resultOk_of e hw i1 h1
  · obtain ⟨e, hw⟩ := ofList_equiv r (a.view.xs.filter (fun x => !b.view.has x))
    exact resultOk_of e hw i2 h2
  · obtain ⟨e, hw⟩ := ofList_equiv r (b.view.xs.filter a.view.has)
    exact resultOk_of e hw i3 h3
  · have hx : a.view.nxor b.view r = NMem.ofList r ((gDiff a.view.xs b.view.has r).graph r ++ (gDiff b.view.xs a.view.has r).graph r) :=
      nXor_eq _ _ _ _ r
    rw [hx]
    obtain ⟨e, hw⟩ := ofList_equiv r ((gDiff a.view.xs b.view.has r).graph r ++ (gDiff b.view.xs a.view.has r).graph r)
    exact resultOk_of e hw i4 h4

/-! ### Round g: the generator as it is — level-by-level key copies (`NGen`, `NModel.lean`)

  `iter_sound` above is about an over-approximating machine (the environment may load any candidate that is in the
  selected index at that moment).  `NGen` is the real discipline: `list(d.keys())` one level at a time, live lookup
  `d[k]` of each copied key when the loop reaches it, has-context test on the live store before each `yield`, start copy
  of `__contextTriples[ctx]` for the all-unbound shape; the generator body begins at the first `next()`. -/

/-- for every history before, every pattern shape, every schedule of store-level / Graph-level mutations and `next()`
    calls: no step raises (in particular no `KeyError` from `d[k]` on a copied key, no `None.keys()`), and every yielded
    triple matches the pattern and was in the iterated graph in one of the states since the generator began -/
def Statement_gen_sound : Prop :=
  ∀ (pre : List StOp) (pat : Pat) (g : Nat) (evs : List GEv),
    gschedRaises (NMem.init.stRun pre) (NGen.new pat (some g)) evs = false ∧
    ∀ y ∈ gyields [] (NMem.init.stRun pre) (NGen.new pat (some g)) evs,
      pat.matches y.1 = true ∧ ∃ n' ∈ y.2, abs n'.toMem y.1 g

/-- with nothing interleaved the generator, `next()` after `next()`, produces exactly `store.triples(pattern, context)`
    (`NMem.triples`, which `nested_refines_quadset` proves duplicate-free and equal to the set): the full run `drain`
    is that list, every `next()` yields the head of what remains and leaves the rest, and exhaustion means nothing remains -/
def Statement_gen_quiescent : Prop :=
  ∀ (n : NMem) (pat : Pat) (req : Ctx),
    n.drain pat req = n.triples pat req ∧
    ∀ (work : List Work),
      (∀ t, (n.runGen pat req work).2 = some t →
          n.runAll pat req work = t :: n.runAll pat req (n.runGen pat req work).1) ∧
      ((n.runGen pat req work).2 = none → n.runAll pat req work = [])

/-- `for t in g` on the concrete machine: if the generator begins (first `next()`) on the state `n`, then whatever
    mutations are interleaved afterwards, the k-th `next()` yields the k-th element of `list(g)` as it was at that
    moment — the concrete counterpart of `iter_all_is_snapshot` -/
def Statement_gen_snapshot : Prop :=
  ∀ (n : NMem) (g : Nat) (evs : List GEv) (hist : List NMem),
    (gyields hist n (NGen.new allPat (some g)) (.next :: evs)).map (fun y => y.1)
      = (n.graph g).take (gcountNext evs + 1)

theorem gen_snapshot : Statement_gen_snapshot := fun n g evs hist => gyields_fast n g evs hist

theorem gen_sound : Statement_gen_sound := by
  intro pre pat g evs
  have hg := ngood_stRun pre _ ngood_init
  have h := gyields_sound g pat evs [] (NMem.init.stRun pre) (NGen.new pat (some g)) hg rfl rfl
    (fun h => by simp [NGen.new] at h)
  exact h

theorem gen_quiescent : Statement_gen_quiescent :=
  fun n pat req => ⟨drain_eq_triples n pat req, runGen_runAll n pat req⟩

/-- `Graph.triples_choices` / `Store.triples_choices` (a list of terms in ONE position of the pattern; the empty list
    is the wildcard): exactly the visible triples that match the two other positions and whose term in the list's
    position is one of the choices — each once when the choices are distinct (a repeated choice repeats its triples) -/
def Statement_triples_choices : Prop :=
  ∀ (ops : List StOp) (sl : Slot) (choices : List Nat) (a b : Option Nat) (ctx : Option Nat),
    (∀ t, t ∈ (NMem.init.stRun ops).triplesChoices sl choices a b ctx ↔
        ((QK.run QK.empty ops).sees ctx t ∧ (sl.pat a b none).matches t = true ∧
          (choices = [] ∨ sl.get t ∈ choices))) ∧
    (choices.Nodup → ((NMem.init.stRun ops).triplesChoices sl choices a b ctx).Nodup)

theorem triples_choices : Statement_triples_choices := by
  intro ops sl choices a b ctx
  have hO := nstoreObsAgree_of (nsim_run ops _ _ nsim_init)
  unfold NMem.triplesChoices
  cases choices with
  | nil =>
    simp only [List.isEmpty_nil, if_true, true_or, and_true]
    exact ⟨(hO.triples _ ctx).2, fun _ => (hO.triples _ ctx).1⟩
  | cons c r =>
    simp only [List.isEmpty_cons, Bool.false_eq_true, if_false, reduceCtorEq, false_or]
    constructor
    · intro t
      simp only [List.mem_flatMap, (hO.triples _ ctx).2, slot_matches]
      constructor
      · rintro ⟨x, hx, h1, h2, h3⟩; exact ⟨h1, h2, h3 ▸ hx⟩
      · rintro ⟨h1, h2, h3⟩; exact ⟨_, h3, h1, h2, rfl⟩
    · intro hnd
      refine nodup_flatMap_disjoint hnd (fun x _ => (hO.triples _ ctx).1) ?_
      intro x _ y _ hxy t hx hy
      have e1 := ((slot_matches sl a b x t).1 (((hO.triples _ ctx).2 t).1 hx).2).2
      have e2 := ((slot_matches sl a b y t).1 (((hO.triples _ ctx).2 t).1 hy).2).2
      exact hxy (e1.symm.trans e2)

/-- (round h) the whole dispatch of `Store.triples_choices`: `ValueError` exactly when two or more positions hold a
    list (nothing is read then); with exactly one list it is `triplesChoices` for that position (theorem
    `triples_choices` gives its meaning); with no list at all it yields NOTHING (none of the `isinstance` branches is
    taken — the code as it is, not `triples(pattern)`) -/
def Statement_triples_choices_dispatch : Prop :=
  ∀ (n : NMem) (s p o : Arg) (req : Ctx),
    (n.triplesChoicesG s p o req = none ↔ 2 ≤ s.nLists + p.nLists + o.nLists) ∧
    (∀ a b l, s = .term a → p = .term b → o = .list l →
        n.triplesChoicesG s p o req = some (n.triplesChoices .o l a b req)) ∧
    (∀ l b c, s = .list l → p = .term b → o = .term c →
        n.triplesChoicesG s p o req = some (n.triplesChoices .s l b c req)) ∧
    (∀ a l c, s = .term a → p = .list l → o = .term c →
        n.triplesChoicesG s p o req = some (n.triplesChoices .p l a c req)) ∧
    (∀ a b c, s = .term a → p = .term b → o = .term c → n.triplesChoicesG s p o req = some [])

theorem triples_choices_dispatch : Statement_triples_choices_dispatch := by
  intro n s p o req
  refine ⟨?_, ?_, ?_, ?_, ?_⟩
  · cases s <;> cases p <;> cases o <;> simp [NMem.triplesChoicesG, Arg.nLists]
  · rintro a b l rfl rfl rfl; rfl
  · rintro l b c rfl rfl rfl; rfl
  · rintro a l c rfl rfl rfl; rfl
  · rintro a b c rfl rfl rfl; rfl

/-- a schedule on which the concrete generator really walks two levels between mutations: `(1,?,?)` on graph 0;
    `(1,2,4)` is removed before the inner copy `[3,4]` reaches it, `(1,5,6)` is added under a NEW second-level key after
    the outer copy `[2]` was taken (not seen), `(1,2,7)` under the already expanded key (not seen either) -/
example : (gyields [] (NMem.init.stRun [.add (1, 2, 3) 0, .add (1, 2, 4) 0]) (NGen.new (some 1, none, none) (some 0))
    [.next, .mutate (.remove (some 1, some 2, some 4) (some 0)), .mutate (.add (1, 5, 6) 0), .mutate (.add (1, 2, 7) 0),
     .next, .next]).map (·.1) = [(1, 2, 3)] := by decide

/-! ### Non-vacuity: a reachable state with one context set compressed to the default and one explicit -/

def exOps : List Op :=
  [.add (1, 2, 3) 0, .add (1, 2, 3) 1, .add (4, 2, 0) 0, .addN 1 [((4, 2, 0), 1, true), ((7, 7, 7), 2, true)],
   .remove (some 1, none, none) 0, .set (4, 2, 9) 1, .isubG 0 1]

example : (Mem.init.run exOps).dflt = some [some 0, none] ∧ (Mem.init.run exOps).tctx.length = 2 ∧
    (Mem.init.run exOps).graph 0 = [(4, 2, 0)] ∧ (Mem.init.run exOps).graph 1 = [(1, 2, 3), (4, 2, 9)] ∧
    triples (Mem.init.run exOps) (none, some 2, none) (some 1) = [(1, 2, 3), (4, 2, 9)] := by decide

/-- a store-level history: shared triple, `remove(…, None)`, an emptied graph that stays registered,
    `remove_graph`, a graph registered by `add_graph` only -/
def exStOps : List StOp :=
  [.add (1, 2, 3) 0, .add (1, 2, 3) 1, .add (4, 2, 3) 1, .graph (.add (5, 2, 3) 2), .addGraph 7,
   .remove (some 4, none, none) none, .remove (none, none, none) (some 2), .removeGraph 0]

example : (Mem.init.stRun exStOps).contexts (none, none, none) = [1, 2, 7] ∧
    (Mem.init.stRun exStOps).triplesC (none, some 2, none) none = [((1, 2, 3), [1])] ∧
    (Mem.init.stRun exStOps).contexts (some 1, some 2, some 3) = [1] ∧
    (Mem.init.stRun exStOps).len none = 1 ∧ (Mem.init.stRun exStOps).err = false := by decide

/-- the nested indexes after the store-level history `exStOps`: only LEAF keys were deleted — the emptied inner
    dictionaries `spo[4][2]`, `spo[5][2]`, `osp[3][4]`, `osp[3][5]` are still there — and the walks ignore them -/
example : (NMem.init.stRun exStOps).ispo = [(1, [(2, [3])]), (4, [(2, [])]), (5, [(2, [])])] ∧
    (NMem.init.stRun exStOps).ipos = [(2, [(3, [1])])] ∧
    (NMem.init.stRun exStOps).iosp = [(3, [(1, [2]), (4, []), (5, [])])] ∧
    (NMem.init.stRun exStOps).drain (none, none, some 3) none = [(1, 2, 3)] ∧
    (NMem.init.stRun exStOps).triplesChoices .s [5, 1, 1] (some 2) none (some 1) = [(1, 2, 3), (1, 2, 3)] := by decide

/-- round h: the new graph of an operator is a nested-dictionary store of its own; two list positions raise -/
example : ((NOperand.mem exStOps 1).view.nxor (NOperand.simple [.add (1, 2, 3), .add (0, 0, 0)]).view 5).graph 5 = [(0, 0, 0)] ∧
    ((NOperand.mem exStOps 1).view.nunion (NOperand.simple [.add (1, 2, 3), .add (0, 0, 0)]).view 5).ispo
      = [(1, [(2, [3])]), (0, [(0, [0])])] ∧
    (NMem.init.stRun exStOps).triplesChoicesG (.list [1]) (.list []) (.term none) (some 1) = none ∧
    (NMem.init.stRun exStOps).triplesChoicesG (.term none) (.term (some 2)) (.list [3, 3]) (some 1)
      = some [(1, 2, 3), (1, 2, 3)] ∧
    (NMem.init.stRun exStOps).triplesChoicesG (.term none) (.term (some 2)) (.term (some 3)) (some 1) = some [] := by
  decide

/-- operands on different kinds of store: a graph of a `Memory` after a store-level history and a `SimpleMemory` graph -/
example : ((Operand.mem exStOps 1).view.xor (Operand.simple [.add (1, 2, 3), .add (9, 9, 9), .remove (none, some 9, none),
      .add (0, 0, 0)]).view 5).graph 5 = [(0, 0, 0)] ∧
    ((Operand.mem exStOps 1).view.union (Operand.simple [.add (0, 0, 0)]).view 5).graph 5 = [(1, 2, 3), (0, 0, 0)] := by
  decide

/-- `for t in g: g.remove(t)`-like schedule: the yields are the start content although the graph is emptied meanwhile -/
example : (yields [Mem.init.stRun exStOps] (Mem.init.stRun exStOps) (Iter.start (Mem.init.stRun exStOps) allPat 1)
    [.next, .mutate (.remove (none, none, none) none), .mutate (.add (7, 7, 7) 1), .next, .next]).map (·.1) = [(1, 2, 3)] := by
  decide

/-- a schedule on which the generator really yields between mutations -/
def exEvs : List Ev :=
  [.load [(1, 2, 3), (1, 2, 4)], .next, .mutate (.remove (some 1, some 2, some 4) none), .next]

example : (yields [Mem.init.run [.add (1, 2, 3) 0, .add (1, 2, 4) 1]] (Mem.init.run [.add (1, 2, 3) 0, .add (1, 2, 4) 1])
    (Iter.start (Mem.init.run [.add (1, 2, 3) 0, .add (1, 2, 4) 1]) (some 1, some 2, none) 0) exEvs).map (·.1)
      = [(1, 2, 3)] := by decide

/-! ### Finding C01-F1 (fixed): the has-context test of the pinned code.
    With `__triple_has_context` answering from the default context set for a triple that is no longer
    in the store, the same schedule yields `(1,2,4)`, which was never in graph 0. -/

theorem pinned_has_context_yields_ghost :
    ¬ (∀ y ∈ yieldsPinned [Mem.init.run [.add (1, 2, 3) 0, .add (1, 2, 4) 1]]
          (Mem.init.run [.add (1, 2, 3) 0, .add (1, 2, 4) 1])
          (Iter.start (Mem.init.run [.add (1, 2, 3) 0, .add (1, 2, 4) 1]) (some 1, some 2, none) 0) exEvs,
        ∃ m' ∈ y.2, InG m' y.1 0) := by decide

end RV.C01
