import RV.C20.TextLex
/-
  C20 text layer, lemmas 2: the long-quoted branch of `_quote_encode` is read back by a scanner
  that stops at the first unescaped `\"\"\"`.

  `LS e l` : `e` spells `l` with the units  `\\` `\"` `\r`  and raw characters, and never has three
  raw quotes in a row (open form: it may still END in raw quotes);
  `LC e l` : the same, and `e` does not end in a raw quote (closed form: safe in front of `\"\"\"`).
  `.replace("\\","\\\\")` gives a `Spell0`, `.replace('\"\"\"', …)` turns it into an `LS`, the
  final-quote step into an `LC`, `.replace("\r", "\\r")` keeps it, and the scanner reads every `LC`.
-/
namespace RV.C20

/-- number of raw quotes at the front -/
def fq : Str → Nat
  | '"' :: r => fq r + 1
  | _ => 0

theorem fq_cons_ne (c : Char) (r : Str) (h : c ≠ '"') : fq (c :: r) = 0 := by
  rw [fq]; intro r' hc; injection hc with h1 _; exact h h1

@[simp] theorem fq_nil : fq [] = 0 := rfl
@[simp] theorem fq_q (r : Str) : fq ('"' :: r) = fq r + 1 := rfl

theorem fq_append_le (e k : Str) : fq e ≤ fq (e ++ k) := by
  induction e with
  | nil => simp
  | cons c e ih =>
    by_cases h : c = '"'
    · subst h; simp only [List.cons_append, fq_q]; omega
    · simp [fq_cons_ne c _ h]

theorem fq_append_of_head (e k : Str) (hk : fq k = 0) : fq (e ++ k) = fq e := by
  induction e with
  | nil => simpa using hk
  | cons c e ih =>
    by_cases h : c = '"'
    · subst h; simp [ih]
    · simp [fq_cons_ne c _ h]

/-- spellings after `.replace("\\", "\\\\")`: doubled backslashes and raw characters -/
inductive Spell0 : Str → Str → Prop
  | nil : Spell0 [] []
  | bs {e l} : Spell0 e l → Spell0 ('\\' :: '\\' :: e) ('\\' :: l)
  | plain {e l} (c : Char) : c ≠ '\\' → Spell0 e l → Spell0 (c :: e) (c :: l)

inductive LS : Str → Str → Prop
  | nil : LS [] []
  | bs {e l} : LS e l → LS ('\\' :: '\\' :: e) ('\\' :: l)
  | quote {e l} : LS e l → LS ('\\' :: '"' :: e) ('"' :: l)
  | cr {e l} : LS e l → LS ('\\' :: 'r' :: e) ('\r' :: l)
  | plain {e l} (c : Char) : c ≠ '\\' → c ≠ '"' → LS e l → LS (c :: e) (c :: l)
  | q {e l} : LS e l → fq e < 2 → LS ('"' :: e) ('"' :: l)

inductive LC : Str → Str → Prop
  | nil : LC [] []
  | bs {e l} : LC e l → LC ('\\' :: '\\' :: e) ('\\' :: l)
  | quote {e l} : LC e l → LC ('\\' :: '"' :: e) ('"' :: l)
  | cr {e l} : LC e l → LC ('\\' :: 'r' :: e) ('\r' :: l)
  | plain {e l} (c : Char) : c ≠ '\\' → c ≠ '"' → LC e l → LC (c :: e) (c :: l)
  | q {e l} : LC e l → fq e < 2 → e ≠ [] → LC ('"' :: e) ('"' :: l)

/-! ### `.replace("\\", "\\\\")` -/

theorem spell0_dbl : ∀ s : Str, Spell0 (replaceChar '\\' ['\\', '\\'] s) s
  | [] => .nil
  | x :: s => by
    rw [replaceChar_cons]
    by_cases h : x = '\\'
    · subst h; simpa using Spell0.bs (spell0_dbl s)
    · simpa [h] using Spell0.plain x h (spell0_dbl s)

/-! ### `.replace('"""', '\\"\\"\\"')` -/

theorem replTriple_cons_ne (c : Char) (s : Str) (h : c ≠ '"') : replTriple (c :: s) = c :: replTriple s := by
  rw [replTriple]
  intro s' hc; exact absurd hc h

theorem replTriple_q_nil : replTriple ['"'] = ['"'] := by decide

theorem replTriple_q_ne (c : Char) (s : Str) (h : c ≠ '"') :
    replTriple ('"' :: c :: s) = '"' :: replTriple (c :: s) := by
  rw [replTriple]
  intro s' _ hs; injection hs with h1 _; exact h h1

theorem replTriple_qq_nil : replTriple ['"', '"'] = ['"', '"'] := by decide

theorem replTriple_qq_ne (c : Char) (s : Str) (h : c ≠ '"') :
    replTriple ('"' :: '"' :: c :: s) = '"' :: '"' :: replTriple (c :: s) := by
  rw [replTriple]
  · rw [replTriple]
    intro s' _ hs; injection hs with h1 _; exact h h1
  · intro s' _ hs; injection hs with _ h2; injection h2 with h3 _; exact h h3

theorem fq_replTriple_ne (c : Char) (s : Str) (h : c ≠ '"') : fq (replTriple (c :: s)) = 0 := by
  rw [replTriple_cons_ne c s h, fq_cons_ne c _ h]

theorem ls_replTriple_aux : ∀ (n : Nat) (e l : Str), e.length ≤ n → Spell0 e l → LS (replTriple e) l
  | 0, e, l, hn, h => by
    have : e = [] := List.eq_nil_of_length_eq_zero (Nat.le_zero.mp hn)
    subst this; cases h; exact .nil
  | n + 1, e, l, hn, h => by
    cases h with
    | nil => exact .nil
    | @bs e1 l1 h1 =>
      rw [replTriple_cons_ne _ _ (by decide), replTriple_cons_ne _ _ (by decide)]
      exact .bs (ls_replTriple_aux n e1 l1 (by simp at hn; omega) h1)
    | @plain e1 l1 c hc h1 =>
      have len1 : e1.length ≤ n := by simp at hn; omega
      by_cases hq : c = '"'
      · subst hq
        cases h1 with
        | nil => rw [replTriple_q_nil]; exact .q .nil (by simp)
        | @bs e2 l2 h2 =>
          rw [replTriple_q_ne _ _ (by decide)]
          exact .q (ls_replTriple_aux n _ _ len1 (.bs h2)) (by rw [fq_replTriple_ne _ _ (by decide)]; omega)
        | @plain e2 l2 c2 hc2 h2 =>
          by_cases hq2 : c2 = '"'
          · subst hq2
            cases h2 with
            | nil =>
              rw [replTriple_qq_nil]
              exact .q (.q .nil (by simp)) (by simp)
            | @bs e3 l3 h3 =>
              rw [replTriple_qq_ne _ _ (by decide)]
              have ih := ls_replTriple_aux n _ _ (by simp at len1 ⊢; omega) (Spell0.bs h3)
              have hf := fq_replTriple_ne '\\' ('\\' :: e3) (by decide)
              exact .q (.q ih (by omega)) (by simp [hf])
            | @plain e3 l3 c3 hc3 h3 =>
              by_cases hq3 : c3 = '"'
              · subst hq3
                rw [replTriple]
                exact .quote (.quote (.quote (ls_replTriple_aux n e3 l3 (by simp at len1; omega) h3)))
              · rw [replTriple_qq_ne _ _ hq3]
                have ih := ls_replTriple_aux n _ _ (by simp at len1 ⊢; omega) (Spell0.plain c3 hc3 h3)
                have hf := fq_replTriple_ne c3 e3 hq3
                exact .q (.q ih (by omega)) (by simp [hf])
          · rw [replTriple_q_ne _ _ hq2]
            have ih := ls_replTriple_aux n _ _ len1 (Spell0.plain c2 hc2 h2)
            have hf := fq_replTriple_ne c2 e2 hq2
            exact .q ih (by omega)
      · rw [replTriple_cons_ne _ _ hq]
        exact .plain c hc hq (ls_replTriple_aux n e1 l1 len1 h1)

theorem ls_replTriple {e l : Str} (h : Spell0 e l) : LS (replTriple e) l :=
  ls_replTriple_aux e.length e l (Nat.le_refl _) h

/-! ### when there is no `\"\"\"` the replacement is skipped — and would have changed nothing -/

theorem hasTriple_cons_ne (c : Char) (s : Str) (h : c ≠ '"') : hasTriple (c :: s) = hasTriple s := by
  rw [hasTriple]
  intro s' hc; exact absurd hc h

theorem hasTriple_q_ne (c : Char) (s : Str) (h : c ≠ '"') : hasTriple ('"' :: c :: s) = hasTriple (c :: s) := by
  rw [hasTriple]
  intro s' _ hs; injection hs with h1 _; exact h h1

theorem hasTriple_qq_ne (c : Char) (s : Str) (h : c ≠ '"') :
    hasTriple ('"' :: '"' :: c :: s) = hasTriple ('"' :: c :: s) := by
  rw [hasTriple]
  intro s' _ hs; injection hs with _ h2; injection h2 with h3 _; exact h h3

theorem replTriple_noTriple_aux : ∀ (n : Nat) (e : Str), e.length ≤ n → hasTriple e = false → replTriple e = e
  | 0, e, hn, _ => by
    have : e = [] := List.eq_nil_of_length_eq_zero (Nat.le_zero.mp hn)
    subst this; rfl
  | n + 1, e, hn, h => by
    match e, hn, h with
    | [], _, _ => rfl
    | c :: e1, hn, h =>
      have len1 : e1.length ≤ n := by simp at hn; omega
      by_cases hq : c = '"'
      · subst hq
        match e1, len1, h with
        | [], _, _ => rfl
        | c2 :: e2, len1, h =>
          by_cases hq2 : c2 = '"'
          · subst hq2
            match e2, len1, h with
            | [], _, _ => rfl
            | c3 :: e3, len1, h =>
              by_cases hq3 : c3 = '"'
              · subst hq3; simp [hasTriple] at h
              · rw [hasTriple_qq_ne _ _ hq3, hasTriple_q_ne _ _ hq3] at h
                rw [replTriple_qq_ne _ _ hq3, replTriple_noTriple_aux n (c3 :: e3) (by simp at len1 ⊢; omega) h]
          · rw [hasTriple_q_ne _ _ hq2] at h
            rw [replTriple_q_ne _ _ hq2, replTriple_noTriple_aux n (c2 :: e2) len1 h]
      · rw [hasTriple_cons_ne c e1 hq] at h
        rw [replTriple_cons_ne c e1 hq, replTriple_noTriple_aux n e1 len1 h]

theorem replTriple_noTriple (e : Str) (h : hasTriple e = false) : replTriple e = e :=
  replTriple_noTriple_aux e.length e (Nat.le_refl _) h

/-- the doubled string starts with a non-quote whenever the original does -/
theorem dbl_head (c : Char) (s : Str) (hq : c ≠ '"') :
    ∃ d r, replaceChar '\\' ['\\', '\\'] (c :: s) = d :: r ∧ d ≠ '"' := by
  rw [replaceChar_cons]
  by_cases hb : c = '\\'
  · exact ⟨'\\', '\\' :: replaceChar '\\' ['\\', '\\'] s, by simp [hb], by decide⟩
  · exact ⟨c, replaceChar '\\' ['\\', '\\'] s, by simp [hb], hq⟩

/-- doubling the backslashes neither creates nor destroys a run of three quotes -/
theorem hasTriple_dbl_aux : ∀ (n : Nat) (s : Str), s.length ≤ n →
    hasTriple (replaceChar '\\' ['\\', '\\'] s) = hasTriple s
  | 0, s, hn => by
    have : s = [] := List.eq_nil_of_length_eq_zero (Nat.le_zero.mp hn)
    subst this; rfl
  | n + 1, s, hn => by
    match s, hn with
    | [], _ => rfl
    | c :: s1, hn =>
      have len1 : s1.length ≤ n := by simp at hn; omega
      have ih1 := hasTriple_dbl_aux n s1 len1
      by_cases hq : c = '"'
      · subst hq
        have hcons : replaceChar '\\' ['\\', '\\'] ('"' :: s1) = '"' :: replaceChar '\\' ['\\', '\\'] s1 := by
          simp [replaceChar_cons]
        rw [hcons]
        match s1, len1, ih1 with
        | [], _, _ => rfl
        | c2 :: s2, len1, ih1 =>
          by_cases hq2 : c2 = '"'
          · subst hq2
            have hcons2 : replaceChar '\\' ['\\', '\\'] ('"' :: s2) = '"' :: replaceChar '\\' ['\\', '\\'] s2 := by
              simp [replaceChar_cons]
            rw [hcons2] at ih1 ⊢
            match s2, len1, ih1 with
            | [], _, _ => rfl
            | c3 :: s3, len1, ih1 =>
              by_cases hq3 : c3 = '"'
              · subst hq3
                simp [replaceChar_cons, hasTriple]
              · obtain ⟨d, r, hdr, hd'⟩ := dbl_head c3 s3 hq3
                rw [hdr] at ih1 ⊢
                rw [hasTriple_qq_ne _ _ hd', hasTriple_qq_ne _ _ hq3, ih1]
          · obtain ⟨d, r, hdr, hd'⟩ := dbl_head c2 s2 hq2
            rw [hdr] at ih1 ⊢
            rw [hasTriple_q_ne _ _ hd', hasTriple_q_ne _ _ hq2, ih1]
      · obtain ⟨d, r, hdr, hd'⟩ := dbl_head c s1 hq
        have hr : hasTriple r = hasTriple (replaceChar '\\' ['\\', '\\'] s1) := by
          rw [replaceChar_cons] at hdr
          by_cases hb : c = '\\'
          · subst hb
            simp only [if_true, List.cons_append, List.nil_append, List.cons.injEq] at hdr
            rw [← hdr.2, hasTriple_cons_ne _ _ (by decide)]
          · simp only [hb, if_false, List.cons_append, List.nil_append, List.cons.injEq] at hdr
            rw [← hdr.2]
        rw [hdr, hasTriple_cons_ne _ _ hd', hasTriple_cons_ne _ _ hq, hr, ih1]

theorem hasTriple_dbl (s : Str) : hasTriple (replaceChar '\\' ['\\', '\\'] s) = hasTriple s :=
  hasTriple_dbl_aux s.length s (Nat.le_refl _)

/-- after the (conditional) triple-quote step the body is an open safe spelling -/
theorem ls_tripleStep (s : Str) :
    LS (if hasTriple s then replTriple (replaceChar '\\' ['\\', '\\'] s) else replaceChar '\\' ['\\', '\\'] s) s := by
  split
  · exact ls_replTriple (spell0_dbl s)
  · next h =>
    have h' : hasTriple (replaceChar '\\' ['\\', '\\'] s) = false := by
      rw [hasTriple_dbl]; simpa using h
    rw [← replTriple_noTriple _ h']
    exact ls_replTriple (spell0_dbl s)

/-! ### the final-quote step -/

def trailBs (b : Str) : Nat := b.length - (rstripBs b).length

theorem rstripBs_cons (c : Char) (s : Str) :
    rstripBs (c :: s) = if rstripBs s = [] then (if c = '\\' then [] else [c]) else c :: rstripBs s := by
  simp only [rstripBs]
  cases rstripBs s <;> simp

theorem rstripBs_length_le : ∀ b : Str, (rstripBs b).length ≤ b.length
  | [] => Nat.le_refl _
  | c :: s => by
    have ih := rstripBs_length_le s
    rw [rstripBs_cons]
    by_cases h : rstripBs s = []
    · by_cases hc : c = '\\' <;> simp [h, hc]
    · simp [h]; omega

theorem trailBs_cons_ne (c : Char) (b : Str) (h : c ≠ '\\') : trailBs (c :: b) = trailBs b := by
  have ih := rstripBs_length_le b
  simp only [trailBs, rstripBs_cons]
  by_cases hr : rstripBs b = []
  · simp [hr, h]
  · simp [hr]

theorem trailBs_bs_cons (b : Str) :
    trailBs ('\\' :: b) = if rstripBs b = [] then b.length + 1 else trailBs b := by
  have ih := rstripBs_length_le b
  simp only [trailBs, rstripBs_cons]
  by_cases hr : rstripBs b = []
  · simp [hr]
  · simp [hr]

theorem rstripBs_cons_ne_nil (c : Char) (b : Str) (h : c ≠ '\\') : rstripBs (c :: b) ≠ [] := by
  rw [rstripBs_cons]
  by_cases hr : rstripBs b = [] <;> simp [hr, h]

theorem trailBs_bs_bs (b : Str) : trailBs ('\\' :: '\\' :: b) % 2 = trailBs b % 2 := by
  rw [trailBs_bs_cons]
  by_cases h : rstripBs b = []
  · have h2 : rstripBs ('\\' :: b) = [] := by simp [rstripBs_cons, h]
    have h3 : trailBs b = b.length := by simp [trailBs, h]
    simp [h2, h3]; omega
  · have h2 : rstripBs ('\\' :: b) ≠ [] := by simp [rstripBs_cons, h]
    rw [if_neg h2, trailBs_bs_cons, if_neg h]

theorem trailBs_bs_ne (c : Char) (b : Str) (h : c ≠ '\\') : trailBs ('\\' :: c :: b) = trailBs b := by
  rw [trailBs_bs_cons, if_neg (rstripBs_cons_ne_nil c b h), trailBs_cons_ne c b h]

/-- an open spelling that does not end in a quote character is closed -/
theorem lc_of_last_ne {e l : Str} (h : LS e l) : e.getLast? ≠ some '"' → LC e l := by
  induction h with
  | nil => intro _; exact .nil
  | @bs e1 l1 _ ih =>
    intro hl
    refine .bs (ih ?_)
    intro he; apply hl
    cases e1 with
    | nil => simp at he
    | cons x xs => simpa [List.getLast?_cons_cons] using he
  | @quote e1 l1 _ ih =>
    intro hl
    cases e1 with
    | nil => simp at hl
    | cons x xs =>
      refine .quote (ih ?_)
      intro he; apply hl
      simpa [List.getLast?_cons_cons] using he
  | @cr e1 l1 _ ih =>
    intro hl
    refine .cr (ih ?_)
    intro he; apply hl
    cases e1 with
    | nil => simp at he
    | cons x xs => simpa [List.getLast?_cons_cons] using he
  | @plain e1 l1 c hc hq _ ih =>
    intro hl
    refine .plain c hc hq (ih ?_)
    intro he; apply hl
    cases e1 with
    | nil => simp at he
    | cons x xs => simpa [List.getLast?_cons_cons] using he
  | @q e1 l1 _ hf ih =>
    intro hl
    cases e1 with
    | nil => simp at hl
    | cons x xs =>
      refine .q (ih ?_) hf (by simp)
      intro he; apply hl
      simpa [List.getLast?_cons_cons] using he

/-- appending an escaped quote closes an open spelling -/
theorem lc_append_escq {e l : Str} (h : LS e l) : LC (e ++ ['\\', '"']) (l ++ ['"']) := by
  induction h with
  | nil => exact .quote .nil
  | bs _ ih => exact .bs ih
  | quote _ ih => exact .quote ih
  | cr _ ih => exact .cr ih
  | plain c hc hq _ ih => exact .plain c hc hq ih
  | @q e1 l1 _ hf ih =>
    have h2 : fq (e1 ++ ['\\', '"']) = fq e1 := fq_append_of_head e1 _ (by decide)
    exact .q ih (by show fq (e1 ++ ['\\', '"']) < 2; omega) (by simp)

/-- a final quote character: raw (even number of backslashes before it) — the rest is an open
    spelling of the lexical form without its last quote; escaped (odd) — the spelling is closed -/
theorem ls_final_quote : ∀ {e lex : Str}, LS e lex → ∀ body : Str, e = body ++ ['"'] →
    (trailBs body % 2 = 0 → ∃ lex', lex = lex' ++ ['"'] ∧ LS body lex') ∧
    (trailBs body % 2 = 1 → LC e lex) := by
  intro e lex h
  induction h with
  | nil => intro body hb; cases body <;> simp at hb
  | @bs e1 l1 h1 ih =>
    intro body hb
    match body, hb with
    | [], hb => simp at hb
    | [x], hb => simp at hb
    | x :: y :: b1, hb =>
      simp only [List.cons_append, List.cons.injEq] at hb
      obtain ⟨hx, hy, he⟩ := hb
      subst hx hy
      obtain ⟨i1, i2⟩ := ih b1 he
      rw [trailBs_bs_bs]
      constructor
      · intro hp
        obtain ⟨l', hl, hs⟩ := i1 hp
        exact ⟨'\\' :: l', by simp [hl], .bs hs⟩
      · intro hp; exact .bs (i2 hp)
  | @quote e1 l1 h1 ih =>
    intro body hb
    match body, hb with
    | [], hb => simp at hb
    | [x], hb =>
      simp only [List.cons_append, List.nil_append, List.cons.injEq] at hb
      obtain ⟨hx, _, he⟩ := hb
      subst hx he
      cases h1
      constructor
      · intro hp
        have : trailBs ['\\'] % 2 = 1 := by decide
        omega
      · intro _; exact .quote .nil
    | x :: y :: b1, hb =>
      simp only [List.cons_append, List.cons.injEq] at hb
      obtain ⟨hx, hy, he⟩ := hb
      subst hx hy
      obtain ⟨i1, i2⟩ := ih b1 he
      rw [trailBs_bs_ne _ _ (by decide)]
      constructor
      · intro hp
        obtain ⟨l', hl, hs⟩ := i1 hp
        exact ⟨'"' :: l', by simp [hl], .quote hs⟩
      · intro hp; exact .quote (i2 hp)
  | @cr e1 l1 h1 ih =>
    intro body hb
    match body, hb with
    | [], hb => simp at hb
    | [x], hb => simp at hb
    | x :: y :: b1, hb =>
      simp only [List.cons_append, List.cons.injEq] at hb
      obtain ⟨hx, hy, he⟩ := hb
      subst hx hy
      obtain ⟨i1, i2⟩ := ih b1 he
      rw [trailBs_bs_ne _ _ (by decide)]
      constructor
      · intro hp
        obtain ⟨l', hl, hs⟩ := i1 hp
        exact ⟨'\r' :: l', by simp [hl], .cr hs⟩
      · intro hp; exact .cr (i2 hp)
  | @plain e1 l1 c hc hq h1 ih =>
    intro body hb
    match body, hb with
    | [], hb =>
      simp only [List.nil_append, List.cons.injEq] at hb
      exact absurd hb.1 hq
    | x :: b1, hb =>
      simp only [List.cons_append, List.cons.injEq] at hb
      obtain ⟨hx, he⟩ := hb
      subst hx
      obtain ⟨i1, i2⟩ := ih b1 he
      rw [trailBs_cons_ne _ _ hc]
      constructor
      · intro hp
        obtain ⟨l', hl, hs⟩ := i1 hp
        exact ⟨c :: l', by simp [hl], .plain c hc hq hs⟩
      · intro hp; exact .plain c hc hq (i2 hp)
  | @q e1 l1 h1 hf ih =>
    intro body hb
    match body, hb with
    | [], hb =>
      simp only [List.nil_append, List.cons.injEq] at hb
      obtain ⟨_, he⟩ := hb
      subst he
      cases h1
      constructor
      · intro _; exact ⟨[], rfl, .nil⟩
      · intro hp; simp [trailBs, rstripBs] at hp
    | x :: b1, hb =>
      simp only [List.cons_append, List.cons.injEq] at hb
      obtain ⟨hx, he⟩ := hb
      subst hx
      obtain ⟨i1, i2⟩ := ih b1 he
      rw [trailBs_cons_ne _ _ (by decide)]
      constructor
      · intro hp
        obtain ⟨l', hl, hs⟩ := i1 hp
        refine ⟨'"' :: l', by simp [hl], .q hs ?_⟩
        have := fq_append_le b1 ['"']
        rw [← he] at this; omega
      · intro hp
        exact .q (i2 hp) hf (by rw [he]; simp)

theorem lc_fixTrail {e l : Str} (h : LS e l) : LC (fixTrail e) l := by
  unfold fixTrail
  split
  · next hlast =>
    have he : e = e.dropLast ++ ['"'] := by
      obtain ⟨ys, hys⟩ := List.getLast?_eq_some_iff.mp hlast
      rw [hys, List.dropLast_concat]
    obtain ⟨i1, i2⟩ := ls_final_quote h e.dropLast he
    simp only
    split
    · next hpar =>
      obtain ⟨l', hl, hs⟩ := i1 hpar
      subst hl
      exact lc_append_escq hs
    · next hpar =>
      apply i2
      have : trailBs e.dropLast = e.dropLast.length - (rstripBs e.dropLast).length := rfl
      omega
  · next hlast => exact lc_of_last_ne h hlast

/-! ### `.replace("\r", "\\r")` -/

theorem fq_replCR : ∀ e : Str, fq (replaceChar '\r' ['\\', 'r'] e) = fq e
  | [] => rfl
  | c :: e => by
    rw [replaceChar_cons]
    by_cases h : c = '\r'
    · subst h; simp [fq_cons_ne]
    · by_cases hq : c = '"'
      · subst hq; simp [fq_replCR e]
      · simp [h, fq_cons_ne c _ hq]

theorem replCR_ne_nil (e : Str) (h : e ≠ []) : replaceChar '\r' ['\\', 'r'] e ≠ [] := by
  cases e with
  | nil => exact absurd rfl h
  | cons c e =>
    rw [replaceChar_cons]
    by_cases hc : c = '\r' <;> simp [hc]

theorem lc_replCR {e l : Str} (h : LC e l) : LC (replaceChar '\r' ['\\', 'r'] e) l := by
  induction h with
  | nil => exact .nil
  | bs _ ih =>
    rw [replaceChar_cons, replaceChar_cons]
    simpa using LC.bs ih
  | quote _ ih =>
    rw [replaceChar_cons, replaceChar_cons]
    simpa using LC.quote ih
  | cr _ ih =>
    rw [replaceChar_cons, replaceChar_cons]
    simpa using LC.cr ih
  | plain c hc hq _ ih =>
    rw [replaceChar_cons]
    by_cases hr : c = '\r'
    · subst hr; simpa using LC.cr ih
    · simpa [hr] using LC.plain c hc hq ih
  | @q e1 l1 _ hf hne ih =>
    rw [replaceChar_cons]
    simpa using LC.q ih (by rw [fq_replCR]; exact hf) (replCR_ne_nil e1 hne)

/-- the long-quoted body is a closed safe spelling of the lexical form -/
theorem lc_longEncode (s : Str) : LC (longEncode s) s := by
  unfold longEncode
  exact lc_replCR (lc_fixTrail (ls_tripleStep s))

/-! ### the scanner reads every closed safe spelling -/

theorem readLong_plain (c : Char) (r : Str) (h1 : c ≠ '"') (h2 : c ≠ '\\') :
    readLong (c :: r) = (readLong r).map (fun br => (c :: br.1, br.2)) := by
  rw [readLong.eq_def]
  split
  · next h => cases h
  · next h => injection h with h _; exact absurd h h1
  · next h => injection h with h _; exact absurd h h2
  · next c' r' _ _ h =>
    injection h with ha hb
    subst ha; subst hb
    simp [h2]

theorem readLong_q1 (c : Char) (r : Str) (h1 : c ≠ '"') :
    readLong ('"' :: c :: r) = (readLong (c :: r)).map (fun br => ('"' :: br.1, br.2)) := by
  rw [readLong.eq_def]
  split
  · next h => cases h
  · next h => injection h with _ h; injection h with h _; exact absurd h h1
  · next h => injection h with h _; exact absurd h (by decide)
  · next c' r' _ _ h =>
    injection h with ha hb
    subst ha; subst hb
    simp

theorem readLong_q2 (c : Char) (r : Str) (h1 : c ≠ '"') :
    readLong ('"' :: '"' :: c :: r) = (readLong ('"' :: c :: r)).map (fun br => ('"' :: br.1, br.2)) := by
  rw [readLong.eq_def]
  split
  · next h => cases h
  · next h => injection h with _ h; injection h with _ h; injection h with h _; exact absurd h h1
  · next h => injection h with h _; exact absurd h (by decide)
  · next c' r' _ _ h =>
    injection h with ha hb
    subst ha; subst hb
    simp

theorem lc_head_q {e l : Str} (h : LC ('"' :: e) l) : e ≠ [] ∧ fq e < 2 := by
  cases h with
  | plain c hc hq _ => exact absurd rfl hq
  | q _ hf hne => exact ⟨hne, hf⟩

theorem readLong_lc {e l : Str} (h : LC e l) (rest : Str) :
    readLong (e ++ q3 ++ rest) = some (l, rest) := by
  induction h with
  | nil => simp [q3, readLong]
  | bs _ ih =>
    simp only [List.cons_append, List.append_assoc] at ih ⊢
    simp [readLong, unesc, ih]
  | quote _ ih =>
    simp only [List.cons_append, List.append_assoc] at ih ⊢
    simp [readLong, unesc, ih]
  | cr _ ih =>
    simp only [List.cons_append, List.append_assoc] at ih ⊢
    simp [readLong, unesc, ih]
  | plain c hc hq _ ih =>
    simp only [List.cons_append, List.append_assoc] at ih ⊢
    rw [readLong_plain c _ hq hc, ih]
    rfl
  | @q e1 l1 h1 hf hne ih =>
    match e1, h1, hf, hne, ih with
    | c :: e2, h1, hf, _, ih =>
      by_cases hq : c = '"'
      · subst hq
        obtain ⟨hne2, hf2⟩ := lc_head_q h1
        match e2, hne2, hf, h1, ih with
        | c3 :: e3, _, hf, h1, ih =>
          have hq3 : c3 ≠ '"' := by
            intro e; subst e; simp at hf; omega
          simp only [List.cons_append, List.append_assoc] at ih ⊢
          rw [readLong_q2 c3 _ hq3, ih]
          rfl
      · simp only [List.cons_append, List.append_assoc] at ih ⊢
        rw [readLong_q1 c _ hq, ih]
        rfl

/-- the long branch of `_quote_encode` reads back, whatever the lexical form -/
theorem readLong_enc (s rest : Str) : readLong (longEncode s ++ q3 ++ rest) = some (s, rest) :=
  readLong_lc (lc_longEncode s) rest

end RV.C20
