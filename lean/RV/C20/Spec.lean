import RV.C20.Model
/-
  C20 — the SPECIFICATION the store is measured against (kept as simple as possible, for review):

  * `Spec.applyWrite` : what a write does to a LOCAL dataset (a set of quads + recorded graphs),
    by direct set algebra — "add, addN, remove (with wildcards), remove_graph and update have on
    the endpoint the same effect as on a local graph";
  * `SpecD` : visibility.  `visible` is what the endpoint shows, `pending` the client's writes
    that are not visible yet; they become visible IN ORDER at `commit` or before a read unless
    dirty reads are allowed (at once under autocommit); `rollback` forgets exactly them;
  * `DS.Equiv` : two datasets are the same dataset (same quads, same graphs — as sets).
-/
namespace RV.C20

/-- two datasets are the same dataset: same quads, same recorded graphs -/
def DS.Equiv (a b : DS) : Prop := SetEq a.quads b.quads ∧ SetEq a.graphs b.graphs

theorem DS.Equiv.refl (a : DS) : DS.Equiv a a := ⟨SetEq.refl _, SetEq.refl _⟩
theorem DS.Equiv.symm {a b : DS} (h : DS.Equiv a b) : DS.Equiv b a := ⟨h.1.symm, h.2.symm⟩
theorem DS.Equiv.trans {a b c : DS} (h : DS.Equiv a b) (h' : DS.Equiv b c) : DS.Equiv a c :=
  ⟨h.1.trans h'.1, h.2.trans h'.2⟩

namespace Spec

/-- `graph.add(t)` on a local dataset -/
def addQuad (d : DS) (q : Quad) : DS :=
  { quads := sinsert d.quads q, graphs := regGraph d.graphs q.2 }

def delQuad (d : DS) (q : Quad) : DS := { d with quads := sremove d.quads q }

/-- one operation of a local `update()` on graph `g` -/
def applyLocal (g : GName) (d : DS) : LOp → DS
  | .ins ts => ts.foldl (fun d t => addQuad d (t, g)) d
  | .deld ts => ts.foldl (fun d t => delQuad d (t, g)) d
  | .delw p => { d with quads := d.quads.filter (fun q => !(q.2 == g && p.matches q.1)) }

/-- the effect of a write on a local dataset -/
def applyWrite (d : DS) : Write → DS
  | .add t g => addQuad d (t, g)
  | .addN qs => qs.foldl addQuad d
  | .remove p .all => { d with quads := d.quads.filter (fun q => !p.matches q.1) }
  | .remove p (.one g) => { d with quads := d.quads.filter (fun q => !(q.2 == g && p.matches q.1)) }
  | .removeGraph none => { d with quads := d.quads.filter (fun q => !(q.2 == none)) }
  | .removeGraph (some n) =>
    { quads := d.quads.filter (fun q => !(q.2 == some n)), graphs := sremove d.graphs n }
  | .addGraph n => { d with graphs := sinsert d.graphs n }
  | .update g us => us.foldl (applyLocal g) d

def runWrites (d : DS) (ws : List Write) : DS := ws.foldl applyWrite d

end Spec

/-! ### visibility -/

structure SpecD where
  visible : DS
  pending : List Write

def SpecD.flush (s : SpecD) : SpecD := ⟨Spec.runWrites s.visible s.pending, []⟩

def SpecD.step (autocommit dirtyReads : Bool) (s : SpecD) : Op → SpecD
  | .write w =>
    let s' : SpecD := ⟨s.visible, s.pending ++ [w]⟩
    if autocommit then s'.flush else s'
  | .commit => s.flush
  | .rollback => ⟨s.visible, []⟩
  | .read _ => if !autocommit && !dirtyReads then s.flush else s

def SpecD.run (autocommit dirtyReads : Bool) (s : SpecD) (ops : List Op) : SpecD :=
  ops.foldl (SpecD.step autocommit dirtyReads) s

/-- the writes of a history, in order -/
def writesOf : List Op → List Write
  | [] => []
  | .write w :: ops => w :: writesOf ops
  | _ :: ops => writesOf ops

/-! ### plain (blank-node free) inputs: the quantifier of the property -/

def Triple.plain (t : Triple) : Bool := !isBNode t.1 && !isBNode t.2.1 && !isBNode t.2.2

def plainPos : Option Term → Bool
  | none => true
  | some t => !isBNode t

def TPat.plain (p : TPat) : Bool := plainPos p.1 && plainPos p.2.1 && plainPos p.2.2

def Write.plain : Write → Bool
  | .add t _ => t.plain
  | .addN qs => qs.all (fun q => Triple.plain q.1)
  | .remove p _ => p.plain
  | .removeGraph _ => true
  | .addGraph _ => true
  | .update _ _ => true

def Op.plain : Op → Bool
  | .write w => w.plain
  | _ => true

end RV.C20
