import RV.C20.Spec
/-
  C20 — helper lemmas: membership meaning of every endpoint operation, congruence of the
  operations w.r.t. set equality of datasets, the specification ("a local dataset receiving the
  same writes") and the per-write meaning lemma `compile_correct`.
-/
namespace RV.C20

/-! ### plain (blank-node free) inputs: `node_to_sparql` is the identity on them -/

theorem nts_plain {hook : Bool} {t : Term} (h : isBNode t = false) : nts hook t = some t := by
  simp [nts, h]

theorem encTriple_plain {hook : Bool} {t : Triple} (h : t.plain = true) : encTriple hook t = some t := by
  obtain ⟨a, b, c⟩ := t
  simp only [Triple.plain, Bool.and_eq_true, Bool.not_eq_true'] at h
  simp [encTriple, nts_plain h.1.1, nts_plain h.1.2, nts_plain h.2]

theorem encPos_plain {hook : Bool} {x : Option Term} (h : plainPos x = true) : encPos hook x = some x := by
  cases x with
  | none => rfl
  | some t =>
    simp only [plainPos, Bool.not_eq_true'] at h
    simp [encPos, nts_plain h]

theorem encPat_plain {hook : Bool} {p : TPat} (h : p.plain = true) : encPat hook p = some p := by
  obtain ⟨a, b, c⟩ := p
  simp only [TPat.plain, Bool.and_eq_true] at h
  simp [encPat, encPos_plain h.1.1, encPos_plain h.1.2, encPos_plain h.2]

theorem encQuads_plain {hook : Bool} : ∀ {qs : List Quad}, qs.all (fun q => Triple.plain q.1) = true →
    encQuads hook qs = some qs
  | [], _ => rfl
  | q :: qs, h => by
    simp only [List.all_cons, Bool.and_eq_true] at h
    obtain ⟨t, g⟩ := q
    simp [encQuads, encTriple_plain h.1, encQuads_plain h.2]

/-! ### membership meaning of the endpoint operations -/

theorem mem_regGraph {gs : List Nat} {g : GName} {n : Nat} :
    n ∈ regGraph gs g ↔ g = some n ∨ n ∈ gs := by
  cases g with
  | none => simp [regGraph]
  | some m =>
    simp only [regGraph, mem_sinsert, Option.some.injEq]
    constructor
    · rintro (h | h)
      · exact Or.inl h.symm
      · exact Or.inr h
    · rintro (h | h)
      · exact Or.inl h.symm
      · exact Or.inr h

theorem mem_insertAll {g : GName} : ∀ {ts : List Triple} {qs : List Quad} {x : Quad},
    x ∈ insertAll qs g ts ↔ x ∈ qs ∨ (x.2 = g ∧ x.1 ∈ ts)
  | [], qs, x => by simp [insertAll]
  | t :: ts, qs, x => by
    simp only [insertAll, mem_insertAll (ts := ts), mem_sinsert, List.mem_cons]
    obtain ⟨xt, xg⟩ := x
    constructor
    · rintro ((h | h) | h)
      · simp only [Prod.mk.injEq] at h; exact Or.inr ⟨h.2, Or.inl h.1⟩
      · exact Or.inl h
      · exact Or.inr ⟨h.1, Or.inr h.2⟩
    · rintro (h | ⟨h1, h2 | h2⟩)
      · exact Or.inl (Or.inr h)
      · simp only at h1 h2; subst h1; subst h2; exact Or.inl (Or.inl rfl)
      · exact Or.inr ⟨h1, h2⟩

theorem mem_removeAll {g : GName} : ∀ {ts : List Triple} {qs : List Quad} {x : Quad},
    x ∈ removeAll qs g ts ↔ x ∈ qs ∧ ¬ (x.2 = g ∧ x.1 ∈ ts)
  | [], qs, x => by simp [removeAll]
  | t :: ts, qs, x => by
    simp only [removeAll, mem_removeAll (ts := ts), mem_sremove, List.mem_cons]
    obtain ⟨xt, xg⟩ := x
    constructor
    · rintro ⟨⟨h1, h2⟩, h3⟩
      refine ⟨h2, ?_⟩
      rintro ⟨hg, ht | ht⟩
      · simp only at hg ht; subst hg; subst ht; exact h1 rfl
      · exact h3 ⟨hg, ht⟩
    · rintro ⟨h1, h2⟩
      refine ⟨⟨?_, h1⟩, ?_⟩
      · intro e
        simp only [Prod.mk.injEq] at e
        exact h2 ⟨e.2, Or.inl e.1⟩
      · rintro ⟨hg, ht⟩
        exact h2 ⟨hg, Or.inr ht⟩

/-- the quads after an operation, as a predicate that uses the old dataset only through membership -/
def UOp.keeps (u : UOp) (x : Quad) (was : Prop) : Prop :=
  match u with
  | .insertData g ts => was ∨ (x.2 = g ∧ x.1 ∈ ts)
  | .deleteData g ts => was ∧ ¬ (x.2 = g ∧ x.1 ∈ ts)
  | .deleteWhere g p => was ∧ ¬ (x.2 = g ∧ p.matches x.1 = true)
  | .deleteNamed p => was ∧ ¬ (x.2.isSome = true ∧ p.matches x.1 = true)
  | .dropGraph g => was ∧ ¬ (x.2 = g)
  | .createGraph _ => was

theorem mem_apply_quads (d : DS) (u : UOp) (x : Quad) :
    x ∈ (u.apply d).quads ↔ u.keeps x (x ∈ d.quads) := by
  cases u with
  | insertData g ts => simp [UOp.apply, UOp.keeps, mem_insertAll]
  | deleteData g ts => simp [UOp.apply, UOp.keeps, mem_removeAll]
  | deleteWhere g p =>
    simp only [UOp.apply, UOp.keeps, List.mem_filter]
    by_cases h1 : x.2 = g <;> by_cases h2 : p.matches x.1 = true <;> simp [h1, h2]
  | deleteNamed p =>
    simp only [UOp.apply, UOp.keeps, List.mem_filter]
    by_cases h1 : x.2.isSome = true <;> by_cases h2 : p.matches x.1 = true <;> simp [h1, h2]
  | dropGraph g =>
    cases g with
    | none =>
      simp only [UOp.apply, UOp.keeps, List.mem_filter]
      cases hx : x.2 <;> simp
    | some n =>
      simp only [UOp.apply, UOp.keeps, List.mem_filter]
      by_cases h1 : x.2 = some n <;> simp [h1]
  | createGraph n => simp [UOp.apply, UOp.keeps]

def UOp.keepsGraph (u : UOp) (n : Nat) (was : Prop) : Prop :=
  match u with
  | .insertData g ts => if ts.isEmpty then was else (g = some n ∨ was)
  | .dropGraph (some m) => n ≠ m ∧ was
  | .createGraph m => n = m ∨ was
  | _ => was

theorem mem_apply_graphs (d : DS) (u : UOp) (n : Nat) :
    n ∈ (u.apply d).graphs ↔ u.keepsGraph n (n ∈ d.graphs) := by
  cases u with
  | insertData g ts =>
    simp only [UOp.apply, UOp.keepsGraph]
    split
    · exact Iff.rfl
    · exact mem_regGraph
  | deleteData g ts => simp [UOp.apply, UOp.keepsGraph]
  | deleteWhere g p => simp [UOp.apply, UOp.keepsGraph]
  | deleteNamed p => simp [UOp.apply, UOp.keepsGraph]
  | dropGraph g =>
    cases g <;> simp [UOp.apply, UOp.keepsGraph]
  | createGraph m => simp [UOp.apply, UOp.keepsGraph]

theorem keeps_congr (u : UOp) (x : Quad) {a b : Prop} (h : a ↔ b) : u.keeps x a ↔ u.keeps x b := by
  cases u <;> simp only [UOp.keeps, h]

theorem keepsGraph_congr (u : UOp) (n : Nat) {a b : Prop} (h : a ↔ b) :
    u.keepsGraph n a ↔ u.keepsGraph n b := by
  cases u with
  | dropGraph g => cases g <;> simp only [UOp.keepsGraph, h]
  | _ => simp only [UOp.keepsGraph, h]

/-- the endpoint's operations respect dataset equality -/
theorem apply_congr {a b : DS} (h : DS.Equiv a b) (u : UOp) : DS.Equiv (u.apply a) (u.apply b) := by
  constructor
  · intro x
    rw [mem_apply_quads, mem_apply_quads]
    exact keeps_congr u x (h.1 x)
  · intro n
    rw [mem_apply_graphs, mem_apply_graphs]
    exact keepsGraph_congr u n (h.2 n)

theorem applyOps_congr (us : List UOp) : ∀ {a b : DS}, DS.Equiv a b → DS.Equiv (applyOps a us) (applyOps b us) := by
  induction us with
  | nil => intro a b h; exact h
  | cons u us ih => intro a b h; exact ih (apply_congr h u)

theorem applyEdits_congr (es : List (List UOp)) :
    ∀ {a b : DS}, DS.Equiv a b → DS.Equiv (applyEdits a es) (applyEdits b es) := by
  induction es with
  | nil => intro a b h; exact h
  | cons e es ih => intro a b h; exact ih (applyOps_congr e h)

theorem applyEdits_append (d : DS) (es es' : List (List UOp)) :
    applyEdits d (es ++ es') = applyEdits (applyEdits d es) es' := by
  simp [applyEdits, List.foldl_append]

/-! ### the specification respects dataset equality too -/

theorem addQuad_congr {a b : DS} (h : DS.Equiv a b) (q : Quad) :
    DS.Equiv (Spec.addQuad a q) (Spec.addQuad b q) := by
  constructor
  · intro x; simp only [Spec.addQuad, mem_sinsert, h.1 x]
  · intro n; simp only [Spec.addQuad, mem_regGraph, h.2 n]

theorem delQuad_congr {a b : DS} (h : DS.Equiv a b) (q : Quad) :
    DS.Equiv (Spec.delQuad a q) (Spec.delQuad b q) := by
  constructor
  · intro x; simp only [Spec.delQuad, mem_sremove, h.1 x]
  · intro n; simp only [Spec.delQuad, h.2 n]

theorem foldl_congr {α : Type} (f : DS → α → DS)
    (hf : ∀ {a b : DS}, DS.Equiv a b → ∀ x, DS.Equiv (f a x) (f b x)) (xs : List α) :
    ∀ {a b : DS}, DS.Equiv a b → DS.Equiv (xs.foldl f a) (xs.foldl f b) := by
  induction xs with
  | nil => intro a b h; exact h
  | cons x xs ih => intro a b h; exact ih (hf h x)

theorem filter_congr {a b : DS} (h : DS.Equiv a b) (f : Quad → Bool) :
    SetEq (a.quads.filter f) (b.quads.filter f) := by
  intro x; simp only [List.mem_filter, h.1 x]

theorem applyLocal_congr (g : GName) {a b : DS} (h : DS.Equiv a b) (l : LOp) :
    DS.Equiv (Spec.applyLocal g a l) (Spec.applyLocal g b l) := by
  cases l with
  | ins ts => exact foldl_congr _ (fun h t => addQuad_congr h (t, g)) ts h
  | deld ts => exact foldl_congr _ (fun h t => delQuad_congr h (t, g)) ts h
  | delw p => exact ⟨filter_congr h _, h.2⟩

theorem applyWrite_congr {a b : DS} (h : DS.Equiv a b) (w : Write) :
    DS.Equiv (Spec.applyWrite a w) (Spec.applyWrite b w) := by
  cases w with
  | add t g => exact addQuad_congr h _
  | addN qs => exact foldl_congr _ (fun h q => addQuad_congr h q) qs h
  | remove p sel =>
    cases sel with
    | all => exact ⟨filter_congr h _, h.2⟩
    | one g => exact ⟨filter_congr h _, h.2⟩
  | removeGraph g =>
    cases g with
    | none => exact ⟨filter_congr h _, h.2⟩
    | some n =>
      refine ⟨filter_congr h _, ?_⟩
      intro m; simp only [Spec.applyWrite, mem_sremove, h.2 m]
  | addGraph n =>
    refine ⟨h.1, ?_⟩
    intro m; simp only [Spec.applyWrite, mem_sinsert, h.2 m]
  | update g us => exact foldl_congr _ (fun h l => applyLocal_congr g h l) us h

theorem runWrites_congr (ws : List Write) {a b : DS} (h : DS.Equiv a b) :
    DS.Equiv (Spec.runWrites a ws) (Spec.runWrites b ws) :=
  foldl_congr _ (fun h w => applyWrite_congr h w) ws h

/-! ### grouping of `addN` -/

/-- all quads held by a list of groups -/
def groupQuads (gs : List (GName × List Triple)) : List Quad :=
  gs.flatMap (fun gt => gt.2.map (fun t => (t, gt.1)))

theorem mem_groupQuads {gs : List (GName × List Triple)} {x : Quad} :
    x ∈ groupQuads gs ↔ ∃ gt ∈ gs, gt.1 = x.2 ∧ x.1 ∈ gt.2 := by
  obtain ⟨xt, xg⟩ := x
  simp only [groupQuads, List.mem_flatMap, List.mem_map, Prod.mk.injEq]
  constructor
  · rintro ⟨gt, hgt, t, ht, rfl, rfl⟩
    exact ⟨gt, hgt, rfl, ht⟩
  · rintro ⟨gt, hgt, h1, h2⟩
    exact ⟨gt, hgt, xt, h2, rfl, h1⟩

theorem mem_groupAdd : ∀ {acc : List (GName × List Triple)} {q x : Quad},
    x ∈ groupQuads (groupAdd acc q) ↔ x ∈ groupQuads acc ∨ x = q
  | [], q, x => by
    obtain ⟨xt, xg⟩ := x
    obtain ⟨qt, qg⟩ := q
    simp [groupAdd, groupQuads]
  | (g, ts) :: rest, q, x => by
    obtain ⟨xt, xg⟩ := x
    obtain ⟨qt, qg⟩ := q
    unfold groupAdd
    split
    · next hg =>
      simp only at hg
      subst hg
      simp only [groupQuads, List.flatMap_cons, List.mem_append, List.mem_map, Prod.mk.injEq]
      constructor
      · rintro (⟨t, ht, rfl, rfl⟩ | h)
        · rcases ht with ht | ht
          · exact Or.inl (Or.inl ⟨t, ht, rfl, rfl⟩)
          · simp only [List.mem_cons, List.not_mem_nil, or_false] at ht
            subst ht; exact Or.inr ⟨rfl, rfl⟩
        · exact Or.inl (Or.inr h)
      · rintro ((⟨t, ht, rfl, rfl⟩ | h) | ⟨rfl, rfl⟩)
        · exact Or.inl ⟨t, Or.inl ht, rfl, rfl⟩
        · exact Or.inr h
        · exact Or.inl ⟨xt, Or.inr (List.mem_singleton.mpr rfl), rfl, rfl⟩
    · have ih := mem_groupAdd (acc := rest) (q := (qt, qg)) (x := (xt, xg))
      simp only [groupQuads, List.flatMap_cons, List.mem_append] at ih ⊢
      rw [ih]
      constructor
      · rintro (h | h | h)
        · exact Or.inl (Or.inl h)
        · exact Or.inl (Or.inr h)
        · exact Or.inr h
      · rintro ((h | h) | h)
        · exact Or.inl h
        · exact Or.inr (Or.inl h)
        · exact Or.inr (Or.inr h)

theorem mem_groups_aux (qs : List Quad) : ∀ (acc : List (GName × List Triple)) (x : Quad),
    x ∈ groupQuads (qs.foldl groupAdd acc) ↔ x ∈ groupQuads acc ∨ x ∈ qs := by
  induction qs with
  | nil => intro acc x; simp
  | cons q qs ih =>
    intro acc x
    simp only [List.foldl_cons, ih, mem_groupAdd, List.mem_cons]
    constructor
    · rintro ((h | h) | h)
      · exact Or.inl h
      · exact Or.inr (Or.inl h)
      · exact Or.inr (Or.inr h)
    · rintro (h | h | h)
      · exact Or.inl (Or.inl h)
      · exact Or.inl (Or.inr h)
      · exact Or.inr h

/-- the groups of `addN` hold exactly the quads given -/
theorem mem_groups (qs : List Quad) (x : Quad) : x ∈ groupQuads (groups qs) ↔ x ∈ qs := by
  unfold groups
  rw [mem_groups_aux]
  simp [groupQuads]

/-- no group is empty (so every `INSERT DATA` of `addN` records its graph) -/
theorem groupAdd_nonempty : ∀ {acc : List (GName × List Triple)} {q : Quad},
    (∀ gt ∈ acc, gt.2 ≠ []) → ∀ gt ∈ groupAdd acc q, gt.2 ≠ []
  | [], q, _ => by simp [groupAdd]
  | (g, ts) :: rest, q, h => by
    unfold groupAdd
    split
    · intro gt hgt
      rcases List.mem_cons.mp hgt with rfl | hgt
      · simp
      · exact h gt (List.mem_cons_of_mem _ hgt)
    · intro gt hgt
      rcases List.mem_cons.mp hgt with rfl | hgt
      · exact h _ (List.mem_cons_self ..)
      · exact groupAdd_nonempty (fun gt' h' => h gt' (List.mem_cons_of_mem _ h')) gt hgt

theorem groups_nonempty_aux (qs : List Quad) : ∀ (acc : List (GName × List Triple)),
    (∀ gt ∈ acc, gt.2 ≠ []) → ∀ gt ∈ qs.foldl groupAdd acc, gt.2 ≠ [] := by
  induction qs with
  | nil => intro acc h; exact h
  | cons q qs ih => intro acc h; exact ih _ (groupAdd_nonempty h)

theorem groups_nonempty (qs : List Quad) : ∀ gt ∈ groups qs, gt.2 ≠ [] :=
  groups_nonempty_aux qs [] (by simp)

/-- applying one `INSERT DATA` per group -/
theorem applyEdits_groups (gs : List (GName × List Triple)) (hne : ∀ gt ∈ gs, gt.2 ≠ []) :
    ∀ (d : DS),
      (∀ x, x ∈ (applyEdits d (gs.map (fun gt => [UOp.insertData gt.1 gt.2]))).quads ↔
        x ∈ d.quads ∨ x ∈ groupQuads gs) ∧
      (∀ n, n ∈ (applyEdits d (gs.map (fun gt => [UOp.insertData gt.1 gt.2]))).graphs ↔
        n ∈ d.graphs ∨ ∃ gt ∈ gs, gt.1 = some n) := by
  induction gs with
  | nil => intro d; simp [applyEdits, groupQuads]
  | cons gt gs ih =>
    intro d
    have hne' : ∀ gt' ∈ gs, gt'.2 ≠ [] := fun gt' h => hne gt' (List.mem_cons_of_mem _ h)
    have hgt : gt.2 ≠ [] := hne gt (List.mem_cons_self ..)
    have hemp : gt.2.isEmpty = false := by
      cases h : gt.2 with
      | nil => exact absurd h hgt
      | cons _ _ => rfl
    obtain ⟨ih1, ih2⟩ := ih hne' (applyOps d [UOp.insertData gt.1 gt.2])
    simp only [List.map_cons, applyEdits, List.foldl_cons] at ih1 ih2 ⊢
    constructor
    · intro x
      rw [ih1 x]
      simp only [applyOps, List.foldl_cons, List.foldl_nil, UOp.apply, mem_insertAll, groupQuads,
        List.flatMap_cons, List.mem_append, List.mem_map]
      obtain ⟨xt, xg⟩ := x
      constructor
      · rintro ((h | ⟨h1, h2⟩) | h)
        · exact Or.inl h
        · exact Or.inr (Or.inl ⟨xt, h2, by simp only at h1; rw [h1]⟩)
        · exact Or.inr (Or.inr h)
      · rintro (h | ⟨t, ht, he⟩ | h)
        · exact Or.inl (Or.inl h)
        · simp only [Prod.mk.injEq] at he
          obtain ⟨rfl, rfl⟩ := he
          exact Or.inl (Or.inr ⟨rfl, ht⟩)
        · exact Or.inr h
    · intro n
      rw [ih2 n]
      simp only [applyOps, List.foldl_cons, List.foldl_nil, UOp.apply, hemp, Bool.false_eq_true,
        if_false, mem_regGraph, List.mem_cons]
      constructor
      · rintro ((h | h) | ⟨gt', h1, h2⟩)
        · exact Or.inr ⟨gt, Or.inl rfl, h⟩
        · exact Or.inl h
        · exact Or.inr ⟨gt', Or.inr h1, h2⟩
      · rintro (h | ⟨gt', rfl | h1, h2⟩)
        · exact Or.inl (Or.inr h)
        · exact Or.inl (Or.inl h2)
        · exact Or.inr ⟨gt', h1, h2⟩

/-! ### what the specification's folds contain -/

theorem mem_foldl_addQuad (qs : List Quad) : ∀ (d : DS),
    (∀ x, x ∈ (qs.foldl Spec.addQuad d).quads ↔ x ∈ d.quads ∨ x ∈ qs) ∧
    (∀ n, n ∈ (qs.foldl Spec.addQuad d).graphs ↔ n ∈ d.graphs ∨ ∃ q ∈ qs, q.2 = some n) := by
  induction qs with
  | nil => intro d; simp
  | cons q qs ih =>
    intro d
    obtain ⟨ih1, ih2⟩ := ih (Spec.addQuad d q)
    simp only [List.foldl_cons]
    constructor
    · intro x
      rw [ih1 x]
      simp only [Spec.addQuad, mem_sinsert, List.mem_cons]
      constructor
      · rintro ((h | h) | h)
        · exact Or.inr (Or.inl h)
        · exact Or.inl h
        · exact Or.inr (Or.inr h)
      · rintro (h | h | h)
        · exact Or.inl (Or.inr h)
        · exact Or.inl (Or.inl h)
        · exact Or.inr h
    · intro n
      rw [ih2 n]
      simp only [Spec.addQuad, mem_regGraph, List.mem_cons]
      constructor
      · rintro ((h | h) | ⟨q', h1, h2⟩)
        · exact Or.inr ⟨q, Or.inl rfl, h⟩
        · exact Or.inl h
        · exact Or.inr ⟨q', Or.inr h1, h2⟩
      · rintro (h | ⟨q', rfl | h1, h2⟩)
        · exact Or.inl (Or.inr h)
        · exact Or.inl (Or.inl h2)
        · exact Or.inr ⟨q', h1, h2⟩

theorem insertAll_eq_foldl (g : GName) : ∀ (ts : List Triple) (d : DS),
    (ts.foldl (fun d t => Spec.addQuad d (t, g)) d).quads = insertAll d.quads g ts
  | [], d => rfl
  | t :: ts, d => by
    simp only [List.foldl_cons, insertAll]
    rw [insertAll_eq_foldl g ts (Spec.addQuad d (t, g))]
    rfl

theorem foldl_addQuad_graphs (g : GName) : ∀ (ts : List Triple) (d : DS), ts ≠ [] →
    SetEq (ts.foldl (fun d t => Spec.addQuad d (t, g)) d).graphs (regGraph d.graphs g)
  | [], d, h => absurd rfl h
  | [t], d, _ => by intro n; simp [Spec.addQuad]
  | t :: t' :: ts, d, _ => by
    have ih := foldl_addQuad_graphs g (t' :: ts) (Spec.addQuad d (t, g)) (by simp)
    intro n
    rw [List.foldl_cons, ih n]
    simp only [Spec.addQuad, mem_regGraph]
    constructor
    · rintro (h | h | h)
      · exact Or.inl h
      · exact Or.inl h
      · exact Or.inr h
    · rintro (h | h)
      · exact Or.inl h
      · exact Or.inr (Or.inr h)

theorem removeAll_eq_foldl (g : GName) : ∀ (ts : List Triple) (d : DS),
    ts.foldl (fun d t => Spec.delQuad d (t, g)) d = { d with quads := removeAll d.quads g ts }
  | [], d => rfl
  | t :: ts, d => by
    simp only [List.foldl_cons, removeAll]
    rw [removeAll_eq_foldl g ts (Spec.delQuad d (t, g))]
    rfl

/-- one wrapped local operation means what the local operation does -/
theorem wrap_correct (g : GName) (d : DS) (l : LOp) :
    DS.Equiv ((l.wrap g).apply d) (Spec.applyLocal g d l) := by
  cases l with
  | ins ts =>
    constructor
    · intro x
      simp only [LOp.wrap, UOp.apply, Spec.applyLocal, insertAll_eq_foldl]
    · simp only [LOp.wrap, UOp.apply, Spec.applyLocal]
      cases ts with
      | nil => exact SetEq.refl _
      | cons t ts =>
        simp only [List.isEmpty_cons, Bool.false_eq_true, if_false]
        exact (foldl_addQuad_graphs g (t :: ts) d (by simp)).symm
  | deld ts =>
    simp only [LOp.wrap, UOp.apply, Spec.applyLocal, removeAll_eq_foldl]
    exact DS.Equiv.refl _
  | delw p => exact DS.Equiv.refl _

theorem update_correct (g : GName) (us : List LOp) : ∀ (a b : DS), DS.Equiv a b →
    DS.Equiv (applyOps a (us.map (LOp.wrap g))) (us.foldl (Spec.applyLocal g) b) := by
  induction us with
  | nil => intro a b h; exact h
  | cons l us ih =>
    intro a b h
    simp only [List.map_cons, applyOps, List.foldl_cons]
    exact ih _ _ ((apply_congr h (l.wrap g)).trans ((wrap_correct g b l).trans (DS.Equiv.refl _)))

/-! ### the per-write meaning lemma -/

/-- a blank-node free write is never refused, and the request texts it queues mean — executed in
    order on the endpoint — exactly what the write does to a local dataset -/
theorem compile_correct (hook : Bool) (w : Write) (hw : w.plain = true) :
    ∃ es, compileWrite hook w = some es ∧
      ∀ a b, DS.Equiv a b → DS.Equiv (applyEdits a es) (Spec.applyWrite b w) := by
  cases w with
  | add t g =>
    refine ⟨[[.insertData g [t]]], ?_, ?_⟩
    · simp only [Write.plain] at hw
      simp [compileWrite, encTriple_plain hw]
    · intro a b h
      exact (applyEdits_congr _ h).trans (DS.Equiv.refl _)
  | addN qs =>
    simp only [Write.plain] at hw
    refine ⟨(groups qs).map (fun gt => [.insertData gt.1 gt.2]), ?_, ?_⟩
    · simp [compileWrite, encQuads_plain hw]
    · intro a b h
      refine (applyEdits_congr _ h).trans ?_
      obtain ⟨h1, h2⟩ := applyEdits_groups (groups qs) (groups_nonempty qs) b
      obtain ⟨s1, s2⟩ := mem_foldl_addQuad qs b
      constructor
      · intro x
        rw [h1 x, mem_groups]
        exact (s1 x).symm
      · intro n
        simp only [Spec.applyWrite]
        rw [h2 n, s2 n]
        constructor
        · rintro (h | ⟨gt, hgt, hg⟩)
          · exact Or.inl h
          · have hne := groups_nonempty qs gt hgt
            cases hts : gt.2 with
            | nil => exact absurd hts hne
            | cons t ts =>
              have : ((t, gt.1) : Quad) ∈ groupQuads (groups qs) :=
                mem_groupQuads.mpr ⟨gt, hgt, rfl, by rw [hts]; exact List.mem_cons_self ..⟩
              exact Or.inr ⟨(t, gt.1), (mem_groups qs _).mp this, hg⟩
        · rintro (h | ⟨q, hq, hg⟩)
          · exact Or.inl h
          · obtain ⟨gt, hgt, h1', _⟩ := mem_groupQuads.mp ((mem_groups qs q).mpr hq)
            exact Or.inr ⟨gt, hgt, h1'.trans hg⟩
  | remove p sel =>
    simp only [Write.plain] at hw
    cases sel with
    | one g =>
      refine ⟨[[.deleteWhere g p]], by simp [compileWrite, encPat_plain hw], ?_⟩
      intro a b h
      exact (applyEdits_congr _ h).trans (DS.Equiv.refl _)
    | all =>
      refine ⟨[[.deleteWhere none p, .deleteNamed p]], by simp [compileWrite, encPat_plain hw], ?_⟩
      intro a b h
      refine (applyEdits_congr _ h).trans ?_
      constructor
      · intro x
        obtain ⟨xt, xg⟩ := x
        simp only [applyEdits, applyOps, List.foldl_cons, List.foldl_nil, UOp.apply, Spec.applyWrite,
          List.mem_filter]
        cases xg <;> simp
      · exact SetEq.refl _
  | removeGraph g =>
    refine ⟨[[.dropGraph g]], rfl, ?_⟩
    intro a b h
    refine (applyEdits_congr _ h).trans ?_
    cases g <;> exact DS.Equiv.refl _
  | addGraph n =>
    refine ⟨[[.createGraph n]], rfl, ?_⟩
    intro a b h
    exact (applyEdits_congr _ h).trans (DS.Equiv.refl _)
  | update g us =>
    refine ⟨[us.map (LOp.wrap g)], rfl, ?_⟩
    intro a b h
    simp only [applyEdits, List.foldl_cons, List.foldl_nil, Spec.applyWrite]
    exact update_correct g us a b h

end RV.C20
