import RV.C20.Text
/-
  C20 — `SPARQLUpdateStore._insert_named_graph` as the character-level rewrite the code performs,
  and the `VALUES` block that `query(initBindings=…)` appends.

  `_insert_named_graph(query, g)` runs `BLOCK_FINDING_PATTERN.finditer` over the caller's update
  text: `{` | `}` | block content (a string literal — long forms FIRST, after the fix —, an IRIREF,
  a `#` comment, or `\` + one character).  Everything is copied; after a `{` that opens a
  top-level block ` GRAPH <g> {` is inserted and before the `}` that closes it `} ` — unless the
  block holds nothing but white space.  Where a construct cannot be completed (no closing quote,
  a forbidden character before `>`), the regex engine moves on by one character; the model decides
  this by look-ahead (`shortCloses`, `longCloses`, `iriCloses`).
-/
namespace RV.C20

/-- `str.isspace()` on the ASCII range -/
def isPySpace (c : Char) : Bool :=
  c = ' ' || c = '\t' || c = '\n' || c = '\r' || c = Char.ofNat 11 || c = Char.ofNat 12

/-- `q([^q\\]|\\.)*q` matches (the opening quote is consumed; `.` is not a newline; flag: the
    previous character was an unescaped backslash) -/
def shortClosesAux (q : Char) : Bool → Str → Bool
  | _, [] => false
  | true, d :: r => if d = '\n' then false else shortClosesAux q false r
  | false, c :: r => if c = '\\' then shortClosesAux q true r else if c = q then true else shortClosesAux q false r

def shortCloses (q : Char) (s : Str) : Bool := shortClosesAux q false s

/-- the next two characters are both `q` -/
def startsQQ (q : Char) : Str → Bool
  | c2 :: c3 :: _ => c2 = q && c3 = q
  | _ => false

/-- `qqq((q|qq)?([^q\\]|\\.))*qqq` matches (the opening `qqq` is consumed) -/
def longClosesAux (q : Char) : Bool → Str → Bool
  | _, [] => false
  | true, d :: r => if d = '\n' then false else longClosesAux q false r
  | false, c :: r =>
    if c = '\\' then longClosesAux q true r
    else if c = q && startsQQ q r then true
    else longClosesAux q false r

def longCloses (q : Char) (s : Str) : Bool := longClosesAux q false s

/-- a character the IRIREF pattern excludes -/
def iriBad (c : Char) : Bool :=
  c = '<' || c = '"' || c = '{' || c = '}' || c = '|' || c = '^' || c = '`' || c = '\\' || c ≤ ' '

/-- `<([^<>"{}|^`\\\x00-\x20])*>` matches (the `<` is consumed) -/
def iriCloses : Str → Bool
  | [] => false
  | c :: r => if c = '>' then true else if iriBad c then false else iriCloses r

/-- the block after a `{` holds only white space up to its `}` -/
def blankBlock : Str → Bool
  | [] => false
  | c :: r => if c = '}' then true else if isPySpace c then blankBlock r else false

/-- a long string `qqq … qqq` starts at a `q` followed by `r` -/
def longStarts (q : Char) : Str → Bool
  | c2 :: c3 :: r => c2 = q && c3 = q && longCloses q r
  | _ => false

inductive Mode
  | top
  /-- copy one more character, whatever it is (after a backslash) -/
  | esc (back : Mode)
  | short (q : Char)
  /-- `k` more quotes of an opening / closing `qqq` to copy, then mode `next` -/
  | quotes (k : Nat) (next : Mode)
  | long (q : Char)
  | iri
  | comment
  deriving Repr, DecidableEq

/-- the rewrite: mode, brace level (`level` of the Python loop, may go negative), whether the
    current top-level block got its `GRAPH <g> {` -/
def rwGo (opn cls : Str) : Mode → Int → Bool → Str → Str
  | _, _, _, [] => []
  | .comment, l, w, c :: r => c :: rwGo opn cls (if c = '\n' || c = '\r' then .top else .comment) l w r
  | .iri, l, w, c :: r => c :: rwGo opn cls (if c = '>' then .top else .iri) l w r
  | .esc back, l, w, c :: r => c :: rwGo opn cls back l w r
  | .quotes k next, l, w, c :: r =>
    c :: rwGo opn cls (match k with | 0 => next | k + 1 => if k = 0 then next else .quotes k next) l w r
  | .short q, l, w, c :: r =>
    c :: rwGo opn cls (if c = '\\' then .esc (.short q) else if c = q then .top else .short q) l w r
  | .long q, l, w, c :: r =>
    if c = '\\' then c :: rwGo opn cls (.esc (.long q)) l w r
    else if c = q && startsQQ q r then c :: rwGo opn cls (.quotes 2 .top) l w r
    else c :: rwGo opn cls (.long q) l w r
  | .top, l, w, c :: r =>
    if c = '{' then
      if l = 0 then
        if blankBlock r then '{' :: rwGo opn cls .top 1 false r
        else '{' :: (opn ++ rwGo opn cls .top 1 true r)
      else '{' :: rwGo opn cls .top (l + 1) w r
    else if c = '}' then
      if l = 1 then
        if w then cls ++ '}' :: rwGo opn cls .top 0 false r
        else '}' :: rwGo opn cls .top 0 false r
      else '}' :: rwGo opn cls .top (l - 1) w r
    else if c = '"' || c = '\'' then
      if longStarts c r then c :: rwGo opn cls (.quotes 2 (.long c)) l w r
      else if shortCloses c r then c :: rwGo opn cls (.short c) l w r
      else c :: rwGo opn cls .top l w r
    else if c = '<' then
      if iriCloses r then c :: rwGo opn cls .iri l w r else c :: rwGo opn cls .top l w r
    else if c = '#' then c :: rwGo opn cls .comment l w r
    else if c = '\\' then
      match r with
      | d :: _ => if d = '\n' then c :: rwGo opn cls .top l w r else c :: rwGo opn cls (.esc .top) l w r
      | [] => [c]
    else c :: rwGo opn cls .top l w r

/-- `_insert_named_graph(query, g)` with `g` already rendered (`<iri>`) -/
def insertNamedGraph (gi : Str) (q : Str) : Str :=
  rwGo (" GRAPH ".toList ++ gi ++ " {".toList) "} ".toList .top 0 false q

/-- the `VALUES` block `query()` appends for `initBindings`: `"\nVALUES ( ?v … )\n{ ( t … ) }\n"` -/
def wValues (bs : List (Str × TTerm)) : Option Str :=
  (optAll (bs.map (fun b => wTerm b.2))).map fun ts =>
    "\nVALUES ( ".toList ++ joinWith [' '] (bs.map (fun b => '?' :: b.1)) ++ " )\n{ ( ".toList ++
      joinWith [' '] ts ++ " ) }\n".toList

end RV.C20
