import RV.C20.TextQuery
/-
  C20 — the LIMIT / OFFSET / ORDER BY injection of `SPARQLStore.triples` (attributes `LIMIT`, `OFFSET`, `"ORDER BY"` of the
  context graph): the solution modifiers the store appends read back as written.
-/
namespace RV.C20

/-- the text appended after the `}` of the pattern query -/
def modsText (ord : Option Pos) (lim off : Option Nat) : Str :=
  (match ord with | some pos => [' ', 'O', 'R', 'D', 'E', 'R', ' ', 'B', 'Y', ' '] ++ posVarLower pos | none => []) ++
  ((match lim with | some n => [' ', 'L', 'I', 'M', 'I', 'T', ' '] ++ natText n | none => []) ++
   (match off with | some n => [' ', 'O', 'F', 'F', 'S', 'E', 'T', ' '] ++ natText n | none => []))

theorem wTriplesQuery_mods (p : TPatT) (ord : Option Pos) (lim off : Option Nat) :
    wTriplesQuery p ord lim off = (wTriplesQuery p none none none).map (· ++ modsText ord lim off) := by
  simp only [wTriplesQuery]
  cases wPatBody posVarLower p with
  | none => rfl
  | some body =>
    have h1 : " ORDER BY ".toList = [' ', 'O', 'R', 'D', 'E', 'R', ' ', 'B', 'Y', ' '] := by decide
    have h2 : " LIMIT ".toList = [' ', 'L', 'I', 'M', 'I', 'T', ' '] := by decide
    have h3 : " OFFSET ".toList = [' ', 'O', 'F', 'F', 'S', 'E', 'T', ' '] := by decide
    cases ord <;> cases lim <;> cases off <;>
      simp only [h1, h2, h3, modsText, Option.map_some, List.append_assoc, List.cons_append, List.nil_append,
        List.append_nil]

/-- where a number / a variable ends: at the end of the text or before a blank -/
def EndOK (rest : Str) : Prop := rest = [] ∨ ∃ r, rest = ' ' :: r

theorem natText_eq (n : Nat) : natText n = Nat.toDigits 10 n := by
  show (Nat.repr n).toList = _
  rw [Nat.repr, String.toList_ofList]

theorem isDigit_of_charIsDigit {c : Char} (h : c.isDigit = true) : isDigit c = true := by
  simp only [Char.isDigit, Bool.and_eq_true, decide_eq_true_eq] at h
  simp only [isDigit, Bool.and_eq_true, decide_eq_true_eq]
  exact ⟨by rw [Char.le_def]; exact h.1, by rw [Char.le_def]; exact h.2⟩

theorem span_loop_digits (ds rest : Str) (hd : ∀ c ∈ ds, isDigit c = true) (hr : EndOK rest) :
    ∀ acc, List.span.loop isDigit (ds ++ rest) acc = (acc.reverse ++ ds, rest) := by
  induction ds with
  | nil =>
    intro acc
    rcases hr with rfl | ⟨r, rfl⟩
    · simp [List.span.loop]
    · have : isDigit ' ' = false := by decide
      simp [List.span.loop, this]
  | cons c cs ih =>
    intro acc
    have h1 := hd c (by simp)
    simp [List.span.loop, h1, ih (fun x hx => hd x (by simp [hx]))]

theorem span_digits (ds rest : Str) (hd : ∀ c ∈ ds, isDigit c = true) (hr : EndOK rest) :
    (ds ++ rest).span isDigit = (ds, rest) := by
  simpa [List.span] using span_loop_digits ds rest hd hr []

theorem readNat_natText (n : Nat) (rest : Str) (hr : EndOK rest) :
    readNat (' ' :: (natText n ++ rest)) = some (n, rest) := by
  have hd : ∀ c ∈ natText n, isDigit c = true := by
    intro c hc
    rw [natText_eq] at hc
    exact isDigit_of_charIsDigit (Nat.isDigit_of_mem_toDigits (by decide) (by decide) hc)
  have hne : natText n ≠ [] := by rw [natText_eq]; exact Nat.toDigits_ne_nil
  obtain ⟨d, ds, hds⟩ : ∃ d ds, natText n = d :: ds := by
    cases h : natText n with
    | nil => exact absurd h hne
    | cons d ds => exact ⟨d, ds, rfl⟩
  have hdd : isDigit d = true := hd d (by simp [hds])
  have hws : ws (' ' :: (natText n ++ rest)) = natText n ++ rest := by
    rw [ws_sp, hds, List.cons_append]
    apply ws_cons
    · revert hdd; simp only [isDigit, isWs]; intro h
      simp only [Bool.and_eq_true, decide_eq_true_eq] at h
      have : d ≠ ' ' ∧ d ≠ '\n' ∧ d ≠ '\t' ∧ d ≠ '\r' := by
        refine ⟨?_, ?_, ?_, ?_⟩ <;> (intro e; subst e; revert h; decide)
      simp [this]
    · intro e; subst e; revert hdd; decide
  have hval : (natText n).foldl (fun n c => 10 * n + (c.toNat - 48)) 0 = n := by
    rw [natText_eq]
    exact Nat.ofDigitChars_ten_toDigits
  simp only [readNat, hws, span_digits _ _ hd hr]
  rw [hds] at hval ⊢
  simp only [hval]

/-! ### keywords at the places where the modifiers stand -/

theorem kwORDER_hit (r : Str) : kw "ORDER" (' ' :: 'O' :: 'R' :: 'D' :: 'E' :: 'R' :: ' ' :: r) = some (' ' :: r) := by
  simp [kw, stripCI, ws, skip, isWs, upperChar, isNameChar, isAlpha, isDigit]
theorem kwBY_hit (r : Str) : kw "BY" (' ' :: 'B' :: 'Y' :: ' ' :: r) = some (' ' :: r) := by
  simp [kw, stripCI, ws, skip, isWs, upperChar, isNameChar, isAlpha, isDigit]
theorem kwLIMIT_hit (r : Str) : kw "LIMIT" (' ' :: 'L' :: 'I' :: 'M' :: 'I' :: 'T' :: ' ' :: r) = some (' ' :: r) := by
  simp [kw, stripCI, ws, skip, isWs, upperChar, isNameChar, isAlpha, isDigit]
theorem kwOFFSET_hit (r : Str) :
    kw "OFFSET" (' ' :: 'O' :: 'F' :: 'F' :: 'S' :: 'E' :: 'T' :: ' ' :: r) = some (' ' :: r) := by
  simp [kw, stripCI, ws, skip, isWs, upperChar, isNameChar, isAlpha, isDigit]
theorem kwORDER_L (r : Str) : kw "ORDER" (' ' :: 'L' :: r) = none := by
  simp [kw, stripCI, ws, skip, isWs, upperChar]
theorem kwORDER_OF (r : Str) : kw "ORDER" (' ' :: 'O' :: 'F' :: r) = none := by
  simp [kw, stripCI, ws, skip, isWs, upperChar]
theorem kwLIMIT_O (r : Str) : kw "LIMIT" (' ' :: 'O' :: r) = none := by
  simp [kw, stripCI, ws, skip, isWs, upperChar]
theorem kwORDER_nil : kw "ORDER" [] = none := kw_nil "ORDER" 'O' "RDER".toList (by decide)
theorem kwLIMIT_nil : kw "LIMIT" [] = none := kw_nil "LIMIT" 'L' "IMIT".toList (by decide)
theorem kwOFFSET_nil : kw "OFFSET" [] = none := kw_nil "OFFSET" 'O' "FFSET".toList (by decide)

theorem readVar_pos (pos : Pos) (rest : Str) (hr : EndOK rest) :
    readVarsAux 1 (' ' :: (posVarLower pos ++ rest)) = ([[posName false pos]], rest) := by
  rcases hr with rfl | ⟨r, rfl⟩ <;> cases pos <;>
    simp [readVarsAux, ws_sp, ws_qm, spanName, isNameChar, isAlpha, isDigit, posVarLower, posName]

theorem varPos_posName (pos : Pos) : varPos [posName false pos] = some pos := by
  cases pos <;> decide

/-- LIMIT / OFFSET part -/
theorem readLimOff (lim off : Option Nat) :
    readModifiersR (modsText none lim off) = some ((none, lim, off), []) := by
  cases lim with
  | none =>
    cases off with
    | none => exact readModifiersR_nil
    | some m =>
      have hM : readNat (' ' :: natText m) = some (m, []) := by
        simpa using readNat_natText m [] (Or.inl rfl)
      simp only [modsText, List.nil_append, List.cons_append, readModifiersR, kwORDER_OF, kwLIMIT_O, kwOFFSET_hit, hM]
  | some n =>
    cases off with
    | none =>
      have hN : readNat (' ' :: natText n) = some (n, []) := by
        simpa using readNat_natText n [] (Or.inl rfl)
      simp only [modsText, List.nil_append, List.cons_append, List.append_nil, readModifiersR, kwORDER_L, kwLIMIT_hit, hN,
        kwOFFSET_nil]
    | some m =>
      have hN := readNat_natText n (' ' :: 'O' :: 'F' :: 'F' :: 'S' :: 'E' :: 'T' :: ' ' :: natText m) (Or.inr ⟨_, rfl⟩)
      have hM : readNat (' ' :: natText m) = some (m, []) := by
        simpa using readNat_natText m [] (Or.inl rfl)
      simp only [modsText, List.nil_append, List.cons_append, readModifiersR, kwORDER_L, kwLIMIT_hit, hN, kwOFFSET_hit, hM]

/-- ORDER BY in front of it -/
theorem readOrdLimOff (pos : Pos) (lim off : Option Nat) :
    readModifiersR (modsText (some pos) lim off) = some ((some pos, lim, off), []) := by
  have hv := varPos_posName pos
  cases lim with
  | none =>
    cases off with
    | none =>
      have hV : readVarsAux 1 (' ' :: posVarLower pos) = ([[posName false pos]], []) := by
        simpa using readVar_pos pos [] (Or.inl rfl)
      simp only [modsText, List.nil_append, List.cons_append, List.append_nil, readModifiersR, kwORDER_hit, kwBY_hit, hV, hv,
        Option.map_some, kwLIMIT_nil, kwOFFSET_nil]
    | some m =>
      have hV := readVar_pos pos (' ' :: 'O' :: 'F' :: 'F' :: 'S' :: 'E' :: 'T' :: ' ' :: natText m) (Or.inr ⟨_, rfl⟩)
      have hM : readNat (' ' :: natText m) = some (m, []) := by
        simpa using readNat_natText m [] (Or.inl rfl)
      simp only [modsText, List.nil_append, List.cons_append, readModifiersR, kwORDER_hit, kwBY_hit, hV, hv,
        Option.map_some, kwLIMIT_O, kwOFFSET_hit, hM]
  | some n =>
    cases off with
    | none =>
      have hV := readVar_pos pos (' ' :: 'L' :: 'I' :: 'M' :: 'I' :: 'T' :: ' ' :: natText n) (Or.inr ⟨_, rfl⟩)
      have hN : readNat (' ' :: natText n) = some (n, []) := by
        simpa using readNat_natText n [] (Or.inl rfl)
      simp only [modsText, List.nil_append, List.cons_append, List.append_nil, readModifiersR, kwORDER_hit, kwBY_hit, hV, hv,
        Option.map_some, kwLIMIT_hit, hN, kwOFFSET_nil]
    | some m =>
      have hV := readVar_pos pos (' ' :: 'L' :: 'I' :: 'M' :: 'I' :: 'T' :: ' ' ::
        (natText n ++ ' ' :: 'O' :: 'F' :: 'F' :: 'S' :: 'E' :: 'T' :: ' ' :: natText m)) (Or.inr ⟨_, rfl⟩)
      have hN := readNat_natText n (' ' :: 'O' :: 'F' :: 'F' :: 'S' :: 'E' :: 'T' :: ' ' :: natText m) (Or.inr ⟨_, rfl⟩)
      have hM : readNat (' ' :: natText m) = some (m, []) := by
        simpa using readNat_natText m [] (Or.inl rfl)
      simp only [modsText, List.nil_append, List.cons_append, readModifiersR, kwORDER_hit, kwBY_hit, hV, hv,
        Option.map_some, kwLIMIT_hit, hN, kwOFFSET_hit, hM]

theorem readModifiers_modsText (ord : Option Pos) (lim off : Option Nat) :
    readModifiers (modsText ord lim off) = some (ord, lim, off) := by
  cases ord with
  | none => simp [readModifiers, readLimOff, ws, skip]
  | some pos => simp [readModifiers, readOrdLimOff, ws, skip]

/-- the same with the solution modifiers appended (the proof of `readQuery_triples` with a tail after the `}`) -/
theorem readQuery_triples_mods (p : TPatT) (ord : Option Pos) (lim off : Option Nat) (txt : Str) (hok : PatOK p = true)
    (h0 : wTriplesQuery p ord lim off = some txt) : readQuery txt = some (.triples p ord lim off) := by
  rw [wTriplesQuery_mods] at h0
  obtain ⟨base, h, rfl⟩ : ∃ base, wTriplesQuery p none none none = some base ∧ txt = base ++ modsText ord lim off := by
    cases hb0 : wTriplesQuery p none none none with
    | none => simp [hb0] at h0
    | some base => exact ⟨base, rfl, by simpa [hb0] using h0.symm⟩
  have hmods := readModifiers_modsText ord lim off
  generalize modsText ord lim off = mods at hmods ⊢
  simp only [wTriplesQuery] at h
  cases hb : wPatBody posVarLower p with
  | none => simp [hb] at h
  | some body =>
    simp only [hb, Option.some.injEq] at h
    have hq := readQPat_write p body ('}' :: mods) hb hok
    by_cases hv : selVars (shapeOf p) = []
    · -- ASK
      have hvn : varNames p = [] := by rw [varNames_eq, hv]; rfl
      have e : base ++ mods = 'A' :: 'S' :: 'K' :: ' ' :: '{' :: ' ' :: (body ++ ' ' :: '}' :: mods) := by
        rw [← h]; simp [shapeOf] at hv; simp [shapeOf, hv]
      rw [e]
      have hne : ('A' :: 'S' :: 'K' :: ' ' :: '{' :: ' ' :: (body ++ ' ' :: '}' :: mods) : Str) ≠ lenQueryText := by
        intro e2
        obtain ⟨r, hr⟩ := lenQueryText_head
        rw [hr] at e2; injection e2 with e3 _; exact absurd e3 (by decide)
      have hod : optDot (' ' :: '}' :: mods) = ' ' :: '}' :: mods := by
        simp [optDot, sym, ws_sp, ws_cons '}' mods (by decide) (by decide)]
      simp only [readQuery, hne, if_false, kw_ASK, sym_here '{' _ (by decide) (by decide), Option.bind_some, hq, hvn,
        if_true, hod, sym_sp, sym_here '}' _ (by decide) (by decide), hmods, Option.map_some]
    · -- SELECT
      have hvn : varNames p = (selVars (shapeOf p)).map (fun pos => [posName false pos]) := varNames_eq p
      have hne0 : (selVars (shapeOf p)).map posVarLower ≠ [] := by simpa using hv
      have e : base ++ mods = 'S' :: 'E' :: 'L' :: 'E' :: 'C' :: 'T' ::
          ((selVars (shapeOf p)).flatMap (fun pos => ' ' :: posVarLower pos) ++ ' ' :: ' ' :: '{' :: ' ' :: (body ++ ' ' :: '}' :: mods)) := by
        rw [← h]
        have hemp : ((selVars (shapeOf p)).map posVarLower).isEmpty = false := by
          cases hs : (selVars (shapeOf p)).map posVarLower with
          | nil => exact absurd hs hne0
          | cons _ _ => rfl
        have := sp_joinWith _ hne0
        simp only [List.flatMap_map] at this
        simp only [shapeOf] at hemp this ⊢
        simp [hemp, ← this]
      rw [e]
      have hne : ('S' :: 'E' :: 'L' :: 'E' :: 'C' :: 'T' ::
          ((selVars (shapeOf p)).flatMap (fun pos => ' ' :: posVarLower pos) ++ ' ' :: ' ' :: '{' :: ' ' :: (body ++ ' ' :: '}' :: mods)) : Str) ≠
          lenQueryText := by
        intro e2
        cases hs : selVars (shapeOf p) with
        | nil => exact hv hs
        | cons pos ps =>
          rw [hs] at e2
          have hv' : posVarLower pos = ['?', posName false pos] := by cases pos <;> rfl
          simp only [List.flatMap_cons, hv', List.cons_append] at e2
          obtain ⟨r, hr⟩ := lenQueryText_head
          rw [hr] at e2
          simp at e2
      have hkA : ∀ r, kw "ASK" ('S' :: r) = none := fun r =>
        kw_none_head "ASK" 'A' "SK".toList (by decide) 'S' r (by decide) (by decide) (by decide)
      have hlen : (selVars (shapeOf p)).length ≤ 4 := by
        obtain ⟨a, b, c⟩ := p
        cases a <;> cases b <;> cases c <;> simp [shapeOf, selVars]
      have hrv := readVars_written (selVars (shapeOf p)) 4 (' ' :: (body ++ ' ' :: '}' :: mods)) hlen
      have hod : optDot (' ' :: '}' :: mods) = ' ' :: '}' :: mods := by
        simp [optDot, sym, ws_sp, ws_cons '}' mods (by decide) (by decide)]
      have hname : (selVars (shapeOf p)).map (fun pos => [posName false pos]) ≠ [['n', 'a', 'm', 'e']] := by
        intro e3
        cases hs : selVars (shapeOf p) with
        | nil => exact hv hs
        | cons pos ps => rw [hs] at e3; cases pos <;> simp [posName] at e3
      have hq' := readQPat_write p body ('}' :: mods) hb hok
      have hkw : kw "SELECT" ('S' :: 'E' :: 'L' :: 'E' :: 'C' :: 'T' ::
          ((selVars (shapeOf p)).flatMap (fun pos => ' ' :: posVarLower pos) ++ ' ' :: ' ' :: '{' :: ' ' :: (body ++ ' ' :: '}' :: mods))) =
          some ((selVars (shapeOf p)).flatMap (fun pos => ' ' :: posVarLower pos) ++ ' ' :: ' ' :: '{' :: ' ' :: (body ++ ' ' :: '}' :: mods)) := by
        cases hs : selVars (shapeOf p) with
        | nil => exact absurd hs hv
        | cons pos ps =>
          simp only [List.flatMap_cons, List.cons_append]
          exact kw_SELECT _
      simp only [readQuery, hne, if_false, hkA, hkw, hrv, hname, sym_sp, sym_here '{' _ (by decide) (by decide),
        Option.bind_some, hq', hvn, hod, sym_here '}' _ (by decide) (by decide), hmods, Option.map_some]
      simp [hv]
      exact fun x hx => ⟨x, hx, rfl⟩


end RV.C20
