import RV.C20.Lemmas
/-
  C20 — the client state machine refines the visibility specification `SpecD`
  (simulation, by induction over histories).
-/
namespace RV.C20

/-! ### what `commit`, `enqueue`, `preRead` do, as record updates -/

theorem commit_eq (r : Remote) :
    r.commit = { r with ep := applyEdits r.ep r.edits, edits := [] } := by
  unfold Remote.commit
  split
  · next h =>
    have he : r.edits = [] := List.isEmpty_iff.mp h
    cases r
    simp_all [applyEdits]
  · rfl

@[simp] theorem commit_ep (r : Remote) : r.commit.ep = applyEdits r.ep r.edits := by rw [commit_eq]
@[simp] theorem commit_edits (r : Remote) : r.commit.edits = [] := by rw [commit_eq]
@[simp] theorem commit_autocommit (r : Remote) : r.commit.autocommit = r.autocommit := by rw [commit_eq]
@[simp] theorem commit_dirtyReads (r : Remote) : r.commit.dirtyReads = r.dirtyReads := by rw [commit_eq]
@[simp] theorem commit_hook (r : Remote) : r.commit.hook = r.hook := by rw [commit_eq]
@[simp] theorem commit_readOnly (r : Remote) : r.commit.readOnly = r.readOnly := by rw [commit_eq]

theorem commit_of_empty (r : Remote) (h : r.edits = []) : r.commit = r := by
  unfold Remote.commit
  simp [h]

theorem commit_commit (r : Remote) : r.commit.commit = r.commit :=
  commit_of_empty _ (commit_edits r)

theorem step_write_ok {r : Remote} {w : Write} {es : List (List UOp)} (hro : r.readOnly = false)
    (hc : compileWrite r.hook w = some es) : r.step (.write w) = (r.enqueue es, .ok) := by
  simp [Remote.step, hro, hc]

/-- the flags never change -/
structure SameFlags (a b : Remote) : Prop where
  ac : a.autocommit = b.autocommit
  dr : a.dirtyReads = b.dirtyReads
  hk : a.hook = b.hook
  ro : a.readOnly = b.readOnly

theorem sameFlags_enqueue (r : Remote) (es : List (List UOp)) : SameFlags (r.enqueue es) r := by
  unfold Remote.enqueue
  split <;> constructor <;> simp

theorem sameFlags_preRead (r : Remote) : SameFlags r.preRead r := by
  unfold Remote.preRead
  split <;> constructor <;> simp

theorem sameFlags_step (r : Remote) (op : Op) : SameFlags (r.step op).1 r := by
  cases op with
  | write w =>
    simp only [Remote.step]
    split
    · exact ⟨rfl, rfl, rfl, rfl⟩
    · split
      · exact ⟨rfl, rfl, rfl, rfl⟩
      · exact sameFlags_enqueue r _
  | commit =>
    simp only [Remote.step]
    split
    · exact ⟨rfl, rfl, rfl, rfl⟩
    · constructor <;> simp
  | rollback =>
    simp only [Remote.step]
    split <;> exact ⟨rfl, rfl, rfl, rfl⟩
  | read rd =>
    simp only [Remote.step]
    split
    · exact ⟨rfl, rfl, rfl, rfl⟩
    · exact sameFlags_preRead r

/-! ### simulation -/

structure Sim (r : Remote) (s : SpecD) : Prop where
  vis : DS.Equiv r.ep s.visible
  pend : ∀ a b, DS.Equiv a b → DS.Equiv (applyEdits a r.edits) (Spec.runWrites b s.pending)

theorem sim_commit {r : Remote} {s : SpecD} (h : Sim r s) : Sim r.commit s.flush := by
  constructor
  · rw [commit_ep]; exact h.pend _ _ h.vis
  · intro a b hab
    simpa [SpecD.flush, applyEdits, Spec.runWrites] using hab

theorem sim_rollback {r : Remote} {s : SpecD} (h : Sim r s) : Sim r.rollback ⟨s.visible, []⟩ := by
  constructor
  · exact h.vis
  · intro a b hab
    simpa [Remote.rollback, applyEdits, Spec.runWrites] using hab

theorem sim_append {r : Remote} {s : SpecD} (h : Sim r s) {w : Write} {es : List (List UOp)}
    (hes : ∀ a b, DS.Equiv a b → DS.Equiv (applyEdits a es) (Spec.applyWrite b w)) :
    Sim { r with edits := r.edits ++ es } ⟨s.visible, s.pending ++ [w]⟩ := by
  constructor
  · exact h.vis
  · intro a b hab
    simp only [applyEdits_append, Spec.runWrites, List.foldl_append, List.foldl_cons, List.foldl_nil]
    exact hes _ _ (h.pend a b hab)

theorem sim_step {r : Remote} {s : SpecD} (h : Sim r s) (hro : r.readOnly = false) (op : Op)
    (hp : op.plain = true) : Sim (r.step op).1 (s.step r.autocommit r.dirtyReads op) := by
  cases op with
  | write w =>
    obtain ⟨es, hc, hes⟩ := compile_correct r.hook w hp
    rw [step_write_ok hro hc]
    simp only [SpecD.step, Remote.enqueue]
    have h1 := sim_append h hes
    split
    · exact sim_commit h1
    · exact h1
  | commit =>
    simp only [Remote.step, hro, Bool.false_eq_true, if_false, SpecD.step]
    exact sim_commit h
  | rollback =>
    simp only [Remote.step, hro, Bool.false_eq_true, if_false, SpecD.step]
    exact sim_rollback h
  | read rd =>
    simp only [Remote.step, hro, Bool.false_eq_true, if_false, SpecD.step, Remote.preRead]
    split
    · exact sim_commit h
    · exact h

theorem sim_run (ops : List Op) : ∀ (r : Remote) (s : SpecD), Sim r s → r.readOnly = false →
    (∀ op ∈ ops, op.plain = true) →
    Sim (r.run ops) (SpecD.run r.autocommit r.dirtyReads s ops) := by
  induction ops with
  | nil => intro r s h _ _; exact h
  | cons op ops ih =>
    intro r s h hro hp
    have hf := sameFlags_step r op
    have := ih (r.step op).1 (s.step r.autocommit r.dirtyReads op)
      (sim_step h hro op (hp op (List.mem_cons_self ..))) (hf.ro.trans hro)
      (fun o ho => hp o (List.mem_cons_of_mem _ ho))
    rw [hf.ac, hf.dr] at this
    exact this

theorem sim_init (d : DS) (ac dr hk : Bool) : Sim (Remote.init d ac dr hk false) ⟨d, []⟩ := by
  constructor
  · exact DS.Equiv.refl _
  · intro a b hab
    simpa [Remote.init, applyEdits, Spec.runWrites] using hab

/-! ### autocommit: nothing is ever pending -/

theorem specD_autocommit (dr : Bool) (ops : List Op) : ∀ (d : DS),
    SpecD.run true dr ⟨d, []⟩ ops = ⟨Spec.runWrites d (writesOf ops), []⟩ := by
  induction ops with
  | nil => intro d; rfl
  | cons op ops ih =>
    intro d
    cases op with
    | write w =>
      simp only [SpecD.run, List.foldl_cons, SpecD.step, SpecD.flush, List.nil_append, if_true,
        writesOf]
      exact ih _
    | commit =>
      simp only [SpecD.run, List.foldl_cons, SpecD.step, SpecD.flush, writesOf]
      exact ih _
    | rollback =>
      simp only [SpecD.run, List.foldl_cons, SpecD.step, writesOf]
      exact ih _
    | read rd =>
      simp only [SpecD.run, List.foldl_cons, SpecD.step, Bool.not_true, Bool.false_and,
        Bool.false_eq_true, if_false, writesOf]
      exact ih _

theorem step_autocommit_edits (r : Remote) (op : Op) (hac : r.autocommit = true) (he : r.edits = []) :
    (r.step op).1.edits = [] := by
  cases op with
  | write w =>
    simp only [Remote.step]
    split
    · exact he
    · split
      · exact he
      · simp [Remote.enqueue, hac]
  | commit =>
    simp only [Remote.step]
    split
    · exact he
    · simp
  | rollback =>
    simp only [Remote.step]
    split
    · exact he
    · rfl
  | read rd =>
    simp only [Remote.step, Remote.preRead, hac]
    split <;> simpa using he

theorem run_autocommit_edits (ops : List Op) : ∀ (r : Remote), r.autocommit = true → r.edits = [] →
    (r.run ops).edits = [] := by
  induction ops with
  | nil => intro r _ he; exact he
  | cons op ops ih =>
    intro r hac he
    exact ih _ ((sameFlags_step r op).ac.trans hac) (step_autocommit_edits r op hac he)

/-! ### autocommit off: writes only queue -/

theorem run_writes_queue (ws : List Write) : ∀ (r : Remote), r.autocommit = false →
    ∃ X, r.run (ws.map Op.write) = { r with edits := r.edits ++ X } := by
  induction ws with
  | nil => intro r _; exact ⟨[], by simp [Remote.run]⟩
  | cons w ws ih =>
    intro r hac
    have hstep : ∃ Y, (r.step (.write w)).1 = { r with edits := r.edits ++ Y } := by
      simp only [Remote.step]
      split
      · exact ⟨[], by simp⟩
      · split
        · exact ⟨[], by simp⟩
        · next es _ => exact ⟨es, by simp [Remote.enqueue, hac]⟩
    obtain ⟨Y, hY⟩ := hstep
    have hac' : ({ r with edits := r.edits ++ Y } : Remote).autocommit = false := hac
    obtain ⟨X, hX⟩ := ih _ hac'
    refine ⟨Y ++ X, ?_⟩
    simp only [List.map_cons, Remote.run, List.foldl_cons] at hX ⊢
    rw [hY, hX]
    simp [List.append_assoc]

theorem run_cons (r : Remote) (op : Op) (ops : List Op) : r.run (op :: ops) = (r.step op).1.run ops := rfl

theorem run_append (r : Remote) (a b : List Op) : r.run (a ++ b) = (r.run a).run b := by
  simp [Remote.run, List.foldl_append]

theorem step_commit {r : Remote} (hro : r.readOnly = false) : (r.step .commit).1 = r.commit := by
  simp [Remote.step, hro]

theorem step_rollback {r : Remote} (hro : r.readOnly = false) : (r.step .rollback).1 = r.rollback := by
  simp [Remote.step, hro]

/-- commit, any writes, rollback  =  commit -/
theorem rollback_after_writes (r : Remote) (ws : List Write) (hac : r.autocommit = false)
    (hro : r.readOnly = false) :
    r.run (.commit :: ws.map Op.write ++ [.rollback]) = r.commit := by
  obtain ⟨X, hX⟩ := run_writes_queue ws r.commit (by simp [hac])
  rw [List.cons_append, run_cons, step_commit hro, run_append, hX, run_cons, step_rollback (by simp [hro])]
  simp only [Remote.run, List.foldl_nil, Remote.rollback]
  rw [commit_eq]

end RV.C20
