import RV.C20.Text
import RV.C20.Tables
/-
  C20 — the TRANSPORT layer: `rdflib/plugins/stores/sparqlconnector.py`.

  `SPARQLConnector.query` / `.update` assemble an HTTP request from the connector's configuration
  (method GET | POST | POST_FORM, the two endpoint URLs, `returnFormat`, the caller's `params=` /
  `headers=` keyword arguments, `auth`), the request text and the graph arguments.  Modelled here, following the
  code statement by statement:

    `utf8`            `str.encode()` (UTF-8)
    `quote` / `quotePlus` / `urlencode`   `urllib.parse.quote_from_bytes / quote_plus / urlencode` as the connector
                      calls them (`safe=''`: always-safe set A–Z a–z 0–9 `_.-~`, `%XX` upper case, space → `+`
                      by the `' ' in string` branch of `quote_plus` followed by `.replace(' ', '+')`)
    `dset`/`dupdate`  `dict.__setitem__` / `dict.update` on insertion-ordered dicts (association lists)
    `responseMimeTypes`  `response_mime_types()` over the tables regenerated from `rdflib.util` and the plugin registry
    `Conn.query`, `Conn.update`   the request given to `urllib.request.urlopen(Request(url, data=…, headers=…))`

  and, as the SPECIFICATION of what such a request means, a small SPARQL 1.1 Protocol server-side reader
  (`serverRead`): split the URL at `?`, split the query string at `&` / `=`, undo `+` and `%XX`, decode UTF-8
  strictly; a POST body is form-encoded, `application/sparql-query` or `application/sparql-update`.
  What urllib / http.client do below `urlopen` (sockets, Host / Content-Length, header-name capitalisation, the default
  `Content-Type: application/x-www-form-urlencoded` of a POST without one) is not modelled; the reader treats a POST
  without Content-Type as a form, which is what urllib's default amounts to.
-/
namespace RV.C20

/-! ### UTF-8 -/

/-- the bytes of one code point -/
def utf8Nat (n : Nat) : List Nat :=
  if n < 0x80 then [n]
  else if n < 0x800 then [0xC0 + n / 64, 0x80 + n % 64]
  else if n < 0x10000 then [0xE0 + n / 4096, 0x80 + n / 64 % 64, 0x80 + n % 64]
  else [0xF0 + n / 262144, 0x80 + n / 4096 % 64, 0x80 + n / 64 % 64, 0x80 + n % 64]

def utf8Char (c : Char) : List Nat := utf8Nat c.toNat

/-- `str.encode()` -/
def utf8 (s : Str) : List Nat := s.flatMap utf8Char

def isCont (b : Nat) : Bool := 0x80 ≤ b && b < 0xC0

def validScalar (n : Nat) : Bool := n < 0xD800 || (0xE000 ≤ n && n < 0x110000)

/-- one code point off the front of a byte string, strictly (no overlong forms, no surrogates, ≤ U+10FFFF) -/
def utf8Step : List Nat → Option (Char × List Nat)
  | [] => none
  | b0 :: rest =>
    if b0 < 0x80 then some (Char.ofNat b0, rest)
    else if b0 < 0xC2 then none
    else if b0 < 0xE0 then
      match rest with
      | b1 :: r => if isCont b1 then some (Char.ofNat ((b0 - 0xC0) * 64 + (b1 - 0x80)), r) else none
      | _ => none
    else if b0 < 0xF0 then
      match rest with
      | b1 :: b2 :: r =>
        let n := (b0 - 0xE0) * 4096 + (b1 - 0x80) * 64 + (b2 - 0x80)
        if isCont b1 && isCont b2 && decide (0x800 ≤ n) && validScalar n then some (Char.ofNat n, r) else none
      | _ => none
    else if b0 < 0xF5 then
      match rest with
      | b1 :: b2 :: b3 :: r =>
        let n := (b0 - 0xF0) * 262144 + (b1 - 0x80) * 4096 + (b2 - 0x80) * 64 + (b3 - 0x80)
        if isCont b1 && isCont b2 && isCont b3 && decide (0x10000 ≤ n) && validScalar n then some (Char.ofNat n, r)
        else none
      | _ => none
    else none

def utf8DecF : Nat → List Nat → Option Str
  | _, [] => some []
  | 0, _ :: _ => none
  | f + 1, bs =>
    match utf8Step bs with
    | some (c, r) => (utf8DecF f r).map (c :: ·)
    | none => none

/-- `bytes.decode("utf-8", "strict")` -/
def utf8Dec (bs : List Nat) : Option Str := utf8DecF bs.length bs

/-! ### `urllib.parse.quote_plus` / `urlencode` -/

/-- `_ALWAYS_SAFE`: A–Z a–z 0–9 `_ . - ~` -/
def isUnreserved (b : Nat) : Bool :=
  (65 ≤ b && b ≤ 90) || (97 ≤ b && b ≤ 122) || (48 ≤ b && b ≤ 57) || b == 95 || b == 46 || b == 45 || b == 126

/-- one digit of `'%{:02X}'` -/
def hexDigit (n : Nat) : Char := Char.ofNat (if n < 10 then 48 + n else 55 + n)

/-- `_byte_quoter_factory(safe)(b)`: the byte itself when safe, else `%XX` -/
def quoteByteSafe (safe : Nat → Bool) (b : Nat) : Str :=
  if safe b then [Char.ofNat b] else ['%', hexDigit (b / 16), hexDigit (b % 16)]

/-- `quote(string, safe)` = `quote_from_bytes(string.encode('utf-8', 'strict'), safe)` -/
def quote (safe : Nat → Bool) (s : Str) : Str := (utf8 s).flatMap (quoteByteSafe safe)

/-- `quote_plus(string)` (safe = ''): with a space in the string, quote with the space kept and `.replace(' ', '+')` -/
def quotePlus (s : Str) : Str :=
  if s.contains ' ' then replaceChar ' ' ['+'] (quote (fun b => isUnreserved b || b == 32) s)
  else quote isUnreserved s

/-- `'&'.join(…)` -/
def joinAmp : List Str → Str
  | [] => []
  | [x] => x
  | x :: y :: r => x ++ '&' :: joinAmp (y :: r)

/-- `urlencode(dict)`: `quote_plus(k) + '=' + quote_plus(v)` joined by `&`, in the dict's order -/
def urlencode (ps : List (Str × Str)) : Str := joinAmp (ps.map (fun kv => quotePlus kv.1 ++ '=' :: quotePlus kv.2))

/-! ### insertion-ordered dicts -/

/-- `d[k] = v`: replaced in place when present, else appended -/
def dset : List (Str × Str) → Str → Str → List (Str × Str)
  | [], k, v => [(k, v)]
  | (k', v') :: d, k, v => if k' = k then (k, v) :: d else (k', v') :: dset d k v

/-- `d.update(e)` -/
def dupdate (d e : List (Str × Str)) : List (Str × Str) := e.foldl (fun d kv => dset d kv.1 kv.2) d

def dget : List (Str × Str) → Str → Option Str
  | [], _ => none
  | (k', v') :: d, k => if k' = k then some v' else dget d k

/-! ### `response_mime_types` -/

def tget (t : List (String × List String)) (k : String) : List String :=
  match t with
  | [] => []
  | (k', v) :: r => if k' = k then v else tget r k

/-- `response_mime_types()` as a list (the code joins a SET with ", ": the order is not determined).
    `plugins(name=returnFormat, kind=ResultParser)` yields the plugin of that name when registered. -/
def responseMimeTypes (fmt : String) : List String :=
  if Tables.resultParserNames.contains fmt then
    if !(fmt.toList.contains '/') then tget Tables.formatMimetypeMap fmt ++ tget Tables.responseTableMimetypeMap fmt
    else [fmt]
  else []

/-! ### the connector -/

inductive CMethod | GET | POST | POST_FORM
  deriving Repr, DecidableEq

inductive HMethod | get | post
  deriving Repr, DecidableEq

/-- the arguments of `Request(url, data=…, headers=…)`; no `data` = a GET -/
structure HttpReq where
  url : Str
  headers : List (Str × Str)
  data : Option (List Nat)
  deriving Repr, DecidableEq

def HttpReq.method (r : HttpReq) : HMethod := if r.data.isSome then .post else .get

structure Conn where
  method : CMethod
  queryEndpoint : Str
  updateEndpoint : Str
  /-- the `Accept` value, `", ".join(response_mime_types())` (an argument here: the join order is a set's) -/
  accept : Str
  /-- `kwargs["params"]`, `kwargs["headers"]` (the latter holds `Authorization` when `auth` was given) -/
  params : List (Str × Str)
  headers : List (Str × Str)
  deriving Repr

/-- the `default_graph` argument: absent, an IRI string, or a blank node (what `Graph().query()` passes) -/
inductive DG
  | none
  | iri (s : Str)
  | bnode
  deriving Repr, DecidableEq

inductive ConnErr | endpointNotSet
  deriving Repr, DecidableEq

def sDefaultGraphUri : Str := "default-graph-uri".toList
def sQuery : Str := "query".toList
def sUpdate : Str := "update".toList
def sUsingGraphUri : Str := "using-graph-uri".toList
def sUsingNamedGraphUri : Str := "using-named-graph-uri".toList
def sAccept : Str := "Accept".toList
def sContentType : Str := "Content-Type".toList
def sSparqlQuery : Str := "application/sparql-query".toList
def sSparqlUpdateCT : Str := "application/sparql-update; charset=UTF-8".toList
def sSparqlUpdate : Str := "application/sparql-update".toList
def sForm : Str := "application/x-www-form-urlencoded".toList

/-- `params = {}; if default_graph is not None and type(default_graph) is not BNode: params["default-graph-uri"] = …` -/
def dgParams : DG → List (Str × Str)
  | .iri g => [(sDefaultGraphUri, g)]
  | _ => []

/-- `SPARQLConnector.query(query, default_graph)` up to the `urlopen` call -/
def Conn.query (c : Conn) (q : Str) (dg : DG) : Except ConnErr HttpReq :=
  if c.queryEndpoint.isEmpty then .error .endpointNotSet else
  let params := dgParams dg
  let headers := dupdate c.headers [(sAccept, c.accept)]
  match c.method with
  | .GET =>
    let params := dset params sQuery q
    let ps := dupdate c.params params
    .ok { url := c.queryEndpoint ++ '?' :: urlencode ps, headers := headers, data := none }
  | .POST =>
    let headers := dupdate headers [(sContentType, sSparqlQuery)]
    let ps := dupdate c.params params
    .ok { url := c.queryEndpoint ++ '?' :: urlencode ps, headers := headers, data := some (utf8 q) }
  | .POST_FORM =>
    let params := dset params sQuery q
    let ps := dupdate c.params params
    .ok { url := c.queryEndpoint, headers := headers, data := some (utf8 (urlencode ps)) }

def optParam (k : Str) : Option Str → List (Str × Str)
  | some v => [(k, v)]
  | none => []

/-- `SPARQLConnector.update(query, default_graph, named_graph)` up to the `urlopen` call (always a direct POST) -/
def Conn.update (c : Conn) (u : Str) (dg ng : Option Str) : Except ConnErr HttpReq :=
  if c.updateEndpoint.isEmpty then .error .endpointNotSet else
  let params := optParam sUsingGraphUri dg ++ optParam sUsingNamedGraphUri ng
  let headers := [(sAccept, c.accept), (sContentType, sSparqlUpdateCT)]
  let ps := dupdate c.params params
  let hs := dupdate c.headers headers
  .ok { url := c.updateEndpoint ++ '?' :: urlencode ps, headers := hs, data := some (utf8 u) }

/-! ### which graph a store call addresses: `SPARQLStore._is_contextual` -/

/-- the `context` / `queryGraph` argument of a store call: absent, a string (what `Graph.query` passes: the graph's
    identifier or `"__UNION__"`), or a `Graph` object (its identifier) -/
inductive CtxArg
  | none
  | str (s : Str)
  | graph (identifier : Str)
  deriving Repr, DecidableEq

def sUnion : Str := "__UNION__".toList

/-- `_is_contextual(graph)`: must the GRAPH keyword / the `default-graph-uri` parameter appear? -/
def isContextual (contextAware : Bool) (a : CtxArg) : Bool :=
  if !contextAware || a == .none then false
  else match a with
    | .str s => s != sUnion && s != Tables.datasetDefaultGraphId
    | .graph i => i != Tables.datasetDefaultGraphId
    | .none => false

def CtxArg.ident : CtxArg → Option Str
  | .none => Option.none
  | .str s => some s
  | .graph i => some i

/-- `default_graph = context.identifier if self._is_contextual(context) else None` (`triples`, `__len__`) resp.
    `queryGraph if self._is_contextual(queryGraph) else None` (`query`) -/
def storeDG (contextAware : Bool) (a : CtxArg) : DG :=
  if isContextual contextAware a then (match a.ident with | some i => .iri i | Option.none => .none) else .none

/-! ### the server side (specification): SPARQL 1.1 Protocol reader -/

def hexVal (c : Char) : Option Nat :=
  let n := c.toNat
  if 48 ≤ n ∧ n ≤ 57 then some (n - 48)
  else if 65 ≤ n ∧ n ≤ 70 then some (n - 55)
  else if 97 ≤ n ∧ n ≤ 102 then some (n - 87)
  else none

/-- one component of a query string: up to `&`, `=` or the end; `+` is a space, `%XX` a byte -/
def readComp : Nat → Str → Option (List Nat × Str)
  | _, [] => some ([], [])
  | 0, _ :: _ => none
  | f + 1, c :: r =>
    if c = '&' ∨ c = '=' then some ([], c :: r)
    else if c = '%' then
      match r with
      | h :: l :: r' =>
        match hexVal h, hexVal l, readComp f r' with
        | some a, some b, some (bs, r'') => some ((a * 16 + b) :: bs, r'')
        | _, _, _ => none
      | _ => none
    else if c = '+' then (readComp f r).map (fun x => (32 :: x.1, x.2))
    else if isUnreserved c.toNat then (readComp f r).map (fun x => (c.toNat :: x.1, x.2))
    else none

/-- `key=value(&key=value)*`, both sides decoded as UTF-8; the empty string has no pairs -/
def readPairs : Nat → Str → Option (List (Str × Str))
  | _, [] => some []
  | 0, _ :: _ => none
  | f + 1, s =>
    match readComp s.length s with
    | some (kb, '=' :: r) =>
      match readComp r.length r with
      | some (vb, rest) =>
        match utf8Dec kb, utf8Dec vb with
        | some k, some v =>
          match rest with
          | [] => some [(k, v)]
          | '&' :: rest' =>
            if rest'.isEmpty then none else (readPairs f rest').map ((k, v) :: ·)
          | _ => none
        | _, _ => none
      | none => none
    | _ => none

def readQS (s : Str) : Option (List (Str × Str)) := readPairs s.length s

/-- split a URL at its first `?` -/
def splitQ : Str → Str × Option Str
  | [] => ([], none)
  | c :: r => if c = '?' then ([], some r) else let x := splitQ r; (c :: x.1, x.2)

inductive PKind | query | update
  deriving Repr, DecidableEq

inductive Via | get | form | direct
  deriving Repr, DecidableEq

/-- what a SPARQL 1.1 Protocol server understands: operation, how it was carried, the endpoint path, the request
    text, every OTHER parameter (URL first, then form body, in order), the `Accept` value -/
structure ProtoReq where
  kind : PKind
  via : Via
  path : Str
  text : Str
  params : List (Str × Str)
  accept : Option Str
  deriving Repr, DecidableEq

/-- media type of a Content-Type value: up to `;` -/
def mediaType : Str → Str
  | [] => []
  | c :: r => if c = ';' then [] else c :: mediaType r

def without (k : Str) (d : List (Str × Str)) : List (Str × Str) := d.filter (fun kv => !(kv.1 == k))

def serverRead (r : HttpReq) : Option ProtoReq :=
  let (path, qs) := splitQ r.url
  match readQS (qs.getD []) with
  | none => none
  | some up =>
    let accept := dget r.headers sAccept
    match r.data with
    | none =>
      (dget up sQuery).map (fun t => ⟨.query, .get, path, t, without sQuery up, accept⟩)
    | some body =>
      let ct := (dget r.headers sContentType).map mediaType
      if ct = some sSparqlQuery then
        (utf8Dec body).map (fun t => ⟨.query, .direct, path, t, up, accept⟩)
      else if ct = some sSparqlUpdate then
        (utf8Dec body).map (fun t => ⟨.update, .direct, path, t, up, accept⟩)
      else if ct = none ∨ ct = some sForm then
        match (utf8Dec body).bind readQS with
        | none => none
        | some fp =>
          let all := up ++ fp
          match dget all sQuery, dget all sUpdate with
          | some t, none => some ⟨.query, .form, path, t, without sQuery all, accept⟩
          | none, some t => some ⟨.update, .form, path, t, without sUpdate all, accept⟩
          | _, _ => none
      else none

end RV.C20
