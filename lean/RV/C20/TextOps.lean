import RV.C20.TextTerm
/-
  C20 text layer, lemmas 4: blocks of triples, update operations, requests.
-/
namespace RV.C20

/-! ### keywords and punctuation on written text -/

theorem kw_sp (k : String) (s : Str) : kw k (' ' :: s) = kw k s := by simp [kw, ws_sp]
theorem kw_nl (k : String) (s : Str) : kw k ('\n' :: s) = kw k s := by simp [kw, ws_nl]

/-- the first character after the blanks settles a failed keyword -/
theorem kw_none_head (k : String) (k0 : Char) (ks : Str) (hk : k.toList = k0 :: ks) (c : Char) (r : Str)
    (h1 : isWs c = false) (h2 : c ≠ '#') (h3 : upperChar c ≠ k0) : kw k (c :: r) = none := by
  simp [kw, ws_cons c r h1 h2, hk, stripCI, h3]

/-- a written term starts with `<` or `"` -/
theorem wTerm_head (t : TTerm) (txt : Str) (h : wTerm t = some txt) :
    ∃ c r, txt = c :: r ∧ (c = '<' ∨ c = '"') := by
  match t, h with
  | .iri s, h =>
    simp only [wTerm] at h
    split at h
    · injection h with h; exact ⟨'<', _, h.symm, Or.inl rfl⟩
    · cases h
  | .lit x none none, h =>
    simp only [wTerm, Option.some.injEq] at h
    obtain ⟨q, hq⟩ := quoteEncode_head x
    exact ⟨'"', q, by rw [← h, hq], Or.inr rfl⟩
  | .lit x (some d) none, h =>
    simp only [wTerm, Option.some.injEq] at h
    obtain ⟨q, hq⟩ := quoteEncode_head x
    exact ⟨'"', _, by rw [← h, hq]; rfl, Or.inr rfl⟩
  | .lit x d (some l), h =>
    simp only [wTerm, Option.some.injEq] at h
    obtain ⟨q, hq⟩ := quoteEncode_head x
    exact ⟨'"', _, by rw [← h, hq]; rfl, Or.inr rfl⟩

/-- head of a written pattern position: `<`, `"` or `?` -/
def isNodeStart (c : Char) : Bool := c = '<' || c = '"' || c = '?'

theorem wNode_head (upper : Bool) (pos : Pos) (x : Option TTerm) (txt : Str)
    (h : wNode (posVar upper) pos x = some txt) : ∃ c r, txt = c :: r ∧ isNodeStart c = true := by
  cases x with
  | none =>
    simp only [wNode, Option.some.injEq] at h
    rw [posVar_eq] at h
    exact ⟨'?', _, h.symm, by decide⟩
  | some t =>
    obtain ⟨c, r, h1, h2⟩ := wTerm_head t txt h
    refine ⟨c, r, h1, ?_⟩
    rcases h2 with rfl | rfl <;> decide

theorem wPatBody_head (upper : Bool) (p : TPatT) (txt : Str) (h : wPatBody (posVar upper) p = some txt) :
    ∃ c r, txt = c :: r ∧ isNodeStart c = true := by
  unfold wPatBody at h
  cases ha : wNode (posVar upper) .s p.1 with
  | none => simp [ha] at h
  | some a =>
    cases hb : wNode (posVar upper) .p p.2.1 with
    | none => simp [ha, hb] at h
    | some b =>
      cases hc : wNode (posVar upper) .o p.2.2 with
      | none => simp [ha, hb, hc] at h
      | some c =>
        simp only [ha, hb, hc, Option.some.injEq] at h
        obtain ⟨c0, r0, h1, h2⟩ := wNode_head upper .s p.1 a ha
        exact ⟨c0, r0 ++ ' ' :: b ++ ' ' :: c, by rw [← h, h1]; simp, h2⟩

theorem nodeStart_facts {c : Char} (h : isNodeStart c = true) :
    isWs c = false ∧ c ≠ '#' ∧ upperChar c = c ∧ c ≠ 'G' ∧ c ≠ 'V' ∧ c ≠ '}' ∧ c ≠ '{' := by
  simp only [isNodeStart, Bool.or_eq_true, decide_eq_true_eq] at h
  rcases h with (rfl | rfl) | rfl <;> decide

theorem kw_graph_none (c : Char) (r : Str) (h : isNodeStart c = true) : kw "GRAPH" (' ' :: c :: r) = none := by
  obtain ⟨h1, h2, h3, h4, _⟩ := nodeStart_facts h
  rw [kw_sp]
  exact kw_none_head "GRAPH" 'G' "RAPH".toList (by decide) c r h1 h2 (by rw [h3]; exact h4)

theorem kw_values_none (c : Char) (r : Str) (h : isNodeStart c = true) : kw "VALUES" (' ' :: c :: r) = none := by
  obtain ⟨h1, h2, h3, _, h5, _⟩ := nodeStart_facts h
  rw [kw_sp]
  exact kw_none_head "VALUES" 'V' "ALUES".toList (by decide) c r h1 h2 (by rw [h3]; exact h5)

/-! ### ground triples -/

def TripleOK (t : TTriple) : Bool := TermOK t.1 && TermOK t.2.1 && TermOK t.2.2

theorem posVar_true : posVar true = posVarUpper := rfl
theorem posVar_false : posVar false = posVarLower := rfl

theorem readTerm_of_readNode {s r : Str} {t : TTerm} (h : readNode s = some (.term t, r)) :
    readTerm s = some (t, r) := by simp [readTerm, h]

/-- one written `s p o .` is read as that triple -/
theorem readTriple_write (t : TTriple) (tt rest : Str) (hw : wTripleDot t = some tt) (hok : TripleOK t = true) :
    ∃ r1 r2, readTerm (tt ++ rest) = some (t.1, r1) ∧ readTerm r1 = some (t.2.1, r2) ∧
      readTerm r2 = some (t.2.2, ' ' :: '.' :: rest) ∧ startsTerm (tt ++ rest) = true := by
  simp only [wTripleDot, Option.map_eq_some_iff] at hw
  obtain ⟨body, hb, hbt⟩ := hw
  subst hbt
  have hpok : PatOK (some t.1, some t.2.1, some t.2.2) = true := by
    simpa [PatOK, PosOK, TripleOK] using hok
  rw [← posVar_true] at hb
  obtain ⟨r1, r2, h1, h2, h3⟩ := readNodes_wPatBody true _ body ('.' :: rest) hb hpok
  obtain ⟨c0, r0, hh, hs⟩ := wPatBody_head true _ body hb
  refine ⟨r1, r2, ?_, readTerm_of_readNode (by simpa [nodeOf] using h2), readTerm_of_readNode (by simpa [nodeOf] using h3), ?_⟩
  · apply readTerm_of_readNode
    simpa [List.append_assoc, nodeOf] using h1
  · have hterm : c0 = '<' ∨ c0 = '"' := by
      -- the subject is a term, not a variable
      simp only [wPatBody] at hb
      cases ha : wNode (posVar true) .s (some t.1) with
      | none => simp [ha] at hb
      | some a =>
        obtain ⟨c1, r1', e1, e2⟩ := wTerm_head t.1 a (by simpa [wNode] using ha)
        cases hb2 : wNode (posVar true) .p (some t.2.1) with
        | none => simp [ha, hb2] at hb
        | some b =>
          cases hc2 : wNode (posVar true) .o (some t.2.2) with
          | none => simp [ha, hb2, hc2] at hb
          | some c =>
            simp only [ha, hb2, hc2, Option.some.injEq] at hb
            rw [hh, e1] at hb
            simp only [List.cons_append, List.cons.injEq] at hb
            rw [← hb.1]; exact e2
    rw [hh]
    rcases hterm with rfl | rfl
    · simp [startsTerm, ws_lt]
    · simp [startsTerm, ws_dq]

theorem startsTerm_nl (s : Str) : startsTerm ('\n' :: s) = startsTerm s := by simp [startsTerm, ws_nl]
theorem readTerm_nl (s : Str) : readTerm ('\n' :: s) = readTerm s := by simp [readTerm, readNode_nl]

theorem readTriples_nl (n : Nat) (s : Str) (h : startsTerm s = true) :
    readTriples n ('\n' :: s) = readTriples n s := by
  cases n with
  | zero => rfl
  | succ n => simp only [readTriples, startsTerm_nl, h, if_true, readTerm_nl]

/-- `optAll` of the written triples -/
theorem optAll_cons {x : Option Str} {xs : List (Option Str)} {l : List Str} (h : optAll (x :: xs) = some l) :
    ∃ a as, x = some a ∧ optAll xs = some as ∧ l = a :: as := by
  simp only [optAll] at h
  cases x with
  | none => simp at h
  | some a =>
    cases hx : optAll xs with
    | none => simp [hx] at h
    | some as => simp only [hx, Option.some.injEq] at h; exact ⟨a, as, rfl, rfl, h.symm⟩

/-- the triples written by `add` / `addN` (joined by newlines) are read back, with enough fuel -/
theorem readTriples_write : ∀ (ts : List TTriple) (tts : List Str) (rest : Str) (k : Nat),
    optAll (ts.map wTripleDot) = some tts → (∀ t ∈ ts, TripleOK t = true) → startsTerm rest = false →
    readTriples (ts.length + 1 + k) (joinWith ['\n'] tts ++ rest) = some (ts, rest)
  | [], tts, rest, k, hw, _, hr => by
    simp only [List.map_nil, optAll, Option.some.injEq] at hw
    subst hw
    have : 0 + 1 + k = k + 1 := by omega
    simp only [List.length_nil, this, joinWith, List.nil_append, readTriples, hr]
    rfl
  | t :: ts, tts, rest, k, hw, hok, hr => by
    obtain ⟨tt, tts', h1, h2, h3⟩ := optAll_cons hw
    subst h3
    have hokt := hok t (List.mem_cons_self ..)
    have hoks : ∀ t' ∈ ts, TripleOK t' = true := fun t' h => hok t' (List.mem_cons_of_mem _ h)
    have ih := readTriples_write ts tts' rest k h2 hoks hr
    have hfuel : (t :: ts).length + 1 + k = (ts.length + 1 + k) + 1 := by simp; omega
    rw [hfuel]
    match ts, tts', h2, ih, hoks with
    | [], tts', h2, ih, _ =>
      simp only [List.map_nil, optAll, Option.some.injEq] at h2
      subst h2
      obtain ⟨r1, r2, e1, e2, e3, e4⟩ := readTriple_write t tt rest h1 hokt
      simp only [joinWith] at ih ⊢
      simp only [readTriples, e4, if_true, e1, e2, e3, optDot_dot]
      simp only [List.nil_append] at ih
      rw [ih]
    | t2 :: ts2, tts', h2, ih, hoks =>
      obtain ⟨tt2, tts2, g1, g2, g3⟩ := optAll_cons h2
      subst g3
      obtain ⟨r1, r2, e1, e2, e3, e4⟩ := readTriple_write t tt ('\n' :: (joinWith ['\n'] (tt2 :: tts2) ++ rest)) h1 hokt
      have hjoin : joinWith ['\n'] (tt :: tt2 :: tts2) ++ rest =
          tt ++ '\n' :: (joinWith ['\n'] (tt2 :: tts2) ++ rest) := by simp [joinWith]
      rw [hjoin]
      simp only [readTriples, e4, if_true, e1, e2, e3, optDot_dot]
      have hst : startsTerm (joinWith ['\n'] (tt2 :: tts2) ++ rest) = true := by
        obtain ⟨_, _, _, _, _, e⟩ := readTriple_write t2 tt2
          (match tts2 with | [] => rest | _ => '\n' :: (joinWith ['\n'] tts2 ++ rest)) g1 (hoks t2 (List.mem_cons_self ..))
        cases tts2 with
        | nil => simpa [joinWith] using e
        | cons a as => simpa [joinWith] using e
      rw [readTriples_nl _ _ hst, ih]

theorem startsTerm_sp (s : Str) : startsTerm (' ' :: s) = startsTerm s := by simp [startsTerm, ws_sp]
theorem readTerm_sp (s : Str) : readTerm (' ' :: s) = readTerm s := by simp [readTerm, readNode_sp]

theorem readTriples_sp (n : Nat) (s : Str) (h : startsTerm s = true) :
    readTriples n (' ' :: s) = readTriples n s := by
  cases n with
  | zero => rfl
  | succ n => simp only [readTriples, startsTerm_sp, h, if_true, readTerm_sp]

theorem startsTerm_join (ts : List TTriple) (tts : List Str) (rest : Str) (hne : ts ≠ [])
    (hw : optAll (ts.map wTripleDot) = some tts) (hok : ∀ t ∈ ts, TripleOK t = true) :
    startsTerm (joinWith ['\n'] tts ++ rest) = true ∧ ∃ c r, joinWith ['\n'] tts = c :: r ∧ isNodeStart c = true := by
  match ts, hne, hw, hok with
  | t :: ts', _, hw, hok =>
    obtain ⟨tt, tts', h1, h2, h3⟩ := optAll_cons hw
    subst h3
    have hokt := hok t (List.mem_cons_self ..)
    obtain ⟨c0, r0, hh, hs⟩ : ∃ c r, tt = c :: r ∧ isNodeStart c = true := by
      simp only [wTripleDot, Option.map_eq_some_iff] at h1
      obtain ⟨body, hb, hbt⟩ := h1
      rw [← posVar_true] at hb
      obtain ⟨c, r, e1, e2⟩ := wPatBody_head true _ body hb
      exact ⟨c, r ++ [' ', '.'], by rw [← hbt, e1]; rfl, e2⟩
    cases tts' with
    | nil =>
      obtain ⟨_, _, _, _, _, e⟩ := readTriple_write t tt rest h1 hokt
      exact ⟨by simpa [joinWith] using e, c0, r0, by simpa [joinWith] using hh, hs⟩
    | cons a as =>
      obtain ⟨_, _, _, _, _, e⟩ := readTriple_write t tt ('\n' :: (joinWith ['\n'] (a :: as) ++ rest)) h1 hokt
      refine ⟨by simpa [joinWith] using e, c0, r0 ++ '\n' :: joinWith ['\n'] (a :: as), ?_, hs⟩
      simp [joinWith, hh]

/-! ### `{ [GRAPH <g> {] triples [}] }` -/

def GraphOK : Option Str → Bool
  | none => true
  | some g => iriOK g

/-- the data block of `INSERT DATA`, as written by `add` (one triple) and `addN` (a group) -/
theorem readQuadData_default (ts : List TTriple) (tts : List Str) (tail : Str) (k : Nat) (hne : ts ≠ [])
    (hw : optAll (ts.map wTripleDot) = some tts) (hok : ∀ t ∈ ts, TripleOK t = true) :
    readQuadData (ts.length + 1 + k) (' ' :: '{' :: ' ' :: (joinWith ['\n'] tts ++ ' ' :: '}' :: tail)) =
      some ((none, ts), tail) := by
  obtain ⟨hst, c0, r0, hh, hs⟩ := startsTerm_join ts tts (' ' :: '}' :: tail) hne hw hok
  have hrest : startsTerm (' ' :: '}' :: tail) = false := by
    simp [startsTerm, ws_sp, ws_cons '}' tail (by decide) (by decide)]
  have hrt := readTriples_write ts tts (' ' :: '}' :: tail) k hw hok hrest
  have hg : readGraphOpen (' ' :: (joinWith ['\n'] tts ++ ' ' :: '}' :: tail)) =
      some (.dflt, ' ' :: (joinWith ['\n'] tts ++ ' ' :: '}' :: tail)) := by
    rw [hh]
    simp only [readGraphOpen, List.cons_append, kw_graph_none c0 _ hs]
  simp only [readQuadData, sym_sp, sym_here '{' _ (by decide) (by decide), hg]
  rw [readTriples_sp _ _ hst, hrt]
  simp [sym_sp, sym_here '}' _ (by decide) (by decide)]

theorem kw_GRAPH (r : Str) : kw "GRAPH" (' ' :: 'G' :: 'R' :: 'A' :: 'P' :: 'H' :: ' ' :: r) = some (' ' :: r) := by
  simp [kw, stripCI, ws, skip, isWs, upperChar, isNameChar, isAlpha, isDigit]

theorem readQuadData_named (g : Str) (ts : List TTriple) (tts : List Str) (tail : Str) (k : Nat) (hne : ts ≠ [])
    (hg : iriOK g = true)
    (hw : optAll (ts.map wTripleDot) = some tts) (hok : ∀ t ∈ ts, TripleOK t = true) :
    readQuadData (ts.length + 1 + k)
      (' ' :: '{' :: ' ' :: 'G' :: 'R' :: 'A' :: 'P' :: 'H' :: ' ' :: '<' :: (g ++ '>' :: ' ' :: '{' :: ' ' ::
        (joinWith ['\n'] tts ++ ' ' :: '}' :: ' ' :: '}' :: tail))) =
      some ((some g, ts), tail) := by
  obtain ⟨hst, c0, r0, hh, hs⟩ := startsTerm_join ts tts (' ' :: '}' :: ' ' :: '}' :: tail) hne hw hok
  have hrest : startsTerm (' ' :: '}' :: ' ' :: '}' :: tail) = false := by
    simp [startsTerm, ws_sp, ws_cons '}' _ (by decide) (by decide)]
  have hrt := readTriples_write ts tts (' ' :: '}' :: ' ' :: '}' :: tail) k hw hok hrest
  have hnode : readNode (' ' :: '<' :: (g ++ '>' :: ' ' :: '{' :: ' ' ::
        (joinWith ['\n'] tts ++ ' ' :: '}' :: ' ' :: '}' :: tail))) =
      some (.term (.iri g), ' ' :: '{' :: ' ' :: (joinWith ['\n'] tts ++ ' ' :: '}' :: ' ' :: '}' :: tail)) := by
    rw [readNode_sp]
    have := readNode_term (.iri g) _ ('{' :: ' ' :: (joinWith ['\n'] tts ++ ' ' :: '}' :: ' ' :: '}' :: tail))
      (wTerm_iri g hg) (by simpa [TermOK] using hg)
    simpa using this
  simp only [readQuadData, sym_sp, sym_here '{' _ (by decide) (by decide), readGraphOpen, kw_GRAPH, hnode,
    Option.map_some]
  rw [readTriples_sp _ _ hst, hrt]
  simp [closeFor, sym_sp, sym_here '}' _ (by decide) (by decide)]

end RV.C20
