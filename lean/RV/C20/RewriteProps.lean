import RV.C20.RewriteLemmas
/-
  C20 — `_insert_named_graph` on the update texts of the fragment: the rewritten text IS the text
  the store writes for the named graph, so decoding it gives the operation moved to graph `g`.
-/
namespace RV.C20

variable (opn cls : Str)

theorem copies_tripleDot (body : Str) (hb : CopiesSp opn cls body) : Copies opn cls (body ++ [' ', '.']) := by
  intro l w rest
  have e : (body ++ [' ', '.']) ++ rest = body ++ ' ' :: ('.' :: rest) := by simp
  rw [e, hb]
  have h1 := copies_plains opn cls [' ', '.'] (by decide) l w rest
  simp only [List.cons_append, List.nil_append] at h1
  rw [h1]; simp

theorem copies_joinNl : ∀ (tts : List Str), (∀ tt ∈ tts, Copies opn cls tt) → Copies opn cls (joinWith ['\n'] tts)
  | [], _ => copies_nil opn cls
  | [a], h => by simpa [joinWith] using h a (List.mem_cons_self ..)
  | a :: b :: r, h => by
    have ih := copies_joinNl (b :: r) (fun x hx => h x (List.mem_cons_of_mem _ hx))
    have := copies_append opn cls (h a (List.mem_cons_self ..))
      (copies_append opn cls (A := ['\n']) (copies_plain opn cls '\n' (by decide)) ih)
    simpa [joinWith] using this

theorem blank_false (c : Char) (r : Str) (h1 : isPySpace c = false) (h2 : c ≠ '}') :
    blankBlock (' ' :: c :: r) = false := by
  have hsp : isPySpace ' ' = true := by decide
  simp only [blankBlock, show (' ' = '}') = False by decide, if_false, hsp, if_true, h2, h1]
  simp

/-- one top-level block `{ B }` whose content is copied verbatim gets its `GRAPH <g> { … }` -/
theorem rw_block (B tail : Str) (hB : Copies opn cls B) (c : Char) (r : Str) (hc : B = c :: r)
    (h1 : isPySpace c = false) (h2 : c ≠ '}') :
    rwGo opn cls .top 0 false ('{' :: ' ' :: (B ++ ' ' :: '}' :: tail)) =
      '{' :: (opn ++ ' ' :: (B ++ ' ' :: (cls ++ '}' :: rwGo opn cls .top 0 false tail))) := by
  have hbl : blankBlock (' ' :: (B ++ ' ' :: '}' :: tail)) = false := by
    rw [hc]; exact blank_false c _ h1 h2
  have hsp : ∀ l w x, rwGo opn cls .top l w (' ' :: x) = ' ' :: rwGo opn cls .top l w x :=
    fun l w x => copies_plain opn cls ' ' (by decide) l w x
  have hcl : rwGo opn cls .top 1 true ('}' :: tail) = cls ++ '}' :: rwGo opn cls .top 0 false tail := by
    simp [rwGo]
  have hop : rwGo opn cls .top 0 false ('{' :: ' ' :: (B ++ ' ' :: '}' :: tail)) =
      '{' :: (opn ++ rwGo opn cls .top 1 true (' ' :: (B ++ ' ' :: '}' :: tail))) := by
    rw [rwGo]; simp [hbl]
  rw [hop, hsp, hB, hsp, hcl]

theorem isNodeStart_facts2 {c : Char} (h : isNodeStart c = true) : isPySpace c = false ∧ c ≠ '}' := by
  simp only [isNodeStart, Bool.or_eq_true, decide_eq_true_eq] at h
  rcases h with (rfl | rfl) | rfl <;> decide

theorem copies_kw (k : String) (h : k.toList.all plainTop = true) : Copies opn cls k.toList :=
  copies_plains opn cls _ h

/-- `INSERT DATA { triples }` (as `add` / `addN` spell it, `nl` = nothing or a newline) becomes
    `INSERT DATA { GRAPH <g> { triples } }` -/
theorem ing_insert (gi : Str) (ts : List TTriple) (tts : List Str) (nl tail : Str) (hne : ts ≠ [])
    (hw : optAll (ts.map wTripleDot) = some tts) (hok : ∀ t ∈ ts, TripleOK t = true)
    (hnl : nl.all plainTop = true) :
    rwGo (" GRAPH ".toList ++ gi ++ " {".toList) "} ".toList .top 0 false
        ("INSERT DATA { ".toList ++ joinWith ['\n'] tts ++ " }".toList ++ nl ++ tail) =
      "INSERT DATA { GRAPH ".toList ++ gi ++ " { ".toList ++ joinWith ['\n'] tts ++ " } }".toList ++ nl ++
        rwGo (" GRAPH ".toList ++ gi ++ " {".toList) "} ".toList .top 0 false tail := by
  generalize hopn : (" GRAPH ".toList ++ gi ++ " {".toList) = opn
  generalize hcls : "} ".toList = cls
  have hcop : ∀ tt ∈ tts, Copies opn cls tt := by
    intro tt htt
    -- every written `s p o .`
    have : ∀ (ts : List TTriple) (tts : List Str), optAll (ts.map wTripleDot) = some tts →
        (∀ t ∈ ts, TripleOK t = true) → ∀ tt ∈ tts, Copies opn cls tt := by
      intro ts
      induction ts with
      | nil => intro tts h _ tt htt; simp [optAll] at h; subst h; cases htt
      | cons t ts ih =>
        intro tts h hok tt htt
        obtain ⟨a, as, h1, h2, h3⟩ := optAll_cons h
        subst h3
        rcases List.mem_cons.mp htt with rfl | hm
        · simp only [wTripleDot, Option.map_eq_some_iff] at h1
          obtain ⟨body, hb, rfl⟩ := h1
          have hp : PatOK (some t.1, some t.2.1, some t.2.2) = true := by
            simpa [PatOK, PosOK, TripleOK] using hok t (List.mem_cons_self ..)
          rw [← posVar_true] at hb
          exact copies_tripleDot opn cls body (copiesSp_body opn cls true _ body hb hp)
        · exact ih as h2 (fun x hx => hok x (List.mem_cons_of_mem _ hx)) tt hm
    exact this ts tts hw hok tt htt
  have hJ := copies_joinNl opn cls tts hcop
  obtain ⟨_, c0, r0, hh, hs⟩ := startsTerm_join ts tts [] hne hw hok
  obtain ⟨hs1, hs2⟩ := isNodeStart_facts2 hs
  have hpre := copies_kw opn cls "INSERT DATA " (by decide)
  have hblock := rw_block opn cls (joinWith ['\n'] tts) (nl ++ tail) hJ c0 r0 hh hs1 hs2
  have hnlc := copies_plains opn cls nl hnl
  have e1 : "INSERT DATA { ".toList ++ joinWith ['\n'] tts ++ " }".toList ++ nl ++ tail =
      "INSERT DATA ".toList ++ ('{' :: ' ' :: (joinWith ['\n'] tts ++ ' ' :: '}' :: (nl ++ tail))) := by simp
  rw [e1, hpre, hblock, hnlc, ← hopn, ← hcls]
  simp

/-- `DELETE { t } WHERE { t } ` (as `remove` spells it for the default graph) becomes
    `DELETE { GRAPH <g> { t } } WHERE { GRAPH <g> { t } } ` -/
theorem ing_delete (gi : Str) (p : TPatT) (body tail : Str) (hw : wPatBody posVarUpper p = some body)
    (hok : PatOK p = true) :
    rwGo (" GRAPH ".toList ++ gi ++ " {".toList) "} ".toList .top 0 false
        ("DELETE { ".toList ++ (body ++ [' ', '.']) ++ " } WHERE { ".toList ++ (body ++ [' ', '.']) ++ " } ".toList ++ tail) =
      "DELETE { GRAPH ".toList ++ gi ++ " { ".toList ++ (body ++ [' ', '.']) ++ " } } WHERE { GRAPH ".toList ++ gi ++
        " { ".toList ++ (body ++ [' ', '.']) ++ " } } ".toList ++
        rwGo (" GRAPH ".toList ++ gi ++ " {".toList) "} ".toList .top 0 false tail := by
  generalize hopn : (" GRAPH ".toList ++ gi ++ " {".toList) = opn
  generalize hcls : "} ".toList = cls
  rw [← posVar_true] at hw
  have hB := copies_tripleDot opn cls body (copiesSp_body opn cls true p body hw hok)
  obtain ⟨c0, r0, hh, hs⟩ := wPatBody_head true p body hw
  obtain ⟨hs1, hs2⟩ := isNodeStart_facts2 hs
  have hh' : body ++ [' ', '.'] = c0 :: (r0 ++ [' ', '.']) := by rw [hh]; rfl
  have hk1 := copies_kw opn cls "DELETE " (by decide)
  have hk2 := copies_kw opn cls " WHERE " (by decide)
  have hk3 := copies_kw opn cls " " (by decide)
  have b2 := rw_block opn cls (body ++ [' ', '.']) (' ' :: tail) hB c0 _ hh' hs1 hs2
  have b1 := rw_block opn cls (body ++ [' ', '.'])
    (" WHERE ".toList ++ ('{' :: ' ' :: ((body ++ [' ', '.']) ++ ' ' :: '}' :: (' ' :: tail)))) hB c0 _ hh' hs1 hs2
  have e1 : "DELETE { ".toList ++ (body ++ [' ', '.']) ++ " } WHERE { ".toList ++ (body ++ [' ', '.']) ++ " } ".toList ++ tail =
      "DELETE ".toList ++ ('{' :: ' ' :: ((body ++ [' ', '.']) ++ ' ' :: '}' ::
        (" WHERE ".toList ++ ('{' :: ' ' :: ((body ++ [' ', '.']) ++ ' ' :: '}' :: (' ' :: tail)))))) := by simp
  have hsp := hk3 0 false tail
  simp only [show " ".toList = [' '] from rfl, List.cons_append, List.nil_append] at hsp
  rw [e1, hk1, b1, hk2, b2, hsp, ← hopn, ← hcls]
  simp

/-! ### reading the `GRAPH <g>` form of DELETE … WHERE … -/

theorem readQuadPat_iri (g : Str) (p : TPatT) (body tail : Str) (hg : iriOK g = true)
    (hw : wPatBody posVarUpper p = some body) (hok : PatOK p = true) :
    readQuadPat (' ' :: '{' :: ' ' :: 'G' :: 'R' :: 'A' :: 'P' :: 'H' :: ' ' :: '<' :: (g ++ '>' :: ' ' :: '{' :: ' ' ::
        (body ++ ' ' :: '.' :: ' ' :: '}' :: ' ' :: '}' :: tail))) =
      some (([], .named g, nodesOf true p), tail) := by
  rw [← posVar_true] at hw
  have hp := readPat_write true p body (' ' :: '}' :: ' ' :: '}' :: tail) hw hok
  have hv : ∀ r, readValues (' ' :: 'G' :: r) = some ([], ' ' :: 'G' :: r) := by
    intro r
    have : kw "VALUES" (' ' :: 'G' :: r) = none := by
      rw [kw_sp]; exact kw_none_head "VALUES" 'V' "ALUES".toList (by decide) 'G' r (by decide) (by decide) (by decide)
    simp only [readValues, this]
  have hn : ∀ r, readNode (' ' :: '<' :: (g ++ '>' :: ' ' :: r)) = some (.term (.iri g), ' ' :: r) := by
    intro r
    rw [readNode_sp]
    have := readNode_term (.iri g) _ r (wTerm_iri g hg) (by simpa [TermOK] using hg)
    simpa using this
  simp only [readQuadPat, sym_sp, sym_here '{' _ (by decide) (by decide), hv, readGraphOpen, kw_GRAPH, hn,
    Option.map_some, readPat_sp, hp, closeFor, sym_here '}' _ (by decide) (by decide), Option.bind_some]

theorem removeGraphIri_reads (g : Str) (p : TPatT) (body : Str) (F : Nat) (hg : iriOK g = true)
    (hw : wPatBody posVarUpper p = some body) (hok : PatOK p = true) :
    OpText ("DELETE { GRAPH ".toList ++ ('<' :: g ++ ['>']) ++ " { ".toList ++ (body ++ [' ', '.']) ++
        " } } WHERE { GRAPH ".toList ++ ('<' :: g ++ ['>']) ++ " { ".toList ++ (body ++ [' ', '.']) ++ " } } ".toList)
      (.deleteWhere (some g) p) F := by
  have hpre : ∀ r, kw "PREFIX" ('D' :: r) = none := fun r =>
    kw_none_head "PREFIX" 'P' "REFIX".toList (by decide) 'D' r (by decide) (by decide) (by decide)
  have hins : ∀ r, kw "INSERT" ('D' :: r) = none := fun r =>
    kw_none_head "INSERT" 'I' "NSERT".toList (by decide) 'D' r (by decide) (by decide) (by decide)
  constructor
  · refine ⟨[' '], by simp [AllWs, isWs], ?_⟩
    intro rest _
    have e : ("DELETE { GRAPH ".toList ++ ('<' :: g ++ ['>']) ++ " { ".toList ++ (body ++ [' ', '.']) ++
        " } } WHERE { GRAPH ".toList ++ ('<' :: g ++ ['>']) ++ " { ".toList ++ (body ++ [' ', '.']) ++ " } } ".toList) ++ rest =
        'D' :: 'E' :: 'L' :: 'E' :: 'T' :: 'E' :: ' ' :: '{' :: ' ' :: 'G' :: 'R' :: 'A' :: 'P' :: 'H' :: ' ' :: '<' ::
          (g ++ '>' :: ' ' :: '{' :: ' ' :: (body ++ ' ' :: '.' :: ' ' :: '}' :: ' ' :: '}' ::
          (' ' :: 'W' :: 'H' :: 'E' :: 'R' :: 'E' :: ' ' :: '{' :: ' ' :: 'G' :: 'R' :: 'A' :: 'P' :: 'H' :: ' ' :: '<' ::
            (g ++ '>' :: ' ' :: '{' :: ' ' :: (body ++ ' ' :: '.' :: ' ' :: '}' :: ' ' :: '}' :: (' ' :: rest)))))) := by
      simp
    rw [e]
    have q1 := readQuadPat_iri g p body (' ' :: 'W' :: 'H' :: 'E' :: 'R' :: 'E' :: ' ' :: '{' :: ' ' :: 'G' :: 'R' :: 'A' ::
      'P' :: 'H' :: ' ' :: '<' :: (g ++ '>' :: ' ' :: '{' :: ' ' :: (body ++ ' ' :: '.' :: ' ' :: '}' :: ' ' :: '}' :: (' ' :: rest))))
      hg hw hok
    have q2 := readQuadPat_iri g p body (' ' :: rest) hg hw hok
    simp only [readOp, skipPrologue_id _ _ (hpre _), hins, kw_DELETE,
      kw_brace_none "DATA" 'D' "ATA".toList (by decide) (by decide),
      kw_brace_none "WHERE" 'W' "HERE".toList (by decide) (by decide),
      q1, Option.bind_some, kw_spWHERE, q2, modify_same, Option.map_some]
    rfl
  · exact ⟨'D', _, rfl, by decide, by decide⟩

/-! ### Statement and theorem -/

/-- an operation on the default graph, moved to the named graph `g` -/
def TUOp.moveTo (g : Str) : TUOp → TUOp
  | .insertData none ts => .insertData (some g) ts
  | .deleteData none ts => .deleteData (some g) ts
  | .deleteWhere none p => .deleteWhere (some g) p
  | u => u

/-- `_insert_named_graph(text, <g>)` on the update fragment the reader covers, in the store's own
    spelling (`INSERT DATA { … }` with one or several triples, `DELETE { t } WHERE { t } `):
    (1) what `_quote_encode` wrote — short or long-quoted, WHATEVER the lexical form holds: braces,
        quotes, hashes, backslashes, newlines — is copied verbatim, in any mode state, so no brace
        inside a literal is ever taken for a block delimiter; the same for a written IRI;
    (2) the rewritten text is exactly the text the store itself writes for the named graph, and
        decoding it gives the decoded operation with its data / template and pattern moved to `g`. -/
def Statement_named_graph_rewrite_means_move : Prop :=
  ∀ (g : Str), iriOK g = true →
    let gi : Str := '<' :: g ++ ['>']
    (∀ (opn cls x tail : Str) (l : Int) (w : Bool), tail.head? ≠ some '"' →
        rwGo opn cls .top l w (quoteEncode x ++ tail) = quoteEncode x ++ rwGo opn cls .top l w tail) ∧
    (∀ (opn cls s tail : Str) (l : Int) (w : Bool), iriOK s = true →
        rwGo opn cls .top l w (('<' :: s ++ ['>']) ++ tail) = ('<' :: s ++ ['>']) ++ rwGo opn cls .top l w tail) ∧
    (∀ (t : TTriple) (txt : Str), TripleOK t = true → wAdd none t = some txt →
        wAdd (some g) t = some (insertNamedGraph gi txt) ∧
        readRequest (insertNamedGraph gi txt) = (readRequest txt).map (fun us => us.map (TUOp.moveTo g))) ∧
    (∀ (ts : List TTriple) (txt : Str), ts ≠ [] → (∀ t ∈ ts, TripleOK t = true) → wAddN none ts = some txt →
        wAddN (some g) ts = some (insertNamedGraph gi txt) ∧
        readRequest (insertNamedGraph gi txt) = (readRequest txt).map (fun us => us.map (TUOp.moveTo g))) ∧
    (∀ (p : TPatT) (txt : Str), PatOK p = true → wRemoveOne none p = some txt →
        readRequest (insertNamedGraph gi txt) = some [.deleteWhere (some g) p] ∧
        readRequest (insertNamedGraph gi txt) = (readRequest txt).map (fun us => us.map (TUOp.moveTo g)))

theorem named_graph_rewrite_means_move : Statement_named_graph_rewrite_means_move := by
  intro g hg
  refine ⟨fun opn cls x tail l w ht => rw_quoteEncode opn cls l w x tail ht,
    fun opn cls s tail l w hs => copies_iri opn cls s hs l w tail, ?_, ?_, ?_⟩
  · intro t txt ht h
    obtain ⟨tt, htt⟩ := wTripleDot_ok t ht
    have hw : optAll ([t].map wTripleDot) = some [tt] := by simp [optAll, htt]
    have hok : ∀ x ∈ [t], TripleOK x = true := by simpa using ht
    simp only [wAdd, htt, Option.some.injEq] at h
    have hr := ing_insert ('<' :: g ++ ['>']) [t] [tt] [] [] (by simp) hw hok (by rfl)
    simp only [joinWith, List.append_nil, rwGo] at hr
    have hnamed : wAdd (some g) t = some (insertNamedGraph ('<' :: g ++ ['>']) txt) := by
      simp only [wAdd, htt, wIri_ok g hg, Option.map_some, insertNamedGraph, ← h, hr]
    refine ⟨hnamed, ?_⟩
    have e1 := readRequest_edit _ _ (add_edit (some g) t _ (by simpa [GraphOK] using hg) ht hnamed)
    have e0 := readRequest_edit _ _ (add_edit none t txt rfl ht (by simp only [wAdd, htt, h]))
    rw [e1, e0]; rfl
  · intro ts txt hne hts h
    obtain ⟨tts, hw⟩ := optAll_ok ts hts
    have h' := h
    simp only [wAddN, hw, Option.some.injEq] at h
    have hr := ing_insert ('<' :: g ++ ['>']) ts tts ['\n'] [] hne hw hts (by decide)
    simp only [List.append_nil, rwGo] at hr
    have hnamed : wAddN (some g) ts = some (insertNamedGraph ('<' :: g ++ ['>']) txt) := by
      have hr' : rwGo (" GRAPH ".toList ++ ('<' :: g ++ ['>']) ++ " {".toList) "} ".toList Mode.top 0 false
          ("INSERT DATA { ".toList ++ joinWith ['\n'] tts ++ " }\n".toList) =
          "INSERT DATA { GRAPH ".toList ++ ('<' :: g ++ ['>']) ++ " { ".toList ++ joinWith ['\n'] tts ++ " } }\n".toList := by
        have e : ("INSERT DATA { ".toList ++ joinWith ['\n'] tts ++ " }\n".toList : Str) =
            "INSERT DATA { ".toList ++ joinWith ['\n'] tts ++ " }".toList ++ ['\n'] := by simp
        rw [e, hr]; simp
      simp only [wAddN, hw, wIri_ok g hg, Option.map_some, insertNamedGraph, ← h, hr']
    refine ⟨hnamed, ?_⟩
    have e1 := readRequest_edit _ _ (addN_edit (some g) ts _ hne (by simpa [GraphOK] using hg) hts hnamed)
    have e0 := readRequest_edit _ _ (addN_edit none ts txt hne rfl hts h')
    rw [e1, e0]; rfl
  · intro p txt hp h
    obtain ⟨body, hb⟩ := wPatBody_ok p hp
    have e0 := readRequest_edit _ _ (removeOne_edit none p txt rfl hp h)
    simp only [wRemoveOne, wPatDot, hb, Option.map_some, Option.some.injEq] at h
    have hr := ing_delete ('<' :: g ++ ['>']) p body [] hb hp
    simp only [List.append_nil, rwGo] at hr
    have hed : EditText (insertNamedGraph ('<' :: g ++ ['>']) txt) [.deleteWhere (some g) p] := by
      apply single_edit
      intro F _
      simp only [insertNamedGraph, ← h, hr]
      exact removeGraphIri_reads g p body F hg hb hp
    have e1 := readRequest_edit _ _ hed
    exact ⟨e1, by rw [e1, e0]; rfl⟩

end RV.C20
