import RV.C20.TextReq
import RV.C20.Refine
/-
  C20 text layer, lemmas 6: the strings the store appends to `_edits`, as a function of the write
  call (through a vocabulary: term ids → text-level terms), read back as the operations of the
  state-machine model; the text sent by `commit` reads back as the queue, in order.
-/
namespace RV.C20

structure Vocab where
  term : Nat → TTerm
  graph : Nat → Str

def Vocab.triple (V : Vocab) (t : Triple) : TTriple := (V.term t.1, V.term t.2.1, V.term t.2.2)
def Vocab.pat (V : Vocab) (p : TPat) : TPatT := (p.1.map V.term, p.2.1.map V.term, p.2.2.map V.term)
def Vocab.g (V : Vocab) (g : GName) : Option Str := g.map V.graph

/-- the text-level operation an abstract operation stands for -/
def UOp.toText (V : Vocab) : UOp → TUOp
  | .insertData g ts => .insertData (V.g g) (ts.map V.triple)
  | .deleteData g ts => .deleteData (V.g g) (ts.map V.triple)
  | .deleteWhere g p => .deleteWhere (V.g g) (V.pat p)
  | .deleteNamed p => .deleteNamed (V.pat p)
  | .dropGraph g => .dropGraph (V.g g)
  | .createGraph n => .createGraph (V.graph n)

/-- every id stands for a term the store can send; prefixes of the PREFIX block are names -/
structure VocabOK (V : Vocab) (ns : List (Str × Str)) : Prop where
  term : ∀ n, TermOK (V.term n) = true
  graph : ∀ n, iriOK (V.graph n) = true
  ns : ∀ kv ∈ ns, PrefixOK kv = true

/-- the strings one write call appends to `_edits` (`none`: `node_to_sparql` raised, or the text
    is the caller's own — `update()` — and not modelled) -/
def writeEdits (V : Vocab) (ns : List (Str × Str)) (hook : Bool) : Write → Option (List Str)
  | .add t g => (encTriple hook t).bind fun t' => (wAdd (V.g g) (V.triple t')).map ([·])
  | .addN qs => (encQuads hook qs).bind fun qs' =>
      optAll ((groups qs').map fun gt => wAddN (V.g gt.1) (gt.2.map V.triple))
  | .remove p (.one g) => (encPat hook p).bind fun p' => (wRemoveOne (V.g g) (V.pat p')).map ([·])
  | .remove p .all => (encPat hook p).bind fun p' => (wRemoveAll (V.pat p')).map ([·])
  | .removeGraph g => (wDrop ns (V.g g)).map ([·])
  | .addGraph n => (wCreate ns (V.graph n)).map ([·])
  | .update _ _ => none

def Write.textual : Write → Bool
  | .update _ _ => false
  | _ => true

/-- `txt` is an edit string denoting the operations `us`: operation texts joined by `\n;\n` -/
def EditText (txt : Str) (us : List TUOp) : Prop :=
  ∃ cs : List (Str × TUOp), cs ≠ [] ∧ txt = joinWith sep (cs.map (·.1)) ∧ us = cs.map (·.2) ∧
    ∀ c ∈ cs, ∀ F, c.1.length + 1 ≤ F → OpText c.1 c.2 F

/-! ### the writers succeed on well-formed terms -/

theorem wTerm_ok (t : TTerm) (h : TermOK t = true) : ∃ txt, wTerm t = some txt := by
  match t, h with
  | .iri s, h => exact ⟨_, wTerm_iri s (by simpa [TermOK] using h)⟩
  | .lit x none none, _ => exact ⟨_, rfl⟩
  | .lit x (some d) none, _ => exact ⟨_, rfl⟩
  | .lit x none (some l), _ => exact ⟨_, rfl⟩
  | .lit x (some d) (some l), h => simp [TermOK] at h

theorem wPatBody_ok (p : TPatT) (h : PatOK p = true) : ∃ body, wPatBody posVarUpper p = some body := by
  obtain ⟨a, b, c⟩ := p
  simp only [PatOK, Bool.and_eq_true] at h
  have f : ∀ (pos : Pos) (x : Option TTerm), PosOK x = true → ∃ t, wNode posVarUpper pos x = some t := by
    intro pos x hx
    cases x with
    | none => exact ⟨_, rfl⟩
    | some t => exact wTerm_ok t hx
  obtain ⟨ta, ha⟩ := f .s a h.1.1
  obtain ⟨tb, hb⟩ := f .p b h.1.2
  obtain ⟨tc, hc⟩ := f .o c h.2
  exact ⟨ta ++ ' ' :: tb ++ ' ' :: tc, by simp [wPatBody, ha, hb, hc]⟩

theorem vocab_patOK (V : Vocab) (ns : List (Str × Str)) (hV : VocabOK V ns) (p : TPat) : PatOK (V.pat p) = true := by
  obtain ⟨a, b, c⟩ := p
  cases a <;> cases b <;> cases c <;> simp [PatOK, PosOK, Vocab.pat, hV.term]

theorem vocab_tripleOK (V : Vocab) (ns : List (Str × Str)) (hV : VocabOK V ns) (t : Triple) :
    TripleOK (V.triple t) = true := by
  simp [TripleOK, Vocab.triple, hV.term]

theorem wTripleDot_ok (t : TTriple) (h : TripleOK t = true) : ∃ tt, wTripleDot t = some tt := by
  have : PatOK (some t.1, some t.2.1, some t.2.2) = true := by simpa [PatOK, PosOK, TripleOK] using h
  obtain ⟨b, hb⟩ := wPatBody_ok _ this
  exact ⟨b ++ [' ', '.'], by simp [wTripleDot, hb]⟩

theorem optAll_ok : ∀ (ts : List TTriple), (∀ t ∈ ts, TripleOK t = true) → ∃ tts, optAll (ts.map wTripleDot) = some tts
  | [], _ => ⟨[], rfl⟩
  | t :: ts, h => by
    obtain ⟨tt, ht⟩ := wTripleDot_ok t (h t (List.mem_cons_self ..))
    obtain ⟨tts, hts⟩ := optAll_ok ts (fun x hx => h x (List.mem_cons_of_mem _ hx))
    exact ⟨tt :: tts, by simp [optAll, ht, hts]⟩

/-! ### lengths (the reader's fuel is the length of the text) -/

theorem length_joinWith_ge (sp : Str) : ∀ (xs : List Str), (∀ x ∈ xs, 1 ≤ x.length) → xs.length ≤ (joinWith sp xs).length
  | [], _ => by simp [joinWith]
  | [a], h => by simpa [joinWith] using h a (List.mem_cons_self ..)
  | a :: b :: r, h => by
    have ih := length_joinWith_ge sp (b :: r) (fun x hx => h x (List.mem_cons_of_mem _ hx))
    have ha := h a (List.mem_cons_self ..)
    simp only [joinWith, List.length_append, List.length_cons] at ih ⊢
    omega

theorem length_le_joinWith (sp : Str) : ∀ (xs : List Str) (x : Str), x ∈ xs → x.length ≤ (joinWith sp xs).length
  | [a], x, h => by
    have hx : x = a := by simpa using h
    subst hx; simp [joinWith]
  | a :: b :: r, x, h => by
    rcases List.mem_cons.mp h with rfl | h'
    · simp [joinWith]
    · have ih := length_le_joinWith sp (b :: r) x h'
      simp only [joinWith, List.length_append] at ih ⊢
      omega

theorem wTripleDot_len (t : TTriple) (tt : Str) (h : wTripleDot t = some tt) : 1 ≤ tt.length := by
  simp only [wTripleDot, Option.map_eq_some_iff] at h
  obtain ⟨b, _, hb⟩ := h
  rw [← hb]; simp

theorem optAll_len : ∀ (ts : List TTriple) (tts : List Str), optAll (ts.map wTripleDot) = some tts →
    tts.length = ts.length ∧ ∀ x ∈ tts, 1 ≤ x.length
  | [], tts, h => by
    simp only [List.map_nil, optAll, Option.some.injEq] at h
    subst h; exact ⟨rfl, by simp⟩
  | t :: ts, tts, h => by
    obtain ⟨a, as, h1, h2, h3⟩ := optAll_cons h
    subst h3
    obtain ⟨i1, i2⟩ := optAll_len ts as h2
    refine ⟨by simp [i1], ?_⟩
    intro x hx
    rcases List.mem_cons.mp hx with rfl | hx
    · exact wTripleDot_len t _ h1
    · exact i2 x hx

theorem prologue_len (ns : List (Str × Str)) : ns.length ≤ (wPrologue ns).length := by
  cases ns with
  | nil => simp
  | cons kv ns =>
    rw [wPrologue_eq _ (by simp)]
    have := length_joinWith_ge ['\n'] ((kv :: ns).map prefixLine) (by
      intro x hx
      obtain ⟨y, _, rfl⟩ := List.mem_map.mp hx
      simp [prefixLine])
    simp only [List.length_map, List.length_append] at this ⊢
    omega

/-! ### each queued string denotes its operations -/

theorem single_edit (txt : Str) (u : TUOp) (h : ∀ F, txt.length + 1 ≤ F → OpText txt u F) : EditText txt [u] :=
  ⟨[(txt, u)], by simp, by simp [joinWith], rfl, by
    intro c hc F hF
    simp only [List.mem_cons, List.not_mem_nil, or_false] at hc
    subst hc; exact h F hF⟩

theorem wIri_ok (g : Str) (h : iriOK g = true) : wIri g = some ('<' :: g ++ ['>']) := wTerm_iri g h

theorem add_edit (g : Option Str) (t : TTriple) (txt : Str) (hg : GraphOK g = true) (ht : TripleOK t = true)
    (h : wAdd g t = some txt) : EditText txt [.insertData g [t]] := by
  obtain ⟨tt, htt⟩ := wTripleDot_ok t ht
  have hw : optAll ([t].map wTripleDot) = some [tt] := by simp [optAll, htt]
  have hok : ∀ x ∈ [t], TripleOK x = true := by simpa using ht
  apply single_edit
  intro F hF
  cases g with
  | none =>
    simp only [wAdd, htt, Option.some.injEq] at h
    refine insertText_reads none [t] [tt] [] F (by simp) hg hw hok ?_ (Or.inl rfl) txt (by simp [joinWith, ← h])
    rw [← h] at hF; simp at hF ⊢; omega
  | some gn =>
    have hgi : iriOK gn = true := by simpa [GraphOK] using hg
    simp only [wAdd, htt, wIri_ok gn hgi, Option.map_some, Option.some.injEq] at h
    refine insertText_reads (some gn) [t] [tt] [] F (by simp) hg hw hok ?_ (Or.inl rfl) txt (by simp [joinWith, ← h])
    rw [← h] at hF; simp at hF ⊢; omega

theorem addN_edit (g : Option Str) (ts : List TTriple) (txt : Str) (hne : ts ≠ []) (hg : GraphOK g = true)
    (hts : ∀ t ∈ ts, TripleOK t = true) (h : wAddN g ts = some txt) : EditText txt [.insertData g ts] := by
  obtain ⟨tts, hw⟩ := optAll_ok ts hts
  obtain ⟨hl, hlen⟩ := optAll_len ts tts hw
  have hjl := length_joinWith_ge ['\n'] tts hlen
  apply single_edit
  intro F hF
  cases g with
  | none =>
    simp only [wAddN, hw, Option.some.injEq] at h
    refine insertText_reads none ts tts ['\n'] F hne hg hw hts ?_ (Or.inr rfl) txt (by simp [← h])
    rw [← h] at hF; simp at hF; omega
  | some gn =>
    have hgi : iriOK gn = true := by simpa [GraphOK] using hg
    simp only [wAddN, hw, wIri_ok gn hgi, Option.map_some, Option.some.injEq] at h
    refine insertText_reads (some gn) ts tts ['\n'] F hne hg hw hts ?_ (Or.inr rfl) txt (by simp [← h])
    rw [← h] at hF; simp at hF; omega

theorem removeOne_edit (g : Option Str) (p : TPatT) (txt : Str) (hg : GraphOK g = true) (hp : PatOK p = true)
    (h : wRemoveOne g p = some txt) : EditText txt [.deleteWhere g p] := by
  obtain ⟨body, hb⟩ := wPatBody_ok p hp
  apply single_edit
  intro F _
  cases g with
  | none =>
    simp only [wRemoveOne, wPatDot, hb, Option.map_some, Option.some.injEq] at h
    rw [← h]; exact removeDefault_reads p body F hb hp
  | some gn =>
    have hgi : iriOK gn = true := by simpa [GraphOK] using hg
    simp only [wRemoveOne, wPatDot, hb, wIri_ok gn hgi, Option.map_some, Option.some.injEq] at h
    rw [← h]; exact removeWith_reads gn p body F hgi hb hp

theorem removeAll_edit (p : TPatT) (txt : Str) (hp : PatOK p = true) (h : wRemoveAll p = some txt) :
    EditText txt [.deleteWhere none p, .deleteNamed p] := by
  obtain ⟨body, hb⟩ := wPatBody_ok p hp
  simp only [wRemoveAll, wPatDot, hb, Option.map_some, Option.some.injEq] at h
  let t1 : Str := "DELETE { ".toList ++ (body ++ [' ', '.']) ++ " } WHERE { ".toList ++ (body ++ [' ', '.']) ++ " } ".toList
  let t2 : Str := "DELETE { GRAPH ?G { ".toList ++ (body ++ [' ', '.']) ++ " } } WHERE { GRAPH ?G { ".toList ++
    (body ++ [' ', '.']) ++ " } } ".toList
  refine ⟨[(t1, .deleteWhere none p), (t2, .deleteNamed p)], by simp, ?_, rfl, ?_⟩
  · rw [← h]
    simp [joinWith, sep, t1, t2]
  · intro c hc F _
    simp only [List.mem_cons, List.not_mem_nil, or_false] at hc
    rcases hc with rfl | rfl
    · exact removeDefault_reads p body F hb hp
    · exact removeNamed_reads p body F hb hp

theorem drop_edit (ns : List (Str × Str)) (g : Option Str) (txt : Str) (hns : ∀ kv ∈ ns, PrefixOK kv = true)
    (hg : GraphOK g = true) (h : wDrop ns g = some txt) : EditText txt [.dropGraph g] := by
  apply single_edit
  intro F hF
  have hpl := prologue_len ns
  cases g with
  | none =>
    simp only [wDrop, Option.some.injEq] at h
    rw [← h] at hF ⊢
    exact dropDefault_reads ns F (by simp at hF; omega) hns
  | some gn =>
    have hgi : iriOK gn = true := by simpa [GraphOK] using hg
    simp only [wDrop, wIri_ok gn hgi, Option.map_some, Option.some.injEq] at h
    rw [← h] at hF ⊢
    have := dropGraph_reads ns gn F (by simp at hF; omega) hns hgi
    simpa [List.append_assoc] using this

theorem create_edit (ns : List (Str × Str)) (g : Str) (txt : Str) (hns : ∀ kv ∈ ns, PrefixOK kv = true)
    (hg : iriOK g = true) (h : wCreate ns g = some txt) : EditText txt [.createGraph g] := by
  apply single_edit
  intro F hF
  have hpl := prologue_len ns
  simp only [wCreate, wIri_ok g hg, Option.map_some, Option.some.injEq] at h
  rw [← h] at hF ⊢
  have := createGraph_reads ns g F (by simp at hF; omega) hns hg
  simpa [List.append_assoc] using this

/-! ### an edit string reads back; a joined request reads back as the sequence -/

theorem opText_nonempty {txt : Str} {u : TUOp} {F : Nat} (h : OpText txt u F) : 1 ≤ txt.length := by
  obtain ⟨c, r, e, _⟩ := h.head
  rw [e]; simp

theorem joinWith_flatten (sp : Str) : ∀ (ls : List (List Str)), (∀ l ∈ ls, l ≠ []) →
    joinWith sp (ls.map (joinWith sp)) = joinWith sp ls.flatten
  | [], _ => rfl
  | [l], _ => by simp [joinWith]
  | l :: l2 :: ls, h => by
    have ih := joinWith_flatten sp (l2 :: ls) (fun x hx => h x (List.mem_cons_of_mem _ hx))
    have hl2 : (l2 :: ls).flatten ≠ [] := by
      have := h l2 (List.mem_cons_of_mem _ (List.mem_cons_self ..))
      cases l2 with
      | nil => exact absurd rfl this
      | cons a as => simp
    have happ : ∀ (a b : List Str), a ≠ [] → b ≠ [] → joinWith sp (a ++ b) = joinWith sp a ++ sp ++ joinWith sp b := by
      intro a
      induction a with
      | nil => intro b ha; exact absurd rfl ha
      | cons x xs ihx =>
        intro b _ hb
        cases xs with
        | nil =>
          cases b with
          | nil => exact absurd rfl hb
          | cons y ys => simp [joinWith]
        | cons x2 xs2 =>
          have := ihx b (by simp) hb
          simp only [List.cons_append, joinWith] at this ⊢
          rw [this]; simp [List.append_assoc]
    have e1 : joinWith sp ((l :: l2 :: ls).map (joinWith sp)) =
        joinWith sp l ++ sp ++ joinWith sp ((l2 :: ls).map (joinWith sp)) := by simp [joinWith]
    rw [e1, ih]
    have e2 : (l :: l2 :: ls).flatten = l ++ (l2 :: ls).flatten := rfl
    rw [e2, happ l _ (h l (List.mem_cons_self ..)) hl2]

/-- the text sent for a list of edit strings reads back as their operations, in order -/
theorem readRequest_edits (q : List (Str × List TUOp)) (hne : q ≠ []) (hq : ∀ e ∈ q, EditText e.1 e.2) :
    readRequest (joinEdits (q.map (·.1))) = some (q.flatMap (·.2)) := by
  -- choose the operation texts of every edit
  have hch : ∀ e ∈ q, ∃ cs : List (Str × TUOp), cs ≠ [] ∧ e.1 = joinWith sep (cs.map (·.1)) ∧ e.2 = cs.map (·.2) ∧
      ∀ c ∈ cs, ∀ F, c.1.length + 1 ≤ F → OpText c.1 c.2 F := hq
  have key : ∀ (q : List (Str × List TUOp)), (∀ e ∈ q, EditText e.1 e.2) →
      ∃ css : List (List (Str × TUOp)), css.length = q.length ∧ (∀ cs ∈ css, cs ≠ []) ∧
        q.map (·.1) = css.map (fun cs => joinWith sep (cs.map (·.1))) ∧
        q.flatMap (·.2) = css.flatten.map (·.2) ∧
        ∀ c ∈ css.flatten, ∀ F, c.1.length + 1 ≤ F → OpText c.1 c.2 F := by
    intro q
    induction q with
    | nil => intro _; exact ⟨[], rfl, by simp, rfl, rfl, by simp⟩
    | cons e q ih =>
      intro h
      obtain ⟨css, h1, h2, h3, h4, h5⟩ := ih (fun x hx => h x (List.mem_cons_of_mem _ hx))
      obtain ⟨cs, g1, g2, g3, g4⟩ := h e (List.mem_cons_self ..)
      refine ⟨cs :: css, by simp [h1], ?_, ?_, ?_, ?_⟩
      · intro x hx
        rcases List.mem_cons.mp hx with rfl | hx
        · exact g1
        · exact h2 x hx
      · simp [g2, h3]
      · simp [g3, h4]
      · intro c hc
        simp only [List.flatten_cons, List.mem_append] at hc
        rcases hc with hc | hc
        · exact g4 c hc
        · exact h5 c hc
  obtain ⟨css, h1, h2, h3, h4, h5⟩ := key q hq
  have hcss : css ≠ [] := by
    intro e; subst e; simp at h1; exact hne (List.eq_nil_of_length_eq_zero h1.symm)
  have hflat : css.flatten ≠ [] := by
    cases css with
    | nil => exact absurd rfl hcss
    | cons a as =>
      have := h2 a (List.mem_cons_self ..)
      cases a with
      | nil => exact absurd rfl this
      | cons x xs => simp
  have htext : joinEdits (q.map (·.1)) = joinWith sep (css.flatten.map (·.1)) := by
    rw [h3]
    have := joinWith_flatten sep (css.map (fun cs => cs.map (·.1))) (by
      intro l hl
      obtain ⟨cs, hcs, rfl⟩ := List.mem_map.mp hl
      have := h2 cs hcs
      cases cs with
      | nil => exact absurd rfl this
      | cons x xs => simp)
    simp only [List.map_map] at this
    rw [joinEdits, show sep = ['\n', ';', '\n'] from rfl] at *
    rw [show (List.map (fun cs => joinWith ['\n', ';', '\n'] (List.map (fun x => x.fst) cs)) css) =
      List.map (joinWith ['\n', ';', '\n'] ∘ fun cs => List.map (fun x => x.fst) cs) css from rfl, this]
    simp [List.map_flatten]
  rw [htext, h4]
  unfold readRequest
  refine readOps_seq css.flatten _ _ hflat ?_ ?_
  · intro c hc
    apply h5 c hc
    have := length_le_joinWith sep (css.flatten.map (·.1)) c.1 (List.mem_map.mpr ⟨c, hc, rfl⟩)
    omega
  · have := length_joinWith_ge sep (css.flatten.map (·.1)) (by
      intro x hx
      obtain ⟨c, hc, rfl⟩ := List.mem_map.mp hx
      exact opText_nonempty (h5 c hc _ (Nat.le_refl _)))
    simp only [List.length_map] at this
    omega

end RV.C20
