import RV.C20.TextModel
/-
  C20 text layer, lemmas 7: `writeEdits` (the strings of one write call) against `compileWrite`
  (the operations of the state-machine model).
-/
namespace RV.C20

theorem graphOK_vocab (V : Vocab) (ns : List (Str × Str)) (hV : VocabOK V ns) (g : GName) : GraphOK (V.g g) = true := by
  cases g with
  | none => rfl
  | some n => simpa [Vocab.g, GraphOK] using hV.graph n

theorem wAdd_ok (g : Option Str) (t : TTriple) (hg : GraphOK g = true) (ht : TripleOK t = true) :
    ∃ txt, wAdd g t = some txt := by
  obtain ⟨tt, htt⟩ := wTripleDot_ok t ht
  cases g with
  | none => simp only [wAdd, htt, Option.map_some]; exact ⟨_, rfl⟩
  | some gn => simp only [wAdd, htt, wIri_ok gn (by simpa [GraphOK] using hg), Option.map_some]; exact ⟨_, rfl⟩

theorem wAddN_ok (g : Option Str) (ts : List TTriple) (hg : GraphOK g = true) (hts : ∀ t ∈ ts, TripleOK t = true) :
    ∃ txt, wAddN g ts = some txt := by
  obtain ⟨tts, hw⟩ := optAll_ok ts hts
  cases g with
  | none => simp only [wAddN, hw, Option.map_some]; exact ⟨_, rfl⟩
  | some gn => simp only [wAddN, hw, wIri_ok gn (by simpa [GraphOK] using hg), Option.map_some]; exact ⟨_, rfl⟩

theorem wRemoveOne_ok (g : Option Str) (p : TPatT) (hg : GraphOK g = true) (hp : PatOK p = true) :
    ∃ txt, wRemoveOne g p = some txt := by
  obtain ⟨b, hb⟩ := wPatBody_ok p hp
  cases g with
  | none => simp only [wRemoveOne, wPatDot, hb, Option.map_some]; exact ⟨_, rfl⟩
  | some gn => simp only [wRemoveOne, wPatDot, hb, wIri_ok gn (by simpa [GraphOK] using hg), Option.map_some]; exact ⟨_, rfl⟩

theorem wRemoveAll_ok (p : TPatT) (hp : PatOK p = true) : ∃ txt, wRemoveAll p = some txt := by
  obtain ⟨b, hb⟩ := wPatBody_ok p hp
  simp only [wRemoveAll, wPatDot, hb, Option.map_some]; exact ⟨_, rfl⟩

theorem wDrop_ok (ns : List (Str × Str)) (g : Option Str) (hg : GraphOK g = true) : ∃ txt, wDrop ns g = some txt := by
  cases g with
  | none => exact ⟨_, rfl⟩
  | some gn => simp only [wDrop, wIri_ok gn (by simpa [GraphOK] using hg), Option.map_some]; exact ⟨_, rfl⟩

theorem wCreate_ok (ns : List (Str × Str)) (g : Str) (hg : iriOK g = true) : ∃ txt, wCreate ns g = some txt :=
  by simp only [wCreate, wIri_ok g hg, Option.map_some]; exact ⟨_, rfl⟩

/-- the per-group strings of `addN` -/
theorem addN_groups (V : Vocab) (ns : List (Str × Str)) (hV : VocabOK V ns) :
    ∀ (gs : List (GName × List Triple)), (∀ gt ∈ gs, gt.2 ≠ []) →
    ∃ txts, optAll (gs.map fun gt => wAddN (V.g gt.1) (gt.2.map V.triple)) = some txts ∧
      txts.length = (gs.map fun gt => [UOp.insertData gt.1 gt.2]).length ∧
      ∀ pr ∈ txts.zip (gs.map fun gt => [UOp.insertData gt.1 gt.2]), EditText pr.1 (pr.2.map (UOp.toText V))
  | [], _ => ⟨[], rfl, rfl, by simp⟩
  | gt :: gs, hne => by
    obtain ⟨txts, h1, h2, h3⟩ := addN_groups V ns hV gs (fun x hx => hne x (List.mem_cons_of_mem _ hx))
    have hts : ∀ t ∈ gt.2.map V.triple, TripleOK t = true := by
      intro t ht
      obtain ⟨x, _, rfl⟩ := List.mem_map.mp ht
      exact vocab_tripleOK V ns hV x
    have hg := graphOK_vocab V ns hV gt.1
    obtain ⟨txt, htxt⟩ := wAddN_ok (V.g gt.1) (gt.2.map V.triple) hg hts
    have hed := addN_edit (V.g gt.1) (gt.2.map V.triple) txt
      (by simpa using hne gt (List.mem_cons_self ..)) hg hts htxt
    refine ⟨txt :: txts, by simp [optAll, htxt, h1], by simp [h2], ?_⟩
    intro pr hpr
    simp only [List.map_cons, List.zip_cons_cons, List.mem_cons] at hpr
    rcases hpr with rfl | hpr
    · simpa [UOp.toText] using hed
    · exact h3 pr hpr

/-- the strings a (non-`update`) write call queues exist whenever the call is not refused, one per
    queued edit, and each denotes the operations of that edit -/
theorem writeEdits_correct (V : Vocab) (ns : List (Str × Str)) (hV : VocabOK V ns) (hook : Bool) (w : Write)
    (hw : w.textual = true) (es : List (List UOp)) (hc : compileWrite hook w = some es) :
    ∃ txts, writeEdits V ns hook w = some txts ∧ txts.length = es.length ∧
      ∀ pr ∈ txts.zip es, EditText pr.1 (pr.2.map (UOp.toText V)) := by
  cases w with
  | add t g =>
    simp only [compileWrite, Option.map_eq_some_iff] at hc
    obtain ⟨t', ht', rfl⟩ := hc
    obtain ⟨txt, htxt⟩ := wAdd_ok (V.g g) (V.triple t') (graphOK_vocab V ns hV g) (vocab_tripleOK V ns hV t')
    refine ⟨[txt], by simp [writeEdits, ht', htxt], rfl, ?_⟩
    intro pr hpr
    simp only [List.zip_cons_cons, List.zip_nil_right, List.mem_cons, List.not_mem_nil, or_false] at hpr
    subst hpr
    simpa [UOp.toText] using add_edit (V.g g) (V.triple t') txt (graphOK_vocab V ns hV g) (vocab_tripleOK V ns hV t') htxt
  | addN qs =>
    simp only [compileWrite, Option.map_eq_some_iff] at hc
    obtain ⟨qs', hq', rfl⟩ := hc
    obtain ⟨txts, h1, h2, h3⟩ := addN_groups V ns hV (groups qs') (groups_nonempty qs')
    exact ⟨txts, by simp [writeEdits, hq', h1], h2, h3⟩
  | remove p sel =>
    cases sel with
    | one g =>
      simp only [compileWrite, Option.map_eq_some_iff] at hc
      obtain ⟨p', hp', rfl⟩ := hc
      obtain ⟨txt, htxt⟩ := wRemoveOne_ok (V.g g) (V.pat p') (graphOK_vocab V ns hV g) (vocab_patOK V ns hV p')
      refine ⟨[txt], by simp [writeEdits, hp', htxt], rfl, ?_⟩
      intro pr hpr
      simp only [List.zip_cons_cons, List.zip_nil_right, List.mem_cons, List.not_mem_nil, or_false] at hpr
      subst hpr
      simpa [UOp.toText] using removeOne_edit (V.g g) (V.pat p') txt (graphOK_vocab V ns hV g) (vocab_patOK V ns hV p') htxt
    | all =>
      simp only [compileWrite, Option.map_eq_some_iff] at hc
      obtain ⟨p', hp', rfl⟩ := hc
      obtain ⟨txt, htxt⟩ := wRemoveAll_ok (V.pat p') (vocab_patOK V ns hV p')
      refine ⟨[txt], by simp [writeEdits, hp', htxt], rfl, ?_⟩
      intro pr hpr
      simp only [List.zip_cons_cons, List.zip_nil_right, List.mem_cons, List.not_mem_nil, or_false] at hpr
      subst hpr
      simpa [UOp.toText, Vocab.g] using removeAll_edit (V.pat p') txt (vocab_patOK V ns hV p') htxt
  | removeGraph g =>
    simp only [compileWrite, Option.some.injEq] at hc
    subst hc
    obtain ⟨txt, htxt⟩ := wDrop_ok ns (V.g g) (graphOK_vocab V ns hV g)
    refine ⟨[txt], by simp [writeEdits, htxt], rfl, ?_⟩
    intro pr hpr
    simp only [List.zip_cons_cons, List.zip_nil_right, List.mem_cons, List.not_mem_nil, or_false] at hpr
    subst hpr
    simpa [UOp.toText] using drop_edit ns (V.g g) txt hV.ns (graphOK_vocab V ns hV g) htxt
  | addGraph n =>
    simp only [compileWrite, Option.some.injEq] at hc
    subst hc
    obtain ⟨txt, htxt⟩ := wCreate_ok ns (V.graph n) (hV.graph n)
    refine ⟨[txt], by simp [writeEdits, htxt], rfl, ?_⟩
    intro pr hpr
    simp only [List.zip_cons_cons, List.zip_nil_right, List.mem_cons, List.not_mem_nil, or_false] at hpr
    subst hpr
    simpa [UOp.toText] using create_edit ns (V.graph n) txt hV.ns (hV.graph n) htxt
  | update g us => simp [Write.textual] at hw

/-- one edit string read on its own -/
theorem readRequest_edit (txt : Str) (us : List TUOp) (h : EditText txt us) : readRequest txt = some us := by
  have := readRequest_edits [(txt, us)] (by simp) (by
    intro e he
    simp only [List.mem_cons, List.not_mem_nil, or_false] at he
    subst he; exact h)
  simpa [joinEdits, joinWith] using this

/-- the texts in `_edits` after a list of write calls (refused calls queue nothing) -/
def queueTexts (V : Vocab) (ns : List (Str × Str)) (hook : Bool) : List Write → Option (List Str)
  | [] => some []
  | w :: ws =>
    match compileWrite hook w with
    | none => queueTexts V ns hook ws
    | some _ => (writeEdits V ns hook w).bind fun a => (queueTexts V ns hook ws).map (a ++ ·)

theorem queue_pairs (V : Vocab) (ns : List (Str × Str)) (hV : VocabOK V ns) (hook : Bool) :
    ∀ (ws : List Write), (∀ w ∈ ws, w.textual = true) →
    ∃ txts, queueTexts V ns hook ws = some txts ∧ txts.length = (ws.flatMap (queuedBy hook)).length ∧
      ∀ pr ∈ txts.zip (ws.flatMap (queuedBy hook)), EditText pr.1 (pr.2.map (UOp.toText V))
  | [], _ => ⟨[], rfl, rfl, by simp⟩
  | w :: ws, h => by
    obtain ⟨txts, h1, h2, h3⟩ := queue_pairs V ns hV hook ws (fun x hx => h x (List.mem_cons_of_mem _ hx))
    cases hc : compileWrite hook w with
    | none =>
      refine ⟨txts, by simp [queueTexts, hc, h1], ?_, ?_⟩
      · simp [List.flatMap_cons, queuedBy, hc, h2]
      · simpa [List.flatMap_cons, queuedBy, hc] using h3
    | some es =>
      obtain ⟨a, g1, g2, g3⟩ := writeEdits_correct V ns hV hook w (h w (List.mem_cons_self ..)) es hc
      refine ⟨a ++ txts, by simp [queueTexts, hc, g1, h1], ?_, ?_⟩
      · simp [List.flatMap_cons, queuedBy, hc, g2, h2]
      · intro pr hpr
        simp only [List.flatMap_cons, queuedBy, hc] at hpr
        rw [List.zip_append g2] at hpr
        rcases List.mem_append.mp hpr with hp | hp
        · exact g3 pr hp
        · exact h3 pr (by simpa [queuedBy] using hp)

/-- what `commit` sends for the queue of a list of write calls reads back as the queue, in order -/
theorem commit_text_reads (V : Vocab) (ns : List (Str × Str)) (hV : VocabOK V ns) (hook : Bool) (ws : List Write)
    (hw : ∀ w ∈ ws, w.textual = true) :
    ∃ txts, queueTexts V ns hook ws = some txts ∧ txts.length = (ws.flatMap (queuedBy hook)).length ∧
      (txts ≠ [] → readRequest (joinEdits txts) =
        some ((ws.flatMap (queuedBy hook)).flatten.map (UOp.toText V))) := by
  obtain ⟨txts, h1, h2, h3⟩ := queue_pairs V ns hV hook ws hw
  refine ⟨txts, h1, h2, ?_⟩
  intro hne
  let Q := (ws.flatMap (queuedBy hook)).map (fun e => e.map (UOp.toText V))
  let q := txts.zip Q
  have hlen : txts.length = Q.length := by simp [Q, h2]
  have hq1 : q.map (·.1) = txts := List.map_fst_zip (by omega)
  have hq2 : q.map (·.2) = Q := List.map_snd_zip (by omega)
  have hqne : q ≠ [] := by
    intro e
    have : (q.map (·.1)) = [] := by rw [e]; rfl
    rw [hq1] at this; exact hne this
  have hed : ∀ e ∈ q, EditText e.1 e.2 := by
    intro e he
    obtain ⟨i, hi, rfl⟩ := List.mem_iff_getElem.mp he
    have hi1 : i < txts.length := by
      have : i < (txts.zip Q).length := hi
      rw [List.length_zip] at this; exact Nat.lt_of_lt_of_le this (Nat.min_le_left ..)
    have hi2 : i < (ws.flatMap (queuedBy hook)).length := by rw [← h2]; exact hi1
    have hm : (txts[i], (ws.flatMap (queuedBy hook))[i]) ∈ txts.zip (ws.flatMap (queuedBy hook)) := by
      refine List.mem_iff_getElem.mpr ⟨i, ?_, ?_⟩
      · rw [List.length_zip]; exact Nat.lt_min.mpr ⟨hi1, hi2⟩
      · rw [List.getElem_zip]
    have := h3 _ hm
    simpa [q, Q] using this
  have := readRequest_edits q hqne hed
  rw [hq1] at this
  rw [this]
  congr 1
  have : q.flatMap (·.2) = (q.map (·.2)).flatten := by simp [List.flatMap_def]
  rw [this, hq2]
  simp [Q, List.map_flatten]

end RV.C20
