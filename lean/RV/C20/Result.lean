/-
  C20 — RESULT DECODING: what the store's result parsers (`rdflib/plugins/sparql/results/jsonresults.py`:
  `JSONResultParser` / `JSONResult` / `parseJsonTerm`; `xmlresults.py`: `XMLResult` / `parseTerm`) make of the document
  a SPARQL endpoint answers, at the level of the parsed JSON value / XML element tree (the text level below —
  `json.loads`, expat — is library code and is not modelled here).

  The parser side is COPIED from property C16's model (lean/RV/C16/Model.lean, same functions, same branch structure:
  `mkLiteral`, `parseJsonTerm`, `ofJson`, `parseXmlTerm`, `ofXml`, the `ResultRow` alignment `alignDict`); the writer
  side here is not rdflib's serializer but the SPECIFICATION of what an endpoint sends: the W3C "SPARQL 1.1 Query Results
  JSON Format" / "SPARQL Query Results XML Format" document of a solution sequence (`wireJson`, `wireXml`) — which is
  also what the loop-back endpoint of the harness writes (harness/c20_endpoint.py `results_json` / `results_xml`).
  Everything lives in the namespace `RV.C20.Res` (own `Term` with blank nodes: an endpoint may answer them).
-/
namespace RV.C20.Res

abbrev Str := List Char


inductive Term where
  | iri (s : Str)
  | bnode (s : Str)
  | plain (lex : Str)
  | typed (lex dt : Str)
  | lang (lex tag : Str)
  deriving DecidableEq, Repr

abbrev Cell := Option Term
abbrev Row := List Cell

inductive Result where
  | select (vars : List Str) (rows : List Row)
  | ask (b : Bool)
  deriving DecidableEq, Repr

/-- exceptions as values -/
inductive Err where
  | parse        -- pyparsing ParseException / expat ParseError
  | key          -- KeyError
  | type         -- TypeError
  | value        -- ValueError
  | notImpl      -- NotImplementedError
  | result       -- ResultException
  | index        -- IndexError
  | attr         -- AttributeError
  | unmodelled   -- input outside what the model covers (never produced by a writer)
  deriving DecidableEq, Repr

/-! ### Characters and small grammars shared by the readers -/

def inR (c : Char) (lo hi : Nat) : Bool := lo ≤ c.toNat && c.toNat ≤ hi

def isDigit (c : Char) : Bool := inR c 0x30 0x39
def isAlpha (c : Char) : Bool := inR c 0x41 0x5A || inR c 0x61 0x7A
def isAlnum (c : Char) : Bool := isAlpha c || isDigit c


/-- `str.split(sep)` for a one-character separator: always at least one piece -/
def splitOn (sep : Char) : Str → List Str
  | [] => [[]]
  | c :: cs =>
    if c = sep then [] :: splitOn sep cs
    else match splitOn sep cs with
      | [] => [[c]]            -- unreachable
      | p :: ps => (c :: p) :: ps

def nonemptyAll (p : Char → Bool) (s : Str) : Bool := !s.isEmpty && s.all p

/-- `^[a-zA-Z]+(?:-[a-zA-Z0-9]+)*$` : `term._lang_tag_regex` and the body of [145] LANGTAG -/
def validLang (s : Str) : Bool :=
  match splitOn '-' s with
  | [] => false
  | h :: t => nonemptyAll isAlpha h && t.all (nonemptyAll isAlnum)

/-- `rdflib.term.Literal.__new__` as far as it concerns identity (see the header on normalisation) -/
def mkLiteral (lex : Str) (dt : Option Str) (lang : Option Str) : Except Err Term :=
  let lang := match lang with
    | some [] => none            -- `if lang == "": lang = None`
    | l => l
  match lang, dt with
  | some _, some _ => .error .type
  | some l, none => if validLang l then .ok (.lang lex l) else .error .value
  | none, some d => .ok (.typed lex d)
  | none, none => .ok (.plain lex)

/-- `dict.get` on an association list -/
def alookup {β : Type} (k : Str) : List (Str × β) → Option β
  | [] => none
  | (k', v) :: r => if k' = k then some v else alookup k r

/-- the observation `[row.get(v) for v in vars]` of a binding dict -/
def alignDict (vars : List Str) (d : List (Str × Term)) : Row := vars.map (fun v => alookup v d)

/-- a binding dict of an aligned row: bound variables only -/
def bindingPairs : List Str → Row → List (Str × Term)
  | v :: vs, some t :: cs => (v, t) :: bindingPairs vs cs
  | _ :: vs, none :: cs => bindingPairs vs cs
  | _, _ => []

/-! ### JSON (tree level) -/

inductive Json where
  | null
  | bool (b : Bool)
  | num                                  -- any number: never written, not interpreted
  | str (s : Str)
  | arr (xs : List Json)
  | obj (kvs : List (Str × Json))

def kType : Str := "type".toList
def kValue : Str := "value".toList
def kUri : Str := "uri".toList
def kLiteral : Str := "literal".toList
def kTypedLiteral : Str := "typed-literal".toList
def kBnode : Str := "bnode".toList
def kDatatype : Str := "datatype".toList
def kXmlLang : Str := "xml:lang".toList
def kHead : Str := "head".toList
def kVars : Str := "vars".toList
def kBoolean : Str := "boolean".toList
def kResults : Str := "results".toList
def kBindings : Str := "bindings".toList

/-- one RDF term of a W3C JSON results document (`xml:lang` xor `datatype`) -/
def termToJson : Term → Json
  | .iri s => .obj [(kType, .str kUri), (kValue, .str s)]
  | .plain s => .obj [(kType, .str kLiteral), (kValue, .str s)]
  | .typed s d => .obj [(kType, .str kLiteral), (kValue, .str s), (kDatatype, .str d)]
  | .lang s l => .obj [(kType, .str kLiteral), (kValue, .str s), (kXmlLang, .str l)]
  | .bnode s => .obj [(kType, .str kBnode), (kValue, .str s)]

/-- one solution: bound variables only -/
def bindingToJson : List Str → Row → List (Str × Json)
  | v :: vs, some t :: cs => (v, termToJson t) :: bindingToJson vs cs
  | _ :: vs, none :: cs => bindingToJson vs cs
  | _, _ => []

/-- the W3C JSON results document of a solution sequence / a boolean -/
def wireJson : Result → Json
  | .ask b => .obj [(kHead, .obj []), (kBoolean, .bool b)]
  | .select vars rows =>
    .obj [(kHead, .obj [(kVars, .arr (vars.map .str))]),
          (kResults, .obj [(kBindings, .arr (rows.map (fun r => .obj (bindingToJson vars r))))])]

/-- a JSON value used where rdflib expects a string (`URIRef(x)`, `Literal(x)`, `Variable(x)`) -/
def jStr : Json → Except Err Str
  | .str s => .ok s
  | _ => .error .unmodelled

/-- `d.get(key)` used as an optional string -/
def jOptStr : Option Json → Except Err (Option Str)
  | none => .ok none
  | some .null => .ok none
  | some (.str s) => .ok (some s)
  | some _ => .error .unmodelled

/-- `parseJsonTerm` -/
def parseJsonTerm : Json → Except Err Term
  | .obj d =>
    match alookup kType d with
    | none => .error .key
    | some (.str t) =>
      if t = kUri then
        match alookup kValue d with
        | none => .error .key
        | some v => (jStr v).map .iri
      else if t = kLiteral then
        match alookup kValue d with
        | none => .error .key
        | some v =>
          match jStr v, jOptStr (alookup kDatatype d), jOptStr (alookup kXmlLang d) with
          | .ok s, .ok dt, .ok lg => mkLiteral s dt lg
          | .error e, _, _ => .error e
          | _, .error e, _ => .error e
          | _, _, .error e => .error e
      else if t = kTypedLiteral then
        match alookup kValue d, alookup kDatatype d with
        | some v, some dt =>
          match jStr v, jStr dt with
          | .ok s, .ok d' => mkLiteral s (some d') none
          | .error e, _ => .error e
          | _, .error e => .error e
        | _, _ => .error .key
      else if t = kBnode then
        match alookup kValue d with
        | none => .error .key
        | some v => (jStr v).map .bnode
      else .error .notImpl
    | some _ => .error .notImpl
  | _ => .error .type

/-- one row of `JSONResult._get_bindings` -/
def parseJsonBinding : List (Str × Json) → Except Err (List (Str × Term))
  | [] => .ok []
  | (k, v) :: r =>
    match parseJsonTerm v with
    | .error e => .error e
    | .ok t =>
      match parseJsonBinding r with
      | .error e => .error e
      | .ok d => .ok ((k, t) :: d)

def parseJsonRows : List Json → Except Err (List (List (Str × Term)))
  | [] => .ok []
  | .obj kvs :: r =>
    match parseJsonBinding kvs with
    | .error e => .error e
    | .ok d =>
      match parseJsonRows r with
      | .error e => .error e
      | .ok ds => .ok (d :: ds)
  | _ :: _ => .error .attr

def jStrs : List Json → Except Err (List Str)
  | [] => .ok []
  | j :: r =>
    match jStr j with
    | .error e => .error e
    | .ok s =>
      match jStrs r with
      | .error e => .error e
      | .ok ss => .ok (s :: ss)

/-- `JSONResult.__init__`, observed as an aligned table -/
def ofJson : Json → Except Err Result
  | .obj top =>
    match alookup kBoolean top with
    | some (.bool x) => .ok (.ask x)
    | some _ => .error .unmodelled
    | none =>
      match alookup kResults top with
      | none => .error .result
      | some (.obj rd) =>
        match alookup kBindings rd with
        | some (.arr rows) =>
          match parseJsonRows rows with
          | .error e => .error e
          | .ok ds =>
            match alookup kHead top with
            | some (.obj hd) =>
              match alookup kVars hd with
              | some (.arr vs) =>
                match jStrs vs with
                | .error e => .error e
                | .ok vars => .ok (.select vars (ds.map (alignDict vars)))
              | some _ => .error .unmodelled
              | none => .error .key
            | some _ => .error .type
            | none => .error .key
        | some _ => .error .unmodelled
        | none => .error .key
      | some _ => .error .type
  | _ => .error .unmodelled

/-! ### XML (tree level; tags of the SPARQL results namespace are written by their local name) -/

inductive Xml where
  | node (tag : Str) (attrs : List (Str × Str)) (text : Str) (kids : List Xml)

def Xml.tag : Xml → Str | .node t _ _ _ => t
def Xml.attrs : Xml → List (Str × Str) | .node _ a _ _ => a
def Xml.text : Xml → Str | .node _ _ x _ => x
def Xml.kids : Xml → List Xml | .node _ _ _ k => k

def tSparql : Str := "sparql".toList
def tHead : Str := "head".toList
def tVariable : Str := "variable".toList
def tBoolean : Str := "boolean".toList
def tResults : Str := "results".toList
def tResult : Str := "result".toList
def tBinding : Str := "binding".toList
def tUri : Str := "uri".toList
def tBnode : Str := "bnode".toList
def tLiteral : Str := "literal".toList
def aName : Str := "name".toList
def aDatatype : Str := "datatype".toList
def aXmlLang : Str := "xml:lang".toList
def sTrue : Str := "true".toList
def sFalse : Str := "false".toList

/-- one RDF term of a W3C XML results document (an empty datatype IRI is not written) -/
def termToXml : Term → Xml
  | .iri s => .node tUri [] s []
  | .bnode s => .node tBnode [] s []
  | .plain s => .node tLiteral [] s []
  | .typed s d => if d = [] then .node tLiteral [] s [] else .node tLiteral [(aDatatype, d)] s []
  | .lang s l => .node tLiteral [(aXmlLang, l)] s []

def bindingToXml : List Str → Row → List Xml
  | v :: vs, some t :: cs => .node tBinding [(aName, v)] [] [termToXml t] :: bindingToXml vs cs
  | _ :: vs, none :: cs => bindingToXml vs cs
  | _, _ => []

def headXml (vars : List Str) : Xml :=
  .node tHead [] [] (vars.map (fun v => .node tVariable [(aName, v)] [] []))

/-- the W3C XML results document of a solution sequence / a boolean, as an element tree -/
def wireXml : Result → Xml
  | .ask b => .node tSparql [] [] [headXml [], .node tBoolean [] (if b then sTrue else sFalse) []]
  | .select vars rows =>
    .node tSparql [] [] [headXml vars,
      .node tResults [] [] (rows.map (fun r => .node tResult [] [] (bindingToXml vars r)))]

/-- `parseTerm` (ElementTree gives `None` for an empty text) -/
def truthy : Option Str → Option Str
  | some [] => none
  | o => o

def parseXmlTerm (e : Xml) : Except Err Term :=
  if e.tag = tLiteral then
    match truthy (alookup aDatatype e.attrs) with
    | some d => mkLiteral e.text (some d) none
    | none =>
      match truthy (alookup aXmlLang e.attrs) with
      | some l => mkLiteral e.text none (some l)
      | none => mkLiteral e.text none none
  else if e.tag = tUri then
    if e.text = [] then .error .type else .ok (.iri e.text)       -- `URIRef(None)`
  else if e.tag = tBnode then
    if e.text = [] then .error .unmodelled else .ok (.bnode e.text) -- `BNode(None)` is a fresh node
  else .error .type

/-- the bindings of one `<result>` -/
def parseXmlBindings : List Xml → Except Err (List (Str × Term))
  | [] => .ok []
  | b :: r =>
    if b.tag = tBinding then
      match alookup aName b.attrs, b.kids with
      | _, [] => .error .index
      | none, _ :: _ => .error .unmodelled      -- `Variable(None)`
      | some v, k :: _ =>
        match parseXmlTerm k with
        | .error e => .error e
        | .ok t =>
          match parseXmlBindings r with
          | .error e => .error e
          | .ok d => .ok ((v, t) :: d)
    else parseXmlBindings r

/-- (two `<binding>`s for one variable in one `<result>` are not modelled: Python's dict keeps the
    later one; no writer produces that) -/
def parseXmlResults : List Xml → Except Err (List (List (Str × Term)))
  | [] => .ok []
  | x :: r =>
    if x.tag = tResult then
      match parseXmlBindings x.kids with
      | .error e => .error e
      | .ok d =>
        match parseXmlResults r with
        | .error e => .error e
        | .ok ds => .ok (d :: ds)
    else parseXmlResults r

def findTag (t : Str) : List Xml → Option Xml
  | [] => none
  | x :: r => if x.tag = t then some x else findTag t r

/-- `findall("./head/variable")` -/
def headVars : List Xml → Except Err (List Str)
  | [] => .ok []
  | x :: r =>
    if x.tag = tVariable then
      match alookup aName x.attrs with
      | none => .error .unmodelled
      | some v =>
        match headVars r with
        | .error e => .error e
        | .ok vs => .ok (v :: vs)
    else headVars r

def allHeadVars : List Xml → Except Err (List Str)
  | [] => .ok []
  | x :: r =>
    if x.tag = tHead then
      match headVars x.kids with
      | .error e => .error e
      | .ok vs =>
        match allHeadVars r with
        | .error e => .error e
        | .ok ws => .ok (vs ++ ws)
    else allHeadVars r

/-- Python `str.strip()`/`lower()` on the ASCII text of `<boolean>` -/
def pySpace (c : Char) : Bool :=
  inR c 0x09 0x0D || inR c 0x1C 0x20 || c.toNat == 0x85 || c.toNat == 0xA0 || c.toNat == 0x1680
  || inR c 0x2000 0x200A || c.toNat == 0x2028 || c.toNat == 0x2029 || c.toNat == 0x202F
  || c.toNat == 0x205F || c.toNat == 0x3000

/-- `str.rstrip()` -/
def stripEnd : Str → Str
  | [] => []
  | c :: cs =>
    match stripEnd cs with
    | [] => if pySpace c then [] else [c]
    | r => c :: r

/-- `str.strip()` -/
def pyStrip (s : Str) : Str := stripEnd (s.dropWhile pySpace)

def asciiLower (c : Char) : Char := if inR c 0x41 0x5A then Char.ofNat (c.toNat + 32) else c

/-- `XMLResult.__init__`, observed as an aligned table -/
def ofXml (root : Xml) : Except Err Result :=
  match findTag tBoolean root.kids, findTag tResults root.kids with
  | some b, _ =>
    if b.text = [] then .error .attr
    else .ok (.ask (pyStrip (b.text.map asciiLower) == sTrue))
  | none, some res =>
    match parseXmlResults res.kids with
    | .error e => .error e
    | .ok ds =>
      match allHeadVars root.kids with
      | .error e => .error e
      | .ok vars => .ok (.select vars (ds.map (alignDict vars)))
  | none, none => .error .result

/-! ### the terms of the quantifier -/

/-- a term rdflib can hold: the language tag of a tagged literal matches `_lang_tag_regex` -/
def langOk : Term → Bool
  | .lang _ l => validLang l
  | _ => true

/-- a term the XML form can carry at tree level: legal language tag, non-empty IRI / label / datatype -/
def xmlTermOk : Term → Bool
  | .iri s => !s.isEmpty
  | .bnode s => !s.isEmpty
  | .plain _ => true
  | .typed _ d => !d.isEmpty
  | .lang _ l => validLang l

end RV.C20.Res
