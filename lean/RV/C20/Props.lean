import RV.C20.Refine
import RV.C20.Pattern
import RV.C20.Reads
/-
  C20 — property theorems (statements first, as `def … : Prop`, then the proofs).

  "A graph backed by a SPARQL endpoint mirrors and updates the endpoint faithfully."

  Proved here, for EVERY history: the queue / visibility state machine of `SPARQLUpdateStore`
  and the row → triple decoding of `SPARQLStore.triples`, about the model of RV/C20/Model.lean,
  against the specification of RV/C20/Spec.lean.  NOT proved (claim: partial): that the request
  TEXT the store generates denotes the `UOp` / pattern of the model, and HTTP transport — both
  are tied to the implementation by the correspondence run against the loop-back endpoint.
  The quantifier is "terms of every kind except unsupported blank nodes": `Op.plain`.
-/
namespace RV.C20

/-! ### Statements -/

/-- autocommit: after ANY history the endpoint holds exactly what a local dataset holds after
    the same writes (add, addN, remove with wildcards, remove_graph, Dataset.graph, update), and
    nothing is left in the queue. -/
def Statement_remote_mirrors : Prop :=
  ∀ (d0 : DS) (dirty hook : Bool) (ops : List Op), (∀ op ∈ ops, op.plain = true) →
    DS.Equiv ((Remote.init d0 true dirty hook false).run ops).ep (Spec.runWrites d0 (writesOf ops)) ∧
    ((Remote.init d0 true dirty hook false).run ops).edits = []

/-- does this operation make queued writes visible (autocommit off)? -/
def flushes (r : Remote) : Op → Bool
  | .commit => true
  | .read _ => !r.dirtyReads
  | _ => false

/-- autocommit off.  (1) one step changes the endpoint only if it is `commit` or a read while
    dirty reads are not allowed, and then the endpoint becomes the result of executing the
    queued requests IN ORDER and the queue is empty;  (2) for every history the endpoint is
    the `visible` dataset of the visibility specification and the queued requests, executed
    in order, mean exactly the pending writes applied in order to a local dataset. -/
def Statement_deferred_visibility : Prop :=
  (∀ (r : Remote) (op : Op), r.autocommit = false → r.readOnly = false →
      (flushes r op = false → (r.step op).1.ep = r.ep) ∧
      (flushes r op = true → (r.step op).1.ep = applyEdits r.ep r.edits ∧ (r.step op).1.edits = [])) ∧
  (∀ (d0 : DS) (dirty hook : Bool) (ops : List Op), (∀ op ∈ ops, op.plain = true) →
      let r := (Remote.init d0 false dirty hook false).run ops
      let s := SpecD.run false dirty ⟨d0, []⟩ ops
      DS.Equiv r.ep s.visible ∧
      DS.Equiv (applyEdits r.ep r.edits) (Spec.runWrites s.visible s.pending))

/-- `rollback()` discards exactly the uncommitted writes: whatever was written since the last
    commit (supported or refused), after `rollback` the client is in the very state it had
    right after that commit — the committed writes stay, the queue is empty, and a further
    `commit` sends nothing. -/
def Statement_rollback_discards_exactly_uncommitted : Prop :=
  ∀ (r : Remote) (ws : List Write), r.autocommit = false → r.readOnly = false →
    r.run (.commit :: ws.map Op.write ++ [.rollback]) = r.run [.commit] ∧
    (r.run (.commit :: ws.map Op.write ++ [.rollback, .commit])).ep = r.commit.ep

/-- with dirty reads a read neither sends the queue nor sees it: the answer is computed from the
    endpoint's content alone and the client state is unchanged. -/
def Statement_dirty_read_sees_old : Prop :=
  ∀ (r : Remote) (rd : Read), r.autocommit = false → r.dirtyReads = true → r.readOnly = false →
    r.step (.read rd) = (r, readOut r.hook r.ep rd)

/-- what `commit()` sends is the whole queue — every request string queued by every write since
    the last boundary, in call order and WITH multiplicity (a write issued twice is sent twice):
    after writes `ws` the queue is the old queue followed by `queuedBy` of each write in order,
    and `commit` executes exactly that sequence on the endpoint and empties the queue. -/
def Statement_commit_sends_whole_queue_in_order : Prop :=
  ∀ (r : Remote) (ws : List Write), r.autocommit = false → r.readOnly = false →
    (r.run (ws.map Op.write)).edits = r.edits ++ ws.flatMap (queuedBy r.hook) ∧
    ((r.run (ws.map Op.write)).step .commit).1.ep =
      applyEdits r.ep (r.edits ++ ws.flatMap (queuedBy r.hook)) ∧
    ((r.run (ws.map Op.write)).step .commit).1.edits = []

def Statement_commit_idempotent : Prop := ∀ (r : Remote), r.commit.commit = r.commit

/-- a write that `node_to_sparql` refuses (a blank node without the hook) leaves endpoint and
    queue untouched -/
def Statement_refused_write_no_effect : Prop :=
  ∀ (r : Remote) (w : Write), compileWrite r.hook w = none → (r.step (.write w)).1 = r

/-- the query generated for a pattern and the decoding of its answer: the selected variables
    are exactly the unbound positions (none twice); the query is an ASK exactly when nothing is
    unbound; a solution row rebuilds the triple it came from (the `urn:undef:` fallback is never
    taken); and the triples yielded are exactly the matching triples of the addressed graph —
    for a fully bound pattern: the pattern itself iff it is in the graph. -/
def Statement_pattern_query_shape : Prop :=
  (∀ (p : TPat) (x : Pos), x ∈ selVars p ↔ p.at x = none) ∧
  (∀ (p : TPat), (selVars p).Nodup) ∧
  (∀ (p : TPat), selVars p = [] ↔ (unwrapPat p).isSome = true) ∧
  (∀ (p : TPat) (t : Triple), p.matches t = true → rebuild p (project p t) = some t) ∧
  (∀ (d : DS) (g : GName) (p : TPat) (t : Triple),
      t ∈ triplesOut d g p p ↔ ((t, g) ∈ d.quads ∧ p.matches t = true))

/-- reads return exactly what the endpoint's dataset contains, after ANY history and in every
    configuration: the endpoint never holds a quad twice, so `len` (the number of rows of the
    addressed graph) counts every triple of that graph once; `triples` yields exactly the matching
    triples of the addressed graph; membership answers whether there is one; `contexts(t)` lists
    exactly the recorded named graphs holding `t`, `contexts()` all recorded named graphs. -/
def Statement_reads_exact : Prop :=
  ∀ (d0 : DS) (ac dirty hook : Bool) (ops : List Op), d0.quads.Nodup →
    let d := ((Remote.init d0 ac dirty hook false).run ops).ep
    d.quads.Nodup ∧
    (∀ g, readOut hook d (.len g) = .num (graphTriples d g).length ∧ (graphTriples d g).Nodup ∧
        ∀ t, t ∈ graphTriples d g ↔ (t, g) ∈ d.quads) ∧
    (∀ g p, p.plain = true → ∃ ts, readOut hook d (.triples p g) = .triples ts ∧
        ∀ t, t ∈ ts ↔ ((t, g) ∈ d.quads ∧ p.matches t = true)) ∧
    (∀ g p, p.plain = true → ∃ b, readOut hook d (.contains p g) = .bool b ∧
        (b = true ↔ ∃ t, (t, g) ∈ d.quads ∧ p.matches t = true)) ∧
    (∀ t, t.plain = true → ∃ ns, readOut hook d (.contexts (some t)) = .names ns ∧
        ∀ n, n ∈ ns ↔ (n ∈ d.graphs ∧ (t, some n) ∈ d.quads)) ∧
    readOut hook d (.contexts none) = .names d.graphs

/-! ### Proofs -/

theorem reads_exact : Statement_reads_exact := by
  intro d0 ac dirty hook ops h0
  have hn := nodup_run ops (Remote.init d0 ac dirty hook false) h0
  exact ⟨hn, fun g => ⟨rfl, nodup_graphTriples g _ hn, mem_graphTriples _ g⟩,
    fun g p hp => triples_exact hook _ g p hp, fun g p hp => contains_exact hook _ g p hp,
    fun t ht => contexts_exact hook _ t ht, rfl⟩

theorem remote_mirrors : Statement_remote_mirrors := by
  intro d0 dirty hook ops hp
  have h := sim_run ops _ _ (sim_init d0 true dirty hook) rfl hp
  refine ⟨?_, run_autocommit_edits ops _ rfl rfl⟩
  have hv := h.vis
  simp only [Remote.init] at hv
  rw [specD_autocommit] at hv
  exact hv

theorem deferred_visibility : Statement_deferred_visibility := by
  constructor
  · intro r op hac hro
    cases op with
    | write w =>
      refine ⟨fun _ => ?_, fun h => by simp [flushes] at h⟩
      simp only [Remote.step, hro, Bool.false_eq_true, if_false]
      split
      · rfl
      · simp [Remote.enqueue, hac]
    | commit =>
      refine ⟨fun h => by simp [flushes] at h, fun _ => ?_⟩
      simp [Remote.step, hro]
    | rollback =>
      refine ⟨fun _ => ?_, fun h => by simp [flushes] at h⟩
      simp [Remote.step, hro, Remote.rollback]
    | read rd =>
      constructor
      · intro h
        simp only [flushes, Bool.not_eq_false'] at h
        simp [Remote.step, hro, Remote.preRead, hac, h]
      · intro h
        simp only [flushes, Bool.not_eq_true'] at h
        simp [Remote.step, hro, Remote.preRead, hac, h]
  · intro d0 dirty hook ops hp
    have h := sim_run ops _ _ (sim_init d0 false dirty hook) rfl hp
    exact ⟨h.vis, h.pend _ _ h.vis⟩

theorem rollback_discards_exactly_uncommitted : Statement_rollback_discards_exactly_uncommitted := by
  intro r ws hac hro
  have key := rollback_after_writes r ws hac hro
  constructor
  · rw [key, run_cons, step_commit hro]; rfl
  · have : (Op.commit :: ws.map Op.write ++ [.rollback, .commit]) =
        (Op.commit :: ws.map Op.write ++ [.rollback]) ++ [.commit] := by simp
    rw [this, run_append, key, run_cons, step_commit (by simp [hro]), commit_commit]; rfl

/-- NO IMPLICIT FLUSH: with autocommit off a transaction of ANY length (1 000, 1 024, 4 096 … writes) stays queued —
    the endpoint is untouched until `commit()` / a non-dirty read, and `rollback()` then discards all of it.  (The store
    has no batch size: `_transaction()` only returns the list.) -/
def Statement_long_transaction_stays_queued : Prop :=
  ∀ (r : Remote) (ws : List Write), r.autocommit = false → r.readOnly = false →
    (r.run (ws.map Op.write)).ep = r.ep ∧
    (r.run (ws.map Op.write)).edits.length = r.edits.length + (ws.flatMap (queuedBy r.hook)).length ∧
    (r.run (ws.map Op.write ++ [.rollback])).ep = r.ep ∧ (r.run (ws.map Op.write ++ [.rollback])).edits = []

theorem long_transaction_stays_queued : Statement_long_transaction_stays_queued := by
  intro r ws hac hro
  have h := run_writes_edits ws r hac hro
  refine ⟨by rw [h], by rw [h]; simp, ?_, ?_⟩
  · rw [run_append, h, run_cons, step_rollback (by exact hro)]; rfl
  · rw [run_append, h, run_cons, step_rollback (by exact hro)]; rfl

/-- `add_graph` keeps NO memory of graphs it created: whatever happened before (the creation rolled back, the graph
    dropped by a caller's `DROP GRAPH`, by another client …) the call queues `CREATE GRAPH <g>` again, and after
    create / rollback / create / commit the (empty) graph exists at the endpoint. -/
def Statement_add_graph_resends_create : Prop :=
  (∀ (hook : Bool) (n : Nat), compileWrite hook (.addGraph n) = some [[.createGraph n]]) ∧
  (∀ (r : Remote) (n : Nat), r.autocommit = false → r.readOnly = false →
    n ∈ (r.run [.commit, .write (.addGraph n), .rollback, .write (.addGraph n), .commit]).ep.graphs) ∧
  (∀ (r : Remote) (n : Nat), r.autocommit = false → r.readOnly = false →
    n ∈ (r.run [.write (.addGraph n), .write (.removeGraph (some n)), .write (.addGraph n), .commit]).ep.graphs)

theorem add_graph_resends_create : Statement_add_graph_resends_create := by
  refine ⟨fun _ _ => rfl, ?_, ?_⟩
  · intro r n hac hro
    have key := (rollback_discards_exactly_uncommitted r [.addGraph n] hac hro).1
    have e : ([.commit, .write (.addGraph n), .rollback, .write (.addGraph n), .commit] : List Op) =
        (Op.commit :: [Write.addGraph n].map Op.write ++ [.rollback]) ++ [.write (.addGraph n), .commit] := rfl
    have hc : r.run [.commit] = r.commit := by rw [run_cons, step_commit hro]; rfl
    rw [e, run_append, key, hc]
    have hro' : r.commit.readOnly = false := by rw [commit_eq]; exact hro
    have hac' : r.commit.autocommit = false := by simp [hac]
    have h := run_writes_edits [.addGraph n] r.commit hac' hro'
    have e2 : ([.write (.addGraph n), .commit] : List Op) = [Write.addGraph n].map Op.write ++ [.commit] := rfl
    rw [e2, run_append, h, run_cons, step_commit (by exact hro')]
    simp [Remote.run, queuedBy, compileWrite, applyEdits, applyOps, UOp.apply]
  · intro r n hac hro
    have h := run_writes_edits [.addGraph n, .removeGraph (some n), .addGraph n] r hac hro
    have e2 : ([.write (.addGraph n), .write (.removeGraph (some n)), .write (.addGraph n), .commit] : List Op) =
        [Write.addGraph n, .removeGraph (some n), .addGraph n].map Op.write ++ [.commit] := rfl
    rw [e2, run_append, h, run_cons, step_commit (by exact hro)]
    simp [Remote.run, queuedBy, compileWrite, applyEdits, applyOps, UOp.apply]

theorem dirty_read_sees_old : Statement_dirty_read_sees_old := by
  intro r rd hac hd hro
  simp [Remote.step, Remote.preRead, hac, hd, hro]

theorem commit_idempotent : Statement_commit_idempotent := commit_commit

theorem commit_sends_whole_queue_in_order : Statement_commit_sends_whole_queue_in_order := by
  intro r ws hac hro
  rw [run_writes_edits ws r hac hro]
  have hro' : ({ r with edits := r.edits ++ ws.flatMap (queuedBy r.hook) } : Remote).readOnly = false := hro
  refine ⟨rfl, ?_, ?_⟩
  · rw [step_commit hro', commit_ep]
  · rw [step_commit hro', commit_edits]

/-- why multiplicity matters: add / remove / add of one triple queues the same request text twice;
    sending each distinct text once (first occurrence kept) loses the second add -/
theorem dedup_would_lose_a_write :
    let es := [.add (1, 10, 20) none, .remove (some 1, some 10, some 20) (.one none),
               .add (1, 10, 20) none].flatMap (queuedBy false)
    ((1, 10, 20), none) ∈ (applyEdits ⟨[], []⟩ es).quads ∧
    ((1, 10, 20), none) ∉ (applyEdits ⟨[], []⟩ es.eraseDups).quads := by decide

theorem refused_write_no_effect : Statement_refused_write_no_effect := by
  intro r w h
  simp only [Remote.step, h]
  split <;> rfl

theorem pattern_query_shape : Statement_pattern_query_shape :=
  ⟨mem_selVars, selVars_nodup, selVars_nil_iff, rebuild_project, mem_triplesOut⟩

/-! ### Non-vacuity: concrete histories that exercise every branch -/

/-- endpoint: one triple in the default graph, one in graph 90, an empty recorded graph 91 -/
def exD : DS := ⟨[((1, 10, 20), none), ((1, 10, 21), some 90)], [90, 91]⟩

def exOps : List Op :=
  [.write (.add (2, 10, 20) (some 91)),
   .write (.addN [((3, 10, 20), some 92), ((3, 10, 21), none), ((3, 11, 21), some 92)]),
   .read (.len none),
   .write (.remove (some 1, none, none) .all),
   .write (.update (some 90) [.ins [(5, 5, 5)], .delw (none, some 10, none)]),
   .rollback,
   .write (.removeGraph (some 92)),
   .write (.add (900, 10, 20) none),      -- blank node: refused
   .commit]

/-- the same history without the blank-node write: the hypothesis of the theorems is satisfiable by a
    non-trivial history, and the theorems apply to it -/
def exPlain : List Op := exOps.filter (fun o => o.plain)

example : exPlain.length = 8 ∧ ∀ op ∈ exPlain, op.plain = true := by decide

example : DS.Equiv ((Remote.init exD true false false false).run exPlain).ep
    (Spec.runWrites exD (writesOf exPlain)) :=
  (remote_mirrors exD false false exPlain (by decide)).1

example : (writesOf exPlain).length = 5 ∧
    (Spec.runWrites exD (writesOf exPlain)).quads.length = 3 := by decide

/-- autocommit off, no dirty reads: the `len` flushes the first two writes, the rollback discards
    the next two, the commit sends the last one; the refused write changes nothing -/
example :
    ((Remote.init exD false false false false).run exOps).ep =
      ⟨[((1, 10, 20), none), ((1, 10, 21), some 90), ((2, 10, 20), some 91), ((3, 10, 21), none)],
       [90, 91]⟩ := by decide

/-- the same history with dirty reads: the `len` does not flush, so the rollback also discards
    the first two writes -/
example :
    ((Remote.init exD false true false false).run exOps).ep =
      ⟨[((1, 10, 20), none), ((1, 10, 21), some 90)], [90, 91]⟩ := by decide

/-- autocommit: everything (except the refused write) reaches the endpoint at once -/
example :
    ((Remote.init exD true false false false).run exOps).ep =
      ⟨[((2, 10, 20), some 91), ((3, 10, 21), none), ((5, 5, 5), some 90)], [90, 91]⟩ := by decide

/-- queue contents before a commit: `addN` queues one request per graph, `remove` without a
    context one request with two operations -/
example :
    ((Remote.init exD false true false false).run (exOps.take 4)).edits =
      [[.insertData (some 91) [(2, 10, 20)]],
       [.insertData (some 92) [(3, 10, 20), (3, 11, 21)]], [.insertData none [(3, 10, 21)]],
       [.deleteWhere none (some 1, none, none), .deleteNamed (some 1, none, none)]] := by decide

/-- reads: pattern shapes, ASK-like membership, contexts -/
example : readOut false exD (.triples (some 1, none, none) (some 90)) = .triples [(1, 10, 21)] := by decide
example : readOut false exD (.triples (some 1, some 10, some 20) none) = .triples [(1, 10, 20)] := by decide
example : readOut false exD (.triples (some 1, some 10, some 20) (some 90)) = .triples [] := by decide
example : readOut false exD (.contexts (some (1, 10, 21))) = .names [90] := by decide
example : readOut false exD (.triples (some 900, none, none) none) = .err .refused := by decide
example : selVars (none, some 10, none) = [.s, .o] ∧ project (none, some 10, none) (1, 10, 21) = [1, 21] := by
  decide

end RV.C20
