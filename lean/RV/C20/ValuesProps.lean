import RV.C20.RewriteProps
import RV.C20.TextQuery
/-
  C20 — `query(initBindings=…)`: the `VALUES` block the store appends reads back as the one-row
  table, after the query it was appended to.
-/
namespace RV.C20

def nameOK (v : Str) : Bool := !v.isEmpty && v.all isNameChar

/-- the bindings the store can spell: variable names, terms `n3()` can write (a blank node makes
    `node_to_sparql` raise before anything is sent: it never reaches the text) -/
def BindsOK (bs : List (Str × TTerm)) : Bool :=
  bs.all (fun b => nameOK b.1 && TermOK b.2) && !bs.isEmpty && decide (bs.length ≤ 8)

theorem spanName_append : ∀ (v r : Str), v.all isNameChar = true → spanName (v ++ ' ' :: r) = (v, ' ' :: r)
  | [], r, _ => by simp [spanName, nameChar_sp]
  | c :: v, r, h => by
    simp only [List.all_cons, Bool.and_eq_true] at h
    simp [spanName, h.1, spanName_append v r h.2]

theorem readVars_names : ∀ (ns : List Str) (n : Nat) (r : Str), ns.length ≤ n → (∀ v ∈ ns, nameOK v = true) →
    readVarsAux n (ns.flatMap (fun v => ' ' :: '?' :: v) ++ ' ' :: ')' :: r) = (ns, ' ' :: ')' :: r)
  | [], n, r, _, _ => by
    cases n with
    | zero => rfl
    | succ n => simp [readVarsAux, ws_sp, ws_cons ')' r (by decide) (by decide)]
  | v :: ns, n, r, h, hok => by
    obtain ⟨m, rfl⟩ : ∃ m, n = m + 1 := ⟨n - 1, by simp at h; omega⟩
    have ih := readVars_names ns m r (by simp at h; omega) (fun x hx => hok x (List.mem_cons_of_mem _ hx))
    have hv := hok v (List.mem_cons_self ..)
    simp only [nameOK, Bool.and_eq_true, Bool.not_eq_true', List.isEmpty_eq_false_iff] at hv
    -- what follows the name starts with a blank
    obtain ⟨tl, htl⟩ : ∃ tl, ns.flatMap (fun v => ' ' :: '?' :: v) ++ ' ' :: ')' :: r = ' ' :: tl := by
      cases ns with
      | nil => exact ⟨_, rfl⟩
      | cons v2 ns2 => exact ⟨_, rfl⟩
    have e : (v :: ns).flatMap (fun v => ' ' :: '?' :: v) ++ ' ' :: ')' :: r = ' ' :: '?' :: (v ++ ' ' :: tl) := by
      simp only [List.flatMap_cons, List.cons_append, List.append_assoc, htl]
    rw [e]
    have hs := spanName_append v tl hv.2
    rw [htl] at ih
    match v, hv, hs with
    | c :: v', _, hs =>
      simp only [readVarsAux, ws_sp, ws_qm, hs, ih]

theorem readTerm_close (r : Str) : readTerm (' ' :: ')' :: r) = none := by
  simp [readTerm, readNode, ws_sp, ws_cons ')' r (by decide) (by decide)]

theorem readTerms_written : ∀ (ts : List TTerm) (txts : List Str) (n : Nat) (r : Str), ts.length ≤ n →
    optAll (ts.map wTerm) = some txts → (∀ t ∈ ts, TermOK t = true) →
    readTerms n (txts.flatMap (fun x => ' ' :: x) ++ ' ' :: ')' :: r) = (ts, ' ' :: ')' :: r)
  | [], txts, n, r, _, hw, _ => by
    simp only [List.map_nil, optAll, Option.some.injEq] at hw
    subst hw
    cases n with
    | zero => rfl
    | succ n => simp [readTerms, readTerm_close]
  | t :: ts, txts, n, r, h, hw, hok => by
    obtain ⟨m, rfl⟩ : ∃ m, n = m + 1 := ⟨n - 1, by simp at h; omega⟩
    obtain ⟨a, as, h1, h2, h3⟩ := optAll_cons hw
    subst h3
    have ih := readTerms_written ts as m r (by simp at h; omega) h2 (fun x hx => hok x (List.mem_cons_of_mem _ hx))
    have ht := hok t (List.mem_cons_self ..)
    have hrd : ∀ rest, readTerm (' ' :: (a ++ ' ' :: rest)) = some (t, ' ' :: rest) := by
      intro rest
      rw [readTerm_sp]
      exact readTerm_of_readNode (readNode_term t a rest h1 ht)
    simp only [List.flatMap_cons, List.cons_append, List.append_assoc]
    cases as with
    | nil =>
      simp only [List.flatMap_nil, List.nil_append] at ih ⊢
      simp only [readTerms, hrd, ih]
    | cons a2 as2 =>
      simp only [List.flatMap_cons, List.cons_append, List.append_assoc] at ih ⊢
      simp only [readTerms, hrd, ih]

theorem zip_fst_snd : ∀ (bs : List (Str × TTerm)), (bs.map (·.1)).zip (bs.map (·.2)) = bs
  | [] => rfl
  | b :: bs => by simp [zip_fst_snd bs]

theorem kw_VALUES (r : Str) : kw "VALUES" ('\n' :: 'V' :: 'A' :: 'L' :: 'U' :: 'E' :: 'S' :: ' ' :: r) = some (' ' :: r) := by
  rw [kw_nl]; simp [kw, stripCI, ws, skip, isWs, upperChar, isNameChar, isAlpha, isDigit]

/-- the written `VALUES` block, as the tail of a query -/
theorem readTailB_values (bs : List (Str × TTerm)) (vtxt : Str) (hok : BindsOK bs = true)
    (hw : wValues bs = some vtxt) : readTailB vtxt = some ((none, none, none), bs) := by
  simp only [BindsOK, Bool.and_eq_true, Bool.not_eq_true', List.isEmpty_eq_false_iff, decide_eq_true_eq,
    List.all_eq_true] at hok
  obtain ⟨⟨hall, hne⟩, hlen⟩ := hok
  simp only [wValues, Option.map_eq_some_iff] at hw
  obtain ⟨txts, htx, rfl⟩ := hw
  have hnames : ∀ v ∈ bs.map (·.1), nameOK v = true := by
    intro v hv; obtain ⟨b, hb, rfl⟩ := List.mem_map.mp hv; exact (hall b hb).1
  have hterms : ∀ t ∈ bs.map (·.2), TermOK t = true := by
    intro t ht; obtain ⟨b, hb, rfl⟩ := List.mem_map.mp ht; exact (hall b hb).2
  have htx' : optAll ((bs.map (·.2)).map wTerm) = some txts := by rw [List.map_map]; exact htx
  have hl : txts.length = bs.length := by
    have : ∀ (ts : List TTerm) (txts : List Str), optAll (ts.map wTerm) = some txts → txts.length = ts.length := by
      intro ts
      induction ts with
      | nil => intro txts h; simp [optAll] at h; subst h; rfl
      | cons t ts ih =>
        intro txts h
        obtain ⟨a, as, _, h2, h3⟩ := optAll_cons h
        subst h3; simp [ih as h2]
    simpa using this _ _ htx'
  have hne1 : bs.map (fun b => '?' :: b.1) ≠ [] := by simpa using hne
  have hne2 : txts ≠ [] := by
    intro e; subst e; simp at hl; exact hne (List.eq_nil_of_length_eq_zero hl.symm)
  -- the text in the reader's normal form
  have e : ("\nVALUES ( ".toList ++ joinWith [' '] (bs.map (fun b => '?' :: b.1)) ++ " )\n{ ( ".toList ++
      joinWith [' '] txts ++ " ) }\n".toList : Str) =
      '\n' :: 'V' :: 'A' :: 'L' :: 'U' :: 'E' :: 'S' :: ' ' :: '(' ::
        ((bs.map (·.1)).flatMap (fun v => ' ' :: '?' :: v) ++ ' ' :: ')' :: ('\n' :: '{' :: ' ' :: '(' ::
          (txts.flatMap (fun x => ' ' :: x) ++ ' ' :: ')' :: [' ', '}', '\n']))) := by
    have s1 := sp_joinWith (bs.map (fun b => '?' :: b.1)) hne1
    have s2 := sp_joinWith txts hne2
    simp only [List.flatMap_map] at s1
    have e1 : "\nVALUES ( ".toList = '\n' :: 'V' :: 'A' :: 'L' :: 'U' :: 'E' :: 'S' :: ' ' :: '(' :: [' '] := by decide
    have e2 : " )\n{ ( ".toList = ' ' :: ')' :: '\n' :: '{' :: ' ' :: '(' :: [' '] := by decide
    have e3 : " ) }\n".toList = [' ', ')', ' ', '}', '\n'] := by decide
    rw [e1, e2, e3]
    simp only [List.cons_append, List.nil_append, List.append_assoc, List.flatMap_map]
    rw [← s1, ← s2]
    simp
  rw [e]
  have hrv := readVars_names (bs.map (·.1)) 8 ('\n' :: '{' :: ' ' :: '(' ::
      (txts.flatMap (fun x => ' ' :: x) ++ ' ' :: ')' :: [' ', '}', '\n'])) (by simpa using hlen) hnames
  have hrt := readTerms_written (bs.map (·.2)) txts 8 [' ', '}', '\n'] (by simpa using hlen) htx' hterms
  have hV : ∀ k k0 ks r, k.toList = k0 :: ks → k0 ≠ 'V' → kw k ('\n' :: 'V' :: r) = none := by
    intro k k0 ks r hk hne
    rw [kw_nl]
    exact kw_none_head k k0 ks hk 'V' r (by decide) (by decide) (by simpa [upperChar] using fun e => hne e.symm)
  simp only [readTailB, readModifiersR, hV "ORDER" 'O' "RDER".toList _ (by decide) (by decide),
    hV "LIMIT" 'L' "IMIT".toList _ (by decide) (by decide), hV "OFFSET" 'O' "FFSET".toList _ (by decide) (by decide),
    Option.bind_some, readValues, kw_VALUES, sym_sp, sym_here '(' _ (by decide) (by decide), hrv,
    sym_here ')' _ (by decide) (by decide), sym_nl, sym_here '{' _ (by decide) (by decide), hrt,
    sym_here '}' _ (by decide) (by decide)]
  simp [zip_fst_snd, ws, skip, isWs]

theorem optDot_brace (T : Str) : optDot (' ' :: '}' :: T) = ' ' :: '}' :: T := by
  simp [optDot, sym, ws_sp, ws_cons '}' T (by decide) (by decide)]

/-- the store's pattern query followed by any tail the tail reader accepts -/
theorem readQueryB_triples (p : TPatT) (txt T : Str) (m : Option Pos × Option Nat × Option Nat)
    (bs : List (Str × TTerm)) (hok : PatOK p = true) (h : wTriplesQuery p none none none = some txt)
    (hT : readTailB T = some (m, bs)) :
    readQueryB (txt ++ T) = some (.triples p m.1 m.2.1 m.2.2, bs) := by
  simp only [wTriplesQuery] at h
  cases hb : wPatBody posVarLower p with
  | none => simp [hb] at h
  | some body =>
    simp only [hb, Option.some.injEq] at h
    have hq := readQPat_write p body ('}' :: T) hb hok
    by_cases hv : selVars (shapeOf p) = []
    · -- ASK
      have hvn : varNames p = [] := by rw [varNames_eq, hv]; rfl
      have e : txt ++ T = 'A' :: 'S' :: 'K' :: ' ' :: '{' :: ' ' :: (body ++ ' ' :: '}' :: T) := by
        rw [← h]; simp [shapeOf] at hv; simp [shapeOf, hv]
      rw [e]
      have hpre : ∀ r, kw "PREFIX" ('A' :: r) = none := fun r =>
        kw_none_head "PREFIX" 'P' "REFIX".toList (by decide) 'A' r (by decide) (by decide) (by decide)
      simp only [readQueryB, skipPrologue_id _ _ (hpre _), kw_ASK,
        kw_brace_none "WHERE" 'W' "HERE".toList (by decide) (by decide),
        sym_sp, sym_here '{' _ (by decide) (by decide), Option.bind_some, hq, hvn, List.isEmpty_nil, if_true,
        optDot_brace, sym_here '}' _ (by decide) (by decide), hT, Option.map_some]
    · -- SELECT
      have hvn : varNames p = (selVars (shapeOf p)).map (fun pos => [posName false pos]) := varNames_eq p
      have hne0 : (selVars (shapeOf p)).map posVarLower ≠ [] := by simpa using hv
      have e : txt ++ T = 'S' :: 'E' :: 'L' :: 'E' :: 'C' :: 'T' ::
          ((selVars (shapeOf p)).flatMap (fun pos => ' ' :: posVarLower pos) ++ ' ' :: ' ' :: '{' :: ' ' :: (body ++ ' ' :: '}' :: T)) := by
        rw [← h]
        have hemp : ((selVars (shapeOf p)).map posVarLower).isEmpty = false := by
          cases hs : (selVars (shapeOf p)).map posVarLower with
          | nil => exact absurd hs hne0
          | cons _ _ => rfl
        have := sp_joinWith _ hne0
        simp only [List.flatMap_map] at this
        simp only [shapeOf] at hemp this ⊢
        simp [hemp, ← this]
      rw [e]
      have hpre : ∀ r, kw "PREFIX" ('S' :: r) = none := fun r =>
        kw_none_head "PREFIX" 'P' "REFIX".toList (by decide) 'S' r (by decide) (by decide) (by decide)
      have hkA : ∀ r, kw "ASK" ('S' :: r) = none := fun r =>
        kw_none_head "ASK" 'A' "SK".toList (by decide) 'S' r (by decide) (by decide) (by decide)
      have hlen : (selVars (shapeOf p)).length ≤ 4 := by
        obtain ⟨a, b, c⟩ := p
        cases a <;> cases b <;> cases c <;> simp [shapeOf, selVars]
      have hrv := readVars_written (selVars (shapeOf p)) 4 (' ' :: (body ++ ' ' :: '}' :: T)) hlen
      have hkw : kw "SELECT" ('S' :: 'E' :: 'L' :: 'E' :: 'C' :: 'T' ::
          ((selVars (shapeOf p)).flatMap (fun pos => ' ' :: posVarLower pos) ++ ' ' :: ' ' :: '{' :: ' ' :: (body ++ ' ' :: '}' :: T))) =
          some ((selVars (shapeOf p)).flatMap (fun pos => ' ' :: posVarLower pos) ++ ' ' :: ' ' :: '{' :: ' ' :: (body ++ ' ' :: '}' :: T)) := by
        cases hs : selVars (shapeOf p) with
        | nil => exact absurd hs hv
        | cons pos ps =>
          simp only [List.flatMap_cons, List.cons_append]
          exact kw_SELECT _
      have hwh : ∀ r, kw "WHERE" (' ' :: ' ' :: '{' :: r) = none := by
        intro r; rw [kw_sp]; exact kw_brace_none "WHERE" 'W' "HERE".toList (by decide) (by decide) r
      simp only [readQueryB, skipPrologue_id _ _ (hpre _), hkA, hkw, hrv, hwh, sym_sp,
        sym_here '{' _ (by decide) (by decide), Option.bind_some, hq, hvn, optDot_brace,
        sym_here '}' _ (by decide) (by decide), hT, Option.map_some]
      simp [hv]
      exact fun x hx => ⟨x, hx, rfl⟩

/-! ### Statement and theorem -/

/-- `query(initBindings=…)`: the store appends `VALUES ( ?v … ) { ( t … ) }` with the terms written by
    `n3()`.  Reading the store's pattern query followed by that block gives the query AND the
    one-row table — i.e. (definition of `TQuery.joinRow`) the query joined with the row: a pattern
    whose bound variables are replaced by the row's terms.  The bound terms may be anything `n3()`
    can spell (IRIs, literals with quotes / newlines / language tag / datatype); a blank node never
    gets here, `node_to_sparql` raises before the text is built. -/
def Statement_values_block_means_join : Prop :=
  ∀ (p : TPatT) (bs : List (Str × TTerm)) (txt vtxt : Str),
    PatOK p = true → BindsOK bs = true →
    wTriplesQuery p none none none = some txt → wValues bs = some vtxt →
    readQueryB (txt ++ vtxt) = some (.triples p none none none, bs) ∧
    readQueryB txt = some (.triples p none none none, [])

theorem readTailB_nil : readTailB [] = some ((none, none, none), []) := by
  simp [readTailB, readModifiersR_nil, readValues, kw_nil "VALUES" 'V' "ALUES".toList (by decide), ws, skip]

theorem values_block_means_join : Statement_values_block_means_join := by
  intro p bs txt vtxt hp hb h hv
  refine ⟨readQueryB_triples p txt vtxt _ bs hp h (readTailB_values bs vtxt hb hv), ?_⟩
  have := readQueryB_triples p txt [] _ [] hp h readTailB_nil
  simpa using this

/-- joining with the row binds the pattern: `?s ?p ?o` with `o` bound to a literal with a newline
    and quotes becomes the pattern with that object -/
example :
    (TQuery.triples (none, none, none) none none none).joinRow [(['o'], .lit "a\n\"b".toList none none)] =
      .triples (none, none, some (.lit "a\n\"b".toList none none)) none none none := by decide

end RV.C20
