import RV.C20.TextSlice
/-
  C20 — the LIMIT / OFFSET / "ORDER BY" injection of `SPARQLStore.triples`.
-/
namespace RV.C20

/-- The query sent for `triples(pattern, context)` when the context graph carries any combination of the attributes
    `LIMIT`, `OFFSET`, `"ORDER BY"` reads back as: that pattern, ordered by the variable `sliceOrder` chose, with exactly
    that LIMIT and OFFSET (any numbers).  Without attributes nothing is appended; with any attribute and an unbound
    position the ordering variable is the FIRST selected variable (the `"ORDER BY"` attribute is only consulted for a fully
    bound pattern — the docstring says otherwise, see design notes), so that paging through a graph is deterministic. -/
def Statement_slice_query_means_pattern : Prop :=
  ∀ (p : TPatT) (a : SliceAttrs) (txt : Str), PatOK p = true → wSliceQuery p a = some txt →
    readQuery txt = some (.triples p (sliceOrder p a) a.limit a.offset) ∧
    (a.limit = none → a.offset = none → a.orderBy = none → sliceOrder p a = none) ∧
    ((a.limit.isSome ∨ a.offset.isSome ∨ a.orderBy.isSome) →
      ∀ v vs, selVars (shapeOf p) = v :: vs → sliceOrder p a = some v) ∧
    (selVars (shapeOf p) = [] → sliceOrder p a = a.orderBy.join)

theorem slice_query_means_pattern : Statement_slice_query_means_pattern := by
  intro p a txt hok h
  refine ⟨readQuery_triples_mods p _ _ _ txt hok h, ?_, ?_, ?_⟩
  · intro h1 h2 h3
    simp [sliceOrder, sliceOrderS, h1, h2, h3]
  · intro hany v vs hv
    have hc : (a.limit.isSome || a.offset.isSome || a.orderBy.isSome) = true := by
      rcases hany with h | h | h <;> simp [h]
    obtain ⟨x, y, z⟩ := p
    cases x <;> cases y <;> cases z <;> simp [shapeOf, selVars] at hv <;>
      simp [sliceOrder, sliceOrderS, hc, ← hv.1]
  · intro hv
    obtain ⟨x, y, z⟩ := p
    cases x <;> cases y <;> cases z <;> simp [shapeOf, selVars] at hv
    simp only [sliceOrder, sliceOrderS, Option.isNone_some, Bool.false_eq_true, if_false]
    cases a.limit <;> cases a.offset <;> cases a.orderBy <;> simp

/-! non-vacuity: a page of a predicate scan, and a fully bound pattern under a LIMIT with an ORDER BY attribute -/

example : (wSliceQuery (none, some (.iri "http://e/p".toList), none) ⟨some 10, some 20, some none⟩).map String.ofList =
    some "SELECT ?s ?o  { ?s <http://e/p> ?o } ORDER BY ?s LIMIT 10 OFFSET 20" := by decide +kernel

example : (wSliceQuery (some (.iri "u:s".toList), some (.iri "u:p".toList), some (.lit "x".toList none none))
      ⟨some 1, none, some (some .o)⟩).map String.ofList =
    some "ASK { <u:s> <u:p> \"x\" } ORDER BY ?o LIMIT 1" := by decide +kernel

end RV.C20
