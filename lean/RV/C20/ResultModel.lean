import RV.C20.Result
import RV.C20.Model
/-
  C20 — result decoding joined to the store-level model: the document an endpoint sends for the answer of the
  queries `SPARQLStore.triples` / `__len__` / `contexts` generate, and what the store's parsers make of it.
-/
namespace RV.C20

open Res in
/-- a term both formats can carry and rdflib can hold: well-formed language tag, non-empty IRI / label / datatype -/
def Res.termOk (t : Res.Term) : Bool := Res.langOk t && Res.xmlTermOk t

inductive ResFormat | json | xml
  deriving Repr, DecidableEq

/-- endpoint writes, store reads -/
def Res.roundTrip (f : ResFormat) (r : Res.Result) : Except Res.Err Res.Result :=
  match f with
  | .json => Res.ofJson (Res.wireJson r)
  | .xml => Res.ofXml (Res.wireXml r)

def Pos.name : Pos → Res.Str
  | .s => ['s']
  | .p => ['p']
  | .o => ['o']

/-- the endpoint's answer to the SELECT of `triples(enc)` against graph `g`, spelled with a vocabulary `V` -/
def wireAnswer (V : Nat → Res.Term) (d : DS) (g : GName) (enc : TPat) : Res.Result :=
  .select ((selVars enc).map Pos.name) ((answerSelect d g enc).map (fun row => row.map (fun x => some (V x))))

/-- `SELECT (count(*) as ?c)`: one row, one `xsd:integer` -/
def wireCount (n : Nat) : Res.Result :=
  .select [['c']] [[some (.typed (toString n).toList "http://www.w3.org/2001/XMLSchema#integer".toList)]]

/-- `SELECT ?name WHERE { GRAPH ?name {…} }`: one IRI per row -/
def wireNames (gs : List Res.Str) : Res.Result :=
  .select ["name".toList] (gs.map (fun g => [some (.iri g)]))

end RV.C20
