import RV.C20.TextQuery
/-
  C20 — property theorems of the TEXT layer (statements first, then the proofs).

  The store's writers (`n3()` of IRIs and literals, the INSERT DATA / DELETE…WHERE / DROP / CREATE
  texts of `add`, `addN`, `remove`, `remove_graph`, `add_graph`, the SELECT / ASK of `triples`,
  the texts of `__len__` and `contexts`, `commit`'s `"\n;\n".join`) are modelled as functions to
  `List Char` (RV/C20/Text.lean) and compared CHARACTER BY CHARACTER with the requests the real
  store sends (harness).  The reader of RV/C20/Text.lean is the specification of what those
  texts mean; the theorems say that the written text of an operation reads back as that operation.
-/
namespace RV.C20

/-! ### Statements -/

/-- Terms of every kind except blank nodes reach the endpoint unchanged: the text `n3()` writes for
    an IRI over the IRIREF alphabet, or for a literal with ANY lexical form (quotes, backslashes,
    newlines — the long-quoted form —, tabs, non-ASCII…), optionally with a language tag or a
    datatype IRI, is read back as exactly that term. -/
def Statement_term_text_roundtrip : Prop :=
  ∀ (t : TTerm), TermOK t = true →
    ∃ txt, wTerm t = some txt ∧ ∀ r, readNode (txt ++ ' ' :: r) = some (.term t, ' ' :: r)

/-- Every string a write call (`add`, `addN`, `remove` with wildcards and with / without a context,
    `remove_graph`, `Dataset.graph`) appends to `_edits` exists whenever the call is not refused,
    there is one per edit of the state-machine model, and READING it gives back exactly the
    operations of that edit (`compileWrite`), through any vocabulary of well-formed terms. -/
def Statement_request_text_means_op : Prop :=
  ∀ (V : Vocab) (ns : List (Str × Str)) (hook : Bool) (w : Write) (es : List (List UOp)),
    VocabOK V ns → w.textual = true → compileWrite hook w = some es →
    ∃ txts, writeEdits V ns hook w = some txts ∧ txts.length = es.length ∧
      ∀ pr ∈ txts.zip es, readRequest pr.1 = some (pr.2.map (UOp.toText V))

/-- The text `commit` sends — the queued strings joined by `"\n;\n"` — reads back as the queue of
    the state machine (`ws.flatMap (queuedBy hook)`, see `commit_sends_whole_queue_in_order`):
    every operation, in order, with multiplicity. -/
def Statement_commit_text_is_sequence : Prop :=
  ∀ (V : Vocab) (ns : List (Str × Str)) (hook : Bool) (ws : List Write),
    VocabOK V ns → (∀ w ∈ ws, w.textual = true) →
    ∃ txts, queueTexts V ns hook ws = some txts ∧ txts.length = (ws.flatMap (queuedBy hook)).length ∧
      (txts ≠ [] → readRequest (joinEdits txts) =
        some ((ws.flatMap (queuedBy hook)).flatten.map (UOp.toText V)))

/-- the joiner and comments: after an edit that ENDS IN A COMMENT the `;` of `"\n;\n"` is still seen
    (the newline ends the comment); with a joiner `" ;\n"` it would be swallowed. -/
def Statement_separator_survives_trailing_comment : Prop :=
  ∀ (cmt r : Str), (∀ c ∈ cmt, c ≠ '\n' ∧ c ≠ '\r') →
    sym ';' ('#' :: (cmt ++ '\n' :: ';' :: '\n' :: r)) = some ('\n' :: r) ∧
    sym ';' ('#' :: (cmt ++ ' ' :: ';' :: '\n' :: r)) = sym ';' r

/-- The queries: the SELECT / ASK text of `triples` / membership (without LIMIT / OFFSET / ORDER BY)
    reads back as its pattern — variables exactly at the unbound positions —, and so do the texts
    of `__len__` and `contexts`. -/
def Statement_query_text_means_pattern : Prop :=
  (∀ (p : TPatT) (txt : Str), PatOK p = true → wTriplesQuery p none none none = some txt →
      readQuery txt = some (.triples p none none none)) ∧
  readQuery lenQueryText = some .len ∧
  (∀ txt, wContexts none = some txt → readQuery txt = some (.contexts none)) ∧
  (∀ (p : TPatT) (txt : Str), PatOK p = true → wContexts (some p) = some txt →
      readQuery txt = some (.contexts (some p)))

/-! ### Proofs -/

theorem term_text_roundtrip : Statement_term_text_roundtrip := by
  intro t ht
  obtain ⟨txt, h⟩ := wTerm_ok t ht
  exact ⟨txt, h, fun r => readNode_term t txt r h ht⟩

theorem request_text_means_op : Statement_request_text_means_op := by
  intro V ns hook w es hV hw hc
  obtain ⟨txts, h1, h2, h3⟩ := writeEdits_correct V ns hV hook w hw es hc
  exact ⟨txts, h1, h2, fun pr hpr => readRequest_edit _ _ (h3 pr hpr)⟩

theorem commit_text_is_sequence : Statement_commit_text_is_sequence :=
  fun V ns hook ws hV hw => commit_text_reads V ns hV hook ws hw

theorem ws_comment (stop : Char) (hs : stop = '\n' ∨ stop = '\r') : ∀ (cmt r : Str), (∀ c ∈ cmt, c ≠ '\n' ∧ c ≠ '\r') →
    skip true (cmt ++ stop :: r) = skip false r
  | [], r, _ => by rcases hs with rfl | rfl <;> simp [skip]
  | c :: cmt, r, h => by
    have hc := h c (List.mem_cons_self ..)
    have ih := ws_comment stop hs cmt r (fun x hx => h x (List.mem_cons_of_mem _ hx))
    simp [skip, hc.1, hc.2, ih]

theorem skip_comment_through (cmt r : Str) (x : Char) (hx : x ≠ '\n' ∧ x ≠ '\r') :
    (∀ c ∈ cmt, c ≠ '\n' ∧ c ≠ '\r') → skip true (cmt ++ x :: r) = skip true r := by
  induction cmt with
  | nil => intro _; simp [skip, hx.1, hx.2]
  | cons c cmt ih =>
    intro h
    have hc := h c (List.mem_cons_self ..)
    simp [skip, hc.1, hc.2, ih (fun y hy => h y (List.mem_cons_of_mem _ hy))]

theorem separator_survives_trailing_comment : Statement_separator_survives_trailing_comment := by
  intro cmt r h
  constructor
  · have : ws ('#' :: (cmt ++ '\n' :: ';' :: '\n' :: r)) = ';' :: '\n' :: r := by
      simp only [ws, skip, isWs]
      simp only [show ('#' = ' ') = False by decide, show ('#' = '\n') = False by decide,
        show ('#' = '\t') = False by decide, show ('#' = '\r') = False by decide]
      simp [ws_comment '\n' (Or.inl rfl) cmt _ h, skip, isWs]
    simp [sym, this]
  · have e1 : ws ('#' :: (cmt ++ ' ' :: ';' :: '\n' :: r)) = ws r := by
      have h1 : ws ('#' :: (cmt ++ ' ' :: ';' :: '\n' :: r)) = skip true (cmt ++ ' ' :: ';' :: '\n' :: r) := by
        simp [ws, skip, isWs]
      rw [h1, skip_comment_through cmt _ ' ' (by decide) h]
      have h2 : skip true (';' :: '\n' :: r) = skip false r := by simp [skip]
      rw [h2]; rfl
    simp [sym, e1]

theorem query_text_means_pattern : Statement_query_text_means_pattern :=
  ⟨fun p txt hok h => readQuery_triples p txt hok h, readQuery_len,
   fun txt h => by simp only [wContexts, Option.some.injEq] at h; rw [← h]; exact readQuery_contexts_all,
   fun p txt hok h => readQuery_contexts p txt hok h⟩

/-! ### Non-vacuity -/

set_option maxRecDepth 8000

/-- a vocabulary with an IRI, a literal that needs the long form (LF, quotes, a final quote, a
    backslash), a language-tagged and a datatyped literal -/
def exV : Vocab where
  term := fun n =>
    if n = 1 then .iri "http://e/s".toList
    else if n = 2 then .lit "line1\n\"\"\" q\\ \"".toList none none
    else if n = 3 then .lit "x".toList none (some "en-GB".toList)
    else if n = 4 then .lit "1".toList (some "http://www.w3.org/2001/XMLSchema#integer".toList) none
    else .iri "http://e/p".toList
  graph := fun _ => "http://e/g".toList

example : TermOK (exV.term 1) = true ∧ TermOK (exV.term 2) = true ∧ TermOK (exV.term 3) = true ∧
    TermOK (exV.term 4) = true ∧ TermOK (exV.term 0) = true ∧ iriOK (exV.graph 0) = true := by decide

/-- what `add` writes for the long literal, and that it reads back -/
example : wTerm (exV.term 2) = some "\"\"\"line1\n\\\"\\\"\\\" q\\\\ \\\"\"\"\"".toList := by decide

example : readRequest "INSERT DATA { GRAPH <http://e/g> { <http://e/s> <http://e/p> \"\"\"line1\n\\\"\\\"\\\" q\\\\ \\\"\"\"\" . } }".toList =
    some [.insertData (some "http://e/g".toList) [(exV.term 1, exV.term 0, exV.term 2)]] := by decide

/-- the two operations of a `remove` without context, in one edit string -/
example : (wRemoveAll (some (exV.term 1), none, none)).bind readRequest =
    some [.deleteWhere none (some (exV.term 1), none, none), .deleteNamed (some (exV.term 1), none, none)] := by decide

/-- reader and joiner: an edit ending in a comment, then `"\n;\n"`, then the next edit -/
example : readRequest "DROP DEFAULT # gone\n;\nCREATE GRAPH <http://e/g>".toList =
    some [.dropGraph none, .createGraph "http://e/g".toList] := by decide

/-- … and what the joiner `" ;\n"` would do to it: the second operation is lost in the comment -/
example : readRequest "DROP DEFAULT # gone ;\nCREATE GRAPH <http://e/g>".toList = none := by decide

example : readQuery "SELECT ?s ?o  { ?s <http://e/p> ?o }".toList =
    some (.triples (none, some (exV.term 0), none) none none none) := by decide

end RV.C20
