import RV.C20.Model
import RV.C20.Text
import RV.C20.Rewrite
import RV.C20.Conn
import RV.C20.ResultModel
import RV.Base.Proto
/-
  C20 driver.  Terms and graph names are naturals owned by the harness (blank nodes 900–999,
  their hook IRIs 1000–1099).  A graph is a number, `-` = the endpoint's default graph,
  `*` = no context given (remove only).  Pattern positions: number or `*`.

    reset ac dirty hook ro      -> ok      (flags 0/1; empty endpoint, empty queue)
    init s p o g                -> ok      (quad put into the endpoint directly)
    ginit g                     -> ok      (empty named graph recorded at the endpoint)
    add s p o g                 -> ok | Refused | ReadOnly
    addN (s p o g)*             -> …
    remove s p o g              -> …       (g may be `*`)
    rgraph g | cgraph g         -> …       (remove_graph / Dataset.graph → CREATE GRAPH)
    update g (I k (s p o)^k | D k (s p o)^k | W s p o)*
    commit | rollback           -> ok | ReadOnly
    triples s p o g             -> T s,p,o s,p,o …      (sorted)
    len g                       -> N n
    contains s p o g            -> B true|false
    contexts [s p o]            -> G g,g,…              (sorted)
    namedquads                  -> Q s,p,o,g …          (sorted)
    opaque                      -> ok                   (a read whose answer is not modelled)
    slice s p o g lim off [ob]  -> ok                   (LIMIT/OFFSET/"ORDER BY" read: flush modelled, answer not; `-` = unset)
    nop                         -> ok                   (a call that neither reads nor writes: re-open, close, bind, …)
    obs                         -> s,p,o,g s,p,o,g … | g,g,…    endpoint content (default graph = 0)
    queue                       -> number of queued edit strings (diagnostic)

  Text layer (RV/C20/Text.lean).  Code points are comma separated, `_` = empty string, `-` = absent.
    vocab id I cps              -> ok      (term id is the IRI with these code points)
    vocab id L lex dt lang      -> ok      (term id is that literal)
    gvocab id cps               -> ok      (graph name)
    sent                        -> the requests the model predicts for the LAST operation, canonical:
                                   `U op;op;…` (update request) / `Q<g>:T:s,p,o:ord:lim:off` / `Q<g>:LEN` /
                                   `Q-:CTX:*|s,p,o` / `Q?`, several requests joined by ` | `; `-` = none
    senttext                    -> the request TEXTS the model's writers produce for them (code points per request,
                                   `-` where the text is not modelled: update(), graph operations, user queries)
    decode u cps                -> reader applied to an update request text: `U op;op;…` or `U?`
    decode q g cps              -> reader applied to a query text sent with default-graph-uri g (`-` none); a pattern
                                   query with a trailing VALUES block is shown joined with its row
    ing g cps                   -> `_insert_named_graph(text, <g>)` as modelled in RV/C20/Rewrite.lean (code points)

  Transport layer (RV/C20/Conn.lean).
    conn method qpath upath fmt extra auth ca
                                -> ok      (ca = the store's `context_aware` flag: the graph of every later command goes
                                   through `_is_contextual` as modelled in RV/C20/Conn.lean; connector configuration: GET|POST|POST_FORM, the two endpoint URLs (code
                                   points), returnFormat, extra = 0..3 (bit 0: params={"x-extra":"1"}, bit 1:
                                   headers={"X-Extra":"1"}), auth = `-` or the Authorization value (code points))
    nop method:M | nop format:F -> ok      (the `method` property / `returnFormat` attribute switched mid-history)
    senthttp                    -> the HTTP requests `SPARQLConnector.query/update` assembles for the requests of the LAST
                                   operation, each READ BACK by the protocol reader `serverRead`:
                                   `Q|U via path a:<accept types, sorted> p:<k=v&… sorted, code points>`; `-` = none
    asm method path fmt extra auth q|u dg cps
                                -> `<url code points> <body bytes|->` of the request assembled for that text

  Result layer (RV/C20/Result.lean, ResultModel.lean).
    sentres                     -> for the query of the LAST operation (triples / contains / len / contexts):
                                   `<W3C results document of the endpoint's answer, canonical> => <what the store's
                                   parser makes of it, canonical>` in the configured result format; `?` = answer not
                                   modelled (caller queries, slices), `-` = no query
-/
open RV RV.C20 RV.Proto

def gname? (w : String) : Option GName :=
  if w = "-" then some none else w.toNat?.map some

def triple? (a b c : String) : Option Triple := do
  let a ← a.toNat?; let b ← b.toNat?; let c ← c.toNat?
  pure (a, b, c)

def pat? (a b c : String) : Option TPat := do
  let a ← optNat? a; let b ← optNat? b; let c ← optNat? c
  pure (a, b, c)

def quads? : List String → Option (List Quad)
  | [] => some []
  | a :: b :: c :: g :: rest => do
    let t ← triple? a b c; let g ← gname? g; let qs ← quads? rest
    pure ((t, g) :: qs)
  | _ => none

def takeTriples : Nat → List String → Option (List Triple × List String)
  | 0, ws => some ([], ws)
  | k + 1, a :: b :: c :: rest => do
    let t ← triple? a b c
    let (ts, r) ← takeTriples k rest
    pure (t :: ts, r)
  | _, _ => none

def lops? : Nat → List String → Option (List LOp)
  | _, [] => some []
  | 0, _ => none
  | fuel + 1, "I" :: k :: rest => do
    let k ← k.toNat?; let (ts, r) ← takeTriples k rest; let us ← lops? fuel r
    pure (.ins ts :: us)
  | fuel + 1, "D" :: k :: rest => do
    let k ← k.toNat?; let (ts, r) ← takeTriples k rest; let us ← lops? fuel r
    pure (.deld ts :: us)
  | fuel + 1, "W" :: a :: b :: c :: rest => do
    let p ← pat? a b c; let us ← lops? fuel rest
    pure (.delw p :: us)
  | _, _ => none

def gnum (g : GName) : Nat := g.getD 0

def showTriples (ts : List Triple) : String :=
  " ".intercalate ((sortBy lexLt (ts.map (fun t => [t.1, t.2.1, t.2.2]))).map showNats)

def showQuads (qs : List Quad) : String :=
  " ".intercalate ((sortBy lexLt (qs.map (fun q => [q.1.1, q.1.2.1, q.1.2.2, gnum q.2]))).map showNats)

def showNames (ns : List Nat) : String :=
  showNats ((sortBy lexLt (ns.map (fun n => [n]))).map (fun l => l.headD 0))

def showOut : Out → String
  | .ok => "ok"
  | .err .refused => "Refused"
  | .err .readOnly => "ReadOnly"
  | .triples ts => "T " ++ showTriples ts
  | .num n => "N " ++ toString n
  | .names ns => "G " ++ showNames ns
  | .bool b => "B " ++ (if b then "true" else "false")
  | .quads qs => "Q " ++ showQuads qs

def flag? (w : String) : Option Bool :=
  if w = "0" then some false else if w = "1" then some true else none

/-! ### text layer glue -/

structure St where
  r : Remote
  vocab : List (Nat × TTerm) := []
  gvocab : List (Nat × Str) := []
  /-- texts of the queued edits, aligned with `r.edits` (`none` = text not modelled) -/
  pend : List (Option Str) := []
  lastSent : List String := []
  lastText : List (Option Str) := []
  /-- per request of the last operation: is it an update, the graph argument -/
  lastReq : List (Bool × GName) := []
  /-- the endpoint's answer to the query of the last operation (`none` = not modelled) -/
  lastAns : Option (Option Res.Result) := none
  fmt : String := "xml"
  /-- `context_aware` -/
  ca : Bool := true
  conn : Conn := ⟨.GET, [], [], [], [], []⟩

def cps? (w : String) : Option Str :=
  if w = "_" then some [] else
  (w.splitOn ",").foldr (fun x acc => match x.toNat?, acc with
    | some n, some l => some (Char.ofNat n :: l)
    | _, _ => none) (some [])

def optCps? (w : String) : Option (Option Str) :=
  if w = "-" then some none else (cps? w).map some

def showCps (s : Str) : String :=
  if s.isEmpty then "_" else ",".intercalate (s.map (fun c => toString c.toNat))

def termOf (st : St) (n : Nat) : Option TTerm := (st.vocab.find? (·.1 == n)).map (·.2)
def gOf (st : St) : GName → Option (Option Str)
  | none => some none
  | some n => (st.gvocab.find? (·.1 == n)).map (fun x => some x.2)

def idOfTerm (st : St) (t : TTerm) : String :=
  match st.vocab.find? (·.2 == t) with
  | some (n, _) => toString n
  | none => "?"

def idOfG (st : St) : Option Str → String
  | none => "-"
  | some g => match st.gvocab.find? (·.2 == g) with
    | some (n, _) => toString n
    | none => "?"

def showG (g : GName) : String := match g with | none => "-" | some n => toString n
def showT (t : Triple) : String := s!"{t.1},{t.2.1},{t.2.2}"
def showOpt (x : Option Nat) : String := match x with | none => "*" | some n => toString n
def showP (p : TPat) : String := s!"{showOpt p.1},{showOpt p.2.1},{showOpt p.2.2}"

def showUOp : UOp → String
  | .insertData g ts => s!"I{showG g}:" ++ "+".intercalate (sortStrs (ts.map showT))
  | .deleteData g ts => s!"D{showG g}:" ++ "+".intercalate (sortStrs (ts.map showT))
  | .deleteWhere g p => s!"W{showG g}:{showP p}"
  | .deleteNamed p => s!"N:{showP p}"
  | .dropGraph g => s!"X{showG g}"
  | .createGraph n => s!"C{n}"

def showTT (st : St) (t : TTriple) : String := s!"{idOfTerm st t.1},{idOfTerm st t.2.1},{idOfTerm st t.2.2}"
def showOT (st : St) (x : Option TTerm) : String := match x with | none => "*" | some t => idOfTerm st t
def showTP (st : St) (p : TPatT) : String := s!"{showOT st p.1},{showOT st p.2.1},{showOT st p.2.2}"

def showTUOp (st : St) : TUOp → String
  | .insertData g ts => s!"I{idOfG st g}:" ++ "+".intercalate (sortStrs (ts.map (showTT st)))
  | .deleteData g ts => s!"D{idOfG st g}:" ++ "+".intercalate (sortStrs (ts.map (showTT st)))
  | .deleteWhere g p => s!"W{idOfG st g}:{showTP st p}"
  | .deleteNamed p => s!"N:{showTP st p}"
  | .dropGraph g => s!"X{idOfG st g}"
  | .createGraph g => s!"C{idOfG st (some g)}"

def showPos : Option Pos → String
  | none => "-" | some .s => "s" | some .p => "p" | some .o => "o"
def showON (x : Option Nat) : String := match x with | none => "-" | some n => toString n

def showQueryT (st : St) (g : String) : TQuery → String
  | .triples p o l f => s!"Q{g}:T:{showTP st p}:{showPos o}:{showON l}:{showON f}"
  | .len => s!"Q{g}:LEN"
  | .contexts none => s!"Q{g}:CTX:*"
  | .contexts (some p) => s!"Q{g}:CTX:{showTP st p}"

/-- text-level pattern / triple of a model pattern -/
def patT (st : St) (p : TPat) : Option TPatT :=
  let f : Option Nat → Option (Option TTerm) := fun x => match x with
    | none => some none
    | some n => (termOf st n).map some
  match f p.1, f p.2.1, f p.2.2 with
  | some a, some b, some c => some (a, b, c)
  | _, _, _ => none

def tripleT (st : St) (t : Triple) : Option TTriple :=
  match termOf st t.1, termOf st t.2.1, termOf st t.2.2 with
  | some a, some b, some c => some (a, b, c)
  | _, _, _ => none

def triplesT (st : St) : List Triple → Option (List TTriple)
  | [] => some []
  | t :: ts => match tripleT st t, triplesT st ts with
    | some a, some as => some (a :: as)
    | _, _ => none

/-- the texts of the strings one write call appends to `_edits`, aligned with `compileWrite`
    (`none` = not modelled as text: `update()`, `add_graph`, `remove_graph`) -/
def editTexts (st : St) (w : Write) (es : List (List UOp)) : List (Option Str) :=
  match w, es with
  | .add _ _, [[.insertData g [t]]] =>
    [match gOf st g, tripleT st t with | some gg, some tt => wAdd gg tt | _, _ => none]
  | .addN _, es =>
    es.map (fun e => match e with
      | [.insertData g ts] => (match gOf st g, triplesT st ts with | some gg, some tts => wAddN gg tts | _, _ => none)
      | _ => none)
  | .remove _ (.one _), [[.deleteWhere g p]] =>
    [match gOf st g, patT st p with | some gg, some pp => wRemoveOne gg pp | _, _ => none]
  | .remove _ .all, [[.deleteWhere none p, .deleteNamed _]] =>
    [match patT st p with | some pp => wRemoveAll pp | none => none]
  | _, es => es.map (fun _ => none)

def firstUnbound (p : TPat) : Option Pos :=
  if p.1.isNone then some .s else if p.2.1.isNone then some .p else if p.2.2.isNone then some .o else none

/-- the query a read sends (canonical form, text), `none` when nothing is sent (refused) -/
def posOf? (w : String) : Option (Option Pos) :=
  if w = "-" then some none else if w = "s" then some (some .s) else if w = "p" then some (some .p)
  else if w = "o" then some (some .o) else none

def queryOf (st : St) (rd : Read) (slice : Option (TPat × GName × Option Nat × Option Nat × Option (Option Pos))) :
    Option (String × Option Str) :=
  let hook := st.r.hook
  match slice with
  | some (p, g, lim, off, ob) =>
    match encPat hook p with
    | none => none
    | some e =>
      -- the ORDER BY / LIMIT / OFFSET injection is the model function `sliceOrderS` / `wSliceQuery` of Text.lean
      let attrs : SliceAttrs := ⟨lim, off, ob⟩
      let ord := sliceOrderS (e.1.isNone, e.2.1.isNone, e.2.2.isNone) attrs
      some (s!"Q{showG g}:T:{showP e}:{showPos ord}:{showON lim}:{showON off}",
            (patT st e).bind (fun pp => wSliceQuery pp attrs))
  | none =>
  match rd with
  | .triples p g | .contains p g =>
    match encPat hook p with
    | none => none
    | some e => some (s!"Q{showG g}:T:{showP e}:-:-:-", (patT st e).bind (fun pp => wTriplesQuery pp none none none))
  | .len g => some (s!"Q{showG g}:LEN", some lenQueryText)
  | .contexts none => some ("Q-:CTX:*", wContexts none)
  | .contexts (some t) =>
    match encTriple hook t with
    | none => none
    | some e => some (s!"Q-:CTX:{showT e}",
        (patT st (some e.1, some e.2.1, some e.2.2)).bind (fun pp => wContexts (some pp)))
  | .namedQuads | .opaque => some ("Q?", none)


/-! ### result layer glue -/

/-- the vocabulary as result terms -/
def vterm (st : St) (n : Nat) : Res.Term :=
  match termOf st n with
  | some (.iri s) => .iri s
  | some (.lit lex none none) => .plain lex
  | some (.lit lex (some d) _) => .typed lex d
  | some (.lit lex none (some l)) => .lang lex l
  | none => .iri ['?']

def showRTerm : Res.Term → String
  | .iri s => "I" ++ showCps s
  | .bnode s => "B" ++ showCps s
  | .plain s => "P" ++ showCps s
  | .typed s d => "T" ++ showCps s ++ "^" ++ showCps d
  | .lang s l => "L" ++ showCps s ++ "@" ++ showCps l

def showResult : Except Res.Err Res.Result → String
  | .error _ => "error"
  | .ok (.ask b) => if b then "A true" else "A false"
  | .ok (.select vars rows) =>
    "S " ++ ",".intercalate (vars.map String.ofList) ++ " | " ++
      " ; ".intercalate (sortStrs (rows.map (fun r =>
        " ".intercalate (r.map (fun c => match c with | some t => showRTerm t | none => "-")))))

/-- canonical form of a JSON value: object entries sorted by key, arrays in order -/
partial def canonJ : Res.Json → String
  | .null => "N"
  | .num => "#"
  | .bool b => if b then "T" else "F"
  | .str s => "s" ++ showCps s
  | .arr xs => "[" ++ ",".intercalate (xs.map canonJ) ++ "]"
  | .obj kvs => "{" ++ ",".intercalate (sortStrs (kvs.map (fun kv => String.ofList kv.1 ++ ":" ++ canonJ kv.2))) ++ "}"

/-- the same with the `results.bindings` array sorted (a solution sequence without ORDER BY has no order) -/
def canonJDoc : Res.Json → String
  | .obj top =>
    "{" ++ ",".intercalate (sortStrs (top.map (fun kv =>
      String.ofList kv.1 ++ ":" ++
        (match kv.1 == Res.kResults, kv.2 with
         | true, .obj rd => "{" ++ ",".intercalate (sortStrs (rd.map (fun kv2 =>
             String.ofList kv2.1 ++ ":" ++
               (match kv2.1 == Res.kBindings, kv2.2 with
                | true, .arr xs => "[" ++ ",".intercalate (sortStrs (xs.map canonJ)) ++ "]"
                | _, v => canonJ v)))) ++ "}"
         | _, v => canonJ v)))) ++ "}"
  | j => canonJ j

/-- canonical form of an element tree: attributes sorted, children in order except below `results` -/
partial def canonX : Res.Xml → String
  | .node tag attrs text kids =>
    let ks := kids.map canonX
    let ks := if tag == Res.tResults then sortStrs ks else ks
    "<" ++ String.ofList tag ++ " " ++ ",".intercalate (sortStrs (attrs.map (fun a => String.ofList a.1 ++ "=" ++ showCps a.2)))
      ++ " " ++ showCps text ++ " [" ++ "".intercalate ks ++ "]>"

def showAns (st : St) : String :=
  match st.lastAns with
  | none => "-"
  | some none => "?"
  | some (some a) =>
    if st.fmt = "json" then "J " ++ canonJDoc (Res.wireJson a) ++ " => " ++ showResult (Res.roundTrip .json a)
    else "X " ++ canonX (Res.wireXml a) ++ " => " ++ showResult (Res.roundTrip .xml a)

def allSome : List (Option Str) → Option (List Str)
  | [] => some []
  | x :: xs => match x, allSome xs with
    | some a, some as => some (a :: as)
    | _, _ => none

/-- run one model step and record what the model says was sent -/
def runOp (st : St) (op : Op) (slice : Option (TPat × GName × Option Nat × Option Nat × Option (Option Pos)) := none) : St × String :=
  let r := st.r
  let (r', out) := r.step op
  -- the strings this call appended to the queue
  let newTexts : List (Option Str) :=
    match op with
    | .write w =>
      if r.readOnly then [] else
      match compileWrite r.hook w with
      | some es => editTexts st w es
      | none => []
    | _ => []
  let newEdits : List (List UOp) :=
    match op with
    | .write w => if r.readOnly then [] else (compileWrite r.hook w).getD []
    | _ => []
  let queued := r.edits ++ newEdits
  let queuedT := st.pend ++ newTexts
  let isRollback := match op with | .rollback => true | _ => false
  let flushed := !isRollback && !r.readOnly && r'.edits.isEmpty && !queued.isEmpty
  let upd : List (String × Option Str) :=
    if flushed then
      [("U " ++ ";".intercalate (queued.flatten.map showUOp), (allSome queuedT).map joinEdits)]
    else []
  let qry : List (String × Option Str) :=
    match op with
    | .read rd => (queryOf st rd slice).toList
    | _ => []
  let pend' := if flushed || isRollback then [] else if r.readOnly then [] else queuedT
  let reqs := upd ++ qry
  let qg : GName := match slice with
    | some (_, g, _, _, _) => g
    | none => match op with
      | .read (.triples _ g) | .read (.contains _ g) | .read (.len g) => g
      | _ => none
  let lreq := upd.map (fun _ => (true, (none : GName))) ++ qry.map (fun _ => (false, qg))
  let ans : Option (Option Res.Result) :=
    if qry.isEmpty then none else
    match slice, op with
    | none, .read (.triples p g) | none, .read (.contains p g) =>
      (encPat r.hook p).map (fun e =>
        some (if (unwrapPat e).isSome then .ask (answerAsk r'.ep g e) else wireAnswer (vterm st) r'.ep g e))
    | none, .read (.len g) => some (some (wireCount (graphTriples r'.ep g).length))
    | none, .read (.contexts _) =>
      (match out with
       | .names ns => some (some (wireNames (ns.map (fun n => ((st.gvocab.find? (·.1 == n)).map (·.2)).getD ['?']))))
       | _ => some none)
    | _, _ => some none
  ({ st with r := r', pend := pend', lastSent := reqs.map (·.1), lastText := reqs.map (·.2), lastReq := lreq,
             lastAns := ans }, showOut out)

def doOp (st : St) (o : Option Op) : St × String :=
  match o with
  | some op => runOp st op
  | none => (st, "bad-op")

def optNatDash? (w : String) : Option (Option Nat) :=
  if w = "-" then some none else w.toNat?.map some

def decodeUpdate (st : St) (txt : Str) : String :=
  match readRequest txt with
  | some us => "U " ++ ";".intercalate (us.map (showTUOp st))
  | none => "U?"

def decodeQuery (st : St) (g : Option Str) (txt : Str) : String :=
  match readQuery txt with
  | some q => showQueryT st (idOfG st g) q
  | none =>
    -- a caller's pattern query, possibly with the VALUES block of `initBindings`: the query joined with the row
    match readQueryB txt with
    | some (q, bs) => showQueryT st (idOfG st g) (q.joinRow bs)
    | none => "Q?"


/-! ### transport layer glue -/

def cmethod? (w : String) : Option CMethod :=
  if w = "GET" then some .GET else if w = "POST" then some .POST else if w = "POST_FORM" then some .POST_FORM else none

def mkConn (m : CMethod) (qp up : Str) (fmt : String) (extra : Nat) (auth : Option Str) : Conn :=
  { method := m, queryEndpoint := qp, updateEndpoint := up,
    accept := (", ".intercalate (responseMimeTypes fmt)).toList,
    params := if extra % 2 = 1 then [("x-extra".toList, "1".toList)] else [],
    -- `kwargs["headers"]`, then `setdefault("headers", {})` / `.update({"Authorization": …})` of `__init__`
    headers := dupdate (if extra / 2 % 2 = 1 then [("X-Extra".toList, "1".toList)] else [])
                 (match auth with | some a => [("Authorization".toList, a)] | none => []) }

def showKV (kv : Str × Str) : String := showCps kv.1 ++ "=" ++ showCps kv.2

def showProto (p : ProtoReq) : String :=
  let k := match p.kind with | .query => "Q" | .update => "U"
  let v := match p.via with | .get => "get" | .form => "form" | .direct => "direct"
  let acc := match p.accept with
    | some a => ",".intercalate (sortStrs ((String.ofList a).splitOn ", "))
    | none => "-"
  let hs := "&".intercalate (sortStrs (p.params.map showKV))
  s!"{k} {v} {String.ofList p.path} a:{acc} p:{hs}"

def showHttp (st : St) (isU : Bool) (g : GName) (txt : Option Str) : String :=
  let t := txt.getD ['?']
  let r := if isU then st.conn.update t none none
    else st.conn.query t (match gOf st g with | some (some i) => .iri i | _ => .none)
  match r with
  | .error _ => "no-endpoint"
  | .ok r => match serverRead r with
    | some p => showProto p
    | none => "unreadable"

def zip3 : List (Bool × GName) → List (Option Str) → List ((Bool × GName) × Option Str)
  | a :: as, b :: bs => (a, b) :: zip3 as bs
  | _, _ => []

def showBytes (bs : List Nat) : String :=
  if bs.isEmpty then "_" else ",".intercalate (bs.map toString)


/-- the graph a command names, through `_is_contextual`: a store call with that graph object as context addresses the
    named graph only when the store is context aware and the identifier is not the dataset's default-graph id -/
def mapG (st : St) : GName → GName
  | none => none
  | some n =>
    let iri := ((st.gvocab.find? (·.1 == n)).map (·.2)).getD ['?']
    if isContextual st.ca (.graph iri) then some n else none

def ctxG (st : St) (w : String) : Option GName := (gname? w).map (mapG st)

def step (st : St) : List String → St × String
  | ["reset", a, d, h, ro] =>
    match flag? a, flag? d, flag? h, flag? ro with
    | some a, some d, some h, some ro =>
      ({ st with r := Remote.init ⟨[], []⟩ a d h ro, pend := [], lastSent := [], lastText := [], lastReq := [], lastAns := none }, "ok")
    | _, _, _, _ => (st, "bad-op")
  | ["vocab", n, "I", c] =>
    match n.toNat?, cps? c with
    | some n, some s => ({ st with vocab := (n, .iri s) :: st.vocab }, "ok")
    | _, _ => (st, "bad-op")
  | ["vocab", n, "L", lx, dt, lg] =>
    match n.toNat?, cps? lx, optCps? dt, optCps? lg with
    | some n, some lx, some dt, some lg => ({ st with vocab := (n, .lit lx dt lg) :: st.vocab }, "ok")
    | _, _, _, _ => (st, "bad-op")
  | ["gvocab", n, c] =>
    match n.toNat?, cps? c with
    | some n, some s => ({ st with gvocab := (n, s) :: st.gvocab }, "ok")
    | _, _ => (st, "bad-op")
  | ["sent"] => (st, if st.lastSent.isEmpty then "-" else " | ".intercalate st.lastSent)
  | ["senttext"] =>
    (st, if st.lastText.isEmpty then "none"
         else " ".intercalate (st.lastText.map (fun t => match t with | some s => showCps s | none => "-")))
  | ["decode", "u", c] =>
    match cps? c with
    | some txt => (st, decodeUpdate st txt)
    | none => (st, "bad-op")
  | ["ing", g, c] =>
    -- the Lean model of `_insert_named_graph(text, <g>)`
    match cps? g, cps? c with
    | some g, some txt => (st, showCps (insertNamedGraph ('<' :: g ++ ['>']) txt))
    | _, _ => (st, "bad-op")
  | ["decode", "q", g, c] =>
    match optCps? g, cps? c with
    | some g, some txt => (st, decodeQuery st g txt)
    | _, _ => (st, "bad-op")
  | ["init", a, b, c, g] =>
    match triple? a b c, gname? g with
    | some t, some g =>
      ({ st with r := { st.r with ep := { quads := sinsert st.r.ep.quads (t, g), graphs := regGraph st.r.ep.graphs g } } }, "ok")
    | _, _ => (st, "bad-op")
  | ["ginit", g] =>
    match g.toNat? with
    | some n => ({ st with r := { st.r with ep := { st.r.ep with graphs := sinsert st.r.ep.graphs n } } }, "ok")
    | none => (st, "bad-op")
  | ["add", a, b, c, g] => doOp st (do
      let t ← triple? a b c; let g ← ctxG st g; pure (.write (.add t g)))
  | "addN" :: rest => doOp st (do let qs ← quads? rest; pure (.write (.addN (qs.map (fun q => (q.1, mapG st q.2))))))
  | ["remove", a, b, c, g] => doOp st (do
      let p ← pat? a b c
      if g = "*" then pure (.write (.remove p .all))
      else let g ← ctxG st g; pure (.write (.remove p (.one g))))
  | ["rgraph", g] => doOp st (do let g ← ctxG st g; pure (.write (.removeGraph g)))
  | ["cgraph", g] => doOp st (do let n ← g.toNat?; pure (.write (.addGraph n)))
  | "update" :: g :: rest => doOp st (do
      let g ← ctxG st g; let us ← lops? (rest.length + 1) rest; pure (.write (.update g us)))
  | ["commit"] => doOp st (some .commit)
  | ["rollback"] => doOp st (some .rollback)
  | ["triples", a, b, c, g] => doOp st (do
      let p ← pat? a b c; let g ← ctxG st g; pure (.read (.triples p g)))
  | ["len", g] => doOp st (do let g ← ctxG st g; pure (.read (.len g)))
  | ["contains", a, b, c, g] => doOp st (do
      let p ← pat? a b c; let g ← ctxG st g; pure (.read (.contains p g)))
  | ["contexts"] => doOp st (some (.read (.contexts none)))
  | ["contexts", a, b, c] => doOp st (do let t ← triple? a b c; pure (.read (.contexts (some t))))
  | ["namedquads"] => doOp st (some (.read .namedQuads))
  | ["opaque"] => doOp st (some (.read .opaque))
  | ["slice", a, b, c, g, l, f] =>
    match pat? a b c, ctxG st g, optNatDash? l, optNatDash? f with
    | some p, some g, some l, some f => runOp st (.read .opaque) (some (p, g, l, f, none))
    | _, _, _, _ => (st, "bad-op")
  | ["slice", a, b, c, g, l, f, ob] =>
    -- ob: `-` = no "ORDER BY" attribute, `x` = attribute set to something that is no variable, s|p|o = that variable
    match pat? a b c, ctxG st g, optNatDash? l, optNatDash? f with
    | some p, some g, some l, some f =>
      let obv : Option (Option (Option Pos)) :=
        if ob = "-" then some none else if ob = "x" then some (some none) else (posOf? ob).map some
      match obv with
      | some o => runOp st (.read .opaque) (some (p, g, l, f, o))
      | none => (st, "bad-op")
    | _, _, _, _ => (st, "bad-op")
  | ["conn", m, qp, up, fmt, ex, au, ca] =>
    match cmethod? m, cps? qp, cps? up, ex.toNat?, optCps? au, flag? ca with
    | some m, some qp, some up, some ex, some au, some ca =>
      ({ st with conn := mkConn m qp up fmt ex au, fmt := fmt, ca := ca }, "ok")
    | _, _, _, _, _, _ => (st, "bad-op")
  | ["sentres"] => (st, showAns st)
  | ["senthttp"] =>
    (st, if st.lastReq.isEmpty then "-"
         else " | ".intercalate ((zip3 st.lastReq st.lastText).map (fun x => showHttp st x.1.1 x.1.2 x.2)))
  | ["asm", m, pth, fmt, ex, au, k, dg, c] =>
    match cmethod? m, cps? pth, ex.toNat?, optCps? au, optCps? dg, cps? c with
    | some m, some pth, some ex, some au, some dg, some txt =>
      let cn := mkConn m pth pth fmt ex au
      let r := if k = "u" then cn.update txt none none
        else cn.query txt (match dg with | some i => .iri i | none => .none)
      match r with
      | .ok r => (st, showCps r.url ++ " " ++ (match r.data with | some b => showBytes b | none => "-"))
      | .error _ => (st, "no-endpoint")
    | _, _, _, _, _, _ => (st, "bad-op")
  | ["nop", arg] =>
    -- the `method` property / `returnFormat` attribute switched; anything else neither reads nor writes
    let st := { st with lastSent := [], lastText := [], lastReq := [], lastAns := none }
    if arg.startsWith "method:" then
      match cmethod? (String.ofList (arg.toList.drop 7)) with
      | some m => ({ st with conn := { st.conn with method := m } }, "ok")
      | none => (st, "bad-op")
    else if arg.startsWith "format:" then
      ({ st with conn := { st.conn with accept := (", ".intercalate (responseMimeTypes (String.ofList (arg.toList.drop 7)))).toList },
                 fmt := String.ofList (arg.toList.drop 7) }, "ok")
    else (st, "ok")
  | ["nop"] =>
    -- an API call that neither reads nor writes (re-open, close, bind, switching method / format)
    ({ st with lastSent := [], lastText := [], lastReq := [], lastAns := none }, "ok")
  | ["obs"] => (st, showQuads st.r.ep.quads ++ " | " ++ showNames st.r.ep.graphs)
  | ["queue"] => (st, toString st.r.edits.length)
  | _ => (st, "bad-op")

def main : IO Unit := RV.Proto.run step ({ r := Remote.init ⟨[], []⟩ true false false false } : St)
