import RV.C20.Model
import RV.Base.Proto
/-
  C20 driver.  Terms and graph names are naturals owned by the harness (blank nodes 900–999,
  their hook IRIs 1000–1099).  A graph is a number, `-` = the endpoint's default graph,
  `*` = no context given (remove only).  Pattern positions: number or `*`.

    reset ac dirty hook ro      -> ok      (flags 0/1; empty endpoint, empty queue)
    init s p o g                -> ok      (quad put into the endpoint directly)
    ginit g                     -> ok      (empty named graph recorded at the endpoint)
    add s p o g                 -> ok | Refused | ReadOnly
    addN (s p o g)*             -> …
    remove s p o g              -> …       (g may be `*`)
    rgraph g | cgraph g         -> …       (remove_graph / Dataset.graph → CREATE GRAPH)
    update g (I k (s p o)^k | D k (s p o)^k | W s p o)*
    commit | rollback           -> ok | ReadOnly
    triples s p o g             -> T s,p,o s,p,o …      (sorted)
    len g                       -> N n
    contains s p o g            -> B true|false
    contexts [s p o]            -> G g,g,…              (sorted)
    namedquads                  -> Q s,p,o,g …          (sorted)
    opaque                      -> ok                   (a read whose answer is not modelled)
    obs                         -> s,p,o,g s,p,o,g … | g,g,…    endpoint content (default graph = 0)
    queue                       -> number of queued edit strings (diagnostic)
-/
open RV RV.C20 RV.Proto

def gname? (w : String) : Option GName :=
  if w = "-" then some none else w.toNat?.map some

def triple? (a b c : String) : Option Triple := do
  let a ← a.toNat?; let b ← b.toNat?; let c ← c.toNat?
  pure (a, b, c)

def pat? (a b c : String) : Option TPat := do
  let a ← optNat? a; let b ← optNat? b; let c ← optNat? c
  pure (a, b, c)

def quads? : List String → Option (List Quad)
  | [] => some []
  | a :: b :: c :: g :: rest => do
    let t ← triple? a b c; let g ← gname? g; let qs ← quads? rest
    pure ((t, g) :: qs)
  | _ => none

def takeTriples : Nat → List String → Option (List Triple × List String)
  | 0, ws => some ([], ws)
  | k + 1, a :: b :: c :: rest => do
    let t ← triple? a b c
    let (ts, r) ← takeTriples k rest
    pure (t :: ts, r)
  | _, _ => none

def lops? : Nat → List String → Option (List LOp)
  | _, [] => some []
  | 0, _ => none
  | fuel + 1, "I" :: k :: rest => do
    let k ← k.toNat?; let (ts, r) ← takeTriples k rest; let us ← lops? fuel r
    pure (.ins ts :: us)
  | fuel + 1, "D" :: k :: rest => do
    let k ← k.toNat?; let (ts, r) ← takeTriples k rest; let us ← lops? fuel r
    pure (.deld ts :: us)
  | fuel + 1, "W" :: a :: b :: c :: rest => do
    let p ← pat? a b c; let us ← lops? fuel rest
    pure (.delw p :: us)
  | _, _ => none

def gnum (g : GName) : Nat := g.getD 0

def showTriples (ts : List Triple) : String :=
  " ".intercalate ((sortBy lexLt (ts.map (fun t => [t.1, t.2.1, t.2.2]))).map showNats)

def showQuads (qs : List Quad) : String :=
  " ".intercalate ((sortBy lexLt (qs.map (fun q => [q.1.1, q.1.2.1, q.1.2.2, gnum q.2]))).map showNats)

def showNames (ns : List Nat) : String :=
  showNats ((sortBy lexLt (ns.map (fun n => [n]))).map (fun l => l.headD 0))

def showOut : Out → String
  | .ok => "ok"
  | .err .refused => "Refused"
  | .err .readOnly => "ReadOnly"
  | .triples ts => "T " ++ showTriples ts
  | .num n => "N " ++ toString n
  | .names ns => "G " ++ showNames ns
  | .bool b => "B " ++ (if b then "true" else "false")
  | .quads qs => "Q " ++ showQuads qs

def flag? (w : String) : Option Bool :=
  if w = "0" then some false else if w = "1" then some true else none

def doOp (r : Remote) (o : Option Op) : Remote × String :=
  match o with
  | some op => let (r', out) := r.step op; (r', showOut out)
  | none => (r, "bad-op")

def step (r : Remote) : List String → Remote × String
  | ["reset", a, d, h, ro] =>
    match flag? a, flag? d, flag? h, flag? ro with
    | some a, some d, some h, some ro => (Remote.init ⟨[], []⟩ a d h ro, "ok")
    | _, _, _, _ => (r, "bad-op")
  | ["init", a, b, c, g] =>
    match triple? a b c, gname? g with
    | some t, some g =>
      ({ r with ep := { quads := sinsert r.ep.quads (t, g), graphs := regGraph r.ep.graphs g } }, "ok")
    | _, _ => (r, "bad-op")
  | ["ginit", g] =>
    match g.toNat? with
    | some n => ({ r with ep := { r.ep with graphs := sinsert r.ep.graphs n } }, "ok")
    | none => (r, "bad-op")
  | ["add", a, b, c, g] => doOp r (do
      let t ← triple? a b c; let g ← gname? g; pure (.write (.add t g)))
  | "addN" :: rest => doOp r (do let qs ← quads? rest; pure (.write (.addN qs)))
  | ["remove", a, b, c, g] => doOp r (do
      let p ← pat? a b c
      if g = "*" then pure (.write (.remove p .all))
      else let g ← gname? g; pure (.write (.remove p (.one g))))
  | ["rgraph", g] => doOp r (do let g ← gname? g; pure (.write (.removeGraph g)))
  | ["cgraph", g] => doOp r (do let n ← g.toNat?; pure (.write (.addGraph n)))
  | "update" :: g :: rest => doOp r (do
      let g ← gname? g; let us ← lops? (rest.length + 1) rest; pure (.write (.update g us)))
  | ["commit"] => doOp r (some .commit)
  | ["rollback"] => doOp r (some .rollback)
  | ["triples", a, b, c, g] => doOp r (do
      let p ← pat? a b c; let g ← gname? g; pure (.read (.triples p g)))
  | ["len", g] => doOp r (do let g ← gname? g; pure (.read (.len g)))
  | ["contains", a, b, c, g] => doOp r (do
      let p ← pat? a b c; let g ← gname? g; pure (.read (.contains p g)))
  | ["contexts"] => doOp r (some (.read (.contexts none)))
  | ["contexts", a, b, c] => doOp r (do let t ← triple? a b c; pure (.read (.contexts (some t))))
  | ["namedquads"] => doOp r (some (.read .namedQuads))
  | ["opaque"] => doOp r (some (.read .opaque))
  | ["obs"] => (r, showQuads r.ep.quads ++ " | " ++ showNames r.ep.graphs)
  | ["queue"] => (r, toString r.edits.length)
  | _ => (r, "bad-op")

def main : IO Unit := RV.Proto.run step (Remote.init ⟨[], []⟩ true false false false)
