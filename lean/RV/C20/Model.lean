import RV.Base.SetList
/-
  C20 — model of `rdflib/plugins/stores/sparqlstore.py`
  (`SPARQLStore` reads, `SPARQLUpdateStore` writes and the `_edits` queue).

  Two layers (DESIGN §6 C20):

  * the ENDPOINT: a SPARQL dataset = a set of quads (graph `none` = the endpoint's default graph)
    plus the set of recorded named graphs; `UOp` = the update operations whose text the store
    generates, with the set-algebra meaning SPARQL 1.1 Update gives them.  That the generated
    TEXT means this `UOp` is decided by executing it on the loop-back endpoint (correspondence),
    HTTP transport is not modelled at all;
  * the CLIENT: `Remote` = endpoint + `_edits` (a list of request strings, each a sequence of
    operations) + `autocommit`, `dirty_reads`, the `node_to_sparql` hook and read-only-ness.
    Writes are compiled to edits (`compileWrite`, following `add`, `addN`, `remove`, `update`,
    `add_graph`, `remove_graph`), appended, and committed at once under autocommit; `commit`
    sends all edits joined in order and clears; `rollback` clears; reads commit first unless
    `dirty_reads` (or autocommit, where nothing is ever pending).

  Terms are naturals owned by the harness.  `900 ≤ t < 1000` are blank nodes: the default
  `_node_to_sparql` refuses them (`none`); the documented hook maps them to IRIs (`t + 100`).
-/
namespace RV.C20

abbrev Term := Nat
abbrev Triple := Term × Term × Term
/-- `none` = the endpoint's default graph (not contextual), `some g` = the named graph `g` -/
abbrev GName := Option Nat
abbrev Quad := Triple × GName
abbrev TPat := Option Term × Option Term × Option Term

def matchPos (p : Option Nat) (x : Nat) : Bool :=
  match p with
  | none => true
  | some y => x == y

def TPat.matches (p : TPat) (t : Triple) : Bool :=
  matchPos p.1 t.1 && matchPos p.2.1 t.2.1 && matchPos p.2.2 t.2.2

/-! ### The endpoint -/

structure DS where
  quads : List Quad
  graphs : List Nat
  deriving Repr, DecidableEq

/-- the update operations the store's request texts denote -/
inductive UOp
  /-- `INSERT DATA { ts }` / `INSERT DATA { GRAPH g { ts } }` -/
  | insertData (g : GName) (ts : List Triple)
  /-- `DELETE DATA { ts }` / `DELETE DATA { GRAPH g { ts } }` (only through `update()`) -/
  | deleteData (g : GName) (ts : List Triple)
  /-- `DELETE { t } WHERE { t }`, `WITH g DELETE { t } WHERE { t }`, `DELETE WHERE { [GRAPH g] { t } }` -/
  | deleteWhere (g : GName) (p : TPat)
  /-- `DELETE { GRAPH ?G { t } } WHERE { GRAPH ?G { t } }` : every named graph -/
  | deleteNamed (p : TPat)
  /-- `DROP GRAPH g` / `DROP DEFAULT` -/
  | dropGraph (g : GName)
  /-- `CREATE GRAPH g` (the loop-back endpoint accepts an existing graph) -/
  | createGraph (g : Nat)
  deriving Repr, DecidableEq

def regGraph (gs : List Nat) : GName → List Nat
  | none => gs
  | some n => sinsert gs n

def insertAll (qs : List Quad) (g : GName) : List Triple → List Quad
  | [] => qs
  | t :: ts => insertAll (sinsert qs (t, g)) g ts

def removeAll (qs : List Quad) (g : GName) : List Triple → List Quad
  | [] => qs
  | t :: ts => removeAll (sremove qs (t, g)) g ts

def UOp.apply (d : DS) : UOp → DS
  | .insertData g ts =>
    { quads := insertAll d.quads g ts, graphs := if ts.isEmpty then d.graphs else regGraph d.graphs g }
  | .deleteData g ts => { d with quads := removeAll d.quads g ts }
  | .deleteWhere g p => { d with quads := d.quads.filter (fun q => !(q.2 == g && p.matches q.1)) }
  | .deleteNamed p => { d with quads := d.quads.filter (fun q => !(q.2.isSome && p.matches q.1)) }
  | .dropGraph none => { d with quads := d.quads.filter (fun q => !(q.2 == none)) }
  | .dropGraph (some n) =>
    { quads := d.quads.filter (fun q => !(q.2 == some n)), graphs := sremove d.graphs n }
  | .createGraph n => { d with graphs := sinsert d.graphs n }

/-- one request = operations executed in lexical order -/
def applyOps (d : DS) (us : List UOp) : DS := us.foldl UOp.apply d

/-- `"\n;\n".join(edits)` sent as one request: the edits in order, each edit's operations in order -/
def applyEdits (d : DS) (es : List (List UOp)) : DS := es.foldl applyOps d

/-! ### Client side: request generation -/

inductive Err | refused | readOnly
  deriving Repr, DecidableEq

def isBNode (t : Term) : Bool := 900 ≤ t && t < 1000

/-- `node_to_sparql`: the default refuses blank nodes, the hook turns them into IRIs -/
def nts (hook : Bool) (t : Term) : Option Term :=
  if isBNode t then (if hook then some (t + 100) else none) else some t

def encTriple (hook : Bool) (t : Triple) : Option Triple :=
  match nts hook t.1, nts hook t.2.1, nts hook t.2.2 with
  | some a, some b, some c => some (a, b, c)
  | _, _, _ => none

def encPos (hook : Bool) : Option Term → Option (Option Term)
  | none => some none
  | some t => (nts hook t).map some

def encPat (hook : Bool) (p : TPat) : Option TPat :=
  match encPos hook p.1, encPos hook p.2.1, encPos hook p.2.2 with
  | some a, some b, some c => some (a, b, c)
  | _, _, _ => none

def encTriples (hook : Bool) : List Triple → Option (List Triple)
  | [] => some []
  | t :: ts =>
    match encTriple hook t, encTriples hook ts with
    | some t', some ts' => some (t' :: ts')
    | _, _ => none

def encQuads (hook : Bool) : List Quad → Option (List Quad)
  | [] => some []
  | q :: qs =>
    match encTriple hook q.1, encQuads hook qs with
    | some t', some qs' => some ((t', q.2) :: qs')
    | _, _ => none

/-- `contexts[context].append(triple)` on a `defaultdict(list)`: groups in first-seen order -/
def groupAdd : List (GName × List Triple) → Quad → List (GName × List Triple)
  | [], q => [(q.2, [q.1])]
  | (g, ts) :: rest, q => if g = q.2 then (g, ts ++ [q.1]) :: rest else (g, ts) :: groupAdd rest q

def groups (qs : List Quad) : List (GName × List Triple) := qs.foldl groupAdd []

/-- which graphs `remove` addresses: `context=None` (every graph) or one graph -/
inductive CtxSel
  | all
  | one (g : GName)
  deriving Repr, DecidableEq

/-- the "local" operations a text passed to `update()` may contain (no GRAPH keyword);
    `_insert_named_graph` wraps every block in `GRAPH <g> { }` for a contextual graph -/
inductive LOp
  | ins (ts : List Triple)
  | deld (ts : List Triple)
  | delw (p : TPat)
  deriving Repr, DecidableEq

def LOp.wrap (g : GName) : LOp → UOp
  | .ins ts => .insertData g ts
  | .deld ts => .deleteData g ts
  | .delw p => .deleteWhere g p

inductive Write
  | add (t : Triple) (g : GName)
  | addN (qs : List Quad)
  | remove (p : TPat) (sel : CtxSel)
  | removeGraph (g : GName)
  | addGraph (g : Nat)
  | update (g : GName) (us : List LOp)
  deriving Repr, DecidableEq

/-- the strings appended to `_edits` by one write call; `none` = `node_to_sparql` raised
    (nothing is appended then: every term is converted before the queue is touched) -/
def compileWrite (hook : Bool) : Write → Option (List (List UOp))
  | .add t g => (encTriple hook t).map (fun t' => [[.insertData g [t']]])
  | .addN qs => (encQuads hook qs).map (fun qs' => (groups qs').map (fun gt => [.insertData gt.1 gt.2]))
  | .remove p (.one g) => (encPat hook p).map (fun p' => [[.deleteWhere g p']])
  | .remove p .all => (encPat hook p).map (fun p' => [[.deleteWhere none p', .deleteNamed p']])
  | .removeGraph g => some [[.dropGraph g]]
  | .addGraph n => some [[.createGraph n]]
  | .update g us => some [us.map (LOp.wrap g)]

/-! ### Client side: reads (`SPARQLStore.triples`, `__len__`, `contexts`) -/

inductive Pos | s | p | o
  deriving Repr, DecidableEq

/-- the variables of the generated SELECT: exactly the unbound positions, in s, p, o order -/
def selVars (p : TPat) : List Pos :=
  (if p.1.isNone then [Pos.s] else []) ++ (if p.2.1.isNone then [Pos.p] else []) ++
  (if p.2.2.isNone then [Pos.o] else [])

def Triple.at (t : Triple) : Pos → Term
  | .s => t.1
  | .p => t.2.1
  | .o => t.2.2

/-- the endpoint's solution row for a matching triple -/
def project (p : TPat) (t : Triple) : List Term := (selVars p).map t.at

/-- take the value of one position: the bound term of the pattern, else the next row cell -/
def takePos : Option Term → List Term → Option (Term × List Term)
  | some x, row => some (x, row)
  | none, v :: row => some (v, row)
  | none, [] => none

/-- row → triple as in `SPARQLStore.triples` (`none` = the `urn:undef:` fallback would be taken) -/
def rebuild (p : TPat) (row : List Term) : Option Triple :=
  match takePos p.1 row with
  | none => none
  | some (a, r1) =>
    match takePos p.2.1 r1 with
    | none => none
    | some (b, r2) =>
      match takePos p.2.2 r2 with
      | none => none
      | some (c, _) => some (a, b, c)

def graphTriples (d : DS) (g : GName) : List Triple :=
  (d.quads.filter (fun q => q.2 == g)).map (·.1)

/-- what the endpoint answers to `SELECT vars { s p o }` against graph `g` -/
def answerSelect (d : DS) (g : GName) (p : TPat) : List (List Term) :=
  ((graphTriples d g).filter p.matches).map (project p)

/-- what the endpoint answers to `ASK { s p o }` -/
def answerAsk (d : DS) (g : GName) (p : TPat) : Bool :=
  (graphTriples d g).any p.matches

def unwrapPat (p : TPat) : Option Triple :=
  match p with
  | (some a, some b, some c) => some (a, b, c)
  | _ => none

/-- `SPARQLStore.triples(pattern, context)`: `orig` is the caller's pattern (its bound terms are
    yielded as they are), `enc` the pattern after `node_to_sparql` (what is sent) -/
def triplesOut (d : DS) (g : GName) (orig enc : TPat) : List Triple :=
  match unwrapPat orig with
  | some t => if answerAsk d g enc then [t] else []
  | none => (answerSelect d g enc).filterMap (rebuild orig)

inductive Read
  | triples (p : TPat) (g : GName)
  | len (g : GName)
  | contexts (t : Option Triple)
  | contains (p : TPat) (g : GName)
  | namedQuads
  /-- a read whose answer is not modelled (LIMIT/OFFSET slices): only its flush is -/
  | opaque
  deriving Repr, DecidableEq

inductive Out
  | ok
  | err (e : Err)
  | triples (ts : List Triple)
  | num (n : Nat)
  | names (ns : List Nat)
  | bool (b : Bool)
  | quads (qs : List Quad)
  deriving Repr, DecidableEq

def namedOnly (qs : List Quad) : List Quad := qs.filter (fun q => q.2.isSome)

def readOut (hook : Bool) (d : DS) : Read → Out
  | .triples p g =>
    match encPat hook p with
    | none => .err .refused
    | some e => .triples (triplesOut d g p e)
  | .len g => .num (graphTriples d g).length
  | .contexts none => .names d.graphs
  | .contexts (some t) =>
    match encTriple hook t with
    | none => .err .refused
    | some t' => .names (d.graphs.filter (fun n => (t', some n) ∈ d.quads))
  | .contains p g =>
    match encPat hook p with
    | none => .err .refused
    | some e => .bool (!(triplesOut d g p e).isEmpty)
  | .namedQuads => .quads (namedOnly d.quads)
  | .opaque => .ok

/-! ### The client state machine -/

structure Remote where
  ep : DS
  edits : List (List UOp)
  autocommit : Bool
  dirtyReads : Bool
  hook : Bool
  readOnly : Bool
  deriving Repr, DecidableEq

/-- `commit`: send the joined edits, clear the queue (`if self._edits and len(self._edits) > 0`) -/
def Remote.commit (r : Remote) : Remote :=
  if r.edits.isEmpty then r else { r with ep := applyEdits r.ep r.edits, edits := [] }

/-- `rollback`: forget the queue -/
def Remote.rollback (r : Remote) : Remote := { r with edits := [] }

/-- `_transaction().extend(es)`, then `if self.autocommit: self.commit()` -/
def Remote.enqueue (r : Remote) (es : List (List UOp)) : Remote :=
  let r' := { r with edits := r.edits ++ es }
  if r.autocommit then r'.commit else r'

/-- `if not self.autocommit and not self.dirty_reads: self.commit()` before every read -/
def Remote.preRead (r : Remote) : Remote :=
  if !r.autocommit && !r.dirtyReads then r.commit else r

inductive Op
  | write (w : Write)
  | commit
  | rollback
  | read (rd : Read)
  deriving Repr, DecidableEq

def Remote.step (r : Remote) : Op → Remote × Out
  | .write w =>
    if r.readOnly then (r, .err .readOnly)
    else
      match compileWrite r.hook w with
      | none => (r, .err .refused)
      | some es => (r.enqueue es, .ok)
  | .commit => if r.readOnly then (r, .err .readOnly) else (r.commit, .ok)
  | .rollback => if r.readOnly then (r, .err .readOnly) else (r.rollback, .ok)
  | .read rd =>
    -- `node_to_sparql` raises inside SPARQLStore.* i.e. after the pre-read commit
    let r' := if r.readOnly then r else r.preRead
    (r', readOut r.hook r'.ep rd)

def Remote.run (r : Remote) (ops : List Op) : Remote := ops.foldl (fun r o => (r.step o).1) r

def Remote.init (d : DS) (autocommit dirtyReads hook readOnly : Bool) : Remote :=
  { ep := d, edits := [], autocommit := autocommit, dirtyReads := dirtyReads, hook := hook,
    readOnly := readOnly }

end RV.C20
