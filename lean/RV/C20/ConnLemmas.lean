import RV.C20.Conn
/-
  C20 — lemmas about the transport layer (RV/C20/Conn.lean): UTF-8, percent-encoding, urlencode / query-string
  reader, insertion-ordered dicts.
-/
namespace RV.C20

/-! ### UTF-8 -/

theorem char_range (c : Char) : c.toNat < 0xD800 ∨ (0xDFFF < c.toNat ∧ c.toNat < 0x110000) := c.valid

theorem utf8Step_nat (n : Nat) (hr : n < 0xD800 ∨ (0xDFFF < n ∧ n < 0x110000)) (rest : List Nat) :
    utf8Step (utf8Nat n ++ rest) = some (Char.ofNat n, rest) := by
  unfold utf8Nat
  split
  · next h => simp only [List.cons_append, List.nil_append, utf8Step, if_pos h]
  split
  · next h1 h2 =>
    simp only [List.cons_append, List.nil_append, utf8Step, isCont]
    rw [if_neg (by omega), if_neg (by omega), if_pos (by omega)]
    have : (0x80 ≤ 0x80 + n % 64 && decide (0x80 + n % 64 < 0xC0)) = true := by
      simp only [Bool.and_eq_true, decide_eq_true_eq]; omega
    simp only [this, if_true]
    have e : (0xC0 + n / 64 - 0xC0) * 64 + (0x80 + n % 64 - 0x80) = n := by omega
    rw [e]
  split
  · next h1 h2 h3 =>
    simp only [List.cons_append, List.nil_append, utf8Step, isCont, validScalar]
    rw [if_neg (by omega), if_neg (by omega), if_neg (by omega), if_pos (by omega)]
    have e : (0xE0 + n / 4096 - 0xE0) * 4096 + (0x80 + n / 64 % 64 - 0x80) * 64 + (0x80 + n % 64 - 0x80) = n := by omega
    rw [e]
    have : ((decide (0x80 ≤ 0x80 + n / 64 % 64) && decide (0x80 + n / 64 % 64 < 0xC0)) &&
        (decide (0x80 ≤ 0x80 + n % 64) && decide (0x80 + n % 64 < 0xC0)) && decide (0x800 ≤ n) &&
        (decide (n < 0xD800) || (decide (0xE000 ≤ n) && decide (n < 0x110000)))) = true := by
      simp only [Bool.and_eq_true, Bool.or_eq_true, decide_eq_true_eq]; omega
    simp only [this, if_true]
  · next h1 h2 h3 =>
    simp only [List.cons_append, List.nil_append, utf8Step, isCont, validScalar]
    rw [if_neg (by omega), if_neg (by omega), if_neg (by omega), if_neg (by omega), if_pos (by omega)]
    have e : (0xF0 + n / 262144 - 0xF0) * 262144 + (0x80 + n / 4096 % 64 - 0x80) * 4096 +
        (0x80 + n / 64 % 64 - 0x80) * 64 + (0x80 + n % 64 - 0x80) = n := by omega
    rw [e]
    have : ((decide (0x80 ≤ 0x80 + n / 4096 % 64) && decide (0x80 + n / 4096 % 64 < 0xC0)) &&
        (decide (0x80 ≤ 0x80 + n / 64 % 64) && decide (0x80 + n / 64 % 64 < 0xC0)) &&
        (decide (0x80 ≤ 0x80 + n % 64) && decide (0x80 + n % 64 < 0xC0)) && decide (0x10000 ≤ n) &&
        (decide (n < 0xD800) || (decide (0xE000 ≤ n) && decide (n < 0x110000)))) = true := by
      simp only [Bool.and_eq_true, Bool.or_eq_true, decide_eq_true_eq]; omega
    simp only [this, if_true]

theorem utf8Step_char (c : Char) (rest : List Nat) : utf8Step (utf8Char c ++ rest) = some (c, rest) := by
  rw [utf8Char, utf8Step_nat _ (char_range c), Char.ofNat_toNat]

theorem utf8Nat_length_pos (n : Nat) : 0 < (utf8Nat n).length := by
  unfold utf8Nat; repeat' split
  all_goals simp

theorem utf8DecF_succ_of_step {bs : List Nat} {c : Char} {r : List Nat} (f : Nat) (h : utf8Step bs = some (c, r)) :
    utf8DecF (f + 1) bs = (utf8DecF f r).map (c :: ·) := by
  cases bs with
  | nil => simp [utf8Step] at h
  | cons b bs => simp only [utf8DecF, h]

theorem utf8_cons (c : Char) (s : Str) : utf8 (c :: s) = utf8Char c ++ utf8 s := by
  simp [utf8]

theorem utf8_append (s t : Str) : utf8 (s ++ t) = utf8 s ++ utf8 t := by
  simp [utf8]

theorem utf8DecF_utf8 (s : Str) : ∀ f, (utf8 s).length ≤ f → utf8DecF f (utf8 s) = some s := by
  induction s with
  | nil => intro f _; cases f <;> simp [utf8, utf8DecF]
  | cons c s ih =>
    intro f hf
    rw [utf8_cons] at hf ⊢
    have hp := utf8Nat_length_pos c.toNat
    rw [List.length_append] at hf
    have hl : (utf8Char c).length = (utf8Nat c.toNat).length := rfl
    cases f with
    | zero => omega
    | succ f =>
      rw [utf8DecF_succ_of_step f (utf8Step_char c (utf8 s)), ih f (by omega)]
      rfl

theorem utf8Dec_utf8 (s : Str) : utf8Dec (utf8 s) = some s := utf8DecF_utf8 s _ (Nat.le_refl _)

theorem utf8Nat_lt (n : Nat) (h : n < 0x110000) : ∀ b ∈ utf8Nat n, b < 256 := by
  intro b hb
  unfold utf8Nat at hb
  split at hb
  · simp at hb; omega
  split at hb
  · simp at hb; omega
  split at hb
  · simp at hb; omega
  · simp at hb; omega

theorem utf8_lt (s : Str) : ∀ b ∈ utf8 s, b < 256 := by
  intro b hb
  simp only [utf8, List.mem_flatMap] at hb
  obtain ⟨c, _, hb⟩ := hb
  have := char_range c
  exact utf8Nat_lt c.toNat (by omega) b hb

/-! ### percent-encoding -/

/-- what `quote_plus` does to one byte -/
def quoteByte (b : Nat) : Str :=
  if isUnreserved b then [Char.ofNat b] else if b = 32 then ['+'] else ['%', hexDigit (b / 16), hexDigit (b % 16)]

theorem quoteByte_space_branch : ∀ b, b < 256 →
    (quoteByteSafe (fun b => isUnreserved b || b == 32) b).flatMap (fun x => if x = ' ' then ['+'] else [x])
      = quoteByte b := by
  decide +kernel

theorem unreserved_char : ∀ b, b < 256 → isUnreserved b = true →
    (Char.ofNat b ≠ '&' ∧ Char.ofNat b ≠ '=' ∧ Char.ofNat b ≠ '%' ∧ Char.ofNat b ≠ '+' ∧ (Char.ofNat b).toNat = b) := by
  decide +kernel

theorem hexVal_hexDigit : ∀ n, n < 16 → hexVal (hexDigit n) = some n := by
  decide +kernel

theorem mem_utf8Nat_32 {n : Nat} (h : 32 ∈ utf8Nat n) : n = 32 := by
  unfold utf8Nat at h
  repeat' split at h
  all_goals simp at h
  all_goals omega

theorem space_of_mem_utf8 {s : Str} (h : 32 ∈ utf8 s) : s.contains ' ' = true := by
  simp only [utf8, List.mem_flatMap] at h
  obtain ⟨c, hc, hb⟩ := h
  have : c.toNat = (' ' : Char).toNat := mem_utf8Nat_32 hb
  have : c = ' ' := Char.toNat_inj.mp this
  subst this
  simpa using hc

theorem flatMap_congr' {α β} {l : List α} {f g : α → List β} (h : ∀ a ∈ l, f a = g a) : l.flatMap f = l.flatMap g := by
  induction l with
  | nil => rfl
  | cons a l ih =>
    simp only [List.flatMap_cons]
    rw [h a (by simp), ih (fun x hx => h x (by simp [hx]))]

theorem quotePlus_eq (s : Str) : quotePlus s = (utf8 s).flatMap quoteByte := by
  unfold quotePlus
  split
  · simp only [replaceChar, quote, List.flatMap_assoc]
    exact flatMap_congr' (fun b hb => quoteByte_space_branch b (utf8_lt s b hb))
  · next h =>
    simp only [quote]
    apply flatMap_congr'
    intro b hb
    have hne : b ≠ 32 := fun e => h (space_of_mem_utf8 (e ▸ hb))
    simp only [quoteByteSafe, quoteByte, if_neg hne]

/-- the end of a component: nothing, or `&` / `=` -/
def Stops (rest : Str) : Prop := rest = [] ∨ ∃ r, rest = '&' :: r ∨ rest = '=' :: r

theorem readComp_stop (f : Nat) (rest : Str) (h : Stops rest) (hf : rest.length ≤ f) : readComp f rest = some ([], rest) := by
  rcases h with rfl | ⟨r, rfl | rfl⟩
  · cases f <;> rfl
  · cases f with
    | zero => simp at hf
    | succ f => simp [readComp]
  · cases f with
    | zero => simp at hf
    | succ f => simp [readComp]

theorem readComp_quoteByte (b : Nat) (hb : b < 256) (f : Nat) (rest : Str) :
    readComp (f + 1) (quoteByte b ++ rest) = (readComp f rest).map (fun x => (b :: x.1, x.2)) := by
  unfold quoteByte
  split
  · next hu =>
    obtain ⟨h1, h2, h3, h4, h5⟩ := unreserved_char b hb hu
    simp only [List.cons_append, List.nil_append, readComp, h1, h2, h3, h4, h5, hu, or_self, if_false, if_true]
  split
  · next hu h32 =>
    subst h32
    simp [readComp]
  · next hu h32 =>
    simp only [List.cons_append, List.nil_append, readComp]
    rw [hexVal_hexDigit _ (by omega), hexVal_hexDigit _ (by omega)]
    have e : b / 16 * 16 + b % 16 = b := by omega
    cases hr : readComp f rest with
    | none => simp
    | some x => simp [e]

theorem quoteByte_length_pos (b : Nat) : 0 < (quoteByte b).length := by
  unfold quoteByte; repeat' split
  all_goals simp

theorem readComp_quoted (bs : List Nat) (hbs : ∀ b ∈ bs, b < 256) (rest : Str) (hs : Stops rest) :
    ∀ f, (bs.flatMap quoteByte ++ rest).length ≤ f → readComp f (bs.flatMap quoteByte ++ rest) = some (bs, rest) := by
  induction bs with
  | nil => intro f hf; simpa using readComp_stop f rest hs (by simpa using hf)
  | cons b bs ih =>
    intro f hf
    simp only [List.flatMap_cons, List.append_assoc] at hf ⊢
    have hp := quoteByte_length_pos b
    rw [List.length_append] at hf
    cases f with
    | zero => omega
    | succ f =>
      rw [readComp_quoteByte b (hbs b (by simp)), ih (fun x hx => hbs x (by simp [hx])) f (by omega)]
      rfl

theorem readComp_quotePlus (s : Str) (rest : Str) (hs : Stops rest) :
    readComp (quotePlus s ++ rest).length (quotePlus s ++ rest) = some (utf8 s, rest) := by
  rw [quotePlus_eq]
  exact readComp_quoted _ (utf8_lt s) rest hs _ (Nat.le_refl _)

/-! ### `urlencode` read back -/

def pairStr (kv : Str × Str) : Str := quotePlus kv.1 ++ '=' :: quotePlus kv.2

theorem urlencode_nil : urlencode [] = [] := rfl
theorem urlencode_single (kv : Str × Str) : urlencode [kv] = pairStr kv := rfl
theorem urlencode_cons2 (kv kv' : Str × Str) (ps : List (Str × Str)) :
    urlencode (kv :: kv' :: ps) = pairStr kv ++ '&' :: urlencode (kv' :: ps) := rfl

theorem urlencode_cons_ne_nil (kv : Str × Str) (ps : List (Str × Str)) : urlencode (kv :: ps) ≠ [] := by
  cases ps with
  | nil => simp [urlencode_single, pairStr]
  | cons kv' ps => simp [urlencode_cons2, pairStr]

theorem readPairs_succ (f : Nat) {s : Str} (h : s ≠ []) :
    readPairs (f + 1) s =
      match readComp s.length s with
      | some (kb, '=' :: r) =>
        match readComp r.length r with
        | some (vb, rest) =>
          match utf8Dec kb, utf8Dec vb with
          | some k, some v =>
            match rest with
            | [] => some [(k, v)]
            | '&' :: rest' =>
              if rest'.isEmpty then none else (readPairs f rest').map ((k, v) :: ·)
            | _ => none
          | _, _ => none
        | none => none
      | _ => none := by
  cases s with
  | nil => exact absurd rfl h
  | cons c s => rfl

theorem readPairs_urlencode (ps : List (Str × Str)) : ∀ f, (urlencode ps).length ≤ f → readPairs f (urlencode ps) = some ps := by
  induction ps with
  | nil => intro f _; cases f <;> rfl
  | cons kv ps ih =>
    intro f hf
    have hne := urlencode_cons_ne_nil kv ps
    cases f with
    | zero => cases h : urlencode (kv :: ps) with
      | nil => exact absurd h hne
      | cons c s => rw [h] at hf; simp at hf
    | succ f =>
      rw [readPairs_succ f hne]
      cases ps with
      | nil =>
        rw [urlencode_single, pairStr]
        rw [readComp_quotePlus kv.1 _ (Or.inr ⟨_, Or.inr rfl⟩)]
        simp only []
        have := readComp_quotePlus kv.2 [] (Or.inl rfl)
        rw [List.append_nil] at this
        rw [this]
        simp only [utf8Dec_utf8]
      | cons kv' ps =>
        rw [urlencode_cons2] at hf ⊢
        have e : pairStr kv ++ '&' :: urlencode (kv' :: ps) =
            quotePlus kv.1 ++ '=' :: (quotePlus kv.2 ++ '&' :: urlencode (kv' :: ps)) := by
          simp [pairStr]
        rw [e] at hf ⊢
        rw [readComp_quotePlus kv.1 _ (Or.inr ⟨_, Or.inr rfl⟩)]
        simp only []
        rw [readComp_quotePlus kv.2 _ (Or.inr ⟨_, Or.inl rfl⟩)]
        simp only [utf8Dec_utf8]
        have hne' := urlencode_cons_ne_nil kv' ps
        have : (urlencode (kv' :: ps)).isEmpty = false := by
          cases h : urlencode (kv' :: ps) with
          | nil => exact absurd h hne'
          | cons c s => rfl
        rw [this, ih f (by simp only [List.length_append, List.length_cons] at hf; omega)]
        rfl

theorem readQS_urlencode (ps : List (Str × Str)) : readQS (urlencode ps) = some ps :=
  readPairs_urlencode ps _ (Nat.le_refl _)

/-! ### URL splitting, dicts -/

theorem splitQ_append (ep qs : Str) (h : ep.contains '?' = false) : splitQ (ep ++ '?' :: qs) = (ep, some qs) := by
  induction ep with
  | nil => simp [splitQ]
  | cons c ep ih =>
    simp only [List.contains_cons, Bool.or_eq_false_iff, beq_eq_false_iff_ne] at h
    simp only [List.cons_append, splitQ, ih h.2]
    rw [if_neg (fun e => h.1 e.symm)]

theorem splitQ_noq (ep : Str) (h : ep.contains '?' = false) : splitQ ep = (ep, none) := by
  induction ep with
  | nil => simp [splitQ]
  | cons c ep ih =>
    simp only [List.contains_cons, Bool.or_eq_false_iff, beq_eq_false_iff_ne] at h
    simp only [splitQ, ih h.2]
    rw [if_neg (fun e => h.1 e.symm)]

theorem dget_dset_same (d : List (Str × Str)) (k v : Str) : dget (dset d k v) k = some v := by
  induction d with
  | nil => simp [dset, dget]
  | cons kv d ih =>
    simp only [dset]
    split
    · simp [dget]
    · next h => simp [dget, h, ih]

theorem dget_dset_other (d : List (Str × Str)) (k k' v : Str) (h : k' ≠ k) : dget (dset d k v) k' = dget d k' := by
  induction d with
  | nil => simp [dset, dget, h.symm]
  | cons kv d ih =>
    simp only [dset]
    split
    · next e => subst e; simp [dget, h.symm]
    · next e => simp only [dget, ih]

theorem without_dset (d : List (Str × Str)) (k v : Str) : without k (dset d k v) = without k d := by
  induction d with
  | nil => simp [dset, without]
  | cons kv d ih =>
    simp only [dset]
    split
    · next e => subst e; simp [without]
    · next e =>
      simp only [without, List.filter_cons] at ih ⊢
      rw [ih]

theorem mediaType_noSemi (s : Str) (h : s.contains ';' = false) : mediaType s = s := by
  induction s with
  | nil => rfl
  | cons c s ih =>
    simp only [List.contains_cons, Bool.or_eq_false_iff, beq_eq_false_iff_ne] at h
    simp only [mediaType, ih h.2]
    rw [if_neg (fun e => h.1 e.symm)]

end RV.C20
