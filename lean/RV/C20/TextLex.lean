import RV.C20.Text
/-
  C20 text layer, lemmas 1: white space, IRIs, string literals.
  (The `replaceChar` / `replTriple` / `trailBs` lemmas follow the ones of RV/C07/LemmasText.lean,
  restated here for this module's own copies of the `_quote_encode` functions, with a stronger
  invariant: the encoded body is not only a spelling of the lexical form, it is also safe for a
  left-to-right scanner that stops at the first unescaped closing delimiter.)
-/
namespace RV.C20

/-! ### white space -/

theorem ws_cons (c : Char) (r : Str) (h1 : isWs c = false) (h2 : c ≠ '#') : ws (c :: r) = c :: r := by
  simp [ws, skip, h1, h2]

theorem ws_sp (r : Str) : ws (' ' :: r) = ws r := by simp [ws, skip, isWs]
theorem ws_nl (r : Str) : ws ('\n' :: r) = ws r := by simp [ws, skip, isWs]

theorem ws_lt (r : Str) : ws ('<' :: r) = '<' :: r := ws_cons _ _ (by decide) (by decide)
theorem ws_dq (r : Str) : ws ('"' :: r) = '"' :: r := ws_cons _ _ (by decide) (by decide)
theorem ws_qm (r : Str) : ws ('?' :: r) = '?' :: r := ws_cons _ _ (by decide) (by decide)

theorem sym_here (c : Char) (r : Str) (h1 : isWs c = false) (h2 : c ≠ '#') : sym c (c :: r) = some r := by
  simp [sym, ws_cons c r h1 h2]

theorem sym_sp (c : Char) (r : Str) : sym c (' ' :: r) = sym c r := by simp [sym, ws_sp]
theorem sym_nl (c : Char) (r : Str) : sym c ('\n' :: r) = sym c r := by simp [sym, ws_nl]

/-! ### IRIs -/

theorem splitAt?_append (stop : Char) : ∀ (b rest : Str), stop ∉ b →
    splitAt? stop (b ++ stop :: rest) = some (b, rest)
  | [], rest, _ => by simp [splitAt?]
  | c :: b, rest, h => by
    have hc : c ≠ stop := fun e => h (by simp [e])
    have hb : stop ∉ b := fun e => h (List.mem_cons_of_mem _ e)
    simp [splitAt?, hc, splitAt?_append stop b rest hb]

theorem iriOK_mem {s : Str} (h : iriOK s = true) {c : Char} (hc : c ∈ s) :
    Tables.invalidUriChars.contains c = false ∧ ' ' < c := by
  simp only [iriOK, List.all_eq_true, Bool.and_eq_true, Bool.not_eq_true', decide_eq_true_eq] at h
  exact h c hc

theorem iriOK_gt {s : Str} (h : iriOK s = true) : '>' ∉ s := by
  intro hc
  have := (iriOK_mem h hc).1
  revert this; decide

theorem iriOK_valid {s : Str} (h : iriOK s = true) : isValidUri s = true := by
  simp only [isValidUri, List.all_eq_true, Bool.not_eq_true']
  intro c hc
  cases hs : s.contains c with
  | false => rfl
  | true =>
    have hm : c ∈ s := by simpa using hs
    have := (iriOK_mem h hm).1
    have hc' : Tables.invalidUriChars.contains c = true := by simpa using hc
    rw [hc'] at this; cases this

theorem readIriRaw_write (s rest : Str) (h : iriOK s = true) :
    readIriRaw ('<' :: s ++ '>' :: rest) = some (s, rest) := by
  simp [readIriRaw, splitAt?_append '>' s rest (iriOK_gt h), h]

theorem readIriRaw_write' (s rest : Str) (h : iriOK s = true) :
    readIriRaw ('<' :: (s ++ '>' :: rest)) = some (s, rest) := readIriRaw_write s rest h

theorem wTerm_iri (s : Str) (h : iriOK s = true) : wTerm (.iri s) = some ('<' :: s ++ ['>']) := by
  simp [wTerm, iriOK_valid h]

/-! ### `str.replace` of one character -/

@[simp] theorem replaceChar_nil (c : Char) (rep : Str) : replaceChar c rep [] = [] := rfl

theorem replaceChar_cons (c : Char) (rep : Str) (x : Char) (s : Str) :
    replaceChar c rep (x :: s) = (if x = c then rep else [x]) ++ replaceChar c rep s := by
  simp [replaceChar, List.flatMap_cons]

theorem replaceChar_not_mem (c : Char) (rep : Str) : ∀ s : Str, c ∉ s → replaceChar c rep s = s
  | [], _ => rfl
  | x :: s, h => by
    have hx : x ≠ c := fun e => h (by simp [e])
    have hs : c ∉ s := fun e => h (List.mem_cons_of_mem _ e)
    rw [replaceChar_cons, if_neg hx, replaceChar_not_mem c rep s hs]
    rfl

/-! ### short strings -/

/-- what the short branch makes of one character (no LF in the string) -/
def encS (c : Char) : Str :=
  if c = '\\' then ['\\', '\\'] else if c = '"' then ['\\', '"'] else if c = '\r' then ['\\', 'r'] else [c]

theorem shortEncode_flat : ∀ (s : Str), '\n' ∉ s → shortEncode s = s.flatMap encS
  | [], _ => rfl
  | c :: s, h => by
    have hc : c ≠ '\n' := fun e => h (by simp [e])
    have hs : '\n' ∉ s := fun e => h (List.mem_cons_of_mem _ e)
    have ih := shortEncode_flat s hs
    unfold shortEncode at ih ⊢
    rw [replaceChar_not_mem _ _ _ h]
    rw [replaceChar_not_mem _ _ _ hs] at ih
    rw [List.flatMap_cons, ← ih]
    by_cases h1 : c = '\\'
    · subst h1; simp [replaceChar_cons, encS, replaceChar, List.flatMap_cons]
    · by_cases h2 : c = '"'
      · subst h2; simp [replaceChar_cons, encS, replaceChar, List.flatMap_cons]
      · by_cases h3 : c = '\r'
        · subst h3; simp [replaceChar_cons, encS, replaceChar, List.flatMap_cons]
        · simp [replaceChar_cons, encS, h1, h2, h3]

theorem readShort_plain (c : Char) (r : Str) (h1 : c ≠ '"') (h2 : c ≠ '\\') (h3 : c ≠ '\n') (h4 : c ≠ '\r') :
    readShort (c :: r) = (readShort r).map (fun br => (c :: br.1, br.2)) := by
  rw [readShort.eq_def]
  split
  · next h => cases h
  · next h => injection h with h _; exact absurd h h1
  · next h => injection h with h _; exact absurd h h2
  · next c' r' _ _ h =>
    injection h with ha hb
    subst ha; subst hb
    simp [h2, h3, h4]

theorem readShort_flat : ∀ (s rest : Str), '\n' ∉ s →
    readShort (s.flatMap encS ++ '"' :: rest) = some (s, rest)
  | [], rest, _ => by simp [readShort]
  | c :: s, rest, h => by
    have hc : c ≠ '\n' := fun e => h (by simp [e])
    have hs : '\n' ∉ s := fun e => h (List.mem_cons_of_mem _ e)
    have ih := readShort_flat s rest hs
    rw [List.flatMap_cons]
    by_cases h1 : c = '\\'
    · subst h1; simp [encS, readShort, unesc, ih]
    · by_cases h2 : c = '"'
      · subst h2; simp [encS, readShort, unesc, ih]
      · by_cases h3 : c = '\r'
        · subst h3; simp [encS, readShort, unesc, ih]
        · simp only [encS, h1, h2, h3, if_false, List.cons_append, List.nil_append]
          rw [readShort_plain c _ h2 h1 hc h3, ih]
          rfl

theorem readShort_enc (s rest : Str) (h : '\n' ∉ s) :
    readShort (shortEncode s ++ '"' :: rest) = some (s, rest) := by
  rw [shortEncode_flat s h]; exact readShort_flat s rest h

/-- the short body never starts with a raw quote -/
theorem shortEncode_head (s : Str) (h : '\n' ∉ s) (rest : Str) (hr : rest.head? ≠ some '"') :
    ∀ r, shortEncode s ++ '"' :: rest ≠ '"' :: '"' :: r := by
  intro r
  rw [shortEncode_flat s h]
  cases s with
  | nil =>
    simp only [List.flatMap_nil, List.nil_append, ne_eq, List.cons.injEq, true_and]
    intro e
    cases rest with
    | nil => cases e
    | cons x xs => injection e with e1 _; subst e1; simp at hr
  | cons c s =>
    rw [List.flatMap_cons]
    by_cases h1 : c = '\\'
    · subst h1; simp [encS]
    · by_cases h2 : c = '"'
      · subst h2; simp [encS]
      · by_cases h3 : c = '\r'
        · subst h3; simp [encS]
        · simp [encS, h1, h2, h3]

end RV.C20
