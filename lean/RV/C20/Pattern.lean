import RV.C20.Lemmas
/-
  C20 — the pattern → SELECT/ASK → rows → triples round trip of `SPARQLStore.triples`.
-/
namespace RV.C20

def TPat.at (p : TPat) : Pos → Option Term
  | .s => p.1
  | .p => p.2.1
  | .o => p.2.2

theorem mem_selVars (p : TPat) (x : Pos) : x ∈ selVars p ↔ p.at x = none := by
  obtain ⟨a, b, c⟩ := p
  cases a <;> cases b <;> cases c <;> cases x <;> simp [selVars, TPat.at]

theorem selVars_nodup (p : TPat) : (selVars p).Nodup := by
  obtain ⟨a, b, c⟩ := p
  cases a <;> cases b <;> cases c <;> simp [selVars]

theorem selVars_nil_iff (p : TPat) : selVars p = [] ↔ (unwrapPat p).isSome = true := by
  obtain ⟨a, b, c⟩ := p
  cases a <;> cases b <;> cases c <;> simp [selVars, unwrapPat]

theorem rebuild_project (p : TPat) (t : Triple) (h : p.matches t = true) :
    rebuild p (project p t) = some t := by
  obtain ⟨a, b, c⟩ := p
  obtain ⟨x, y, z⟩ := t
  cases a <;> cases b <;> cases c <;>
    simp_all [rebuild, project, selVars, takePos, Triple.at, TPat.matches, matchPos]

theorem matches_full (a b c : Term) (t : Triple) :
    TPat.matches (some a, some b, some c) t = true ↔ t = (a, b, c) := by
  obtain ⟨x, y, z⟩ := t
  simp [TPat.matches, matchPos, and_assoc]

theorem unwrapPat_some {p : TPat} {t : Triple} (h : unwrapPat p = some t) :
    p = (some t.1, some t.2.1, some t.2.2) := by
  obtain ⟨a, b, c⟩ := p
  cases a <;> cases b <;> cases c <;> simp_all [unwrapPat]
  subst h
  exact ⟨rfl, rfl, rfl⟩

theorem mem_graphTriples (d : DS) (g : GName) (t : Triple) :
    t ∈ graphTriples d g ↔ (t, g) ∈ d.quads := by
  simp only [graphTriples, List.mem_map, List.mem_filter, beq_iff_eq]
  constructor
  · rintro ⟨⟨qt, qg⟩, ⟨hq, hg⟩, rfl⟩
    simp only at hg
    subst hg
    exact hq
  · intro h
    exact ⟨(t, g), ⟨h, rfl⟩, rfl⟩

/-- `SPARQLStore.triples` (on supported terms, where the pattern sent is the pattern given) yields
    exactly the matching triples of the addressed graph -/
theorem mem_triplesOut (d : DS) (g : GName) (p : TPat) (t : Triple) :
    t ∈ triplesOut d g p p ↔ ((t, g) ∈ d.quads ∧ p.matches t = true) := by
  unfold triplesOut
  cases hu : unwrapPat p with
  | some t0 =>
    have hp := unwrapPat_some hu
    subst hp
    simp only [answerAsk, List.any_eq_true]
    constructor
    · intro h
      split at h
      · next hany =>
        obtain ⟨t', ht', hm⟩ := hany
        rw [matches_full] at hm
        subst hm
        simp only [List.mem_cons, List.not_mem_nil, or_false] at h
        subst h
        exact ⟨(mem_graphTriples d g _).mp ht', (matches_full _ _ _ _).mpr rfl⟩
      · simp at h
    · rintro ⟨hq, hm⟩
      rw [matches_full] at hm
      have hex : ∃ x, x ∈ graphTriples d g ∧ TPat.matches (some t0.1, some t0.2.1, some t0.2.2) x = true :=
        ⟨t, (mem_graphTriples d g t).mpr hq, (matches_full _ _ _ _).mpr hm⟩
      rw [if_pos hex, hm]
      simp
  | none =>
    simp only [answerSelect, List.mem_filterMap, List.mem_map, List.mem_filter]
    constructor
    · rintro ⟨row, ⟨t', ⟨ht', hm⟩, rfl⟩, hr⟩
      rw [rebuild_project p t' hm] at hr
      obtain ⟨rfl⟩ := hr
      exact ⟨(mem_graphTriples d g _).mp ht', hm⟩
    · rintro ⟨hq, hm⟩
      exact ⟨project p t, ⟨t, ⟨(mem_graphTriples d g t).mpr hq, hm⟩, rfl⟩, rebuild_project p t hm⟩

end RV.C20
