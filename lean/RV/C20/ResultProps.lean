import RV.C20.ResultLemmas
import RV.C20.ResultModel
/-
  C20 — result decoding theorems: the W3C results document of the endpoint's answer, read by the store's result
  parsers (tree level), is that answer: same variables, same rows in the same order, every term unchanged.
-/
namespace RV.C20

def Statement_result_decoding_exact : Prop :=
  -- SELECT: any variables (distinct), any number of rows, unbound cells, terms of every kind (IRIs, blank nodes, plain /
  -- typed / language-tagged literals with ANY lexical form)
  (∀ (f : ResFormat) (vars : List Res.Str) (rows : List Res.Row), Res.Aligned vars rows →
    (∀ r ∈ rows, Res.rowAll Res.termOk r = true) →
    Res.roundTrip f (.select vars rows) = .ok (.select vars rows)) ∧
  -- ASK
  (∀ (f : ResFormat) (b : Bool), Res.roundTrip f (.ask b) = .ok (.ask b))

theorem rowAll_mono {p q : Res.Term → Bool} (h : ∀ t, p t = true → q t = true) :
    ∀ r : Res.Row, Res.rowAll p r = true → Res.rowAll q r = true
  | [], _ => rfl
  | none :: r, hr => by simpa [Res.rowAll] using rowAll_mono h r (by simpa [Res.rowAll] using hr)
  | some t :: r, hr => by
    have h' : p t = true ∧ Res.rowAll p r = true := by simpa [Res.rowAll] using hr
    simp [Res.rowAll, h t h'.1, rowAll_mono h r h'.2]

theorem result_decoding_exact : Statement_result_decoding_exact := by
  refine ⟨?_, ?_⟩
  · intro f vars rows ha hr
    cases f with
    | json =>
      exact Res.ofJson_wireJson_select ha (fun r h => rowAll_mono (fun t ht => by
        simp only [Res.termOk, Bool.and_eq_true] at ht; exact ht.1) r (hr r h))
    | xml =>
      exact Res.ofXml_wireXml_select ha (fun r h => rowAll_mono (fun t ht => by
        simp only [Res.termOk, Bool.and_eq_true] at ht; exact ht.2) r (hr r h))
  · intro f b
    cases f with
    | json => exact Res.ofJson_wireJson_ask b
    | xml => exact Res.ofXml_wireXml_ask b

/-! ### composed with the store-level model: the answer of `SPARQLStore.triples`' query comes back as it is -/

def Statement_answer_comes_back : Prop :=
  ∀ (f : ResFormat) (V : Nat → Res.Term), (∀ n, Res.termOk (V n) = true) → ∀ (d : DS) (g : GName) (enc : TPat),
    Res.roundTrip f (wireAnswer V d g enc) = .ok (wireAnswer V d g enc) ∧
    Res.roundTrip f (.ask (answerAsk d g enc)) = .ok (.ask (answerAsk d g enc))

theorem selVars_names_nodup (p : TPat) : ((selVars p).map Pos.name).Nodup := by
  obtain ⟨a, b, c⟩ := p
  cases a <;> cases b <;> cases c <;> simp +decide [selVars, Pos.name]

theorem rowAll_lift (V : Nat → Res.Term) (hV : ∀ n, Res.termOk (V n) = true) (row : List Nat) :
    Res.rowAll Res.termOk (row.map (fun x => some (V x))) = true := by
  induction row with
  | nil => rfl
  | cons x xs ih => simp [Res.rowAll, hV x, ih]

theorem answer_comes_back : Statement_answer_comes_back := by
  intro f V hV d g enc
  refine ⟨?_, result_decoding_exact.2 f _⟩
  apply result_decoding_exact.1 f
  · refine ⟨selVars_names_nodup enc, ?_⟩
    intro r hr
    simp only [answerSelect, List.map_map, List.mem_map] at hr
    obtain ⟨t, _, rfl⟩ := hr
    simp [project]
  · intro r hr
    simp only [List.mem_map] at hr
    obtain ⟨row, _, rfl⟩ := hr
    exact rowAll_lift V hV row

/-! ### non-vacuity -/

example : (Res.roundTrip .xml (.select ["s".toList, "o".toList]
      [[some (.iri "http://e/s".toList), some (.lang "l\n\"x\" <&>".toList "en-GB".toList)],
       [some (.bnode "b0".toList), none],
       [some (.iri "urn:x".toList), some (.typed [] "http://e/dt".toList)]])).toOption =
    some (.select ["s".toList, "o".toList]
      [[some (.iri "http://e/s".toList), some (.lang "l\n\"x\" <&>".toList "en-GB".toList)],
       [some (.bnode "b0".toList), none],
       [some (.iri "urn:x".toList), some (.typed [] "http://e/dt".toList)]]) := by decide +kernel

example : (Res.roundTrip .json (.select ["c".toList] [[some (.typed "3".toList "http://www.w3.org/2001/XMLSchema#integer".toList)]])).toOption =
    some (.select ["c".toList] [[some (.typed "3".toList "http://www.w3.org/2001/XMLSchema#integer".toList)]]) := by
  decide +kernel

/-- the hypothesis on language tags is needed: `Literal(…, lang="not a tag")` raises in rdflib -/
example : (Res.roundTrip .json (.select ["o".toList] [[some (.lang "x".toList "not a tag".toList)]])).toOption = none := by
  decide +kernel

end RV.C20
