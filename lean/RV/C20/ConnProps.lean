import RV.C20.ConnLemmas
/-
  C20 — transport theorems: the HTTP request `SPARQLConnector.query` / `.update` assembles, read by a SPARQL 1.1
  Protocol server (`serverRead`, the specification), is the operation the store asked for.
-/
namespace RV.C20

def viaOf : CMethod → Via
  | .GET => .get
  | .POST => .direct
  | .POST_FORM => .form

/-- the parameters a query request carries besides its text: the caller's `params=` updated with the graph argument;
    where the text itself travels as the parameter `query` (GET, POST_FORM) a caller's own `query` entry is replaced by it -/
def queryParams (c : Conn) (dg : DG) : List (Str × Str) :=
  match c.method with
  | .POST => dupdate c.params (dgParams dg)
  | _ => without sQuery (dupdate c.params (dgParams dg))

/-- hypotheses on the configuration: endpoint URLs without `?` (the code appends `"?" + urlencode(…)` blindly);
    with POST_FORM the caller's keyword arguments neither set a Content-Type (urllib then sends the form default)
    nor use the protocol's parameter name `update` -/
structure ConnOK (c : Conn) : Prop where
  qep : c.queryEndpoint.contains '?' = false
  uep : c.updateEndpoint.contains '?' = false
  form : c.method = .POST_FORM → dget c.headers sContentType = none ∧ dget c.params sUpdate = none

def Statement_request_assembly_means_op : Prop :=
  -- (1) queries: for every method, text (any characters), graph argument and caller params / headers
  (∀ (c : Conn) (q : Str) (dg : DG), ConnOK c → c.queryEndpoint ≠ [] →
    ∃ r, c.query q dg = .ok r ∧
      serverRead r = some ⟨.query, viaOf c.method, c.queryEndpoint, q, queryParams c dg, some c.accept⟩ ∧
      (∀ g, dg = .iri g → dget (queryParams c dg) sDefaultGraphUri = some g)) ∧
  -- (2) updates: always a direct POST to the UPDATE endpoint, whatever the configured method
  (∀ (c : Conn) (u : Str) (dg ng : Option Str), ConnOK c → c.updateEndpoint ≠ [] →
    ∃ r, c.update u dg ng = .ok r ∧
      serverRead r = some ⟨.update, .direct, c.updateEndpoint, u,
        dupdate c.params (optParam sUsingGraphUri dg ++ optParam sUsingNamedGraphUri ng), some c.accept⟩) ∧
  -- (3) no endpoint, no request
  (∀ (c : Conn) (q : Str) (dg : DG), c.queryEndpoint = [] → c.query q dg = .error .endpointNotSet) ∧
  (∀ (c : Conn) (u : Str) (dg ng : Option Str), c.updateEndpoint = [] → c.update u dg ng = .error .endpointNotSet)

theorem sAccept_ne_ct : sContentType ≠ sAccept := by decide
theorem sQuery_ne_update : sUpdate ≠ sQuery := by decide
theorem sDgu_ne_update : sUpdate ≠ sDefaultGraphUri := by decide
theorem sDgu_ne_query : sDefaultGraphUri ≠ sQuery := by decide

theorem dget_without_other (d : List (Str × Str)) (k k' : Str) (h : k' ≠ k) : dget (without k d) k' = dget d k' := by
  induction d with
  | nil => rfl
  | cons kv d ih =>
    simp only [without, List.filter_cons] at ih ⊢
    by_cases e : kv.1 = k
    · subst e
      simp only [beq_self_eq_true, Bool.not_true, Bool.false_eq_true, if_false, ih, dget]
      rw [if_neg (fun e => h e.symm)]
    · have : (kv.1 == k) = false := by simpa using e
      simp only [this, Bool.not_false, if_true, dget, ih]

theorem dupdate_dset_query (d : List (Str × Str)) (dg : DG) (q : Str) :
    dupdate d (dset (dgParams dg) sQuery q) = dset (dupdate d (dgParams dg)) sQuery q := by
  cases dg <;> simp [dgParams, dset, dupdate, sDgu_ne_query]

theorem isEmpty_false_of_ne {s : Str} (h : s ≠ []) : s.isEmpty = false := by
  cases s with
  | nil => exact absurd rfl h
  | cons c s => rfl

theorem query_get (c : Conn) (q : Str) (dg : DG) (ok : ConnOK c) :
    serverRead { url := c.queryEndpoint ++ '?' :: urlencode (dupdate c.params (dset (dgParams dg) sQuery q)),
                 headers := dupdate c.headers [(sAccept, c.accept)], data := none } =
      some ⟨.query, .get, c.queryEndpoint, q, without sQuery (dupdate c.params (dgParams dg)), some c.accept⟩ := by
  simp only [serverRead, splitQ_append _ _ ok.qep, Option.getD_some, readQS_urlencode, dupdate_dset_query,
    dget_dset_same, Option.map_some, without_dset]
  simp [dupdate, dget_dset_same]

theorem query_post (c : Conn) (q : Str) (dg : DG) (ok : ConnOK c) :
    serverRead { url := c.queryEndpoint ++ '?' :: urlencode (dupdate c.params (dgParams dg)),
                 headers := dupdate (dupdate c.headers [(sAccept, c.accept)]) [(sContentType, sSparqlQuery)],
                 data := some (utf8 q) } =
      some ⟨.query, .direct, c.queryEndpoint, q, dupdate c.params (dgParams dg), some c.accept⟩ := by
  have hct : dget (dupdate (dupdate c.headers [(sAccept, c.accept)]) [(sContentType, sSparqlQuery)]) sContentType
      = some sSparqlQuery := by simp [dupdate, dget_dset_same]
  have hacc : dget (dupdate (dupdate c.headers [(sAccept, c.accept)]) [(sContentType, sSparqlQuery)]) sAccept
      = some c.accept := by
    simp only [dupdate, List.foldl_cons, List.foldl_nil]
    rw [dget_dset_other _ _ _ _ sAccept_ne_ct.symm, dget_dset_same]
  have hm : mediaType sSparqlQuery = sSparqlQuery := by decide
  simp only [serverRead, splitQ_append _ _ ok.qep, Option.getD_some, readQS_urlencode, hct, hacc, Option.map_some, hm,
    if_true, utf8Dec_utf8]

theorem query_form (c : Conn) (q : Str) (dg : DG) (ok : ConnOK c) (hm : c.method = .POST_FORM) :
    serverRead { url := c.queryEndpoint, headers := dupdate c.headers [(sAccept, c.accept)],
                 data := some (utf8 (urlencode (dupdate c.params (dset (dgParams dg) sQuery q)))) } =
      some ⟨.query, .form, c.queryEndpoint, q, without sQuery (dupdate c.params (dgParams dg)), some c.accept⟩ := by
  obtain ⟨h1, h2⟩ := ok.form hm
  have hct : dget (dupdate c.headers [(sAccept, c.accept)]) sContentType = none := by
    simp only [dupdate, List.foldl_cons, List.foldl_nil]
    rw [dget_dset_other _ _ _ _ sAccept_ne_ct, h1]
  have hacc : dget (dupdate c.headers [(sAccept, c.accept)]) sAccept = some c.accept := by
    simp [dupdate, dget_dset_same]
  have hu : dget (dset (dupdate c.params (dgParams dg)) sQuery q) sUpdate = none := by
    rw [dget_dset_other _ _ _ _ sQuery_ne_update]
    cases dg <;> simp only [dgParams, dupdate, List.foldl_cons, List.foldl_nil, h2]
    rw [dget_dset_other _ _ _ _ sDgu_ne_update, h2]
  simp only [serverRead, splitQ_noq _ ok.qep, Option.getD_none, hct, hacc, Option.map_none, utf8Dec_utf8,
    Option.bind_some, readQS_urlencode, dupdate_dset_query]
  simp only [readQS, readPairs, List.length_nil, List.nil_append, dget_dset_same, hu, without_dset]
  simp

theorem request_assembly_means_op : Statement_request_assembly_means_op := by
  refine ⟨?_, ?_, ?_, ?_⟩
  · intro c q dg ok hne
    have he := isEmpty_false_of_ne hne
    have hg : ∀ g, dg = .iri g → dget (queryParams c dg) sDefaultGraphUri = some g := by
      intro g e
      subst e
      unfold queryParams
      split
      · simp [dgParams, dupdate, dget_dset_same]
      · rw [dget_without_other _ _ _ sDgu_ne_query]
        simp [dgParams, dupdate, dget_dset_same]
    cases hm : c.method with
    | GET =>
      refine ⟨_, by simp only [Conn.query, he, hm]; rfl, ?_, hg⟩
      simpa [viaOf, queryParams, hm] using query_get c q dg ok
    | POST =>
      refine ⟨_, by simp only [Conn.query, he, hm]; rfl, ?_, hg⟩
      simpa [viaOf, queryParams, hm] using query_post c q dg ok
    | POST_FORM =>
      refine ⟨_, by simp only [Conn.query, he, hm]; rfl, ?_, hg⟩
      simpa [viaOf, queryParams, hm] using query_form c q dg ok hm
  · intro c u dg ng ok hne
    have he := isEmpty_false_of_ne hne
    refine ⟨_, by simp only [Conn.update, he]; rfl, ?_⟩
    have hct : dget (dupdate c.headers [(sAccept, c.accept), (sContentType, sSparqlUpdateCT)]) sContentType
        = some sSparqlUpdateCT := by simp [dupdate, dget_dset_same]
    have hacc : dget (dupdate c.headers [(sAccept, c.accept), (sContentType, sSparqlUpdateCT)]) sAccept
        = some c.accept := by
      simp only [dupdate, List.foldl_cons, List.foldl_nil]
      rw [dget_dset_other _ _ _ _ sAccept_ne_ct.symm, dget_dset_same]
    have hm : mediaType sSparqlUpdateCT = sSparqlUpdate := by decide
    have hne' : sSparqlUpdate ≠ sSparqlQuery := by decide
    simp only [serverRead, splitQ_append _ _ ok.uep, Option.getD_some, readQS_urlencode, hct, hacc, Option.map_some, hm,
      if_true, utf8Dec_utf8, Option.some.injEq, hne', if_false]
  · intro c q dg h
    simp [Conn.query, h]
  · intro c u dg ng h
    simp [Conn.update, h]

/-! ### `_is_contextual`: which graph a read addresses -/

/-- A store that is not context aware never names a graph; a context-aware one names exactly the graphs that are
    neither absent, nor `"__UNION__"`, nor the dataset's default-graph identifier — and then the request the connector
    assembles carries that identifier as its `default-graph-uri`, otherwise only the caller's own parameters. -/
def Statement_context_argument_reaches_endpoint : Prop :=
  (∀ a, isContextual false a = false) ∧
  (isContextual true .none = false ∧ isContextual true (.str sUnion) = false ∧
   isContextual true (.str Tables.datasetDefaultGraphId) = false ∧
   isContextual true (.graph Tables.datasetDefaultGraphId) = false) ∧
  (∀ i, i ≠ Tables.datasetDefaultGraphId → isContextual true (.graph i) = true ∧
    (i ≠ sUnion → isContextual true (.str i) = true)) ∧
  (∀ (c : Conn) (ca : Bool) (a : CtxArg) (q : Str), ConnOK c → c.queryEndpoint ≠ [] →
    ∃ r p, c.query q (storeDG ca a) = .ok r ∧ serverRead r = some p ∧ p.text = q ∧ p.path = c.queryEndpoint ∧
      (isContextual ca a = true → dget p.params sDefaultGraphUri = a.ident) ∧
      (isContextual ca a = false → p.params = queryParams c .none))

theorem context_argument_reaches_endpoint : Statement_context_argument_reaches_endpoint := by
  refine ⟨?_, ?_, ?_, ?_⟩
  · intro a; simp [isContextual]
  · refine ⟨by simp [isContextual], by simp [isContextual], by simp [isContextual], by simp [isContextual]⟩
  · intro i hi
    refine ⟨by simp [isContextual, hi], fun hu => by simp [isContextual, hi, hu]⟩
  · intro c ca a q ok hne
    obtain ⟨r, h1, h2, h3⟩ := request_assembly_means_op.1 c q (storeDG ca a) ok hne
    refine ⟨r, _, h1, h2, rfl, rfl, ?_, ?_⟩
    · intro hc
      cases a with
      | none => simp [isContextual] at hc
      | str s => simpa [storeDG, hc, CtxArg.ident] using h3 s (by simp [storeDG, hc, CtxArg.ident])
      | graph i => simpa [storeDG, hc, CtxArg.ident] using h3 i (by simp [storeDG, hc, CtxArg.ident])
    · intro hc
      simp only [storeDG, hc]
      cases hm : c.method <;> simp [queryParams, hm, dgParams]

/-! ### non-vacuity: a concrete configuration (caller params and headers, a named graph, a text with a space, `&`, `=`,
    `%`, `+`, a non-ASCII and a non-BMP character) for each method -/

def exConn (m : CMethod) : Conn :=
  { method := m, queryEndpoint := "http://h/query".toList, updateEndpoint := "http://h/update".toList,
    accept := "application/sparql-results+xml, application/rdf+xml".toList,
    params := [("x-extra".toList, "1 & 2".toList)], headers := [("X-Extra".toList, "1".toList)] }

def exText : Str := "ASK { <http://e/s> <http://e/p> \"a+b=c&d %41 é 𝄞\" }".toList

example : ConnOK (exConn .POST_FORM) := ⟨by decide, by decide, fun _ => ⟨by decide, by decide⟩⟩

example : ((exConn .GET).query exText (.iri "http://e/g?x=1&y=2#f".toList)).toOption.bind serverRead =
    some ⟨.query, .get, "http://h/query".toList, exText,
      [("x-extra".toList, "1 & 2".toList), (sDefaultGraphUri, "http://e/g?x=1&y=2#f".toList)],
      some "application/sparql-results+xml, application/rdf+xml".toList⟩ := by decide +kernel

example : ((exConn .POST_FORM).query exText .bnode).toOption.bind serverRead =
    some ⟨.query, .form, "http://h/query".toList, exText, [("x-extra".toList, "1 & 2".toList)],
      some "application/sparql-results+xml, application/rdf+xml".toList⟩ := by decide +kernel

example : ((exConn .GET).update exText none none).toOption.bind serverRead =
    some ⟨.update, .direct, "http://h/update".toList, exText, [("x-extra".toList, "1 & 2".toList)],
      some "application/sparql-results+xml, application/rdf+xml".toList⟩ := by decide +kernel

/-- the hypothesis on the endpoint URL is needed: the code appends `"?" + urlencode(…)` blindly, so an endpoint that
    already carries a query string (`…/sparql?db=x`) makes the server read `db = "x?query=…"` and no `query` at all -/
example : (({ exConn .GET with queryEndpoint := "http://h/sparql?db=x".toList }).query "ASK {}".toList .none).toOption.bind
    serverRead = none := by decide +kernel

/-! ### `response_mime_types` (tables regenerated from `rdflib.util` and the plugin registry on every run) -/

/-- the Accept value names the SPARQL results media type of the configured `returnFormat` and not the other one
    (so a server doing content negotiation answers in the format the store will parse), and is never empty for the
    four table formats -/
def Statement_accept_names_result_format : Prop :=
  ("application/sparql-results+xml" ∈ responseMimeTypes "xml" ∧ "application/sparql-results+json" ∉ responseMimeTypes "xml") ∧
  ("application/sparql-results+json" ∈ responseMimeTypes "json" ∧ "application/sparql-results+xml" ∉ responseMimeTypes "json") ∧
  (∀ fmt ∈ ["xml", "json", "csv", "tsv"], responseMimeTypes fmt ≠ []) ∧
  responseMimeTypes "application/rdf+xml" = ["application/rdf+xml"]

theorem accept_names_result_format : Statement_accept_names_result_format := by
  unfold Statement_accept_names_result_format
  decide +kernel

end RV.C20
