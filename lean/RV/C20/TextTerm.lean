import RV.C20.TextLong
/-
  C20 text layer, lemmas 3: terms, variables, triple patterns.
-/
namespace RV.C20

def tagOK (l : Str) : Bool := !l.isEmpty && l.all isTagChar

/-- the terms the store can send: IRIs in the IRIREF alphabet; literals with ANY lexical form,
    optionally a datatype IRI or a language tag (not both) -/
def TermOK : TTerm → Bool
  | .iri s => iriOK s
  | .lit _ none none => true
  | .lit _ (some d) none => iriOK d
  | .lit _ none (some l) => tagOK l
  | .lit _ (some _) (some _) => false

theorem spanTag_append : ∀ (l r : Str), l.all isTagChar = true → spanTag (l ++ ' ' :: r) = (l, ' ' :: r)
  | [], r, _ => by simp [spanTag, isTagChar, isAlpha, isDigit]
  | c :: l, r, h => by
    simp only [List.all_cons, Bool.and_eq_true] at h
    simp [spanTag, h.1, spanTag_append l r h.2]

theorem readLitRaw_short' (body : Str) (h : ∀ r, body ≠ '"' :: '"' :: r) :
    readLitRaw ('"' :: body) =
      match readShort body with
      | some (lex, rest) => readSuffix lex rest
      | none => none := by
  rw [readLitRaw.eq_def]
  split
  · next r hr => injection hr with _ hr; exact absurd hr (h _)
  · next r hr => injection hr with _ hr; subst hr; rfl
  · next h3 h4 => exact absurd rfl (h4 body)

/-- reading back what `_quote_encode` wrote, followed by a suffix that does not start with a quote -/
theorem readLitRaw_quoteEncode (x sfx : Str) (hs : sfx.head? ≠ some '"') :
    readLitRaw (quoteEncode x ++ sfx) = readSuffix x sfx := by
  unfold quoteEncode
  split
  · simp only [q3, List.cons_append, List.nil_append, List.append_assoc, readLitRaw]
    have := readLong_enc x sfx
    simp only [q3, List.cons_append, List.nil_append, List.append_assoc] at this
    rw [this]
  · next hn =>
    simp only [List.cons_append, List.append_assoc, List.singleton_append, List.nil_append]
    rw [readLitRaw_short' _ (shortEncode_head x hn sfx hs), readShort_enc x sfx hn]

theorem readSuffix_plain (x r : Str) : readSuffix x (' ' :: r) = some (.lit x none none, ' ' :: r) := by
  simp [readSuffix]

theorem readSuffix_lang (x l r : Str) (h : tagOK l = true) :
    readSuffix x ('@' :: l ++ ' ' :: r) = some (.lit x none (some l), ' ' :: r) := by
  simp only [tagOK, Bool.and_eq_true, Bool.not_eq_true', List.isEmpty_eq_false_iff] at h
  simp only [readSuffix, List.cons_append]
  rw [spanTag_append l r h.2]
  cases l with
  | nil => exact absurd rfl h.1
  | cons c l => rfl

theorem readSuffix_dt (x d r : Str) (h : iriOK d = true) :
    readSuffix x ('^' :: '^' :: '<' :: d ++ '>' :: ' ' :: r) = some (.lit x (some d) none, ' ' :: r) := by
  simp only [List.cons_append, readSuffix]
  rw [readIriRaw_write' d _ h]

theorem readNode_sp (s : Str) : readNode (' ' :: s) = readNode s := by simp [readNode, ws_sp]
theorem readNode_nl (s : Str) : readNode ('\n' :: s) = readNode s := by simp [readNode, ws_nl]

theorem quoteEncode_head (x : Str) : ∃ r, quoteEncode x = '"' :: r := by
  unfold quoteEncode; split <;> simp [q3]

/-- a written term, followed by a blank, reads back as that term -/
theorem readNode_term (t : TTerm) (txt r : Str) (hw : wTerm t = some txt) (hok : TermOK t = true) :
    readNode (txt ++ ' ' :: r) = some (.term t, ' ' :: r) := by
  match t, hw, hok with
  | .iri s, hw, hok =>
    simp only [TermOK] at hok
    rw [wTerm_iri s hok] at hw
    injection hw with hw; subst hw
    simp only [readNode, List.cons_append, ws_lt, List.append_assoc, List.singleton_append, List.nil_append]
    rw [readIriRaw_write' s _ hok]; rfl
  | .lit x none none, hw, _ =>
    simp only [wTerm, Option.some.injEq] at hw; subst hw
    obtain ⟨q, hq⟩ := quoteEncode_head x
    have : readNode (quoteEncode x ++ ' ' :: r) = (readLitRaw (quoteEncode x ++ ' ' :: r)).map (fun y => (.term y.1, y.2)) := by
      rw [hq]; simp [readNode, ws_dq]
    rw [this, readLitRaw_quoteEncode x _ (by simp), readSuffix_plain]; rfl
  | .lit x none (some l), hw, hok =>
    simp only [TermOK] at hok
    simp only [wTerm, Option.some.injEq] at hw; subst hw
    obtain ⟨q, hq⟩ := quoteEncode_head x
    have : readNode ((quoteEncode x ++ '@' :: l) ++ ' ' :: r) =
        (readLitRaw (quoteEncode x ++ ('@' :: l ++ ' ' :: r))).map (fun y => (.term y.1, y.2)) := by
      rw [List.append_assoc, hq]; simp [readNode, ws_dq]
    rw [this, readLitRaw_quoteEncode x _ (by simp), readSuffix_lang x l r hok]; rfl
  | .lit x (some d) none, hw, hok =>
    simp only [TermOK] at hok
    simp only [wTerm, Option.some.injEq] at hw; subst hw
    obtain ⟨q, hq⟩ := quoteEncode_head x
    have : readNode ((quoteEncode x ++ '^' :: '^' :: '<' :: d ++ ['>']) ++ ' ' :: r) =
        (readLitRaw (quoteEncode x ++ ('^' :: '^' :: '<' :: d ++ '>' :: ' ' :: r))).map (fun y => (.term y.1, y.2)) := by
      have e : (quoteEncode x ++ '^' :: '^' :: '<' :: d ++ ['>']) ++ ' ' :: r =
          quoteEncode x ++ ('^' :: '^' :: '<' :: d ++ '>' :: ' ' :: r) := by simp
      rw [e, hq]; simp [readNode, ws_dq]
    rw [this, readLitRaw_quoteEncode x _ (by simp), readSuffix_dt x d r hok]; rfl
  | .lit x (some d) (some l), _, hok => simp [TermOK] at hok

/-! ### variables -/

theorem nameChar_S : isNameChar 'S' = true := by decide
theorem nameChar_P : isNameChar 'P' = true := by decide
theorem nameChar_O : isNameChar 'O' = true := by decide
theorem nameChar_s : isNameChar 's' = true := by decide
theorem nameChar_p : isNameChar 'p' = true := by decide
theorem nameChar_o : isNameChar 'o' = true := by decide
theorem nameChar_G : isNameChar 'G' = true := by decide
theorem nameChar_sp : isNameChar ' ' = false := by decide

theorem readNode_var1 (c : Char) (r : Str) (hc : isNameChar c = true) :
    readNode ('?' :: c :: ' ' :: r) = some (.var [c], ' ' :: r) := by
  simp [readNode, ws_qm, spanName, hc, nameChar_sp]

def posName (upper : Bool) : Pos → Char
  | .s => if upper then 'S' else 's'
  | .p => if upper then 'P' else 'p'
  | .o => if upper then 'O' else 'o'

def posVar (upper : Bool) : Pos → Str := if upper then posVarUpper else posVarLower

theorem posVar_eq (upper : Bool) (pos : Pos) : posVar upper pos = ['?', posName upper pos] := by
  cases upper <;> cases pos <;> rfl

theorem posName_nameChar (upper : Bool) (pos : Pos) : isNameChar (posName upper pos) = true := by
  cases upper <;> cases pos <;> decide

/-- the node a pattern position reads back as -/
def nodeOf (upper : Bool) (pos : Pos) : Option TTerm → Node
  | some t => .term t
  | none => .var [posName upper pos]

def PosOK : Option TTerm → Bool
  | none => true
  | some t => TermOK t

theorem readNode_wNode (upper : Bool) (pos : Pos) (x : Option TTerm) (txt r : Str)
    (hw : wNode (posVar upper) pos x = some txt) (hok : PosOK x = true) :
    readNode (txt ++ ' ' :: r) = some (nodeOf upper pos x, ' ' :: r) := by
  cases x with
  | none =>
    simp only [wNode, Option.some.injEq] at hw
    rw [← hw, posVar_eq]
    exact readNode_var1 _ r (posName_nameChar upper pos)
  | some t => exact readNode_term t txt r hw hok

def PatOK (p : TPatT) : Bool := PosOK p.1 && PosOK p.2.1 && PosOK p.2.2

def nodesOf (upper : Bool) (p : TPatT) : NodeTriple :=
  (nodeOf upper .s p.1, nodeOf upper .p p.2.1, nodeOf upper .o p.2.2)

/-- the three nodes of a written pattern body, followed by a blank -/
theorem readNodes_wPatBody (upper : Bool) (p : TPatT) (txt r : Str)
    (hw : wPatBody (posVar upper) p = some txt) (hok : PatOK p = true) :
    ∃ r1 r2, readNode (txt ++ ' ' :: r) = some (nodeOf upper .s p.1, r1) ∧
      readNode r1 = some (nodeOf upper .p p.2.1, r2) ∧
      readNode r2 = some (nodeOf upper .o p.2.2, ' ' :: r) := by
  simp only [PatOK, Bool.and_eq_true] at hok
  unfold wPatBody at hw
  cases ha : wNode (posVar upper) .s p.1 with
  | none => simp [ha] at hw
  | some a =>
    cases hb : wNode (posVar upper) .p p.2.1 with
    | none => simp [ha, hb] at hw
    | some b =>
      cases hc : wNode (posVar upper) .o p.2.2 with
      | none => simp [ha, hb, hc] at hw
      | some c =>
        simp only [ha, hb, hc, Option.some.injEq] at hw
        subst hw
        refine ⟨' ' :: (b ++ ' ' :: (c ++ ' ' :: r)), ' ' :: (c ++ ' ' :: r), ?_, ?_, ?_⟩
        · have := readNode_wNode upper .s p.1 a (b ++ ' ' :: (c ++ ' ' :: r)) ha hok.1.1
          simpa [List.append_assoc] using this
        · rw [readNode_sp]
          exact readNode_wNode upper .p p.2.1 b (c ++ ' ' :: r) hb hok.1.2
        · rw [readNode_sp]
          exact readNode_wNode upper .o p.2.2 c r hc hok.2

theorem nodeVar_nodup (upper : Bool) (p : TPatT) :
    (nodeVar (nodeOf upper .s p.1) ++ nodeVar (nodeOf upper .p p.2.1) ++ nodeVar (nodeOf upper .o p.2.2)).Nodup := by
  obtain ⟨a, b, c⟩ := p
  cases a <;> cases b <;> cases c <;> cases upper <;> simp [nodeOf, nodeVar, posName]

theorem patOf_nodesOf (upper : Bool) (p : TPatT) : patOf [] (nodesOf upper p) = p := by
  obtain ⟨a, b, c⟩ := p
  cases a <;> cases b <;> cases c <;> simp [patOf, nodesOf, nodeOf, nodeVal, lookupVar]

theorem optDot_dot (r : Str) : optDot (' ' :: '.' :: r) = r := by
  simp [optDot, sym, ws_sp, ws_cons '.' r (by decide) (by decide)]

/-- `s p o .` reads back as the pattern -/
theorem readPat_write (upper : Bool) (p : TPatT) (txt r : Str)
    (hw : wPatBody (posVar upper) p = some txt) (hok : PatOK p = true) :
    readPat (txt ++ ' ' :: '.' :: r) = some (nodesOf upper p, r) := by
  obtain ⟨r1, r2, h1, h2, h3⟩ := readNodes_wPatBody upper p txt ('.' :: r) hw hok
  simp only [readPat, h1, h2, h3, nodeVar_nodup upper p, if_true, optDot_dot, nodesOf]

end RV.C20
