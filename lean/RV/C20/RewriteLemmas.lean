import RV.C20.Rewrite
import RV.C20.TextWrite
/-
  C20 — `_insert_named_graph` on the texts the writers produce: string literals (short and
  long-quoted, whatever braces, quotes, hashes they hold), IRIs and variables are copied verbatim,
  only the braces of the blocks are seen.
-/
namespace RV.C20

variable (opn cls : Str)

/-- `B` is copied as it is, in top mode, at any level -/
def Copies (B : Str) : Prop :=
  ∀ (l : Int) (w : Bool) (rest : Str), rwGo opn cls .top l w (B ++ rest) = B ++ rwGo opn cls .top l w rest

theorem copies_nil : Copies opn cls [] := fun _ _ _ => rfl

theorem copies_append {A B : Str} (ha : Copies opn cls A) (hb : Copies opn cls B) : Copies opn cls (A ++ B) := by
  intro l w rest
  rw [List.append_assoc, ha, hb, List.append_assoc]

/-- an ordinary character: none of `{ } " ' < # \` -/
def plainTop (c : Char) : Bool :=
  !(c = '{' || c = '}' || c = '"' || c = '\'' || c = '<' || c = '#' || c = '\\')

theorem copies_plain (c : Char) (h : plainTop c = true) : Copies opn cls [c] := by
  intro l w rest
  simp only [plainTop, Bool.not_eq_true', Bool.or_eq_false_iff, decide_eq_false_iff_not] at h
  obtain ⟨⟨⟨⟨⟨⟨h1, h2⟩, h3⟩, h4⟩, h5⟩, h6⟩, h7⟩ := h
  simp [rwGo, h1, h2, h3, h4, h5, h6, h7]

theorem copies_plains : ∀ (s : Str), s.all plainTop = true → Copies opn cls s
  | [], _ => copies_nil opn cls
  | c :: s, h => by
    simp only [List.all_cons, Bool.and_eq_true] at h
    exact copies_append opn cls (A := [c]) (copies_plain opn cls c h.1) (copies_plains s h.2)

/-! ### IRIs -/

theorem iriOK_notBad {s : Str} (h : iriOK s = true) : ∀ c ∈ s, iriBad c = false ∧ c ≠ '>' := by
  intro c hc
  obtain ⟨h1, h2⟩ := iriOK_mem h hc
  have hne : ∀ x, Tables.invalidUriChars.contains x = true → c ≠ x := by
    intro x hx e; subst e; rw [hx] at h1; cases h1
  refine ⟨?_, hne '>' (by decide)⟩
  have hle : ¬ c ≤ ' ' := Char.not_le.mpr h2
  simp [iriBad, hne '<' (by decide), hne '"' (by decide), hne '{' (by decide), hne '}' (by decide),
    hne '|' (by decide), hne '^' (by decide), hne '`' (by decide), hne '\\' (by decide), hle]

theorem iriCloses_ok : ∀ (s rest : Str), (∀ c ∈ s, iriBad c = false ∧ c ≠ '>') → iriCloses (s ++ '>' :: rest) = true
  | [], rest, _ => by simp [iriCloses]
  | c :: s, rest, h => by
    have hc := h c (List.mem_cons_self ..)
    simp [iriCloses, hc.1, hc.2, iriCloses_ok s rest (fun x hx => h x (List.mem_cons_of_mem _ hx))]

theorem rw_iri_mode (l : Int) (w : Bool) : ∀ (s rest : Str), (∀ c ∈ s, c ≠ '>') →
    rwGo opn cls .iri l w (s ++ '>' :: rest) = s ++ '>' :: rwGo opn cls .top l w rest
  | [], rest, _ => by simp [rwGo]
  | c :: s, rest, h => by
    have hc := h c (List.mem_cons_self ..)
    simp [rwGo, hc, rw_iri_mode l w s rest (fun x hx => h x (List.mem_cons_of_mem _ hx))]

theorem copies_iri (s : Str) (h : iriOK s = true) : Copies opn cls ('<' :: s ++ ['>']) := by
  intro l w rest
  have hb := iriOK_notBad h
  have e : ('<' :: s ++ ['>']) ++ rest = '<' :: (s ++ '>' :: rest) := by simp
  rw [e]
  simp only [rwGo, show ('<' = '{') = False by decide, show ('<' = '}') = False by decide,
    show ('<' = '"') = False by decide, show ('<' = '\'') = False by decide, if_false, Bool.or_self,
    Bool.false_eq_true, decide_false, if_true, iriCloses_ok s rest hb, decide_true]
  rw [rw_iri_mode opn cls l w s rest (fun c hc => (hb c hc).2)]
  simp

/-! ### short strings -/

theorem shortCloses_flat : ∀ (x rest : Str), '\n' ∉ x → shortClosesAux '"' false (x.flatMap encS ++ '"' :: rest) = true
  | [], rest, _ => by simp [shortClosesAux]
  | c :: x, rest, h => by
    have hs : '\n' ∉ x := fun e => h (List.mem_cons_of_mem _ e)
    have ih := shortCloses_flat x rest hs
    rw [List.flatMap_cons]
    by_cases h1 : c = '\\'
    · subst h1; simp [encS, shortClosesAux, ih]
    · by_cases h2 : c = '"'
      · subst h2; simp [encS, shortClosesAux, ih]
      · by_cases h3 : c = '\r'
        · subst h3; simp [encS, shortClosesAux, ih]
        · simp [encS, h1, h2, h3, shortClosesAux, ih]

theorem rw_short_mode (l : Int) (w : Bool) : ∀ (x rest : Str),
    rwGo opn cls (.short '"') l w (x.flatMap encS ++ '"' :: rest) = x.flatMap encS ++ '"' :: rwGo opn cls .top l w rest
  | [], rest => by simp [rwGo]
  | c :: x, rest => by
    have ih := rw_short_mode l w x rest
    rw [List.flatMap_cons]
    by_cases h1 : c = '\\'
    · subst h1; simp [encS, rwGo, ih]
    · by_cases h2 : c = '"'
      · subst h2; simp [encS, rwGo, ih]
      · by_cases h3 : c = '\r'
        · subst h3; simp [encS, rwGo, ih]
        · simp [encS, h1, h2, h3, rwGo, ih]

theorem longStarts_false (body : Str) (h : ∀ r, body ≠ '"' :: '"' :: r) : longStarts '"' body = false := by
  match body, h with
  | [], _ => rfl
  | [_], _ => rfl
  | c2 :: c3 :: r, h =>
    simp only [longStarts]
    by_cases e2 : c2 = '"'
    · by_cases e3 : c3 = '"'
      · subst e2; subst e3; exact absurd rfl (h r)
      · simp [e3]
    · simp [e2]

/-! ### long strings -/

theorem startsQQ_q3 (rest : Str) : startsQQ '"' ('"' :: '"' :: rest) = true := by simp [startsQQ]

theorem startsQQ_lc {e l : Str} (h : LC e l) (hne : e ≠ []) (hf : fq e < 2) (rest : Str) :
    startsQQ '"' (e ++ q3 ++ rest) = false := by
  match e, h, hne, hf with
  | c :: e2, h, _, hf =>
    by_cases hq : c = '"'
    · subst hq
      obtain ⟨hne2, _⟩ := lc_head_q h
      match e2, hne2, hf with
      | c3 :: e3, _, hf =>
        have hq3 : c3 ≠ '"' := by intro e; subst e; simp at hf; omega
        simp [startsQQ, hq3]
    · cases e2 <;> simp [startsQQ, q3, hq]

theorem longCloses_lc {e l : Str} (h : LC e l) (rest : Str) :
    longClosesAux '"' false (e ++ q3 ++ rest) = true := by
  induction h with
  | nil => simp [q3, longClosesAux, startsQQ]
  | bs _ ih =>
    simp only [List.cons_append, List.append_assoc] at ih ⊢
    simp [longClosesAux, ih]
  | quote _ ih =>
    simp only [List.cons_append, List.append_assoc] at ih ⊢
    simp [longClosesAux, ih]
  | cr _ ih =>
    simp only [List.cons_append, List.append_assoc] at ih ⊢
    simp [longClosesAux, ih]
  | plain c hc hq _ ih =>
    simp only [List.cons_append, List.append_assoc] at ih ⊢
    simp [longClosesAux, hc, hq, ih]
  | @q e1 l1 h1 hf hne ih =>
    have hs := startsQQ_lc h1 hne hf rest
    simp only [List.cons_append, List.append_assoc] at ih hs ⊢
    simp [longClosesAux, hs, ih]

theorem rw_long_mode (lv : Int) (w : Bool) {e l : Str} (h : LC e l) (rest : Str) :
    rwGo opn cls (.long '"') lv w (e ++ q3 ++ rest) = e ++ q3 ++ rwGo opn cls .top lv w rest := by
  induction h with
  | nil =>
    cases rest with
    | nil => simp [q3, rwGo, startsQQ]
    | cons x xs => simp [q3, rwGo, startsQQ]
  | bs _ ih =>
    simp only [List.cons_append, List.append_assoc] at ih ⊢
    simp [rwGo, ih]
  | quote _ ih =>
    simp only [List.cons_append, List.append_assoc] at ih ⊢
    simp [rwGo, ih]
  | cr _ ih =>
    simp only [List.cons_append, List.append_assoc] at ih ⊢
    simp [rwGo, ih]
  | plain c hc hq _ ih =>
    simp only [List.cons_append, List.append_assoc] at ih ⊢
    simp [rwGo, hc, hq, ih]
  | @q e1 l1 h1 hf hne ih =>
    have hs := startsQQ_lc h1 hne hf rest
    simp only [List.cons_append, List.append_assoc] at ih hs ⊢
    simp [rwGo, hs, ih]

theorem rw_quotes2 (next : Mode) (l : Int) (w : Bool) (a b : Char) (r : Str) :
    rwGo opn cls (.quotes 2 next) l w (a :: b :: r) = a :: b :: rwGo opn cls next l w r := by
  simp [rwGo]

theorem rw_top_dq_long (l : Int) (w : Bool) (r : Str) (h : longStarts '"' r = true) :
    rwGo opn cls .top l w ('"' :: r) = '"' :: rwGo opn cls (.quotes 2 (.long '"')) l w r := by
  simp [rwGo, h]

theorem rw_top_dq_short (l : Int) (w : Bool) (r : Str) (hl : longStarts '"' r = false)
    (hs : shortCloses '"' r = true) :
    rwGo opn cls .top l w ('"' :: r) = '"' :: rwGo opn cls (.short '"') l w r := by
  simp [rwGo, hl, hs]

/-- what `_quote_encode` wrote — short or long form, any lexical form — is copied verbatim (whatever
    follows, as long as it does not start with a quote) -/
theorem rw_quoteEncode (l : Int) (w : Bool) (x tail : Str) (ht : tail.head? ≠ some '"') :
    rwGo opn cls .top l w (quoteEncode x ++ tail) = quoteEncode x ++ rwGo opn cls .top l w tail := by
  unfold quoteEncode
  split
  · -- long form
    have hcl := longCloses_lc (lc_longEncode x) tail
    have hrw := rw_long_mode opn cls l w (lc_longEncode x) tail
    have e : (q3 ++ longEncode x ++ q3) ++ tail = '"' :: '"' :: '"' :: (longEncode x ++ q3 ++ tail) := by
      simp [q3]
    rw [e]
    have hls : longStarts '"' ('"' :: '"' :: (longEncode x ++ q3 ++ tail)) = true := by
      simp only [longStarts, longCloses, hcl]; decide
    rw [rw_top_dq_long opn cls l w _ hls, rw_quotes2, hrw]
    simp [q3]
  · next hn =>
    have e : ('"' :: (shortEncode x ++ ['"'])) ++ tail = '"' :: (shortEncode x ++ '"' :: tail) := by simp
    rw [e]
    have hnl := shortEncode_head x hn tail ht
    have hls := longStarts_false _ hnl
    have hsc : shortCloses '"' (shortEncode x ++ '"' :: tail) = true := by
      rw [shortEncode_flat x hn]; exact shortCloses_flat x tail hn
    have hrw := rw_short_mode opn cls l w x tail
    rw [← shortEncode_flat x hn] at hrw
    rw [rw_top_dq_short opn cls l w _ hls hsc, hrw]
    simp

/-! ### terms, pattern positions, pattern bodies -/

/-- copied verbatim when a blank follows -/
def CopiesSp (B : Str) : Prop :=
  ∀ (l : Int) (w : Bool) (rest : Str),
    rwGo opn cls .top l w (B ++ ' ' :: rest) = B ++ rwGo opn cls .top l w (' ' :: rest)

theorem copiesSp_of_copies {B : Str} (h : Copies opn cls B) : CopiesSp opn cls B := fun l w rest => h l w _

theorem tagChar_plain {c : Char} (h : isTagChar c = true) : plainTop c = true := by
  have : c ≠ '{' ∧ c ≠ '}' ∧ c ≠ '"' ∧ c ≠ '\'' ∧ c ≠ '<' ∧ c ≠ '#' ∧ c ≠ '\\' := by
    refine ⟨?_, ?_, ?_, ?_, ?_, ?_, ?_⟩ <;> (rintro rfl; simp [isTagChar, isAlpha, isDigit] at h)
  simp [plainTop, this]

theorem copiesSp_term (t : TTerm) (txt : Str) (hw : wTerm t = some txt) (hok : TermOK t = true) :
    CopiesSp opn cls txt := by
  match t, hw, hok with
  | .iri s, hw, hok =>
    simp only [TermOK] at hok
    rw [wTerm_iri s hok] at hw
    injection hw with hw; subst hw
    exact copiesSp_of_copies opn cls (copies_iri opn cls s hok)
  | .lit x none none, hw, _ =>
    simp only [wTerm, Option.some.injEq] at hw; subst hw
    intro l w rest
    exact rw_quoteEncode opn cls l w x (' ' :: rest) (by simp)
  | .lit x none (some lg), hw, hok =>
    simp only [TermOK, tagOK, Bool.and_eq_true] at hok
    simp only [wTerm, Option.some.injEq] at hw; subst hw
    intro l w rest
    have hp : Copies opn cls ('@' :: lg) :=
      copies_append opn cls (A := ['@']) (copies_plain opn cls '@' (by decide))
        (copies_plains opn cls lg (List.all_eq_true.mpr fun c hc => tagChar_plain (List.all_eq_true.mp hok.2 c hc)))
    have e : (quoteEncode x ++ '@' :: lg) ++ ' ' :: rest = quoteEncode x ++ (('@' :: lg) ++ ' ' :: rest) := by simp
    rw [e, rw_quoteEncode opn cls l w x _ (by simp), hp]
    simp
  | .lit x (some d) none, hw, hok =>
    simp only [TermOK] at hok
    simp only [wTerm, Option.some.injEq] at hw; subst hw
    intro l w rest
    have hp : Copies opn cls ('^' :: '^' :: ('<' :: d ++ ['>'])) :=
      copies_append opn cls (A := ['^', '^']) (copies_plains opn cls ['^', '^'] (by decide)) (copies_iri opn cls d hok)
    have e : (quoteEncode x ++ '^' :: '^' :: '<' :: d ++ ['>']) ++ ' ' :: rest =
        quoteEncode x ++ (('^' :: '^' :: ('<' :: d ++ ['>'])) ++ ' ' :: rest) := by simp
    rw [e, rw_quoteEncode opn cls l w x _ (by simp), hp]
    simp
  | .lit x (some d) (some lg), _, hok => simp [TermOK] at hok

theorem copiesSp_node (upper : Bool) (pos : Pos) (x : Option TTerm) (txt : Str)
    (hw : wNode (posVar upper) pos x = some txt) (hok : PosOK x = true) : CopiesSp opn cls txt := by
  cases x with
  | none =>
    simp only [wNode, Option.some.injEq] at hw
    rw [← hw, posVar_eq]
    apply copiesSp_of_copies
    apply copies_plains
    have := posName_nameChar upper pos
    have hp : plainTop (posName upper pos) = true := by cases upper <;> cases pos <;> decide
    simp [plainTop, hp] at hp ⊢
    simpa [plainTop] using hp
  | some t => exact copiesSp_term opn cls t txt hw hok

/-- `s p o` (terms and variables separated by blanks), followed by a blank -/
theorem copiesSp_body (upper : Bool) (p : TPatT) (body : Str) (hw : wPatBody (posVar upper) p = some body)
    (hok : PatOK p = true) : CopiesSp opn cls body := by
  simp only [PatOK, Bool.and_eq_true] at hok
  unfold wPatBody at hw
  cases ha : wNode (posVar upper) .s p.1 with
  | none => simp [ha] at hw
  | some a =>
    cases hb : wNode (posVar upper) .p p.2.1 with
    | none => simp [ha, hb] at hw
    | some b =>
      cases hc : wNode (posVar upper) .o p.2.2 with
      | none => simp [ha, hb, hc] at hw
      | some c =>
        simp only [ha, hb, hc, Option.some.injEq] at hw
        subst hw
        intro l w rest
        have h1 := copiesSp_node opn cls upper .s p.1 a ha hok.1.1 l w (b ++ ' ' :: (c ++ ' ' :: rest))
        have h2 := copiesSp_node opn cls upper .p p.2.1 b hb hok.1.2 l w (c ++ ' ' :: rest)
        have h3 := copiesSp_node opn cls upper .o p.2.2 c hc hok.2 l w rest
        have hsp : ∀ r, rwGo opn cls .top l w (' ' :: r) = ' ' :: rwGo opn cls .top l w r :=
          fun r => copies_plain opn cls ' ' (by decide) l w r
        have e : (a ++ ' ' :: b ++ ' ' :: c) ++ ' ' :: rest = a ++ ' ' :: (b ++ ' ' :: (c ++ ' ' :: rest)) := by simp
        rw [e, h1, hsp, h2, hsp, h3]
        simp

end RV.C20
