import RV.C20.Pattern
import RV.C20.Refine
/-
  C20 — reads answer exactly from the endpoint's content; the endpoint never holds a quad twice
  (so `len` counts every triple of the graph once).
-/
namespace RV.C20

theorem nodup_insertAll (g : GName) : ∀ (ts : List Triple) (qs : List Quad), qs.Nodup →
    (insertAll qs g ts).Nodup
  | [], _, h => h
  | _ :: ts, _, h => nodup_insertAll g ts _ (nodup_sinsert h)

theorem nodup_removeAll (g : GName) : ∀ (ts : List Triple) (qs : List Quad), qs.Nodup →
    (removeAll qs g ts).Nodup
  | [], _, h => h
  | _ :: ts, _, h => nodup_removeAll g ts _ (nodup_sremove h)

theorem nodup_filter {α : Type} (f : α → Bool) : ∀ (l : List α), l.Nodup → (l.filter f).Nodup
  | [], _ => by simp
  | x :: xs, h => by
    rw [List.nodup_cons] at h
    simp only [List.filter_cons]
    split
    · rw [List.nodup_cons]
      exact ⟨fun hm => h.1 (List.mem_filter.mp hm).1, nodup_filter f xs h.2⟩
    · exact nodup_filter f xs h.2

theorem nodup_apply (d : DS) (u : UOp) (h : d.quads.Nodup) : (u.apply d).quads.Nodup := by
  cases u with
  | insertData g ts => exact nodup_insertAll g ts _ h
  | deleteData g ts => exact nodup_removeAll g ts _ h
  | deleteWhere g p => exact nodup_filter _ _ h
  | deleteNamed p => exact nodup_filter _ _ h
  | dropGraph g => cases g <;> exact nodup_filter _ _ h
  | createGraph n => exact h

theorem nodup_applyOps (us : List UOp) : ∀ (d : DS), d.quads.Nodup → (applyOps d us).quads.Nodup := by
  induction us with
  | nil => intro d h; exact h
  | cons u us ih => intro d h; exact ih _ (nodup_apply d u h)

theorem nodup_applyEdits (es : List (List UOp)) : ∀ (d : DS), d.quads.Nodup →
    (applyEdits d es).quads.Nodup := by
  induction es with
  | nil => intro d h; exact h
  | cons e es ih => intro d h; exact ih _ (nodup_applyOps e d h)

theorem nodup_commit (r : Remote) (h : r.ep.quads.Nodup) : r.commit.ep.quads.Nodup := by
  rw [commit_ep]; exact nodup_applyEdits _ _ h

theorem nodup_step (r : Remote) (op : Op) (h : r.ep.quads.Nodup) : (r.step op).1.ep.quads.Nodup := by
  cases op with
  | write w =>
    simp only [Remote.step]
    split
    · exact h
    · split
      · exact h
      · simp only [Remote.enqueue]
        split
        · exact nodup_commit _ h
        · exact h
  | commit =>
    simp only [Remote.step]
    split
    · exact h
    · exact nodup_commit _ h
  | rollback =>
    simp only [Remote.step]
    split <;> exact h
  | read rd =>
    simp only [Remote.step, Remote.preRead]
    split
    · exact h
    · split
      · exact nodup_commit _ h
      · exact h

theorem nodup_run (ops : List Op) : ∀ (r : Remote), r.ep.quads.Nodup → (r.run ops).ep.quads.Nodup := by
  induction ops with
  | nil => intro r h; exact h
  | cons op ops ih => intro r h; exact ih _ (nodup_step r op h)

theorem nodup_graphTriples (g : GName) : ∀ (qs : List Quad), qs.Nodup →
    ((qs.filter (fun q => q.2 == g)).map (·.1)).Nodup
  | [], _ => by simp
  | q :: qs, h => by
    rw [List.nodup_cons] at h
    simp only [List.filter_cons]
    split
    · next hg =>
      rw [List.map_cons, List.nodup_cons]
      refine ⟨?_, nodup_graphTriples g qs h.2⟩
      intro hm
      obtain ⟨q', hq', he⟩ := List.mem_map.mp hm
      obtain ⟨hq1, hq2⟩ := List.mem_filter.mp hq'
      have : q' = q := by
        obtain ⟨t', g'⟩ := q'
        obtain ⟨t, g0⟩ := q
        simp only [beq_iff_eq] at hq2 hg
        simp only at he
        subst he; subst hq2; subst hg; rfl
      exact h.1 (this ▸ hq1)
    · exact nodup_graphTriples g qs h.2

/-- `t in graph` / a wildcard membership test answers whether the graph holds a matching triple -/
theorem contains_exact (hook : Bool) (d : DS) (g : GName) (p : TPat) (hp : p.plain = true) :
    ∃ b, readOut hook d (.contains p g) = .bool b ∧
      (b = true ↔ ∃ t, (t, g) ∈ d.quads ∧ p.matches t = true) := by
  refine ⟨!(triplesOut d g p p).isEmpty, by simp [readOut, encPat_plain hp], ?_⟩
  constructor
  · intro h
    cases hl : triplesOut d g p p with
    | nil => simp [hl] at h
    | cons t ts =>
      have : t ∈ triplesOut d g p p := by rw [hl]; exact List.mem_cons_self ..
      exact ⟨t, (mem_triplesOut d g p t).mp this⟩
  · rintro ⟨t, ht⟩
    have := (mem_triplesOut d g p t).mpr ht
    cases hl : triplesOut d g p p with
    | nil => rw [hl] at this; simp at this
    | cons _ _ => simp

theorem triples_exact (hook : Bool) (d : DS) (g : GName) (p : TPat) (hp : p.plain = true) :
    ∃ ts, readOut hook d (.triples p g) = .triples ts ∧
      ∀ t, t ∈ ts ↔ ((t, g) ∈ d.quads ∧ p.matches t = true) :=
  ⟨triplesOut d g p p, by simp [readOut, encPat_plain hp], mem_triplesOut d g p⟩

theorem contexts_exact (hook : Bool) (d : DS) (t : Triple) (ht : t.plain = true) :
    ∃ ns, readOut hook d (.contexts (some t)) = .names ns ∧
      ∀ n, n ∈ ns ↔ (n ∈ d.graphs ∧ (t, some n) ∈ d.quads) := by
  refine ⟨d.graphs.filter (fun n => (t, some n) ∈ d.quads), by simp [readOut, encTriple_plain ht], ?_⟩
  intro n
  simp [List.mem_filter]

end RV.C20
