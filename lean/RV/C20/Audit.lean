import RV.C20.Props
import RV.C20.TextProps
import RV.C20.ValuesProps
import RV.C20.ConnProps
import RV.C20.ResultProps
import RV.C20.EndToEnd
import RV.C20.SliceProps
open RV.C20
#print axioms remote_mirrors
#print axioms deferred_visibility
#print axioms rollback_discards_exactly_uncommitted
#print axioms dirty_read_sees_old
#print axioms commit_idempotent
#print axioms refused_write_no_effect
#print axioms pattern_query_shape
#print axioms reads_exact
#print axioms commit_sends_whole_queue_in_order
#print axioms dedup_would_lose_a_write
#print axioms term_text_roundtrip
#print axioms request_text_means_op
#print axioms commit_text_is_sequence
#print axioms separator_survives_trailing_comment
#print axioms query_text_means_pattern
#print axioms named_graph_rewrite_means_move
#print axioms values_block_means_join
#print axioms request_assembly_means_op
#print axioms accept_names_result_format
#print axioms result_decoding_exact
#print axioms answer_comes_back
#print axioms context_argument_reaches_endpoint
#print axioms commit_reaches_endpoint_as_operations
#print axioms pattern_read_reaches_endpoint
#print axioms long_transaction_stays_queued
#print axioms add_graph_resends_create
#print axioms slice_query_means_pattern
