import RV.C20.Props
open RV.C20
#print axioms remote_mirrors
#print axioms deferred_visibility
#print axioms rollback_discards_exactly_uncommitted
#print axioms dirty_read_sees_old
#print axioms commit_idempotent
#print axioms refused_write_no_effect
#print axioms pattern_query_shape
#print axioms reads_exact
