import RV.C20.Result
/-
  C20 — lemmas for result decoding (adapted from lean/RV/C16/LemJson.lean, LemXml.lean; the writers are the W3C
  documents `wireJson` / `wireXml`).
-/
namespace RV.C20.Res

/-! ### keys are pairwise different (finite table, by evaluation) -/

theorem key_facts :
    kValue ≠ kType ∧ kDatatype ≠ kType ∧ kDatatype ≠ kValue ∧ kXmlLang ≠ kType ∧ kXmlLang ≠ kValue
    ∧ kXmlLang ≠ kDatatype ∧ kDatatype ≠ kXmlLang
    ∧ kLiteral ≠ kUri ∧ kBnode ≠ kUri ∧ kBnode ≠ kLiteral ∧ kBnode ≠ kTypedLiteral
    ∧ kHead ≠ kBoolean ∧ kResults ≠ kBoolean ∧ kHead ≠ kResults ∧ kResults ≠ kHead ∧ kBoolean ≠ kHead := by decide

/-! ### language tags -/

theorem validLang_ne_nil {l : Str} (h : validLang l = true) : l ≠ [] := by
  intro e; subst e; revert h; decide

theorem mkLiteral_lang {s l : Str} (h : validLang l = true) : mkLiteral s none (some l) = .ok (.lang s l) := by
  cases l with
  | nil => exact absurd rfl (validLang_ne_nil h)
  | cons c cs => simp [mkLiteral, h]

@[simp] theorem mkLiteral_plain (s : Str) : mkLiteral s none none = .ok (.plain s) := rfl
@[simp] theorem mkLiteral_typed (s d : Str) : mkLiteral s (some d) none = .ok (.typed s d) := rfl


theorem parse_termToJson {t : Term} (h : langOk t = true) : parseJsonTerm (termToJson t) = .ok t := by
  cases t with
  | iri s => simp +decide [termToJson, parseJsonTerm, alookup, jStr, Except.map]
  | bnode s => simp +decide [termToJson, parseJsonTerm, alookup, jStr, Except.map]
  | plain s => simp +decide [termToJson, parseJsonTerm, alookup, jStr, jOptStr]
  | typed s d => simp +decide [termToJson, parseJsonTerm, alookup, jStr, jOptStr]
  | lang s l =>
    have hl : validLang l = true := h
    simp +decide [termToJson, parseJsonTerm, alookup, jStr, jOptStr, mkLiteral_lang hl]

/-! ### binding dicts and aligned rows -/

/-- every bound term of the row satisfies `p` -/
def rowAll (p : Term → Bool) : Row → Bool
  | [] => true
  | none :: r => rowAll p r
  | some t :: r => p t && rowAll p r

theorem parseJsonBinding_bindingToJson (vars : List Str) (row : Row) (h : rowAll langOk row = true) :
    parseJsonBinding (bindingToJson vars row) = .ok (bindingPairs vars row) := by
  induction vars generalizing row with
  | nil => cases row <;> simp [bindingToJson, bindingPairs, parseJsonBinding]
  | cons v vs ih =>
    cases row with
    | nil => simp [bindingToJson, bindingPairs, parseJsonBinding]
    | cons c cs =>
      cases c with
      | none => simpa [bindingToJson, bindingPairs] using ih cs (by simpa [rowAll] using h)
      | some t =>
        have h' : langOk t = true ∧ rowAll langOk cs = true := by simpa [rowAll] using h
        simp [bindingToJson, bindingPairs, parseJsonBinding, parse_termToJson h'.1, ih cs h'.2]

theorem parseJsonRows_map (vars : List Str) (rows : List Row) (h : ∀ r ∈ rows, rowAll langOk r = true) :
    parseJsonRows (rows.map (fun r => .obj (bindingToJson vars r))) = .ok (rows.map (bindingPairs vars)) := by
  induction rows with
  | nil => rfl
  | cons r rs ih =>
    have h1 := h r (by simp)
    have h2 : ∀ r ∈ rs, rowAll langOk r = true := fun x hx => h x (by simp [hx])
    simp [parseJsonRows, parseJsonBinding_bindingToJson vars r h1, ih h2]

theorem jStrs_map (vars : List Str) : jStrs (vars.map .str) = .ok vars := by
  induction vars with
  | nil => rfl
  | cons v vs ih => simp [jStrs, jStr, ih]

theorem alookup_bindingPairs_notin {v : Str} {vs : List Str} (h : v ∉ vs) (cs : Row) :
    alookup v (bindingPairs vs cs) = none := by
  induction vs generalizing cs with
  | nil => cases cs <;> simp [bindingPairs, alookup]
  | cons w ws ih =>
    have hw : w ≠ v := fun e => h (by simp [e])
    have hws : v ∉ ws := fun e => h (by simp [e])
    cases cs with
    | nil => simp [bindingPairs, alookup]
    | cons c cs =>
      cases c with
      | none => simpa [bindingPairs] using ih hws cs
      | some t => simp [bindingPairs, alookup, hw, ih hws cs]

theorem alignDict_cons_notin {v : Str} {vs : List Str} (h : v ∉ vs) (t : Term) (d : List (Str × Term)) :
    alignDict vs ((v, t) :: d) = alignDict vs d := by
  unfold alignDict
  apply List.map_congr_left
  intro w hw
  have : v ≠ w := fun e => h (e ▸ hw)
  simp [alookup, this]

/-- the observation of the dict built from an aligned row is that row -/
theorem alignDict_bindingPairs {vars : List Str} (hnd : vars.Nodup) (row : Row) (hlen : row.length = vars.length) :
    alignDict vars (bindingPairs vars row) = row := by
  induction vars generalizing row with
  | nil => cases row with
    | nil => rfl
    | cons c cs => simp at hlen
  | cons v vs ih =>
    cases row with
    | nil => simp at hlen
    | cons c cs =>
      have hv : v ∉ vs := (List.nodup_cons.mp hnd).1
      have hvs : vs.Nodup := (List.nodup_cons.mp hnd).2
      have hl : cs.length = vs.length := by simpa using hlen
      cases c with
      | none =>
        have := ih hvs cs hl
        simp only [bindingPairs]
        simp only [alignDict, List.map_cons, alookup_bindingPairs_notin hv cs]
        simpa [alignDict] using this
      | some t =>
        have := ih hvs cs hl
        simp only [bindingPairs]
        have e := alignDict_cons_notin hv t (bindingPairs vs cs)
        show alookup v ((v, t) :: bindingPairs vs cs) :: alignDict vs ((v, t) :: bindingPairs vs cs) = some t :: cs
        rw [e, this]
        simp [alookup]

/-- the result as rdflib can hold it and the model represents it: distinct variables, rows aligned -/
structure Aligned (vars : List Str) (rows : List Row) : Prop where
  nodup : vars.Nodup
  len : ∀ r ∈ rows, r.length = vars.length

theorem map_align {vars : List Str} {rows : List Row} (h : Aligned vars rows) :
    (rows.map (bindingPairs vars)).map (alignDict vars) = rows := by
  rw [List.map_map]
  conv => rhs; rw [← List.map_id rows]
  apply List.map_congr_left
  intro r hr
  simpa using alignDict_bindingPairs h.nodup r (h.len r hr)

theorem ofJson_wireJson_select {vars : List Str} {rows : List Row} (h : Aligned vars rows)
    (hl : ∀ r ∈ rows, rowAll langOk r = true) :
    ofJson (wireJson (.select vars rows)) = .ok (.select vars rows) := by
  simp +decide [wireJson, ofJson, alookup, parseJsonRows_map vars rows hl, jStrs_map, map_align h]

theorem ofJson_wireJson_ask (b : Bool) : ofJson (wireJson (.ask b)) = .ok (.ask b) := by
  simp +decide [wireJson, ofJson, alookup]



/-! ### XML -/



theorem truthy_cons (c : Char) (cs : Str) : truthy (some (c :: cs)) = some (c :: cs) := rfl

theorem parse_termToXml {t : Term} (h : xmlTermOk t = true) : parseXmlTerm (termToXml t) = .ok t := by
  cases t with
  | iri s =>
    cases s with
    | nil => simp [xmlTermOk] at h
    | cons c cs => simp +decide [termToXml, parseXmlTerm, Xml.tag, Xml.text]
  | bnode s =>
    cases s with
    | nil => simp [xmlTermOk] at h
    | cons c cs => simp +decide [termToXml, parseXmlTerm, Xml.tag, Xml.text]
  | plain s => simp +decide [termToXml, parseXmlTerm, Xml.tag, Xml.text, Xml.attrs, alookup, truthy]
  | typed s d =>
    cases d with
    | nil => simp [xmlTermOk] at h
    | cons c cs => simp +decide [termToXml, parseXmlTerm, Xml.tag, Xml.text, Xml.attrs, alookup, truthy]
  | lang s l =>
    have hl : validLang l = true := h
    cases l with
    | nil => exact absurd rfl (validLang_ne_nil hl)
    | cons c cs =>
      simp +decide [termToXml, parseXmlTerm, Xml.tag, Xml.text, Xml.attrs, alookup, truthy, mkLiteral_lang hl]

theorem parseXmlBindings_bindingToXml (vars : List Str) (row : Row) (h : rowAll xmlTermOk row = true) :
    parseXmlBindings (bindingToXml vars row) = .ok (bindingPairs vars row) := by
  induction vars generalizing row with
  | nil => cases row <;> simp [bindingToXml, bindingPairs, parseXmlBindings]
  | cons v vs ih =>
    cases row with
    | nil => simp [bindingToXml, bindingPairs, parseXmlBindings]
    | cons c cs =>
      cases c with
      | none => simpa [bindingToXml, bindingPairs] using ih cs (by simpa [rowAll] using h)
      | some t =>
        have h' : xmlTermOk t = true ∧ rowAll xmlTermOk cs = true := by simpa [rowAll] using h
        simp +decide [bindingToXml, bindingPairs, parseXmlBindings, Xml.tag, Xml.attrs, Xml.kids, alookup,
          parse_termToXml h'.1, ih cs h'.2]

theorem parseXmlResults_map (vars : List Str) (rows : List Row) (h : ∀ r ∈ rows, rowAll xmlTermOk r = true) :
    parseXmlResults (rows.map (fun r => .node tResult [] [] (bindingToXml vars r)))
      = .ok (rows.map (bindingPairs vars)) := by
  induction rows with
  | nil => rfl
  | cons r rs ih =>
    have h1 := h r (by simp)
    have h2 : ∀ r ∈ rs, rowAll xmlTermOk r = true := fun x hx => h x (by simp [hx])
    simp [parseXmlResults, Xml.tag, Xml.kids, parseXmlBindings_bindingToXml vars r h1, ih h2]

theorem headVars_map (vars : List Str) :
    headVars (vars.map (fun v => Xml.node tVariable [(aName, v)] [] [])) = .ok vars := by
  induction vars with
  | nil => rfl
  | cons v vs ih => simp [headVars, Xml.tag, Xml.attrs, alookup, ih]

theorem ofXml_wireXml_select {vars : List Str} {rows : List Row} (h : Aligned vars rows)
    (hl : ∀ r ∈ rows, rowAll xmlTermOk r = true) :
    ofXml (wireXml (.select vars rows)) = .ok (.select vars rows) := by
  simp +decide [wireXml, ofXml, headXml, findTag, allHeadVars, Xml.tag, Xml.kids, headVars_map,
    parseXmlResults_map vars rows hl, map_align h]

theorem ofXml_wireXml_ask (b : Bool) : ofXml (wireXml (.ask b)) = .ok (.ask b) := by
  cases b <;> rfl

/-! ### text level -/

end RV.C20.Res
